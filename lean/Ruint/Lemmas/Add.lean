import Ruint.Model.Add
import Ruint.Lemmas.Basic
import Ruint.Lemmas.RsTactic

namespace Ruint.Add
open Ruint

theorem toNat_or_decide (p q : Prop) [Decidable p] [Decidable q] :
    (decide p || decide q).toNat = if p ∨ q then 1 else 0 := by
  by_cases hp : p <;> by_cases hq : q <;> simp [hp, hq]

/-- from "value mod W and exact carry flag" to the value equation -/
theorem word_flag_to_eq (r s : ℕ) (f : Bool) (hr : r = s % W) (hf : f = true ↔ W ≤ s) (hs : s < 2 * W) :
    r + W * f.toNat = s ∧ r < W := by
  have hW := W_pos
  subst hr
  refine ⟨?_, Nat.mod_lt _ hW⟩
  cases f
  · have : s < W := by
      by_contra h; have := hf.2 (by omega); simp at this
    simp [Nat.mod_eq_of_lt this]
  · have : W ≤ s := hf.1 rfl
    have e : s % W = s - W := by
      rw [Nat.mod_eq_sub_mod this, Nat.mod_eq_of_lt (by omega)]
    simp only [Bool.toNat_true, Nat.mul_one]
    omega

/-- The word primitive GENERATED from the source (`Ruint.Gen.carrying_add`) adds with carry. The proof
    only uses generic rewriting and `omega`, so semantically neutral rewrites of the Rust function
    (e.g. `|` → `^` on the two carries, which are never both set) keep it valid. -/
theorem carryingAdd_flag (a b : ℕ) (c : Bool) (ha : a < W) (hb : b < W) :
    (carryingAdd a b c).1 = (a + b + c.toNat) % W
    ∧ ((carryingAdd a b c).2 = true ↔ W ≤ a + b + c.toNat) := by
  have hc : c.toNat ≤ 1 := Bool.toNat_le c
  unfold carryingAdd Ruint.Gen.carrying_add
  rs_norm
  generalize c.toNat = k at *
  unfold W at *
  omega

theorem carryingAdd_spec (a b : ℕ) (c : Bool) (ha : a < W) (hb : b < W) :
    (carryingAdd a b c).1 + W * (carryingAdd a b c).2.toNat = a + b + c.toNat
    ∧ (carryingAdd a b c).1 < W := by
  obtain ⟨h1, h2⟩ := carryingAdd_flag a b c ha hb
  have hc : c.toNat ≤ 1 := Bool.toNat_le c
  exact word_flag_to_eq _ _ _ h1 h2 (by omega)

theorem borrowingSub_flag (a b : ℕ) (c : Bool) (ha : a < W) (hb : b < W) :
    (borrowingSub a b c).1 = (a + W - b - c.toNat) % W
    ∧ ((borrowingSub a b c).2 = true ↔ a < b + c.toNat) := by
  have hc : c.toNat ≤ 1 := Bool.toNat_le c
  unfold borrowingSub Ruint.Gen.borrowing_sub
  rs_norm
  generalize c.toNat = k at *
  unfold W at *
  omega

theorem borrowingSub_spec (a b : ℕ) (c : Bool) (ha : a < W) (hb : b < W) :
    (borrowingSub a b c).1 + b + c.toNat = a + W * (borrowingSub a b c).2.toNat
    ∧ (borrowingSub a b c).1 < W := by
  obtain ⟨h1, h2⟩ := borrowingSub_flag a b c ha hb
  have hc : c.toNat ≤ 1 := Bool.toNat_le c
  have hW := W_pos
  refine ⟨?_, by rw [h1]; exact Nat.mod_lt _ hW⟩
  rw [h1]
  generalize c.toNat = k at *
  cases hf : (borrowingSub a b c).2
  · have : ¬ a < b + k := fun h => by have := h2.2 h; simp [hf] at this
    have e : (a + W - b - k) % W = a - b - k := by
      have : a + W - b - k = (a - b - k) + W := by omega
      rw [this, Nat.add_mod_right, Nat.mod_eq_of_lt (by omega)]
    simp only [Bool.toNat_false, Nat.mul_zero, Nat.add_zero, e]; omega
  · have : a < b + k := h2.1 hf
    have e : (a + W - b - k) % W = a + W - b - k := Nat.mod_eq_of_lt (by omega)
    simp only [Bool.toNat_true, Nat.mul_one, e]; omega

theorem addChain_spec (as bs : List ℕ) (c : Bool) (h : as.length = bs.length)
    (ha : AllLt as) (hb : AllLt bs) :
    val (addChain as bs c).1 + W ^ as.length * (addChain as bs c).2.toNat
      = val as + val bs + c.toNat
    ∧ (addChain as bs c).1.length = as.length ∧ AllLt (addChain as bs c).1 := by
  induction as generalizing bs c with
  | nil => cases bs <;> simp_all [addChain, AllLt]
  | cons a as ih =>
    cases bs with
    | nil => simp at h
    | cons b bs =>
      simp only [List.length_cons, Nat.add_right_cancel_iff] at h
      obtain ⟨e1, e2⟩ := carryingAdd_spec a b c ha.head hb.head
      obtain ⟨ih1, ih2, ih3⟩ := ih bs (carryingAdd a b c).2 h ha.tail hb.tail
      simp only [addChain, val_cons, List.length_cons, pow_succ]
      refine ⟨?_, by simp [ih2], AllLt.cons e2 ih3⟩
      generalize (addChain as bs (carryingAdd a b c).2) = r at *
      generalize (carryingAdd a b c) = s at *
      nlinarith [ih1, e1]

theorem subChain_spec (as bs : List ℕ) (c : Bool) (h : as.length = bs.length)
    (ha : AllLt as) (hb : AllLt bs) :
    val (subChain as bs c).1 + val bs + c.toNat
      = val as + W ^ as.length * (subChain as bs c).2.toNat
    ∧ (subChain as bs c).1.length = as.length ∧ AllLt (subChain as bs c).1 := by
  induction as generalizing bs c with
  | nil => cases bs <;> simp_all [subChain, AllLt]
  | cons a as ih =>
    cases bs with
    | nil => simp at h
    | cons b bs =>
      simp only [List.length_cons, Nat.add_right_cancel_iff] at h
      obtain ⟨e1, e2⟩ := borrowingSub_spec a b c ha.head hb.head
      obtain ⟨ih1, ih2, ih3⟩ := ih bs (borrowingSub a b c).2 h ha.tail hb.tail
      simp only [subChain, val_cons, List.length_cons, pow_succ]
      refine ⟨?_, by simp [ih2], AllLt.cons e2 ih3⟩
      generalize (subChain as bs (borrowingSub a b c).2) = r at *
      generalize (borrowingSub a b c) = s at *
      nlinarith [ih1, e1]

/-- value-level core of `overflowing_add`. -/
theorem oadd_value (bits n a b r c : ℕ) (hn : 2 ^ bits ∣ W ^ n)
    (hsum : r + W ^ n * c = a + b) (ha : a < 2 ^ bits) (hb : b < 2 ^ bits) :
    r % 2 ^ bits = (a + b) % 2 ^ bits ∧ ((c ≠ 0 ∨ 2 ^ bits ≤ r) ↔ 2 ^ bits ≤ a + b) := by
  obtain ⟨k, hk⟩ := hn
  have hpos : 0 < 2 ^ bits := by positivity
  constructor
  · rw [← hsum, hk, Nat.mul_assoc, Nat.add_mul_mod_self_left]
  · constructor
    · rintro (hc | hr2)
      · have : 1 ≤ c := Nat.one_le_iff_ne_zero.mpr hc
        have hle : 2 ^ bits ≤ W ^ n := Nat.le_of_dvd (by have := W_pos; positivity) ⟨k, hk⟩
        nlinarith
      · omega
    · intro h
      by_cases hc : c = 0
      · right; subst hc; simp at hsum; omega
      · left; exact hc

/-- value-level core of `overflowing_sub`. -/
theorem osub_value (bits n a b r c : ℕ) (hn : 2 ^ bits ∣ W ^ n) (hc : c ≤ 1) (hr : r < W ^ n)
    (hsum : r + b = a + W ^ n * c) (ha : a < 2 ^ bits) (hb : b < 2 ^ bits) :
    r % 2 ^ bits = (a + 2 ^ bits - b) % 2 ^ bits ∧ ((c ≠ 0 ∨ 2 ^ bits ≤ r) ↔ a < b) := by
  obtain ⟨k, hk⟩ := hn
  have hpos : 0 < 2 ^ bits := by positivity
  have hkpos : 0 < k := by
    rcases Nat.eq_zero_or_pos k with h | h
    · subst h; have := W_pos; have : 0 < W ^ n := by positivity
      omega
    · exact h
  by_cases hab : a < b
  · have hc1 : c = 1 := by
      by_contra hne
      have : c = 0 := by omega
      subst this; omega
    subst hc1
    refine ⟨?_, by simp [hab]⟩
    have e : r = (a + 2 ^ bits - b) + 2 ^ bits * (k - 1) := by
      have : 2 ^ bits * k = 2 ^ bits * (k - 1) + 2 ^ bits := by
        rw [← Nat.mul_succ]; congr 1; omega
      rw [hk] at hsum; omega
    rw [e, Nat.add_mul_mod_self_left]
  · have hc0 : c = 0 := by
      by_contra hne
      have : c = 1 := by omega
      subst this; omega
    subst hc0
    have e : r = a - b := by omega
    refine ⟨?_, ?_⟩
    · rw [e]
      have : a + 2 ^ bits - b = (a - b) + 2 ^ bits := by omega
      rw [this, Nat.add_mod_right]
    · simp only [ne_eq, not_true_eq_false, false_or, hab, iff_false, not_le]
      omega

theorem zero_canon (bits : ℕ) : Canon bits (zero bits) ∧ val (zero bits) = 0 := by
  have hv : ∀ n, val (List.replicate n 0) = 0 := by
    intro n; induction n with
    | zero => rfl
    | succ n ih => simp [List.replicate_succ, ih]
  refine ⟨⟨by simp [zero], ?_, ?_⟩, hv _⟩
  · intro x hx; simp only [zero, List.mem_replicate] at hx; rw [hx.2]; exact W_pos
  · rw [zero, hv]; positivity

theorem val_replicate_max (n : ℕ) : val (List.replicate n (W - 1)) = W ^ n - 1 := by
  induction n with
  | zero => rfl
  | succ n ih =>
    simp only [List.replicate_succ, val_cons, ih, pow_succ]
    have h1 : 0 < W ^ n := by have := W_pos; positivity
    have h2 := W_pos
    have : W * (W ^ n - 1) = W ^ n * W - W := by
      rw [Nat.mul_sub, Nat.mul_one, Nat.mul_comm]
    rw [this]
    have : W ≤ W ^ n * W := Nat.le_mul_of_pos_left W h1
    omega

theorem max_canon (bits : ℕ) : Canon bits (max bits) ∧ val (max bits) = 2 ^ bits - 1 := by
  rcases Nat.eq_zero_or_pos bits with h | h
  · subst h; simp [max, nlimbs, maskTop, Canon, AllLt]
  · have hl : (List.replicate (nlimbs bits) (W - 1)).length = nlimbs bits := by simp
    have ha : AllLt (List.replicate (nlimbs bits) (W - 1)) := by
      intro x hx; simp only [List.mem_replicate] at hx; rw [hx.2]; have := W_pos; omega
    obtain ⟨h1, h2, _⟩ := maskTop_spec bits h _ hl ha
    refine ⟨h1, ?_⟩
    unfold max
    rw [h2, val_replicate_max]
    obtain ⟨k, hk⟩ := pow_dvd_W bits
    have hp : 0 < 2 ^ bits := by positivity
    have hkpos : 0 < k := by
      rcases Nat.eq_zero_or_pos k with h | h
      · subst h; have := W_pos; have : 0 < W ^ nlimbs bits := by positivity
        omega
      · exact h
    rw [hk]
    have : 2 ^ bits * k - 1 = (2 ^ bits - 1) + 2 ^ bits * (k - 1) := by
      have : 2 ^ bits * k = 2 ^ bits * (k - 1) + 2 ^ bits := by
        rw [← Nat.mul_succ]; congr 1; omega
      omega
    rw [this, Nat.add_mul_mod_self_left, Nat.mod_eq_of_lt (by omega)]

end Ruint.Add
