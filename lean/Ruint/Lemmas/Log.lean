import Ruint.Model.Log
import Ruint.Lemmas.Pow
import Mathlib.Tactic.Ring
import Mathlib.Tactic.Linarith
import Mathlib.Tactic.NormNum
import Mathlib.Tactic.Positivity
import Mathlib.Tactic.Push

/-!
# Lemmas for `Model/Log.lean` (C13): the two correction loops of `log`

Re-homed from `notes/probes/log_correction_loops_full_proof.lean`, now about the functions the driver
executes (`Ruint.Log.downLoop`, `upLoop`, `log`, …), which call the `checked_pow` model of
`Model/Pow.lean`; `checkedPow_eq` turns that call into `base^r < 2^bits`.

The float estimate is the parameter `est`. Two kinds of facts:
* **totality** for every estimate `< 2^bits`: no panic, no fuel exhaustion;
* **exactness** when `est ≤ ⌊log⌋ + 1 ∨ base^est < 2^bits` (the once-only decrement on overflow needs it).
-/
namespace Ruint.Log
open Ruint.Pow

theorem one_le_pow' (base r : ℕ) (hb : 2 ≤ base) : 1 ≤ base ^ r := Nat.one_le_pow _ _ (by omega)

theorem pow_mono (base a b : ℕ) (hb : 2 ≤ base) (h : a ≤ b) : base ^ a ≤ base ^ b :=
  Nat.pow_le_pow_right (by omega) h

/-- `base^n > n`, hence `≥ 2^bits` once `n ≥ 2^bits`. -/
theorem lt_base_pow (base n : ℕ) (hb : 2 ≤ base) : n < base ^ n :=
  lt_of_lt_of_le Nat.lt_two_pow_self (Nat.pow_le_pow_left hb n)

/-- the floor logarithm is unique. -/
theorem flog_unique (base x a b : ℕ) (hb : 2 ≤ base)
    (ha1 : base ^ a ≤ x) (ha2 : x < base ^ (a + 1)) (hb1 : base ^ b ≤ x) (hb2 : x < base ^ (b + 1)) :
    a = b := by
  rcases Nat.lt_trichotomy a b with h | h | h
  · have := pow_mono base (a + 1) b hb (by omega); omega
  · exact h
  · have := pow_mono base (b + 1) a hb (by omega); omega

/-- the down-loop: total for every start `r < 2^bits`; result `≤ r`; and `base^result ≤ x` when the
    start satisfies the estimate hypothesis. -/
theorem downLoop_spec (bits base x : ℕ) (hbits : 0 < bits) (hb : 2 ≤ base) (hbM : base < 2 ^ bits)
    (hx1 : 1 ≤ x) (hxM : x < 2 ^ bits) (f r : ℕ) (hf : r < f) (hrM : r < 2 ^ bits) :
    ∃ r', downLoop bits base x f r = .ok r' ∧ r' ≤ r ∧
      ∀ L, base ^ L ≤ x → (r ≤ L + 1 ∨ base ^ r < 2 ^ bits) → base ^ r' ≤ x := by
  induction f generalizing r with
  | zero => omega
  | succ f ih =>
    simp only [downLoop, checkedPow_eq bits base r hbits hbM]
    by_cases hlt : base ^ r < 2 ^ bits
    · simp only [hlt, if_true]
      by_cases hgt : base ^ r > x
      · simp only [hgt, if_true]
        have hr : r ≠ 0 := by
          intro h0; rw [h0] at hgt; simp at hgt; omega
        simp only [hr, if_false]
        obtain ⟨r', h1, h2, h3⟩ := ih (r - 1) (by omega) (by omega)
        refine ⟨r', h1, by omega, fun L hL _ => h3 L hL (Or.inr ?_)⟩
        have := pow_mono base (r - 1) r hb (by omega)
        omega
      · simp only [hgt, if_false]
        exact ⟨r, rfl, le_refl _, fun _ _ _ => by omega⟩
    · simp only [hlt, if_false]
      have hr : 1 ≤ r := by
        rcases Nat.eq_zero_or_pos r with h0 | h0
        · rw [h0] at hlt; simp at hlt
          have := two_le_two_pow bits hbits; omega
        · exact h0
      have hw : (r + 2 ^ bits - 1) % 2 ^ bits = r - 1 := by
        have : r + 2 ^ bits - 1 = (r - 1) + 2 ^ bits := by omega
        rw [this, Nat.add_mod_right, Nat.mod_eq_of_lt (by omega)]
      rw [hw]
      refine ⟨r - 1, rfl, by omega, fun L hL hest => ?_⟩
      rcases hest with h | h
      · exact le_trans (pow_mono base (r - 1) L hb (by omega)) hL
      · exact h.elim

/-- the up-loop: total once `x < base^(r+f)`; exact when started at or below the floor log. -/
theorem upLoop_spec (bits base x : ℕ) (hbits : 0 < bits) (hb : 2 ≤ base) (hbM : base < 2 ^ bits)
    (hxM : x < 2 ^ bits) (f r : ℕ) (hf : x < base ^ (r + f)) :
    ∃ r', upLoop bits base x (f + 1) r = .ok r' ∧
      (base ^ r ≤ x → base ^ r' ≤ x ∧ x < base ^ (r' + 1)) := by
  induction f generalizing r with
  | zero =>
    -- `x < base^r`: whatever happens, at most one more test; the exactness premise is false
    simp only [Nat.add_zero] at hf
    have hnext : x < base ^ (r + 1) := lt_of_lt_of_le hf (pow_mono base r (r + 1) hb (by omega))
    simp only [upLoop]
    by_cases hadd : r + 1 < 2 ^ bits
    · simp only [hadd, if_true, checkedPow_eq bits base (r + 1) hbits hbM]
      by_cases hlt : base ^ (r + 1) < 2 ^ bits
      · simp only [hlt, if_true]
        have : ¬ (base ^ (r + 1) ≤ x) := by omega
        simp only [this, if_false]
        exact ⟨r, rfl, fun h => by omega⟩
      · simp only [hlt, if_false]
        exact ⟨r, rfl, fun h => by omega⟩
    · simp only [hadd, if_false]
      exact ⟨r, rfl, fun h => by omega⟩
  | succ f ih =>
    rw [upLoop]
    by_cases hadd : r + 1 < 2 ^ bits
    · simp only [hadd, if_true, checkedPow_eq bits base (r + 1) hbits hbM]
      by_cases hlt : base ^ (r + 1) < 2 ^ bits
      · simp only [hlt, if_true]
        by_cases hle : base ^ (r + 1) ≤ x
        · simp only [hle, if_true]
          obtain ⟨r', h1, h2⟩ := ih (r + 1) (by rw [show r + 1 + f = r + (f + 1) by ring]; exact hf)
          exact ⟨r', h1, fun _ => h2 hle⟩
        · simp only [hle, if_false]
          exact ⟨r, rfl, fun h => ⟨h, by omega⟩⟩
      · simp only [hlt, if_false]
        exact ⟨r, rfl, fun h => ⟨h, by omega⟩⟩
    · simp only [hadd, if_false]
      refine ⟨r, rfl, fun h => ⟨h, ?_⟩⟩
      have := lt_base_pow base (r + 1) hb
      omega

/-- `bit_len x − 1 = ⌊log2 x⌋`. -/
theorem bitLen_sub_one (x L : ℕ) (hx : 0 < x) (h1 : 2 ^ L ≤ x) (h2 : x < 2 ^ (L + 1)) :
    bitLen x - 1 = L := by
  unfold bitLen
  rw [if_neg (by omega), Nat.add_sub_cancel]
  exact (Nat.log2_eq_iff (by omega)).2 ⟨h1, h2⟩

theorem bitLen_lt_two_iff (x : ℕ) : bitLen x < 2 ↔ x < 2 := by
  unfold bitLen
  by_cases h0 : x = 0
  · simp [h0]
  · rw [if_neg h0]
    constructor
    · intro h
      have h' : x.log2 < 1 := by omega
      have := (Nat.log2_lt h0).1 h'
      simpa using this
    · intro h
      have : x.log2 < 1 := (Nat.log2_lt h0).2 (by simpa using h)
      omega

/-- `log` is total for every estimate `< 2^bits` (no panic, fuel suffices), and exact under the
    estimate hypothesis. -/
theorem log_total_exact (bits x base est : ℕ) (hb : 2 ≤ base) (hbM : base < 2 ^ bits)
    (hx : 0 < x) (hxM : x < 2 ^ bits) (hestM : est < 2 ^ bits) :
    ∃ r, log bits x base est = .ok r ∧
      ∀ L, base ^ L ≤ x → x < base ^ (L + 1) → (est ≤ L + 1 ∨ base ^ est < 2 ^ bits) → r = L := by
  have hbits : 0 < bits := by
    rcases Nat.eq_zero_or_pos bits with h | h
    · rw [h] at hbM; simp at hbM; omega
    · exact h
  have h2M : 2 < 2 ^ bits := by
    by_contra hc
    have : base ≤ 2 := by omega
    have hb2 : base = 2 := by omega
    have : bits ≠ 1 := by intro h1; rw [h1] at hbM; omega
    have : 2 ^ 2 ≤ 2 ^ bits := Nat.pow_le_pow_right (by omega) (by omega)
    omega
  unfold log
  rw [if_neg (by omega), if_neg (by simpa using h2M), if_neg (by omega)]
  by_cases hb2 : base = 2
  · rw [if_pos hb2]
    refine ⟨_, rfl, fun L h1 h2 _ => ?_⟩
    rw [hb2] at h1 h2
    exact bitLen_sub_one x L hx h1 h2
  · rw [if_neg hb2]
    by_cases hxb : x < base
    · rw [if_pos hxb]
      refine ⟨0, rfl, fun L h1 _ _ => ?_⟩
      rcases Nat.eq_zero_or_pos L with h | h
      · exact h.symm
      · have := pow_mono base 1 L hb h
        simp at this; omega
    · rw [if_neg hxb]
      obtain ⟨r1, hd1, hd2, hd3⟩ :=
        downLoop_spec bits base x hbits hb hbM hx hxM (est + 1) est (by omega) hestM
      rw [hd1]
      have hfu : x < base ^ (r1 + bits) := by
        have h1 : 2 ^ bits ≤ base ^ bits := Nat.pow_le_pow_left hb bits
        have h2 : base ^ bits ≤ base ^ (r1 + bits) := pow_mono base _ _ hb (by omega)
        omega
      obtain ⟨r2, hu1, hu2⟩ := upLoop_spec bits base x hbits hb hbM hxM bits r1 hfu
      refine ⟨r2, hu1, fun L h1 h2 hest => ?_⟩
      obtain ⟨k1, k2⟩ := hu2 (hd3 L h1 hest)
      exact flog_unique base x r2 L hb k1 k2 h1 h2

/-- the estimate hypothesis cannot be dropped: an estimate two too high whose power overflows is
    returned one too high (`U3`, `x = 3`, `base = 3`, `est = 3`: `⌊log₃ 3⌋ = 1`, the loops return `2`). -/
theorem log_hyp_needed : log 3 3 3 3 = .ok 2 := by decide

end Ruint.Log
