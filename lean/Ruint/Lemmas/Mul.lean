import Ruint.Model.Mul
import Ruint.Lemmas.AddmulN
import Ruint.Lemmas.Add

/-! `src/mul.rs`: `overflowing_mul`, `wrapping_mul`, `widening_mul` on top of the proved kernels. -/
namespace Ruint.Mul
open Ruint Ruint.Limb Ruint.Add

/-- the `W`-level form of `Limb.addmul_spec` -/
theorem addmul_W (lhs a b : List ℕ) (hl : AllLt lhs) :
    (addmul W lhs a b).1.length = lhs.length
    ∧ AllLt (addmul W lhs a b).1
    ∧ val (addmul W lhs a b).1 = (val lhs + val a * val b) % W ^ lhs.length
    ∧ ((addmul W lhs a b).2 = true ↔ W ^ lhs.length ≤ val lhs + val a * val b) := by
  obtain ⟨h1, h2, h3, h4⟩ := Limb.addmul_spec W two_le_W lhs a b hl
  simp only [valB_W] at h1 h3
  exact ⟨h2, h4, h1, h3⟩

/-- value-level core of `overflowing_mul`: kernel flag OR bits above `2^bits` in the stored limbs. -/
theorem omul_value (bits n p r : ℕ) (f : Bool) (hn : 2 ^ bits ∣ W ^ n)
    (hr : r = p % W ^ n) (hf : f = true ↔ W ^ n ≤ p) :
    r % 2 ^ bits = p % 2 ^ bits ∧ ((f = true ∨ 2 ^ bits ≤ r) ↔ 2 ^ bits ≤ p) := by
  have hWpos : 0 < W ^ n := by have := W_pos; positivity
  have hle : 2 ^ bits ≤ W ^ n := Nat.le_of_dvd hWpos hn
  subst hr
  refine ⟨Nat.mod_mod_of_dvd _ hn, ?_⟩
  constructor
  · rintro (h | h)
    · have := hf.1 h; omega
    · exact le_trans h (Nat.mod_le _ _)
  · intro h
    by_cases hp : W ^ n ≤ p
    · left; exact hf.2 hp
    · right; rw [Nat.mod_eq_of_lt (by omega)]; exact h

theorem overflowingMul_spec (bits : ℕ) (a b : List ℕ) (_ha : Canon bits a) (_hb : Canon bits b) :
    Canon bits (overflowingMul bits a b).1
    ∧ val (overflowingMul bits a b).1 = (val a * val b) % 2 ^ bits
    ∧ ((overflowingMul bits a b).2 = true ↔ 2 ^ bits ≤ val a * val b) := by
  obtain ⟨z1, z2⟩ := zero_canon bits
  obtain ⟨k1, k2, k3, k4⟩ := addmul_W (zero bits) a b z1.2.1
  rw [z2, Nat.zero_add, z1.1] at k3 k4
  rw [z1.1] at k1
  unfold overflowingMul
  generalize addmul W (zero bits) a b = r at *
  rcases Nat.eq_zero_or_pos bits with h0 | hpos
  · subst h0
    simp only [Nat.lt_irrefl, if_false]
    have hn0 : nlimbs 0 = 0 := by simp [nlimbs]
    rw [hn0, Nat.pow_zero] at k3 k4
    rw [Nat.mod_one] at k3
    simp only [Nat.pow_zero, Nat.mod_one]
    refine ⟨⟨k1, k2, by rw [k3]; omega⟩, k3, k4⟩
  · simp only [gt_iff_lt, hpos, if_true]
    obtain ⟨m1, m2, m3⟩ := maskTop_spec bits hpos r.1 k1 k2
    obtain ⟨v1, v2⟩ := omul_value bits (nlimbs bits) (val a * val b) (val r.1) r.2 (pow_dvd_W bits) k3 k4
    refine ⟨m1, by rw [m2, v1], ?_⟩
    rw [← v2, Bool.or_eq_true, decide_eq_true_eq, m3]

theorem wrappingMul_spec (bits : ℕ) (a b : List ℕ) (ha : Canon bits a) (hb : Canon bits b) :
    Canon bits (wrappingMul bits a b) ∧ val (wrappingMul bits a b) = (val a * val b) % 2 ^ bits := by
  obtain ⟨z1, z2⟩ := zero_canon bits
  obtain ⟨r, e1, e2, e3, e4⟩ :=
    (Limb.addmulN_spec W two_le_W (zero bits) a b z1.2.1).1 ⟨by rw [z1.1, ha.1], by rw [z1.1, hb.1]⟩
  simp only [valB_W] at e3
  rw [z2, Nat.zero_add, z1.1] at e3
  rw [z1.1] at e2
  unfold wrappingMul
  rw [e1]
  simp only [Option.getD_some]
  rcases Nat.eq_zero_or_pos bits with h0 | hpos
  · subst h0
    simp only [Nat.lt_irrefl, if_false]
    have hn0 : nlimbs 0 = 0 := by simp [nlimbs]
    rw [hn0, Nat.pow_zero, Nat.mod_one] at e3
    simp only [Nat.pow_zero, Nat.mod_one]
    exact ⟨⟨e2, e4, by rw [e3]; omega⟩, e3⟩
  · simp only [gt_iff_lt, hpos, if_true]
    obtain ⟨m1, m2, _⟩ := maskTop_spec bits hpos r e2 e4
    refine ⟨m1, ?_⟩
    rw [m2, e3, Nat.mod_mod_of_dvd _ (pow_dvd_W bits)]

theorem wideningMul_spec (bits bitsRhs : ℕ) (a b : List ℕ) (ha : Canon bits a)
    (hb : Canon bitsRhs b) :
    Canon (bits + bitsRhs) (wideningMul bits bitsRhs a b)
    ∧ val (wideningMul bits bitsRhs a b) = val a * val b
    ∧ (addmul W (zero (bits + bitsRhs)) a b).2 = false := by
  obtain ⟨z1, z2⟩ := zero_canon (bits + bitsRhs)
  obtain ⟨k1, k2, k3, k4⟩ := addmul_W (zero (bits + bitsRhs)) a b z1.2.1
  rw [z2, Nat.zero_add, z1.1] at k3 k4
  rw [z1.1] at k1
  have hprod : val a * val b < 2 ^ (bits + bitsRhs) := by
    rw [pow_add]
    have h1 := ha.val_lt
    have h2 := hb.val_lt
    calc val a * val b ≤ val a * 2 ^ bitsRhs := Nat.mul_le_mul_left _ (le_of_lt h2)
      _ < 2 ^ bits * 2 ^ bitsRhs := Nat.mul_lt_mul_of_pos_right h1 (by positivity)
  have hfit : val a * val b < W ^ nlimbs (bits + bitsRhs) :=
    lt_of_lt_of_le hprod (two_pow_le_W _)
  rw [Nat.mod_eq_of_lt hfit] at k3
  unfold wideningMul
  refine ⟨⟨k1, k2, by rw [k3]; exact hprod⟩, k3, ?_⟩
  cases hf : (addmul W (zero (bits + bitsRhs)) a b).2
  · rfl
  · have := k4.1 hf; omega

end Ruint.Mul
