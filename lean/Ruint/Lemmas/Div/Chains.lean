import Ruint.Model.DivCore
import Mathlib.Tactic.Ring
import Mathlib.Tactic.Linarith
import Mathlib.Tactic.NormNum
import Mathlib.Tactic.Zify
import Mathlib.Tactic.Positivity
import Mathlib.Tactic.Push
import Mathlib.Data.Int.ModEq
import Mathlib.Tactic.LinearCombination

/-! Limb chains used by the division kernels: `val` toolkit, `sbb`, `submul_nx1`, `adc_n`, generic base.
    (re-homed from notes/probes/knuth_project/Kn/Pre.lean, namespace C2) -/
namespace Ruint.Div
variable (W : ℕ)

@[simp] theorem val_nil : val W [] = 0 := rfl
@[simp] theorem val_cons (x xs) : val W (x :: xs) = x + W * val W xs := rfl

theorem val_lt_pow (l : List ℕ) (h : AllLt W l) : val W l < W ^ l.length := by
  induction l with
  | nil => simp
  | cons x xs ih =>
    have hx : x < W := h x (by simp)
    have hxs := ih (fun y hy => h y (by simp [hy]))
    simp only [val_cons, List.length_cons, pow_succ]
    nlinarith [Nat.zero_le (val W xs)]

theorem sbb_eq (hW : 0 < W) (lhs rhs borrow : ℕ) (hl : lhs < W) :
    (sbb W lhs rhs borrow).1 + rhs + borrow = lhs + W * (sbb W lhs rhs borrow).2
    ∧ (sbb W lhs rhs borrow).1 < W := by
  unfold sbb
  simp only []
  by_cases hx : rhs + borrow ≤ lhs
  · simp only [hx, if_true]; constructor <;> omega
  · simp only [hx, if_false]
    obtain ⟨x, hxd⟩ : ∃ x, x = rhs + borrow := ⟨_, rfl⟩
    rw [← hxd] at hx ⊢
    obtain ⟨bo, hbo⟩ : ∃ bo, bo = (x - lhs + W - 1) / W := ⟨_, rfl⟩
    rw [← hbo]
    have h1 : bo * W ≤ x - lhs + W - 1 := by rw [hbo]; exact Nat.div_mul_le_self _ _
    have h2 : x - lhs + W - 1 < bo * W + W := by
      have := Nat.div_add_mod (x - lhs + W - 1) W
      have hm := Nat.mod_lt (x - lhs + W - 1) hW
      rw [← hbo] at this
      have : W * bo = bo * W := Nat.mul_comm _ _
      omega
    have h3 : W * bo = bo * W := Nat.mul_comm _ _
    constructor <;> omega

theorem submulNx1_spec (hW : 0 < W) (ls as : List ℕ) (b carry borrow : ℕ) (h : ls.length = as.length)
    (hl : AllLt W ls) :
    val W (submulNx1 W ls as b carry borrow).1 + val W as * b + carry + borrow
      = val W ls + W ^ ls.length * (submulNx1 W ls as b carry borrow).2
    ∧ (submulNx1 W ls as b carry borrow).1.length = ls.length
    ∧ AllLt W (submulNx1 W ls as b carry borrow).1 := by
  induction ls generalizing as carry borrow with
  | nil => cases as <;> simp_all [submulNx1, AllLt] <;> omega
  | cons l ls ih =>
    cases as with
    | nil => simp at h
    | cons a as =>
      simp only [List.length_cons, Nat.add_right_cancel_iff] at h
      have hlW : l < W := hl l (by simp)
      obtain ⟨s1, s2⟩ := sbb_eq W hW l ((a * b + carry) % W) borrow hlW
      obtain ⟨i1, i2, i3⟩ := ih as ((a * b + carry) / W) (sbb W l ((a * b + carry) % W) borrow).2 h
        (fun y hy => hl y (by simp [hy]))
      simp only [submulNx1, val_cons, List.length_cons, pow_succ]
      refine ⟨?_, by simp [i2], ?_⟩
      · have e := Nat.div_add_mod (a * b + carry) W
        set s := sbb W l ((a * b + carry) % W) borrow
        set r := submulNx1 W ls as b ((a * b + carry) / W) s.2
        nlinarith [i1, s1, e]
      · intro y hy
        simp only [List.mem_cons] at hy
        rcases hy with rfl | hy
        · exact s2
        · exact i3 y hy


theorem val_append (l1 l2 : List ℕ) : val W (l1 ++ l2) = val W l1 + W ^ l1.length * val W l2 := by
  induction l1 with
  | nil => simp
  | cons x xs ih => simp only [List.cons_append, val_cons, ih, List.length_cons, pow_succ]; ring

theorem adcN_spec (hW : 0 < W) (as bs : List ℕ) (c : ℕ) (h : as.length = bs.length) :
    val W (adcN W as bs c).1 + W ^ as.length * (adcN W as bs c).2 = val W as + val W bs + c
    ∧ (adcN W as bs c).1.length = as.length ∧ AllLt W (adcN W as bs c).1 := by
  induction as generalizing bs c with
  | nil => cases bs <;> simp_all [adcN, AllLt]
  | cons a as ih =>
    cases bs with
    | nil => simp at h
    | cons b bs =>
      simp only [List.length_cons, Nat.add_right_cancel_iff] at h
      obtain ⟨ih1, ih2, ih3⟩ := ih bs ((a + b + c) / W) h
      simp only [adcN, val_cons, List.length_cons, pow_succ]
      refine ⟨?_, by simp [ih2], ?_⟩
      · have e := Nat.div_add_mod (a + b + c) W
        set r := adcN W as bs ((a + b + c) / W)
        nlinarith [ih1, e]
      · intro x hx
        simp only [List.mem_cons] at hx
        rcases hx with rfl | hx
        · exact Nat.mod_lt _ hW
        · exact ih3 x hx


end Ruint.Div
