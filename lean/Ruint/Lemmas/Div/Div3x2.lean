import Ruint.Model.DivCore
import Mathlib.Tactic.Ring
import Mathlib.Tactic.Linarith
import Mathlib.Tactic.NormNum
import Mathlib.Tactic.Zify
import Mathlib.Tactic.Positivity
import Mathlib.Tactic.Push
import Mathlib.Data.Int.ModEq
import Mathlib.Tactic.LinearCombination

/-! Full correctness of MG10 Algorithm 5 (`div_3x2_mg10`), generic word base `W ≥ 2`,
    on ℕ with the code's explicit wrap-arounds. (re-homed from notes/probes/knuth_project/Kn/Pre.lean) -/
namespace Ruint.Div

theorem ub_case1 (W P d u1 u0 k x r' q0 : ℤ)
    (hW : 0 < W) (hd : d = W * W - P) (hP : 0 < P) (hd0 : 0 < d)
    (hu1' : u1 ≤ W - 1) (hu0' : u0 ≤ W - 1)
    (hx0 : 0 ≤ x) (hx : x ≤ d - 1 - u1) (hkd : k ≤ d)
    (key : W * (W * r') = W * u1 * P + u0 * (W * W) + k * x + q0 * W * d - W * W * d)
    (hb : q0 * W ≤ r') (ha : P ≤ r') (hc : d ≤ W * P) : False := by
  have a : q0 * W * d ≤ r' * d := mul_le_mul_of_nonneg_right hb hd0.le
  have b : u0 * (W * W) ≤ (W - 1) * (W * W) := mul_le_mul_of_nonneg_right hu0' (by positivity)
  have c1 : k * x ≤ d * x := mul_le_mul_of_nonneg_right hkd hx0
  have c2 : d * x ≤ d * (d - 1 - u1) := mul_le_mul_of_nonneg_left hx hd0.le
  have dd : u1 * (W * P - d) ≤ (W - 1) * (W * P - d) := mul_le_mul_of_nonneg_right hu1' (by linarith)
  have e : P * P ≤ r' * P := mul_le_mul_of_nonneg_right ha hP.le
  have id0 : r' * P = W * (W * r') - r' * d := by rw [hd]; ring
  have idS : W * u1 * P + (W - 1) * (W * W) + d * (d - 1 - u1) - W * W * d
      = u1 * (W * P - d) + W * W * W - W * W + d * d - d - W * W * d := by ring
  have id1 : (W - 1) * (W * P - d) + W * W * W - W * W + d * d - d - W * W * d = P * P - W * W := by
    rw [hd]; ring
  have hWW : 0 < W * W := by positivity
  linarith

theorem ub_case2 (W P d u1 u0 k x r' q0 : ℤ)
    (hW : 0 < W) (hd : d = W * W - P) (hP : 0 < P) (hd0 : 0 < d)
    (hu0' : u0 ≤ W - 1)
    (hx : x ≤ d - 1 - u1) (hk : k = W * P)
    (key : W * (W * r') = W * u1 * P + u0 * (W * W) + k * x + q0 * W * d - W * W * d)
    (hb : q0 * W ≤ r') (ha : P ≤ r') (hc : W * P < d) : False := by
  have a : q0 * W * d ≤ r' * d := mul_le_mul_of_nonneg_right hb hd0.le
  have b : u0 * (W * W) ≤ (W - 1) * (W * W) := mul_le_mul_of_nonneg_right hu0' (by positivity)
  have c : (W * P) * x ≤ (W * P) * (d - 1 - u1) := mul_le_mul_of_nonneg_left hx (by positivity)
  have e : P * P ≤ r' * P := mul_le_mul_of_nonneg_right ha hP.le
  have id0 : r' * P = W * (W * r') - r' * d := by rw [hd]; ring
  have hPW : P ≤ W - 1 := by
    by_contra h
    push Not at h
    have h1 : W * W ≤ W * P := by nlinarith
    have : W * W - P < W * W := by linarith
    linarith
  have id1 : W * u1 * P + (W - 1) * (W * W) + (W * P) * (d - 1 - u1) - W * W * d
      = W * d * (1 + P - W) - W * W := by rw [hd]; ring
  have h2 : W * d * (1 + P - W) ≤ 0 := by
    have : 0 ≤ W * d := by positivity
    nlinarith
  have hPP : 0 < P * P := by positivity
  rw [hk] at key
  nlinarith

/-- All three facts about the 3-by-2 candidate remainder. -/
theorem mg10_3x2_bounds (W d u2 u1 u0 V q0 q1' : ℤ)
    (hW : 0 < W) (hdW : d < W * W) (hd2 : W * W ≤ 2 * d)
    (hu2 : 0 ≤ u2) (hu1 : 0 ≤ u1) (hu1W : u1 < W) (hu21 : u2 * W + u1 < d)
    (hu0 : 0 ≤ u0) (hu0W : u0 < W) (hVW : W ≤ V)
    (hk1 : 1 ≤ W * W * W - V * d) (hkd : W * W * W - V * d ≤ d)
    (hq : u2 * V + u1 = q1' * W + q0) (hq0 : 0 ≤ q0) (hq0W : q0 < W) :
    let r' := (u2 * W + u1) * W + u0 - (q1' + 1) * d
    (-d ≤ r') ∧ (q0 * W - W * W + 1 ≤ r') ∧ (r' < W * W - d ∨ r' < q0 * W) := by
  intro r'
  have hd0 : 0 < d := by nlinarith
  have key : W * r' = u1 * (W * W - d) + u0 * W + (W * W * W - V * d) * u2 + q0 * d - W * d := by
    have : q1' * W = u2 * V + u1 - q0 := by linarith
    simp only [r']
    have e : W * ((u2 * W + u1) * W + u0 - (q1' + 1) * d)
        = u2 * (W * W * W) + u1 * (W * W) + u0 * W - (q1' * W) * d - W * d := by ring
    rw [e, this]; ring
  set k := W * W * W - V * d with hk
  have h1 : 0 ≤ u1 * (W * W - d) := mul_nonneg hu1 (by linarith)
  have h2 : 0 ≤ k * u2 := mul_nonneg (by linarith) hu2
  have h3 : 0 ≤ u0 * W := mul_nonneg hu0 hW.le
  refine ⟨?_, ?_, ?_⟩
  · have : W * r' ≥ W * (-d) := by nlinarith
    exact le_of_mul_le_mul_left this hW
  · by_contra hcon
    push Not at hcon
    have : r' ≤ q0 * W - W * W := by linarith
    have h4 : W * r' ≤ W * (q0 * W - W * W) := mul_le_mul_of_nonneg_left this hW.le
    have h5 : (q0 - W) * d > (q0 - W) * (W * W) := by nlinarith
    nlinarith
  · by_contra hcon
    push Not at hcon
    obtain ⟨ha, hb⟩ := hcon
    have hP : 0 < W * W - d := by linarith
    have key2 : W * (W * r') = W * u1 * (W * W - d) + u0 * (W * W) + k * (u2 * W) + q0 * W * d - W * W * d := by
      rw [key]; ring
    have hx0 : 0 ≤ u2 * W := mul_nonneg hu2 hW.le
    have hx : u2 * W ≤ d - 1 - u1 := by linarith
    rcases le_or_gt d (W * (W * W - d)) with hc | hc
    · exact ub_case1 W (W * W - d) d u1 u0 k (u2 * W) r' q0 hW (by ring) hP hd0 (by linarith) (by linarith)
        hx0 hx hkd key2 hb ha hc
    · -- integrality: V = W
      have hVeq : V = W := by
        by_contra hne
        have h6 : W + 1 ≤ V := by omega
        have h7 : d ≤ (V - W) * d := by nlinarith
        have h8 : k = W * (W * W - d) - (V - W) * d := by rw [hk]; ring
        linarith
      have hkWP : k = W * (W * W - d) := by rw [hk, hVeq]; ring
      exact ub_case2 W (W * W - d) d u1 u0 k (u2 * W) r' q0 hW (by ring) hP hd0 (by linarith)
        hx hkWP key2 hb ha hc


set_option maxHeartbeats 4000000 in
theorem div3x2_spec (W u21 u0 d : ℕ) (hW : 2 ≤ W) (hd2 : W * W ≤ 2 * d) (hdW : d < W * W)
    (hu : u21 < d) (hu0W : u0 < W) :
    div3x2 W u21 u0 d (recip2Spec W d) = ((u21 * W + u0) / d, (u21 * W + u0) % d) := by
  unfold div3x2 recip2Spec
  simp only []
  have hW0 : 0 < W := by omega
  have hWW : 0 < W * W := by positivity
  have hd0 : 0 < d := by nlinarith
  set d1 := d / W with hd1
  set d0 := d % W with hd0def
  have hddecN : d = d1 * W + d0 := by rw [hd1, hd0def]; exact (Nat.div_add_mod' d W).symm
  have hd0W : d0 < W := Nat.mod_lt _ hW0
  clear_value d1 d0
  set V := (W * W * W - 1) / d with hV
  have hW3 : 1 ≤ W * W * W := Nat.one_le_iff_ne_zero.mpr (by positivity)
  have hVd : V * d ≤ W * W * W - 1 := Nat.div_mul_le_self _ _
  have hVd' : W * W * W - 1 < (V + 1) * d := by
    have h := Nat.div_add_mod (W * W * W - 1) d
    have hm := Nat.mod_lt (W * W * W - 1) hd0
    rw [← hV] at h
    nlinarith
  have hVW : W ≤ V := by
    rw [hV, Nat.le_div_iff_mul_le hd0]
    have h1 : W * d ≤ W * (W * W - 1) := Nat.mul_le_mul_left _ (by omega)
    have h2 : W * (W * W - 1) = W * W * W - W := by rw [Nat.mul_sub, Nat.mul_one, Nat.mul_assoc]
    omega
  set u2 := u21 / W with hu2
  set u1 := u21 % W with hu1
  have hu21_eq : u21 = u2 * W + u1 := by rw [hu2, hu1]; exact (Nat.div_add_mod' u21 W).symm
  have hu1W : u1 < W := Nat.mod_lt _ hW0
  have hq_eq : u2 * (V - W) + u21 = u2 * V + u1 := by
    have h1 : u2 * (V - W) = u2 * V - u2 * W := Nat.mul_sub u2 V W
    have h2 : u2 * W ≤ u2 * V := Nat.mul_le_mul_left _ hVW
    omega
  rw [hq_eq]
  set q := u2 * V + u1 with hq
  set q1' := q / W with hq1'
  set q0 := q % W with hq0
  have hq0W : q0 < W := Nat.mod_lt _ hW0
  have hq_dec : q = q1' * W + q0 := (Nat.div_add_mod' q W).symm
  -- q < W*W
  have hq_lt : q < W * W := by
    have h1 : q * d ≤ u2 * (W * W * W - 1) + u1 * d := by
      have : u2 * V * d ≤ u2 * (W * W * W - 1) := by
        rw [Nat.mul_assoc]; exact Nat.mul_le_mul_left _ hVd
      rw [hq, Nat.add_mul]; omega
    have h2 : u2 * W ≤ d - 1 - u1 := by omega
    have h3 : u2 * (W * W * W - 1) ≤ u2 * (W * W * W) := Nat.mul_le_mul_left _ (by omega)
    have h4 : u2 * (W * W * W) = (u2 * W) * (W * W) := by ring
    have h5 : (u2 * W) * (W * W) ≤ (d - 1 - u1) * (W * W) := Nat.mul_le_mul_right _ h2
    have h6 : (d - 1 - u1) * (W * W) + u1 * d < d * (W * W) := by
      have : u1 ≤ d - 1 := by omega
      have e1 : (d - 1 - u1) * (W * W) = d * (W * W) - (W * W) - u1 * (W * W) := by
        rw [Nat.sub_mul, Nat.sub_mul, Nat.one_mul]
      have e2 : u1 * d ≤ u1 * (W * W) := Nat.mul_le_mul_left _ (by omega)
      have e3 : (W * W) + u1 * (W * W) ≤ d * (W * W) := by
        have : (1 + u1) * (W * W) ≤ d * (W * W) := Nat.mul_le_mul_right _ (by omega)
        rw [Nat.add_mul, Nat.one_mul] at this; exact this
      omega
    have h7 : q * d < (W * W) * d := by rw [Nat.mul_comm (W * W) d]; omega
    exact Nat.lt_of_mul_lt_mul_right h7
  have hq1W : q1' < W := by rw [hq1']; exact Nat.div_lt_of_lt_mul (by rw [Nat.mul_comm] at hq_lt; exact hq_lt)
  -- integer bounds
  have hb := mg10_3x2_bounds (W : ℤ) d u2 u1 u0 V q0 q1' (by exact_mod_cast hW0)
    (by exact_mod_cast hdW) (by exact_mod_cast hd2) (by positivity) (by positivity)
    (by exact_mod_cast hu1W) (by rw [hu21_eq] at hu; exact_mod_cast hu) (by positivity)
    (by exact_mod_cast hu0W) (by exact_mod_cast hVW)
    (by have : (V:ℤ) * d ≤ W * W * W - 1 := by
          have := hVd; zify [hW3] at this; exact this
        linarith)
    (by have : (W:ℤ) * W * W - 1 < (V + 1) * d := by
          have := hVd'; zify [hW3] at this; exact this
        linarith)
    (by exact_mod_cast hq_dec) (by positivity) (by exact_mod_cast hq0W)
  simp only at hb
  obtain ⟨hb1, hb2, hb3⟩ := hb
  set r' : ℤ := ((u2:ℤ) * W + u1) * W + u0 - ((q1':ℤ) + 1) * d with hr'
  set u := u21 * W + u0 with hudef
  have hu_int : (u : ℤ) = (q1' + 1) * d + r' := by rw [hr', hudef, hu21_eq]; push_cast; ring
  have hu_lt : u < d * W := by rw [hudef]; nlinarith
  -- computed wrapped values
  set q1c : ℕ := (q1' + 1) % W with hq1c
  set r1 : ℕ := (u1 + W - (q1' * d1) % W) % W with hr1
  set t : ℕ := d0 * q1' with ht
  have ht_lt : t < W * W := by
    rw [ht]; nlinarith
  rw [Nat.mod_eq_of_lt ht_lt]
  set r : ℕ := (r1 * W + u0 + 2 * (W * W) - t - d) % (W * W) with hr
  have hrWW : r < W * W := Nat.mod_lt _ hWW
  have hcong : (r : ℤ) ≡ r' [ZMOD ((W:ℤ) * W)] := by
    have h1 : t + d ≤ r1 * W + u0 + 2 * (W * W) := by nlinarith
    have e1 : ((r : ℕ) : ℤ) = ((r1 : ℤ) * W + u0 + 2 * (W * W) - t - d) % (W * W) := by
      rw [hr]
      have : r1 * W + u0 + 2 * (W * W) - t - d = r1 * W + u0 + 2 * (W * W) - (t + d) := by omega
      rw [this]; push_cast [Nat.cast_sub h1]; ring_nf
    rw [e1]
    -- r1 ≡ u1 - q1' * d1 (mod W)
    have hr1c : ∃ j : ℤ, (r1 : ℤ) = (u1 : ℤ) - (q1' : ℤ) * (d1 : ℤ) + j * W := by
      have hlt : (q1' * d1) % W ≤ u1 + W := by have := Nat.mod_lt (q1' * d1) hW0; omega
      have e : ((r1 : ℕ) : ℤ) = ((u1 : ℤ) + W - ((q1' : ℤ) * (d1 : ℤ)) % W) % W := by
        rw [hr1]; push_cast [Nat.cast_sub hlt]; rfl
      have c : ((u1 : ℤ) + W - ((q1' : ℤ) * (d1 : ℤ)) % W) % W ≡ (u1 : ℤ) - (q1' : ℤ) * (d1 : ℤ) [ZMOD W] := by
        refine (Int.mod_modEq _ _).trans ?_
        have c1 : ((q1' : ℤ) * (d1 : ℤ)) % W ≡ (q1' : ℤ) * (d1 : ℤ) [ZMOD W] := Int.mod_modEq _ _
        have c2 : (u1 : ℤ) + W ≡ u1 [ZMOD W] := by
          exact Int.modEq_iff_dvd.mpr ⟨-1, by ring⟩
        exact c2.sub c1
      rw [e]
      have := Int.modEq_iff_dvd.mp c.symm
      obtain ⟨j, hj⟩ := this
      exact ⟨j, by linarith [hj, mul_comm (W:ℤ) j]⟩
    obtain ⟨j, hj⟩ := hr1c
    have hddec : (d : ℤ) = (d1 : ℤ) * W + (d0 : ℤ) := by exact_mod_cast hddecN
    refine (Int.mod_modEq _ _).trans ?_
    apply Int.modEq_iff_dvd.mpr
    refine ⟨(u2 : ℤ) - j - 2, ?_⟩
    rw [hr', hj, ht]
    push_cast
    linear_combination (-(q1' : ℤ)) * hddec
  clear_value r' r q1c q0 q1' q u1 u2 V r1 t u
  have hr'lt : r' < (W:ℤ) * W := by
    rcases hb3 with h | h
    · linarith
    · have : (q0:ℤ) < W := by exact_mod_cast hq0W
      nlinarith
  have hdWW : (d:ℤ) < W * W := by exact_mod_cast hdW
  have hrcase : (r' < 0 ∧ (r : ℤ) = r' + W * W) ∨ (0 ≤ r' ∧ (r : ℤ) = r') := by
    rcases lt_or_ge r' 0 with hneg | hpos
    · left; refine ⟨hneg, ?_⟩
      have h2 : (r : ℤ) % (W * W) = (r' + W * W) % (W * W) := by
        have := hcong; unfold Int.ModEq at this; rw [this]; simp
      rw [Int.emod_eq_of_lt (by positivity) (by exact_mod_cast hrWW),
          Int.emod_eq_of_lt (by linarith) (by linarith)] at h2
      exact h2
    · right; refine ⟨hpos, ?_⟩
      have h2 : (r : ℤ) % (W * W) = r' % (W * W) := hcong
      rw [Int.emod_eq_of_lt (by positivity) (by exact_mod_cast hrWW),
          Int.emod_eq_of_lt hpos hr'lt] at h2
      exact h2
  have hq1c_dec : (q1c + W - 1) % W = q1' := by
    rw [hq1c]
    rcases Nat.lt_or_ge (q1' + 1) W with h | h
    · rw [Nat.mod_eq_of_lt h]
      have : q1' + 1 + W - 1 = q1' + W := by omega
      rw [this, Nat.add_mod_right, Nat.mod_eq_of_lt hq1W]
    · have : q1' + 1 = W := by omega
      rw [this, Nat.mod_self, Nat.zero_add, Nat.mod_eq_of_lt (by omega)]; omega
  have hnowrap : 0 ≤ r' → q1' + 1 < W := by
    intro h
    have : ((q1' : ℤ) + 1) * d ≤ u := by rw [hu_int]; linarith
    have h2 : (q1' + 1) * d ≤ u := by exact_mod_cast this
    by_contra hc
    have : W * d ≤ (q1' + 1) * d := Nat.mul_le_mul_right _ (by omega)
    nlinarith
  have huniq : ∀ qq rr : ℕ, rr < d → u = qq * d + rr → (qq, rr) = (u / d, u % d) := by
    intro qq rr hrr he
    have h1 : u / d = qq := by
      rw [he, Nat.mul_comm, Nat.mul_add_div hd0, Nat.div_eq_of_lt hrr, Nat.add_zero]
    have h2 : u % d = rr := by
      rw [he, Nat.mul_comm, Nat.mul_add_mod, Nat.mod_eq_of_lt hrr]
    rw [h1, h2]
  rcases hrcase with ⟨hneg, hre⟩ | ⟨hpos, hre⟩
  · -- (A)
    have hge : r / W ≥ q0 := by
      rw [ge_iff_le, Nat.le_div_iff_mul_le hW0]
      have : (q0 : ℤ) * W ≤ r := by rw [hre]; linarith
      exact_mod_cast this
    simp only [hge, if_true, hq1c_dec]
    have hBle : W * W ≤ r + d := by
      have : ((W:ℤ) * W) ≤ r + d := by rw [hre]; linarith
      exact_mod_cast this
    have hrd : (r + d) % (W * W) = r + d - W * W := by
      have h2 : r + d - W * W < W * W := by omega
      rw [← Nat.mod_eq_of_lt h2]
      conv_lhs => rw [show r + d = (r + d - W * W) + W * W by omega]
      rw [Nat.add_mod_right]
    rw [hrd]
    have hlt : ¬ (r + d - W * W ≥ d) := by omega
    simp only [hlt, if_false]
    apply huniq
    · omega
    · have : (u : ℤ) = q1' * d + ((r + d - W * W : ℕ) : ℤ) := by
        push_cast [Nat.cast_sub hBle]
        rw [hu_int, hre]; ring
      exact_mod_cast this
  · -- (B)
    have hq1c_eq : q1c = q1' + 1 := by rw [hq1c]; exact Nat.mod_eq_of_lt (hnowrap hpos)
    by_cases hge : r / W ≥ q0
    · have hq0r : (q0 : ℤ) * W ≤ r' := by
        have := (Nat.le_div_iff_mul_le hW0).mp hge
        rw [← hre]; exact_mod_cast this
      have hrlt : r' < (W:ℤ) * W - d := by
        rcases hb3 with h | h
        · exact h
        · exfalso; linarith
      have hrd : (r + d) % (W * W) = r + d := by
        apply Nat.mod_eq_of_lt
        have : (r : ℤ) + d < W * W := by rw [hre]; linarith
        exact_mod_cast this
      simp only [hge, if_true, hq1c_dec, hrd]
      have hge2 : r + d ≥ d := by omega
      simp only [hge2, if_true]
      have : (q1' + 1) % W = q1' + 1 := Nat.mod_eq_of_lt (hnowrap hpos)
      rw [this, Nat.add_sub_cancel]
      apply huniq
      · have h2d : ((W:ℤ) * W) ≤ 2 * d := by exact_mod_cast hd2
        have : (r : ℤ) < d := by rw [hre]; linarith
        exact_mod_cast this
      · have : (u : ℤ) = ((q1' + 1 : ℕ) : ℤ) * d + r := by push_cast; rw [hu_int, hre]
        exact_mod_cast this
    · simp only [hge, if_false]
      by_cases hged : r ≥ d
      · simp only [hged, if_true]
        have hq2 : q1' + 2 < W := by
          have h1 : ((q1' : ℤ) + 2) * d ≤ u := by
            have : (d : ℤ) ≤ r' := by rw [← hre]; exact_mod_cast hged
            rw [hu_int]; linarith
          have h2 : (q1' + 2) * d ≤ u := by exact_mod_cast h1
          by_contra hc
          have : W * d ≤ (q1' + 2) * d := Nat.mul_le_mul_right _ (by omega)
          nlinarith
        rw [hq1c_eq, Nat.mod_eq_of_lt (by omega)]
        apply huniq
        · have h2d : ((W:ℤ) * W) ≤ 2 * d := by exact_mod_cast hd2
          have : (r : ℤ) < 2 * d := by rw [hre]; linarith
          have : r < 2 * d := by exact_mod_cast this
          omega
        · have : (u : ℤ) = ((q1' + 1 + 1 : ℕ) : ℤ) * d + ((r - d : ℕ) : ℤ) := by
            push_cast [Nat.cast_sub hged]; rw [hu_int, hre]; ring
          exact_mod_cast this
      · simp only [hged, if_false]
        rw [hq1c_eq]
        apply huniq
        · omega
        · have : (u : ℤ) = ((q1' + 1 : ℕ) : ℤ) * d + r := by push_cast; rw [hu_int, hre]
          exact_mod_cast this


end Ruint.Div
