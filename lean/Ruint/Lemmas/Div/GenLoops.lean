import Ruint.Lemmas.Div.GenTie
import Ruint.Lemmas.GenLehmer
import Ruint.Lemmas.Bits
import Ruint.Gen.WordsDivLoops

/-! `div_nx1_normalized` / `div_nx2_normalized` as GENERATED from `src/algorithms/div/small.rs` (the reversed
    `iter_mut()` loops over the word-level kernels) equal the C14 models on their domain (normalised divisor,
    word limbs). -/
namespace Ruint.Div.GenLoops
open Ruint Ruint.Div Ruint.Div.GenTie Ruint.GenLehmer

/-- the model's loop started with a remainder (the model starts at `0`) -/
def nx1LoopR (B d v : ℕ) (r0 : ℕ) : List ℕ → List ℕ × ℕ
  | [] => ([], r0)
  | u :: us =>
      let r := nx1LoopR B d v r0 us
      let s := div2x1 B (r.2 * B + u) d v
      (s.1 :: r.1, s.2)

theorem nx1LoopR_zero (B d v : ℕ) (us : List ℕ) : nx1LoopR B d v 0 us = nx1Loop B d v us := by
  induction us with
  | nil => rfl
  | cons u us ih => simp only [nx1LoopR, nx1Loop, ih]

theorem nx1LoopR_append (B d v r0 y : ℕ) (xs : List ℕ) :
    nx1LoopR B d v r0 (xs ++ [y]) =
      ((nx1LoopR B d v (div2x1 B (r0 * B + y) d v).2 xs).1 ++ [(div2x1 B (r0 * B + y) d v).1],
       (nx1LoopR B d v (div2x1 B (r0 * B + y) d v).2 xs).2) := by
  induction xs with
  | nil => simp [nx1LoopR]
  | cons x xs ih => simp only [List.cons_append, nx1LoopR, ih]

theorem join_eq (r y : ℕ) (hr : r < 2 ^ 64) (hy : y < 2 ^ 64) : Ruint.Gen.dw_join r y = r * 2 ^ 64 + y := by
  unfold Ruint.Gen.dw_join Rs.wshl
  rw [Nat.mod_eq_of_lt (by omega), Nat.mul_comm, Ruint.Bits.lor_eq_add 64 r y hy]

theorem nx1_step_eq (d v bound : ℕ) (it : ℕ) (u : List ℕ) (r : ℕ) :
    Ruint.Gen.div_nx1_normalized_step1 d v bound (it, u, r) =
      if bound < it then
        ((Rs.wsub 64 it 1,
          u.set (Rs.wsub 64 it 1) (Ruint.Gen.div_2x1_mg10 (Ruint.Gen.dw_join r (u.getD (Rs.wsub 64 it 1) 0)) d v).1,
          (Ruint.Gen.div_2x1_mg10 (Ruint.Gen.dw_join r (u.getD (Rs.wsub 64 it 1) 0)) d v).2), true)
      else ((it, u, r), false) := by
  unfold Ruint.Gen.div_nx1_normalized_step1
  simp only [decide_eq_true_eq, gt_iff_lt]

theorem nx1_loop_eq (d : ℕ) (h1 : 2 ^ 63 ≤ d) (h2 : d < 2 ^ 64) :
    ∀ (xs sfx : List ℕ) (r f : ℕ), Ruint.AllLt xs → r < d → xs.length < 2 ^ 64 → xs.length < f →
      Rs.loop (Ruint.Gen.div_nx1_normalized_step1 d (reciprocal d) 0) f (xs.length, xs ++ sfx, r)
        = (0, (nx1LoopR W d (reciprocal d) r xs).1 ++ sfx, (nx1LoopR W d (reciprocal d) r xs).2) := by
  intro xs
  induction xs using List.reverseRecOn with
  | nil =>
    intro sfx r f _ _ _ h6
    obtain ⟨f, rfl⟩ : ∃ g, f = g + 1 := ⟨f - 1, by simp at h6; omega⟩
    rw [loop_succ, nx1_step_eq]
    simp [nx1LoopR]
  | append_singleton ys y ih =>
    intro sfx r f hw hr h64 h6
    obtain ⟨f, rfl⟩ : ∃ g, f = g + 1 := ⟨f - 1, by simp at h6; omega⟩
    simp only [List.length_append, List.length_singleton] at h64 h6
    have hyW : y < 2 ^ 64 := hw y (by simp)
    have hi : 0 < (ys ++ [y]).length := by simp
    have g1 : Rs.wsub 64 (ys ++ [y]).length 1 = ys.length := by
      simp only [List.length_append, List.length_singleton]; unfold Rs.wsub; omega
    have g2 : (ys ++ [y] ++ sfx).getD ys.length 0 = y := by simp
    have g3 : ∀ q, (ys ++ [y] ++ sfx).set ys.length q = ys ++ ([q] ++ sfx) := by intro q; simp
    have hj := join_eq r y (by omega) hyW
    have hv := recipSpec_facts d h1 h2
    rw [← reciprocal_eq d h1 h2] at hv
    have hu : (r * 2 ^ 64 + y) / 2 ^ 64 < d := by omega
    have he := gen_div_2x1_eq (r * 2 ^ 64 + y) d (reciprocal d) h2 hu hv.2
    have hs := div2x1w_spec (r * 2 ^ 64 + y) d h1 h2 hu
    have hr' : (div2x1w (r * 2 ^ 64 + y) d (reciprocal d)).2 < d := by
      rw [hs]; exact Nat.mod_lt _ (by omega)
    rw [loop_succ, nx1_step_eq]
    simp only [hi, if_true, g1, g2, g3, hj, he]
    have := ih ([(div2x1w (r * 2 ^ 64 + y) d (reciprocal d)).1] ++ sfx)
      (div2x1w (r * 2 ^ 64 + y) d (reciprocal d)).2 f (fun x hx => hw x (by simp [hx])) hr' (by omega) (by omega)
    rw [this, nx1LoopR_append]
    simp [div2x1w, W]

/-- **`div_nx1_normalized` as generated from the source** = the C14 model: normalised divisor, word limbs. -/
theorem div_nx1_normalized_eq (u : List ℕ) (d : ℕ) (hu : Ruint.AllLt u) (h1 : 2 ^ 63 ≤ d) (h2 : d < 2 ^ 64)
    (h64 : u.length < 2 ^ 64) (f : ℕ) (hf : u.length < f) :
    Ruint.Gen.div_nx1_normalized f u d = divNx1Normalized u d := by
  have hl := nx1_loop_eq d h1 h2 u [] 0 f hu (by omega) h64 hf
  simp only [List.append_nil] at hl
  unfold Ruint.Gen.div_nx1_normalized divNx1Normalized
  rw [gen_reciprocal_eq d h1 h2]
  simp only [hl, nx1LoopR_zero]

/-! ### `div_nx2_normalized` -/

def nx2LoopR (B d v : ℕ) (r0 : ℕ) : List ℕ → List ℕ × ℕ
  | [] => ([], r0)
  | u :: us =>
      let r := nx2LoopR B d v r0 us
      let s := div3x2 B r.2 u d v
      (s.1 :: r.1, s.2)

theorem nx2LoopR_zero (B d v : ℕ) (us : List ℕ) : nx2LoopR B d v 0 us = nx2Loop B d v us := by
  induction us with
  | nil => rfl
  | cons u us ih => simp only [nx2LoopR, nx2Loop, ih]

theorem nx2LoopR_append (B d v r0 y : ℕ) (xs : List ℕ) :
    nx2LoopR B d v r0 (xs ++ [y]) =
      ((nx2LoopR B d v (div3x2 B r0 y d v).2 xs).1 ++ [(div3x2 B r0 y d v).1],
       (nx2LoopR B d v (div3x2 B r0 y d v).2 xs).2) := by
  induction xs with
  | nil => simp [nx2LoopR]
  | cons x xs ih => simp only [List.cons_append, nx2LoopR, ih]

theorem nx2_step_eq (d v bound : ℕ) (it : ℕ) (u : List ℕ) (r : ℕ) :
    Ruint.Gen.div_nx2_normalized_step1 d v bound (it, u, r) =
      if bound < it then
        ((Rs.wsub 64 it 1,
          u.set (Rs.wsub 64 it 1) (Ruint.Gen.div_3x2_mg10 r (u.getD (Rs.wsub 64 it 1) 0) d v).1,
          (Ruint.Gen.div_3x2_mg10 r (u.getD (Rs.wsub 64 it 1) 0) d v).2), true)
      else ((it, u, r), false) := by
  unfold Ruint.Gen.div_nx2_normalized_step1
  simp only [decide_eq_true_eq, gt_iff_lt]

theorem nx2_loop_eq (d : ℕ) (h1 : 2 ^ 127 ≤ d) (h2 : d < 2 ^ 128) :
    ∀ (xs sfx : List ℕ) (r f : ℕ), Ruint.AllLt xs → r < d → xs.length < 2 ^ 64 → xs.length < f →
      Rs.loop (Ruint.Gen.div_nx2_normalized_step1 d (reciprocal2 d) 0) f (xs.length, xs ++ sfx, r)
        = (0, (nx2LoopR W d (reciprocal2 d) r xs).1 ++ sfx, (nx2LoopR W d (reciprocal2 d) r xs).2) := by
  intro xs
  induction xs using List.reverseRecOn with
  | nil =>
    intro sfx r f _ _ _ h6
    obtain ⟨f, rfl⟩ : ∃ g, f = g + 1 := ⟨f - 1, by simp at h6; omega⟩
    rw [loop_succ, nx2_step_eq]
    simp [nx2LoopR]
  | append_singleton ys y ih =>
    intro sfx r f hw hr h64 h6
    obtain ⟨f, rfl⟩ : ∃ g, f = g + 1 := ⟨f - 1, by simp at h6; omega⟩
    simp only [List.length_append, List.length_singleton] at h64 h6
    have hyW : y < 2 ^ 64 := hw y (by simp)
    have hi : 0 < (ys ++ [y]).length := by simp
    have g1 : Rs.wsub 64 (ys ++ [y]).length 1 = ys.length := by
      simp only [List.length_append, List.length_singleton]; unfold Rs.wsub; omega
    have g2 : (ys ++ [y] ++ sfx).getD ys.length 0 = y := by simp
    have g3 : ∀ q, (ys ++ [y] ++ sfx).set ys.length q = ys ++ ([q] ++ sfx) := by intro q; simp
    have hv := recip2Spec_facts d h1 h2
    rw [← reciprocal2_eq d h1 h2] at hv
    have he := gen_div_3x2_eq r y d (reciprocal2 d) h2 hv.1 hr hyW hv.2
    have hs := div3x2w_spec r y d h1 h2 hr hyW
    have hr' : (div3x2w r y d (reciprocal2 d)).2 < d := by
      rw [hs]; exact Nat.mod_lt _ (by omega)
    rw [loop_succ, nx2_step_eq]
    simp only [hi, if_true, g1, g2, g3, he]
    have := ih ([(div3x2w r y d (reciprocal2 d)).1] ++ sfx)
      (div3x2w r y d (reciprocal2 d)).2 f (fun x hx => hw x (by simp [hx])) hr' (by omega) (by omega)
    rw [this, nx2LoopR_append]
    simp [div3x2w]

/-- **`div_nx2_normalized` as generated from the source** = the C14 model: normalised `u128` divisor, word limbs. -/
theorem div_nx2_normalized_eq (u : List ℕ) (d : ℕ) (hu : Ruint.AllLt u) (h1 : 2 ^ 127 ≤ d) (h2 : d < 2 ^ 128)
    (h64 : u.length < 2 ^ 64) (f : ℕ) (hf : u.length < f) :
    Ruint.Gen.div_nx2_normalized f u d = divNx2Normalized u d := by
  have hl := nx2_loop_eq d h1 h2 u [] 0 f hu (by omega) h64 hf
  simp only [List.append_nil] at hl
  unfold Ruint.Gen.div_nx2_normalized divNx2Normalized
  rw [gen_reciprocal_2_eq d h1 h2]
  simp only [hl, nx2LoopR_zero]

end Ruint.Div.GenLoops
