import Ruint.Model.DivUint
import Ruint.Lemmas.Div.Dispatch
/-! Helper lemmas for C03 (the `Uint` division surface over the C14 `div` model). -/
set_option autoImplicit false
namespace Ruint.DivU
open Ruint.Div

theorem isZero_iff (l : List ℕ) : isZero l = true ↔ val l = 0 := by
  unfold isZero
  induction l with
  | nil => simp
  | cons x xs ih =>
    simp only [List.all_cons, Bool.and_eq_true, beq_iff_eq, val_cons, ih]
    constructor
    · rintro ⟨rfl, h⟩; rw [h]; simp
    · intro h
      have hx : x = 0 := by omega
      have hW := W_pos
      have : W * val xs = 0 := by omega
      rcases Nat.mul_eq_zero.mp this with h1 | h1
      · omega
      · exact ⟨hx, h1⟩

theorem isZero_false_iff (l : List ℕ) : isZero l = false ↔ val l ≠ 0 := by
  have := isZero_iff l
  cases h : isZero l
  · simp only [true_iff]; intro h0; rw [this.mpr h0] at h; exact absurd h (by simp)
  · simp only [Bool.true_eq_false, false_iff, not_not]; exact this.mp h

/-- `div_rem` on canonical operands: never panics for a non-zero divisor, returns canonical `⌊a/b⌋`, `a mod b`. -/
theorem divRem_ok (bits : ℕ) (a b : List ℕ) (ha : Canon bits a) (hb : Canon bits b) (h : val b ≠ 0) :
    ∃ q r, divRem bits a b = some (q, r) ∧ val q = val a / val b ∧ val r = val a % val b
      ∧ Canon bits q ∧ Canon bits r := by
  obtain ⟨q, r, e, hq, hr, lq, lr, aq, ar⟩ := (div_spec a b ha.2.1 hb.2.1).2 h
  refine ⟨q, r, e, hq, hr, ⟨by rw [lq, ha.1], aq, ?_⟩, ⟨by rw [lr, hb.1], ar, ?_⟩⟩
  · rw [hq]; exact lt_of_le_of_lt (Nat.div_le_self _ _) ha.2.2
  · rw [hr]; exact lt_trans (Nat.mod_lt _ (Nat.pos_of_ne_zero h)) hb.2.2

theorem divRem_zero (bits : ℕ) (a b : List ℕ) (ha : Canon bits a) (hb : Canon bits b) (h : val b = 0) :
    divRem bits a b = none :=
  (div_spec a b ha.2.1 hb.2.1).1 h

/-- `⌈a/b⌉` in the two forms the code distinguishes -/
theorem ceil_div (a b : ℕ) (hb : 0 < b) :
    (a % b = 0 → (a + b - 1) / b = a / b) ∧ (a % b ≠ 0 → (a + b - 1) / b = a / b + 1) := by
  have e := Nat.div_add_mod a b
  have hm := Nat.mod_lt a hb
  obtain ⟨q, hq⟩ : ∃ q, q = a / b := ⟨_, rfl⟩
  obtain ⟨r, hr⟩ : ∃ r, r = a % b := ⟨_, rfl⟩
  rw [← hq] at e ⊢
  rw [← hr] at e hm ⊢
  constructor
  · intro h0
    apply Nat.div_eq_of_lt_le
    · rw [Nat.mul_comm]; omega
    · rw [Nat.add_mul, Nat.mul_comm q b]; omega
  · intro h0
    apply Nat.div_eq_of_lt_le
    · rw [Nat.add_mul, Nat.mul_comm q b]; omega
    · rw [Nat.add_mul, Nat.add_mul, Nat.mul_comm q b]; omega

/-- `⌈a/b⌉·b` is the least multiple of `b` that is `≥ a` -/
theorem least_multiple (a b : ℕ) (hb : 0 < b) :
    b ∣ (a + b - 1) / b * b ∧ a ≤ (a + b - 1) / b * b
    ∧ ∀ m, b ∣ m → a ≤ m → (a + b - 1) / b * b ≤ m := by
  refine ⟨Dvd.intro_left _ rfl, ?_, ?_⟩
  · have e := Nat.div_add_mod (a + b - 1) b
    have hm := Nat.mod_lt (a + b - 1) hb
    rw [Nat.mul_comm]; omega
  · rintro m ⟨k, rfl⟩ hk
    have h1 : a + b - 1 < b * (k + 1) := by rw [Nat.mul_add]; omega
    have h2 : (a + b - 1) / b < k + 1 := Nat.div_lt_of_lt_mul h1
    have h3 : (a + b - 1) / b * b ≤ k * b := Nat.mul_le_mul_right _ (by omega)
    rw [Nat.mul_comm b k]; exact h3

theorem canon_ofVal (bits v : ℕ) : Canon bits (ofVal bits v) ∧ val (ofVal bits v) = v % 2 ^ bits := by
  unfold ofVal
  have h : v % 2 ^ bits < 2 ^ bits := Nat.mod_lt _ (by positivity)
  exact ⟨canon_toLimbs bits _ h, val_toLimbs_of_lt bits _ h⟩

theorem bits_pos_of_val_ne_zero (bits : ℕ) (b : List ℕ) (hb : Canon bits b) (h : val b ≠ 0) : 0 < bits := by
  rcases Nat.eq_zero_or_pos bits with h0 | h0
  · have := hb.2.2; rw [h0] at this; simp at this; omega
  · exact h0

end Ruint.DivU
