import Ruint.Lemmas.Div.NStep
import Ruint.Lemmas.Div.Loop

namespace Ruint.Div.KN
open KStep KLoop

theorem decomp2 (w : List ℕ) (k : ℕ) (h : w.length = k + 2) :
    w = w.take k ++ [w.getD k 0, w.getD (k + 1) 0] := by
  induction k generalizing w with
  | zero =>
    match w, h with
    | [a, b], _ => simp
  | succ k ih =>
    match w, h with
    | x :: w', h =>
      have h' : w'.length = k + 2 := by simpa using h
      have := ih w' h'
      simp only [List.take_succ_cons, List.cons_append, List.getD_cons_succ]
      rw [← this]


theorem nstepL_spec (W : ℕ) (w ds : List ℕ) (v : ℕ) (hW2 : 2 ≤ W)
    (hw : AllLt W w) (hds : AllLt W ds) (hlen : w.length = ds.length + 1) (h2 : 2 ≤ ds.length)
    (hn : W ≤ 2 * ds.getD (ds.length - 1) 0)
    (hwin : val W w < val W ds * W)
    (hv : v = recip2Spec W (ds.getD (ds.length - 1) 0 * W + ds.getD (ds.length - 2) 0)) :
    val W w = (nstepL W w ds v).1 * val W ds + val W (nstepL W w ds v).2
    ∧ val W (nstepL W w ds v).2 < val W ds
    ∧ (nstepL W w ds v).2.length = ds.length
    ∧ AllLt W (nstepL W w ds v).2
    ∧ (nstepL W w ds v).1 < W := by
  obtain ⟨k, hk⟩ : ∃ k, k = ds.length - 2 := ⟨_, rfl⟩
  have hdl : ds.length = k + 2 := by omega
  have hwl : w.length = k + 3 := by omega
  have e1i : ds.length - 1 = k + 1 := by omega
  have e2i : ds.length - 2 = k := by omega
  rw [e1i] at hn hv
  rw [e2i] at hv
  have dw := KLoop.decomp3 w k hwl
  have dd := decomp2 ds k hdl
  unfold nstepL
  simp only []
  rw [← hk]
  obtain ⟨low, hlow'⟩ : ∃ l, l = w.take k := ⟨_, rfl⟩
  obtain ⟨dlow, hdlow'⟩ : ∃ l, l = ds.take k := ⟨_, rfl⟩
  obtain ⟨c0, hc0⟩ : ∃ x, x = w.getD k 0 := ⟨_, rfl⟩
  obtain ⟨c1, hc1⟩ : ∃ x, x = w.getD (k + 1) 0 := ⟨_, rfl⟩
  obtain ⟨c2, hc2⟩ : ∃ x, x = w.getD (k + 2) 0 := ⟨_, rfl⟩
  obtain ⟨e0, he0⟩ : ∃ x, x = ds.getD k 0 := ⟨_, rfl⟩
  obtain ⟨e1, he1⟩ : ∃ x, x = ds.getD (k + 1) 0 := ⟨_, rfl⟩
  rw [← hlow', ← hc0, ← hc1, ← hc2] at dw ⊢
  rw [← hdlow', ← he0, ← he1] at dd ⊢
  rw [← he1] at hn hv
  rw [← he0] at hv
  have hlowlen : low.length = k := by rw [hlow']; simp; omega
  have hdlowlen : dlow.length = k := by rw [hdlow']; simp; omega
  have hwa : AllLt W (low ++ [c0, c1, c2]) := by rw [← dw]; exact hw
  have hda : AllLt W (dlow ++ [e0, e1]) := by rw [← dd]; exact hds
  have key := nstep_spec W low c0 c1 c2 dlow e0 e1 v hW2
    (fun x hx => hwa x (by simp [hx])) (fun x hx => hda x (by simp [hx]))
    (by rw [hlowlen, hdlowlen])
    (hwa c0 (by simp)) (hwa c1 (by simp)) (hda e0 (by simp)) (hda e1 (by simp))
    hn (by rw [← dw, ← dd]; exact hwin) hv
  rw [← dw, ← dd] at key
  rw [hdl, ← hlowlen]
  exact key

/-- `for j in (0..=m).rev()` of `div_nxm_normalized`, functionally. -/
def nloop (W : ℕ) (ds : List ℕ) (v : ℕ) : List ℕ → List ℕ → List ℕ × List ℕ
  | [], r => ([], r)
  | x :: los, r =>
    let s := nstepL W (x :: r) ds v
    let t := nloop W ds v los s.2
    (t.1 ++ [s.1], t.2)

/-- exact under the real precondition: the initial `n`-limb remainder is below the divisor. -/
theorem nloop_spec (W : ℕ) (ds : List ℕ) (v : ℕ) (hW2 : 2 ≤ W)
    (hds : AllLt W ds) (h2 : 2 ≤ ds.length) (hn : W ≤ 2 * ds.getD (ds.length - 1) 0)
    (hv : v = recip2Spec W (ds.getD (ds.length - 1) 0 * W + ds.getD (ds.length - 2) 0))
    (los r : List ℕ) (hlos : AllLt W los) (hr : AllLt W r) (hrl : r.length = ds.length)
    (hrD : val W r < val W ds) :
    val W los.reverse + W ^ los.length * val W r
      = val W (nloop W ds v los r).1 * val W ds + val W (nloop W ds v los r).2
    ∧ val W (nloop W ds v los r).2 < val W ds
    ∧ (nloop W ds v los r).1.length = los.length
    ∧ (nloop W ds v los r).2.length = ds.length := by
  induction los generalizing r with
  | nil =>
    simp only [nloop, List.reverse_nil, val_nil, List.length_nil, pow_zero, Nat.one_mul, Nat.zero_mul, Nat.zero_add]
    exact ⟨trivial, hrD, trivial, hrl⟩
  | cons x los ih =>
    have hx : x < W := hlos x (by simp)
    have hlos' : AllLt W los := fun y hy => hlos y (by simp [hy])
    have hwall : AllLt W (x :: r) := by
      intro y hy; simp at hy; rcases hy with rfl | hy
      · exact hx
      · exact hr y hy
    have hwin : val W (x :: r) < val W ds * W := by
      rw [val_cons]
      have : W * (val W r + 1) ≤ W * val W ds := Nat.mul_le_mul_left _ hrD
      rw [Nat.mul_add, Nat.mul_one, Nat.mul_comm W (val W ds)] at this
      omega
    obtain ⟨s1, s2, s3, s4, s5⟩ := nstepL_spec W (x :: r) ds v hW2 hwall hds (by simp [hrl]) h2 hn hwin hv
    simp only [nloop]
    obtain ⟨s, hs⟩ : ∃ s, s = nstepL W (x :: r) ds v := ⟨_, rfl⟩
    rw [← hs] at s1 s2 s3 s4 s5 ⊢
    obtain ⟨i1, i2, i3, i4⟩ := ih s.2 hlos' s4 s3 s2
    obtain ⟨t, ht⟩ : ∃ t, t = nloop W ds v los s.2 := ⟨_, rfl⟩
    rw [← ht] at i1 i2 i3 i4 ⊢
    refine ⟨?_, i2, by simp [i3], i4⟩
    rw [List.reverse_cons, val_append, val_append, List.length_reverse, List.length_cons, i3]
    simp only [val_cons, val_nil, Nat.mul_zero, Nat.add_zero]
    rw [val_cons] at s1
    obtain ⟨P, hP⟩ : ∃ P, P = W ^ los.length := ⟨_, rfl⟩
    rw [pow_succ, ← hP]
    rw [← hP] at i1
    have e1 : val W los.reverse + P * x + P * W * val W r
        = val W los.reverse + P * (x + W * val W r) := by ring
    rw [e1, s1]
    have e2 : val W los.reverse + P * (s.1 * val W ds + val W s.2)
        = (val W los.reverse + P * val W s.2) + P * s.1 * val W ds := by ring
    rw [e2, i1]; ring

end Ruint.Div.KN