import Mathlib.Tactic.Ring
import Mathlib.Tactic.Linarith
import Mathlib.Tactic.NormNum
import Mathlib.Tactic.Zify
import Mathlib.Tactic.Positivity
import Mathlib.Tactic.Push
import Mathlib.Data.Int.ModEq
import Mathlib.Tactic.LinearCombination
import Ruint.Model.DivRecip
import Ruint.Gen.RecipTableFacts

/-! Error analysis of MG10 Algorithm 3 (`reciprocal_mg10`) — integer form, no rationals.
    t = d40, x = 2^60 - v1*t (= E1*t), y = 2^97 - v2*d (= E2*d). -/

namespace Ruint.Div.Recip

/-- S2-lower: `v1 * t < 2^60` for ANY `v0` (AM–GM), where `f = ⌊v0² t / 2^40⌋`. -/
theorem v1_lower (v0 t f : ℤ) (ht : 0 < t) (hf : v0 * v0 * t < 2 ^ 40 * (f + 1)) :
    (2 ^ 11 * v0 - f - 1) * t < 2 ^ 60 := by
  -- 2^40 * LHS = 2^51 v0 t - 2^40 (f+1) t < 2^51 v0 t - v0² t² ≤ 2^100
  have h1 : v0 * v0 * t * t < 2 ^ 40 * (f + 1) * t := by nlinarith
  have h2 : 0 ≤ (v0 * t - 2 ^ 50) ^ 2 := sq_nonneg _
  have h3 : (2:ℤ) ^ 40 * ((2 ^ 11 * v0 - f - 1) * t) < 2 ^ 40 * 2 ^ 60 := by nlinarith
  exact lt_of_mul_lt_mul_left h3 (by positivity)

/-- S2-upper by concavity: if the bound holds at both ends of the row it holds inside.
    `h(t) = (2^11 v0 + U - 1) t·2^40 - v0² t² - 2^100 ≥ 0` (scaled by 2^40), `U` an integer bound on E1. -/
theorem v1_upper (v0 t f U lo hi : ℤ) (ht : 0 ≤ t) (hlo : lo ≤ t) (hhi : t ≤ hi)
    (hf : 2 ^ 40 * f ≤ v0 * v0 * t)
    (hA : 0 ≤ (2 ^ 11 * v0 + U - 1) * lo * 2 ^ 40 - v0 * v0 * lo * lo - 2 ^ 100)
    (hB : 0 ≤ (2 ^ 11 * v0 + U - 1) * hi * 2 ^ 40 - v0 * v0 * hi * hi - 2 ^ 100) :
    2 ^ 60 ≤ (2 ^ 11 * v0 - f - 1 + U) * t := by
  -- (t - lo)(hi - t) ≥ 0 gives t² ≤ (lo+hi) t - lo hi ; then linear interpolation of endpoints
  have hprod : 0 ≤ (t - lo) * (hi - t) := mul_nonneg (by linarith) (by linarith)
  have hv : 0 ≤ v0 * v0 := mul_self_nonneg _
  have hq : v0 * v0 * (t * t) ≤ v0 * v0 * ((lo + hi) * t - lo * hi) := by
    apply mul_le_mul_of_nonneg_left _ hv; nlinarith
  -- h(t) ≥ ℓ(t) where ℓ linear with ℓ(lo)=h(lo), ℓ(hi)=h(hi)
  have hmain : 0 ≤ (2 ^ 11 * v0 + U - 1) * t * 2 ^ 40 - v0 * v0 * (t * t) - 2 ^ 100 := by
    rcases eq_or_lt_of_le (le_trans hlo hhi) with heq | hlt
    · have : t = lo := by linarith
      rw [this]; nlinarith
    · -- convex combination: (hi - lo) * h(t) ≥ (hi - t) * h(lo) + (t - lo) * h(hi)
      have hc : 0 ≤ (hi - t) * ((2 ^ 11 * v0 + U - 1) * lo * 2 ^ 40 - v0 * v0 * lo * lo - 2 ^ 100)
                  + (t - lo) * ((2 ^ 11 * v0 + U - 1) * hi * 2 ^ 40 - v0 * v0 * hi * hi - 2 ^ 100) :=
        add_nonneg (mul_nonneg (by linarith) hA) (mul_nonneg (by linarith) hB)
      have hid : (hi - lo) * ((2 ^ 11 * v0 + U - 1) * t * 2 ^ 40 - v0 * v0 * (t * t) - 2 ^ 100)
          = (hi - t) * ((2 ^ 11 * v0 + U - 1) * lo * 2 ^ 40 - v0 * v0 * lo * lo - 2 ^ 100)
            + (t - lo) * ((2 ^ 11 * v0 + U - 1) * hi * 2 ^ 40 - v0 * v0 * hi * hi - 2 ^ 100)
            + v0 * v0 * (hi - lo) * ((t - lo) * (hi - t)) := by ring
      have hpos : 0 < hi - lo := by linarith
      have h3 : 0 ≤ v0 * v0 * (hi - lo) * ((t - lo) * (hi - t)) :=
        mul_nonneg (mul_nonneg hv hpos.le) hprod
      have : 0 ≤ (hi - lo) * ((2 ^ 11 * v0 + U - 1) * t * 2 ^ 40 - v0 * v0 * (t * t) - 2 ^ 100) := by
        rw [hid]; linarith
      exact nonneg_of_mul_nonneg_right this hpos
  -- now use 2^40 f ≤ v0² t
  have ht0 : 0 ≤ t * t := mul_self_nonneg _
  have h5 : 2 ^ 40 * f * t ≤ v0 * v0 * t * t := mul_le_mul_of_nonneg_right hf ht
  have h6 : (2:ℤ) ^ 40 * 2 ^ 60 ≤ 2 ^ 40 * ((2 ^ 11 * v0 - f - 1 + U) * t) := by nlinarith
  exact le_of_mul_le_mul_left h6 (by positivity)


/-- S3a: `v2 * d < 2^97` (E2 > 0).  `2^47 v2 ≤ v1 (2^61 - v1 t)`, `d < 2^24 t`, `v2 > 0`. -/
theorem v2_lower (v1 t v2 d : ℤ) (hv2 : 0 < v2) (ht : 0 < t)
    (hg : 2 ^ 47 * v2 ≤ v1 * (2 ^ 61 - v1 * t)) (hd : d < 2 ^ 24 * t) :
    v2 * d < 2 ^ 97 := by
  have h1 : v2 * d < v2 * (2 ^ 24 * t) := mul_lt_mul_of_pos_left hd hv2
  have h2 : 2 ^ 47 * v2 * t ≤ v1 * (2 ^ 61 - v1 * t) * t := mul_le_mul_of_nonneg_right hg ht.le
  have h3 : 0 ≤ (v1 * t - 2 ^ 60) ^ 2 := sq_nonneg _
  -- (v1 t)(2^61 - v1 t) ≤ 2^120
  have h4 : v1 * (2 ^ 61 - v1 * t) * t ≤ 2 ^ 120 := by nlinarith
  have h5 : (2:ℤ) ^ 47 * (v2 * d) < 2 ^ 47 * 2 ^ 97 := by nlinarith
  exact lt_of_mul_lt_mul_left h5 (by positivity)

/-- S3b: with `x = 2^60 - v1 t`, `x² ≤ 3·2^45·t`, the defect `y = 2^97 - v2 d` is small enough
    for the last Newton step: `y² + 2^97 ≤ 2^66 d`. -/
theorem v2_upper (v1 t v2 d x : ℤ) (ht1 : 2 ^ 39 < t) (ht2 : t ≤ 2 ^ 40)
    (hx : v1 * t = 2 ^ 60 - x) (hxK : x * x ≤ 3 * 2 ^ 45 * t)
    (hg : v1 * (2 ^ 60 + x) < 2 ^ 47 * (v2 + 1))
    (hd : 2 ^ 24 * (t - 1) ≤ d) (hv2 : 0 ≤ v2) (hv2' : v2 < 2 ^ 34) (hy0 : 0 ≤ 2 ^ 97 - v2 * d) :
    (2 ^ 97 - v2 * d) * (2 ^ 97 - v2 * d) + 2 ^ 97 ≤ 2 ^ 66 * d := by
  have ht : 0 < t := by linarith
  -- 2^47 (v2+1) t > (2^60 - x)(2^60 + x) = 2^120 - x²
  have h1 : (2 ^ 60 - x) * (2 ^ 60 + x) < 2 ^ 47 * (v2 + 1) * t := by
    have := mul_lt_mul_of_pos_right hg ht
    have e : v1 * (2 ^ 60 + x) * t = (v1 * t) * (2 ^ 60 + x) := by ring
    rw [e, hx] at this; linarith
  -- v2 d ≥ 2^24 v2 (t-1)
  have h2 : 2 ^ 24 * v2 * (t - 1) ≤ v2 * d := by nlinarith
  set y := 2 ^ 97 - v2 * d with hy
  -- 2^47 y < 2^24 x² + 2^71 t + 2^71 v2
  have h3 : 2 ^ 47 * y < 2 ^ 24 * (x * x) + 2 ^ 71 * t + 2 ^ 71 * v2 := by
    have e1 : (2 ^ 60 - x) * (2 ^ 60 + x) = 2 ^ 120 - x * x := by ring
    rw [e1] at h1
    have : (2:ℤ) ^ 47 * y = 2 ^ 144 - 2 ^ 47 * (v2 * d) := by rw [hy]; ring
    nlinarith
  -- hence y < 2^24 (7/4 t + v2) ≤ 2^24 * (57/32) t  ; use 32 y < 57 * 2^24 t
  have h4 : 32 * y < 57 * 2 ^ 24 * t := by
    have hv : 32 * v2 < t := by linarith
    nlinarith
  -- y² bound
  have h5 : (32 * y) * (32 * y) ≤ (57 * 2 ^ 24 * t) * (57 * 2 ^ 24 * t) := by
    have hy32 : 0 ≤ 32 * y := by linarith
    nlinarith
  -- need: y² + 2^97 ≤ 2^66 d ; d ≥ 2^24 (t-1)
  have h6 : (2:ℤ) ^ 66 * (2 ^ 24 * (t - 1)) ≤ 2 ^ 66 * d := by nlinarith
  nlinarith

/-- S4: with `y = 2^97 - v2 d > 0`, `2e = y - δ`, `δ ∈ {0,1}`, `c = ⌊v2 e / 2^65⌋`, `v3' = 2^31 v2 + c`:
    `v3' d < 2^128 ≤ (v3' + 2) d`. -/
theorem v3_bounds (v2 d e c δ : ℤ) (hv2 : 0 ≤ v2) (hd : 0 < d)
    (hy : 0 < 2 ^ 97 - v2 * d) (hδ0 : 0 ≤ δ) (hδ1 : δ ≤ 1) (he : 2 * e = (2 ^ 97 - v2 * d) - δ)
    (hc1 : 2 ^ 65 * c ≤ v2 * e) (hc2 : v2 * e < 2 ^ 65 * (c + 1))
    (hS3 : (2 ^ 97 - v2 * d) * (2 ^ 97 - v2 * d) + 2 ^ 97 ≤ 2 ^ 66 * d) :
    (2 ^ 31 * v2 + c) * d < 2 ^ 128 ∧ 2 ^ 128 ≤ (2 ^ 31 * v2 + c + 2) * d := by
  set y := 2 ^ 97 - v2 * d with hyd
  have hvd : v2 * d = 2 ^ 97 - y := by rw [hyd]; ring
  constructor
  · -- 2^66 v3' ≤ v2 (2^97 + y)
    have h1 : 2 ^ 66 * (2 ^ 31 * v2 + c) ≤ v2 * (2 ^ 97 + y) := by nlinarith
    have h2 : 2 ^ 66 * (2 ^ 31 * v2 + c) * d ≤ v2 * (2 ^ 97 + y) * d := mul_le_mul_of_nonneg_right h1 hd.le
    have h3 : v2 * (2 ^ 97 + y) * d = (2 ^ 97 - y) * (2 ^ 97 + y) := by rw [← hvd]; ring
    have h4 : (2 ^ 97 - y) * (2 ^ 97 + y) = 2 ^ 194 - y * y := by ring
    have h5 : 0 < y * y := mul_pos hy hy
    have h6 : (2:ℤ) ^ 66 * ((2 ^ 31 * v2 + c) * d) < 2 ^ 66 * 2 ^ 128 := by nlinarith
    exact lt_of_mul_lt_mul_left h6 (by positivity)
  · -- 2^66 (v3'+1) > v2 (2^97 + y) - v2
    have h1 : v2 * (2 ^ 97 + y) - v2 ≤ 2 ^ 66 * (2 ^ 31 * v2 + c + 1) := by nlinarith
    have h2 : (v2 * (2 ^ 97 + y) - v2) * d ≤ 2 ^ 66 * (2 ^ 31 * v2 + c + 1) * d := mul_le_mul_of_nonneg_right h1 hd.le
    have h3 : (v2 * (2 ^ 97 + y) - v2) * d = (2 ^ 97 - y) * (2 ^ 97 + y) - (2 ^ 97 - y) := by rw [← hvd]; ring
    have h4 : (2 ^ 97 - y) * (2 ^ 97 + y) = 2 ^ 194 - y * y := by ring
    have h6 : (2:ℤ) ^ 66 * 2 ^ 128 ≤ 2 ^ 66 * ((2 ^ 31 * v2 + c + 2) * d) := by nlinarith
    exact le_of_mul_le_mul_left h6 (by positivity)


/-- S2-upper, scaled: `U = a/s`. -/
theorem v1_upper_scaled (v0 t f a s lo hi : ℤ) (hs : 0 < s) (ht : 0 ≤ t) (hlo : lo ≤ t) (hhi : t ≤ hi)
    (hf : 2 ^ 40 * f ≤ v0 * v0 * t)
    (hA : 0 ≤ (s * (2 ^ 11 * v0 - 1) + a) * lo * 2 ^ 40 - s * (v0 * v0) * lo * lo - s * 2 ^ 100)
    (hB : 0 ≤ (s * (2 ^ 11 * v0 - 1) + a) * hi * 2 ^ 40 - s * (v0 * v0) * hi * hi - s * 2 ^ 100) :
    s * 2 ^ 60 ≤ (s * (2 ^ 11 * v0 - f - 1) + a) * t := by
  have hprod : 0 ≤ (t - lo) * (hi - t) := mul_nonneg (by linarith) (by linarith)
  have hv : 0 ≤ s * (v0 * v0) := mul_nonneg hs.le (mul_self_nonneg _)
  have hmain : 0 ≤ (s * (2 ^ 11 * v0 - 1) + a) * t * 2 ^ 40 - s * (v0 * v0) * (t * t) - s * 2 ^ 100 := by
    rcases eq_or_lt_of_le (le_trans hlo hhi) with heq | hlt
    · have : t = lo := by linarith
      rw [this]; nlinarith
    · have hc : 0 ≤ (hi - t) * ((s * (2 ^ 11 * v0 - 1) + a) * lo * 2 ^ 40 - s * (v0 * v0) * lo * lo - s * 2 ^ 100)
                  + (t - lo) * ((s * (2 ^ 11 * v0 - 1) + a) * hi * 2 ^ 40 - s * (v0 * v0) * hi * hi - s * 2 ^ 100) :=
        add_nonneg (mul_nonneg (by linarith) hA) (mul_nonneg (by linarith) hB)
      have hid : (hi - lo) * ((s * (2 ^ 11 * v0 - 1) + a) * t * 2 ^ 40 - s * (v0 * v0) * (t * t) - s * 2 ^ 100)
          = (hi - t) * ((s * (2 ^ 11 * v0 - 1) + a) * lo * 2 ^ 40 - s * (v0 * v0) * lo * lo - s * 2 ^ 100)
            + (t - lo) * ((s * (2 ^ 11 * v0 - 1) + a) * hi * 2 ^ 40 - s * (v0 * v0) * hi * hi - s * 2 ^ 100)
            + s * (v0 * v0) * (hi - lo) * ((t - lo) * (hi - t)) := by ring
      have hpos : 0 < hi - lo := by linarith
      have h3 : 0 ≤ s * (v0 * v0) * (hi - lo) * ((t - lo) * (hi - t)) :=
        mul_nonneg (mul_nonneg hv hpos.le) hprod
      have : 0 ≤ (hi - lo) * ((s * (2 ^ 11 * v0 - 1) + a) * t * 2 ^ 40 - s * (v0 * v0) * (t * t) - s * 2 ^ 100) := by
        rw [hid]; linarith
      exact nonneg_of_mul_nonneg_right this hpos
  have h5 : 2 ^ 40 * f * t ≤ v0 * v0 * t * t := mul_le_mul_of_nonneg_right hf ht
  have h5' : s * (2 ^ 40 * f * t) ≤ s * (v0 * v0 * t * t) := mul_le_mul_of_nonneg_left h5 hs.le
  have h6 : (2:ℤ) ^ 40 * (s * 2 ^ 60) ≤ 2 ^ 40 * ((s * (2 ^ 11 * v0 - f - 1) + a) * t) := by nlinarith
  exact le_of_mul_le_mul_left h6 (by positivity)

theorem wsub_eq (a b : ℕ) (hb : b ≤ a) (ha : a < M) : wsub a b = a - b := by
  unfold wsub
  have hbM : b < M := by omega
  rw [Nat.mod_eq_of_lt hbM]
  have : a + M - b = (a - b) + M := by omega
  rw [this, Nat.add_mod_right, Nat.mod_eq_of_lt (by omega)]

/-- S5: the final correction step is exact when `V - 1 ≤ v3' ≤ V`. -/
theorem final_step (d v3' : ℕ) (hd1 : M ≤ 2 * d) (hd2 : d < M)
    (h1 : v3' ≤ (M * M - 1) / d) (h2 : (M * M - 1) / d ≤ v3' + 1) (h3 : M ≤ v3') (h4 : v3' < 2 * M) :
    wsub (wsub (v3' - M) (((v3' - M) * d + d) / M)) d = (M * M - 1) / d - M := by
  have hM : 0 < M := by unfold M; positivity
  have hd0 : 0 < d := by omega
  set V := (M * M - 1) / d with hV
  have hMM : 1 ≤ M * M := Nat.one_le_iff_ne_zero.mpr (by positivity)
  have hVd : V * d ≤ M * M - 1 := Nat.div_mul_le_self _ _
  have hVd' : M * M - 1 < (V + 1) * d := by
    have h := Nat.div_add_mod (M * M - 1) d
    have hm := Nat.mod_lt (M * M - 1) hd0
    rw [← hV] at h
    nlinarith
  have hV2M : V < 2 * M := by
    by_contra hc
    push Not at hc
    have h5 : 2 * M * d ≤ V * d := Nat.mul_le_mul_right _ hc
    have h6 : M * M ≤ 2 * M * d := by nlinarith
    omega
  set v3 := v3' - M with hv3
  have hv3M : v3 < M := by omega
  -- (v3 + 1) * d = (v3' + 1) * d - M * d
  have e1 : (v3 + 1) * d + M * d = (v3' + 1) * d := by
    have : v3 + 1 + M = v3' + 1 := by omega
    rw [← this]; ring
  have e0 : v3 * d + d = (v3 + 1) * d := by ring
  rw [e0]
  clear_value V
  rcases Nat.eq_or_lt_of_le h1 with hk0 | hk1
  · -- k = 0 : v3' = V ; (v3'+1) d = (V+1) d ∈ [M², M² + d) ; h = M - d
    have hh : (v3 + 1) * d / M = M - d := by
      apply Nat.div_eq_of_lt_le
      · -- (M - d) * M ≤ (v3+1)*d
        have : (M - d) * M + M * d = M * M := by
          rw [Nat.sub_mul]; have : d * M ≤ M * M := Nat.mul_le_mul_right _ hd2.le
          rw [Nat.mul_comm d M] at this ⊢; omega
        rw [hk0] at e1; omega
      · have : (M - d + 1) * M + M * d = M * M + M := by
          have : (M - d + 1) * M = (M - d) * M + M := by ring
          rw [this, Nat.sub_mul]; have : d * M ≤ M * M := Nat.mul_le_mul_right _ hd2.le
          rw [Nat.mul_comm d M] at this ⊢; omega
        rw [hk0] at e1
        have : (V + 1) * d ≤ M * M - 1 + d := by
          rw [Nat.add_mul, Nat.one_mul]; omega
        omega
    rw [hh]
    -- wsub v3 (M - d) then wsub _ d
    by_cases hc : M - d ≤ v3
    · rw [wsub_eq v3 (M - d) hc hv3M]
      -- v3 - (M - d) then minus d : need d ≤ v3 - (M-d)?  not necessarily; compute via wsub def
      unfold wsub
      rw [Nat.mod_eq_of_lt hd2]
      have : v3 - (M - d) + M - d = v3 := by omega
      rw [this, Nat.mod_eq_of_lt hv3M]; omega
    · push Not at hc
      unfold wsub
      rw [Nat.mod_eq_of_lt (by omega : M - d < M), Nat.mod_eq_of_lt hd2]
      have e2 : v3 + M - (M - d) = v3 + d := by omega
      rw [e2, Nat.mod_eq_of_lt (by omega : v3 + d < M)]
      have : v3 + d + M - d = v3 + M := by omega
      rw [this, Nat.add_mod_right, Nat.mod_eq_of_lt hv3M]; omega
  · -- k = 1 : v3' + 1 = V ; (v3'+1) d = V d ∈ (M² - 1 - d, M² - 1] ; h = M - d - 1
    have hV1 : V = v3' + 1 := by omega
    have hh : (v3 + 1) * d / M = M - d - 1 := by
      apply Nat.div_eq_of_lt_le
      · have : (M - d - 1) * M + M * d + M = M * M := by
          have : M - d - 1 = M - (d + 1) := by omega
          rw [this, Nat.sub_mul]
          have : (d + 1) * M ≤ M * M := Nat.mul_le_mul_right _ (by omega)
          have e : (d + 1) * M = M * d + M := by ring
          omega
        rw [← hV1] at e1
        have : M * M - 1 < V * d + d := by rw [Nat.add_mul, Nat.one_mul] at hVd'; exact hVd'
        have hdM : d ≤ M := hd2.le
        omega
      · have : (M - d - 1 + 1) * M + M * d = M * M := by
          have : M - d - 1 + 1 = M - d := by omega
          rw [this, Nat.sub_mul]; have : d * M ≤ M * M := Nat.mul_le_mul_right _ hd2.le
          rw [Nat.mul_comm d M] at this ⊢; omega
        rw [← hV1] at e1
        omega
    rw [hh]
    unfold wsub
    rw [Nat.mod_eq_of_lt (by omega : M - d - 1 < M), Nat.mod_eq_of_lt hd2]
    by_cases hc : M - d - 1 ≤ v3
    · have e2 : v3 + M - (M - d - 1) = (v3 + d + 1 - M) + M := by omega
      have hlt : v3 + d + 1 - M < M := by omega
      rw [e2, Nat.add_mod_right, Nat.mod_eq_of_lt hlt]
      have e3 : v3 + d + 1 - M + M - d = v3 + 1 := by omega
      have hlt2 : v3 + 1 < M := by omega
      rw [e3, Nat.mod_eq_of_lt hlt2]; omega
    · push Not at hc
      have e2 : v3 + M - (M - d - 1) = v3 + d + 1 := by omega
      have hlt : v3 + d + 1 < M := by omega
      rw [e2, Nat.mod_eq_of_lt hlt]
      have e3 : v3 + d + 1 + M - d = (v3 + 1) + M := by omega
      have hlt2 : v3 + 1 < M := by omega
      rw [e3, Nat.add_mod_right, Nat.mod_eq_of_lt hlt2]; omega


theorem wmul_eq (a b : ℕ) (h : a * b < M) : wmul a b = a * b := Nat.mod_eq_of_lt h
theorem wadd_eq (a b : ℕ) (h : a + b < M) : wadd a b = a + b := Nat.mod_eq_of_lt h



-- sanity: a few concrete values through the kernel
example : recipModel (2 ^ 63) = recipSpec (2 ^ 63) := by decide +kernel
example : recipModel (2 ^ 64 - 1) = recipSpec (2 ^ 64 - 1) := by decide +kernel
example : recipModel 0x807f91f1f6da9f6e = recipSpec 0x807f91f1f6da9f6e := by decide +kernel

theorem M_eq : M = 2 ^ 64 := rfl

theorem div_facts (n k : ℕ) (hk : 0 < k) : k * (n / k) ≤ n ∧ n < k * (n / k + 1) := by
  have h := Nat.div_add_mod n k
  have hm := Nat.mod_lt n hk
  constructor
  · omega
  · rw [Nat.mul_add, Nat.mul_one]; omega

set_option maxRecDepth 20000 in
set_option maxHeartbeats 8000000 in
/-- first half of the analysis: from `d` to `v2`, `y` and their bounds (all in ℕ). -/
theorem recip_stage1 (d : ℕ) (h1 : 2 ^ 63 ≤ d) (h2 : d ≤ 2 ^ 64 - 2) :
    ∃ i t v0 f v1 x g v2 y : ℕ,
      i = d / 2 ^ 55 - 256 ∧ 256 ≤ d / 2 ^ 55 ∧ t = d / 2 ^ 24 + 1 ∧ v0 = TABLE[i]! ∧ v0 ≤ 2045 ∧
      f = v0 * v0 * t / 2 ^ 40 ∧ v1 = v0 * 2 ^ 11 - f - 1 ∧ f + 1 ≤ v0 * 2 ^ 11 ∧ 1 ≤ v1 ∧ v1 < 2 ^ 22 ∧
      t ≤ 2 ^ 40 ∧ v1 * t + x = 2 ^ 60 ∧ 0 < x ∧ v1 * x < 2 ^ 64 ∧
      g = v1 * x / 2 ^ 47 ∧ v2 = v1 * 2 ^ 13 + g ∧ 0 < v2 ∧ v2 < 2 ^ 34 ∧
      v2 * d + y = 2 ^ 97 ∧ 0 < y ∧ y < 2 ^ 65 ∧ y * y + 2 ^ 97 ≤ 2 ^ 66 * d := by
  obtain ⟨i, hi_def⟩ : ∃ i, i = d / 2 ^ 55 - 256 := ⟨_, rfl⟩
  obtain ⟨d9, hd9_def⟩ : ∃ d9, d9 = d / 2 ^ 55 := ⟨_, rfl⟩
  obtain ⟨hq1, hq2⟩ := div_facts d (2 ^ 55) (by positivity)
  rw [← hd9_def] at hq1 hq2 hi_def
  have hd9a : 256 ≤ d9 := by
    by_contra hc
    push Not at hc
    have : 2 ^ 55 * (d9 + 1) ≤ 2 ^ 55 * 256 := Nat.mul_le_mul_left _ (by omega)
    omega
  have hd9b : d9 < 512 := by
    by_contra hc
    push Not at hc
    have : 2 ^ 55 * 512 ≤ 2 ^ 55 * d9 := Nat.mul_le_mul_left _ hc
    omega
  have hi : i < 256 := by omega
  have hid9 : d9 = 256 + i := by omega
  obtain ⟨t, ht_def⟩ : ∃ t, t = d / 2 ^ 24 + 1 := ⟨_, rfl⟩
  obtain ⟨dq, hdq_def⟩ : ∃ dq, dq = d / 2 ^ 24 := ⟨_, rfl⟩
  obtain ⟨hr1, hr2⟩ := div_facts d (2 ^ 24) (by positivity)
  rw [← hdq_def] at hr1 hr2 ht_def
  have hdt1 : d < 2 ^ 24 * t := by rw [ht_def]; exact hr2
  have hdt2 : 2 ^ 24 * (t - 1) ≤ d := by
    have : t - 1 = dq := by omega
    rw [this]; exact hr1
  have htlo : rowLo i ≤ t := by
    unfold rowLo
    by_contra hc
    push Not at hc
    -- t ≤ (256+i)*2^31 ⇒ 2^24 t ≤ (256+i) 2^55 ≤ d
    have h3 : 2 ^ 24 * t ≤ 2 ^ 24 * ((256 + i) * 2 ^ 31) := Nat.mul_le_mul_left _ (by omega)
    have h4 : 2 ^ 24 * ((256 + i) * 2 ^ 31) = 2 ^ 55 * (256 + i) := by ring
    rw [hid9] at hq1
    omega
  have hthi : t ≤ rowHi i := by
    unfold rowHi
    by_contra hc
    push Not at hc
    -- t - 1 ≥ (257+i) 2^31 ⇒ d ≥ 2^24 (t-1) ≥ (257+i) 2^55 > d
    have h3 : 2 ^ 24 * ((257 + i) * 2 ^ 31) ≤ 2 ^ 24 * (t - 1) := Nat.mul_le_mul_left _ (by omega)
    have h4 : 2 ^ 24 * ((257 + i) * 2 ^ 31) = 2 ^ 55 * (256 + i + 1) := by ring
    rw [hid9] at hq2
    omega
  have ht39 : 2 ^ 39 < t := by
    by_contra hc
    push Not at hc
    have : 2 ^ 24 * t ≤ 2 ^ 24 * 2 ^ 39 := Nat.mul_le_mul_left _ hc
    omega
  have ht40 : t ≤ 2 ^ 40 := by
    by_contra hc
    push Not at hc
    have : 2 ^ 24 * 2 ^ 40 ≤ 2 ^ 24 * (t - 1) := Nat.mul_le_mul_left _ (by omega)
    omega
  -- table facts
  obtain ⟨hv0a, hv0b, haS, hA, hB, hK⟩ := table_facts ⟨i, hi⟩
  simp only at hv0a hv0b haS hA hB hK
  obtain ⟨v0, hv0_def⟩ : ∃ v0, v0 = TABLE[i]! := ⟨_, rfl⟩
  obtain ⟨a, ha_def⟩ : ∃ a, a = aRow i := ⟨_, rfl⟩
  rw [← hv0_def] at hv0a hv0b hA hB
  rw [← ha_def] at haS hA hB hK
  have hv0a' : 1024 ≤ v0 := by exact_mod_cast hv0a
  have hv0b' : v0 ≤ 2045 := by exact_mod_cast hv0b
  have haS' : a < 4096 := by omega
  -- f, v1
  obtain ⟨f, hf_def⟩ : ∃ f, f = v0 * v0 * t / 2 ^ 40 := ⟨_, rfl⟩
  obtain ⟨hf1, hf2⟩ := div_facts (v0 * v0 * t) (2 ^ 40) (by positivity)
  rw [← hf_def] at hf1 hf2
  have hfle : f ≤ 2045 * v0 := by
    have h3 : v0 * v0 * t ≤ v0 * v0 * 2 ^ 40 := Nat.mul_le_mul_left _ ht40
    have h4 : v0 * v0 ≤ 2045 * v0 := Nat.mul_le_mul_right _ hv0b'
    have h5 : 2 ^ 40 * f ≤ 2 ^ 40 * (v0 * v0) := by rw [Nat.mul_comm (2 ^ 40) (v0 * v0)]; omega
    have : f ≤ v0 * v0 := Nat.le_of_mul_le_mul_left h5 (by positivity)
    omega
  obtain ⟨v1, hv1_def⟩ : ∃ v1, v1 = v0 * 2 ^ 11 - f - 1 := ⟨_, rfl⟩
  have hfv : f + 1 ≤ v0 * 2 ^ 11 := by omega
  have hv1pos : 1 ≤ v1 := by omega
  have hv1lt : v1 < 2 ^ 22 := by omega
  have hv1Z : (v1 : ℤ) = 2 ^ 11 * (v0:ℤ) - f - 1 := by
    have : v1 + f + 1 = v0 * 2 ^ 11 := by omega
    have : ((v1 + f + 1 : ℕ) : ℤ) = ((v0 * 2 ^ 11 : ℕ) : ℤ) := by rw [this]
    push_cast at this; linarith
  have hv1t : v1 * t < 2 ^ 60 := by
    have := v1_lower (v0:ℤ) t f (by positivity) (by exact_mod_cast hf2)
    rw [← hv1Z] at this; exact_mod_cast this
  have hup := v1_upper_scaled (v0:ℤ) t f a 256 (rowLo i : ℕ) (rowHi i : ℕ) (by norm_num) (by positivity)
    (by exact_mod_cast htlo) (by exact_mod_cast hthi) (by exact_mod_cast hf1) hA hB
  have hup' : 256 * 2 ^ 60 ≤ (256 * v1 + a) * t := by
    have e : (256:ℤ) * (2 ^ 11 * (v0:ℤ) - f - 1) + a = 256 * v1 + a := by rw [hv1Z]
    rw [e] at hup; exact_mod_cast hup
  obtain ⟨x, hx_def⟩ : ∃ x, x = 2 ^ 60 - v1 * t := ⟨_, rfl⟩
  have hxpos : 0 < x := by omega
  have hxv : v1 * t + x = 2 ^ 60 := by omega
  have hxa : 256 * x ≤ a * t := by
    have : (256 * v1 + a) * t = 256 * (v1 * t) + a * t := by ring
    omega
  have hxK : x * x ≤ 3 * 2 ^ 45 * t := by
    have h3 : (256 * x) * (256 * x) ≤ (a * t) * (a * t) := Nat.mul_le_mul hxa hxa
    have h4 : (a * t) * (a * t) ≤ a * a * rowHi i * t := by
      have : a * t * (a * t) = a * a * t * t := by ring
      rw [this]; apply Nat.mul_le_mul_right
      exact Nat.mul_le_mul_left _ hthi
    have h5 : a * a * rowHi i ≤ 3 * 2 ^ 45 * (256 * 256) := by exact_mod_cast hK
    have h6 : a * a * rowHi i * t ≤ 3 * 2 ^ 45 * (256 * 256) * t := Nat.mul_le_mul_right _ h5
    have : 256 * 256 * (x * x) ≤ 256 * 256 * (3 * 2 ^ 45 * t) := by
      have e1 : (256 * x) * (256 * x) = 256 * 256 * (x * x) := by ring
      have e2 : 3 * 2 ^ 45 * (256 * 256) * t = 256 * 256 * (3 * 2 ^ 45 * t) := by ring
      omega
    exact Nat.le_of_mul_le_mul_left this (by norm_num)
  have hv1x : v1 * x < 2 ^ 64 := by
    have h3 : 256 * (v1 * x) ≤ v1 * (a * t) := by
      have : 256 * (v1 * x) = v1 * (256 * x) := by ring
      rw [this]; exact Nat.mul_le_mul_left _ hxa
    have h4 : v1 * (a * t) = a * (v1 * t) := by ring
    have h5 : a * (v1 * t) < 2 ^ 12 * 2 ^ 60 := Nat.mul_lt_mul'' (by omega) hv1t
    have h6 : 256 * (v1 * x) < 256 * 2 ^ 64 := by
      have e : (2:ℕ) ^ 12 * 2 ^ 60 = 256 * 2 ^ 64 := by norm_num
      calc 256 * (v1 * x) ≤ v1 * (a * t) := h3
        _ = a * (v1 * t) := h4
        _ < 2 ^ 12 * 2 ^ 60 := h5
        _ = 256 * 2 ^ 64 := e
    exact Nat.lt_of_mul_lt_mul_left h6
  -- g, v2
  obtain ⟨g, hg_def⟩ : ∃ g, g = v1 * x / 2 ^ 47 := ⟨_, rfl⟩
  obtain ⟨hg1, hg2⟩ := div_facts (v1 * x) (2 ^ 47) (by positivity)
  rw [← hg_def] at hg1 hg2
  obtain ⟨v2, hv2_def⟩ : ∃ v2, v2 = v1 * 2 ^ 13 + g := ⟨_, rfl⟩
  have hv2pos : 0 < v2 := by omega
  have hxZ : (v1:ℤ) * t = 2 ^ 60 - (x:ℤ) := by
    have : ((v1 * t + x : ℕ) : ℤ) = ((2 ^ 60 : ℕ) : ℤ) := by rw [hxv]
    push_cast at this; linarith
  have hv2d : v2 * d < 2 ^ 97 := by
    have := v2_lower (v1:ℤ) t v2 d (by exact_mod_cast hv2pos) (by positivity)
      (by
        have e : (v1:ℤ) * (2 ^ 61 - v1 * t) = v1 * 2 ^ 60 + v1 * x := by rw [hxZ]; ring
        rw [e, hv2_def]; push_cast
        have : (2:ℤ) ^ 47 * g ≤ v1 * x := by exact_mod_cast hg1
        nlinarith)
      (by exact_mod_cast hdt1)
    exact_mod_cast this
  have hv2lt : v2 < 2 ^ 34 := by
    by_contra hc
    push Not at hc
    have : 2 ^ 34 * 2 ^ 63 ≤ v2 * d := Nat.mul_le_mul hc h1
    omega
  obtain ⟨y, hy_def⟩ : ∃ y, y = 2 ^ 97 - v2 * d := ⟨_, rfl⟩
  have hypos : 0 < y := by omega
  have hyv : v2 * d + y = 2 ^ 97 := by omega
  have hyZ : ((y:ℕ):ℤ) = 2 ^ 97 - (v2:ℤ) * d := by
    have : ((v2 * d + y : ℕ) : ℤ) = ((2 ^ 97 : ℕ) : ℤ) := by rw [hyv]
    push_cast at this; linarith
  have hS3 := v2_upper (v1:ℤ) t v2 d x (by exact_mod_cast ht39) (by exact_mod_cast ht40) hxZ
    (by exact_mod_cast hxK)
    (by
      have : (v1:ℤ) * x < 2 ^ 47 * (g + 1) := by exact_mod_cast hg2
      rw [hv2_def]; push_cast; nlinarith)
    (by
      have h3 : ((2 ^ 24 * (t - 1) : ℕ) : ℤ) ≤ d := by exact_mod_cast hdt2
      push_cast [Nat.cast_sub (by omega : 1 ≤ t)] at h3; exact h3)
    (by positivity) (by exact_mod_cast hv2lt) (by rw [← hyZ]; positivity)
  rw [← hyZ] at hS3
  have hS3' : y * y + 2 ^ 97 ≤ 2 ^ 66 * d := by exact_mod_cast hS3
  have hylt : y < 2 ^ 65 := by
    by_contra hc
    push Not at hc
    have : 2 ^ 65 * 2 ^ 65 ≤ y * y := Nat.mul_le_mul hc hc
    have : 2 ^ 66 * d < 2 ^ 66 * 2 ^ 64 := by omega
    omega
  exact ⟨i, t, v0, f, v1, x, g, v2, y, hi_def ▸ (by omega), hd9_def ▸ hd9a, ht_def ▸ (by omega), hv0_def, hv0b',
    hf_def, hv1_def, hfv, hv1pos, hv1lt, ht40, hxv, hxpos, hv1x, hg_def, hv2_def, hv2pos, hv2lt, hyv, hypos, hylt, hS3'⟩


theorem wsub_modeq (a b r : ℕ) (hr : r < M) (h : (r + b) % M = a % M) : wsub a b = r := by
  have hM : 0 < M := by unfold M; positivity
  unfold wsub
  have hb : b % M < M := Nat.mod_lt _ hM
  have h1 : (a + M - b % M + b % M) % M = (r + b % M) % M := by
    have : a + M - b % M + b % M = a + M := by omega
    rw [this, Nat.add_mod_right, ← h, Nat.add_mod r b M, Nat.add_mod r (b % M) M, Nat.mod_mod]
  have h2 : (a + M - b % M) % M = r % M := by
    have := Nat.ModEq.add_right_cancel' (b % M) (show (a + M - b % M + b % M) ≡ (r + b % M) [MOD M] from h1)
    exact this
  rw [h2, Nat.mod_eq_of_lt hr]

set_option maxRecDepth 20000 in
set_option maxHeartbeats 8000000 in
theorem recip_main (d : ℕ) (h1 : 2 ^ 63 ≤ d) (h2 : d ≤ 2 ^ 64 - 2) : recipModel d = recipSpec d := by
  obtain ⟨i, t, v0, f, v1, x, g, v2, y, hi, hd9, ht, hv0, hv0b, hf, hv1, hfv, hv1pos, hv1lt, ht40, hxv, hxpos,
    hv1x, hg, hv2, hv2pos, hv2lt, hyv, hypos, hylt, hS3⟩ := recip_stage1 d h1 h2
  have hM : M = 2 ^ 64 := rfl
  have hMpos : 0 < M := by rw [hM]; positivity
  have hdM : d < M := by rw [hM]; omega
  unfold recipModel recipSpec
  simp only []
  -- rewrite the straight-line prefix
  rw [← hi, ← hv0]
  have e_d40 : wadd 1 (d / 2 ^ 24) = t := by
    rw [wadd_eq _ _ (by rw [hM]; omega)]; omega
  have e_d1 : wadd d 1 = d + 1 := wadd_eq _ _ (by rw [hM]; omega)
  have hv0sq : v0 * v0 < 2 ^ 22 := by
    have : v0 * v0 ≤ 2045 * 2045 := Nat.mul_le_mul hv0b hv0b
    omega
  have e_a : wmul v0 (2 ^ 11) = v0 * 2 ^ 11 := wmul_eq _ _ (by rw [hM]; omega)
  have e_b : wmul v0 v0 = v0 * v0 := wmul_eq _ _ (by rw [hM]; omega)
  have hv0t : v0 * v0 * t < 2 ^ 62 := by
    have : v0 * v0 * t ≤ v0 * v0 * 2 ^ 40 := Nat.mul_le_mul_left _ ht40
    omega
  have e_c : wmul (v0 * v0) t = v0 * v0 * t := wmul_eq _ _ (by rw [hM]; omega)
  rw [e_d40, e_d1, e_a, e_b, e_c, ← hf]
  have e_s1 : wsub (v0 * 2 ^ 11) f = v0 * 2 ^ 11 - f := wsub_eq _ _ (by omega) (by rw [hM]; omega)
  have e_s2 : wsub (v0 * 2 ^ 11 - f) 1 = v1 := by
    rw [wsub_eq _ _ (by omega) (by rw [hM]; omega)]; omega
  rw [e_s1, e_s2]
  have e_m1 : wmul v1 (2 ^ 13) = v1 * 2 ^ 13 := wmul_eq _ _ (by rw [hM]; omega)
  have hv1t : v1 * t < 2 ^ 60 := by omega
  have e_m2 : wmul v1 t = v1 * t := wmul_eq _ _ (by rw [hM]; omega)
  have e_s3 : wsub (2 ^ 60) (v1 * t) = x := by
    rw [wsub_eq _ _ hv1t.le (by rw [hM]; omega)]; omega
  have e_m3 : wmul v1 x = v1 * x := wmul_eq _ _ (by rw [hM]; exact hv1x)
  rw [e_m1, e_m2, e_s3, e_m3, ← hg]
  have e_v2 : wadd (v1 * 2 ^ 13) g = v2 := by
    rw [wadd_eq _ _ (by rw [hM]; omega)]; omega
  rw [e_v2]
  -- e
  obtain ⟨d63, hd63⟩ : ∃ d63, d63 = (d + 1) / 2 := ⟨_, rfl⟩
  rw [← hd63]
  have he : ∃ e δ : ℕ, δ ≤ 1 ∧ 2 * e + δ = y ∧
      wsub (if d % 2 = 1 then v2 / 2 else 0) (wmul v2 d63) = e := by
    have h96 : (2:ℕ) ^ 96 % M = 0 := by rw [hM]; norm_num
    rcases Nat.mod_two_eq_zero_or_one d with hpar | hpar
    · -- d even
      have hd2 : d = 2 * d63 := by omega
      have hz : 2 * (v2 * d63) + y = 2 ^ 97 := by
        have : v2 * d = 2 * (v2 * d63) := by rw [hd2]; ring
        omega
      refine ⟨2 ^ 96 - v2 * d63, 0, by omega, by omega, ?_⟩
      have hpar' : ¬ (d % 2 = 1) := by omega
      simp only [hpar', if_false]
      apply wsub_modeq
      · rw [hM]; omega
      · unfold wmul
        have : 2 ^ 96 - v2 * d63 + v2 * d63 % M ≡ 0 [MOD M] := by
          have h3 : (2 ^ 96 - v2 * d63 + v2 * d63) % M = 0 := by
            have : 2 ^ 96 - v2 * d63 + v2 * d63 = 2 ^ 96 := by omega
            rw [this, h96]
          have h4 : (2 ^ 96 - v2 * d63 + v2 * d63 % M) % M = (2 ^ 96 - v2 * d63 + v2 * d63) % M := by
            rw [Nat.add_mod _ (v2 * d63 % M), Nat.mod_mod, ← Nat.add_mod]
          show (2 ^ 96 - v2 * d63 + v2 * d63 % M) % M = 0 % M
          rw [h4, h3, Nat.zero_mod]
        exact this
    · -- d odd
      have hd2 : d + 1 = 2 * d63 := by omega
      obtain ⟨hh1, hh2⟩ : 2 * (v2 / 2) + v2 % 2 = v2 ∧ v2 % 2 ≤ 1 := ⟨Nat.div_add_mod v2 2, by omega⟩
      have hz : 2 * (v2 * d63) = v2 * d + v2 := by
        have : v2 * (d + 1) = 2 * (v2 * d63) := by rw [hd2]; ring
        rw [← this]; ring
      refine ⟨2 ^ 96 + v2 / 2 - v2 * d63, v2 % 2, hh2, by omega, ?_⟩
      simp only [hpar, if_true]
      apply wsub_modeq
      · rw [hM]; omega
      · unfold wmul
        have hle : v2 * d63 ≤ 2 ^ 96 + v2 / 2 := by omega
        have h3 : (2 ^ 96 + v2 / 2 - v2 * d63 + v2 * d63) % M = (v2 / 2) % M := by
          have : 2 ^ 96 + v2 / 2 - v2 * d63 + v2 * d63 = 2 ^ 96 + v2 / 2 := by omega
          rw [this, Nat.add_mod, h96, Nat.zero_add, Nat.mod_mod]
        have h4 : (2 ^ 96 + v2 / 2 - v2 * d63 + v2 * d63 % M) % M = (2 ^ 96 + v2 / 2 - v2 * d63 + v2 * d63) % M := by
          rw [Nat.add_mod _ (v2 * d63 % M), Nat.mod_mod, ← Nat.add_mod]
        rw [h4, h3]
  obtain ⟨e, δ, hδ, heq, hemod⟩ := he
  rw [hemod]
  have heM : e < M := by rw [hM]; omega
  -- c
  have e_c2 : v2 * e / M / 2 = v2 * e / 2 ^ 65 := by
    rw [Nat.div_div_eq_div_mul, hM]; norm_num
  rw [e_c2]
  obtain ⟨c, hc⟩ : ∃ c, c = v2 * e / 2 ^ 65 := ⟨_, rfl⟩
  obtain ⟨hc1, hc2⟩ := div_facts (v2 * e) (2 ^ 65) (by positivity)
  rw [← hc] at hc1 hc2 ⊢
  have hyZ : ((y:ℕ):ℤ) = 2 ^ 97 - (v2:ℤ) * d := by
    have : ((v2 * d + y : ℕ) : ℤ) = ((2 ^ 97 : ℕ) : ℤ) := by rw [hyv]
    push_cast at this; linarith
  have a1 : (0:ℤ) ≤ (v2:ℤ) := Int.natCast_nonneg _
  have a2 : (0:ℤ) < (d:ℤ) := by exact_mod_cast (by omega : 0 < d)
  have a3 : (0:ℤ) < 2 ^ 97 - (v2:ℤ) * d := by rw [← hyZ]; exact_mod_cast hypos
  have a4 : (0:ℤ) ≤ (δ:ℤ) := Int.natCast_nonneg _
  have a5 : (δ:ℤ) ≤ 1 := by exact_mod_cast hδ
  have a6 : 2 * (e:ℤ) = (2 ^ 97 - (v2:ℤ) * d) - δ := by
    rw [← hyZ]
    have : ((2 * e + δ : ℕ) : ℤ) = (y : ℤ) := by rw [heq]
    push_cast at this; linarith
  have a7 : (2:ℤ) ^ 65 * c ≤ (v2:ℤ) * e := by exact_mod_cast hc1
  have a8 : (v2:ℤ) * e < 2 ^ 65 * ((c:ℤ) + 1) := by exact_mod_cast hc2
  have a9 : (2 ^ 97 - (v2:ℤ) * d) * (2 ^ 97 - (v2:ℤ) * d) + 2 ^ 97 ≤ 2 ^ 66 * (d:ℤ) := by
    rw [← hyZ]; exact_mod_cast hS3
  have hb := v3_bounds (v2:ℤ) d e c δ a1 a2 a3 a4 a5 a6 a7 a8 a9
  obtain ⟨hb1, hb2⟩ := hb
  obtain ⟨v3', hv3'⟩ : ∃ v3', v3' = 2 ^ 31 * v2 + c := ⟨_, rfl⟩
  have hb1' : v3' * d < 2 ^ 128 := by rw [hv3']; exact_mod_cast hb1
  have hb2' : 2 ^ 128 ≤ (v3' + 2) * d := by rw [hv3']; exact_mod_cast hb2
  have hMM : M * M = 2 ^ 128 := by rw [hM]; norm_num
  have hd0 : 0 < d := by omega
  obtain ⟨V, hV⟩ : ∃ V, V = (M * M - 1) / d := ⟨_, rfl⟩
  obtain ⟨hV1, hV2⟩ := div_facts (M * M - 1) d hd0
  rw [← hV] at hV1 hV2
  have hle1 : v3' ≤ V := by
    rw [hV, Nat.le_div_iff_mul_le hd0, hMM]; omega
  have hle2 : V ≤ v3' + 1 := by
    by_contra hcon
    push Not at hcon
    have : d * (v3' + 2) ≤ d * V := Nat.mul_le_mul_left _ hcon
    rw [hMM] at hV1
    have : (v3' + 2) * d = d * (v3' + 2) := Nat.mul_comm _ _
    omega
  have hVM : M + 1 ≤ V := by
    rw [hV, Nat.le_div_iff_mul_le hd0]
    have : (M + 1) * d ≤ (M + 1) * (M - 1) := Nat.mul_le_mul_left _ (by omega)
    have e2 : (M + 1) * (M - 1) = M * M - 1 := by
      have : M - 1 + 1 = M := by omega
      calc (M + 1) * (M - 1) = M * (M - 1) + (M - 1) := by ring
        _ = M * M - M + (M - 1) := by rw [Nat.mul_sub, Nat.mul_one]
        _ = M * M - 1 := by
            have : M ≤ M * M := Nat.le_mul_of_pos_left _ hMpos
            omega
    omega
  have hV2M : V < 2 * M := by
    by_contra hcon
    push Not at hcon
    have h5 : d * (2 * M) ≤ d * V := Nat.mul_le_mul_left _ hcon
    have h6 : M * M ≤ d * (2 * M) := by
      have : M ≤ 2 * d := by rw [hM]; omega
      nlinarith
    omega
  have hv3M : M ≤ v3' := by omega
  have hv32M : v3' < 2 * M := by omega
  -- the model's v3
  have e_v3 : wadd c (wmul v2 (2 ^ 31)) = v3' - M := by
    unfold wadd wmul
    rw [Nat.add_mod, Nat.mod_mod, ← Nat.add_mod]
    have : c + v2 * 2 ^ 31 = (v3' - M) + M := by rw [hv3']; omega
    rw [this, Nat.add_mod_right, Nat.mod_eq_of_lt (by omega)]
  rw [e_v3]
  have := final_step d v3' (by rw [hM]; omega) hdM (hV ▸ hle1) (hV ▸ hle2) hv3M hv32M
  exact this

/-- `reciprocal_mg10 d = ⌊(2^128 − 1)/d⌋ − 2^64` for EVERY normalised 64-bit `d`. -/
theorem recip_spec (d : ℕ) (h1 : 2 ^ 63 ≤ d) (h2 : d < 2 ^ 64) : recipModel d = recipSpec d := by
  rcases Nat.lt_or_ge d (2 ^ 64 - 1) with h | h
  · exact recip_main d h1 (by omega)
  · have : d = 2 ^ 64 - 1 := by omega
    rw [this]; decide +kernel

end Ruint.Div.Recip