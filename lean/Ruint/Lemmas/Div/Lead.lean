import Mathlib.Tactic.Ring
import Mathlib.Tactic.Linarith
import Mathlib.Tactic.NormNum
import Mathlib.Tactic.Positivity
import Mathlib.Tactic.Push

namespace Ruint.Div.KL

/-- shifted leading limbs: value form -/
theorem lead (W T U k X c0 nm Y : ℕ) (hW : W = T * U) (hT : 0 < T) (hU : 0 < U) (hY : Y < W ^ k) :
    ((X * W + c0) * W ^ (k + 1) + nm * W ^ k + Y) * T / W ^ (k + 1) = (X * W + c0) * T + nm / U := by
  have hW0 : 0 < W := by rw [hW]; positivity
  set A := W ^ k with hA
  have hA0 : 0 < A := by positivity
  have hpow : W ^ (k + 1) = A * W := by rw [pow_succ]
  rw [hpow]
  have e1 : ((X * W + c0) * (A * W) + nm * A + Y) * T = (nm * A + Y) * T + (A * W) * ((X * W + c0) * T) := by ring
  rw [e1, Nat.add_mul_div_left _ _ (by positivity), Nat.add_comm]
  congr 1
  -- (nm*A + Y)*T / (A*W) = nm / U
  have e2 : A * W = (A * T) * U := by rw [hW]; ring
  rw [e2, ← Nat.div_div_eq_div_mul]
  have e3 : (nm * A + Y) * T / (A * T) = nm := by
    rw [Nat.mul_div_mul_right _ _ hT]
    rw [Nat.mul_comm nm A, Nat.mul_add_div hA0, Nat.div_eq_of_lt hY, Nat.add_zero]
  rw [e3]

/-- the code's expressions for the shifted limbs are the high part and low limb of `N3`. -/
theorem lead_limbs (W T U c2 c1 c0 nm : ℕ) (hW : W = T * U) (hT : 0 < T) (hU : 0 < U)
    (hc0 : c0 < W) (hnm : nm < W)
    (hN3 : ((c2 * W + c1) * W + c0) * T + nm / U < W * W * W) :
    ((c2 * W + c1) * T) % (W * W) + c0 / U = (((c2 * W + c1) * W + c0) * T + nm / U) / W
    ∧ (c0 * T) % W + nm / U = (((c2 * W + c1) * W + c0) * T + nm / U) % W := by
  have hW0 : 0 < W := by rw [hW]; positivity
  set X := c2 * W + c1 with hX
  have hdm := Nat.div_add_mod c0 U
  have hmodU := Nat.mod_lt c0 hU
  have hc0T : c0 * T = (c0 / U) * W + (c0 % U) * T := by
    have : c0 * T = (U * (c0 / U) + c0 % U) * T := by rw [hdm]
    rw [this, hW]; ring
  have hnmU : nm / U < T := by
    apply Nat.div_lt_of_lt_mul; rw [Nat.mul_comm, ← hW]; exact hnm
  have hlow : (c0 % U) * T + nm / U < W := by
    rw [hW]; nlinarith
  have hmod : (c0 * T) % W = (c0 % U) * T := by
    rw [hc0T, Nat.add_comm, Nat.add_mul_mod_self_right, Nat.mod_eq_of_lt]
    rw [hW]; nlinarith
  have hN : (X * W + c0) * T + nm / U = (X * T + c0 / U) * W + ((c0 % U) * T + nm / U) := by
    have : (X * W + c0) * T = X * T * W + c0 * T := by ring
    rw [this, hc0T]; ring
  have hdiv : ((X * W + c0) * T + nm / U) / W = X * T + c0 / U := by
    rw [hN, Nat.add_comm, Nat.add_mul_div_right _ _ hW0, Nat.div_eq_of_lt hlow, Nat.zero_add]
  have hrem : ((X * W + c0) * T + nm / U) % W = (c0 % U) * T + nm / U := by
    rw [hN, Nat.add_comm, Nat.add_mul_mod_self_right, Nat.mod_eq_of_lt hlow]
  have hXT : X * T < W * W := by
    have h1 : (X * T + c0 / U) * W < W * W * W := by rw [hN] at hN3; omega
    have h2 : X * T + c0 / U < W * W := by
      by_contra hc; push Not at hc
      have : W * W * W ≤ (X * T + c0 / U) * W := Nat.mul_le_mul_right _ hc
      omega
    exact Nat.lt_of_le_of_lt (Nat.le_add_right _ _) h2
  constructor
  · rw [hdiv, Nat.mod_eq_of_lt hXT]
  · rw [hrem, hmod]

end Ruint.Div.KL
