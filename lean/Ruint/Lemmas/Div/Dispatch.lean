import Ruint.Lemmas.Div.Kernels64
/-!
`algorithms::div` (`src/algorithms/div/mod.rs`): trim zeros, trivial cases, dispatch to
`div_nx1` / `div_nx2` / `div_nxm`. Any lengths, numerator shorter or longer than the divisor,
zero padding on both operands, zero divisor → panic.
-/
set_option autoImplicit false
namespace Ruint.Div
open Ruint (W)

theorem rval_replicate_zero (n : ℕ) : Ruint.val (List.replicate n 0) = 0 := by
  induction n with
  | zero => rfl
  | succ n ih => simp [List.replicate_succ, ih]

theorem allLt_replicate_zero (n : ℕ) : Ruint.AllLt (List.replicate n 0) := by
  intro x hx
  simp only [List.mem_replicate] at hx
  rw [hx.2]; exact Ruint.W_pos

/-- `trim` removes a block of zero limbs from the top -/
theorem trim_spec (l : List ℕ) : ∃ k, l = trim l ++ List.replicate k 0 := by
  induction l with
  | nil => exact ⟨0, rfl⟩
  | cons x xs ih =>
    obtain ⟨k, hk⟩ := ih
    unfold trim
    split
    · rename_i h
      rw [h] at hk
      by_cases hx : x = 0
      · refine ⟨k + 1, ?_⟩
        simp only [hx, if_true, List.nil_append, List.replicate_succ]
        rw [hk]; simp
      · refine ⟨k, ?_⟩
        simp only [hx, if_false]
        rw [hk]; simp
    · refine ⟨k, ?_⟩
      rw [List.cons_append, ← hk]

/-- the trimmed list is empty or ends in a non-zero limb -/
theorem trim_last (l : List ℕ) (h : trim l ≠ []) : 1 ≤ (trim l).getD ((trim l).length - 1) 0 := by
  induction l with
  | nil => simp [trim] at h
  | cons x xs ih =>
    unfold trim at h ⊢
    split
    · rename_i h0
      by_cases hx : x = 0
      · simp [h0, hx] at h
      · simp only [hx, if_false, List.length_singleton, Nat.sub_self, List.getD_cons_zero]
        omega
    · rename_i hne
      have := ih (by intro e; exact hne e)
      cases ht : trim xs with
      | nil => exact absurd ht (by intro e; exact hne e)
      | cons y ys =>
        rw [ht] at this
        simp only [List.length_cons, Nat.add_sub_cancel, List.getD_cons_succ] at this ⊢
        exact this

theorem rval_eq_zero_of_trim_nil (l : List ℕ) (h : trim l = []) : Ruint.val l = 0 := by
  obtain ⟨k, hk⟩ := trim_spec l
  rw [h] at hk
  rw [hk]; simp [rval_replicate_zero]

/-- value is at least `W^(len-1)` when the last limb is non-zero -/
theorem rval_ge_of_last (l : List ℕ) (hne : l ≠ []) (h : 1 ≤ l.getD (l.length - 1) 0) :
    W ^ (l.length - 1) ≤ Ruint.val l := by
  obtain ⟨init, t, rfl⟩ := Ruint.exists_init_last l hne
  have : (init ++ [t]).getD ((init ++ [t]).length - 1) 0 = t := by simp
  rw [this] at h
  rw [Ruint.val_append_single]
  simp only [List.length_append, List.length_singleton, Nat.add_sub_cancel]
  have hp : 0 < W ^ init.length := by have := Ruint.W_pos; positivity
  nlinarith

/-- everything the dispatcher needs to know about a trimmed operand -/
theorem trim_facts (l : List ℕ) (hl : Ruint.AllLt l) :
    l = trim l ++ l.drop (trim l).length
    ∧ Ruint.val (l.drop (trim l).length) = 0
    ∧ Ruint.val (trim l) = Ruint.val l
    ∧ Ruint.AllLt (trim l) ∧ Ruint.AllLt (l.drop (trim l).length)
    ∧ (trim l).length + (l.drop (trim l).length).length = l.length
    ∧ (trim l = [] ↔ Ruint.val l = 0)
    ∧ (trim l ≠ [] → 1 ≤ (trim l).getD ((trim l).length - 1) 0 ∧ W ^ ((trim l).length - 1) ≤ Ruint.val l) := by
  obtain ⟨k, hk⟩ := trim_spec l
  obtain ⟨t, ht⟩ : ∃ t, t = trim l := ⟨_, rfl⟩
  rw [← ht] at hk ⊢
  have hd : l.drop t.length = List.replicate k 0 := by
    rw [hk, List.drop_left]
  have hv : Ruint.val t = Ruint.val l := by
    rw [hk, Ruint.val_append, rval_replicate_zero, Nat.mul_zero, Nat.add_zero]
  have hall : Ruint.AllLt t := by
    have : Ruint.AllLt (t ++ List.replicate k 0) := by rw [← hk]; exact hl
    exact this.left
  have hlen : t.length + k = l.length := by
    have := congrArg List.length hk
    simp only [List.length_append, List.length_replicate] at this
    omega
  refine ⟨by rw [hd]; exact hk, by rw [hd]; exact rval_replicate_zero k, hv, hall,
    by rw [hd]; exact allLt_replicate_zero k, ?_, ?_, ?_⟩
  · rw [hd]; simp only [List.length_replicate]; exact hlen
  · constructor
    · intro h; rw [ht] at h; exact rval_eq_zero_of_trim_nil l h
    · intro h
      by_contra hne
      have h1 := trim_last l (by rw [← ht]; exact hne)
      rw [← ht] at h1
      have h2 := rval_ge_of_last t hne h1
      rw [hv, h] at h2
      have : 0 < W ^ (t.length - 1) := by have := Ruint.W_pos; positivity
      omega
  · intro hne
    have h1 := trim_last l (by rw [← ht]; exact hne)
    rw [← ht] at h1
    have h2 := rval_ge_of_last t hne h1
    rw [hv] at h2
    exact ⟨h1, h2⟩

theorem isEmpty_iff_nil (l : List ℕ) : l.isEmpty = true ↔ l = [] := List.isEmpty_iff

/-- the contract of `algorithms::div`, as a predicate on an outcome -/
def DivOk (num ds : List ℕ) (o : Option (List ℕ × List ℕ)) : Prop :=
  ∃ q r, o = some (q, r) ∧ Ruint.val q = Ruint.val num / Ruint.val ds ∧ Ruint.val r = Ruint.val num % Ruint.val ds
    ∧ q.length = num.length ∧ r.length = ds.length ∧ Ruint.AllLt q ∧ Ruint.AllLt r

/-- assembling the result of a dispatch arm: quotient/remainder of the trimmed operands, re-padded -/
theorem assemble (num ds nt dt zn zd q r : List ℕ) (hnum : num = nt ++ zn) (hds : ds = dt ++ zd)
    (hzn : Ruint.val zn = 0) (hzd : Ruint.val zd = 0) (hazn : Ruint.AllLt zn) (hazd : Ruint.AllLt zd)
    (hq : Ruint.val q = Ruint.val nt / Ruint.val dt) (hr : Ruint.val r = Ruint.val nt % Ruint.val dt)
    (hql : q.length = nt.length) (hrl : r.length = dt.length) (haq : Ruint.AllLt q) (har : Ruint.AllLt r) :
    DivOk num ds (some (q ++ zn, r ++ zd)) := by
  have hvn : Ruint.val num = Ruint.val nt := by rw [hnum, Ruint.val_append, hzn]; simp
  have hvd : Ruint.val ds = Ruint.val dt := by rw [hds, Ruint.val_append, hzd]; simp
  refine ⟨_, _, rfl, ?_, ?_, ?_, ?_, haq.append hazn, har.append hazd⟩
  · rw [Ruint.val_append, hzn, hvn, hvd, hq]; simp
  · rw [Ruint.val_append, hzd, hvn, hvd, hr]; simp
  · rw [hnum]; simp [hql]
  · rw [hds]; simp [hrl]

theorem len1 (l : List ℕ) (h : l.length = 1) : ∃ a, l = [a] := by
  match l, h with
  | [a], _ => exact ⟨a, rfl⟩

theorem len2 (l : List ℕ) (h : l.length = 2) : ∃ a b, l = [a, b] := by
  match l, h with
  | [a, b], _ => exact ⟨a, b, rfl⟩

/-- the dispatch arms on trimmed operands: quotient and remainder of the values -/
theorem divDispatch_spec (nt dt : List ℕ) (n4 : Ruint.AllLt nt) (d4 : Ruint.AllLt dt)
    (hdl : 1 ≤ dt.length) (hge : dt.length ≤ nt.length) (dtop : 1 ≤ dt.getD (dt.length - 1) 0) :
    Ruint.val (divDispatch nt dt).1 = Ruint.val nt / Ruint.val dt
    ∧ Ruint.val (divDispatch nt dt).2 = Ruint.val nt % Ruint.val dt
    ∧ (divDispatch nt dt).1.length = nt.length ∧ (divDispatch nt dt).2.length = dt.length
    ∧ Ruint.AllLt (divDispatch nt dt).1 ∧ Ruint.AllLt (divDispatch nt dt).2 := by
  have hW : W = 2 ^ 64 := rfl
  unfold divDispatch
  simp only []
  by_cases h2 : dt.length ≤ 2
  · rw [if_pos h2]
    by_cases h1 : dt.length = 1
    · rw [if_pos h1]
      obtain ⟨b, hb⟩ := len1 dt h1
      have hbW : b < W := d4 b (by rw [hb]; simp)
      have hb1 : 1 ≤ b := by rw [hb] at dtop; simpa using dtop
      have hvb : Ruint.val dt = b := by rw [hb]; simp
      have hg : dt.getD 0 0 = b := by rw [hb]; rfl
      rw [hg, hvb, h1]
      by_cases hn1 : nt.length = 1
      · -- 1 by 1
        rw [if_pos hn1]
        obtain ⟨a, ha⟩ := len1 nt hn1
        have haW : a < W := n4 a (by rw [ha]; simp)
        have hga : nt.getD 0 0 = a := by rw [ha]; rfl
        have hva : Ruint.val nt = a := by rw [ha]; simp
        rw [hga, hva, hn1]
        have hqW : a / b < W := lt_of_le_of_lt (Nat.div_le_self _ _) haW
        have hrW : a % b < W := lt_of_lt_of_le (Nat.mod_lt _ (by omega)) hbW.le
        exact ⟨by simp, by simp, rfl, rfl, Ruint.AllLt.cons hqW Ruint.AllLt.nil,
          Ruint.AllLt.cons hrW Ruint.AllLt.nil⟩
      · -- n by 1
        rw [if_neg hn1]
        obtain ⟨k1, k2, k3, k4⟩ := divNx1_spec nt b n4 hb1 (by rw [← hW]; exact hbW)
        have hrW : (divNx1 nt b).2 < W := by
          rw [k2]; exact lt_of_lt_of_le (Nat.mod_lt _ (by omega)) hbW.le
        exact ⟨k1, by simp [k2], k3, rfl, k4, Ruint.AllLt.cons hrW Ruint.AllLt.nil⟩
    · -- n by 2
      rw [if_neg h1]
      have hl2 : dt.length = 2 := by omega
      obtain ⟨b0, b1, hb⟩ := len2 dt hl2
      have hb0W : b0 < W := d4 b0 (by rw [hb]; simp)
      have hb1W : b1 < W := d4 b1 (by rw [hb]; simp)
      have hb1 : 1 ≤ b1 := by rw [hb] at dtop; simpa using dtop
      have hvb : Ruint.val dt = b1 * W + b0 := by rw [hb]; simp; ring
      have hg0 : dt.getD 0 0 = b0 := by rw [hb]; rfl
      have hg1 : dt.getD 1 0 = b1 := by rw [hb]; rfl
      rw [hg0, hg1, hvb, hl2]
      obtain ⟨dv, hdv⟩ : ∃ dv, dv = b1 * W + b0 := ⟨_, rfl⟩
      rw [← hdv]
      have hdlo : 2 ^ 64 ≤ dv := by rw [hdv, hW]; nlinarith
      have hdhi : dv < 2 ^ 128 := by
        have : (2 : ℕ) ^ 128 = 2 ^ 64 * 2 ^ 64 := by norm_num
        rw [hdv]; rw [hW] at hb0W hb1W ⊢; nlinarith
      obtain ⟨k1, k2, k3, k4⟩ := divNx2_spec nt dv n4 hdlo hdhi
      obtain ⟨r, hr⟩ : ∃ r, r = (divNx2 nt dv).2 := ⟨_, rfl⟩
      rw [← hr] at k2 ⊢
      have hrlt : r < W * W := by
        rw [k2]
        have : Ruint.val nt % dv < dv := Nat.mod_lt _ (by omega)
        have : W * W = 2 ^ 128 := by rw [hW]; norm_num
        omega
      have hr0 : r % W < W := Nat.mod_lt _ Ruint.W_pos
      have hr1 : r / W < W := Nat.div_lt_of_lt_mul hrlt
      refine ⟨k1, ?_, k3, rfl, k4, Ruint.AllLt.cons hr0 (Ruint.AllLt.cons hr1 Ruint.AllLt.nil)⟩
      rw [← k2]
      simp only [Ruint.val_cons, Ruint.val_nil, Nat.mul_zero, Nat.add_zero]
      exact Nat.mod_add_div _ _
  · -- n by m
    rw [if_neg h2]
    exact divNxm_spec nt dt n4 d4 (by omega) hge dtop

/-- **`div` meets its contract**: for any word slices, a zero divisor (all limbs zero, or empty) panics;
    otherwise the numerator slice ends up holding `⌊N/D⌋` and the divisor slice `N mod D`, both zero padded
    to the original lengths — numerator shorter or longer than the divisor, any leading-zero padding. -/
theorem div_spec (num ds : List ℕ) (hnum : Ruint.AllLt num) (hds : Ruint.AllLt ds) :
    (Ruint.val ds = 0 → div num ds = none) ∧ (Ruint.val ds ≠ 0 → DivOk num ds (div num ds)) := by
  obtain ⟨d1, d2, d3, d4, d5, d6, d7, d8⟩ := trim_facts ds hds
  obtain ⟨n1, n2, n3, n4, n5, n6, n7, n8⟩ := trim_facts num hnum
  unfold div
  simp only []
  obtain ⟨dt, hdt⟩ : ∃ dt, dt = trim ds := ⟨_, rfl⟩
  obtain ⟨nt, hnt⟩ : ∃ nt, nt = trim num := ⟨_, rfl⟩
  rw [← hdt] at d1 d2 d3 d4 d5 d6 d7 d8 ⊢
  rw [← hnt] at n1 n2 n3 n4 n5 n6 n7 n8 ⊢
  obtain ⟨zd, hzd⟩ : ∃ zd, zd = ds.drop dt.length := ⟨_, rfl⟩
  obtain ⟨zn, hzn⟩ : ∃ zn, zn = num.drop nt.length := ⟨_, rfl⟩
  rw [← hzd] at d1 d2 d5 d6 ⊢
  rw [← hzn] at n1 n2 n5 n6 ⊢
  constructor
  · intro h0
    have : dt = [] := d7.mpr h0
    rw [this]; rfl
  · intro hne
    have hdne : dt ≠ [] := fun e => hne (d7.mp e)
    obtain ⟨dtop, dlow⟩ := d8 hdne
    have hde : ¬ (dt.isEmpty = true) := by
      intro h; exact hdne (List.isEmpty_iff.mp h)
    rw [if_neg hde]
    have hdpos : 0 < Ruint.val ds := Nat.pos_of_ne_zero hne
    by_cases hn0 : nt = []
    · -- empty numerator
      have hv0 : Ruint.val num = 0 := n7.mp hn0
      have : nt.isEmpty = true := by rw [hn0]; rfl
      rw [if_pos this]
      refine ⟨_, _, rfl, ?_, ?_, rfl, ?_, hnum, (allLt_replicate_zero _).append d5⟩
      · rw [hv0]; simp
      · rw [Ruint.val_append, rval_replicate_zero, d2, hv0]; simp
      · simp only [List.length_append, List.length_replicate]; exact d6
    · have hne' : ¬ (nt.isEmpty = true) := by
        intro h; exact hn0 (List.isEmpty_iff.mp h)
      rw [if_neg hne']
      obtain ⟨ntop, nlow⟩ := n8 hn0
      by_cases hshort : nt.length < dt.length
      · -- numerator shorter than divisor: (q, r) = (0, numerator)
        rw [if_pos hshort]
        have hlt : Ruint.val num < Ruint.val ds := by
          have h1 : Ruint.val nt < W ^ nt.length := Ruint.val_lt_pow nt n4
          have h2 : W ^ nt.length ≤ W ^ (dt.length - 1) :=
            Nat.pow_le_pow_right Ruint.W_pos (by omega)
          rw [← n3]; omega
        refine ⟨_, _, rfl, ?_, ?_, ?_, ?_, (allLt_replicate_zero _).append n5,
          (n4.append (allLt_replicate_zero _)).append d5⟩
        · rw [Ruint.val_append, rval_replicate_zero, n2, Nat.div_eq_of_lt hlt]; simp
        · rw [Ruint.val_append, Ruint.val_append, rval_replicate_zero, d2, Nat.mod_eq_of_lt hlt, n3]; simp
        · simp only [List.length_append, List.length_replicate]; exact n6
        · simp only [List.length_append, List.length_replicate]; omega
      · rw [if_neg hshort]
        have hge : dt.length ≤ nt.length := by omega
        have hdl : 1 ≤ dt.length := by
          cases dt with
          | nil => exact absurd rfl hdne
          | cons _ _ => simp
        obtain ⟨k1, k2, k3, k4, k5, k6⟩ := divDispatch_spec nt dt n4 d4 hdl hge dtop
        exact assemble num ds nt dt zn zd _ _ n1 d1 n2 d2 n5 d5 k1 k2 k3 k4 k5 k6

end Ruint.Div
