import Mathlib.Tactic.Ring
import Mathlib.Tactic.Linarith
import Mathlib.Tactic.NormNum
import Mathlib.Tactic.Zify
import Mathlib.Tactic.Positivity
import Mathlib.Tactic.Push
import Mathlib.Data.Int.ModEq
import Mathlib.Tactic.LinearCombination

/-! Value-level arithmetic of Knuth's Algorithm D: digit estimate, correction test, forced digit.
    (re-homed from notes/probes/knuth_project/Kn/Pre.lean) -/
namespace Ruint.Div

/-- Knuth D digit estimate from the three leading limbs (3-by-2):
    `D = D2*M + dl`, `N = N3*M + nl`, `M = W^(n-2)`, normalised `W² ≤ 2·D2`, `N < D·W`.
    Then the true digit `q = N / D` and the estimate `q̂ = N3 / D2` satisfy `q ≤ q̂ ≤ q + 1`. -/
theorem knuth_digit_estimate (W M D2 dl N3 nl : ℕ) (hW : 2 ≤ W) (hM : 0 < M)
    (hdl : dl < M) (hnl : nl < M) (hnorm : W * W ≤ 2 * D2)
    (hlt : N3 * M + nl < (D2 * M + dl) * W) :
    (N3 * M + nl) / (D2 * M + dl) ≤ N3 / D2 ∧ N3 / D2 ≤ (N3 * M + nl) / (D2 * M + dl) + 1 := by
  set D := D2 * M + dl with hD
  set N := N3 * M + nl with hN
  have hD2 : 0 < D2 := by nlinarith
  have hD0 : 0 < D := by positivity
  set q := N / D with hq
  have hq1 : q * D ≤ N := Nat.div_mul_le_self N D
  have hq2 : N < (q + 1) * D := by
    have := Nat.lt_succ_iff.mpr (le_refl q)
    have h := Nat.div_add_mod N D
    have hm := Nat.mod_lt N hD0
    rw [← hq] at h
    nlinarith
  have hqW : q < W := by
    rw [hq]; exact Nat.div_lt_of_lt_mul hlt
  clear_value q D N
  constructor
  · -- q ≤ N3 / D2
    rw [Nat.le_div_iff_mul_le hD2]
    -- q*D2*M ≤ q*D ≤ N < (N3+1)*M
    have h1 : q * (D2 * M) ≤ q * D := Nat.mul_le_mul_left _ (by omega)
    have h2 : q * D2 * M < (N3 + 1) * M := by nlinarith
    have h3 : q * D2 < N3 + 1 := Nat.lt_of_mul_lt_mul_right h2
    omega
  · -- N3 / D2 ≤ q + 1
    by_contra hcon
    push Not at hcon
    have hqh : (q + 2) * D2 ≤ N3 :=
      (Nat.le_div_iff_mul_le hD2).mp (Nat.succ_le_of_lt hcon)
    -- N ≥ N3*M ≥ (q+2)*D2*M ; N < (q+1)*D < (q+1)*(D2+1)*M
    have h1 : (q + 2) * D2 * M ≤ N := by nlinarith
    have h2 : (q + 1) * D < (q + 1) * ((D2 + 1) * M) := by
      apply Nat.mul_lt_mul_of_pos_left _ (by omega)
      nlinarith
    have h3 : (q + 2) * D2 * M < (q + 1) * (D2 + 1) * M := by nlinarith
    have h4 : (q + 2) * D2 < (q + 1) * (D2 + 1) := Nat.lt_of_mul_lt_mul_right h3
    have h5 : D2 ≤ q := by nlinarith
    have h6 : W ≤ D2 := by nlinarith
    omega


namespace KS

/-- multiply-subtract over the `n` low limbs returns `(L', b)` with `L' + qh*D = L + b*P`, `L' < P`.
    If the estimate is exact the borrow word equals the top limb and `L'` is the remainder;
    if it is one too large the borrow word is `n2 + 1` and adding `D` back (mod `P`) is the remainder. -/
theorem correction (P D n2 L L' b qh q R : ℕ) (hP : 0 < P) (hD : D < P) (hL' : L' < P)
    (hsub : L' + qh * D = L + b * P)
    (hq : n2 * P + L = q * D + R) (hR : R < D) :
    (qh = q → b = n2 ∧ L' = R) ∧
    (qh = q + 1 → b = n2 + 1 ∧ (L' + D) % P = R ∧ P ≤ L' + D) := by
  constructor
  · intro h
    subst h
    -- n2*P + L' + b*P... : (n2 - b) P + L' = R, 0 ≤ R < P
    have e : n2 * P + L' = b * P + R := by nlinarith
    have hRP : R < P := by omega
    have hb : b = n2 := by
      rcases Nat.lt_trichotomy b n2 with h | h | h
      · exfalso
        have : (b + 1) * P ≤ n2 * P := Nat.mul_le_mul_right _ h
        nlinarith
      · exact h
      · exfalso
        have : (n2 + 1) * P ≤ b * P := Nat.mul_le_mul_right _ h
        nlinarith
    subst hb
    exact ⟨rfl, by omega⟩
  · intro h
    subst h
    -- L' + (q+1) D = L + b P ; n2 P + L = q D + R  ⇒ n2 P + L' + D = b P + R
    have e : n2 * P + L' + D = b * P + R := by nlinarith
    have hb : b = n2 + 1 := by
      rcases Nat.lt_trichotomy b (n2 + 1) with h | h | h
      · exfalso
        -- b ≤ n2 ⇒ b P + R < n2 P + D ≤ n2 P + L' + D
        have : b * P ≤ n2 * P := Nat.mul_le_mul_right _ (by omega)
        omega
      · exact h
      · exfalso
        have : (n2 + 2) * P ≤ b * P := Nat.mul_le_mul_right _ h
        nlinarith
    subst hb
    have e2 : L' + D = P + R := by nlinarith
    refine ⟨rfl, ?_, by omega⟩
    rw [e2, Nat.add_mod_left, Nat.mod_eq_of_lt (by omega)]

/-- forced digit: if the two leading (shifted) limbs of the window equal those of the divisor,
    the true digit is `W - 1`.  `D' = D2*M + dl`, `N' = (D2*W + n0)*M + nl`, `N' < D'*W`,
    and `W*M ≤ D'` (the divisor has `n` limbs with non-zero top: `D' ≥ W^(n-1) = W*M`). -/
theorem forced_digit (W M D2 dl n0 nl : ℕ) (hW : 2 ≤ W) (hdl : dl < M)
    (hlt : (D2 * W + n0) * M + nl < (D2 * M + dl) * W) (hbig : W * M ≤ D2 * M + dl) :
    ((D2 * W + n0) * M + nl) / (D2 * M + dl) = W - 1 := by
  apply Nat.div_eq_of_lt_le
  · -- (W-1) * D' ≤ N' :  N' ≥ D2*W*M = (D' - dl)*W ≥ D'*W - W*M + W > D'*W - D'
    have key : (W - 1) * (D2 * M + dl) + (D2 * M + dl) = (D2 * M + dl) * W := by
      have : W - 1 + 1 = W := by omega
      calc (W - 1) * (D2 * M + dl) + (D2 * M + dl) = (W - 1 + 1) * (D2 * M + dl) := by ring
        _ = (D2 * M + dl) * W := by rw [this, Nat.mul_comm]
    have h2 : (D2 * M + dl) * W = D2 * W * M + dl * W := by ring
    have h3 : dl * W ≤ M * W := Nat.mul_le_mul_right _ hdl.le
    have h4 : (D2 * W + n0) * M = D2 * W * M + n0 * M := by ring
    have h5 : M * W = W * M := Nat.mul_comm _ _
    omega
  · have : W - 1 + 1 = W := by omega
    rw [this]; calc (D2 * W + n0) * M + nl < (D2 * M + dl) * W := hlt
      _ = W * (D2 * M + dl) := Nat.mul_comm _ _

end KS

end Ruint.Div
