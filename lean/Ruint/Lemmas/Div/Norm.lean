import Ruint.Lemmas.Div.Arr

namespace Ruint.Div.KNorm
open KStep KLoop KArr

/-- `shift = leading_zeros(top)`, `T = 2^shift`: the top limb times `T` is normalised. -/
theorem norm_facts (e1 : ℕ) (h1 : 1 ≤ e1) (h2 : e1 < 2 ^ 64) :
    Nat.log2 e1 ≤ 63
    ∧ 2 ^ 64 ≤ 2 * (e1 * 2 ^ (63 - Nat.log2 e1)) ∧ e1 * 2 ^ (63 - Nat.log2 e1) < 2 ^ 64
    ∧ 2 ^ (63 - Nat.log2 e1) * 2 ^ (64 - (63 - Nat.log2 e1)) = 2 ^ 64 := by
  have hne : e1 ≠ 0 := by omega
  obtain ⟨l, hl⟩ : ∃ l, l = Nat.log2 e1 := ⟨_, rfl⟩
  rw [← hl]
  have hlo : 2 ^ l ≤ e1 := by rw [hl]; exact Nat.log2_self_le hne
  have hhi : e1 < 2 ^ (l + 1) := by rw [hl]; exact Nat.lt_log2_self
  have hl63 : l ≤ 63 := by
    by_contra hc; push Not at hc
    have : 2 ^ 64 ≤ 2 ^ l := Nat.pow_le_pow_right (by norm_num) hc
    omega
  obtain ⟨P, hP⟩ : ∃ P, P = 2 ^ (63 - l) := ⟨_, rfl⟩
  rw [← hP]
  have hP0 : 0 < P := by rw [hP]; positivity
  have e63 : 2 ^ l * P = 2 ^ 63 := by rw [hP, ← pow_add]; congr 1; omega
  have e64 : 2 ^ (l + 1) * P = 2 ^ 64 := by rw [hP, ← pow_add]; congr 1; omega
  refine ⟨hl63, ?_, ?_, ?_⟩
  · have : 2 ^ l * P ≤ e1 * P := Nat.mul_le_mul_right _ hlo
    have h64 : (2 : ℕ) ^ 64 = 2 * 2 ^ 63 := by norm_num
    omega
  · have : e1 * P < 2 ^ (l + 1) * P := Nat.mul_lt_mul_of_pos_right hhi hP0
    omega
  · rw [hP, ← pow_add]; congr 1; omega

/-- `div_nxm` for 64-bit limbs, with the shift, `d` and `v` the code computes
    (`v = reciprocal_2(d)`, proved equal to `recip2Spec` separately). -/
theorem div_nxm_u64_spec (num ds : List ℕ)
    (hnum : AllLt (2 ^ 64) num) (hds : AllLt (2 ^ 64) ds) (h3 : 3 ≤ ds.length) (hlen : ds.length ≤ num.length)
    (htop : 1 ≤ ds.getD (ds.length - 1) 0) :
    let sh := 63 - Nat.log2 (ds.getD (ds.length - 1) 0)
    let T := 2 ^ sh
    let U := 2 ^ (64 - sh)
    let d := (ds.getD (ds.length - 1) 0 * 2 ^ 64 + ds.getD (ds.length - 2) 0) * T + ds.getD (ds.length - 3) 0 / U
    let out := divNxmArr T U num ds d (recip2Spec (2 ^ 64) d)
    val (2 ^ 64) num = val (2 ^ 64) out.1 * val (2 ^ 64) ds + val (2 ^ 64) out.2
    ∧ val (2 ^ 64) out.2 < val (2 ^ 64) ds
    ∧ out.1.length = num.length ∧ out.2.length = ds.length
    ∧ AllLt (2 ^ 64) out.1 ∧ AllLt (2 ^ 64) out.2 := by
  intro sh T U d out
  have hk : ds.length - 1 < ds.length := by omega
  have he1lt : ds.getD (ds.length - 1) 0 < 2 ^ 64 := by
    apply hds
    simp only [List.getD_eq_getElem?_getD, List.getElem?_eq_getElem hk, Option.getD_some]
    exact List.getElem_mem hk
  obtain ⟨_, n1, n2, n3⟩ := norm_facts _ htop he1lt
  have hTU : T * U = 2 ^ 64 := n3
  have key := divNxmArr_spec T U num ds d (recip2Spec (2 ^ 64) d) (by positivity) (by positivity)
    (by rw [hTU]; norm_num) (by rw [hTU]; exact hnum) (by rw [hTU]; exact hds) h3 hlen
    (by rw [hTU]; exact n1) (by rw [hTU]; exact n2) (by rw [hTU]) (by rw [hTU])
  rw [hTU] at key
  exact key

end Ruint.Div.KNorm