import Ruint.Lemmas.Div.GenLoops
import Ruint.Lemmas.Div.Kernels64
import Ruint.Lemmas.Div.Norm
import Ruint.Lemmas.Bits
import Ruint.Gen.WordsKnuth

/-! `div_nx1` / `div_nx2` as GENERATED from `src/algorithms/div/small.rs` (un-normalised divisor, shifting on the
    fly; the downward index loop reading `limbs[i]`, `limbs[i-1]`) equal the C14 models `divNx1` / `divNx2`. -/
set_option autoImplicit false
namespace Ruint.Div.GenSmall
open Ruint Ruint.Div Ruint.Div.GenTie Ruint.GenLehmer Ruint.Div.GenLoops

/-! ### word-level bridges -/

theorem clz_lz (x : ℕ) (hx : 0 < x) : Rs.clz 64 x = lz x := by
  unfold Rs.clz lz
  have h : x ≠ 0 := by omega
  rw [if_neg h]; omega

theorem wsub32 (s : ℕ) (hs : s ≤ 64) : Rs.wsub 32 64 s = 64 - s := by
  unfold Rs.wsub; omega

theorem pow_split (s : ℕ) (hs : s ≤ 64) : (2 : ℕ) ^ 64 = 2 ^ s * 2 ^ (64 - s) := by
  rw [← pow_add]; congr 1; omega

/-- the fused digit `(x << s) | (b >> (64 - s))` -/
theorem fused_eq (s x b : ℕ) (hs : s ≤ 64) (hb : b < 2 ^ 64) :
    (Rs.wshl 64 x s ||| (b / 2 ^ (Rs.wsub 32 64 s))) = (x * 2 ^ s) % W + b / 2 ^ (64 - s) := by
  rw [wsub32 s hs]
  unfold Rs.wshl W
  have hW := pow_split s hs
  have h1 : (x * 2 ^ s) % 2 ^ 64 = 2 ^ s * (x % 2 ^ (64 - s)) := by
    rw [hW, Nat.mul_comm x, Nat.mul_mod_mul_left]
  have h3 : b / 2 ^ (64 - s) < 2 ^ s := by
    apply Nat.div_lt_of_lt_mul; rw [Nat.mul_comm, ← hW]; exact hb
  rw [h1, Ruint.Bits.lor_eq_add s _ _ h3]

theorem fused_lt (s x b : ℕ) (hs : s ≤ 64) (hb : b < 2 ^ 64) :
    (x * 2 ^ s) % W + b / 2 ^ (64 - s) < 2 ^ 64 := by
  have hW := pow_split s hs
  have := (fused W (2 ^ s) (2 ^ (64 - s)) x b (by unfold W; exact hW) (by positivity) (by positivity)
    (by unfold W; exact hb)).1
  unfold W at this ⊢; exact this

/-! ### `div_nx1` -/

/-- the model's shifted loop started with a remainder (the model starts at `top / U`) -/
def nx1ShLoopR (B T U d v r0 : ℕ) : ℕ → List ℕ → List ℕ × ℕ
  | _, [] => ([], r0)
  | b, x :: xs =>
      let r := nx1ShLoopR B T U d v r0 x xs
      let s := div2x1 B (r.2 * B + ((x * T) % B + b / U)) d v
      (s.1 :: r.1, s.2)

theorem nx1ShLoopR_top (B T U d v : ℕ) (xs : List ℕ) (b : ℕ) :
    nx1ShLoop B T U d v b xs = nx1ShLoopR B T U d v ((b :: xs).getD xs.length 0 / U) b xs := by
  induction xs generalizing b with
  | nil => simp [nx1ShLoop, nx1ShLoopR]
  | cons x xs ih =>
    simp only [nx1ShLoop, nx1ShLoopR, ih x, List.length_cons, List.getD_cons_succ]

theorem nx1ShLoopR_append (B T U d v r0 y : ℕ) (xs : List ℕ) (b : ℕ) :
    nx1ShLoopR B T U d v r0 b (xs ++ [y]) =
      ((nx1ShLoopR B T U d v
          (div2x1 B (r0 * B + ((y * T) % B + (b :: xs).getD xs.length 0 / U)) d v).2 b xs).1
        ++ [(div2x1 B (r0 * B + ((y * T) % B + (b :: xs).getD xs.length 0 / U)) d v).1],
       (nx1ShLoopR B T U d v
          (div2x1 B (r0 * B + ((y * T) % B + (b :: xs).getD xs.length 0 / U)) d v).2 b xs).2) := by
  induction xs generalizing b with
  | nil => simp [nx1ShLoopR]
  | cons x xs ih =>
    simp only [List.cons_append, nx1ShLoopR, ih x, List.length_cons, List.getD_cons_succ]

theorem nx1_sh_step_eq (d s v bound it : ℕ) (u : List ℕ) (r : ℕ) :
    Ruint.Gen.div_nx1_step1 d s v bound (it, u, r) =
      if bound < it then
        ((Rs.wsub 64 it 1,
          u.set (Rs.wsub 64 it 1) (Ruint.Gen.div_2x1_mg10 (Ruint.Gen.dw_join r
            (Rs.wshl 64 (u.getD (Rs.wsub 64 it 1) 0) s |||
              (u.getD (Rs.wsub 64 (Rs.wsub 64 it 1) 1) 0 / 2 ^ (Rs.wsub 32 64 s)))) d v).1,
          (Ruint.Gen.div_2x1_mg10 (Ruint.Gen.dw_join r
            (Rs.wshl 64 (u.getD (Rs.wsub 64 it 1) 0) s |||
              (u.getD (Rs.wsub 64 (Rs.wsub 64 it 1) 1) 0 / 2 ^ (Rs.wsub 32 64 s)))) d v).2), true)
      else ((it, u, r), false) := by
  unfold Ruint.Gen.div_nx1_step1
  simp only [decide_eq_true_eq, gt_iff_lt]

/-- list layout facts of one step: the array is `b :: ys ++ [y] ++ sfx`, index `ys.length + 1` -/
theorem layout (b y : ℕ) (ys sfx : List ℕ) :
    (b :: (ys ++ [y] ++ sfx)).getD (ys.length + 1) 0 = y
    ∧ (b :: (ys ++ [y] ++ sfx)).getD ys.length 0 = (b :: ys).getD ys.length 0
    ∧ ∀ q, (b :: (ys ++ [y] ++ sfx)).set (ys.length + 1) q = b :: (ys ++ ([q] ++ sfx)) := by
  refine ⟨by simp, ?_, by intro q; simp⟩
  have e : b :: (ys ++ [y] ++ sfx) = (b :: ys) ++ ([y] ++ sfx) := by simp
  have hlt : ys.length < (b :: ys).length := by simp
  rw [e, List.getD_eq_getElem?_getD, List.getD_eq_getElem?_getD, List.getElem?_append_left hlt]

theorem nx1_sh_loop_eq (d s : ℕ) (h1 : 2 ^ 63 ≤ d) (h2 : d < 2 ^ 64) (hs : s ≤ 64) :
    ∀ (xs : List ℕ) (b : ℕ) (sfx : List ℕ) (r f : ℕ), Ruint.AllLt (b :: xs) → r < d →
      xs.length + 1 < 2 ^ 64 → xs.length + 1 < f →
      Rs.loop (Ruint.Gen.div_nx1_step1 d s (reciprocal d) 1) f (xs.length + 1, b :: (xs ++ sfx), r)
        = (1, b :: ((nx1ShLoopR W (2 ^ s) (2 ^ (64 - s)) d (reciprocal d) r b xs).1 ++ sfx),
            (nx1ShLoopR W (2 ^ s) (2 ^ (64 - s)) d (reciprocal d) r b xs).2) := by
  intro xs
  induction xs using List.reverseRecOn with
  | nil =>
    intro b sfx r f _ _ _ h6
    obtain ⟨f, rfl⟩ : ∃ g, f = g + 1 := ⟨f - 1, by simp at h6; omega⟩
    rw [loop_succ, nx1_sh_step_eq]
    simp [nx1ShLoopR]
  | append_singleton ys y ih =>
    intro b sfx r f hw hr h64 h6
    obtain ⟨f, rfl⟩ : ∃ g, f = g + 1 := ⟨f - 1, by simp at h6; omega⟩
    simp only [List.length_append, List.length_singleton] at h64 h6
    have hyW : y < 2 ^ 64 := hw y (by simp)
    have hwb : Ruint.AllLt (b :: ys) := fun x hx => hw x (by
      simp only [List.mem_cons, List.mem_append] at hx ⊢
      rcases hx with hx | hx
      · exact Or.inl hx
      · exact Or.inr (Or.inl hx))
    obtain ⟨lo, hlo⟩ : ∃ lo, lo = (b :: ys).getD ys.length 0 := ⟨_, rfl⟩
    have hloW : lo < 2 ^ 64 := by rw [hlo]; exact Ruint.Bits.getD_lt _ hwb _
    have hi : 1 < (ys ++ [y]).length + 1 := by simp
    have g1 : Rs.wsub 64 ((ys ++ [y]).length + 1) 1 = ys.length + 1 := by
      simp only [List.length_append, List.length_singleton]; unfold Rs.wsub; omega
    have g1' : Rs.wsub 64 (ys.length + 1) 1 = ys.length := by unfold Rs.wsub; omega
    obtain ⟨g2, g2', g3⟩ := layout b y ys sfx
    rw [← hlo] at g2'
    obtain ⟨u, hu⟩ : ∃ u, u = (y * 2 ^ s) % W + lo / 2 ^ (64 - s) := ⟨_, rfl⟩
    have hf := fused_eq s y lo hs hloW
    have huW : u < 2 ^ 64 := by rw [hu]; exact fused_lt s y lo hs hloW
    rw [← hu] at hf
    have hj := join_eq r u (by omega) huW
    have hv := recipSpec_facts d h1 h2
    rw [← reciprocal_eq d h1 h2] at hv
    have hq : (r * 2 ^ 64 + u) / 2 ^ 64 < d := by omega
    have he := gen_div_2x1_eq (r * 2 ^ 64 + u) d (reciprocal d) h2 hq hv.2
    have hsp := div2x1w_spec (r * 2 ^ 64 + u) d h1 h2 hq
    have hr' : (div2x1w (r * 2 ^ 64 + u) d (reciprocal d)).2 < d := by
      rw [hsp]; exact Nat.mod_lt _ (by omega)
    rw [loop_succ, nx1_sh_step_eq]
    simp only [hi, if_true, g1, g1', g2, g2', g3, hf, hj, he]
    have := ih b ([(div2x1w (r * 2 ^ 64 + u) d (reciprocal d)).1] ++ sfx)
      (div2x1w (r * 2 ^ 64 + u) d (reciprocal d)).2 f hwb hr' (by omega) (by omega)
    rw [this, nx1ShLoopR_append, ← hlo, ← hu]
    simp [div2x1w, W]

theorem nx1ShLoopR_lt (d s : ℕ) (h1 : 2 ^ 63 ≤ d) (h2 : d < 2 ^ 64) (hs : s ≤ 64) (r0 : ℕ) (hr0 : r0 < d) :
    ∀ (xs : List ℕ) (b : ℕ), Ruint.AllLt (b :: xs) →
      (nx1ShLoopR W (2 ^ s) (2 ^ (64 - s)) d (reciprocal d) r0 b xs).2 < d := by
  intro xs
  induction xs with
  | nil => intro b _; exact hr0
  | cons x xs ih =>
    intro b hw
    have hbW : b < 2 ^ 64 := hw b (by simp)
    have ih' := ih x (fun z hz => hw z (by simp [hz]))
    simp only [nx1ShLoopR]
    obtain ⟨r, hr⟩ : ∃ r, r = nx1ShLoopR W (2 ^ s) (2 ^ (64 - s)) d (reciprocal d) r0 x xs := ⟨_, rfl⟩
    rw [← hr] at ih' ⊢
    obtain ⟨u, hu⟩ : ∃ u, u = (x * 2 ^ s) % W + b / 2 ^ (64 - s) := ⟨_, rfl⟩
    have huW : u < 2 ^ 64 := by rw [hu]; exact fused_lt s x b hs hbW
    rw [← hu]
    have hq : (r.2 * 2 ^ 64 + u) / 2 ^ 64 < d := by omega
    have hsp := div2x1w_spec (r.2 * 2 ^ 64 + u) d h1 h2 hq
    unfold div2x1w at hsp
    rw [show r.2 * W = r.2 * 2 ^ 64 from rfl, hsp]
    exact Nat.mod_lt _ (by omega)

/-- **`div_nx1` as generated from the source** = the C14 model. -/
theorem div_nx1_eq (limbs : List ℕ) (divisor : ℕ) (hl : Ruint.AllLt limbs) (hne : limbs ≠ [])
    (h0 : 0 < divisor) (h2 : divisor < 2 ^ 64) (h64 : limbs.length < 2 ^ 64) (f : ℕ) (hf : limbs.length < f) :
    Ruint.Gen.div_nx1 f limbs divisor = Ruint.Div.divNx1 limbs divisor := by
  obtain ⟨n0, n1, n2, _⟩ := KNorm.norm_facts divisor h0 h2
  have hclz := clz_lz divisor h0
  unfold Ruint.Gen.div_nx1 divNx1
  simp only []
  rw [hclz]
  obtain ⟨sh, hsh⟩ : ∃ sh, sh = lz divisor := ⟨_, rfl⟩
  have hsh' : sh = 63 - Nat.log2 divisor := hsh
  rw [← hsh]
  rw [← hsh'] at n1 n2
  have hs64 : sh ≤ 64 := by omega
  clear hsh hsh' hclz n0
  by_cases c : sh = 0
  · subst c
    simp only [beq_self_eq_true, if_true]
    exact div_nx1_normalized_eq limbs divisor hl (by omega) h2 h64 f hf
  · have cb : (sh == 0) = false := by simp [c]
    simp only [cb, Bool.false_eq_true, if_false, c]
    obtain ⟨x0, rest, rfl⟩ : ∃ x0 rest, limbs = x0 :: rest := by
      cases limbs with
      | nil => exact absurd rfl hne
      | cons x0 rest => exact ⟨x0, rest, rfl⟩
    simp only [List.length_cons] at h64 hf ⊢
    obtain ⟨d, hd⟩ : ∃ d, d = divisor * 2 ^ sh := ⟨_, rfl⟩
    rw [← hd] at n1 n2
    have e1 : Rs.wshl 64 divisor sh = d := by
      unfold Rs.wshl; rw [← hd]; exact Nat.mod_eq_of_lt n2
    have e2 : (divisor * 2 ^ sh) % W = d := by
      unfold W; rw [← hd]; exact Nat.mod_eq_of_lt n2
    have h1d : 2 ^ 63 ≤ d := by omega
    have e3 : Rs.wsub 64 (rest.length + 1) 1 = rest.length := by unfold Rs.wsub; omega
    have hx0 : x0 < 2 ^ 64 := hl x0 (by simp)
    obtain ⟨top, htop⟩ : ∃ top, top = (x0 :: rest).getD rest.length 0 := ⟨_, rfl⟩
    have htopW : top < 2 ^ 64 := by rw [htop]; exact Ruint.Bits.getD_lt _ hl _
    have hU := pow_split sh hs64
    have hr0 : top / 2 ^ (64 - sh) < d := by
      have hT : 2 ^ sh ≤ d := by rw [hd]; exact Nat.le_mul_of_pos_left _ h0
      have : top / 2 ^ (64 - sh) < 2 ^ sh := by
        apply Nat.div_lt_of_lt_mul; rw [Nat.mul_comm, ← hU]; exact htopW
      omega
    have hloop := nx1_sh_loop_eq d sh h1d n2 hs64 rest x0 [] (top / 2 ^ (64 - sh)) f hl hr0 h64 hf
    simp only [List.append_nil] at hloop
    rw [e1, e2, e3, gen_reciprocal_eq d h1d n2, wsub32 sh hs64, ← htop, hloop, nx1ShLoopR_top]
    obtain ⟨res, hres⟩ : ∃ res, res = nx1ShLoopR W (2 ^ sh) (2 ^ (64 - sh)) d (reciprocal d)
      (top / 2 ^ (64 - sh)) x0 rest := ⟨_, rfl⟩
    have hres2 : res.2 < d := by rw [hres]; exact nx1ShLoopR_lt d sh h1d n2 hs64 _ hr0 rest x0 hl
    rw [← hres]
    simp only [List.length_cons, List.getD_cons_succ, ← htop, nx1ShLoopR, ← hres, Nat.zero_div, Nat.add_zero,
      List.getD_cons_zero, List.set_cons_zero]
    have hwl : Rs.wshl 64 x0 sh = (x0 * 2 ^ sh) % W := rfl
    obtain ⟨u, hu⟩ : ∃ u, u = (x0 * 2 ^ sh) % W := ⟨_, rfl⟩
    have huW : u < 2 ^ 64 := by rw [hu]; unfold W; exact Nat.mod_lt _ (by norm_num)
    rw [hwl, ← hu]
    have hj := join_eq res.2 u (by omega) huW
    have hv := recipSpec_facts d h1d n2
    rw [← reciprocal_eq d h1d n2] at hv
    have hq : (res.2 * 2 ^ 64 + u) / 2 ^ 64 < d := by omega
    have he := gen_div_2x1_eq (res.2 * 2 ^ 64 + u) d (reciprocal d) n2 hq hv.2
    rw [hj, he]
    rfl

/-! ### `div_nx2` -/

def nx2ShLoopR (B T U d v r0 : ℕ) : ℕ → List ℕ → List ℕ × ℕ
  | _, [] => ([], r0)
  | b, x :: xs =>
      let r := nx2ShLoopR B T U d v r0 x xs
      let s := div3x2 B r.2 ((x * T) % B + b / U) d v
      (s.1 :: r.1, s.2)

theorem nx2ShLoopR_top (B T U d v : ℕ) (xs : List ℕ) (b : ℕ) :
    nx2ShLoop B T U d v b xs = nx2ShLoopR B T U d v ((b :: xs).getD xs.length 0 / U) b xs := by
  induction xs generalizing b with
  | nil => simp [nx2ShLoop, nx2ShLoopR]
  | cons x xs ih =>
    simp only [nx2ShLoop, nx2ShLoopR, ih x, List.length_cons, List.getD_cons_succ]

theorem nx2ShLoopR_append (B T U d v r0 y : ℕ) (xs : List ℕ) (b : ℕ) :
    nx2ShLoopR B T U d v r0 b (xs ++ [y]) =
      ((nx2ShLoopR B T U d v
          (div3x2 B r0 ((y * T) % B + (b :: xs).getD xs.length 0 / U) d v).2 b xs).1
        ++ [(div3x2 B r0 ((y * T) % B + (b :: xs).getD xs.length 0 / U) d v).1],
       (nx2ShLoopR B T U d v
          (div3x2 B r0 ((y * T) % B + (b :: xs).getD xs.length 0 / U) d v).2 b xs).2) := by
  induction xs generalizing b with
  | nil => simp [nx2ShLoopR]
  | cons x xs ih =>
    simp only [List.cons_append, nx2ShLoopR, ih x, List.length_cons, List.getD_cons_succ]

theorem nx2_sh_step_eq (d s v bound it : ℕ) (u : List ℕ) (r : ℕ) :
    Ruint.Gen.div_nx2_step1 d s v bound (it, u, r) =
      if bound < it then
        ((Rs.wsub 64 it 1,
          u.set (Rs.wsub 64 it 1) (Ruint.Gen.div_3x2_mg10 r
            (Rs.wshl 64 (u.getD (Rs.wsub 64 it 1) 0) s |||
              (u.getD (Rs.wsub 64 (Rs.wsub 64 it 1) 1) 0 / 2 ^ (Rs.wsub 32 64 s))) d v).1,
          (Ruint.Gen.div_3x2_mg10 r
            (Rs.wshl 64 (u.getD (Rs.wsub 64 it 1) 0) s |||
              (u.getD (Rs.wsub 64 (Rs.wsub 64 it 1) 1) 0 / 2 ^ (Rs.wsub 32 64 s))) d v).2), true)
      else ((it, u, r), false) := by
  unfold Ruint.Gen.div_nx2_step1
  simp only [decide_eq_true_eq, gt_iff_lt]

theorem nx2_sh_loop_eq (d s : ℕ) (h1 : 2 ^ 127 ≤ d) (h2 : d < 2 ^ 128) (hs : s ≤ 64) :
    ∀ (xs : List ℕ) (b : ℕ) (sfx : List ℕ) (r f : ℕ), Ruint.AllLt (b :: xs) → r < d →
      xs.length + 1 < 2 ^ 64 → xs.length + 1 < f →
      Rs.loop (Ruint.Gen.div_nx2_step1 d s (reciprocal2 d) 1) f (xs.length + 1, b :: (xs ++ sfx), r)
        = (1, b :: ((nx2ShLoopR W (2 ^ s) (2 ^ (64 - s)) d (reciprocal2 d) r b xs).1 ++ sfx),
            (nx2ShLoopR W (2 ^ s) (2 ^ (64 - s)) d (reciprocal2 d) r b xs).2) := by
  intro xs
  induction xs using List.reverseRecOn with
  | nil =>
    intro b sfx r f _ _ _ h6
    obtain ⟨f, rfl⟩ : ∃ g, f = g + 1 := ⟨f - 1, by simp at h6; omega⟩
    rw [loop_succ, nx2_sh_step_eq]
    simp [nx2ShLoopR]
  | append_singleton ys y ih =>
    intro b sfx r f hw hr h64 h6
    obtain ⟨f, rfl⟩ : ∃ g, f = g + 1 := ⟨f - 1, by simp at h6; omega⟩
    simp only [List.length_append, List.length_singleton] at h64 h6
    have hwb : Ruint.AllLt (b :: ys) := fun x hx => hw x (by
      simp only [List.mem_cons, List.mem_append] at hx ⊢
      rcases hx with hx | hx
      · exact Or.inl hx
      · exact Or.inr (Or.inl hx))
    obtain ⟨lo, hlo⟩ : ∃ lo, lo = (b :: ys).getD ys.length 0 := ⟨_, rfl⟩
    have hloW : lo < 2 ^ 64 := by rw [hlo]; exact Ruint.Bits.getD_lt _ hwb _
    have hi : 1 < (ys ++ [y]).length + 1 := by simp
    have g1 : Rs.wsub 64 ((ys ++ [y]).length + 1) 1 = ys.length + 1 := by
      simp only [List.length_append, List.length_singleton]; unfold Rs.wsub; omega
    have g1' : Rs.wsub 64 (ys.length + 1) 1 = ys.length := by unfold Rs.wsub; omega
    obtain ⟨g2, g2', g3⟩ := layout b y ys sfx
    rw [← hlo] at g2'
    obtain ⟨u, hu⟩ : ∃ u, u = (y * 2 ^ s) % W + lo / 2 ^ (64 - s) := ⟨_, rfl⟩
    have hf := fused_eq s y lo hs hloW
    have huW : u < 2 ^ 64 := by rw [hu]; exact fused_lt s y lo hs hloW
    rw [← hu] at hf
    have hv := recip2Spec_facts d h1 h2
    rw [← reciprocal2_eq d h1 h2] at hv
    have he := gen_div_3x2_eq r u d (reciprocal2 d) h2 hv.1 hr huW hv.2
    have hsp := div3x2w_spec r u d h1 h2 hr huW
    have hr' : (div3x2w r u d (reciprocal2 d)).2 < d := by
      rw [hsp]; exact Nat.mod_lt _ (by omega)
    rw [loop_succ, nx2_sh_step_eq]
    simp only [hi, if_true, g1, g1', g2, g2', g3, hf, he]
    have := ih b ([(div3x2w r u d (reciprocal2 d)).1] ++ sfx)
      (div3x2w r u d (reciprocal2 d)).2 f hwb hr' (by omega) (by omega)
    rw [this, nx2ShLoopR_append, ← hlo, ← hu]
    simp [div3x2w]

theorem nx2ShLoopR_lt (d s : ℕ) (h1 : 2 ^ 127 ≤ d) (h2 : d < 2 ^ 128) (hs : s ≤ 64) (r0 : ℕ) (hr0 : r0 < d) :
    ∀ (xs : List ℕ) (b : ℕ), Ruint.AllLt (b :: xs) →
      (nx2ShLoopR W (2 ^ s) (2 ^ (64 - s)) d (reciprocal2 d) r0 b xs).2 < d := by
  intro xs
  induction xs with
  | nil => intro b _; exact hr0
  | cons x xs ih =>
    intro b hw
    have hbW : b < 2 ^ 64 := hw b (by simp)
    have ih' := ih x (fun z hz => hw z (by simp [hz]))
    simp only [nx2ShLoopR]
    obtain ⟨r, hr⟩ : ∃ r, r = nx2ShLoopR W (2 ^ s) (2 ^ (64 - s)) d (reciprocal2 d) r0 x xs := ⟨_, rfl⟩
    rw [← hr] at ih' ⊢
    obtain ⟨u, hu⟩ : ∃ u, u = (x * 2 ^ s) % W + b / 2 ^ (64 - s) := ⟨_, rfl⟩
    have huW : u < 2 ^ 64 := by rw [hu]; exact fused_lt s x b hs hbW
    rw [← hu]
    have hsp := div3x2w_spec r.2 u d h1 h2 ih' huW
    unfold div3x2w at hsp
    rw [hsp]
    exact Nat.mod_lt _ (by omega)

/-- the normalised two-word divisor: `divisor << shift` lies in `[2^127, 2^128)` -/
theorem norm2_facts (dv : ℕ) (h1 : 2 ^ 64 ≤ dv) (h2 : dv < 2 ^ 128) :
    0 < dv / 2 ^ 64 ∧ dv / 2 ^ 64 < 2 ^ 64 ∧ lz (dv / 2 ^ 64) ≤ 63
    ∧ 2 ^ 127 ≤ dv * 2 ^ lz (dv / 2 ^ 64) ∧ dv * 2 ^ lz (dv / 2 ^ 64) < 2 ^ 128 := by
  obtain ⟨e1, he1⟩ : ∃ e1, e1 = dv / 2 ^ 64 := ⟨_, rfl⟩
  obtain ⟨e0, he0⟩ : ∃ e0, e0 = dv % 2 ^ 64 := ⟨_, rfl⟩
  have hdv : dv = e1 * 2 ^ 64 + e0 := by rw [he1, he0, Nat.mul_comm]; exact (Nat.div_add_mod dv (2 ^ 64)).symm
  have he0W : e0 < 2 ^ 64 := by rw [he0]; exact Nat.mod_lt _ (by norm_num)
  have he1a : 1 ≤ e1 := by rw [he1]; exact (Nat.one_le_div_iff (by norm_num)).mpr h1
  have he1b : e1 < 2 ^ 64 := by
    rw [he1]; apply Nat.div_lt_of_lt_mul
    calc dv < 2 ^ 128 := h2
      _ = 2 ^ 64 * 2 ^ 64 := by norm_num
  obtain ⟨_, n1, n2, n3⟩ := KNorm.norm_facts e1 he1a he1b
  rw [← he1]
  unfold lz
  obtain ⟨sh, hsh⟩ : ∃ sh, sh = 63 - Nat.log2 e1 := ⟨_, rfl⟩
  rw [← hsh] at n1 n2 n3 ⊢
  obtain ⟨T, hT⟩ : ∃ T, T = 2 ^ sh := ⟨_, rfl⟩
  obtain ⟨U, hU⟩ : ∃ U, U = 2 ^ (64 - sh) := ⟨_, rfl⟩
  rw [← hT] at n1 n2 n3 ⊢
  rw [← hU] at n3
  have hT0 : 0 < T := by rw [hT]; positivity
  have hlo : 2 ^ 64 * 2 ^ 64 ≤ 2 * (dv * T) := by
    rw [hdv]
    have : 2 ^ 64 * (2 * (e1 * T)) ≤ 2 * ((e1 * 2 ^ 64 + e0) * T) := by nlinarith [Nat.zero_le (e0 * T)]
    have h3 : 2 ^ 64 * 2 ^ 64 ≤ 2 ^ 64 * (2 * (e1 * T)) := Nat.mul_le_mul_left _ n1
    omega
  have hhi : dv * T < 2 ^ 64 * 2 ^ 64 := by
    rw [hdv]
    have h3 : e1 < U := by
      have : e1 * T < U * T := by rw [Nat.mul_comm U T, n3]; exact n2
      exact Nat.lt_of_mul_lt_mul_right this
    have h4 : (e1 + 1) * T ≤ U * T := Nat.mul_le_mul_right _ h3
    have h5 : U * T = 2 ^ 64 := by rw [Nat.mul_comm, n3]
    have h6 : (e1 * 2 ^ 64 + e0) * T < (e1 * 2 ^ 64 + 2 ^ 64) * T := Nat.mul_lt_mul_of_pos_right (by omega) hT0
    have h7 : (e1 * 2 ^ 64 + 2 ^ 64) * T = (e1 + 1) * T * 2 ^ 64 := by ring
    have h8 : (e1 + 1) * T * 2 ^ 64 ≤ 2 ^ 64 * 2 ^ 64 := Nat.mul_le_mul_right _ (by omega)
    omega
  refine ⟨he1a, he1b, by omega, ?_, ?_⟩
  · have : (2 : ℕ) ^ 64 * 2 ^ 64 = 2 * 2 ^ 127 := by norm_num
    omega
  · have : (2 : ℕ) ^ 64 * 2 ^ 64 = 2 ^ 128 := by norm_num
    omega

/-- **`div_nx2` as generated from the source** = the C14 model. -/
theorem div_nx2_eq (limbs : List ℕ) (divisor : ℕ) (hl : Ruint.AllLt limbs) (hne : limbs ≠ [])
    (h1 : 2 ^ 64 ≤ divisor) (h2 : divisor < 2 ^ 128) (h64 : limbs.length < 2 ^ 64) (f : ℕ) (hf : limbs.length < f) :
    Ruint.Gen.div_nx2 f limbs divisor = Ruint.Div.divNx2 limbs divisor := by
  obtain ⟨m1, m2, m3, n1, n2⟩ := norm2_facts divisor h1 h2
  have hhigh : Ruint.Gen.dw_high divisor = divisor / W := by
    unfold Ruint.Gen.dw_high W; exact Nat.mod_eq_of_lt m2
  have hW64 : divisor / W = divisor / 2 ^ 64 := rfl
  have hclz := clz_lz (divisor / 2 ^ 64) m1
  unfold Ruint.Gen.div_nx2 divNx2
  simp only []
  rw [hhigh, hW64, hclz]
  obtain ⟨sh, hsh⟩ : ∃ sh, sh = lz (divisor / 2 ^ 64) := ⟨_, rfl⟩
  rw [← hsh] at m3 n1 n2 ⊢
  have hs64 : sh ≤ 64 := by omega
  clear hsh hclz hhigh hW64
  by_cases c : sh = 0
  · subst c
    simp only [beq_self_eq_true, if_true]
    rw [pow_zero, Nat.mul_one] at n1
    exact div_nx2_normalized_eq limbs divisor hl n1 h2 h64 f hf
  · have cb : (sh == 0) = false := by simp [c]
    simp only [cb, Bool.false_eq_true, if_false, c]
    obtain ⟨x0, rest, rfl⟩ : ∃ x0 rest, limbs = x0 :: rest := by
      cases limbs with
      | nil => exact absurd rfl hne
      | cons x0 rest => exact ⟨x0, rest, rfl⟩
    simp only [List.length_cons] at h64 hf ⊢
    obtain ⟨d, hd⟩ : ∃ d, d = divisor * 2 ^ sh := ⟨_, rfl⟩
    rw [← hd] at n1 n2
    have e1 : Rs.wshl 128 divisor sh = d := by
      unfold Rs.wshl; rw [← hd]; exact Nat.mod_eq_of_lt n2
    have e2 : (divisor * 2 ^ sh) % (W * W) = d := by
      rw [← hd, show W * W = 2 ^ 128 by unfold W; norm_num]; exact Nat.mod_eq_of_lt n2
    have e3 : Rs.wsub 64 (rest.length + 1) 1 = rest.length := by unfold Rs.wsub; omega
    have hx0 : x0 < 2 ^ 64 := hl x0 (by simp)
    obtain ⟨top, htop⟩ : ∃ top, top = (x0 :: rest).getD rest.length 0 := ⟨_, rfl⟩
    have htopW : top < 2 ^ 64 := by rw [htop]; exact Ruint.Bits.getD_lt _ hl _
    have hU := pow_split sh hs64
    have hr0 : top / 2 ^ (64 - sh) < d := by
      have hT : 2 ^ sh ≤ d := by rw [hd]; exact Nat.le_mul_of_pos_left _ (by omega)
      have : top / 2 ^ (64 - sh) < 2 ^ sh := by
        apply Nat.div_lt_of_lt_mul; rw [Nat.mul_comm, ← hU]; exact htopW
      exact Nat.lt_of_lt_of_le this hT
    have hloop := nx2_sh_loop_eq d sh n1 n2 hs64 rest x0 [] (top / 2 ^ (64 - sh)) f hl hr0 h64 hf
    simp only [List.append_nil] at hloop
    rw [e1, e2, e3, gen_reciprocal_2_eq d n1 n2, wsub32 sh hs64, ← htop, hloop, nx2ShLoopR_top]
    obtain ⟨res, hres⟩ : ∃ res, res = nx2ShLoopR W (2 ^ sh) (2 ^ (64 - sh)) d (reciprocal2 d)
      (top / 2 ^ (64 - sh)) x0 rest := ⟨_, rfl⟩
    have hres2 : res.2 < d := by rw [hres]; exact nx2ShLoopR_lt d sh n1 n2 hs64 _ hr0 rest x0 hl
    rw [← hres]
    simp only [List.length_cons, List.getD_cons_succ, ← htop, nx2ShLoopR, ← hres, Nat.zero_div, Nat.add_zero,
      List.getD_cons_zero, List.set_cons_zero]
    have hwl : Rs.wshl 64 x0 sh = (x0 * 2 ^ sh) % W := rfl
    obtain ⟨u, hu⟩ : ∃ u, u = (x0 * 2 ^ sh) % W := ⟨_, rfl⟩
    have huW : u < 2 ^ 64 := by rw [hu]; unfold W; exact Nat.mod_lt _ (by norm_num)
    rw [hwl, ← hu]
    have hv := recip2Spec_facts d n1 n2
    rw [← reciprocal2_eq d n1 n2] at hv
    have he := gen_div_3x2_eq res.2 u d (reciprocal2 d) n2 hv.1 hres2 huW hv.2
    rw [he]
    rfl

end Ruint.Div.GenSmall
-- #print axioms Ruint.Div.GenSmall.div_nx1_eq   -- [propext, Classical.choice, Quot.sound]
-- #print axioms Ruint.Div.GenSmall.div_nx2_eq   -- [propext, Classical.choice, Quot.sound]
