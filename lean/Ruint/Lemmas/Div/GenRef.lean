import Ruint.Gen.WordsDiv
import Mathlib.Tactic.Ring
import Mathlib.Tactic.Linarith
/-!
(G) the two REFERENCE kernels of `algorithms::div` — `reciprocal_ref` (reciprocal.rs) and `div_2x1_ref` (small.rs),
the `u128`-division forms the crate documents as the meaning of `reciprocal_mg10` / `div_2x1_mg10` — as GENERATED from
the Rust source by `tools/rs2lean.py` (`Ruint/Gen/WordsDiv.lean`, every run), meet their documented contracts on the
documented domains (`d` normalised; `u < d·2^64`): the truncating `as u64` casts lose nothing there.
-/
set_option autoImplicit false
namespace Ruint.Div.GenRef

theorem gen_reciprocal_ref_spec (d : ℕ) (h1 : 2 ^ 63 ≤ d) (h2 : d < 2 ^ 64) :
    Ruint.Gen.reciprocal_ref d = (2 ^ 128 - 1) / d - 2 ^ 64 := by
  simp only [Ruint.Gen.reciprocal_ref]
  have hd0 : 0 < d := by omega
  obtain ⟨q, hq⟩ : ∃ q, q = (2 ^ 128 - 1) / d := ⟨_, rfl⟩
  rw [← hq]
  have lo : 2 ^ 64 ≤ q := by
    rw [hq, Nat.le_div_iff_mul_le hd0]
    calc 2 ^ 64 * d ≤ 2 ^ 64 * (2 ^ 64 - 1) := Nat.mul_le_mul_left _ (by omega)
      _ ≤ 2 ^ 128 - 1 := by norm_num
  have hi : q < 2 ^ 65 := by
    rw [hq, Nat.div_lt_iff_lt_mul hd0]
    calc 2 ^ 128 - 1 < 2 ^ 65 * 2 ^ 63 := by norm_num
      _ ≤ 2 ^ 65 * d := Nat.mul_le_mul_left _ h1
  omega

theorem gen_div_2x1_ref_spec (u d : ℕ) (h1 : 2 ^ 63 ≤ d) (h2 : d < 2 ^ 64) (hu : u / 2 ^ 64 < d) :
    Ruint.Gen.div_2x1_ref u d = (u / d, u % d) := by
  simp only [Ruint.Gen.div_2x1_ref]
  have hd0 : 0 < d := by omega
  have hr : u % d < 2 ^ 64 := lt_trans (Nat.mod_lt _ hd0) h2
  have hq : u / d < 2 ^ 64 := by
    rw [Nat.div_lt_iff_lt_mul hd0]
    have := Nat.div_add_mod u (2 ^ 64)
    have := Nat.mod_lt u (show 0 < 2 ^ 64 by norm_num)
    nlinarith
  rw [Nat.mod_eq_of_lt hq, Nat.mod_eq_of_lt hr]

end Ruint.Div.GenRef
