import Ruint.Lemmas.Div.Loop

namespace Ruint.Div.KArr
open KStep KLoop

theorem submulNx1_len (W : ℕ) (ls as : List ℕ) (b c bo : ℕ) : (submulNx1 W ls as b c bo).1.length = ls.length := by
  induction ls generalizing as c bo with
  | nil => simp [submulNx1]
  | cons l ls ih =>
    cases as with
    | nil => simp [submulNx1]
    | cons a as => simp [submulNx1, ih]

theorem adcN_len (W : ℕ) (as bs : List ℕ) (c : ℕ) (h : as.length = bs.length) : (adcN W as bs c).1.length = as.length := by
  induction as generalizing bs c with
  | nil => simp [adcN]
  | cons a as ih =>
    cases bs with
    | nil => simp at h
    | cons b bs => simp only [List.length_cons, Nat.add_right_cancel_iff] at h; simp [adcN, ih _ _ h]

/-- output length of the step is structural (no range hypotheses needed). -/
theorem kstepD_len (T U : ℕ) (low' : List ℕ) (nm c0 c1 c2 : ℕ) (dlow' : List ℕ) (dm e0 e1 d v : ℕ)
    (h : low'.length = dlow'.length) :
    (kstepD T U low' nm c0 c1 c2 dlow' dm e0 e1 d v).2.length = low'.length + 3 := by
  unfold kstepD
  simp only []
  split
  · split
    · simp
    · split
      · split
        · rw [adcN_len]
          · simp [submulNx1_len]
          · simp [submulNx1_len, h]
        · simp [submulNx1_len]
      · split
        · rw [adcN_len]
          · simp [submulNx1_len]
          · simp [submulNx1_len, h]
        · simp [submulNx1_len]
  · simp [submulNx1_len]

theorem kstepL_len (T U : ℕ) (w ds : List ℕ) (d v : ℕ) (hw : w.length = ds.length + 1) (h3 : 3 ≤ ds.length) :
    (kstepL T U w ds d v).2.length = ds.length := by
  unfold kstepL
  simp only []
  rw [kstepD_len]
  · simp; omega
  · simp; omega

theorem kloop_len (T U : ℕ) (ds : List ℕ) (d v : ℕ) (h3 : 3 ≤ ds.length) (los r : List ℕ)
    (hr : r.length = ds.length) : (kloop T U ds d v los r).2.length = ds.length := by
  induction los generalizing r with
  | nil => simpa [kloop] using hr
  | cons x los ih =>
    simp only [kloop]
    exact ih _ (kstepL_len T U (x :: r) ds d v (by simp [hr]) h3)





/-- iterations `j < m`: the array is `unconsumed ++ remainder ++ digits`. -/
theorem arrLoop_mid (T U : ℕ) (ds : List ℕ) (d v : ℕ) (h3 : 3 ≤ ds.length)
    (los r D : List ℕ) (qh : ℕ) (hr : r.length = ds.length) :
    arrLoop T U ds d v los.length (los.reverse ++ r ++ D, qh)
      = ((kloop T U ds d v los r).2 ++ (kloop T U ds d v los r).1 ++ D, qh) := by
  induction los generalizing r D with
  | nil => simp [arrLoop, kloop]
  | cons x los ih =>
    simp only [List.length_cons, arrLoop, kloop]
    have hlen : (los.reverse ++ [x] ++ r ++ D).length = los.length + 1 + ds.length + D.length := by
      simp [hr]; omega
    have hwin : window ((x :: los).reverse ++ r ++ D) los.length ds.length = x :: r := by
      unfold window
      have e : (x :: los).reverse ++ r ++ D = los.reverse ++ ((x :: r) ++ D) := by simp
      have hd : ((x :: los).reverse ++ r ++ D).drop los.length = (x :: r) ++ D := by
        rw [e]
        have : los.length = los.reverse.length := by simp
        rw [this, List.drop_left]
      have ht : ((x :: r) ++ D).take (ds.length + 1) = x :: r := by
        have : ds.length + 1 = (x :: r).length := by simp [hr]
        rw [this, List.take_left]
      simp only [hd, ht]
      simp [hr]
    have hstep : arrStep T U ds d v ((x :: los).reverse ++ r ++ D, qh) los.length
        = (los.reverse ++ (kstepL T U (x :: r) ds d v).2 ++ ((kstepL T U (x :: r) ds d v).1 :: D), qh) := by
      unfold arrStep
      simp only [hwin]
      have hlt : los.length + ds.length < ((x :: los).reverse ++ r ++ D).length := by simp [hr]; omega
      rw [if_pos hlt]
      have e : (x :: los).reverse ++ r ++ D = los.reverse ++ ((x :: r) ++ D) := by simp
      have htk : ((x :: los).reverse ++ r ++ D).take los.length = los.reverse := by
        rw [e]
        have : los.length = los.reverse.length := by simp
        rw [this, List.take_left]
      have hdr : ((x :: los).reverse ++ r ++ D).drop (los.length + ds.length + 1) = D := by
        rw [e]
        have h1 : los.length + ds.length + 1 = los.reverse.length + (x :: r).length := by simp [hr]; omega
        rw [h1, ← List.drop_drop, List.drop_left, List.drop_left]
      rw [htk, hdr]
      simp
    rw [hstep]
    have hs2 := kstepL_len T U (x :: r) ds d v (by simp [hr]) h3
    rw [ih (kstepL T U (x :: r) ds d v).2 ((kstepL T U (x :: r) ds d v).1 :: D) hs2]
    simp

/-- the whole array algorithm equals the functional loop; layout: remainder in `divisor`,
    digits then zero padding in `numerator`. -/
theorem divNxmArr_eq (T U : ℕ) (num ds : List ℕ) (d v : ℕ) (h3 : 3 ≤ ds.length) (hlen : ds.length ≤ num.length) :
    divNxmArr T U num ds d v
      = ((knuthDiv T U num ds d v).1 ++ List.replicate (ds.length - 1) 0, (knuthDiv T U num ds d v).2) := by
  obtain ⟨m, hm⟩ : ∃ m, m = num.length - ds.length := ⟨_, rfl⟩
  unfold divNxmArr knuthDiv
  simp only []
  rw [← hm]
  -- split the array: low m limbs, limb m, top n-1 limbs
  obtain ⟨lo, hlo⟩ : ∃ lo, lo = num.take m := ⟨_, rfl⟩
  obtain ⟨top, htop⟩ : ∃ top, top = num.drop (m + 1) := ⟨_, rfl⟩
  have hlol : lo.length = m := by rw [hlo]; simp; omega
  have htopl : top.length = ds.length - 1 := by rw [htop]; simp; omega
  have hmlt : m < num.length := by omega
  obtain ⟨x, hx⟩ : ∃ x, x = num[m] := ⟨_, rfl⟩
  have hnum : num = lo ++ x :: top := by
    rw [hlo, htop, hx]
    exact (List.take_append_drop m num).symm.trans (by rw [List.drop_eq_getElem_cons hmlt])
  have htake1 : num.take (m + 1) = lo ++ [x] := by
    rw [hnum]
    have : m + 1 = (lo ++ [x]).length := by simp [hlol]
    rw [show lo ++ x :: top = (lo ++ [x]) ++ top by simp, this, List.take_left]
  rw [htake1, ← htop]
  simp only [List.reverse_append, List.reverse_cons, List.reverse_nil, List.nil_append, List.singleton_append]
  -- first iteration (j = m): padded window, digit goes to q_high
  simp only [arrLoop]
  have hwin : window num m ds.length = x :: (top ++ [0]) := by
    unfold window
    have hd : num.drop m = x :: top := by
      rw [hnum]
      have : m = lo.length := hlol.symm
      rw [this, List.drop_left]
    have ht : (x :: top).take (ds.length + 1) = x :: top := by
      apply List.take_of_length_le; simp [htopl]
    simp only [hd, ht]
    have : ¬ (x :: top).length = ds.length + 1 := by simp [htopl]; omega
    rw [if_neg this]; try simp
  have hstep : arrStep T U ds d v (num, 0) m
      = (lo ++ (kstepL T U (x :: (top ++ [0])) ds d v).2, (kstepL T U (x :: (top ++ [0])) ds d v).1) := by
    unfold arrStep
    simp only [hwin]
    have : ¬ (m + ds.length < num.length) := by omega
    rw [if_neg this]
    have hdr : num.drop (m + ds.length) = [] := by apply List.drop_of_length_le; omega
    rw [hdr, ← hlo]; simp
  rw [hstep]
  obtain ⟨s, hs⟩ : ∃ s, s = kstepL T U (x :: (top ++ [0])) ds d v := ⟨_, rfl⟩
  rw [← hs]
  have hs2 : s.2.length = ds.length := by
    rw [hs]; exact kstepL_len T U _ ds d v (by simp [htopl]; omega) h3
  have hmid := arrLoop_mid T U ds d v h3 lo.reverse s.2 [] s.1 hs2
  rw [List.length_reverse, List.reverse_reverse, hlol, List.append_nil] at hmid
  rw [hmid]
  simp only [kloop, ← hs]
  obtain ⟨t, ht⟩ : ∃ t, t = kloop T U ds d v lo.reverse s.2 := ⟨_, rfl⟩
  rw [← ht]
  have ht2 : t.2.length = ds.length := by
    rw [ht]; exact kloop_len T U ds d v h3 _ _ hs2
  simp only [List.append_nil]
  have e1 : (t.2 ++ t.1).drop ds.length = t.1 := by rw [← ht2, List.drop_left]
  have e2 : (t.2 ++ t.1).take ds.length = t.2 := by rw [← ht2, List.take_left]
  rw [e1, e2]

theorem val_replicate_zero (W n : ℕ) : val W (List.replicate n 0) = 0 := by
  induction n with
  | zero => rfl
  | succ n ih => simp [List.replicate_succ, ih]

/-- `div_nxm` on arrays meets its contract: quotient (zero padded) left in `numerator`, remainder in `divisor`. -/
theorem divNxmArr_spec (T U : ℕ) (num ds : List ℕ) (d v : ℕ)
    (hT : 0 < T) (hU : 0 < U) (hW2 : 2 ≤ T * U)
    (hnum : AllLt (T * U) num) (hds : AllLt (T * U) ds) (h3 : 3 ≤ ds.length) (hlen : ds.length ≤ num.length)
    (hn1 : T * U ≤ 2 * (ds.getD (ds.length - 1) 0 * T)) (hn2 : ds.getD (ds.length - 1) 0 * T < T * U)
    (hd : d = (ds.getD (ds.length - 1) 0 * (T * U) + ds.getD (ds.length - 2) 0) * T + ds.getD (ds.length - 3) 0 / U)
    (hv : v = recip2Spec (T * U) d) :
    val (T * U) num = val (T * U) (divNxmArr T U num ds d v).1 * val (T * U) ds + val (T * U) (divNxmArr T U num ds d v).2
    ∧ val (T * U) (divNxmArr T U num ds d v).2 < val (T * U) ds
    ∧ (divNxmArr T U num ds d v).1.length = num.length
    ∧ (divNxmArr T U num ds d v).2.length = ds.length
    ∧ AllLt (T * U) (divNxmArr T U num ds d v).1
    ∧ AllLt (T * U) (divNxmArr T U num ds d v).2 := by
  rw [divNxmArr_eq T U num ds d v h3 hlen]
  obtain ⟨k1, k2, k3, k4, k5, k6⟩ := knuthDiv_spec T U num ds d v hT hU hW2 hnum hds h3 hlen hn1 hn2 hd hv
  simp only []
  rw [val_append, val_replicate_zero, Nat.mul_zero, Nat.add_zero]
  refine ⟨k1, k2, ?_, k4, ?_, k6⟩
  · simp [k3]; omega
  · intro x hx
    simp only [List.mem_append, List.mem_replicate] at hx
    rcases hx with h | ⟨_, rfl⟩
    · exact k5 x h
    · omega

end Ruint.Div.KArr