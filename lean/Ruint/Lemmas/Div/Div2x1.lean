import Ruint.Model.DivCore
import Mathlib.Tactic.Ring
import Mathlib.Tactic.Linarith
import Mathlib.Tactic.NormNum
import Mathlib.Tactic.Zify
import Mathlib.Tactic.Positivity
import Mathlib.Tactic.Push
import Mathlib.Data.Int.ModEq
import Mathlib.Tactic.LinearCombination

/-! Full correctness of MG10 Algorithm 4 (`div_2x1_mg10`) for an arbitrary word base `B ≥ 2`
    stated on ℕ with explicit wrap-arounds, exactly as the Rust code computes.
    (re-homed from notes/probes/div2x1_spec_full_proof.lean) -/
namespace Ruint.Div

/-- Facts about the MG10 2-by-1 candidate remainder, stated over ℤ. -/
theorem mg10_bounds (B d u1 u0 V q0 q1' : ℤ)
    (hB : 0 < B) (hdB : d < B) (hd2 : B ≤ 2 * d)
    (hu1 : 0 ≤ u1) (hu1d : u1 < d) (hu0 : 0 ≤ u0) (hu0B : u0 < B)
    (hk1 : 1 ≤ B * B - V * d) (hkd : B * B - V * d ≤ d)
    (hq : u1 * V + u0 = q1' * B + q0) (hq0 : 0 ≤ q0) (hq0B : q0 < B) :
    let r' := u1 * B + u0 - (q1' + 1) * d
    (-d ≤ r') ∧ (q0 - B + 1 ≤ r') ∧ (r' < B - d ∨ r' < q0) := by
  intro r'
  have hd0 : 0 < d := by linarith
  have key : B * r' = u0 * (B - d) + (B * B - V * d) * u1 + q0 * d - B * d := by
    have : q1' * B = u1 * V + u0 - q0 := by linarith
    simp only [r']
    have e : B * (u1 * B + u0 - (q1' + 1) * d) = B * B * u1 + B * u0 - (q1' * B) * d - B * d := by ring
    rw [e, this]; ring
  set k := B * B - V * d with hk
  have h1 : 0 ≤ u0 * (B - d) := mul_nonneg hu0 (by linarith)
  have h2 : 0 ≤ k * u1 := mul_nonneg (by linarith) hu1
  refine ⟨?_, ?_, ?_⟩
  · have : B * r' ≥ B * (-d) := by nlinarith
    exact le_of_mul_le_mul_left this hB
  · by_contra hcon
    push Not at hcon
    have : r' ≤ q0 - B := by linarith
    have h3 : B * r' ≤ B * (q0 - B) := mul_le_mul_of_nonneg_left this hB.le
    have h4 : (q0 - B) * d > (q0 - B) * B := by nlinarith
    nlinarith
  · by_contra hcon
    push Not at hcon
    obtain ⟨ha, hb⟩ := hcon
    have h3 : u0 * (B - d) ≤ (B - 1) * (B - d) := by nlinarith
    have h4 : k * u1 ≤ d * (d - 1) := by nlinarith
    have h5 : q0 * d ≤ r' * d := by nlinarith
    nlinarith

set_option maxHeartbeats 1000000 in
theorem div2x1_spec (B u d : Nat) (hB : 2 ≤ B) (hd2 : B ≤ 2 * d) (hdB : d < B) (hu : u < d * B) :
    div2x1 B u d (recipSpec B d) = (u / d, u % d) := by
  unfold div2x1 recipSpec
  simp only []
  have hd0 : 0 < d := by omega
  have hB0 : 0 < B := by omega
  -- V := ⌊(B²−1)/d⌋, with B ≤ V
  set V := (B * B - 1) / d with hV
  have hBB : 1 ≤ B * B := Nat.one_le_iff_ne_zero.mpr (by positivity)
  have hVd : V * d ≤ B * B - 1 := Nat.div_mul_le_self _ _
  have hVd' : B * B - 1 < (V + 1) * d := by
    have := Nat.lt_succ_iff.mpr (le_refl ((B * B - 1) / d))
    have h := Nat.div_add_mod (B * B - 1) d
    have hm := Nat.mod_lt (B * B - 1) hd0
    nlinarith
  have hVB : B ≤ V := by
    rw [hV, Nat.le_div_iff_mul_le hd0]
    have : B * d ≤ B * (B - 1) := Nat.mul_le_mul_left _ (by omega)
    have : B * (B - 1) = B * B - B := by rw [Nat.mul_sub, Nat.mul_one]
    omega
  -- decompose u
  set u1 := u / B with hu1
  set u0 := u % B with hu0
  have hu_eq : u = u1 * B + u0 := by rw [hu1, hu0]; exact (Nat.div_add_mod' u B).symm
  have hu0B : u0 < B := Nat.mod_lt _ hB0
  have hu1d : u1 < d := by rw [hu1]; exact Nat.div_lt_of_lt_mul (by rw [Nat.mul_comm]; exact hu)
  -- q
  have hq_eq : u + u1 * (V - B) = u1 * V + u0 := by
    have : u1 * (V - B) = u1 * V - u1 * B := Nat.mul_sub u1 V B
    have h2 : u1 * B ≤ u1 * V := Nat.mul_le_mul_left _ hVB
    omega
  rw [hq_eq]
  set q := u1 * V + u0 with hq
  set q1' := q / B with hq1'
  set q0 := q % B with hq0
  have hq0B : q0 < B := Nat.mod_lt _ hB0
  have hq_dec : q = q1' * B + q0 := (Nat.div_add_mod' q B).symm
  -- q < B*B so q1' < B
  have hq_lt : q < B * B := by
    have : u1 * V ≤ (d - 1) * V := Nat.mul_le_mul_right _ (by omega)
    have h3 : (d - 1) * V = d * V - V := by rw [Nat.sub_mul, Nat.one_mul]
    have h4 : d * V = V * d := Nat.mul_comm _ _
    have h5 : V ≤ d * V := Nat.le_mul_of_pos_left _ hd0
    omega
  have hq1B : q1' < B := by rw [hq1']; exact Nat.div_lt_of_lt_mul hq_lt
  -- integer facts
  have hb := mg10_bounds (B : ℤ) d u1 u0 V q0 q1' (by exact_mod_cast hB0) (by exact_mod_cast hdB)
    (by exact_mod_cast hd2) (by positivity) (by exact_mod_cast hu1d) (by positivity)
    (by exact_mod_cast hu0B)
    (by have : (V:ℤ) * d ≤ B * B - 1 := by
          have := hVd; zify [hBB] at this; exact this
        linarith)
    (by have : (B:ℤ) * B - 1 < (V + 1) * d := by
          have := hVd'; zify [hBB] at this; exact this
        linarith)
    (by exact_mod_cast hq_dec) (by positivity) (by exact_mod_cast hq0B)
  simp only at hb
  obtain ⟨hb1, hb2, hb3⟩ := hb
  -- name the integer candidate remainder
  set r' : ℤ := (u1:ℤ) * B + u0 - ((q1':ℤ) + 1) * d with hr'
  have hu_int : (u : ℤ) = (q1' + 1) * d + r' := by rw [hr', hu_eq]; push_cast; ring
  -- the computed (wrapped) quotient candidate and remainder
  set q1c : ℕ := (q1' + 1) % B with hq1c
  set r : ℕ := (u0 + B - (q1c * d) % B) % B with hr
  have hrB : r < B := Nat.mod_lt _ hB0
  -- r ≡ r' (mod B)
  have hcong : (r : ℤ) ≡ r' [ZMOD B] := by
    have h1 : (q1c * d) % B ≤ u0 + B := by
      have := Nat.mod_lt (q1c * d) hB0; omega
    have e1 : ((r : ℕ) : ℤ) = ((u0 : ℤ) + B - ((q1c : ℤ) * d) % B) % B := by
      rw [hr]; push_cast [Nat.cast_sub h1]; rfl
    rw [e1]
    have c1 : ((q1c : ℤ)) ≡ (q1' : ℤ) + 1 [ZMOD B] := by
      rw [hq1c]; push_cast; exact Int.mod_modEq _ _
    have c2 : ((q1c : ℤ) * d) % B ≡ ((q1' : ℤ) + 1) * d [ZMOD B] :=
      (Int.mod_modEq _ _).trans (c1.mul_right _)
    have c3 : ((u0 : ℤ) + B) ≡ (u1 : ℤ) * B + u0 [ZMOD B] := by
      have : ((u1 : ℤ) * B + u0) - ((u0 : ℤ) + B) = B * ((u1 : ℤ) - 1) := by ring
      exact (Int.modEq_iff_dvd.mpr ⟨(u1 : ℤ) - 1, this⟩)
    exact (Int.mod_modEq _ _).trans (c3.sub c2)
  clear_value r' r q1c q0 q1' q u0 u1 V
  -- hence r = r' + B if r' < 0 else r = r'
  have hr'B : r' < B := by rcases hb3 with h | h <;> linarith
  have hrcase : (r' < 0 ∧ (r : ℤ) = r' + B) ∨ (0 ≤ r' ∧ (r : ℤ) = r') := by
    rcases lt_or_ge r' 0 with hneg | hpos
    · left; refine ⟨hneg, ?_⟩
      have h2 : (r : ℤ) % B = (r' + B) % B := by
        have := hcong; unfold Int.ModEq at this; rw [this]; simp
      rw [Int.emod_eq_of_lt (by positivity) (by exact_mod_cast hrB),
          Int.emod_eq_of_lt (by linarith) (by linarith)] at h2
      exact h2
    · right; refine ⟨hpos, ?_⟩
      have h2 : (r : ℤ) % B = r' % B := hcong
      rw [Int.emod_eq_of_lt (by positivity) (by exact_mod_cast hrB),
          Int.emod_eq_of_lt hpos hr'B] at h2
      exact h2
  -- q1c facts
  have hq1c_dec : (q1c + B - 1) % B = q1' := by
    rw [hq1c]
    rcases Nat.lt_or_ge (q1' + 1) B with h | h
    · rw [Nat.mod_eq_of_lt h]
      have : q1' + 1 + B - 1 = q1' + B := by omega
      rw [this, Nat.add_mod_right, Nat.mod_eq_of_lt hq1B]
    · have : q1' + 1 = B := by omega
      rw [this, Nat.mod_self, Nat.zero_add, Nat.mod_eq_of_lt (by omega)]; omega
  -- when r' ≥ 0 the increment did not wrap: (q1'+1)*d ≤ u < d*B
  have hnowrap : 0 ≤ r' → q1' + 1 < B := by
    intro h
    have : ((q1' : ℤ) + 1) * d ≤ u := by rw [hu_int]; linarith
    have h2 : (q1' + 1) * d ≤ u := by exact_mod_cast this
    by_contra hc
    have : B * d ≤ (q1' + 1) * d := Nat.mul_le_mul_right _ (by omega)
    nlinarith
  -- finish by cases; use uniqueness of Euclidean division
  have huniq : ∀ qq rr : ℕ, rr < d → u = qq * d + rr → (qq, rr) = (u / d, u % d) := by
    intro qq rr hrr he
    have h1 : u / d = qq := by
      rw [he, Nat.mul_comm, Nat.mul_add_div hd0, Nat.div_eq_of_lt hrr, Nat.add_zero]
    have h2 : u % d = rr := by
      rw [he, Nat.mul_comm, Nat.mul_add_mod, Nat.mod_eq_of_lt hrr]
    rw [h1, h2]
  rcases hrcase with ⟨hneg, hre⟩ | ⟨hpos, hre⟩
  · -- (A) r' < 0 : first branch taken, second not
    have hgt : r > q0 := by
      have : (q0 : ℤ) < r := by rw [hre]; linarith
      exact_mod_cast this
    simp only [hgt, if_true, hq1c_dec]
    have hrd : (r + d) % B = r + d - B := by
      have h1 : B ≤ r + d := by
        have : (B : ℤ) ≤ r + d := by rw [hre]; linarith
        exact_mod_cast this
      have h2 : r + d - B < B := by omega
      rw [← Nat.mod_eq_of_lt h2]
      conv_lhs => rw [show r + d = (r + d - B) + B by omega]
      rw [Nat.add_mod_right]
    rw [hrd]
    have hlt : ¬ (r + d - B ≥ d) := by omega
    simp only [hlt, if_false]
    apply huniq
    · omega
    · have : (u : ℤ) = q1' * d + ((r + d - B : ℕ) : ℤ) := by
        have h1 : B ≤ r + d := by
          have : (B : ℤ) ≤ r + d := by rw [hre]; linarith
          exact_mod_cast this
        push_cast [Nat.cast_sub h1]
        rw [hu_int, hre]; ring
      exact_mod_cast this
  · -- (B) r' ≥ 0, r = r'
    have hq1c_eq : q1c = q1' + 1 := by rw [hq1c]; exact Nat.mod_eq_of_lt (hnowrap hpos)
    by_cases hgt : r > q0
    · -- (B1) spurious first correction, undone by the second
      have hrlt : r' < B - d := by
        rcases hb3 with h | h
        · exact h
        · exfalso; have : (q0 : ℤ) < r := by exact_mod_cast hgt
          rw [hre] at this; linarith
      have hrd : (r + d) % B = r + d := by
        apply Nat.mod_eq_of_lt
        have : (r : ℤ) + d < B := by rw [hre]; linarith
        exact_mod_cast this
      simp only [hgt, if_true, hq1c_dec, hrd]
      have hge : r + d ≥ d := by omega
      simp only [hge, if_true]
      have : (q1' + 1) % B = q1' + 1 := Nat.mod_eq_of_lt (hnowrap hpos)
      rw [this, Nat.add_sub_cancel]
      apply huniq
      · have : (r : ℤ) < d := by rw [hre]; linarith
        exact_mod_cast this
      · have : (u : ℤ) = ((q1' + 1 : ℕ) : ℤ) * d + r := by push_cast; rw [hu_int, hre]
        exact_mod_cast this
    · -- (B2)
      simp only [hgt, if_false]
      by_cases hge : r ≥ d
      · simp only [hge, if_true]
        have hq2 : q1' + 2 < B := by
          have h1 : ((q1' : ℤ) + 2) * d ≤ u := by
            have : (d : ℤ) ≤ r' := by rw [← hre]; exact_mod_cast hge
            rw [hu_int]; linarith
          have h2 : (q1' + 2) * d ≤ u := by exact_mod_cast h1
          by_contra hc
          have : B * d ≤ (q1' + 2) * d := Nat.mul_le_mul_right _ (by omega)
          nlinarith
        rw [hq1c_eq, Nat.mod_eq_of_lt (by omega)]
        apply huniq
        · have : (r : ℤ) < 2 * d := by rw [hre]; linarith
          have : r < 2 * d := by exact_mod_cast this
          omega
        · have : (u : ℤ) = ((q1' + 1 + 1 : ℕ) : ℤ) * d + ((r - d : ℕ) : ℤ) := by
            push_cast [Nat.cast_sub hge]; rw [hu_int, hre]; ring
          exact_mod_cast this
      · simp only [hge, if_false]
        rw [hq1c_eq]
        apply huniq
        · omega
        · have : (u : ℤ) = ((q1' + 1 : ℕ) : ℤ) * d + r := by push_cast; rw [hu_int, hre]
          exact_mod_cast this


end Ruint.Div
