import Ruint.Model.DivKnuth
import Ruint.Lemmas.Div.Div3x2
import Ruint.Lemmas.Div.KnuthArith
import Ruint.Lemmas.Div.Chains
import Ruint.Lemmas.Div.Lead

namespace Ruint.Div.KStep


/-- value of a 4-limb tail appended to a low part -/
theorem val4 (W : ℕ) (l : List ℕ) (a b c e : ℕ) :
    val W (l ++ [a, b, c, e]) = ((e * W + c) * W + b) * W ^ (l.length + 1) + a * W ^ l.length + val W l := by
  rw [val_append]; simp only [val_cons, val_nil]; ring
theorem val3 (W : ℕ) (l : List ℕ) (a b c : ℕ) :
    val W (l ++ [a, b, c]) = (c * W + b) * W ^ (l.length + 1) + a * W ^ l.length + val W l := by
  rw [val_append]; simp only [val_cons, val_nil]; ring
theorem val1 (W : ℕ) (l : List ℕ) (a : ℕ) :
    val W (l ++ [a]) = a * W ^ l.length + val W l := by
  rw [val_append]; simp only [val_cons, val_nil]; ring

theorem allLt_append {W : ℕ} {l1 l2 : List ℕ} (h1 : AllLt W l1) (h2 : AllLt W l2) : AllLt W (l1 ++ l2) := by
  intro x hx; rcases List.mem_append.mp hx with h | h
  · exact h1 x h
  · exact h2 x h

set_option maxHeartbeats 2000000 in
/-- common facts derived once (pure arithmetic, no lists): `N3`, `D2`, digit bounds. -/
theorem setup (W T U k Yw Yd nm c0 c1 c2 dm e0 e1 Win D N3 D2 n21 n0 : ℕ)
    (hW : W = T * U) (hT : 0 < T) (hU : 0 < U) (hW2 : 2 ≤ W)
    (hYw : Yw < W ^ k) (hYd : Yd < W ^ k)
    (hnm : nm < W) (hc0 : c0 < W) (hdm : dm < W) (he0 : e0 < W)
    (hn1 : W ≤ 2 * (e1 * T)) (hn2 : e1 * T < W)
    (eWin : Win = ((c2 * W + c1) * W + c0) * W ^ (k + 1) + nm * W ^ k + Yw)
    (eD : D = (e1 * W + e0) * W ^ (k + 1) + dm * W ^ k + Yd)
    (hwin : Win < D * W)
    (eN3 : N3 = ((c2 * W + c1) * W + c0) * T + nm / U)
    (eD2 : D2 = (e1 * W + e0) * T + dm / U)
    (en21 : n21 = ((c2 * W + c1) * T) % (W * W) + c0 / U)
    (en0 : n0 = (c0 * T) % W + nm / U) :
    Win * T / W ^ (k + 1) = N3 ∧ D * T / W ^ (k + 1) = D2 ∧
    n21 * W + n0 = N3 ∧ n0 < W ∧ n21 ≤ D2 ∧ W * W ≤ 2 * D2 ∧ D2 < W * W ∧ 0 < D ∧
    Win / D ≤ N3 / D2 ∧ N3 / D2 ≤ Win / D + 1 ∧
    (n21 = D2 → Win / D = W - 1) ∧ D < W ^ (k + 3) := by
  have hW0 : 0 < W := by omega
  have hN3 : Win * T / W ^ (k + 1) = N3 := by
    rw [eWin, eN3]; exact KL.lead W T U k (c2 * W + c1) c0 nm Yw hW hT hU hYw
  have hD2 : D * T / W ^ (k + 1) = D2 := by
    rw [eD, eD2]; exact KL.lead W T U k e1 e0 dm Yd hW hT hU hYd
  obtain ⟨M, hM⟩ : ∃ M, M = W ^ (k + 1) := ⟨_, rfl⟩
  rw [← hM] at hN3 hD2
  have hM0 : 0 < M := by rw [hM]; positivity
  have hMk : M = W ^ k * W := by rw [hM, pow_succ]
  have hWk2 : W ^ (k + 2) = M * W := by rw [hM, pow_succ]
  have hWk3 : W ^ (k + 3) = M * W * W := by rw [pow_succ, hWk2]
  have he1U : (e1 + 1) * T ≤ W := by
    have : e1 < U := by
      by_contra hc; push Not at hc
      have : U * T ≤ e1 * T := Nat.mul_le_mul_right _ hc
      rw [Nat.mul_comm U T, ← hW] at this; omega
    have : (e1 + 1) * T ≤ U * T := Nat.mul_le_mul_right _ this
    rw [Nat.mul_comm U T, ← hW] at this; exact this
  have hDlt : D < (e1 + 1) * (M * W) := by
    rw [eD, ← hM]
    have h1 : dm * W ^ k + Yd < M := by
      rw [hMk]
      have : (dm + 1) * W ^ k ≤ W * W ^ k := Nat.mul_le_mul_right _ hdm
      have e : (dm + 1) * W ^ k = dm * W ^ k + W ^ k := by ring
      have e2 : W * W ^ k = W ^ k * W := Nat.mul_comm _ _
      omega
    have h2 : (e1 * W + e0) * M + M ≤ (e1 + 1) * (M * W) := by
      have h3 : (e1 * W + e0 + 1) * M ≤ (e1 * W + W) * M := Nat.mul_le_mul_right _ (by omega)
      have e : (e1 * W + e0 + 1) * M = (e1 * W + e0) * M + M := by ring
      have e2 : (e1 * W + W) * M = (e1 + 1) * (M * W) := by ring
      omega
    omega
  have hDT : D * T < M * W * W := by
    have h1 : D * T < (e1 + 1) * (M * W) * T := Nat.mul_lt_mul_of_pos_right hDlt hT
    have h2 : (e1 + 1) * (M * W) * T = ((e1 + 1) * T) * (M * W) := by ring
    have h3 : ((e1 + 1) * T) * (M * W) ≤ W * (M * W) := Nat.mul_le_mul_right _ he1U
    have h4 : W * (M * W) = M * W * W := by ring
    omega
  have hDW : D < W ^ (k + 3) := by
    have : D ≤ D * T := Nat.le_mul_of_pos_right _ hT
    rw [hWk3]; omega
  have hD0 : 0 < D := by
    by_contra hc
    have : D = 0 := by omega
    rw [this] at hwin; simp at hwin
  have hD2lo : W * W ≤ 2 * D2 := by
    have h1 : e1 * T * W ≤ D2 := by
      rw [eD2]
      have : e1 * T * W ≤ (e1 * W + e0) * T := by
        have : (e1 * W + e0) * T = e1 * T * W + e0 * T := by ring
        omega
      exact le_trans this (Nat.le_add_right _ _)
    have h2 : W * W ≤ 2 * (e1 * T) * W := Nat.mul_le_mul_right _ hn1
    have h3 : 2 * (e1 * T) * W = 2 * (e1 * T * W) := by ring
    omega
  have hD2M : D2 * M ≤ D * T := by rw [← hD2]; exact Nat.div_mul_le_self _ _
  have hD2hi : D2 < W * W := by
    by_contra hc; push Not at hc
    have h1 : W * W * M ≤ D2 * M := Nat.mul_le_mul_right _ hc
    have h2 : W * W * M = M * W * W := by ring
    omega
  have hN3M : N3 * M ≤ Win * T := by rw [← hN3]; exact Nat.div_mul_le_self _ _
  have hWinT : Win * T < D * T * W := by
    have := Nat.mul_lt_mul_of_pos_right hwin hT
    have e : D * W * T = D * T * W := by ring
    omega
  have hN3lt : N3 < W * W * W := by
    by_contra hc; push Not at hc
    have h1 : W * W * W * M ≤ N3 * M := Nat.mul_le_mul_right _ hc
    have h2 : W * W * W * M = M * W * W * W := by ring
    have h3 : D * T * W < M * W * W * W := Nat.mul_lt_mul_of_pos_right hDT hW0
    omega
  obtain ⟨l1, l2⟩ := KL.lead_limbs W T U c2 c1 c0 nm hW hT hU hc0 hnm (by rw [← eN3]; exact hN3lt)
  rw [← eN3, ← en21] at l1
  rw [← eN3, ← en0] at l2
  have hsplit : n21 * W + n0 = N3 := by rw [l1, l2]; exact Nat.div_add_mod' N3 W
  have hn0 : n0 < W := by rw [l2]; exact Nat.mod_lt _ hW0
  obtain ⟨nl, hnl⟩ : ∃ nl, nl = Win * T % M := ⟨_, rfl⟩
  obtain ⟨dl, hdl⟩ : ∃ dl, dl = D * T % M := ⟨_, rfl⟩
  have eN : Win * T = N3 * M + nl := by rw [hnl, ← hN3]; exact (Nat.div_add_mod' _ _).symm
  have eDd : D * T = D2 * M + dl := by rw [hdl, ← hD2]; exact (Nat.div_add_mod' _ _).symm
  have hnlM : nl < M := by rw [hnl]; exact Nat.mod_lt _ hM0
  have hdlM : dl < M := by rw [hdl]; exact Nat.mod_lt _ hM0
  have hest := knuth_digit_estimate W M D2 dl N3 nl hW2 hM0 hdlM hnlM hD2lo (by rw [← eN, ← eDd]; exact hWinT)
  rw [← eN, ← eDd, Nat.mul_div_mul_right _ _ hT] at hest
  have hn21le : n21 ≤ D2 := by
    by_contra hc; push Not at hc
    have h1 : (D2 + 1) * W ≤ n21 * W := Nat.mul_le_mul_right _ hc
    have h2 : (D2 + 1) * W * M ≤ N3 * M := Nat.mul_le_mul_right _ (by omega)
    have h3 : (D2 + 1) * W * M = (D2 * M + M) * W := by ring
    have h4 : (D2 * M + dl) * W < (D2 * M + M) * W := Nat.mul_lt_mul_of_pos_right (by omega) hW0
    rw [eDd] at hWinT
    omega
  refine ⟨by rw [← hM]; exact hN3, by rw [← hM]; exact hD2, hsplit, hn0, hn21le, hD2lo, hD2hi, hD0, hest.1, hest.2, ?_, hDW⟩
  intro heq
  have hbig : W * M ≤ D2 * M + dl := by
    have h1 : W ≤ D2 := by nlinarith
    have : W * M ≤ D2 * M := Nat.mul_le_mul_right _ h1
    omega
  have hsplit' : D2 * W + n0 = N3 := by rw [← heq]; exact hsplit
  have hf := KS.forced_digit W M D2 dl n0 nl hW2 hdlM
    (by rw [hsplit', ← eN, ← eDd]; exact hWinT) hbig
  rw [hsplit', ← eN, ← eDd, Nat.mul_div_mul_right _ _ hT] at hf
  exact hf


theorem pred_mod (W q : ℕ) (hq : 1 ≤ q) (hqW : q < W) : (q + W - 1) % W = q - 1 := by
  have : q + W - 1 = (q - 1) + W := by omega
  rw [this, Nat.add_mod_right, Nat.mod_eq_of_lt (by omega)]

/-- arithmetic of the `shift = 0` branch: the window is split at `M = W^(k+1)`; the two top limbs were
    replaced by `r = N3 % d`, the low part goes through `submul_nx1` with borrow word `b`. -/
theorem t1_arith (W M N3 d Lw Dl Win D q R qh b v1 r : ℕ) (hM : 0 < M)
    (eWin : Win = N3 * M + Lw) (eD : D = d * M + Dl) (hqR : Win = q * D + R) (hRD : R < D)
    (hqh : qh = N3 / d) (hr : r = N3 % d)
    (hsub : v1 + qh * Dl = Lw + b * M) (hv1 : v1 < M) (hDl : Dl < M) (hqhW : qh < W)
    (hdW : d < W * W) (hd0 : 0 < d) :
    (qh = q → ¬ r < b ∧ v1 + ((r + W * W - b) % (W * W)) * M = R) ∧
    (qh = q + 1 → r < b ∧ v1 + ((r + W * W - b) % (W * W)) * M + D = R + W * W * M) := by
  have hN3 : N3 = qh * d + r := by rw [hqh, hr]; exact (Nat.div_add_mod' _ _).symm
  have hrd : r < d := by rw [hr]; exact Nat.mod_lt _ hd0
  have K : Win + b * M = qh * D + r * M + v1 := by
    calc Win + b * M = (qh * d + r) * M + Lw + b * M := by rw [eWin, hN3]
      _ = qh * d * M + r * M + (Lw + b * M) := by ring
      _ = qh * d * M + r * M + (v1 + qh * Dl) := by rw [hsub]
      _ = qh * (d * M + Dl) + r * M + v1 := by ring
      _ = qh * D + r * M + v1 := by rw [eD]
  have hbq : b ≤ qh := by
    by_contra hc; push Not at hc
    have h1 : (qh + 1) * M ≤ b * M := Nat.mul_le_mul_right _ hc
    have h2 : qh * Dl ≤ qh * M := Nat.mul_le_mul_left _ (le_of_lt hDl)
    have h3 : (qh + 1) * M = qh * M + M := by ring
    omega
  have hW1 : W ≤ W * W := Nat.le_mul_self W
  constructor
  · intro hc
    rw [hc] at K
    have K' : R + b * M = r * M + v1 := by omega
    have hbr : b ≤ r := by
      by_contra hcc; push Not at hcc
      have h1 : (r + 1) * M ≤ b * M := Nat.mul_le_mul_right _ hcc
      have h3 : (r + 1) * M = r * M + M := by ring
      omega
    refine ⟨by omega, ?_⟩
    have e1 : r + W * W - b = (r - b) + W * W := by omega
    rw [e1, Nat.add_mod_right, Nat.mod_eq_of_lt (by omega), Nat.sub_mul]
    have : b * M ≤ r * M := Nat.mul_le_mul_right _ hbr
    omega
  · intro hc
    rw [hc] at K
    have e0 : (q + 1) * D = q * D + D := by ring
    have K' : R + b * M = D + r * M + v1 := by omega
    have hrb : r < b := by
      by_contra hcc; push Not at hcc
      have : b * M ≤ r * M := Nat.mul_le_mul_right _ hcc
      omega
    refine ⟨hrb, ?_⟩
    obtain ⟨X, hX⟩ : ∃ X, X = r + W * W - b := ⟨_, rfl⟩
    rw [← hX, Nat.mod_eq_of_lt (by omega)]
    have hXb : X + b = r + W * W := by omega
    have : X * M + b * M = r * M + W * W * M := by rw [← add_mul, ← add_mul, hXb]
    omega


theorem carry_one (P out c R : ℕ) (h : out + P * c = R + P) (hout : out < P) (hR : R < P) : out = R := by
  rcases Nat.lt_trichotomy c 1 with h1 | h1 | h1
  · have : c = 0 := by omega
    subst this; omega
  · subst h1; omega
  · have : P * 2 ≤ P * c := Nat.mul_le_mul_left _ h1
    omega


set_option maxHeartbeats 4000000 in
/-- One Knuth step is exact: `Win = q*D + val R`, `val R < D`. -/
theorem kstepD_spec (T U : ℕ) (low' : List ℕ) (nm c0 c1 c2 : ℕ) (dlow' : List ℕ) (dm e0 e1 d v : ℕ)
    (hT : 0 < T) (hU : 0 < U) (hW2 : 2 ≤ T * U)
    (hlow : AllLt (T * U) low') (hdlow : AllLt (T * U) dlow') (hlen : low'.length = dlow'.length)
    (hnm : nm < T * U) (hc0 : c0 < T * U) (hc1 : c1 < T * U) (hdm : dm < T * U) (he0 : e0 < T * U) (he1 : e1 < T * U)
    (hn1 : T * U ≤ 2 * (e1 * T)) (hn2 : e1 * T < T * U)
    (hwin : val (T * U) (low' ++ [nm, c0, c1, c2]) < val (T * U) (dlow' ++ [dm, e0, e1]) * (T * U))
    (hd : d = (e1 * (T * U) + e0) * T + dm / U) (hv : v = recip2Spec (T * U) d) :
    val (T * U) (low' ++ [nm, c0, c1, c2])
        = (kstepD T U low' nm c0 c1 c2 dlow' dm e0 e1 d v).1 * val (T * U) (dlow' ++ [dm, e0, e1])
          + val (T * U) (kstepD T U low' nm c0 c1 c2 dlow' dm e0 e1 d v).2
    ∧ val (T * U) (kstepD T U low' nm c0 c1 c2 dlow' dm e0 e1 d v).2 < val (T * U) (dlow' ++ [dm, e0, e1])
    ∧ (kstepD T U low' nm c0 c1 c2 dlow' dm e0 e1 d v).2.length = low'.length + 3
    ∧ AllLt (T * U) (kstepD T U low' nm c0 c1 c2 dlow' dm e0 e1 d v).2
    ∧ (kstepD T U low' nm c0 c1 c2 dlow' dm e0 e1 d v).1 < T * U := by
  obtain ⟨W, hW⟩ : ∃ W, W = T * U := ⟨_, rfl⟩
  rw [← hW] at hW2 hlow hdlow hnm hc0 hc1 hdm he0 he1 hn1 hn2 hwin hd hv ⊢
  have hW0 : 0 < W := by omega
  obtain ⟨k, hk⟩ : ∃ k, k = low'.length := ⟨_, rfl⟩
  obtain ⟨Win, eWinv⟩ : ∃ Win, Win = val W (low' ++ [nm, c0, c1, c2]) := ⟨_, rfl⟩
  obtain ⟨D, eDv⟩ : ∃ D, D = val W (dlow' ++ [dm, e0, e1]) := ⟨_, rfl⟩
  obtain ⟨N3, eN3⟩ : ∃ N3, N3 = ((c2 * W + c1) * W + c0) * T + nm / U := ⟨_, rfl⟩
  obtain ⟨n21, en21⟩ : ∃ n21, n21 = ((c2 * W + c1) * T) % (W * W) + c0 / U := ⟨_, rfl⟩
  obtain ⟨n0, en0⟩ : ∃ n0, n0 = (c0 * T) % W + nm / U := ⟨_, rfl⟩
  have hYw := val_lt_pow W low' hlow
  have hYd := val_lt_pow W dlow' hdlow
  rw [← hlen, ← hk] at hYd
  rw [← hk] at hYw
  have eWin : Win = ((c2 * W + c1) * W + c0) * W ^ (k + 1) + nm * W ^ k + val W low' := by
    rw [eWinv, hk]; exact val4 W low' nm c0 c1 c2
  have eD : D = (e1 * W + e0) * W ^ (k + 1) + dm * W ^ k + val W dlow' := by
    rw [eDv, hk, hlen]; exact val3 W dlow' dm e0 e1
  rw [← eWinv, ← eDv] at hwin
  obtain ⟨f1, f2, f3, f4, f5, f6, f7, f8, f9, f10, f11, f12⟩ :=
    setup W T U k (val W low') (val W dlow') nm c0 c1 c2 dm e0 e1 Win D N3 d n21 n0
      hW hT hU hW2 hYw hYd hnm hc0 hdm he0 hn1 hn2 eWin eD hwin eN3 hd en21 en0
  -- true digit and remainder
  obtain ⟨q, hq⟩ : ∃ q, q = Win / D := ⟨_, rfl⟩
  obtain ⟨R, hR⟩ : ∃ R, R = Win % D := ⟨_, rfl⟩
  have hqR : Win = q * D + R := by rw [hq, hR]; exact (Nat.div_add_mod' _ _).symm
  have hRD : R < D := by rw [hR]; exact Nat.mod_lt _ f8
  have hqW : q < W := by rw [hq]; exact Nat.div_lt_of_lt_mul hwin
  rw [← hq] at f9 f10 f11
  -- window top limb and the low n limbs
  obtain ⟨L, hL⟩ : ∃ L, L = val W (low' ++ [nm, c0, c1]) := ⟨_, rfl⟩
  have hP : W ^ (k + 3) = W ^ (low' ++ [nm, c0, c1]).length := by simp [hk]
  have hWinL : Win = c2 * W ^ (k + 3) + L := by
    rw [eWinv, hL, val4, val3, ← hk]; ring
  have hLall : AllLt W (low' ++ [nm, c0, c1]) := by
    apply allLt_append hlow; intro x hx; simp at hx; rcases hx with rfl | rfl | rfl <;> assumption
  have hdsall : AllLt W (dlow' ++ [dm, e0, e1]) := by
    apply allLt_append hdlow; intro x hx; simp at hx; rcases hx with rfl | rfl | rfl <;> assumption
  have hLlt : L < W ^ (k + 3) := by rw [hL, hP]; exact val_lt_pow W _ hLall
  have hdslen : (low' ++ [nm, c0, c1]).length = (dlow' ++ [dm, e0, e1]).length := by simp [hlen]
  unfold kstepD
  simp only []
  rw [← hW, ← en21, ← en0]
  rw [← eWinv, ← eDv]
  by_cases h21 : n21 < d
  · simp only [h21, if_true]
    have hs := div3x2_spec W n21 n0 d hW2 f6 f7 h21 f4
    rw [f3] at hs
    rw [hv, hs]
    simp only []
    obtain ⟨qh, hqh⟩ : ∃ qh, qh = N3 / d := ⟨_, rfl⟩
    rw [← hqh] at f9 f10 ⊢
    have hqhW : qh < W := by
      rw [hqh]; apply Nat.div_lt_of_lt_mul
      -- N3 = n21*W + n0 < d*W
      rw [← f3]; nlinarith
    by_cases hq0 : qh = 0
    · -- quotient digit zero
      simp only [hq0, if_true]
      have hq0' : q = 0 := by omega
      have hc2 : c2 = 0 := by
        by_contra hc
        have : W ^ (k + 3) ≤ c2 * W ^ (k + 3) := Nat.le_mul_of_pos_left _ (by omega)
        rw [hq0'] at hqR; omega
      refine ⟨?_, ?_, by simp [hk], hLall, hW0⟩
      · rw [← hL, hWinL, hc2]; simp
      · rw [← hL]; rw [hq0'] at hqR; rw [hc2] at hWinL; omega
    · simp only [hq0, if_false]
      have hqcase : qh = q ∨ qh = q + 1 := by omega
      by_cases hT1 : T = 1
      · rw [if_pos hT1]
        have hUW : U = W := by rw [hW, hT1, Nat.one_mul]
        have hnmU : nm / U = 0 := by rw [hUW]; exact Nat.div_eq_of_lt hnm
        have hdmU : dm / U = 0 := by rw [hUW]; exact Nat.div_eq_of_lt hdm
        have eN3' : N3 = (c2 * W + c1) * W + c0 := by rw [eN3, hT1, hnmU]; ring
        have ed' : d = e1 * W + e0 := by rw [hd, hT1, hdmU]; ring
        obtain ⟨M, hM⟩ : ∃ M, M = W ^ (k + 1) := ⟨_, rfl⟩
        have hM0 : 0 < M := by rw [hM]; positivity
        have hlen1 : (low' ++ [nm]).length = (dlow' ++ [dm]).length := by simp [hlen]
        have hlen1k : (low' ++ [nm]).length = k + 1 := by simp [hk]
        have hLwall : AllLt W (low' ++ [nm]) := by
          apply allLt_append hlow; intro x hx; simp at hx; rcases hx with rfl; assumption
        have hDlall : AllLt W (dlow' ++ [dm]) := by
          apply allLt_append hdlow; intro x hx; simp at hx; rcases hx with rfl; assumption
        obtain ⟨sm1, sm2, sm3⟩ := submulNx1_spec W hW0 (low' ++ [nm]) (dlow' ++ [dm]) qh 0 0 hlen1 hLwall
        obtain ⟨Lw, hLw⟩ : ∃ Lw, Lw = val W (low' ++ [nm]) := ⟨_, rfl⟩
        obtain ⟨Dl, hDl⟩ : ∃ Dl, Dl = val W (dlow' ++ [dm]) := ⟨_, rfl⟩
        rw [← hLw, ← hDl, hlen1k, ← hM] at sm1
        rw [hlen1k] at sm2
        obtain ⟨sm, hsm⟩ : ∃ sm, sm = submulNx1 W (low' ++ [nm]) (dlow' ++ [dm]) qh 0 0 := ⟨_, rfl⟩
        rw [← hsm] at sm1 sm2 sm3 ⊢
        obtain ⟨r, hr⟩ : ∃ r, r = N3 % d := ⟨_, rfl⟩
        rw [← hr]
        obtain ⟨rr, hrr⟩ : ∃ rr, rr = (r + W * W - sm.2) % (W * W) := ⟨_, rfl⟩
        rw [← hrr]
        have eWin2 : Win = N3 * M + Lw := by
          rw [eWin, eN3', hLw, val1, ← hk, hM, Nat.add_assoc]
        have eD2 : D = d * M + Dl := by
          rw [eD, ed', hDl, val1, ← hlen, ← hk, hM, Nat.add_assoc]
        have hv1 : val W sm.1 < M := by
          have := val_lt_pow W sm.1 sm3; rw [sm2, ← hM] at this; exact this
        have hDlM : Dl < M := by
          have := val_lt_pow W _ hDlall; rw [← hlen1, hlen1k, ← hM, ← hDl] at this; exact this
        have hsub : val W sm.1 + qh * Dl = Lw + sm.2 * M := by
          rw [Nat.mul_comm qh Dl, Nat.mul_comm sm.2 M]; omega
        have hd0 : 0 < d := by
          rcases Nat.eq_zero_or_pos d with h | h
          · rw [h] at f6; have : 0 < W * W := Nat.mul_pos hW0 hW0; omega
          · exact h
        have harith := t1_arith W M N3 d Lw Dl Win D q R qh sm.2 (val W sm.1) r hM0
          eWin2 eD2 hqR hRD hqh hr hsub hv1 hDlM hqhW f7 hd0
        rw [← hrr] at harith
        have hrrlt : rr < W * W := by rw [hrr]; exact Nat.mod_lt _ (Nat.mul_pos hW0 hW0)
        have hw'val : val W (sm.1 ++ [rr % W, rr / W]) = val W sm.1 + rr * M := by
          rw [val_append, sm2, ← hM]; simp only [val_cons, val_nil]
          have := Nat.mod_add_div rr W
          rw [Nat.mul_zero, Nat.add_zero, this, Nat.mul_comm]
        have hw'all : AllLt W (sm.1 ++ [rr % W, rr / W]) := by
          apply allLt_append sm3; intro x hx; simp at hx
          rcases hx with rfl | rfl
          · exact Nat.mod_lt _ hW0
          · exact Nat.div_lt_of_lt_mul hrrlt
        have hw'len : (sm.1 ++ [rr % W, rr / W]).length = k + 3 := by simp [sm2]
        rcases hqcase with hc | hc
        · obtain ⟨hflag, hval⟩ := harith.1 hc
          rw [if_neg hflag]
          refine ⟨?_, by rw [hw'val, hval]; exact hRD, by rw [hw'len, hk], hw'all, hqhW⟩
          rw [hw'val, hval, hc]; exact hqR
        · obtain ⟨hflag, hval⟩ := harith.2 hc
          rw [if_pos hflag]
          have hlen2 : (sm.1 ++ [rr % W, rr / W]).length = (dlow' ++ [dm, e0, e1]).length := by
            rw [hw'len, ← hdslen]; simp [hk]
          obtain ⟨a1, a2, a3⟩ := adcN_spec W hW0 (sm.1 ++ [rr % W, rr / W]) (dlow' ++ [dm, e0, e1]) 0 hlen2
          rw [← eDv, hw'len, hw'val] at a1
          rw [hw'len] at a2
          obtain ⟨ad, had⟩ : ∃ ad, ad = adcN W (sm.1 ++ [rr % W, rr / W]) (dlow' ++ [dm, e0, e1]) 0 := ⟨_, rfl⟩
          rw [← had] at a1 a2 a3 ⊢
          have hadlt : val W ad.1 < W ^ (k + 3) := by
            have := val_lt_pow W ad.1 a3; rw [a2] at this; exact this
          have hPM : W ^ (k + 3) = W * W * M := by rw [hM]; ring
          have hadR : val W ad.1 = R :=
            carry_one (W ^ (k + 3)) (val W ad.1) ad.2 R (by rw [a1, Nat.add_zero, hval, hPM]) hadlt (by omega)
          rw [pred_mod W qh (by omega) hqhW]
          refine ⟨?_, by rw [hadR]; exact hRD, by rw [a2, hk], a3, by omega⟩
          rw [hadR, hc, Nat.add_sub_cancel]; exact hqR
      · simp only [hT1, if_false]
        obtain ⟨sm1, sm2, sm3⟩ := submulNx1_spec W hW0 (low' ++ [nm, c0, c1]) (dlow' ++ [dm, e0, e1]) qh 0 0 hdslen hLall
        rw [← hL, ← eDv, ← hP] at sm1
        obtain ⟨sm, hsm⟩ : ∃ sm, sm = submulNx1 W (low' ++ [nm, c0, c1]) (dlow' ++ [dm, e0, e1]) qh 0 0 := ⟨_, rfl⟩
        rw [← hsm] at sm1 sm2 sm3 ⊢
        have hL'lt : val W sm.1 < W ^ (k + 3) := by
          have := val_lt_pow W sm.1 sm3; rw [sm2, ← hP] at this; exact this
        have hcor := KS.correction (W ^ (k + 3)) D c2 L (val W sm.1) sm.2 qh q R (by positivity) f12 hL'lt
          (by rw [Nat.mul_comm qh D, Nat.mul_comm sm.2]; omega) (by rw [← hWinL]; exact hqR) hRD
        rcases hqcase with hc | hc
        · obtain ⟨hb, hL'R⟩ := hcor.1 hc
          have : ¬ (sm.2 ≠ c2) := by simp [hb]
          simp only [this, if_false]
          refine ⟨?_, by rw [hL'R]; exact hRD, by rw [sm2]; simp [hk], sm3, hqhW⟩
          rw [hL'R, hc]; exact hqR
        · obtain ⟨hb, hmod, hPle⟩ := hcor.2 hc
          have : sm.2 ≠ c2 := by omega
          rw [if_pos this]
          have hlen2 : sm.1.length = (dlow' ++ [dm, e0, e1]).length := by rw [sm2, hdslen]
          obtain ⟨a1, a2, a3⟩ := adcN_spec W hW0 sm.1 (dlow' ++ [dm, e0, e1]) 0 hlen2
          rw [← eDv, sm2, ← hP] at a1
          obtain ⟨ad, had⟩ : ∃ ad, ad = adcN W sm.1 (dlow' ++ [dm, e0, e1]) 0 := ⟨_, rfl⟩
          rw [← had] at a1 a2 a3 ⊢
          have hadlt : val W ad.1 < W ^ (k + 3) := by
            have := val_lt_pow W ad.1 a3; rw [a2, sm2, ← hP] at this; exact this
          have hsum2 : val W sm.1 + D < 2 * W ^ (k + 3) := by omega
          have hcar : ad.2 = 1 := by
            have h1 : W ^ (k + 3) * ad.2 ≤ val W sm.1 + D := by omega
            have h2 : val W sm.1 + D < W ^ (k + 3) * (ad.2 + 1) := by
              rw [Nat.mul_add, Nat.mul_one]; omega
            have hPpos : 0 < W ^ (k + 3) := by positivity
            rcases Nat.lt_trichotomy ad.2 1 with h | h | h
            · have : ad.2 = 0 := by omega
              rw [this] at h2; omega
            · exact h
            · have : W ^ (k + 3) * 2 ≤ W ^ (k + 3) * ad.2 := Nat.mul_le_mul_left _ h
              omega
          have hadR : val W ad.1 = R := by
            rw [hcar, Nat.mul_one] at a1
            have : (val W sm.1 + D) % W ^ (k + 3) = val W sm.1 + D - W ^ (k + 3) := by
              have h3 : val W sm.1 + D - W ^ (k + 3) < W ^ (k + 3) := by omega
              rw [← Nat.mod_eq_of_lt h3]
              conv_lhs => rw [show val W sm.1 + D = (val W sm.1 + D - W ^ (k + 3)) + W ^ (k + 3) by omega]
              rw [Nat.add_mod_right]
            omega
          rw [pred_mod W qh (by omega) hqhW]
          refine ⟨?_, by rw [hadR]; exact hRD, by rw [a2, sm2]; simp [hk], a3, by omega⟩
          rw [hadR, hc, Nat.add_sub_cancel]; exact hqR
  · simp only [h21, if_false]
    -- forced digit
    have hn21 : n21 = d := by omega
    have hqv : q = W - 1 := f11 hn21
    obtain ⟨sm1, sm2, sm3⟩ := submulNx1_spec W hW0 (low' ++ [nm, c0, c1]) (dlow' ++ [dm, e0, e1]) (W - 1) 0 0 hdslen hLall
    rw [← hL, ← eDv, ← hP] at sm1
    obtain ⟨sm, hsm⟩ : ∃ sm, sm = submulNx1 W (low' ++ [nm, c0, c1]) (dlow' ++ [dm, e0, e1]) (W - 1) 0 0 := ⟨_, rfl⟩
    rw [← hsm] at sm1 sm2 sm3 ⊢
    have hL'lt : val W sm.1 < W ^ (k + 3) := by
      have := val_lt_pow W sm.1 sm3; rw [sm2, ← hP] at this; exact this
    have hcor := KS.correction (W ^ (k + 3)) D c2 L (val W sm.1) sm.2 (W - 1) q R (by positivity) f12 hL'lt
      (by rw [Nat.mul_comm (W - 1) D, Nat.mul_comm sm.2]; omega) (by rw [← hWinL]; exact hqR) hRD
    obtain ⟨hb, hL'R⟩ := hcor.1 hqv.symm
    refine ⟨?_, by rw [hL'R]; exact hRD, by rw [sm2]; simp [hk], sm3, by omega⟩
    rw [hL'R, ← hqv]; exact hqR

end Ruint.Div.KStep