import Ruint.Lemmas.Div.NLoop
/-!
`div_nxm_normalized` on the array layout (`KN.narrStep`, `narrLoop`, `divNxmNormArr`) refined to the
functional loop `KN.nloop`. Unlike `div_nxm`, the array model has a failing outcome (the library's
`debug_assert!(n21 <= d)`), so the refinement carries the arithmetic invariant `val r < val ds`,
under which the assertion can never fire (`top2_le`).
-/
set_option autoImplicit false
namespace Ruint.Div.KN
open KStep KLoop

/-- if `r < D` (same length `n ≥ 2`) then the two leading limbs of `r` do not exceed those of `D` -/
theorem top2_le (W : ℕ) (r ds : List ℕ) (hW : 0 < W) (hr : AllLt W r) (hds : AllLt W ds)
    (hrl : r.length = ds.length) (h2 : 2 ≤ ds.length) (hlt : val W r < val W ds) :
    r.getD (ds.length - 1) 0 * W + r.getD (ds.length - 2) 0
      ≤ ds.getD (ds.length - 1) 0 * W + ds.getD (ds.length - 2) 0 := by
  obtain ⟨k, hk⟩ : ∃ k, k = ds.length - 2 := ⟨_, rfl⟩
  have hdl : ds.length = k + 2 := by omega
  have e1 : ds.length - 1 = k + 1 := by omega
  have e2 : ds.length - 2 = k := by omega
  rw [e1, e2]
  have dr := decomp2 r k (by omega)
  have dd := decomp2 ds k hdl
  obtain ⟨a0, ha0⟩ : ∃ x, x = r.getD k 0 := ⟨_, rfl⟩
  obtain ⟨a1, ha1⟩ : ∃ x, x = r.getD (k + 1) 0 := ⟨_, rfl⟩
  obtain ⟨b0, hb0⟩ : ∃ x, x = ds.getD k 0 := ⟨_, rfl⟩
  obtain ⟨b1, hb1⟩ : ∃ x, x = ds.getD (k + 1) 0 := ⟨_, rfl⟩
  rw [← ha0, ← ha1] at dr ⊢
  rw [← hb0, ← hb1] at dd ⊢
  have hda : AllLt W (ds.take k ++ [b0, b1]) := by rw [← dd]; exact hds
  have hdlow : val W (ds.take k) < W ^ k := by
    have := val_lt_pow W (ds.take k) (fun x hx => hda x (by simp [hx]))
    have hl : (ds.take k).length = k := by simp; omega
    rwa [hl] at this
  have vr : val W r = (a1 * W + a0) * W ^ (r.take k).length + val W (r.take k) := by
    conv_lhs => rw [dr]
    exact val2 W _ _ _
  have vd : val W ds = (b1 * W + b0) * W ^ (ds.take k).length + val W (ds.take k) := by
    conv_lhs => rw [dd]
    exact val2 W _ _ _
  have hl1 : (r.take k).length = k := by simp; omega
  have hl2 : (ds.take k).length = k := by simp; omega
  rw [hl1] at vr
  rw [hl2] at vd
  by_contra hc
  push Not at hc
  have hP : 0 < W ^ k := by positivity
  have : (b1 * W + b0 + 1) * W ^ k ≤ (a1 * W + a0) * W ^ k := Nat.mul_le_mul_right _ hc
  nlinarith

/-- the array loop equals the functional loop, and never panics, under the real precondition -/
theorem narrLoop_eq (W : ℕ) (ds : List ℕ) (v : ℕ) (hW2 : 2 ≤ W)
    (hds : AllLt W ds) (h2 : 2 ≤ ds.length) (hn : W ≤ 2 * ds.getD (ds.length - 1) 0)
    (hv : v = recip2Spec W (ds.getD (ds.length - 1) 0 * W + ds.getD (ds.length - 2) 0))
    (los r D : List ℕ) (hlos : AllLt W los) (hr : AllLt W r) (hrl : r.length = ds.length)
    (hrD : val W r < val W ds) :
    narrLoop W ds v los.length (los.reverse ++ r ++ D)
      = some ((nloop W ds v los r).2 ++ (nloop W ds v los r).1 ++ D)
    ∧ AllLt W (nloop W ds v los r).1 ∧ AllLt W (nloop W ds v los r).2 := by
  induction los generalizing r D with
  | nil =>
    simp only [narrLoop, nloop, List.length_nil, List.reverse_nil, List.nil_append, List.append_nil]
    exact ⟨trivial, fun x hx => by simp at hx, hr⟩
  | cons x los ih =>
    have hx : x < W := hlos x (by simp)
    have hlos' : AllLt W los := fun y hy => hlos y (by simp [hy])
    have hwall : AllLt W (x :: r) := by
      intro y hy; simp at hy; rcases hy with rfl | hy
      · exact hx
      · exact hr y hy
    have hwin : val W (x :: r) < val W ds * W := by
      rw [val_cons]
      have : W * (val W r + 1) ≤ W * val W ds := Nat.mul_le_mul_left _ hrD
      rw [Nat.mul_add, Nat.mul_one, Nat.mul_comm W (val W ds)] at this
      omega
    obtain ⟨s1, s2, s3, s4, s5⟩ := nstepL_spec W (x :: r) ds v hW2 hwall hds (by simp [hrl]) h2 hn hwin hv
    have htop := top2_le W r ds (by omega) hr hds hrl h2 hrD
    simp only [List.length_cons, narrLoop, nloop]
    have e : (x :: los).reverse ++ r ++ D = los.reverse ++ ((x :: r) ++ D) := by simp
    have hw : (((x :: los).reverse ++ r ++ D).drop los.length).take (ds.length + 1) = x :: r := by
      rw [e]
      have h1 : los.length = los.reverse.length := by simp
      rw [h1, List.drop_left]
      have h3 : ds.length + 1 = (x :: r).length := by simp [hrl]
      rw [h3, List.take_left]
    have htk : ((x :: los).reverse ++ r ++ D).take los.length = los.reverse := by
      rw [e]
      have h1 : los.length = los.reverse.length := by simp
      rw [h1, List.take_left]
    have hdr : ((x :: los).reverse ++ r ++ D).drop (los.length + ds.length + 1) = D := by
      rw [e]
      have h1 : los.length + ds.length + 1 = los.reverse.length + (x :: r).length := by simp [hrl]; omega
      rw [h1, ← List.drop_drop, List.drop_left, List.drop_left]
    have hg1 : (x :: r).getD ds.length 0 = r.getD (ds.length - 1) 0 := by
      have : ds.length = (ds.length - 1) + 1 := by omega
      conv_lhs => rw [this]
      rfl
    have hg2 : (x :: r).getD (ds.length - 1) 0 = r.getD (ds.length - 2) 0 := by
      have : ds.length - 1 = (ds.length - 2) + 1 := by omega
      conv_lhs => rw [this]
      rfl
    have hstep : narrStep W ds v ((x :: los).reverse ++ r ++ D) los.length
        = some (los.reverse ++ (nstepL W (x :: r) ds v).2 ++ ((nstepL W (x :: r) ds v).1 :: D)) := by
      unfold narrStep
      simp only [hw, hg1, hg2]
      rw [if_neg (by omega), htk, hdr]
      simp
    rw [hstep]
    simp only []
    obtain ⟨s, hs⟩ : ∃ s, s = nstepL W (x :: r) ds v := ⟨_, rfl⟩
    rw [← hs] at s1 s2 s3 s4 s5 ⊢
    obtain ⟨i1, i2, i3⟩ := ih s.2 (s.1 :: D) hlos' s4 s3 s2
    rw [i1]
    refine ⟨by simp, ?_, i3⟩
    intro y hy
    simp only [List.mem_append, List.mem_singleton] at hy
    rcases hy with h | rfl
    · exact i2 y h
    · exact s5

/-- **`div_nxm_normalized` on arrays, under the real precondition** (`|num| > |div|`, top `n` numerator
    limbs below the divisor): no panic; remainder in the low `n` limbs, quotient above; generic base. -/
theorem divNxmNormArr_spec (W : ℕ) (num ds : List ℕ) (v : ℕ) (hW2 : 2 ≤ W)
    (hnum : AllLt W num) (hds : AllLt W ds) (h2 : 2 ≤ ds.length) (hlen : ds.length + 1 ≤ num.length)
    (hn : W ≤ 2 * ds.getD (ds.length - 1) 0)
    (hv : v = recip2Spec W (ds.getD (ds.length - 1) 0 * W + ds.getD (ds.length - 2) 0))
    (hreal : val W (num.drop (num.length - ds.length)) < val W ds) :
    ∃ q r, divNxmNormArr W num ds v = some (r ++ q)
      ∧ val W num = val W q * val W ds + val W r ∧ val W r < val W ds
      ∧ r.length = ds.length ∧ q.length = num.length - ds.length ∧ AllLt W q ∧ AllLt W r := by
  obtain ⟨m1, hm1⟩ : ∃ m1, m1 = num.length - ds.length := ⟨_, rfl⟩
  obtain ⟨los, hlos⟩ : ∃ los, los = (num.take m1).reverse := ⟨_, rfl⟩
  obtain ⟨r0, hr0⟩ : ∃ r0, r0 = num.drop m1 := ⟨_, rfl⟩
  rw [← hm1, ← hr0] at hreal
  have hsplit : num = los.reverse ++ r0 ++ [] := by
    rw [hlos, hr0]; simp
  have hll : los.length = m1 := by rw [hlos]; simp; omega
  have hr0l : r0.length = ds.length := by rw [hr0]; simp; omega
  have hlosA : AllLt W los := by
    intro y hy; rw [hlos] at hy
    exact hnum y (List.mem_of_mem_take (List.mem_reverse.mp hy))
  have hr0A : AllLt W r0 := by
    intro y hy; rw [hr0] at hy
    exact hnum y (List.mem_of_mem_drop hy)
  obtain ⟨k1, k2, k3⟩ := narrLoop_eq W ds v hW2 hds h2 hn hv los r0 [] hlosA hr0A hr0l hreal
  obtain ⟨j1, j2, j3, j4⟩ := nloop_spec W ds v hW2 hds h2 hn hv los r0 hlosA hr0A hr0l hreal
  refine ⟨(nloop W ds v los r0).1, (nloop W ds v los r0).2, ?_, ?_, j2, j4, by rw [j3, hll, hm1], k2, k3⟩
  · unfold divNxmNormArr
    simp only []
    rw [if_neg (by omega), ← hm1, ← hll]
    conv_lhs => rw [hsplit]
    rw [k1]; simp
  · rw [← j1]
    conv_lhs => rw [hsplit]
    rw [List.append_nil, val_append, List.length_reverse]

end Ruint.Div.KN
