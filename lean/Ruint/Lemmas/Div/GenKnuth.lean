import Ruint.Gen.WordsKnuth
import Ruint.Model.Div
import Ruint.Lemmas.Div.GenTie
import Ruint.Lemmas.Div.GenLoops
import Ruint.Lemmas.Div.Kernels64
import Ruint.Lemmas.Div.LimbBridge
import Ruint.Lemmas.Div.Full
import Ruint.Lemmas.GenKernels
import Ruint.Lemmas.GenLehmer
import Ruint.Lemmas.Bits

/-! `div_nxm` as GENERATED from `src/algorithms/div/knuth.rs` (Knuth's algorithm D with normalisation on the fly, in
    place on the numerator array) equals the array model `Ruint.Div.divNxm` (`Model/Div.lean`, `Model/DivKnuth.lean`)
    on its documented domain. A simulation proof: generated code and model take the same branch on the same
    condition in every arm; no arithmetic invariant of the algorithm is used. -/
set_option autoImplicit false
namespace Ruint.Div.GenKnuth
open Ruint.Gen Ruint.Div.KStep Ruint.Div.KLoop Ruint.Div.KArr

/-! ## list windows: the array as `P ++ M ++ R` -/

theorem getD_app (P Q : List ℕ) (i : ℕ) : (P ++ Q).getD (P.length + i) 0 = Q.getD i 0 := by
  simp [List.getD_eq_getElem?_getD, List.getElem?_append_right]

theorem getD_app0 (P Q : List ℕ) : (P ++ Q).getD P.length 0 = Q.getD 0 0 := getD_app P Q 0

theorem g0 (P lo R : List ℕ) (nm c0 c1 j k : ℕ) (hP : P.length = j) (hlo : lo.length = k) :
    (P ++ (lo ++ [nm, c0, c1]) ++ R).getD (j + (k + 3)) 0 = R.getD 0 0 := by
  subst hP hlo
  rw [List.append_assoc, getD_app, List.append_assoc, getD_app]; rfl
theorem g1 (P lo R : List ℕ) (nm c0 c1 j k : ℕ) (hP : P.length = j) (hlo : lo.length = k) :
    (P ++ (lo ++ [nm, c0, c1]) ++ R).getD (j + (k + 3) - 1) 0 = c1 := by
  subst hP hlo
  rw [show P.length + (lo.length + 3) - 1 = P.length + (lo.length + 2) by omega,
    List.append_assoc, getD_app, List.append_assoc, getD_app]; rfl
theorem g2 (P lo R : List ℕ) (nm c0 c1 j k : ℕ) (hP : P.length = j) (hlo : lo.length = k) :
    (P ++ (lo ++ [nm, c0, c1]) ++ R).getD (j + (k + 3) - 2) 0 = c0 := by
  subst hP hlo
  rw [show P.length + (lo.length + 3) - 2 = P.length + (lo.length + 1) by omega,
    List.append_assoc, getD_app, List.append_assoc, getD_app]; rfl
theorem g3 (P lo R : List ℕ) (nm c0 c1 j k : ℕ) (hP : P.length = j) (hlo : lo.length = k) :
    (P ++ (lo ++ [nm, c0, c1]) ++ R).getD (j + (k + 3) - 3) 0 = nm := by
  subst hP hlo
  rw [show P.length + (lo.length + 3) - 3 = P.length + lo.length by omega,
    List.append_assoc, getD_app, List.append_assoc, getD_app0]; rfl

theorem take_pre (P M R : List ℕ) (j : ℕ) (hP : P.length = j) : (P ++ M ++ R).take j = P := by
  subst hP; rw [List.append_assoc, List.take_left]
theorem drop_post (P M R : List ℕ) (j n : ℕ) (hP : P.length = j) (hM : M.length = n) :
    (P ++ M ++ R).drop (j + n) = R := by
  subst hP hM; rw [← List.length_append, List.drop_left]
theorem mid_take (P M R : List ℕ) (j n : ℕ) (hP : P.length = j) (hM : M.length = n) :
    ((P ++ M ++ R).drop j).take n = M := by
  subst hP hM; rw [List.append_assoc, List.drop_left, List.take_left]
theorem getD_post (P M R : List ℕ) (j n : ℕ) (hP : P.length = j) (hM : M.length = n) :
    (P ++ M ++ R).getD (j + n) 0 = R.getD 0 0 := by
  subst hP hM; rw [← List.length_append, getD_app0]
theorem len3 (P M R : List ℕ) (j n : ℕ) (hP : P.length = j) (hM : M.length = n) :
    (P ++ M ++ R).length = j + n + R.length := by
  subst hP hM; simp [Nat.add_assoc]

/-- the two stores `numerator[j+n-2] = a; numerator[j+n-1] = b` after the short `submul_nx1` -/
theorem set_two (P Y R : List ℕ) (x y a b j m : ℕ) (hP : P.length = j) (hY : Y.length = m) :
    ((P ++ Y ++ ([x, y] ++ R)).set (j + m) a).set (j + m + 1) b = P ++ (Y ++ [a, b]) ++ R := by
  subst hP hY
  have e : ∀ u v : ℕ, P ++ Y ++ ([u, v] ++ R) = (P ++ Y) ++ (u :: v :: R) := by intro u v; simp
  rw [e, ← List.length_append, List.set_append_right _ _ (Nat.le_refl _), Nat.sub_self, List.set_cons_zero,
    List.set_append_right _ _ (Nat.le_succ _)]
  have h1 : (P ++ Y).length.succ - (P ++ Y).length = 1 := by omega
  rw [h1]
  simp

/-! ## word-level bridges -/

theorem i_add (j n : ℕ) (h : j + n < 2 ^ 64) : Rs.wadd 64 j n = j + n := by
  unfold Rs.wadd; exact Nat.mod_eq_of_lt h

theorem i_sub (a b : ℕ) (hb : b ≤ a) (h : a < 2 ^ 64) : Rs.wsub 64 a b = a - b := by
  unfold Rs.wsub
  have : a + 2 ^ 64 - b = (a - b) + 2 ^ 64 := by omega
  rw [this, Nat.add_mod_right, Nat.mod_eq_of_lt (by omega)]

theorem wsub32 (sh : ℕ) (h : sh ≤ 64) : Rs.wsub 32 64 sh = 64 - sh := by
  unfold Rs.wsub
  have : 64 + 2 ^ 32 - sh = (64 - sh) + 2 ^ 32 := by omega
  rw [this, Nat.add_mod_right, Nat.mod_eq_of_lt (by omega)]

theorem pow_split (w s : ℕ) (hs : s ≤ w) : 2 ^ w = 2 ^ s * 2 ^ (w - s) := by
  rw [← pow_add]; congr 1; omega

theorem shl_or (w s a b : ℕ) (hs : s ≤ w) (hb : b < 2 ^ s) :
    Rs.wshl w a s ||| b = (a * 2 ^ s) % 2 ^ w + b := by
  unfold Rs.wshl
  rw [pow_split w s hs, Nat.mul_comm a, Nat.mul_mod_mul_left, Ruint.Bits.lor_eq_add s _ b hb]

theorem shr_lt (x sh : ℕ) (hx : x < 2 ^ 64) (hsh : sh ≤ 64) : x / 2 ^ (64 - sh) < 2 ^ sh := by
  apply Nat.div_lt_of_lt_mul
  rw [Nat.mul_comm, ← pow_split 64 sh hsh]; exact hx

theorem clz_lz (x : ℕ) (hx : 0 < x) : Rs.clz 64 x = lz x := by
  unfold Rs.clz lz
  have : x ≠ 0 := by omega
  simp only [this, if_false]; omega

/-- the fetched `(n21, n0)`, both shift arms, as the model writes them -/
theorem fetch_word (sh c2 c1 c0 nm : ℕ) (hsh : sh ≤ 63) (hc2 : c2 < 2 ^ 64) (hc1 : c1 < 2 ^ 64) (hc0 : c0 < 2 ^ 64)
    (hnm : nm < 2 ^ 64) :
    (if (sh == 0) then (dw_join c2 c1, c0)
      else ((Rs.wshl 128 (dw_join c2 c1) sh) ||| (c0 / 2 ^ (Rs.wsub 32 64 sh)),
            (Rs.wshl 64 c0 sh) ||| (nm / 2 ^ (Rs.wsub 32 64 sh))))
      = (((c2 * 2 ^ 64 + c1) * 2 ^ sh) % (2 ^ 64 * 2 ^ 64) + c0 / 2 ^ (64 - sh),
          (c0 * 2 ^ sh) % 2 ^ 64 + nm / 2 ^ (64 - sh)) := by
  have hj := GenLoops.join_eq c2 c1 hc2 hc1
  have h128 : (2 : ℕ) ^ 64 * 2 ^ 64 = 2 ^ 128 := by norm_num
  rw [hj, h128]
  by_cases h0 : sh = 0
  · subst h0
    have e1 : c0 / 2 ^ 64 = 0 := Nat.div_eq_of_lt hc0
    have e2 : nm / 2 ^ 64 = 0 := Nat.div_eq_of_lt hnm
    have e3 : (c2 * 2 ^ 64 + c1) % 2 ^ 128 = c2 * 2 ^ 64 + c1 := Nat.mod_eq_of_lt (by omega)
    simp only [beq_self_eq_true, if_true, pow_zero, Nat.mul_one, Nat.sub_zero, e1, e2, e3, Nat.add_zero,
      Nat.mod_eq_of_lt hc0]
  · have hb : (sh == 0) = false := by simp [h0]
    simp only [hb, Bool.false_eq_true, if_false]
    rw [wsub32 sh (by omega), shl_or 128 sh _ _ (by omega) (shr_lt c0 sh hc0 (by omega)),
      shl_or 64 sh _ _ (by omega) (shr_lt nm sh hnm (by omega))]

theorem osub128 (r b : ℕ) :
    Rs.osub 128 r b = ((r + 2 ^ 64 * 2 ^ 64 - b) % (2 ^ 64 * 2 ^ 64), decide (r < b)) := by
  unfold Rs.osub
  have h128 : (2 : ℕ) ^ 64 * 2 ^ 64 = 2 ^ 128 := by norm_num
  rw [h128]

theorem high_of_mod (x : ℕ) : dw_high (x % (2 ^ 64 * 2 ^ 64)) = x % (2 ^ 64 * 2 ^ 64) / 2 ^ 64 := by
  unfold dw_high
  apply Nat.mod_eq_of_lt
  apply Nat.div_lt_of_lt_mul
  exact Nat.mod_lt _ (by positivity)

/-! ## the slice kernels with the caller's fuel, against the chains of the Knuth model -/

theorem allLt_iff (l : List ℕ) : Ruint.AllLt l ↔ Div.AllLt (2 ^ 64) l := Iff.rfl

theorem submul_ret_lt (ls as : List ℕ) (b : ℕ) (h : ls.length = as.length) (hl : Ruint.AllLt ls)
    (ha : Ruint.AllLt as) (hb : b < 2 ^ 64) : (Div.submulNx1 (2 ^ 64) ls as b 0 0).2 < 2 ^ 64 := by
  obtain ⟨h1, h2, h3⟩ := Div.submulNx1_spec (2 ^ 64) (by positivity) ls as b 0 0 h hl
  have hlt := Div.val_lt_pow (2 ^ 64) _ h3
  rw [h2] at hlt
  have hav := Div.val_lt_pow (2 ^ 64) as ha
  rw [← h] at hav
  generalize (Div.submulNx1 (2 ^ 64) ls as b 0 0).2 = ret at *
  generalize Div.val (2 ^ 64) (Div.submulNx1 (2 ^ 64) ls as b 0 0).1 = x at *
  generalize Div.val (2 ^ 64) as = va at *
  generalize Div.val (2 ^ 64) ls = vl at *
  generalize (2 ^ 64) ^ ls.length = P at *
  by_contra hcon
  push Not at hcon
  have h4 : P * 2 ^ 64 ≤ P * ret := Nat.mul_le_mul_left P hcon
  have h5 : va * b ≤ (P - 1) * (2 ^ 64 - 1) := Nat.mul_le_mul (by omega) (by omega)
  have hP : 0 < P := by omega
  have e : (P - 1) * (2 ^ 64 - 1) + P + (2 ^ 64 - 1) = P * 2 ^ 64 := by
    obtain ⟨p, rfl⟩ : ∃ p, P = p + 1 := ⟨P - 1, by omega⟩
    simp only [Nat.add_sub_cancel]; ring
  omega

/-- `submul_nx1` as generated, any sufficient fuel = the chain used by the Knuth model -/
theorem submul_gen (f : ℕ) (lhs a : List ℕ) (b : ℕ) (hl : lhs.length = a.length) (hn : a.length < 2 ^ 64)
    (hf : a.length < f) (hwl : Ruint.AllLt lhs) (hwa : Ruint.AllLt a) (hb : b < 2 ^ 64) :
    submul_nx1 f lhs a b = Div.submulNx1 (2 ^ 64) lhs a b 0 0 := by
  have hloop := Ruint.GenKernels.submul_loop_eq b hb lhs a [] [] 0 0 f a.length hl rfl (by simp) hn hf hwl hwa
    Ruint.W_pos Ruint.W_pos
  simp only [List.nil_append, List.length_nil] at hloop
  have hm := Ruint.GenKernels.submulGo2_model Ruint.W lhs a b 0 0
  have hbr := Bridge.submulNx1_eq_limb Ruint.W Ruint.two_le_W lhs a b 0 0 hwl Ruint.W_pos
  have hret := submul_ret_lt lhs a b hl hwl hwa hb
  rw [show (2 : ℕ) ^ 64 = Ruint.W from rfl] at hret ⊢
  rw [← hbr, hm] at hret ⊢
  unfold submul_nx1
  simp only [hloop]
  refine Prod.ext rfl ?_
  simp only []
  unfold Rs.wadd
  exact Nat.mod_eq_of_lt hret

/-- `adc_n` as generated, any sufficient fuel = the chain used by the Knuth model -/
theorem adc_gen (f : ℕ) (lhs rhs : List ℕ) (hl : lhs.length = rhs.length) (hn : lhs.length < 2 ^ 64)
    (hf : lhs.length < f) (hwl : Ruint.AllLt lhs) (hwr : Ruint.AllLt rhs) :
    adc_n f lhs rhs 0 = Div.adcN (2 ^ 64) lhs rhs 0 := by
  obtain ⟨r, hr, hloop⟩ := Ruint.GenKernels.adc_loop_eq lhs rhs [] [] 0 f lhs.length (by omega) rfl (by simp) hn hf
    hwl hwr Ruint.W_pos
  simp only [List.nil_append, List.length_nil] at hloop
  have hbr := Bridge.adcN_eq_limb Ruint.W lhs rhs 0 hl
  rw [hbr] at hr
  rw [show (2 : ℕ) ^ 64 = Ruint.W from rfl, Option.some.inj hr]
  unfold adc_n
  simp only [hloop]

/-! ## the model step: restated over one base, and the invariant "limbs stay words" (structural) -/

/-- `kstepD` with the word base named (`T * U = B`) -/
theorem kstepD_B (B T U : ℕ) (hTU : T * U = B) (low' : List ℕ) (nm c0 c1 c2 : ℕ) (dlow' : List ℕ)
    (dm e0 e1 d v : ℕ) :
    kstepD T U low' nm c0 c1 c2 dlow' dm e0 e1 d v =
      (if ((c2 * B + c1) * T) % (B * B) + c0 / U < d then
        if (div3x2 B (((c2 * B + c1) * T) % (B * B) + c0 / U) ((c0 * T) % B + nm / U) d v).1 = 0 then
          (0, low' ++ [nm, c0, c1])
        else if T = 1 then
          if (div3x2 B (((c2 * B + c1) * T) % (B * B) + c0 / U) ((c0 * T) % B + nm / U) d v).2 <
              (submulNx1 B (low' ++ [nm]) (dlow' ++ [dm])
                (div3x2 B (((c2 * B + c1) * T) % (B * B) + c0 / U) ((c0 * T) % B + nm / U) d v).1 0 0).2 then
            (((div3x2 B (((c2 * B + c1) * T) % (B * B) + c0 / U) ((c0 * T) % B + nm / U) d v).1 + B - 1) % B,
              (adcN B ((submulNx1 B (low' ++ [nm]) (dlow' ++ [dm])
                  (div3x2 B (((c2 * B + c1) * T) % (B * B) + c0 / U) ((c0 * T) % B + nm / U) d v).1 0 0).1 ++
                [((div3x2 B (((c2 * B + c1) * T) % (B * B) + c0 / U) ((c0 * T) % B + nm / U) d v).2 + B * B -
                    (submulNx1 B (low' ++ [nm]) (dlow' ++ [dm])
                      (div3x2 B (((c2 * B + c1) * T) % (B * B) + c0 / U) ((c0 * T) % B + nm / U) d v).1 0 0).2) %
                    (B * B) % B,
                 ((div3x2 B (((c2 * B + c1) * T) % (B * B) + c0 / U) ((c0 * T) % B + nm / U) d v).2 + B * B -
                    (submulNx1 B (low' ++ [nm]) (dlow' ++ [dm])
                      (div3x2 B (((c2 * B + c1) * T) % (B * B) + c0 / U) ((c0 * T) % B + nm / U) d v).1 0 0).2) %
                    (B * B) / B]) (dlow' ++ [dm, e0, e1]) 0).1)
          else
            ((div3x2 B (((c2 * B + c1) * T) % (B * B) + c0 / U) ((c0 * T) % B + nm / U) d v).1,
              (submulNx1 B (low' ++ [nm]) (dlow' ++ [dm])
                  (div3x2 B (((c2 * B + c1) * T) % (B * B) + c0 / U) ((c0 * T) % B + nm / U) d v).1 0 0).1 ++
                [((div3x2 B (((c2 * B + c1) * T) % (B * B) + c0 / U) ((c0 * T) % B + nm / U) d v).2 + B * B -
                    (submulNx1 B (low' ++ [nm]) (dlow' ++ [dm])
                      (div3x2 B (((c2 * B + c1) * T) % (B * B) + c0 / U) ((c0 * T) % B + nm / U) d v).1 0 0).2) %
                    (B * B) % B,
                 ((div3x2 B (((c2 * B + c1) * T) % (B * B) + c0 / U) ((c0 * T) % B + nm / U) d v).2 + B * B -
                    (submulNx1 B (low' ++ [nm]) (dlow' ++ [dm])
                      (div3x2 B (((c2 * B + c1) * T) % (B * B) + c0 / U) ((c0 * T) % B + nm / U) d v).1 0 0).2) %
                    (B * B) / B])
        else
          if (submulNx1 B (low' ++ [nm, c0, c1]) (dlow' ++ [dm, e0, e1])
              (div3x2 B (((c2 * B + c1) * T) % (B * B) + c0 / U) ((c0 * T) % B + nm / U) d v).1 0 0).2 ≠ c2 then
            (((div3x2 B (((c2 * B + c1) * T) % (B * B) + c0 / U) ((c0 * T) % B + nm / U) d v).1 + B - 1) % B,
              (adcN B (submulNx1 B (low' ++ [nm, c0, c1]) (dlow' ++ [dm, e0, e1])
                (div3x2 B (((c2 * B + c1) * T) % (B * B) + c0 / U) ((c0 * T) % B + nm / U) d v).1 0 0).1
                (dlow' ++ [dm, e0, e1]) 0).1)
          else
            ((div3x2 B (((c2 * B + c1) * T) % (B * B) + c0 / U) ((c0 * T) % B + nm / U) d v).1,
              (submulNx1 B (low' ++ [nm, c0, c1]) (dlow' ++ [dm, e0, e1])
                (div3x2 B (((c2 * B + c1) * T) % (B * B) + c0 / U) ((c0 * T) % B + nm / U) d v).1 0 0).1)
      else
        (B - 1, (submulNx1 B (low' ++ [nm, c0, c1]) (dlow' ++ [dm, e0, e1]) (B - 1) 0 0).1)) := by
  subst hTU; rfl

theorem div3x2_fst_lt (B u21 u0 d v : ℕ) (hB : 0 < B) : (div3x2 B u21 u0 d v).1 < B := by
  unfold div3x2
  simp only []
  split_ifs <;> exact Nat.mod_lt _ hB

theorem allLt3 (B : ℕ) (l : List ℕ) (a b c : ℕ) (hl : Div.AllLt B l) (ha : a < B) (hb : b < B) (hc : c < B) :
    Div.AllLt B (l ++ [a, b, c]) := by
  apply KStep.allLt_append hl
  intro x hx; simp at hx; rcases hx with rfl | rfl | rfl <;> assumption

theorem allLt2 (B : ℕ) (l : List ℕ) (a b : ℕ) (hl : Div.AllLt B l) (ha : a < B) (hb : b < B) :
    Div.AllLt B (l ++ [a, b]) := by
  apply KStep.allLt_append hl
  intro x hx; simp at hx; rcases hx with rfl | rfl <;> assumption

theorem allLt1 (B : ℕ) (l : List ℕ) (a : ℕ) (hl : Div.AllLt B l) (ha : a < B) : Div.AllLt B (l ++ [a]) := by
  apply KStep.allLt_append hl
  intro x hx; simp at hx; rcases hx with rfl; assumption

/-- every limb of the step's output and its digit are words — no arithmetic invariant needed -/
theorem kstepD_lt (B T U : ℕ) (hTU : T * U = B) (hB : 0 < B) (low' : List ℕ) (nm c0 c1 c2 : ℕ) (dlow' : List ℕ)
    (dm e0 e1 d v : ℕ) (hlow : Div.AllLt B low') (hnm : nm < B) (hc0 : c0 < B) (hc1 : c1 < B)
    (hlen : low'.length = dlow'.length) :
    Div.AllLt B (kstepD T U low' nm c0 c1 c2 dlow' dm e0 e1 d v).2
      ∧ (kstepD T U low' nm c0 c1 c2 dlow' dm e0 e1 d v).1 < B := by
  rw [kstepD_B B T U hTU]
  have hall := allLt3 B low' nm c0 c1 hlow hnm hc0 hc1
  have hall1 := allLt1 B low' nm hlow hnm
  have hl3 : (low' ++ [nm, c0, c1]).length = (dlow' ++ [dm, e0, e1]).length := by simp [hlen]
  have hl1 : (low' ++ [nm]).length = (dlow' ++ [dm]).length := by simp [hlen]
  have hBB : 0 < B * B := Nat.mul_pos hB hB
  split_ifs with h1 h2 h3 h4 h5
  · exact ⟨hall, hB⟩
  · obtain ⟨_, s2, s3⟩ := Div.submulNx1_spec B hB (low' ++ [nm]) (dlow' ++ [dm])
      (div3x2 B (((c2 * B + c1) * T) % (B * B) + c0 / U) ((c0 * T) % B + nm / U) d v).1 0 0 hl1 hall1
    refine ⟨(Div.adcN_spec B hB _ (dlow' ++ [dm, e0, e1]) 0 ?_).2.2, Nat.mod_lt _ hB⟩
    simp [s2, hlen]
  · obtain ⟨_, s2, s3⟩ := Div.submulNx1_spec B hB (low' ++ [nm]) (dlow' ++ [dm])
      (div3x2 B (((c2 * B + c1) * T) % (B * B) + c0 / U) ((c0 * T) % B + nm / U) d v).1 0 0 hl1 hall1
    exact ⟨allLt2 B _ _ _ s3 (Nat.mod_lt _ hB) (Nat.div_lt_of_lt_mul (Nat.mod_lt _ hBB)), div3x2_fst_lt B _ _ _ _ hB⟩
  · obtain ⟨_, s2, s3⟩ := Div.submulNx1_spec B hB (low' ++ [nm, c0, c1]) (dlow' ++ [dm, e0, e1])
      (div3x2 B (((c2 * B + c1) * T) % (B * B) + c0 / U) ((c0 * T) % B + nm / U) d v).1 0 0 hl3 hall
    refine ⟨(Div.adcN_spec B hB _ (dlow' ++ [dm, e0, e1]) 0 ?_).2.2, Nat.mod_lt _ hB⟩
    rw [s2, hl3]
  · obtain ⟨_, s2, s3⟩ := Div.submulNx1_spec B hB (low' ++ [nm, c0, c1]) (dlow' ++ [dm, e0, e1])
      (div3x2 B (((c2 * B + c1) * T) % (B * B) + c0 / U) ((c0 * T) % B + nm / U) d v).1 0 0 hl3 hall
    exact ⟨s3, div3x2_fst_lt B _ _ _ _ hB⟩
  · obtain ⟨_, s2, s3⟩ := Div.submulNx1_spec B hB (low' ++ [nm, c0, c1]) (dlow' ++ [dm, e0, e1]) (B - 1) 0 0 hl3 hall
    exact ⟨s3, by omega⟩

/-! ## the generated step, cut into its blocks (each block is the generated text, verbatim) -/

def gfetch (sh n : ℕ) (A : List ℕ) (j : ℕ) : ℕ × ℕ :=
  let n2 := (A.getD (Rs.wadd 64 j n) 0)
  let n21 := (dw_join n2 (A.getD (Rs.wsub 64 (Rs.wadd 64 j n) 1) 0))
  let n0 := (A.getD (Rs.wsub 64 (Rs.wadd 64 j n) 2) 0)
  if (sh == 0) then (n21, n0)
  else (((Rs.wshl 128 n21 sh) ||| (n0 / 2 ^ (Rs.wsub 32 64 sh))),
        ((Rs.wshl 64 n0 sh) ||| ((A.getD (Rs.wsub 64 (Rs.wadd 64 j n) 3) 0) / 2 ^ (Rs.wsub 32 64 sh))))

def gsub0 (fuel : ℕ) (ds : List ℕ) (n : ℕ) (A : List ℕ) (j q r : ℕ) : List ℕ × Bool :=
  let sel2 := (submul_nx1 fuel ((A.drop j).take ((Rs.wsub 64 (Rs.wadd 64 j n) 2) - j)) (ds.take (Rs.wsub 64 n 2)) q)
  let A := (A.take j ++ sel2.1 ++ A.drop (Rs.wsub 64 (Rs.wadd 64 j n) 2))
  let borrow := sel2.2
  let sel3 := (Rs.osub 128 r borrow)
  let r := sel3.1
  let borrow := sel3.2
  let A := (A.set (Rs.wsub 64 (Rs.wadd 64 j n) 2) (dw_low r))
  let A := (A.set (Rs.wsub 64 (Rs.wadd 64 j n) 1) (dw_high r))
  (A, borrow)

def gsubS (fuel : ℕ) (ds : List ℕ) (n : ℕ) (A : List ℕ) (j q : ℕ) : List ℕ × Bool :=
  let sel4 := (submul_nx1 fuel ((A.drop j).take ((Rs.wadd 64 j n) - j)) ds q)
  let A := (A.take j ++ sel4.1 ++ A.drop (Rs.wadd 64 j n))
  let borrow := sel4.2
  let n2 := (A.getD (Rs.wadd 64 j n) 0)
  (A, (borrow != n2))

def gfix (fuel : ℕ) (ds : List ℕ) (n : ℕ) (A : List ℕ) (j q : ℕ) (borrow : Bool) : ℕ × List ℕ :=
  if borrow then (
    let q := (Rs.wsub 64 q 1)
    let sel5 := (adc_n fuel ((A.drop j).take ((Rs.wadd 64 j n) - j)) (ds.take n) 0)
    let A := (A.take j ++ sel5.1 ++ A.drop (Rs.wadd 64 j n))
    (q, A))
  else (q, A)

def govf (fuel : ℕ) (ds : List ℕ) (n : ℕ) (A : List ℕ) (j : ℕ) : List ℕ × ℕ :=
  let q := (2 ^ 64 - 1)
  let sel10 := (submul_nx1 fuel ((A.drop j).take ((Rs.wadd 64 j n) - j)) ds q)
  let A := (A.take j ++ sel10.1 ++ A.drop (Rs.wadd 64 j n))
  (A, q)

def gdigit (fuel : ℕ) (divisor : List ℕ) (n d shift v : ℕ) (numerator : List ℕ) (j : ℕ) : List ℕ × ℕ :=
  let sel13 := (gfetch shift n numerator j)
  let n21 := sel13.1
  let n0 := sel13.2
  if (decide (n21 < d)) then (
  let sel9 := (div_3x2_mg10 n21 n0 d v)
  let q := sel9.1
  let r := sel9.2
  let sel8 := if (q != 0) then (
  let sel7 := if (shift == 0) then (gsub0 fuel divisor n numerator j q r) else (gsubS fuel divisor n numerator j q)
  let numerator := sel7.1
  let borrow_v2 := sel7.2
  let borrow := borrow_v2
  let sel6 := gfix fuel divisor n numerator j q borrow
  let q := sel6.1
  let numerator := sel6.2
  (numerator, q))
  else (
  (numerator, q))
  let numerator := sel8.1
  let q := sel8.2
  let q_v1 := q
  (numerator, q_v1))
  else (govf fuel divisor n numerator j)

def gstore (n : ℕ) (A : List ℕ) (j q qh : ℕ) : List ℕ × ℕ :=
  if (decide ((Rs.wadd 64 j n) < A.length)) then (A.set (Rs.wadd 64 j n) q, qh) else (A, q)

/-- the generated step is the composition of the blocks (definitional) -/
theorem step_unfold (fuel : ℕ) (ds : List ℕ) (n d sh v j1 : ℕ) (A : List ℕ) (qh : ℕ) :
    div_nxm_step1 fuel ds n d sh v 0 (j1, A, qh) =
      if (decide (j1 > 0)) then
        (let j := Rs.wsub 64 j1 1
         let g := gdigit fuel ds n d sh v A j
         let s := gstore n g.1 j g.2 qh
         ((j, s.1, s.2), true))
      else ((j1, A, qh), false) := rfl

/-! ## the blocks on an array `P ++ (lo ++ [nm, c0, c1]) ++ R`, `|P| = j`, `|lo| = k`, `n = k + 3` -/

theorem fetch_eq (sh T U j k : ℕ) (P lo R : List ℕ) (nm c0 c1 : ℕ) (hT : T = 2 ^ sh) (hU : U = 2 ^ (64 - sh))
    (hP : P.length = j) (hlo : lo.length = k) (hj : j + (k + 3) < 2 ^ 64) (hsh : sh ≤ 63)
    (hc2 : R.getD 0 0 < 2 ^ 64) (hc1 : c1 < 2 ^ 64) (hc0 : c0 < 2 ^ 64) (hnm : nm < 2 ^ 64) :
    gfetch sh (k + 3) (P ++ (lo ++ [nm, c0, c1]) ++ R) j =
      (((R.getD 0 0 * 2 ^ 64 + c1) * T) % (2 ^ 64 * 2 ^ 64) + c0 / U, (c0 * T) % 2 ^ 64 + nm / U) := by
  unfold gfetch
  simp only [i_add j (k + 3) hj, i_sub (j + (k + 3)) 1 (by omega) hj, i_sub (j + (k + 3)) 2 (by omega) hj,
    i_sub (j + (k + 3)) 3 (by omega) hj, g0 P lo R nm c0 c1 j k hP hlo, g1 P lo R nm c0 c1 j k hP hlo,
    g2 P lo R nm c0 c1 j k hP hlo, g3 P lo R nm c0 c1 j k hP hlo]
  rw [hT, hU]
  exact fetch_word sh (R.getD 0 0) c1 c0 nm hsh hc2 hc1 hc0 hnm

theorem take_ds1 (dlo : List ℕ) (dm e0 e1 k : ℕ) (hdlo : dlo.length = k) :
    (dlo ++ [dm, e0, e1]).take (k + 1) = dlo ++ [dm] := by
  subst hdlo
  have : dlo ++ [dm, e0, e1] = (dlo ++ [dm]) ++ [e0, e1] := by simp
  rw [this, show dlo.length + 1 = (dlo ++ [dm]).length by simp, List.take_left]

theorem resplit (P lo R : List ℕ) (nm c0 c1 : ℕ) :
    P ++ (lo ++ [nm, c0, c1]) ++ R = P ++ (lo ++ [nm]) ++ ([c0, c1] ++ R) := by simp

/-- the `shift == 0` multiply-subtract block -/
theorem sub0_eq (fuel j k q r : ℕ) (P lo R dlo : List ℕ) (nm c0 c1 dm e0 e1 : ℕ) (hP : P.length = j)
    (hlo : lo.length = k) (hdlo : dlo.length = k) (hj : j + (k + 3) < 2 ^ 64) (hf : k + 3 < fuel)
    (hA : Ruint.AllLt (lo ++ [nm])) (hds : Ruint.AllLt (dlo ++ [dm])) (hq : q < 2 ^ 64) :
    gsub0 fuel (dlo ++ [dm, e0, e1]) (k + 3) (P ++ (lo ++ [nm, c0, c1]) ++ R) j q r =
      (P ++ ((submulNx1 (2 ^ 64) (lo ++ [nm]) (dlo ++ [dm]) q 0 0).1 ++
          [(r + 2 ^ 64 * 2 ^ 64 - (submulNx1 (2 ^ 64) (lo ++ [nm]) (dlo ++ [dm]) q 0 0).2) % (2 ^ 64 * 2 ^ 64) % 2 ^ 64,
           (r + 2 ^ 64 * 2 ^ 64 - (submulNx1 (2 ^ 64) (lo ++ [nm]) (dlo ++ [dm]) q 0 0).2) % (2 ^ 64 * 2 ^ 64) / 2 ^ 64])
        ++ R, decide (r < (submulNx1 (2 ^ 64) (lo ++ [nm]) (dlo ++ [dm]) q 0 0).2)) := by
  have e0' : Rs.wadd 64 j (k + 3) = j + (k + 3) := i_add j (k + 3) hj
  have e2 : Rs.wsub 64 (j + (k + 3)) 2 = j + (k + 1) := by rw [i_sub _ 2 (by omega) hj]; omega
  have e1' : Rs.wsub 64 (j + (k + 3)) 1 = j + (k + 1) + 1 := by rw [i_sub _ 1 (by omega) hj]; omega
  have en : Rs.wsub 64 (k + 3) 2 = k + 1 := by rw [i_sub _ 2 (by omega) (by omega)]; omega
  have ec : j + (k + 1) - j = k + 1 := Nat.add_sub_cancel_left _ _
  have hl1 : (lo ++ [nm]).length = k + 1 := by simp [hlo]
  have hd1 : (dlo ++ [dm]).length = k + 1 := by simp [hdlo]
  have emid : ((P ++ (lo ++ [nm, c0, c1]) ++ R).drop j).take (k + 1) = lo ++ [nm] := by
    rw [resplit]; exact mid_take P _ _ j (k + 1) hP hl1
  have epre : (P ++ (lo ++ [nm, c0, c1]) ++ R).take j = P := take_pre P _ R j hP
  have epost : (P ++ (lo ++ [nm, c0, c1]) ++ R).drop (j + (k + 1)) = [c0, c1] ++ R := by
    rw [resplit]; exact drop_post P _ _ j (k + 1) hP hl1
  have esub := submul_gen fuel (lo ++ [nm]) (dlo ++ [dm]) q (by rw [hl1, hd1]) (by rw [hd1]; omega)
    (by rw [hd1]; omega) hA hds hq
  have hsl : (submulNx1 (2 ^ 64) (lo ++ [nm]) (dlo ++ [dm]) q 0 0).1.length = k + 1 := by
    rw [submulNx1_len, hl1]
  have eset := fun a b => set_two P (submulNx1 (2 ^ 64) (lo ++ [nm]) (dlo ++ [dm]) q 0 0).1 R c0 c1 a b j (k + 1) hP hsl
  simp only [gsub0, e0', e2, e1', en, ec, emid, epre, epost, take_ds1 dlo dm e0 e1 k hdlo, esub, osub128, high_of_mod,
    eset, dw_low]

/-- the `shift != 0` multiply-subtract block -/
theorem subS_eq (fuel j k q : ℕ) (P M R ds : List ℕ) (hP : P.length = j) (hM : M.length = k + 3)
    (hdl : ds.length = k + 3) (hj : j + (k + 3) < 2 ^ 64) (hf : k + 3 < fuel)
    (hA : Ruint.AllLt M) (hds : Ruint.AllLt ds) (hq : q < 2 ^ 64) :
    gsubS fuel ds (k + 3) (P ++ M ++ R) j q =
      (P ++ (submulNx1 (2 ^ 64) M ds q 0 0).1 ++ R, ((submulNx1 (2 ^ 64) M ds q 0 0).2 != R.getD 0 0)) := by
  have e0' : Rs.wadd 64 j (k + 3) = j + (k + 3) := i_add j (k + 3) hj
  have ec : j + (k + 3) - j = k + 3 := Nat.add_sub_cancel_left _ _
  have emid : ((P ++ M ++ R).drop j).take (k + 3) = M := mid_take P M R j (k + 3) hP hM
  have epre : (P ++ M ++ R).take j = P := take_pre P M R j hP
  have epost : (P ++ M ++ R).drop (j + (k + 3)) = R := drop_post P M R j (k + 3) hP hM
  have esub := submul_gen fuel M ds q (by rw [hM, hdl]) (by rw [hdl]; omega) (by rw [hdl]; omega) hA hds hq
  have hsl : (submulNx1 (2 ^ 64) M ds q 0 0).1.length = k + 3 := by rw [submulNx1_len, hM]
  have eg := getD_post P (submulNx1 (2 ^ 64) M ds q 0 0).1 R j (k + 3) hP hsl
  simp only [gsubS, e0', ec, emid, epre, epost, esub, eg]

/-- the overflow arm -/
theorem ovf_eq (fuel j k : ℕ) (P M R ds : List ℕ) (hP : P.length = j) (hM : M.length = k + 3)
    (hdl : ds.length = k + 3) (hj : j + (k + 3) < 2 ^ 64) (hf : k + 3 < fuel)
    (hA : Ruint.AllLt M) (hds : Ruint.AllLt ds) :
    govf fuel ds (k + 3) (P ++ M ++ R) j =
      (P ++ (submulNx1 (2 ^ 64) M ds (2 ^ 64 - 1) 0 0).1 ++ R, 2 ^ 64 - 1) := by
  have e0' : Rs.wadd 64 j (k + 3) = j + (k + 3) := i_add j (k + 3) hj
  have ec : j + (k + 3) - j = k + 3 := Nat.add_sub_cancel_left _ _
  have emid : ((P ++ M ++ R).drop j).take (k + 3) = M := mid_take P M R j (k + 3) hP hM
  have epre : (P ++ M ++ R).take j = P := take_pre P M R j hP
  have epost : (P ++ M ++ R).drop (j + (k + 3)) = R := drop_post P M R j (k + 3) hP hM
  have esub := submul_gen fuel M ds (2 ^ 64 - 1) (by rw [hM, hdl]) (by rw [hdl]; omega) (by rw [hdl]; omega) hA hds
    (by omega)
  simp only [govf, e0', ec, emid, epre, epost, esub]

/-- the add-back block -/
theorem fix_eq (fuel j k q : ℕ) (P M R ds : List ℕ) (hP : P.length = j) (hM : M.length = k + 3)
    (hdl : ds.length = k + 3) (hj : j + (k + 3) < 2 ^ 64) (hf : k + 3 < fuel)
    (hA : Ruint.AllLt M) (hds : Ruint.AllLt ds) :
    gfix fuel ds (k + 3) (P ++ M ++ R) j q true =
      ((q + 2 ^ 64 - 1) % 2 ^ 64, P ++ (adcN (2 ^ 64) M ds 0).1 ++ R) := by
  have e0' : Rs.wadd 64 j (k + 3) = j + (k + 3) := i_add j (k + 3) hj
  have ec : j + (k + 3) - j = k + 3 := Nat.add_sub_cancel_left _ _
  have emid : ((P ++ M ++ R).drop j).take (k + 3) = M := mid_take P M R j (k + 3) hP hM
  have epre : (P ++ M ++ R).take j = P := take_pre P M R j hP
  have epost : (P ++ M ++ R).drop (j + (k + 3)) = R := drop_post P M R j (k + 3) hP hM
  have etk : ds.take (k + 3) = ds := List.take_of_length_le (by omega)
  have eadc := adc_gen fuel M ds (by rw [hM, hdl]) (by rw [hM]; omega) (by rw [hM]; omega) hA hds
  simp only [gfix, if_true, e0', ec, emid, epre, epost, etk, eadc, Rs.wsub]

theorem fix_false (fuel n j q : ℕ) (A ds : List ℕ) : gfix fuel ds n A j q false = (q, A) := by
  simp only [gfix, Bool.false_eq_true, if_false]

theorem store_nil (j k q qh : ℕ) (P M : List ℕ) (hP : P.length = j) (hM : M.length = k + 3)
    (hj : j + (k + 3) < 2 ^ 64) : gstore (k + 3) (P ++ M ++ []) j q qh = (P ++ M ++ [], q) := by
  have e0' : Rs.wadd 64 j (k + 3) = j + (k + 3) := i_add j (k + 3) hj
  have hl := len3 P M [] j (k + 3) hP hM
  simp only [gstore, e0', hl, List.length_nil, Nat.add_zero, Nat.lt_irrefl, decide_false, Bool.false_eq_true, if_false]

theorem store_cons (j k q qh x : ℕ) (P M R : List ℕ) (hP : P.length = j) (hM : M.length = k + 3)
    (hj : j + (k + 3) < 2 ^ 64) : gstore (k + 3) (P ++ M ++ x :: R) j q qh = (P ++ M ++ q :: R, qh) := by
  have e0' : Rs.wadd 64 j (k + 3) = j + (k + 3) := i_add j (k + 3) hj
  have hl := len3 P M (x :: R) j (k + 3) hP hM
  have hlt : j + (k + 3) < j + (k + 3) + (x :: R).length := by simp
  have hset : (P ++ M ++ x :: R).set (j + (k + 3)) q = P ++ M ++ q :: R := by
    subst hP; rw [← hM, ← List.length_append, List.set_append_right _ _ (Nat.le_refl _), Nat.sub_self, List.set_cons_zero]
  simp only [gstore, e0', hl, hlt, decide_true, if_true, hset]

theorem two_pow_ne_one (sh : ℕ) (h : sh ≠ 0) : (2 : ℕ) ^ sh ≠ 1 := by
  have : 1 < 2 ^ sh := Nat.one_lt_two_pow h
  omega

/-- the quotient-digit block = the model step on the decomposed window -/
theorem digit_eq (fuel sh T U d v j k : ℕ) (P lo R dlo : List ℕ) (nm c0 c1 dm e0 e1 : ℕ)
    (hT : T = 2 ^ sh) (hU : U = 2 ^ (64 - sh)) (hsh : sh ≤ 63)
    (hP : P.length = j) (hlo : lo.length = k) (hdlo : dlo.length = k) (hj : j + (k + 3) < 2 ^ 64) (hf : k + 3 < fuel)
    (hlo4 : Ruint.AllLt lo) (hnm : nm < 2 ^ 64) (hc0 : c0 < 2 ^ 64) (hc1 : c1 < 2 ^ 64) (hc2 : R.getD 0 0 < 2 ^ 64)
    (hds : Ruint.AllLt (dlo ++ [dm, e0, e1]))
    (hd2 : d < 2 ^ 128) (hv : v < 2 ^ 64) (hvd : (2 ^ 64 + v) * d ≤ 2 ^ 192 - 1) :
    gdigit fuel (dlo ++ [dm, e0, e1]) (k + 3) d sh v (P ++ (lo ++ [nm, c0, c1]) ++ R) j =
      (P ++ (kstepD T U lo nm c0 c1 (R.getD 0 0) dlo dm e0 e1 d v).2 ++ R,
        (kstepD T U lo nm c0 c1 (R.getD 0 0) dlo dm e0 e1 d v).1) := by
  have hTU : T * U = 2 ^ 64 := by rw [hT, hU, ← pow_add]; congr 1; omega
  have hT0 : 0 < T := by rw [hT]; positivity
  have hU0 : 0 < U := by rw [hU]; positivity
  have hB : (0 : ℕ) < 2 ^ 64 := by positivity
  rw [kstepD_B (2 ^ 64) T U hTU]
  have hfe := fetch_eq sh T U j k P lo R nm c0 c1 hT hU hP hlo hj hsh hc2 hc1 hc0 hnm
  have hn0lt : (c0 * T) % 2 ^ 64 + nm / U < 2 ^ 64 := (Div.fused (2 ^ 64) T U c0 nm hTU.symm hT0 hU0 hnm).1
  have hWd : Ruint.AllLt (lo ++ [nm, c0, c1]) := allLt3 (2 ^ 64) lo nm c0 c1 hlo4 hnm hc0 hc1
  have hW1 : Ruint.AllLt (lo ++ [nm]) := allLt1 (2 ^ 64) lo nm hlo4 hnm
  have hdsL : Ruint.AllLt dlo := Ruint.AllLt.left hds
  have hdm : dm < 2 ^ 64 := hds dm (by simp)
  have hD1 : Ruint.AllLt (dlo ++ [dm]) := allLt1 (2 ^ 64) dlo dm hdsL hdm
  have hWl : (lo ++ [nm, c0, c1]).length = k + 3 := by simp [hlo]
  have hdl : (dlo ++ [dm, e0, e1]).length = k + 3 := by simp [hdlo]
  have hW1l : (lo ++ [nm]).length = (dlo ++ [dm]).length := by simp [hlo, hdlo]
  generalize hn21 : ((R.getD 0 0 * 2 ^ 64 + c1) * T) % (2 ^ 64 * 2 ^ 64) + c0 / U = n21 at hfe ⊢
  generalize hn0 : (c0 * T) % 2 ^ 64 + nm / U = n0 at hfe hn0lt ⊢
  by_cases h1 : n21 < d
  · rw [if_pos h1]
    have e3 : div_3x2_mg10 n21 n0 d v = div3x2 (2 ^ 64) n21 n0 d v := GenTie.gen_div_3x2_eq n21 n0 d v hd2 hv h1 hn0lt hvd
    have hs1 : (div3x2 (2 ^ 64) n21 n0 d v).1 < 2 ^ 64 := div3x2_fst_lt _ _ _ _ _ hB
    generalize div3x2 (2 ^ 64) n21 n0 d v = s at e3 hs1 ⊢
    by_cases h2 : s.1 = 0
    · rw [if_pos h2]
      simp only [gdigit, hfe, h1, decide_true, if_true, e3, h2, bne_self_eq_false, Bool.false_eq_true, if_false]
    · rw [if_neg h2]
      have hb : (s.1 != 0) = true := bne_iff_ne.mpr h2
      by_cases hs0 : sh = 0
      · have hT1 : T = 1 := by rw [hT, hs0]; rfl
        rw [if_pos hT1]
        have hbs : (sh == 0) = true := by simp [hs0]
        have es0 := sub0_eq fuel j k s.1 s.2 P lo R dlo nm c0 c1 dm e0 e1 hP hlo hdlo hj hf hW1 hD1 hs1
        obtain ⟨_, sm2, sm3⟩ := Div.submulNx1_spec (2 ^ 64) hB (lo ++ [nm]) (dlo ++ [dm]) s.1 0 0 hW1l hW1
        generalize submulNx1 (2 ^ 64) (lo ++ [nm]) (dlo ++ [dm]) s.1 0 0 = sm at es0 sm2 sm3 ⊢
        have hrr : (s.2 + 2 ^ 64 * 2 ^ 64 - sm.2) % (2 ^ 64 * 2 ^ 64) < 2 ^ 64 * 2 ^ 64 := Nat.mod_lt _ (by positivity)
        generalize (s.2 + 2 ^ 64 * 2 ^ 64 - sm.2) % (2 ^ 64 * 2 ^ 64) = rr at es0 hrr ⊢
        have hM : Ruint.AllLt (sm.1 ++ [rr % 2 ^ 64, rr / 2 ^ 64]) :=
          allLt2 (2 ^ 64) sm.1 _ _ sm3 (Nat.mod_lt _ hB) (Nat.div_lt_of_lt_mul hrr)
        have hMl : (sm.1 ++ [rr % 2 ^ 64, rr / 2 ^ 64]).length = k + 3 := by simp [sm2, hlo]
        by_cases h4 : s.2 < sm.2
        · rw [if_pos h4]
          have ef := fix_eq fuel j k s.1 P (sm.1 ++ [rr % 2 ^ 64, rr / 2 ^ 64]) R (dlo ++ [dm, e0, e1]) hP hMl hdl hj hf
            hM hds
          simp only [gdigit, hfe, h1, decide_true, if_true, e3, hb, hbs, es0, h4, ef]
        · rw [if_neg h4]
          simp only [gdigit, hfe, h1, decide_true, if_true, e3, hb, hbs, es0, h4, decide_false, fix_false]
      · have hT1 : ¬ T = 1 := by rw [hT]; exact two_pow_ne_one sh hs0
        rw [if_neg hT1]
        have hbs : (sh == 0) = false := by simp [hs0]
        have esS := subS_eq fuel j k s.1 P (lo ++ [nm, c0, c1]) R (dlo ++ [dm, e0, e1]) hP hWl hdl hj hf hWd hds hs1
        obtain ⟨_, sm2, sm3⟩ := Div.submulNx1_spec (2 ^ 64) hB (lo ++ [nm, c0, c1]) (dlo ++ [dm, e0, e1]) s.1 0 0
          (by rw [hWl, hdl]) hWd
        generalize submulNx1 (2 ^ 64) (lo ++ [nm, c0, c1]) (dlo ++ [dm, e0, e1]) s.1 0 0 = sm at esS sm2 sm3 ⊢
        by_cases h5 : sm.2 ≠ R.getD 0 0
        · rw [if_pos h5]
          have hb5 : (sm.2 != R.getD 0 0) = true := bne_iff_ne.mpr h5
          have ef := fix_eq fuel j k s.1 P sm.1 R (dlo ++ [dm, e0, e1]) hP (by rw [sm2, hWl]) hdl hj hf sm3 hds
          simp only [gdigit, hfe, h1, decide_true, if_true, e3, hb, hbs, Bool.false_eq_true, if_false, esS, hb5, ef]
        · rw [if_neg h5]
          have hb5 : (sm.2 != R.getD 0 0) = false := by rw [Classical.not_not.mp h5]; exact bne_self_eq_false _
          simp only [gdigit, hfe, h1, decide_true, if_true, e3, hb, hbs, Bool.false_eq_true, if_false, esS, hb5,
            fix_false]
  · rw [if_neg h1]
    have eo := ovf_eq fuel j k P (lo ++ [nm, c0, c1]) R (dlo ++ [dm, e0, e1]) hP hWl hdl hj hf hWd hds
    simp only [gdigit, hfe, h1, decide_false, Bool.false_eq_true, if_false, eo]

/-! ## the model's array step on the decomposed array -/

theorem take_left_k (P Q : List ℕ) (k : ℕ) (h : P.length = k) : (P ++ Q).take k = P := by
  subst h; exact List.take_left
theorem getD_app_k (P Q : List ℕ) (k i : ℕ) (h : P.length = k) : (P ++ Q).getD (k + i) 0 = Q.getD i 0 := by
  subst h; exact getD_app P Q i
theorem getD_app_k0 (P Q : List ℕ) (k : ℕ) (h : P.length = k) : (P ++ Q).getD k 0 = Q.getD 0 0 := by
  subst h; exact getD_app0 P Q

theorem kstepL_dec (T U d v k : ℕ) (lo dlo : List ℕ) (nm c0 c1 c2 dm e0 e1 : ℕ) (hlo : lo.length = k)
    (hdlo : dlo.length = k) :
    kstepL T U (lo ++ [nm, c0, c1] ++ [c2]) (dlo ++ [dm, e0, e1]) d v
      = kstepD T U lo nm c0 c1 c2 dlo dm e0 e1 d v := by
  have hk : (dlo ++ [dm, e0, e1]).length - 3 = k := by simp [hdlo]
  have e : lo ++ [nm, c0, c1] ++ [c2] = lo ++ [nm, c0, c1, c2] := by simp
  unfold kstepL
  simp only [hk, e, take_left_k lo _ k hlo, take_left_k dlo _ k hdlo, getD_app_k lo _ k _ hlo, getD_app_k0 lo _ k hlo,
    getD_app_k dlo _ k _ hdlo, getD_app_k0 dlo _ k hdlo, List.getD_cons_succ, List.getD_cons_zero]

theorem window_dec (P M R : List ℕ) (j n : ℕ) (hP : P.length = j) (hM : M.length = n) :
    window (P ++ M ++ R) j n = M ++ [R.getD 0 0] := by
  unfold window
  have hd : (P ++ M ++ R).drop j = M ++ R := by subst hP; rw [List.append_assoc, List.drop_left]
  simp only [hd]
  cases R with
  | nil =>
    have ht : (M ++ []).take (n + 1) = M := by
      rw [List.append_nil]; exact List.take_of_length_le (by omega)
    rw [ht, if_neg (by omega)]; rfl
  | cons x R' =>
    have ht : (M ++ x :: R').take (n + 1) = M ++ [x] := by
      have : M ++ x :: R' = (M ++ [x]) ++ R' := by simp
      rw [this]; exact take_left_k _ _ _ (by simp [hM])
    rw [ht, if_pos (by simp [hM])]; rfl

theorem arrStep_nil (T U d v j k qh : ℕ) (P lo dlo : List ℕ) (nm c0 c1 dm e0 e1 : ℕ) (hP : P.length = j)
    (hlo : lo.length = k) (hdlo : dlo.length = k) :
    arrStep T U (dlo ++ [dm, e0, e1]) d v (P ++ (lo ++ [nm, c0, c1]) ++ [], qh) j =
      (P ++ (kstepD T U lo nm c0 c1 0 dlo dm e0 e1 d v).2 ++ [], (kstepD T U lo nm c0 c1 0 dlo dm e0 e1 d v).1) := by
  have hWl : (lo ++ [nm, c0, c1]).length = k + 3 := by simp [hlo]
  have hdl : (dlo ++ [dm, e0, e1]).length = k + 3 := by simp [hdlo]
  have hw := window_dec P (lo ++ [nm, c0, c1]) [] j (k + 3) hP hWl
  have hl := len3 P (lo ++ [nm, c0, c1]) [] j (k + 3) hP hWl
  have hks := kstepL_dec T U d v k lo dlo nm c0 c1 0 dm e0 e1 hlo hdlo
  have hnl : ([] : List ℕ).getD 0 0 = 0 := rfl
  unfold arrStep
  simp only [hdl, hw, hl, hnl, hks, List.length_nil, Nat.add_zero, Nat.lt_irrefl, if_false,
    take_pre P _ [] j hP, drop_post P _ [] j (k + 3) hP hWl]

theorem arrStep_cons (T U d v j k qh x : ℕ) (P lo dlo R : List ℕ) (nm c0 c1 dm e0 e1 : ℕ) (hP : P.length = j)
    (hlo : lo.length = k) (hdlo : dlo.length = k) :
    arrStep T U (dlo ++ [dm, e0, e1]) d v (P ++ (lo ++ [nm, c0, c1]) ++ x :: R, qh) j =
      (P ++ (kstepD T U lo nm c0 c1 x dlo dm e0 e1 d v).2 ++ (kstepD T U lo nm c0 c1 x dlo dm e0 e1 d v).1 :: R, qh) := by
  have hWl : (lo ++ [nm, c0, c1]).length = k + 3 := by simp [hlo]
  have hdl : (dlo ++ [dm, e0, e1]).length = k + 3 := by simp [hdlo]
  have hw := window_dec P (lo ++ [nm, c0, c1]) (x :: R) j (k + 3) hP hWl
  have hl := len3 P (lo ++ [nm, c0, c1]) (x :: R) j (k + 3) hP hWl
  have hks := kstepL_dec T U d v k lo dlo nm c0 c1 x dm e0 e1 hlo hdlo
  have hnl : (x :: R).getD 0 0 = x := rfl
  have hlt : j + (k + 3) < j + (k + 3) + (x :: R).length := by simp
  have hdr : (P ++ (lo ++ [nm, c0, c1]) ++ x :: R).drop (j + (k + 3) + 1) = R := by
    have : P ++ (lo ++ [nm, c0, c1]) ++ x :: R = P ++ ((lo ++ [nm, c0, c1]) ++ [x]) ++ R := by simp
    rw [this, Nat.add_assoc]
    exact drop_post P _ R j (k + 3 + 1) hP (by simp [hlo])
  unfold arrStep
  simp only [hdl, hw, hl, hnl, hks, hlt, if_true, take_pre P _ (x :: R) j hP, hdr]
  simp only [List.append_assoc, List.singleton_append]

/-! ## one iteration: generated step = model `arrStep` -/

theorem decompose (A : List ℕ) (j k : ℕ) (h : j + (k + 3) ≤ A.length) :
    ∃ P lo R nm c0 c1, A = P ++ (lo ++ [nm, c0, c1]) ++ R ∧ P.length = j ∧ lo.length = k := by
  have hX : (A.drop j).length = A.length - j := List.length_drop
  have hM : ((A.drop j).take (k + 3)).length = k + 3 := by rw [List.length_take, hX]; omega
  have hd := KLoop.decomp3 _ k hM
  refine ⟨A.take j, ((A.drop j).take (k + 3)).take k, (A.drop j).drop (k + 3),
    ((A.drop j).take (k + 3)).getD k 0, ((A.drop j).take (k + 3)).getD (k + 1) 0,
    ((A.drop j).take (k + 3)).getD (k + 2) 0, ?_, ?_, ?_⟩
  · rw [← hd, List.append_assoc, List.take_append_drop, List.take_append_drop]
  · rw [List.length_take]; omega
  · rw [List.length_take, hM]; omega

theorem head_lt (R : List ℕ) (h : Ruint.AllLt R) : R.getD 0 0 < 2 ^ 64 := by
  cases R with
  | nil => exact (by positivity : (0 : ℕ) < 2 ^ 64)
  | cons x R' => exact h x (by simp)

theorem step_eq (fuel sh T U d v j : ℕ) (A ds : List ℕ) (qh : ℕ) (hT : T = 2 ^ sh) (hU : U = 2 ^ (64 - sh))
    (hsh : sh ≤ 63) (h3 : 3 ≤ ds.length) (hjn : j + ds.length ≤ A.length) (hL : A.length < 2 ^ 64)
    (hf : ds.length < fuel) (hA : Ruint.AllLt A) (hds : Ruint.AllLt ds) (hd2 : d < 2 ^ 128) (hv : v < 2 ^ 64)
    (hvd : (2 ^ 64 + v) * d ≤ 2 ^ 192 - 1) :
    div_nxm_step1 fuel ds ds.length d sh v 0 (j + 1, A, qh) = ((j, arrStep T U ds d v (A, qh) j), true) := by
  obtain ⟨k, hk⟩ : ∃ k, ds.length = k + 3 := ⟨ds.length - 3, by omega⟩
  have hdd := KLoop.decomp3 ds k hk
  have hdlo : (ds.take k).length = k := by rw [List.length_take]; omega
  generalize ds.take k = dlo at hdd hdlo
  generalize ds.getD k 0 = dm at hdd
  generalize ds.getD (k + 1) 0 = e0 at hdd
  generalize ds.getD (k + 2) 0 = e1 at hdd
  subst hdd
  rw [hk] at hjn hf ⊢
  obtain ⟨P, lo, R, nm, c0, c1, hAd, hP, hlo⟩ := decompose A j k hjn
  subst hAd
  have hj : j + (k + 3) < 2 ^ 64 := by omega
  have hlo4 : Ruint.AllLt lo := hA.left.right.left
  have hnm : nm < 2 ^ 64 := hA nm (by simp)
  have hc0 : c0 < 2 ^ 64 := hA c0 (by simp)
  have hc1 : c1 < 2 ^ 64 := hA c1 (by simp)
  have hc2 : R.getD 0 0 < 2 ^ 64 := head_lt R hA.right
  have hdig := digit_eq fuel sh T U d v j k P lo R dlo nm c0 c1 dm e0 e1 hT hU hsh hP hlo hdlo hj hf hlo4 hnm hc0 hc1 hc2
    hds hd2 hv hvd
  have hslen : (kstepD T U lo nm c0 c1 (R.getD 0 0) dlo dm e0 e1 d v).2.length = k + 3 := by
    rw [kstepD_len _ _ _ _ _ _ _ _ _ _ _ _ _ (by rw [hlo, hdlo]), hlo]
  have hpos : decide (j + 1 > 0) = true := by simp
  have hj1 : Rs.wsub 64 (j + 1) 1 = j := by rw [i_sub _ 1 (by omega) (by omega)]; omega
  rw [step_unfold]
  simp only [hpos, if_true, hj1, hdig]
  cases R with
  | nil =>
    have hnl : ([] : List ℕ).getD 0 0 = 0 := rfl
    rw [hnl] at hslen
    simp only [hnl, store_nil j k _ qh P _ hP hslen hj, arrStep_nil T U d v j k qh P lo dlo nm c0 c1 dm e0 e1 hP hlo hdlo]
  | cons x R' =>
    have hnl : (x :: R').getD 0 0 = x := rfl
    rw [hnl] at hslen
    simp only [hnl, store_cons j k _ qh x P _ R' hP hslen hj,
      arrStep_cons T U d v j k qh x P lo dlo R' nm c0 c1 dm e0 e1 hP hlo hdlo]

/-- the array keeps its length and its limbs stay words -/
theorem arrStep_inv (T U d v j qh : ℕ) (A ds : List ℕ) (hTU : T * U = 2 ^ 64) (h3 : 3 ≤ ds.length)
    (hjn : j + ds.length ≤ A.length) (hA : Ruint.AllLt A) :
    (arrStep T U ds d v (A, qh) j).1.length = A.length ∧ Ruint.AllLt (arrStep T U ds d v (A, qh) j).1 := by
  obtain ⟨k, hk⟩ : ∃ k, ds.length = k + 3 := ⟨ds.length - 3, by omega⟩
  have hdd := KLoop.decomp3 ds k hk
  have hdlo : (ds.take k).length = k := by rw [List.length_take]; omega
  generalize ds.take k = dlo at hdd hdlo
  generalize ds.getD k 0 = dm at hdd
  generalize ds.getD (k + 1) 0 = e0 at hdd
  generalize ds.getD (k + 2) 0 = e1 at hdd
  subst hdd
  rw [hk] at hjn
  obtain ⟨P, lo, R, nm, c0, c1, hAd, hP, hlo⟩ := decompose A j k hjn
  subst hAd
  have hB : (0 : ℕ) < 2 ^ 64 := by positivity
  have hlo4 : Ruint.AllLt lo := hA.left.right.left
  have hnm : nm < 2 ^ 64 := hA nm (by simp)
  have hc0 : c0 < 2 ^ 64 := hA c0 (by simp)
  have hc1 : c1 < 2 ^ 64 := hA c1 (by simp)
  have hPall : Ruint.AllLt P := hA.left.left
  have hWl : (lo ++ [nm, c0, c1]).length = k + 3 := by simp [hlo]
  have hlen : ∀ c2, (kstepD T U lo nm c0 c1 c2 dlo dm e0 e1 d v).2.length = k + 3 := by
    intro c2; rw [kstepD_len _ _ _ _ _ _ _ _ _ _ _ _ _ (by rw [hlo, hdlo]), hlo]
  have hlt := fun c2 => kstepD_lt (2 ^ 64) T U hTU hB lo nm c0 c1 c2 dlo dm e0 e1 d v hlo4 hnm hc0 hc1 (by rw [hlo, hdlo])
  cases R with
  | nil =>
    rw [arrStep_nil T U d v j k qh P lo dlo nm c0 c1 dm e0 e1 hP hlo hdlo]
    refine ⟨?_, ?_⟩
    · simp only [List.append_nil, List.length_append, hlen 0, hWl]
    · exact Ruint.AllLt.append (Ruint.AllLt.append hPall (hlt 0).1) Ruint.AllLt.nil
  | cons x R' =>
    rw [arrStep_cons T U d v j k qh x P lo dlo R' nm c0 c1 dm e0 e1 hP hlo hdlo]
    refine ⟨?_, ?_⟩
    · simp only [List.length_append, List.length_cons, hlen x, hWl]
    · exact Ruint.AllLt.append (Ruint.AllLt.append hPall (hlt x).1) (Ruint.AllLt.cons (hlt x).2 hA.right.tail)

theorem arrLoop_len (T U d v : ℕ) (ds : List ℕ) (hTU : T * U = 2 ^ 64) (h3 : 3 ≤ ds.length) :
    ∀ (j : ℕ) (st : List ℕ × ℕ), j + ds.length ≤ st.1.length + 1 → Ruint.AllLt st.1 →
      (arrLoop T U ds d v j st).1.length = st.1.length := by
  intro j
  induction j with
  | zero => intro st _ _; rfl
  | succ j ih =>
    intro st hj hA
    obtain ⟨i1, i2⟩ := arrStep_inv T U d v j st.2 st.1 ds hTU h3 (by omega) hA
    simp only [arrLoop]
    rw [ih _ (by rw [i1]; omega) i2, i1]

/-! ## the loop -/

theorem loop_eq (fuel sh T U d v : ℕ) (ds : List ℕ) (hT : T = 2 ^ sh) (hU : U = 2 ^ (64 - sh)) (hsh : sh ≤ 63)
    (h3 : 3 ≤ ds.length) (hf : ds.length < fuel) (hds : Ruint.AllLt ds) (hd2 : d < 2 ^ 128) (hv : v < 2 ^ 64)
    (hvd : (2 ^ 64 + v) * d ≤ 2 ^ 192 - 1) :
    ∀ (j : ℕ) (st : List ℕ × ℕ) (f : ℕ), j + ds.length ≤ st.1.length + 1 → st.1.length < 2 ^ 64 → Ruint.AllLt st.1 →
      j < f →
      Rs.loop (div_nxm_step1 fuel ds ds.length d sh v 0) f (j, st) = (0, arrLoop T U ds d v j st) := by
  have hTU : T * U = 2 ^ 64 := by rw [hT, hU, ← pow_add]; congr 1; omega
  intro j
  induction j with
  | zero =>
    intro st f _ _ _ hjf
    obtain ⟨f, rfl⟩ : ∃ g, f = g + 1 := ⟨f - 1, by omega⟩
    rw [Ruint.GenLehmer.loop_succ, step_unfold]
    simp [arrLoop]
  | succ j ih =>
    intro st f hj hL hA hjf
    obtain ⟨f, rfl⟩ : ∃ g, f = g + 1 := ⟨f - 1, by omega⟩
    have hs := step_eq fuel sh T U d v j st.1 ds st.2 hT hU hsh h3 (by omega) hL hf hA hds hd2 hv hvd
    obtain ⟨i1, i2⟩ := arrStep_inv T U d v j st.2 st.1 ds hTU h3 (by omega) hA
    rw [Ruint.GenLehmer.loop_succ, hs]
    simp only [if_true]
    rw [ih _ f (by rw [i1]; omega) (by rw [i1]; exact hL) i2 (by omega)]
    rfl

/-! ## prologue and epilogue -/

theorem epilogue (A : List ℕ) (n m qh : ℕ) (hA : A.length = m + n) (hn : 1 ≤ n) :
    ((A.drop n ++ A.drop (A.length - n)).set m qh).take (m + 1) ++
        List.replicate (((A.drop n ++ A.drop (A.length - n)).set m qh).drop (m + 1)).length 0
      = A.drop n ++ [qh] ++ List.replicate (n - 1) 0 := by
  have hX : (A.drop n).length = m := by rw [List.length_drop]; omega
  have hY : (A.drop (A.length - n)).length = n := by rw [List.length_drop]; omega
  generalize A.drop n = X at hX
  generalize A.drop (A.length - n) = Y at hY
  cases Y with
  | nil => simp at hY; omega
  | cons y Y' =>
    simp only [List.length_cons] at hY
    have e1 : (X ++ y :: Y').set m qh = (X ++ [qh]) ++ Y' := by
      subst hX; rw [List.set_append_right _ _ (Nat.le_refl _), Nat.sub_self, List.set_cons_zero]; simp
    have hl : (X ++ [qh]).length = m + 1 := by simp [hX]
    rw [e1, take_left_k _ _ _ hl, ← hl, List.drop_left]
    congr 2; omega

theorem high_join (a b : ℕ) (ha : a < 2 ^ 64) (hb : b < 2 ^ 64) : dw_high (a * 2 ^ 64 + b) = a := by
  unfold dw_high
  rw [Nat.mul_comm, Nat.mul_add_div (by positivity), Nat.div_eq_of_lt hb, Nat.add_zero, Nat.mod_eq_of_lt ha]

/-- the normalised divisor double word, both shift arms -/
theorem d_word (sh top e0 dm : ℕ) (hsh : sh ≤ 63) (htop : top < 2 ^ 64) (he0 : e0 < 2 ^ 64) (hdm : dm < 2 ^ 64)
    (hd : (top * 2 ^ 64 + e0) * 2 ^ sh + dm / 2 ^ (64 - sh) < 2 ^ 128) :
    (if (sh == 0) then dw_join top e0
      else ((Rs.wshl 128 (dw_join top e0) sh) ||| (dm / 2 ^ (Rs.wsub 32 64 sh))))
      = (top * 2 ^ 64 + e0) * 2 ^ sh + dm / 2 ^ (64 - sh) := by
  rw [GenLoops.join_eq top e0 htop he0]
  by_cases h0 : sh = 0
  · subst h0
    have e1 : dm / 2 ^ 64 = 0 := Nat.div_eq_of_lt hdm
    simp only [beq_self_eq_true, if_true, pow_zero, Nat.mul_one, Nat.sub_zero, e1, Nat.add_zero]
  · have hb : (sh == 0) = false := by simp [h0]
    simp only [hb, Bool.false_eq_true, if_false]
    rw [wsub32 sh (by omega), shl_or 128 sh _ _ (by omega) (shr_lt dm sh hdm (by omega)),
      Nat.mod_eq_of_lt (Nat.lt_of_le_of_lt (Nat.le_add_right _ _) hd)]

/-! ## the tie -/

/-- **`div_nxm` as generated from `src/algorithms/div/knuth.rs`** equals the array model on its documented domain
    (word limbs, at least three divisor limbs, non-zero top divisor limb, numerator at least as long). -/
theorem div_nxm_eq (num ds : List ℕ) (hn : Ruint.AllLt num) (hd : Ruint.AllLt ds) (h3 : 3 ≤ ds.length)
    (hlen : ds.length ≤ num.length) (htop : 0 < ds.getD (ds.length - 1) 0) (h64 : num.length < 2 ^ 64)
    (f : ℕ) (hf : num.length + 1 < f) :
    Ruint.Gen.div_nxm f num ds = Ruint.Div.divNxm num ds := by
  have htl := KFull.getD_lt ds (ds.length - 1) hd (by omega)
  have he0 := KFull.getD_lt ds (ds.length - 2) hd (by omega)
  have hdm := KFull.getD_lt ds (ds.length - 3) hd (by omega)
  obtain ⟨nf0, nf1, nf2, nf3⟩ := KNorm.norm_facts _ htop htl
  have e_m : Rs.wsub 64 num.length ds.length = num.length - ds.length := i_sub _ _ hlen h64
  have e_1 : Rs.wsub 64 ds.length 1 = ds.length - 1 := i_sub _ _ (by omega) (by omega)
  have e_2 : Rs.wsub 64 ds.length 2 = ds.length - 2 := i_sub _ _ (by omega) (by omega)
  have e_3 : Rs.wsub 64 ds.length 3 = ds.length - 3 := i_sub _ _ (by omega) (by omega)
  have e_j : Rs.wadd 64 (num.length - ds.length) 1 = num.length - ds.length + 1 := i_add _ _ (by omega)
  have e_lz : lz (ds.getD (ds.length - 1) 0) = 63 - Nat.log2 (ds.getD (ds.length - 1) 0) := rfl
  have hsh : lz (ds.getD (ds.length - 1) 0) ≤ 63 := by rw [e_lz]; omega
  rw [← e_lz] at nf1 nf2 nf3
  generalize htopd : ds.getD (ds.length - 1) 0 = top at htl htop nf1 nf2 nf3 hsh
  generalize he0d : ds.getD (ds.length - 2) 0 = e0 at he0
  generalize hdmd : ds.getD (ds.length - 3) 0 = dm at hdm
  have hT0 : 0 < 2 ^ lz top := by positivity
  have hU0 : 0 < 2 ^ (64 - lz top) := by positivity
  obtain ⟨hd1, hd2⟩ := KFull.d_range top e0 dm (2 ^ lz top) (2 ^ (64 - lz top)) nf3 hT0 hU0 nf1 nf2 he0 hdm
  have e_high : dw_high (dw_join top e0) = top := by rw [GenLoops.join_eq top e0 htl he0]; exact high_join top e0 htl he0
  have e_clz : Rs.clz 64 top = lz top := clz_lz top htop
  have e_d := d_word (lz top) top e0 dm hsh htl he0 hdm hd2
  generalize hD : (top * 2 ^ 64 + e0) * 2 ^ lz top + dm / 2 ^ (64 - lz top) = D at hd1 hd2 e_d
  have e_v : reciprocal_2_mg10 D = reciprocal2 D := GenTie.gen_reciprocal_2_eq D hd1 hd2
  have hvf := GenTie.recip2Spec_facts D hd1 hd2
  rw [← reciprocal2_eq D hd1 hd2] at hvf
  have e_loop := loop_eq f (lz top) (2 ^ lz top) (2 ^ (64 - lz top)) D (reciprocal2 D) ds rfl rfl hsh h3 (by omega) hd
    hd2 hvf.1 hvf.2 (num.length - ds.length + 1) (num, 0) f (by simp only []; omega) h64 hn (by omega)
  have hlenA := arrLoop_len (2 ^ lz top) (2 ^ (64 - lz top)) D (reciprocal2 D) ds nf3 h3 (num.length - ds.length + 1)
    (num, 0) (by simp only []; omega) hn
  simp only [div_nxm, divNxm, divNxmArr, e_m, e_1, e_2, e_3, e_j, htopd, he0d, hdmd, e_high, e_clz, e_d, hD, e_v,
    e_loop]
  generalize arrLoop (2 ^ lz top) (2 ^ (64 - lz top)) ds D (reciprocal2 D) (num.length - ds.length + 1) (num, 0) = st
    at hlenA ⊢
  simp only [] at hlenA
  rw [epilogue st.1 ds.length (num.length - ds.length) st.2 (by rw [hlenA]; omega) (by omega)]

end Ruint.Div.GenKnuth
