import Ruint.Lemmas.Div.Dispatch
import Ruint.Lemmas.Div.GenLoops
import Ruint.Gen.WordsKnuth

/-! `algorithms::div` as GENERATED from `src/algorithms/div/mod.rs` (trim the operands with `rposition`, panic on
    a zero divisor, trivial arms, dispatch to `div_nx1` / `div_nx2` / `div_nxm`) equals the model `Ruint.Div.div`,
    given that the three generated callees equal their models (hypotheses `H1 H2 H3`, proved elsewhere). -/
set_option autoImplicit false
namespace Ruint.Div.GenDispatch
open Ruint (W)

/-- `rposition (· != 0)` finds nothing: the trimmed list is empty -/
theorem rpos_none (l : List ℕ) (h : Rs.rposition (fun x => x != 0) l = none) : Ruint.Div.trim l = [] := by
  induction l with
  | nil => rfl
  | cons x xs ih =>
    unfold Rs.rposition at h
    cases hr : Rs.rposition (fun x => x != 0) xs with
    | some j => rw [hr] at h; simp at h
    | none =>
      rw [hr] at h
      have hx : x = 0 := by
        by_contra hx
        simp [hx] at h
      unfold Ruint.Div.trim
      rw [ih hr]
      simp [hx]

/-- `rposition (· != 0) = some i`: the trimmed list is `l[..=i]` -/
theorem rpos_some (l : List ℕ) (i : ℕ) (h : Rs.rposition (fun x => x != 0) l = some i) :
    i < l.length ∧ Ruint.Div.trim l = l.take (i + 1) := by
  induction l generalizing i with
  | nil => simp [Rs.rposition] at h
  | cons x xs ih =>
    unfold Rs.rposition at h
    cases hr : Rs.rposition (fun x => x != 0) xs with
    | some j =>
      rw [hr] at h
      simp only [Option.some.injEq] at h
      obtain ⟨h1, h2⟩ := ih j hr
      subst h
      refine ⟨by simp only [List.length_cons]; omega, ?_⟩
      unfold Ruint.Div.trim
      rw [h2]
      cases xs with
      | nil => simp at h1
      | cons y ys => simp
    | none =>
      rw [hr] at h
      have hx : x ≠ 0 := by
        intro hx
        simp [hx] at h
      have hi : i = 0 := by
        simp [hx] at h
        omega
      subst hi
      refine ⟨by simp, ?_⟩
      unfold Ruint.Div.trim
      rw [rpos_none xs hr]
      simp [hx]

/-- the facts about a successful `rposition` used by the dispatcher -/
theorem rpos_facts (l : List ℕ) (i : ℕ) (hl : l.length < 2 ^ 64)
    (h : Rs.rposition (fun x => x != 0) l = some i) :
    Rs.wadd 64 i 1 = (Ruint.Div.trim l).length ∧ l.take (Ruint.Div.trim l).length = Ruint.Div.trim l
      ∧ Ruint.Div.trim l ≠ [] := by
  obtain ⟨h1, h2⟩ := rpos_some l i h
  have hlen : (Ruint.Div.trim l).length = i + 1 := by
    rw [h2, List.length_take]; omega
  refine ⟨?_, ?_, ?_⟩
  · rw [hlen]; unfold Rs.wadd; omega
  · rw [hlen, ← h2]
  · intro e; rw [e] at hlen; simp at hlen

theorem dw_low_eq (x : ℕ) : Ruint.Gen.dw_low x = x % W := rfl

theorem dw_high_eq (x : ℕ) (h : x < W * W) : Ruint.Gen.dw_high x = x / W := by
  unfold Ruint.Gen.dw_high
  have hW : W = 2 ^ 64 := rfl
  rw [← hW]
  exact Nat.mod_eq_of_lt (Nat.div_lt_of_lt_mul h)

/-- the arms after trimming: `nt`, `dt` the trimmed operands, `zn`, `zd` the limbs cut off -/
theorem arms_eq
    (H1 : ∀ (limbs : List ℕ) (divisor : ℕ), Ruint.AllLt limbs → limbs ≠ [] → 0 < divisor → divisor < 2 ^ 64 →
        limbs.length < 2 ^ 64 → ∀ f : ℕ, limbs.length < f → Ruint.Gen.div_nx1 f limbs divisor = Ruint.Div.divNx1 limbs divisor)
    (H2 : ∀ (limbs : List ℕ) (divisor : ℕ), Ruint.AllLt limbs → limbs ≠ [] → 2 ^ 64 ≤ divisor → divisor < 2 ^ 128 →
        limbs.length < 2 ^ 64 → ∀ f : ℕ, limbs.length < f → Ruint.Gen.div_nx2 f limbs divisor = Ruint.Div.divNx2 limbs divisor)
    (H3 : ∀ (num ds : List ℕ), Ruint.AllLt num → Ruint.AllLt ds → 3 ≤ ds.length → ds.length ≤ num.length →
        0 < ds.getD (ds.length - 1) 0 → num.length < 2 ^ 64 → ∀ f : ℕ, num.length + 1 < f →
        Ruint.Gen.div_nxm f num ds = Ruint.Div.divNxm num ds)
    (nt dt zn zd : List ℕ) (n4 : Ruint.AllLt nt) (d4 : Ruint.AllLt dt) (hnne : nt ≠ []) (hdne : dt ≠ [])
    (dtop : 1 ≤ dt.getD (dt.length - 1) 0) (hge : dt.length ≤ nt.length) (h64 : nt.length < 2 ^ 64)
    (f : ℕ) (hf : nt.length + 1 < f) :
    (if (decide ((dt).length ≤ 2)) then (
      (if ((dt).length == 1) then (
        (if ((nt).length == 1) then (
          (some (((nt.set 0 ((nt.getD 0 0) / (dt.getD 0 0))) ++ zn), ((dt.set 0 ((nt.getD 0 0) % (dt.getD 0 0))) ++ zd))))
        else (
          (some (((Ruint.Gen.div_nx1 f nt (dt.getD 0 0)).1 ++ zn),
            ((dt.set 0 (Ruint.Gen.div_nx1 f nt (dt.getD 0 0)).2) ++ zd))))))
      else (
        (some (((Ruint.Gen.div_nx2 f nt (Ruint.Gen.dw_join (dt.getD 1 0) (dt.getD 0 0))).1 ++ zn),
          (((dt.set 0 (Ruint.Gen.dw_low (Ruint.Gen.div_nx2 f nt (Ruint.Gen.dw_join (dt.getD 1 0) (dt.getD 0 0))).2)).set 1
            (Ruint.Gen.dw_high (Ruint.Gen.div_nx2 f nt (Ruint.Gen.dw_join (dt.getD 1 0) (dt.getD 0 0))).2)) ++ zd))))))
    else (
      (some (((Ruint.Gen.div_nxm f nt dt).1 ++ zn), ((Ruint.Gen.div_nxm f nt dt).2 ++ zd)))))
    = some ((Ruint.Div.divDispatch nt dt).1 ++ zn, (Ruint.Div.divDispatch nt dt).2 ++ zd) := by
  have hW : W = 2 ^ 64 := rfl
  have hnl : 1 ≤ nt.length := by
    cases nt with
    | nil => exact absurd rfl hnne
    | cons _ _ => simp
  unfold Ruint.Div.divDispatch
  simp only [decide_eq_true_eq, beq_iff_eq]
  by_cases h2 : dt.length ≤ 2
  · rw [if_pos h2, if_pos h2]
    by_cases h1 : dt.length = 1
    · rw [if_pos h1, if_pos h1]
      obtain ⟨b, hb⟩ := Ruint.Div.len1 dt h1
      subst hb
      have hbW : b < W := d4 b (by simp)
      have hb1 : 1 ≤ b := by simpa using dtop
      by_cases hn1 : nt.length = 1
      · rw [if_pos hn1, if_pos hn1]
        obtain ⟨a, ha⟩ := Ruint.Div.len1 nt hn1
        subst ha
        simp
      · rw [if_neg hn1, if_neg hn1]
        have hg : [b].getD 0 0 = b := rfl
        rw [hg, H1 nt b n4 hnne (by omega) (by rw [← hW]; exact hbW) h64 f (by omega)]
        simp
    · rw [if_neg h1, if_neg h1]
      have hl2 : dt.length = 2 := by
        have : 1 ≤ dt.length := by
          cases dt with
          | nil => exact absurd rfl hdne
          | cons _ _ => simp
        omega
      obtain ⟨b0, b1, hb⟩ := Ruint.Div.len2 dt hl2
      subst hb
      have hb0W : b0 < W := d4 b0 (by simp)
      have hb1W : b1 < W := d4 b1 (by simp)
      have hb1 : 1 ≤ b1 := by simpa using dtop
      have hg0 : [b0, b1].getD 0 0 = b0 := rfl
      have hg1 : [b0, b1].getD 1 0 = b1 := rfl
      rw [hg0, hg1, Ruint.Div.GenLoops.join_eq b1 b0 (by rw [← hW]; exact hb1W) (by rw [← hW]; exact hb0W), ← hW]
      obtain ⟨dv, hdv⟩ : ∃ dv, dv = b1 * W + b0 := ⟨_, rfl⟩
      rw [← hdv]
      have hdlo : 2 ^ 64 ≤ dv := by rw [hdv, hW]; nlinarith
      have hdhi : dv < 2 ^ 128 := by
        have : (2 : ℕ) ^ 128 = 2 ^ 64 * 2 ^ 64 := by norm_num
        rw [hdv]; rw [hW] at hb0W hb1W ⊢; nlinarith
      rw [H2 nt dv n4 hnne hdlo hdhi h64 f (by omega)]
      obtain ⟨_, k2, _, _⟩ := Ruint.Div.divNx2_spec nt dv n4 hdlo hdhi
      obtain ⟨r, hr⟩ : ∃ r, r = (Ruint.Div.divNx2 nt dv).2 := ⟨_, rfl⟩
      rw [← hr] at k2 ⊢
      have hrlt : r < W * W := by
        rw [k2]
        have : Ruint.val nt % dv < dv := Nat.mod_lt _ (by omega)
        have : W * W = 2 ^ 128 := by rw [hW]; norm_num
        omega
      rw [dw_low_eq, dw_high_eq r hrlt]
      simp
  · rw [if_neg h2, if_neg h2]
    rw [H3 nt dt n4 d4 (by omega) hge (by omega) h64 f hf]

theorem div_eq_of
    (H1 : ∀ (limbs : List ℕ) (divisor : ℕ), Ruint.AllLt limbs → limbs ≠ [] → 0 < divisor → divisor < 2 ^ 64 →
        limbs.length < 2 ^ 64 → ∀ f : ℕ, limbs.length < f → Ruint.Gen.div_nx1 f limbs divisor = Ruint.Div.divNx1 limbs divisor)
    (H2 : ∀ (limbs : List ℕ) (divisor : ℕ), Ruint.AllLt limbs → limbs ≠ [] → 2 ^ 64 ≤ divisor → divisor < 2 ^ 128 →
        limbs.length < 2 ^ 64 → ∀ f : ℕ, limbs.length < f → Ruint.Gen.div_nx2 f limbs divisor = Ruint.Div.divNx2 limbs divisor)
    (H3 : ∀ (num ds : List ℕ), Ruint.AllLt num → Ruint.AllLt ds → 3 ≤ ds.length → ds.length ≤ num.length →
        0 < ds.getD (ds.length - 1) 0 → num.length < 2 ^ 64 → ∀ f : ℕ, num.length + 1 < f →
        Ruint.Gen.div_nxm f num ds = Ruint.Div.divNxm num ds)
    (num ds : List ℕ) (hn : Ruint.AllLt num) (hd : Ruint.AllLt ds) (h64 : num.length < 2 ^ 64) (hd64 : ds.length < 2 ^ 64)
    (f : ℕ) (hf : num.length + 1 < f) :
    Ruint.Gen.div f num ds = Ruint.Div.div num ds := by
  unfold Ruint.Gen.div Ruint.Div.div
  simp only [List.append_nil]
  cases hrd : Rs.rposition (fun x => x != 0) ds with
  | none =>
    rw [rpos_none ds hrd]
    rfl
  | some i =>
    obtain ⟨dw, dtk, dne⟩ := rpos_facts ds i hd64 hrd
    obtain ⟨_, _, _, d4, _, d6, _, d8⟩ := Ruint.Div.trim_facts ds hd
    obtain ⟨dtop, _⟩ := d8 dne
    simp only []
    rw [dw, dtk]
    obtain ⟨dt, hdt⟩ : ∃ dt, dt = Ruint.Div.trim ds := ⟨_, rfl⟩
    rw [← hdt] at dne d4 d6 dtop ⊢
    have hde : ¬ (dt.isEmpty = true) := by
      intro h; exact dne (List.isEmpty_iff.mp h)
    rw [if_neg hde]
    cases hrn : Rs.rposition (fun x => x != 0) num with
    | none =>
      rw [rpos_none num hrn]
      simp
    | some j =>
      obtain ⟨nw, ntk, nne⟩ := rpos_facts num j h64 hrn
      obtain ⟨_, _, _, n4, _, n6, _, _⟩ := Ruint.Div.trim_facts num hn
      simp only []
      rw [nw, ntk]
      obtain ⟨nt, hnt⟩ : ∃ nt, nt = Ruint.Div.trim num := ⟨_, rfl⟩
      rw [← hnt] at nne n4 n6 ⊢
      have hne' : ¬ (nt.isEmpty = true) := by
        intro h; exact nne (List.isEmpty_iff.mp h)
      rw [if_neg hne']
      by_cases hshort : nt.length < dt.length
      · rw [if_pos hshort, if_pos (by simpa using hshort)]
        simp
      · rw [if_neg hshort, if_neg (by simpa using hshort)]
        exact arms_eq H1 H2 H3 nt dt _ _ n4 d4 nne dne dtop (by omega) (by omega) f (by omega)

end Ruint.Div.GenDispatch
