import Ruint.Lemmas.Div.Norm
import Ruint.Lemmas.Div.Recip
import Ruint.Lemmas.Div.Recip2

/-! End of the chain for `div_nxm` with 64-bit limbs: the reciprocal is the one the code computes
    (`reciprocal_2` built on `reciprocal`, both as modelled from the Rust source), no oracle left. -/
namespace Ruint.Div.KFull
open KStep KLoop KArr KNorm


theorem recip2Code_spec (d : ℕ) (h1 : 2 ^ 127 ≤ d) (h2 : d < 2 ^ 128) : recip2Code d = recip2Spec (2 ^ 64) d := by
  have hhi1 : 2 ^ 63 ≤ d / 2 ^ 64 := by
    rw [Nat.le_div_iff_mul_le (by positivity)]
    calc 2 ^ 63 * 2 ^ 64 = 2 ^ 127 := by norm_num
      _ ≤ d := h1
  have hhi2 : d / 2 ^ 64 < 2 ^ 64 := by
    apply Nat.div_lt_of_lt_mul
    calc d < 2 ^ 128 := h2
      _ = 2 ^ 64 * 2 ^ 64 := by norm_num
  have e1 : Recip.recipModel (d / 2 ^ 64) = R2.recipSpec (2 ^ 64) (d / 2 ^ 64) := by
    rw [Recip.recip_spec _ hhi1 hhi2]
    unfold Recip.recipSpec R2.recipSpec Recip.M
    rfl
  have e2 := R2.recip2_spec (2 ^ 64) d (by norm_num)
    (by calc d < 2 ^ 128 := h2
          _ = 2 ^ 64 * 2 ^ 64 := by norm_num)
    (by omega)
  unfold recip2Code
  simp only []
  rw [e1]
  unfold R2.recip2 at e2
  simp only [] at e2
  rw [e2]
  unfold R2.recip2Spec recip2Spec
  rfl

/-- the normalised double word `d` the prologue computes lies in `[2^127, 2^128)`. -/
theorem d_range (e1 e0 dm T U : ℕ) (hTU : T * U = 2 ^ 64) (hT0 : 0 < T) (hU0 : 0 < U)
    (n1 : 2 ^ 64 ≤ 2 * (e1 * T)) (n2 : e1 * T < 2 ^ 64) (he0 : e0 < 2 ^ 64) (hdm : dm < 2 ^ 64) :
    2 ^ 127 ≤ (e1 * 2 ^ 64 + e0) * T + dm / U ∧ (e1 * 2 ^ 64 + e0) * T + dm / U < 2 ^ 128 := by
  obtain ⟨W, hW⟩ : ∃ W, W = 2 ^ 64 := ⟨_, rfl⟩
  have h127 : (2 : ℕ) ^ 127 = 2 ^ 63 * W := by rw [hW]; norm_num
  have h128 : (2 : ℕ) ^ 128 = W * W := by rw [hW]; norm_num
  have h64 : W = 2 * 2 ^ 63 := by rw [hW]; norm_num
  rw [← hW] at hTU n1 n2 he0 hdm ⊢
  rw [h127, h128]
  have e : (e1 * W + e0) * T = e1 * T * W + e0 * T := by ring
  rw [e]
  have hdmU : dm / U < T := by
    apply Nat.div_lt_of_lt_mul; rw [Nat.mul_comm, hTU]; exact hdm
  obtain ⟨z, hz⟩ : ∃ z, z = dm / U := ⟨_, rfl⟩
  rw [← hz] at hdmU ⊢
  constructor
  · have : 2 ^ 63 ≤ e1 * T := by omega
    have h2 : 2 ^ 63 * W ≤ e1 * T * W := Nat.mul_le_mul_right _ this
    omega
  · have he1U : (e1 + 1) * T ≤ W := by
      have : e1 < U := by
        by_contra hc; push Not at hc
        have : U * T ≤ e1 * T := Nat.mul_le_mul_right _ hc
        rw [Nat.mul_comm U T, hTU] at this; omega
      have : (e1 + 1) * T ≤ U * T := Nat.mul_le_mul_right _ this
      rw [Nat.mul_comm U T, hTU] at this; exact this
    have h1 : e0 * T + T ≤ W * T := by
      have : (e0 + 1) * T ≤ W * T := Nat.mul_le_mul_right _ he0
      linarith [this]
    have h2 : (e1 + 1) * T * W ≤ W * W := Nat.mul_le_mul_right _ he1U
    have e2 : (e1 + 1) * T * W = e1 * T * W + W * T := by ring
    omega

theorem getD_lt (ds : List ℕ) (i : ℕ) (hds : AllLt (2 ^ 64) ds) (hi : i < ds.length) : ds.getD i 0 < 2 ^ 64 := by
  apply hds
  simp only [List.getD_eq_getElem?_getD, List.getElem?_eq_getElem hi, Option.getD_some]
  exact List.getElem_mem hi

/-- `div_nxm` (64-bit limbs) under exactly its documented conditions of use; `sh`, `T`, `U`, `d`
    are what the prologue computes, the reciprocal is the code's own. -/
theorem div_nxm_full (num ds : List ℕ)
    (hnum : AllLt (2 ^ 64) num) (hds : AllLt (2 ^ 64) ds) (h3 : 3 ≤ ds.length) (hlen : ds.length ≤ num.length)
    (htop : 1 ≤ ds.getD (ds.length - 1) 0)
    (sh T U d : ℕ) (hsh : sh = 63 - Nat.log2 (ds.getD (ds.length - 1) 0))
    (hT : T = 2 ^ sh) (hU : U = 2 ^ (64 - sh))
    (hd : d = (ds.getD (ds.length - 1) 0 * 2 ^ 64 + ds.getD (ds.length - 2) 0) * T + ds.getD (ds.length - 3) 0 / U) :
    val (2 ^ 64) num = val (2 ^ 64) (divNxmArr T U num ds d (recip2Code d)).1 * val (2 ^ 64) ds
        + val (2 ^ 64) (divNxmArr T U num ds d (recip2Code d)).2
    ∧ val (2 ^ 64) (divNxmArr T U num ds d (recip2Code d)).2 < val (2 ^ 64) ds
    ∧ (divNxmArr T U num ds d (recip2Code d)).1.length = num.length
    ∧ (divNxmArr T U num ds d (recip2Code d)).2.length = ds.length
    ∧ AllLt (2 ^ 64) (divNxmArr T U num ds d (recip2Code d)).1
    ∧ AllLt (2 ^ 64) (divNxmArr T U num ds d (recip2Code d)).2 := by
  have key := div_nxm_u64_spec num ds hnum hds h3 hlen htop
  simp only at key
  rw [← hsh, ← hT, ← hU, ← hd] at key
  have he1lt := getD_lt ds (ds.length - 1) hds (by omega)
  have he0lt := getD_lt ds (ds.length - 2) hds (by omega)
  have hdmlt := getD_lt ds (ds.length - 3) hds (by omega)
  obtain ⟨_, n1, n2, n3⟩ := norm_facts _ htop he1lt
  rw [← hsh] at n1 n2 n3
  rw [← hT] at n1 n2 n3
  rw [← hU] at n3
  have hT0 : 0 < T := by rw [hT]; positivity
  have hU0 : 0 < U := by rw [hU]; positivity
  obtain ⟨hd1, hd2⟩ := d_range _ _ _ T U n3 hT0 hU0 n1 n2 he0lt hdmlt
  rw [← hd] at hd1 hd2
  rw [recip2Code_spec d hd1 hd2]
  exact key

end Ruint.Div.KFull