import Ruint.Model.Div
import Ruint.Lemmas.Div.Div2x1
import Ruint.Lemmas.Div.Div3x2
import Ruint.Lemmas.Div.Chains
/-!
`div_nx1_normalized`, `div_nx2_normalized` (loops over the proved `div_2x1` / `div_3x2`) and the
un-normalised `div_nx1`, `div_nx2` (shift-on-the-fly loops), generic base `B = T * U`.

The shifted loops are the normalised loops run on `N·T`, `d·T`: the invariant of `nx1ShLoop b l` is
`val l · T + ⌊b / U⌋ = val q · d + r`, i.e. "the part of `(b :: l)·T` above the lowest word".
-/
set_option autoImplicit false
namespace Ruint.Div

/-- one digit of schoolbook division by a (double) word: arithmetic shared by all four loops -/
theorem digit_step (B d X Q r u : ℕ) (hd : 0 < d) (hX : X = Q * d + r) (hr : r < d) (hu : u < B) :
    u + B * X = ((r * B + u) / d + B * Q) * d + (r * B + u) % d
    ∧ (r * B + u) % d < d ∧ (r * B + u) / d < B := by
  have e := Nat.div_add_mod (r * B + u) d
  refine ⟨?_, Nat.mod_lt _ hd, ?_⟩
  · subst hX
    obtain ⟨q, hq⟩ : ∃ q, q = (r * B + u) / d := ⟨_, rfl⟩
    obtain ⟨s, hs⟩ : ∃ s, s = (r * B + u) % d := ⟨_, rfl⟩
    rw [← hq, ← hs] at e ⊢
    nlinarith [e]
  · apply Nat.div_lt_of_lt_mul
    have : (r + 1) * B ≤ d * B := Nat.mul_le_mul_right _ hr
    nlinarith

theorem nx1Loop_spec (B d : ℕ) (hB : 2 ≤ B) (hd2 : B ≤ 2 * d) (hdB : d < B) (us : List ℕ)
    (hus : AllLt B us) :
    val B us = val B (nx1Loop B d (recipSpec B d) us).1 * d + (nx1Loop B d (recipSpec B d) us).2
    ∧ (nx1Loop B d (recipSpec B d) us).2 < d
    ∧ (nx1Loop B d (recipSpec B d) us).1.length = us.length
    ∧ AllLt B (nx1Loop B d (recipSpec B d) us).1 := by
  have hd0 : 0 < d := by omega
  induction us with
  | nil => simp [nx1Loop, AllLt]; omega
  | cons u us ih =>
    obtain ⟨i1, i2, i3, i4⟩ := ih (fun x hx => hus x (by simp [hx]))
    have hu : u < B := hus u (by simp)
    simp only [nx1Loop]
    obtain ⟨r, hr⟩ : ∃ r, r = nx1Loop B d (recipSpec B d) us := ⟨_, rfl⟩
    rw [← hr] at i1 i2 i3 i4 ⊢
    have hpre : r.2 * B + u < d * B := by
      have : (r.2 + 1) * B ≤ d * B := Nat.mul_le_mul_right _ i2
      nlinarith
    rw [div2x1_spec B (r.2 * B + u) d hB hd2 hdB hpre]
    obtain ⟨k1, k2, k3⟩ := digit_step B d (val B us) (val B r.1) r.2 u hd0 i1 i2 hu
    refine ⟨?_, k2, by simp [i3], ?_⟩
    · simp only [val_cons]; rw [k1]
    · intro x hx
      simp only [List.mem_cons] at hx
      rcases hx with rfl | hx
      · exact k3
      · exact i4 x hx

theorem nx2Loop_spec (B d : ℕ) (hB : 2 ≤ B) (hd2 : B * B ≤ 2 * d) (hdB : d < B * B) (us : List ℕ)
    (hus : AllLt B us) :
    val B us = val B (nx2Loop B d (recip2Spec B d) us).1 * d + (nx2Loop B d (recip2Spec B d) us).2
    ∧ (nx2Loop B d (recip2Spec B d) us).2 < d
    ∧ (nx2Loop B d (recip2Spec B d) us).1.length = us.length
    ∧ AllLt B (nx2Loop B d (recip2Spec B d) us).1 := by
  have hd0 : 0 < d := by
    rcases Nat.eq_zero_or_pos d with h | h
    · rw [h] at hd2; have : 0 < B * B := by positivity
      omega
    · exact h
  induction us with
  | nil => simp [nx2Loop, AllLt]; omega
  | cons u us ih =>
    obtain ⟨i1, i2, i3, i4⟩ := ih (fun x hx => hus x (by simp [hx]))
    have hu : u < B := hus u (by simp)
    simp only [nx2Loop]
    obtain ⟨r, hr⟩ : ∃ r, r = nx2Loop B d (recip2Spec B d) us := ⟨_, rfl⟩
    rw [← hr] at i1 i2 i3 i4 ⊢
    rw [div3x2_spec B r.2 u d hB hd2 hdB i2 hu]
    obtain ⟨k1, k2, k3⟩ := digit_step B d (val B us) (val B r.1) r.2 u hd0 i1 i2 hu
    refine ⟨?_, k2, by simp [i3], ?_⟩
    · simp only [val_cons]; rw [k1]
    · intro x hx
      simp only [List.mem_cons] at hx
      rcases hx with rfl | hx
      · exact k3
      · exact i4 x hx

/-- the fused digit `(x << s) | (b >> (64 - s))` is a word and splits `x·T + ⌊b/U⌋` -/
theorem fused (B T U x b : ℕ) (hB : B = T * U) (hT : 0 < T) (hU : 0 < U) (hb : b < B) :
    (x * T) % B + b / U < B ∧ x * T + b / U = (x / U) * B + ((x * T) % B + b / U) := by
  have h1 : (x * T) % B = (x % U) * T := by
    rw [hB, Nat.mul_comm x T, Nat.mul_mod_mul_left, Nat.mul_comm]
  have h2 : x % U < U := Nat.mod_lt _ hU
  have h3 : b / U < T := by
    apply Nat.div_lt_of_lt_mul; rw [Nat.mul_comm, ← hB]; exact hb
  have h4 : (x % U + 1) * T ≤ U * T := Nat.mul_le_mul_right _ h2
  have e := Nat.div_add_mod x U
  rw [h1]
  constructor
  · rw [hB, Nat.mul_comm T U]; nlinarith
  · have : x * T = (U * (x / U) + x % U) * T := by rw [e]
    rw [this, hB]; ring

theorem nx1ShLoop_spec (B T U d : ℕ) (hB : 2 ≤ B) (hTU : B = T * U) (hT : 0 < T) (hU : 0 < U)
    (hd2 : B ≤ 2 * d) (hdB : d < B) (hTd : T ≤ d) (l : List ℕ) (b : ℕ) (hb : b < B) (hl : AllLt B l) :
    val B l * T + b / U
        = val B (nx1ShLoop B T U d (recipSpec B d) b l).1 * d + (nx1ShLoop B T U d (recipSpec B d) b l).2
    ∧ (nx1ShLoop B T U d (recipSpec B d) b l).2 < d
    ∧ (nx1ShLoop B T U d (recipSpec B d) b l).1.length = l.length
    ∧ AllLt B (nx1ShLoop B T U d (recipSpec B d) b l).1 := by
  have hd0 : 0 < d := by omega
  induction l generalizing b with
  | nil =>
    have h3 : b / U < T := by
      apply Nat.div_lt_of_lt_mul; rw [Nat.mul_comm, ← hTU]; exact hb
    simp [nx1ShLoop, AllLt]; omega
  | cons x xs ih =>
    have hx : x < B := hl x (by simp)
    obtain ⟨i1, i2, i3, i4⟩ := ih x hx (fun y hy => hl y (by simp [hy]))
    simp only [nx1ShLoop]
    obtain ⟨r, hr⟩ : ∃ r, r = nx1ShLoop B T U d (recipSpec B d) x xs := ⟨_, rfl⟩
    rw [← hr] at i1 i2 i3 i4 ⊢
    obtain ⟨f1, f2⟩ := fused B T U x b hTU hT hU hb
    obtain ⟨u, hu⟩ : ∃ u, u = (x * T) % B + b / U := ⟨_, rfl⟩
    rw [← hu] at f1 f2 ⊢
    have hpre : r.2 * B + u < d * B := by
      have : (r.2 + 1) * B ≤ d * B := Nat.mul_le_mul_right _ i2
      nlinarith
    rw [div2x1_spec B (r.2 * B + u) d hB hd2 hdB hpre]
    obtain ⟨k1, k2, k3⟩ := digit_step B d (val B xs * T + x / U) (val B r.1) r.2 u hd0 i1 i2 f1
    refine ⟨?_, k2, by simp [i3], ?_⟩
    · simp only [val_cons]
      have : (x + B * val B xs) * T + b / U = u + B * (val B xs * T + x / U) := by
        have : (x + B * val B xs) * T + b / U = (x * T + b / U) + B * (val B xs * T) := by ring
        rw [this, f2]; ring
      rw [this, k1]
    · intro y hy
      simp only [List.mem_cons] at hy
      rcases hy with rfl | hy
      · exact k3
      · exact i4 y hy

theorem nx2ShLoop_spec (B T U d : ℕ) (hB : 2 ≤ B) (hTU : B = T * U) (hT : 0 < T) (hU : 0 < U)
    (hd2 : B * B ≤ 2 * d) (hdB : d < B * B) (hTd : T ≤ d) (l : List ℕ) (b : ℕ) (hb : b < B) (hl : AllLt B l) :
    val B l * T + b / U
        = val B (nx2ShLoop B T U d (recip2Spec B d) b l).1 * d + (nx2ShLoop B T U d (recip2Spec B d) b l).2
    ∧ (nx2ShLoop B T U d (recip2Spec B d) b l).2 < d
    ∧ (nx2ShLoop B T U d (recip2Spec B d) b l).1.length = l.length
    ∧ AllLt B (nx2ShLoop B T U d (recip2Spec B d) b l).1 := by
  have hd0 : 0 < d := by omega
  induction l generalizing b with
  | nil =>
    have h3 : b / U < T := by
      apply Nat.div_lt_of_lt_mul; rw [Nat.mul_comm, ← hTU]; exact hb
    simp [nx2ShLoop, AllLt]; omega
  | cons x xs ih =>
    have hx : x < B := hl x (by simp)
    obtain ⟨i1, i2, i3, i4⟩ := ih x hx (fun y hy => hl y (by simp [hy]))
    simp only [nx2ShLoop]
    obtain ⟨r, hr⟩ : ∃ r, r = nx2ShLoop B T U d (recip2Spec B d) x xs := ⟨_, rfl⟩
    rw [← hr] at i1 i2 i3 i4 ⊢
    obtain ⟨f1, f2⟩ := fused B T U x b hTU hT hU hb
    obtain ⟨u, hu⟩ : ∃ u, u = (x * T) % B + b / U := ⟨_, rfl⟩
    rw [← hu] at f1 f2 ⊢
    rw [div3x2_spec B r.2 u d hB hd2 hdB i2 f1]
    obtain ⟨k1, k2, k3⟩ := digit_step B d (val B xs * T + x / U) (val B r.1) r.2 u hd0 i1 i2 f1
    refine ⟨?_, k2, by simp [i3], ?_⟩
    · simp only [val_cons]
      have : (x + B * val B xs) * T + b / U = u + B * (val B xs * T + x / U) := by
        have : (x + B * val B xs) * T + b / U = (x * T + b / U) + B * (val B xs * T) := by ring
        rw [this, f2]; ring
      rw [this, k1]
    · intro y hy
      simp only [List.mem_cons] at hy
      rcases hy with rfl | hy
      · exact k3
      · exact i4 y hy

/-- un-normalising: `N·T = Q·(d·T) + r`, `r < d·T` ⇒ `Q = N / d` and `r / T = N mod d`. -/
theorem unshift (N d T Q r : ℕ) (hT : 0 < T) (hd : 0 < d) (h : N * T = Q * (d * T) + r) (hr : r < d * T) :
    Q = N / d ∧ r / T = N % d := by
  have hQ : Q = N * T / (d * T) := by
    rw [h, Nat.mul_comm Q (d * T), Nat.mul_add_div (by positivity), Nat.div_eq_of_lt hr, Nat.add_zero]
  have hQ' : Q = N / d := by rw [hQ, Nat.mul_div_mul_right _ _ hT]
  refine ⟨hQ', ?_⟩
  have e := Nat.div_add_mod N d
  have : r = (N % d) * T := by
    have h2 : N * T = (d * (N / d) + N % d) * T := by rw [e]
    rw [← hQ'] at h2
    have h3 : (d * Q + N % d) * T = Q * (d * T) + (N % d) * T := by ring
    omega
  rw [this, Nat.mul_div_cancel _ hT]

end Ruint.Div
