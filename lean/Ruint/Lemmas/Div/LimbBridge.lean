import Ruint.Model.MulKernels
import Ruint.Lemmas.LimbChains
import Ruint.Lemmas.Div.Chains
/-!
The limb chains used inside the C14 Knuth model (`Ruint.Div.sbb`, `submulNx1`, `adcN`: value-level forms
from the design-phase proof) ARE the C15 models of the same Rust kernels (`Ruint.Limb.sbb` — the `u128`
wrapping form —, `submulNx1Go`, `adcN`), which C15 checks limb for limb against `ruint::algorithms::
{sbb, submul_nx1, adc_n}` and proves separately. So the Knuth theorems are about the kernels C15 verifies.
-/
set_option autoImplicit false
namespace Ruint.Div.Bridge

theorem sbb_eq_limb (B l r c : ℕ) (hB : 2 ≤ B) (hl : l < B) (hr : r < B) (hc : c < B) :
    Ruint.Limb.sbb B l r c = Ruint.Div.sbb B l r c := by
  obtain ⟨a1, a2, _, _, _⟩ := Ruint.Limb.sbb_spec B l r c hB hl hr hc
  obtain ⟨b1, b2⟩ := Ruint.Div.sbb_eq B (by omega) l r c hl
  obtain ⟨x, hx⟩ : ∃ x, x = Ruint.Limb.sbb B l r c := ⟨_, rfl⟩
  obtain ⟨y, hy⟩ : ∃ y, y = Ruint.Div.sbb B l r c := ⟨_, rfl⟩
  rw [← hx] at a1 a2 ⊢
  rw [← hy] at b1 b2 ⊢
  have h : x.1 + B * y.2 = y.1 + B * x.2 := by omega
  have hm : x.1 % B = y.1 % B := by
    have := congrArg (· % B) h
    simpa [Nat.add_mul_mod_self_left] using this
  rw [Nat.mod_eq_of_lt a2, Nat.mod_eq_of_lt b2] at hm
  have h2 : B * y.2 = B * x.2 := by omega
  have h3 : y.2 = x.2 := Nat.eq_of_mul_eq_mul_left (by omega) h2
  exact Prod.ext hm h3.symm

theorem submulNx1_eq_limb (B : ℕ) (hB : 2 ≤ B) (ls as : List ℕ) (b carry borrow : ℕ)
    (hl : Ruint.Div.AllLt B ls) (hbo : borrow < B) :
    Ruint.Limb.submulNx1Go B ls as b carry borrow = Ruint.Div.submulNx1 B ls as b carry borrow := by
  induction ls generalizing as carry borrow with
  | nil => cases as <;> simp [Ruint.Limb.submulNx1Go, Ruint.Div.submulNx1]
  | cons l ls ih =>
    cases as with
    | nil => simp [Ruint.Limb.submulNx1Go, Ruint.Div.submulNx1]
    | cons a as =>
      have hlB : l < B := hl l (by simp)
      have hp : (a * b + carry) % B < B := Nat.mod_lt _ (by omega)
      have e := sbb_eq_limb B l ((a * b + carry) % B) borrow hB hlB hp hbo
      obtain ⟨_, _, _, s4, _⟩ := Ruint.Limb.sbb_spec B l ((a * b + carry) % B) borrow hB hlB hp hbo
      simp only [Ruint.Limb.submulNx1Go, Ruint.Div.submulNx1]
      rw [← e]
      rw [ih as _ _ (fun y hy => hl y (by simp [hy])) s4]

theorem adcN_eq_limb (B : ℕ) (as bs : List ℕ) (c : ℕ) (h : as.length = bs.length) :
    Ruint.Limb.adcN B as bs c = some (Ruint.Div.adcN B as bs c) := by
  induction as generalizing bs c with
  | nil => cases bs <;> simp [Ruint.Limb.adcN, Ruint.Div.adcN]
  | cons a as ih =>
    cases bs with
    | nil => simp at h
    | cons b bs =>
      simp only [List.length_cons, Nat.add_right_cancel_iff] at h
      simp only [Ruint.Limb.adcN, Ruint.Div.adcN, Ruint.Limb.adc]
      rw [ih bs _ h]

end Ruint.Div.Bridge
