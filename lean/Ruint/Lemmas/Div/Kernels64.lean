import Ruint.Model.Div
import Ruint.Lemmas.Basic
import Ruint.Lemmas.Div.Nx
import Ruint.Lemmas.Div.Full
/-!
The public kernels at 64-bit limbs (`Ruint/Model/Div.lean`), stated with the shared `Ruint.val` /
`Ruint.AllLt` / `Ruint.W`: reciprocals, `div_2x1`, `div_3x2`, `div_nx1{,_normalized}`,
`div_nx2{,_normalized}`, `div_nxm`. Hypotheses are the documented conditions of use (or weaker).
-/
set_option autoImplicit false
namespace Ruint.Div

theorem val_W (l : List ℕ) : val W l = Ruint.val l := by
  induction l with
  | nil => rfl
  | cons x xs ih => simp only [val_cons, Ruint.val_cons, ih]

theorem allLt_W (l : List ℕ) : AllLt W l ↔ Ruint.AllLt l := Iff.rfl

theorem W_two : 2 ≤ W := by unfold W; norm_num

theorem divmod_unique (N d Q r : ℕ) (h : N = Q * d + r) (hr : r < d) : Q = N / d ∧ r = N % d := by
  have hd : 0 < d := by omega
  have h1 : N / d = Q := by
    rw [h, Nat.mul_comm Q d, Nat.mul_add_div hd, Nat.div_eq_of_lt hr, Nat.add_zero]
  have h2 : N % d = r := by
    rw [h, Nat.mul_comm Q d, Nat.mul_add_mod, Nat.mod_eq_of_lt hr]
  exact ⟨h1.symm, h2.symm⟩

/-- `reciprocal` (table-seeded Newton, `Wrapping<u64>` arithmetic) is the specified one-word reciprocal. -/
theorem reciprocal_eq (d : ℕ) (h1 : 2 ^ 63 ≤ d) (h2 : d < 2 ^ 64) : reciprocal d = recipSpec W d := by
  unfold reciprocal
  rw [Recip.recip_spec d h1 h2]
  rfl

/-- `reciprocal_2` (MG10 Alg. 6 on top of `reciprocal`) is the specified two-word reciprocal. -/
theorem reciprocal2_eq (d : ℕ) (h1 : 2 ^ 127 ≤ d) (h2 : d < 2 ^ 128) : reciprocal2 d = recip2Spec W d := by
  unfold reciprocal2
  rw [KFull.recip2Code_spec d h1 h2]
  rfl

theorem div2x1w_spec (u d : ℕ) (h1 : 2 ^ 63 ≤ d) (h2 : d < 2 ^ 64) (hu : u / 2 ^ 64 < d) :
    div2x1w u d (reciprocal d) = (u / d, u % d) := by
  unfold div2x1w
  rw [reciprocal_eq d h1 h2]
  apply div2x1_spec W u d W_two (by unfold W; omega) (by unfold W; omega)
  unfold W
  have := Nat.div_add_mod u (2 ^ 64)
  have := Nat.mod_lt u (show 0 < 2 ^ 64 by norm_num)
  omega

theorem div3x2w_spec (u21 u0 d : ℕ) (h1 : 2 ^ 127 ≤ d) (h2 : d < 2 ^ 128) (hu : u21 < d) (hu0 : u0 < 2 ^ 64) :
    div3x2w u21 u0 d (reciprocal2 d) = ((u21 * 2 ^ 64 + u0) / d, (u21 * 2 ^ 64 + u0) % d) := by
  unfold div3x2w
  rw [reciprocal2_eq d h1 h2]
  have := div3x2_spec W u21 u0 d W_two (by unfold W; omega) (by unfold W; omega) hu hu0
  rw [this]; rfl

/-- `div_nx1_normalized`: quotient limbs in place, remainder returned. -/
theorem divNx1Normalized_spec (l : List ℕ) (d : ℕ) (hl : Ruint.AllLt l) (h1 : 2 ^ 63 ≤ d) (h2 : d < 2 ^ 64) :
    Ruint.val (divNx1Normalized l d).1 = Ruint.val l / d ∧ (divNx1Normalized l d).2 = Ruint.val l % d
    ∧ (divNx1Normalized l d).1.length = l.length ∧ Ruint.AllLt (divNx1Normalized l d).1 := by
  unfold divNx1Normalized
  rw [reciprocal_eq d h1 h2]
  obtain ⟨k1, k2, k3, k4⟩ := nx1Loop_spec W d W_two (by unfold W; omega) (by unfold W; omega) l hl
  rw [val_W, val_W] at k1
  obtain ⟨e1, e2⟩ := divmod_unique _ _ _ _ k1 k2
  exact ⟨e1, e2, k3, k4⟩

/-- `div_nx2_normalized` -/
theorem divNx2Normalized_spec (l : List ℕ) (d : ℕ) (hl : Ruint.AllLt l) (h1 : 2 ^ 127 ≤ d) (h2 : d < 2 ^ 128) :
    Ruint.val (divNx2Normalized l d).1 = Ruint.val l / d ∧ (divNx2Normalized l d).2 = Ruint.val l % d
    ∧ (divNx2Normalized l d).1.length = l.length ∧ Ruint.AllLt (divNx2Normalized l d).1 := by
  unfold divNx2Normalized
  rw [reciprocal2_eq d h1 h2]
  obtain ⟨k1, k2, k3, k4⟩ := nx2Loop_spec W d W_two (by unfold W; omega) (by unfold W; omega) l hl
  rw [val_W, val_W] at k1
  obtain ⟨e1, e2⟩ := divmod_unique _ _ _ _ k1 k2
  exact ⟨e1, e2, k3, k4⟩

/-- `div_nx1` for any non-zero word divisor (shift on the fly when it is not normalised). -/
theorem divNx1_spec (l : List ℕ) (dv : ℕ) (hl : Ruint.AllLt l) (h1 : 1 ≤ dv) (h2 : dv < 2 ^ 64) :
    Ruint.val (divNx1 l dv).1 = Ruint.val l / dv ∧ (divNx1 l dv).2 = Ruint.val l % dv
    ∧ (divNx1 l dv).1.length = l.length ∧ Ruint.AllLt (divNx1 l dv).1 := by
  obtain ⟨_, n1, n2, n3⟩ := KNorm.norm_facts dv h1 h2
  unfold divNx1
  simp only []
  obtain ⟨sh, hsh⟩ : ∃ sh, sh = lz dv := ⟨_, rfl⟩
  have hsh' : sh = 63 - Nat.log2 dv := hsh
  rw [← hsh]
  rw [← hsh'] at n1 n2 n3
  by_cases h0 : sh = 0
  · simp only [h0, if_true]
    rw [h0] at n1
    exact divNx1Normalized_spec l dv hl (by omega) h2
  · simp only [h0, if_false]
    obtain ⟨T, hT⟩ : ∃ T, T = 2 ^ sh := ⟨_, rfl⟩
    obtain ⟨U, hU⟩ : ∃ U, U = 2 ^ (64 - sh) := ⟨_, rfl⟩
    rw [← hT] at n1 n2 n3 ⊢
    rw [← hU] at n3 ⊢
    have hT0 : 0 < T := by rw [hT]; positivity
    have hU0 : 0 < U := by rw [hU]; positivity
    have hdm : (dv * T) % W = dv * T := Nat.mod_eq_of_lt (by unfold W; exact n2)
    rw [hdm]
    obtain ⟨d, hd⟩ : ∃ d, d = dv * T := ⟨_, rfl⟩
    rw [← hd] at n1 n2 ⊢
    rw [reciprocal_eq d (by omega) n2]
    have hTd : T ≤ d := by rw [hd]; exact Nat.le_mul_of_pos_left T (by omega)
    obtain ⟨k1, k2, k3, k4⟩ := nx1ShLoop_spec W T U d W_two (by unfold W; exact n3.symm) hT0 hU0
      (by unfold W; exact n1) (by unfold W; exact n2) hTd l 0 (by unfold W; norm_num) hl
    obtain ⟨res, hres⟩ : ∃ res, res = nx1ShLoop W T U d (recipSpec W d) 0 l := ⟨_, rfl⟩
    rw [← hres] at k1 k2 k3 k4 ⊢
    rw [Nat.zero_div, Nat.add_zero, val_W, val_W, hd] at k1
    rw [hd] at k2
    obtain ⟨e1, e2⟩ := unshift (Ruint.val l) dv T _ _ hT0 (by omega) k1 k2
    exact ⟨e1, e2, k3, k4⟩

/-- `div_nx2` for any two-word divisor in `[2^64, 2^128)`. -/
theorem divNx2_spec (l : List ℕ) (dv : ℕ) (hl : Ruint.AllLt l) (h1 : 2 ^ 64 ≤ dv) (h2 : dv < 2 ^ 128) :
    Ruint.val (divNx2 l dv).1 = Ruint.val l / dv ∧ (divNx2 l dv).2 = Ruint.val l % dv
    ∧ (divNx2 l dv).1.length = l.length ∧ Ruint.AllLt (divNx2 l dv).1 := by
  obtain ⟨e1, he1⟩ : ∃ e1, e1 = dv / W := ⟨_, rfl⟩
  obtain ⟨e0, he0⟩ : ∃ e0, e0 = dv % W := ⟨_, rfl⟩
  have hW : W = 2 ^ 64 := rfl
  have hdv : dv = e1 * W + e0 := by rw [he1, he0, Nat.mul_comm]; exact (Nat.div_add_mod dv W).symm
  have he0W : e0 < W := by rw [he0]; exact Nat.mod_lt _ (by rw [hW]; norm_num)
  have he1a : 1 ≤ e1 := by
    rw [he1, hW]; exact (Nat.one_le_div_iff (by norm_num)).mpr h1
  have he1b : e1 < 2 ^ 64 := by
    rw [he1, hW]; apply Nat.div_lt_of_lt_mul
    calc dv < 2 ^ 128 := h2
      _ = 2 ^ 64 * 2 ^ 64 := by norm_num
  obtain ⟨_, n1, n2, n3⟩ := KNorm.norm_facts e1 he1a he1b
  unfold divNx2
  simp only []
  rw [← he1]
  obtain ⟨sh, hsh⟩ : ∃ sh, sh = lz e1 := ⟨_, rfl⟩
  have hsh' : sh = 63 - Nat.log2 e1 := hsh
  rw [← hsh]
  rw [← hsh'] at n1 n2 n3
  by_cases h0 : sh = 0
  · simp only [h0, if_true]
    rw [h0] at n1
    refine divNx2Normalized_spec l dv hl ?_ h2
    rw [hdv, hW]; rw [hW] at he0W; omega
  · simp only [h0, if_false]
    obtain ⟨T, hT⟩ : ∃ T, T = 2 ^ sh := ⟨_, rfl⟩
    obtain ⟨U, hU⟩ : ∃ U, U = 2 ^ (64 - sh) := ⟨_, rfl⟩
    rw [← hT] at n1 n2 n3 ⊢
    rw [← hU] at n3 ⊢
    have hT0 : 0 < T := by rw [hT]; positivity
    have hU0 : 0 < U := by rw [hU]; positivity
    -- d = dv * T lies in [W²/2, W²)
    have hlo : W * W ≤ 2 * (dv * T) := by
      rw [hdv]
      have : W * (2 * (e1 * T)) ≤ 2 * ((e1 * W + e0) * T) := by nlinarith [Nat.zero_le (e0 * T)]
      have h3 : W * W ≤ W * (2 * (e1 * T)) := Nat.mul_le_mul_left _ (by rw [hW]; exact n1)
      omega
    have hhi : dv * T < W * W := by
      rw [hdv]
      have h3 : e1 < U := by
        have : e1 * T < U * T := by rw [Nat.mul_comm U T, n3]; exact n2
        exact Nat.lt_of_mul_lt_mul_right this
      have h4 : (e1 + 1) * T ≤ U * T := Nat.mul_le_mul_right _ h3
      have h5 : U * T = W := by rw [Nat.mul_comm, n3, hW]
      have h6 : (e1 * W + e0) * T < (e1 * W + W) * T := Nat.mul_lt_mul_of_pos_right (by omega) hT0
      have h7 : (e1 * W + W) * T = (e1 + 1) * T * W := by ring
      have h8 : (e1 + 1) * T * W ≤ W * W := Nat.mul_le_mul_right _ (by omega)
      omega
    have hdm : (dv * T) % (W * W) = dv * T := Nat.mod_eq_of_lt hhi
    rw [hdm]
    obtain ⟨d, hd⟩ : ∃ d, d = dv * T := ⟨_, rfl⟩
    rw [← hd] at hlo hhi ⊢
    have hWW : W * W = 2 ^ 128 := by rw [hW]; norm_num
    rw [reciprocal2_eq d (by omega) (by omega)]
    have hTd : T ≤ d := by rw [hd]; exact Nat.le_mul_of_pos_left T (by omega)
    obtain ⟨k1, k2, k3, k4⟩ := nx2ShLoop_spec W T U d W_two (by rw [hW]; exact n3.symm) hT0 hU0
      hlo hhi hTd l 0 (by rw [hW]; norm_num) hl
    obtain ⟨res, hres⟩ : ∃ res, res = nx2ShLoop W T U d (recip2Spec W d) 0 l := ⟨_, rfl⟩
    rw [← hres] at k1 k2 k3 k4 ⊢
    rw [Nat.zero_div, Nat.add_zero, val_W, val_W, hd] at k1
    rw [hd] at k2
    obtain ⟨e1', e2'⟩ := unshift (Ruint.val l) dv T _ _ hT0 (by omega) k1 k2
    exact ⟨e1', e2', k3, k4⟩

/-- `div_nxm` under exactly its documented conditions of use: quotient (zero padded) left in
    `numerator`, remainder in `divisor`. -/
theorem divNxm_spec (num ds : List ℕ) (hnum : Ruint.AllLt num) (hds : Ruint.AllLt ds)
    (h3 : 3 ≤ ds.length) (hlen : ds.length ≤ num.length) (htop : 1 ≤ ds.getD (ds.length - 1) 0) :
    Ruint.val (divNxm num ds).1 = Ruint.val num / Ruint.val ds
    ∧ Ruint.val (divNxm num ds).2 = Ruint.val num % Ruint.val ds
    ∧ (divNxm num ds).1.length = num.length ∧ (divNxm num ds).2.length = ds.length
    ∧ Ruint.AllLt (divNxm num ds).1 ∧ Ruint.AllLt (divNxm num ds).2 := by
  have key := KFull.div_nxm_full num ds hnum hds h3 hlen htop
    (lz (ds.getD (ds.length - 1) 0)) (2 ^ lz (ds.getD (ds.length - 1) 0))
    (2 ^ (64 - lz (ds.getD (ds.length - 1) 0)))
    ((ds.getD (ds.length - 1) 0 * 2 ^ 64 + ds.getD (ds.length - 2) 0) * 2 ^ lz (ds.getD (ds.length - 1) 0)
      + ds.getD (ds.length - 3) 0 / 2 ^ (64 - lz (ds.getD (ds.length - 1) 0))) rfl rfl rfl rfl
  obtain ⟨k1, k2, k3, k4, k5, k6⟩ := key
  have hm : divNxm num ds = KArr.divNxmArr (2 ^ lz (ds.getD (ds.length - 1) 0))
      (2 ^ (64 - lz (ds.getD (ds.length - 1) 0))) num ds
      ((ds.getD (ds.length - 1) 0 * 2 ^ 64 + ds.getD (ds.length - 2) 0) * 2 ^ lz (ds.getD (ds.length - 1) 0)
        + ds.getD (ds.length - 3) 0 / 2 ^ (64 - lz (ds.getD (ds.length - 1) 0)))
      (KFull.recip2Code ((ds.getD (ds.length - 1) 0 * 2 ^ 64 + ds.getD (ds.length - 2) 0) * 2 ^ lz (ds.getD (ds.length - 1) 0)
        + ds.getD (ds.length - 3) 0 / 2 ^ (64 - lz (ds.getD (ds.length - 1) 0)))) := rfl
  rw [hm]
  have hv : ∀ l, val (2 ^ 64) l = Ruint.val l := val_W
  rw [hv, hv, hv, hv] at k1
  rw [hv, hv] at k2
  obtain ⟨e1, e2⟩ := divmod_unique _ _ _ _ k1 k2
  exact ⟨e1, e2, k3, k4, k5, k6⟩

end Ruint.Div
