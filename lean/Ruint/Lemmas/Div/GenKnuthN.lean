import Ruint.Gen.WordsKnuth
import Ruint.Lemmas.Div.GenLoops
import Ruint.Lemmas.GenKernels
import Ruint.Lemmas.Div.LimbBridge
import Ruint.Lemmas.Div.NArr

/-! `div_nxm_normalized` as GENERATED from `src/algorithms/div/knuth.rs` (Knuth's algorithm D for an already
    normalised divisor, in place on the numerator array) equals the C14 array model `Ruint.Div.divNxmNormalized`
    whenever the model does not panic. A simulation proof: generated code and model take the same branch on the
    same condition in every arm; no arithmetic correctness of the division is used. -/
set_option autoImplicit false
namespace Ruint.Div.GenKnuthN
open Ruint Ruint.Div Ruint.Div.GenTie Ruint.GenLehmer

/-! ### callee ties with arbitrary (large enough) fuel, against the `Ruint.Div` chain models -/

theorem submul_bound (ls as : List ℕ) (b : ℕ) (hl : ls.length = as.length) (hwl : Ruint.AllLt ls)
    (hwa : Ruint.AllLt as) (hb : b < W) : (submulNx1 W ls as b 0 0).2 < W := by
  obtain ⟨s1, s2, s3⟩ := submulNx1_spec W W_pos ls as b 0 0 hl hwl
  have h1 := Ruint.Div.val_lt_pow W ls hwl
  have h2 := Ruint.Div.val_lt_pow W as hwa
  have h3 := Ruint.Div.val_lt_pow W _ s3
  rw [s2] at h3
  rw [← hl] at h2
  obtain ⟨P, hP⟩ : ∃ P, P = W ^ ls.length := ⟨_, rfl⟩
  rw [← hP] at s1 h1 h2 h3
  obtain ⟨sm, hsm⟩ : ∃ s, s = submulNx1 W ls as b 0 0 := ⟨_, rfl⟩
  rw [← hsm] at s1 h3 ⊢
  have hW := W_pos
  have h4 : Ruint.Div.val W as * b ≤ P * (W - 1) := Nat.mul_le_mul (by omega) (by omega)
  have h5 : P * (W - 1) + P = P * W := by
    obtain ⟨k, hk⟩ : ∃ k, W = k + 1 := ⟨W - 1, by omega⟩
    rw [hk, Nat.add_sub_cancel, Nat.mul_add, Nat.mul_one]
  have h6 : P * sm.2 < P * W := by omega
  exact Nat.lt_of_mul_lt_mul_left h6

theorem gen_submul_eq (f : ℕ) (lhs a : List ℕ) (b : ℕ) (hl : lhs.length = a.length) (hn : a.length < 2 ^ 64)
    (hf : a.length < f) (hwl : Ruint.AllLt lhs) (hwa : Ruint.AllLt a) (hb : b < W) :
    Ruint.Gen.submul_nx1 f lhs a b = submulNx1 W lhs a b 0 0 := by
  have hloop := Ruint.GenKernels.submul_loop_eq b hb lhs a [] [] 0 0 f a.length hl rfl (by simp) hn hf hwl hwa
    W_pos W_pos
  simp only [List.nil_append, List.length_nil] at hloop
  have hbr : Ruint.Limb.submulNx1 W lhs a b = submulNx1 W lhs a b 0 0 :=
    Bridge.submulNx1_eq_limb W W_two lhs a b 0 0 hwl W_pos
  have hbd := submul_bound lhs a b hl hwl hwa hb
  have e : (submulNx1 W lhs a b 0 0).2 % 2 ^ 64 = (submulNx1 W lhs a b 0 0).2 := Nat.mod_eq_of_lt hbd
  have hg : Ruint.Gen.submul_nx1 f lhs a b
      = ((Ruint.Limb.submulNx1 W lhs a b).1, (Ruint.Limb.submulNx1 W lhs a b).2 % 2 ^ 64) := by
    unfold Ruint.Gen.submul_nx1 Ruint.Limb.submulNx1
    simp only [hloop, Ruint.GenKernels.submulGo2_model W]
    rfl
  rw [hg, hbr, e]

theorem gen_adc_eq (f : ℕ) (lhs rhs : List ℕ) (hl : lhs.length = rhs.length) (hn : lhs.length < 2 ^ 64)
    (hf : lhs.length < f) (hwl : Ruint.AllLt lhs) (hwr : Ruint.AllLt rhs) :
    Ruint.Gen.adc_n f lhs rhs 0 = adcN W lhs rhs 0 := by
  obtain ⟨r, hr, hloop⟩ := Ruint.GenKernels.adc_loop_eq lhs rhs [] [] 0 f lhs.length (by omega) rfl (by simp) hn hf
    hwl hwr W_pos
  simp only [List.nil_append, List.length_nil] at hloop
  rw [Bridge.adcN_eq_limb W lhs rhs 0 hl] at hr
  have e : r = adcN W lhs rhs 0 := (Option.some.inj hr).symm
  unfold Ruint.Gen.adc_n
  simp only [hloop, e]

/-! ### word-level bridges -/

theorem osub_eq (r b : ℕ) : Rs.osub 128 r b = ((r + W * W - b) % (W * W), decide (r < b)) := by
  unfold Rs.osub
  have h : (2 : ℕ) ^ 128 = W * W := by unfold W; norm_num
  rw [h]

theorem low_eq (x : ℕ) : Ruint.Gen.dw_low x = x % W := rfl

theorem high_eq (x : ℕ) (h : x < W * W) : Ruint.Gen.dw_high x = x / W := by
  unfold Ruint.Gen.dw_high
  exact Nat.mod_eq_of_lt (Nat.div_lt_of_lt_mul h)

theorem wpred_eq (q : ℕ) : Rs.wsub 64 q 1 = (q + W - 1) % W := rfl

theorem div3x2_fst_lt (u21 u0 d v : ℕ) : (div3x2 W u21 u0 d v).1 < W := by
  have hW := W_pos
  unfold div3x2
  simp only []
  split_ifs <;> exact Nat.mod_lt _ hW

/-! ### the generated step, unfolded once -/

/-- overflow arm: `submul_nx1(&mut numerator[j..j + n], divisor, u64::MAX); numerator[j + n] = u64::MAX` -/
def armA (fuel : ℕ) (ds : List ℕ) (n j : ℕ) (arr : List ℕ) : List ℕ :=
  (arr.take j ++ (Ruint.Gen.submul_nx1 fuel ((arr.drop j).take n) ds (2 ^ 64 - 1)).1 ++ arr.drop (j + n)).set
    (j + n) (2 ^ 64 - 1)

/-- `submul_nx1(&mut numerator[j..j + n - 2], &divisor[..n - 2], q)`: (array, returned borrow) -/
def armB1 (fuel : ℕ) (ds : List ℕ) (n j : ℕ) (arr : List ℕ) (q : ℕ) : List ℕ × ℕ :=
  (arr.take j ++ (Ruint.Gen.submul_nx1 fuel ((arr.drop j).take (n - 2)) (ds.take (n - 2)) q).1 ++ arr.drop (j + n - 2),
   (Ruint.Gen.submul_nx1 fuel ((arr.drop j).take (n - 2)) (ds.take (n - 2)) q).2)

/-- `numerator[j + n - 2] = r.low(); numerator[j + n - 1] = r.high()` -/
def armB2 (n j : ℕ) (a1 : List ℕ) (r : ℕ) : List ℕ :=
  (a1.set (j + n - 2) (Ruint.Gen.dw_low r)).set (j + n - 1) (Ruint.Gen.dw_high r)

/-- `adc_n(&mut numerator[j..j + n], &divisor[..n], 0)` -/
def armB3 (fuel : ℕ) (ds : List ℕ) (n j : ℕ) (a2 : List ℕ) : List ℕ :=
  a2.take j ++ (Ruint.Gen.adc_n fuel ((a2.drop j).take n) (ds.take n) 0).1 ++ a2.drop (j + n)

/-- the non-overflow arm from `div_3x2`'s `(q, r)` on -/
def armB (fuel : ℕ) (ds : List ℕ) (n j : ℕ) (arr : List ℕ) (q r : ℕ) : List ℕ :=
  (if (Rs.osub 128 r (armB1 fuel ds n j arr q).2).2 then
      (Rs.wsub 64 q 1, armB3 fuel ds n j (armB2 n j (armB1 fuel ds n j arr q).1 (Rs.osub 128 r (armB1 fuel ds n j arr q).2).1))
    else (q, armB2 n j (armB1 fuel ds n j arr q).1 (Rs.osub 128 r (armB1 fuel ds n j arr q).2).1)).2.set (j + n)
  (if (Rs.osub 128 r (armB1 fuel ds n j arr q).2).2 then
      (Rs.wsub 64 q 1, armB3 fuel ds n j (armB2 n j (armB1 fuel ds n j arr q).1 (Rs.osub 128 r (armB1 fuel ds n j arr q).2).1))
    else (q, armB2 n j (armB1 fuel ds n j arr q).1 (Rs.osub 128 r (armB1 fuel ds n j arr q).2).1)).1

theorem step_eq (fuel : ℕ) (ds : List ℕ) (n d v j : ℕ) (arr : List ℕ) (hn2 : 2 ≤ n) (hj : j + n < 2 ^ 64) :
    Ruint.Gen.div_nxm_normalized_step1 fuel ds n d v 0 (j + 1, arr) =
      if Ruint.Gen.dw_join (arr.getD (j + n) 0) (arr.getD (j + n - 1) 0) = d then ((j, armA fuel ds n j arr), true)
      else ((j, armB fuel ds n j arr
        (Ruint.Gen.div_3x2_mg10 (Ruint.Gen.dw_join (arr.getD (j + n) 0) (arr.getD (j + n - 1) 0)) (arr.getD (j + n - 2) 0) d v).1
        (Ruint.Gen.div_3x2_mg10 (Ruint.Gen.dw_join (arr.getD (j + n) 0) (arr.getD (j + n - 1) 0)) (arr.getD (j + n - 2) 0) d v).2),
        true) := by
  have e1 : Rs.wsub 64 (j + 1) 1 = j := by unfold Rs.wsub; omega
  have e2 : Rs.wadd 64 j n = j + n := by unfold Rs.wadd; omega
  have e3 : Rs.wsub 64 (j + n) 1 = j + n - 1 := by unfold Rs.wsub; omega
  have e4 : Rs.wsub 64 (j + n) 2 = j + n - 2 := by unfold Rs.wsub; omega
  have e5 : Rs.wsub 64 n 2 = n - 2 := by unfold Rs.wsub; omega
  have e6 : j + n - 2 - j = n - 2 := by omega
  have e7 : j + n - j = n := by omega
  unfold Ruint.Gen.div_nxm_normalized_step1 armA armB armB1 armB2 armB3
  simp only [gt_iff_lt, Nat.zero_lt_succ, decide_true, if_true, e1, e2, e3, e4, e5, e6, e7, beq_iff_eq]

/-! ### list windows -/

theorem tk (pre mid post : List ℕ) (j : ℕ) (hj : j = pre.length) : (pre ++ mid ++ post).take j = pre := by
  rw [hj, List.append_assoc, List.take_left]

theorem drtk (pre mid post : List ℕ) (j m : ℕ) (hj : j = pre.length) (hm : m = mid.length) :
    ((pre ++ mid ++ post).drop j).take m = mid := by
  rw [hj, hm, List.append_assoc, List.drop_left, List.take_left]

theorem dr (pre mid post : List ℕ) (i : ℕ) (hi : i = pre.length + mid.length) : (pre ++ mid ++ post).drop i = post := by
  rw [hi, ← List.length_append, List.drop_left]

theorem st (pre mid post : List ℕ) (x y i : ℕ) (hi : i = pre.length + mid.length) :
    (pre ++ mid ++ x :: post).set i y = pre ++ mid ++ y :: post := by
  rw [hi, ← List.length_append]; simp

theorem gt (pre mid post : List ℕ) (x i : ℕ) (hi : i = pre.length + mid.length) :
    (pre ++ mid ++ x :: post).getD i 0 = x := by
  rw [hi, ← List.length_append]; simp

theorem armA_eq (fuel : ℕ) (ds : List ℕ) (n j : ℕ) (pre mid post : List ℕ) (x : ℕ) (hj : j = pre.length)
    (hn : n = mid.length) (hX : (Ruint.Gen.submul_nx1 fuel mid ds (2 ^ 64 - 1)).1.length = mid.length) :
    armA fuel ds n j (pre ++ mid ++ x :: post)
      = pre ++ (Ruint.Gen.submul_nx1 fuel mid ds (2 ^ 64 - 1)).1 ++ (2 ^ 64 - 1) :: post := by
  unfold armA
  rw [tk pre mid _ j hj, drtk pre mid _ j n hj hn, dr pre mid _ (j + n) (by omega)]
  exact st pre _ post x _ (j + n) (by omega)

theorem armB1_eq (fuel : ℕ) (ds : List ℕ) (n j : ℕ) (pre low tl : List ℕ) (q : ℕ) (hj : j = pre.length)
    (hn : n = low.length + 2) :
    armB1 fuel ds n j (pre ++ low ++ tl) q
      = (pre ++ (Ruint.Gen.submul_nx1 fuel low (ds.take low.length) q).1 ++ tl,
         (Ruint.Gen.submul_nx1 fuel low (ds.take low.length) q).2) := by
  have e : n - 2 = low.length := by omega
  unfold armB1
  rw [e, tk pre low _ j hj, drtk pre low _ j _ hj rfl, dr pre low _ (j + n - 2) (by omega)]

theorem armB2_eq (n j : ℕ) (pre low post : List ℕ) (c0 c1 c2 r : ℕ) (hj : j = pre.length) (hn : n = low.length + 2) :
    armB2 n j (pre ++ low ++ c0 :: c1 :: c2 :: post) r
      = pre ++ (low ++ [Ruint.Gen.dw_low r, Ruint.Gen.dw_high r]) ++ c2 :: post := by
  unfold armB2
  rw [st pre low _ c0 _ (j + n - 2) (by omega)]
  have e : pre ++ low ++ Ruint.Gen.dw_low r :: c1 :: c2 :: post
      = pre ++ (low ++ [Ruint.Gen.dw_low r]) ++ c1 :: c2 :: post := by simp
  rw [e, st pre _ _ c1 _ (j + n - 1) (by simp; omega)]
  simp

theorem armB3_eq (fuel : ℕ) (ds : List ℕ) (n j : ℕ) (pre mid post : List ℕ) (hj : j = pre.length)
    (hn : n = mid.length) (hds : n = ds.length) :
    armB3 fuel ds n j (pre ++ mid ++ post) = pre ++ (Ruint.Gen.adc_n fuel mid ds 0).1 ++ post := by
  unfold armB3
  rw [tk pre mid _ j hj, drtk pre mid _ j n hj hn, dr pre mid _ (j + n) (by omega), hds, List.take_length]

/-! ### the two arms on a decomposed array `pre ++ low ++ [c0, c1, c2] ++ post`, divisor `dlow ++ [e0, e1]` -/

/-- the non-overflow arm of `KN.nstep` from `div3x2`'s `(q, r)` on -/
def nB (low dlow : List ℕ) (e0 e1 q r : ℕ) : ℕ × List ℕ :=
  let sm := submulNx1 W low dlow q 0 0
  let rr := (r + W * W - sm.2) % (W * W)
  let w' := sm.1 ++ [rr % W, rr / W]
  if r < sm.2 then ((q + W - 1) % W, (adcN W w' (dlow ++ [e0, e1]) 0).1) else (q, w')

theorem nstep_eq (low : List ℕ) (c0 c1 c2 : ℕ) (dlow : List ℕ) (e0 e1 v : ℕ) :
    KN.nstep W low c0 c1 c2 dlow e0 e1 v =
      if c2 * W + c1 = e1 * W + e0 then (W - 1, (submulNx1 W (low ++ [c0, c1]) (dlow ++ [e0, e1]) (W - 1) 0 0).1)
      else nB low dlow e0 e1 (div3x2 W (c2 * W + c1) c0 (e1 * W + e0) v).1 (div3x2 W (c2 * W + c1) c0 (e1 * W + e0) v).2 := by
  unfold KN.nstep nB
  rfl

theorem armA_decomp (fuel : ℕ) (pre low post dlow : List ℕ) (c0 c1 c2 e0 e1 n j : ℕ)
    (hj : j = pre.length) (hn : n = low.length + 2) (hlen : low.length = dlow.length)
    (hlow : Ruint.AllLt low) (hdlow : Ruint.AllLt dlow) (hc0 : c0 < W) (hc1 : c1 < W) (he0 : e0 < W) (he1 : e1 < W)
    (h64 : low.length + 2 < 2 ^ 64) (hfuel : low.length + 2 < fuel) :
    armA fuel (dlow ++ [e0, e1]) n j (pre ++ low ++ [c0, c1, c2] ++ post)
      = pre ++ (submulNx1 W (low ++ [c0, c1]) (dlow ++ [e0, e1]) (W - 1) 0 0).1 ++ [W - 1] ++ post := by
  have eArr : pre ++ low ++ [c0, c1, c2] ++ post = pre ++ (low ++ [c0, c1]) ++ c2 :: post := by simp
  have hA : Ruint.AllLt (low ++ [c0, c1]) := AllLt.append hlow (AllLt.cons hc0 (AllLt.cons hc1 AllLt.nil))
  have hD : Ruint.AllLt (dlow ++ [e0, e1]) := AllLt.append hdlow (AllLt.cons he0 (AllLt.cons he1 AllLt.nil))
  have hl2 : (low ++ [c0, c1]).length = (dlow ++ [e0, e1]).length := by simp [hlen]
  have hl3 : (dlow ++ [e0, e1]).length = low.length + 2 := by simp [hlen]
  have hl4 : (low ++ [c0, c1]).length = low.length + 2 := by simp
  have hsub := gen_submul_eq fuel (low ++ [c0, c1]) (dlow ++ [e0, e1]) (2 ^ 64 - 1) hl2 (by omega) (by omega) hA hD
    (by unfold W; norm_num)
  obtain ⟨_, sm2, _⟩ := submulNx1_spec W W_pos (low ++ [c0, c1]) (dlow ++ [e0, e1]) (2 ^ 64 - 1) 0 0 hl2 hA
  rw [show W - 1 = 2 ^ 64 - 1 from rfl, eArr,
    armA_eq fuel _ n j pre (low ++ [c0, c1]) post c2 hj (by omega) (by rw [hsub]; exact sm2), hsub]
  simp

theorem armB_decomp (fuel : ℕ) (pre low post dlow : List ℕ) (c0 c1 c2 e0 e1 q r n j : ℕ)
    (hj : j = pre.length) (hn : n = low.length + 2) (hlen : low.length = dlow.length)
    (hlow : Ruint.AllLt low) (hdlow : Ruint.AllLt dlow) (he0 : e0 < W) (he1 : e1 < W) (hq : q < W)
    (h64 : low.length + 2 < 2 ^ 64) (hfuel : low.length + 2 < fuel) :
    armB fuel (dlow ++ [e0, e1]) n j (pre ++ low ++ [c0, c1, c2] ++ post) q r
      = pre ++ (nB low dlow e0 e1 q r).2 ++ [(nB low dlow e0 e1 q r).1] ++ post := by
  have hdsA : Ruint.AllLt (dlow ++ [e0, e1]) := AllLt.append hdlow (AllLt.cons he0 (AllLt.cons he1 AllLt.nil))
  obtain ⟨ds, hds⟩ : ∃ ds, ds = dlow ++ [e0, e1] := ⟨_, rfl⟩
  have hdsl : ds.length = n := by rw [hds]; simp; omega
  have htake : ds.take low.length = dlow := by rw [hds, hlen, List.take_left]
  have hsub := gen_submul_eq fuel low dlow q hlen (by omega) (by omega) hlow hdlow hq
  obtain ⟨_, sm2, sm3⟩ := submulNx1_spec W W_pos low dlow q 0 0 hlen hlow
  have h1 := armB1_eq fuel ds n j pre low (c0 :: c1 :: c2 :: post) q hj hn
  rw [htake, hsub] at h1
  unfold nB
  simp only []
  rw [← hds] at hdsA ⊢
  obtain ⟨sm, hsm⟩ : ∃ s, s = submulNx1 W low dlow q 0 0 := ⟨_, rfl⟩
  rw [← hsm] at h1 sm2 sm3 ⊢
  have eArr : pre ++ low ++ [c0, c1, c2] ++ post = pre ++ low ++ (c0 :: c1 :: c2 :: post) := by simp
  have hWW : 0 < W * W := Nat.mul_pos W_pos W_pos
  obtain ⟨rr, hrr⟩ : ∃ x, x = (r + W * W - sm.2) % (W * W) := ⟨_, rfl⟩
  have hrrlt : rr < W * W := by rw [hrr]; exact Nat.mod_lt _ hWW
  have h2 := armB2_eq n j pre sm.1 post c0 c1 c2 rr hj (by omega)
  rw [low_eq, high_eq rr hrrlt] at h2
  obtain ⟨w', hw'⟩ : ∃ w, w = sm.1 ++ [rr % W, rr / W] := ⟨_, rfl⟩
  have hw'l : w'.length = n := by rw [hw']; simp; omega
  have hw'A : Ruint.AllLt w' := by
    rw [hw']
    exact AllLt.append sm3 (AllLt.cons (Nat.mod_lt _ W_pos) (AllLt.cons (Nat.div_lt_of_lt_mul hrrlt) AllLt.nil))
  rw [← hw'] at h2
  unfold armB
  rw [eArr, h1, osub_eq]
  dsimp only
  rw [← hrr, h2, ← hw']
  by_cases hb : r < sm.2
  · simp only [hb, decide_true, if_true]
    rw [armB3_eq fuel ds n j pre w' (c2 :: post) hj hw'l.symm hdsl.symm,
      gen_adc_eq fuel w' ds (by omega) (by omega) (by omega) hw'A hdsA, wpred_eq]
    obtain ⟨_, a2, _⟩ := adcN_spec W W_pos w' ds 0 (by omega)
    rw [st pre _ post c2 _ (j + n) (by omega)]
    simp
  · simp only [hb, decide_false, if_false, Bool.false_eq_true]
    rw [st pre w' post c2 _ (j + n) (by omega)]
    simp

/-! ### shape of the model step: lengths and limb ranges, no arithmetic precondition -/

theorem nB_shape (low dlow : List ℕ) (e0 e1 q r : ℕ) (hlen : low.length = dlow.length) (hlow : Ruint.AllLt low)
    (hq : q < W) :
    (nB low dlow e0 e1 q r).2.length = low.length + 2 ∧ Ruint.AllLt (nB low dlow e0 e1 q r).2
      ∧ (nB low dlow e0 e1 q r).1 < W := by
  obtain ⟨_, sm2, sm3⟩ := submulNx1_spec W W_pos low dlow q 0 0 hlen hlow
  unfold nB
  simp only []
  obtain ⟨sm, hsm⟩ : ∃ s, s = submulNx1 W low dlow q 0 0 := ⟨_, rfl⟩
  rw [← hsm] at sm2 sm3 ⊢
  have hWW : 0 < W * W := Nat.mul_pos W_pos W_pos
  obtain ⟨rr, hrr⟩ : ∃ x, x = (r + W * W - sm.2) % (W * W) := ⟨_, rfl⟩
  have hrrlt : rr < W * W := by rw [hrr]; exact Nat.mod_lt _ hWW
  rw [← hrr]
  obtain ⟨w', hw'⟩ : ∃ w, w = sm.1 ++ [rr % W, rr / W] := ⟨_, rfl⟩
  have hw'l : w'.length = low.length + 2 := by rw [hw']; simp; omega
  have hw'A : Ruint.AllLt w' := by
    rw [hw']
    exact AllLt.append sm3 (AllLt.cons (Nat.mod_lt _ W_pos) (AllLt.cons (Nat.div_lt_of_lt_mul hrrlt) AllLt.nil))
  rw [← hw']
  by_cases hb : r < sm.2
  · simp only [hb, if_true]
    obtain ⟨_, a2, a3⟩ := adcN_spec W W_pos w' (dlow ++ [e0, e1]) 0 (by rw [hw'l]; simp [hlen])
    exact ⟨by rw [a2, hw'l], a3, Nat.mod_lt _ W_pos⟩
  · simp only [hb, if_false]
    exact ⟨hw'l, hw'A, hq⟩

theorem nstep_shape (low : List ℕ) (c0 c1 c2 : ℕ) (dlow : List ℕ) (e0 e1 v : ℕ) (hlen : low.length = dlow.length)
    (hlow : Ruint.AllLt low) (hc0 : c0 < W) (hc1 : c1 < W) :
    (KN.nstep W low c0 c1 c2 dlow e0 e1 v).2.length = low.length + 2
      ∧ Ruint.AllLt (KN.nstep W low c0 c1 c2 dlow e0 e1 v).2 ∧ (KN.nstep W low c0 c1 c2 dlow e0 e1 v).1 < W := by
  rw [nstep_eq]
  by_cases h : c2 * W + c1 = e1 * W + e0
  · rw [if_pos h]
    have hA : Ruint.AllLt (low ++ [c0, c1]) := AllLt.append hlow (AllLt.cons hc0 (AllLt.cons hc1 AllLt.nil))
    obtain ⟨_, sm2, sm3⟩ := submulNx1_spec W W_pos (low ++ [c0, c1]) (dlow ++ [e0, e1]) (W - 1) 0 0
      (by simp [hlen]) hA
    have hW := W_pos
    exact ⟨by rw [sm2]; simp, sm3, by dsimp only; omega⟩
  · rw [if_neg h]
    exact nB_shape low dlow e0 e1 _ _ hlen hlow (div3x2_fst_lt _ _ _ _)

/-! ### the model step on a decomposed array -/

theorem nstepL_decomp (low : List ℕ) (c0 c1 c2 : ℕ) (dlow : List ℕ) (e0 e1 v : ℕ) (hlen : low.length = dlow.length) :
    KN.nstepL W (low ++ [c0, c1, c2]) (dlow ++ [e0, e1]) v = KN.nstep W low c0 c1 c2 dlow e0 e1 v := by
  unfold KN.nstepL
  have hk : (dlow ++ [e0, e1]).length - 2 = low.length := by simp [hlen]
  simp only [hk]
  have t1 : (low ++ [c0, c1, c2]).take low.length = low := List.take_left
  have t2 : (dlow ++ [e0, e1]).take low.length = dlow := by rw [hlen]; exact List.take_left
  have g0 : (low ++ [c0, c1, c2]).getD low.length 0 = c0 := by simp
  have g1 : (low ++ [c0, c1, c2]).getD (low.length + 1) 0 = c1 := by simp
  have g2 : (low ++ [c0, c1, c2]).getD (low.length + 2) 0 = c2 := by simp
  have d0 : (dlow ++ [e0, e1]).getD low.length 0 = e0 := by rw [hlen]; simp
  have d1 : (dlow ++ [e0, e1]).getD (low.length + 1) 0 = e1 := by rw [hlen]; simp
  rw [t1, t2, g0, g1, g2, d0, d1]

theorem narrStep_decomp (v : ℕ) (pre low post dlow : List ℕ) (c0 c1 c2 e0 e1 : ℕ) (hlen : low.length = dlow.length) :
    KN.narrStep W (dlow ++ [e0, e1]) v (pre ++ low ++ [c0, c1, c2] ++ post) pre.length
      = if c2 * W + c1 > e1 * W + e0 then none
        else some (pre ++ (KN.nstep W low c0 c1 c2 dlow e0 e1 v).2 ++ [(KN.nstep W low c0 c1 c2 dlow e0 e1 v).1] ++ post) := by
  unfold KN.narrStep
  have hn : (dlow ++ [e0, e1]).length = low.length + 2 := by simp [hlen]
  have eArr : pre ++ low ++ [c0, c1, c2] ++ post = pre ++ (low ++ [c0, c1, c2]) ++ post := by simp
  have hw : ((pre ++ low ++ [c0, c1, c2] ++ post).drop pre.length).take (low.length + 2 + 1) = low ++ [c0, c1, c2] := by
    rw [eArr]; exact drtk pre _ post _ _ rfl (by simp)
  have htk : (pre ++ low ++ [c0, c1, c2] ++ post).take pre.length = pre := by
    rw [eArr]; exact tk pre _ post _ rfl
  have hdr : (pre ++ low ++ [c0, c1, c2] ++ post).drop (pre.length + (low.length + 2) + 1) = post := by
    rw [eArr]; exact dr pre _ post _ (by simp; omega)
  have g1 : (low ++ [c0, c1, c2]).getD (low.length + 2 - 1) 0 = c1 := by
    rw [show low.length + 2 - 1 = low.length + 1 from rfl]; simp
  have g2 : (low ++ [c0, c1, c2]).getD (low.length + 2) 0 = c2 := by simp
  have d0 : (dlow ++ [e0, e1]).getD (low.length + 2 - 2) 0 = e0 := by
    rw [show low.length + 2 - 2 = low.length from rfl, hlen]; simp
  have d1 : (dlow ++ [e0, e1]).getD (low.length + 2 - 1) 0 = e1 := by
    rw [show low.length + 2 - 1 = low.length + 1 from rfl, hlen]; simp
  simp only [hn, hw, htk, hdr, g1, g2, d0, d1, nstepL_decomp low c0 c1 c2 dlow e0 e1 v hlen]

/-! ### one iteration: generated step = model step -/

theorem getD3 (pre low post : List ℕ) (c0 c1 c2 : ℕ) (j n : ℕ) (hj : j = pre.length) (hn : n = low.length + 2) :
    (pre ++ low ++ [c0, c1, c2] ++ post).getD (j + n) 0 = c2
    ∧ (pre ++ low ++ [c0, c1, c2] ++ post).getD (j + n - 1) 0 = c1
    ∧ (pre ++ low ++ [c0, c1, c2] ++ post).getD (j + n - 2) 0 = c0 := by
  have eA : pre ++ low ++ [c0, c1, c2] ++ post = pre ++ (low ++ [c0, c1]) ++ c2 :: post := by simp
  have eB : pre ++ low ++ [c0, c1, c2] ++ post = pre ++ (low ++ [c0]) ++ c1 :: (c2 :: post) := by simp
  have eC : pre ++ low ++ [c0, c1, c2] ++ post = pre ++ low ++ c0 :: (c1 :: c2 :: post) := by simp
  refine ⟨?_, ?_, ?_⟩
  · rw [eA]; exact gt pre _ post c2 _ (by simp; omega)
  · rw [eB]; exact gt pre _ _ c1 _ (by simp; omega)
  · rw [eC]; exact gt pre _ _ c0 _ (by omega)

theorem step_decomp (fuel v d : ℕ) (pre low post dlow : List ℕ) (c0 c1 c2 e0 e1 : ℕ)
    (hlen : low.length = dlow.length) (hlow : Ruint.AllLt low) (hdlow : Ruint.AllLt dlow)
    (hc0 : c0 < W) (hc1 : c1 < W) (hc2 : c2 < W) (he0 : e0 < W) (he1 : e1 < W)
    (h64 : pre.length + (low.length + 2) < 2 ^ 64) (hfuel : low.length + 2 < fuel)
    (hd : d = e1 * W + e0)
    (h3x2 : ∀ u21 u0, u21 < d → u0 < 2 ^ 64 → Ruint.Gen.div_3x2_mg10 u21 u0 d v = div3x2w u21 u0 d v)
    (hle : c2 * W + c1 ≤ e1 * W + e0) :
    Ruint.Gen.div_nxm_normalized_step1 fuel (dlow ++ [e0, e1]) (low.length + 2) d v 0
        (pre.length + 1, pre ++ low ++ [c0, c1, c2] ++ post)
      = ((pre.length, pre ++ (KN.nstep W low c0 c1 c2 dlow e0 e1 v).2 ++ [(KN.nstep W low c0 c1 c2 dlow e0 e1 v).1] ++ post),
          true) := by
  obtain ⟨g2, g1, g0⟩ := getD3 pre low post c0 c1 c2 pre.length (low.length + 2) rfl rfl
  have hj := Ruint.Div.GenLoops.join_eq c2 c1 hc2 hc1
  rw [step_eq fuel _ _ d v pre.length _ (by omega) h64, g2, g1, g0, hj, nstep_eq]
  have hjW : c2 * 2 ^ 64 + c1 = c2 * W + c1 := rfl
  rw [hjW]
  by_cases h21 : c2 * W + c1 = e1 * W + e0
  · rw [if_pos (by rw [hd]; exact h21), if_pos h21]
    rw [armA_decomp fuel pre low post dlow c0 c1 c2 e0 e1 _ _ rfl rfl hlen hlow hdlow hc0 hc1 he0 he1 (by omega) hfuel]
  · rw [if_neg (by rw [hd]; exact h21), if_neg h21]
    have hlt : c2 * W + c1 < d := by rw [hd]; omega
    rw [h3x2 _ _ hlt hc0]
    have hq : (div3x2w (c2 * W + c1) c0 d v).1 < W := div3x2_fst_lt _ _ _ _
    rw [armB_decomp fuel pre low post dlow c0 c1 c2 e0 e1 _ _ _ _ rfl rfl hlen hlow hdlow he0 he1 hq (by omega) hfuel]
    rw [hd]
    rfl

theorem split3 (arr : List ℕ) (j m : ℕ) :
    arr = arr.take j ++ (arr.drop j).take m ++ arr.drop (j + m) := by
  have h : arr.drop (j + m) = (arr.drop j).drop m := by rw [List.drop_drop]
  rw [h, List.append_assoc, List.take_append_drop, List.take_append_drop]

/-- one iteration on any array on which the model step succeeds: the generated step produces the model's array;
    limbs stay words and the length is unchanged. -/
theorem step_sim (fuel v d : ℕ) (ds arr arr' : List ℕ) (j : ℕ) (hds : Ruint.AllLt ds) (h2 : 2 ≤ ds.length)
    (harr : Ruint.AllLt arr) (hj : j + ds.length < arr.length) (h64 : arr.length < 2 ^ 64) (hfuel : ds.length < fuel)
    (hd : d = ds.getD (ds.length - 1) 0 * W + ds.getD (ds.length - 2) 0)
    (h3x2 : ∀ u21 u0, u21 < d → u0 < 2 ^ 64 → Ruint.Gen.div_3x2_mg10 u21 u0 d v = div3x2w u21 u0 d v)
    (hs : KN.narrStep W ds v arr j = some arr') :
    Ruint.Gen.div_nxm_normalized_step1 fuel ds ds.length d v 0 (j + 1, arr) = ((j, arr'), true)
      ∧ Ruint.AllLt arr' ∧ arr'.length = arr.length := by
  obtain ⟨k, hk⟩ : ∃ k, k = ds.length - 2 := ⟨_, rfl⟩
  have hdl : ds.length = k + 2 := by omega
  have e1i : ds.length - 1 = k + 1 := by omega
  have e2i : ds.length - 2 = k := by omega
  rw [e1i, e2i] at hd
  have dd := KN.decomp2 ds k hdl
  have hsplit := split3 arr j (ds.length + 1)
  obtain ⟨w, hw⟩ : ∃ w, w = (arr.drop j).take (ds.length + 1) := ⟨_, rfl⟩
  have hwl : w.length = k + 3 := by rw [hw]; simp; omega
  have dw := KLoop.decomp3 w k hwl
  rw [← hw] at hsplit
  obtain ⟨pre, hpre⟩ : ∃ p, p = arr.take j := ⟨_, rfl⟩
  obtain ⟨post, hpost⟩ : ∃ p, p = arr.drop (j + (ds.length + 1)) := ⟨_, rfl⟩
  have hprel : pre.length = j := by rw [hpre]; simp; omega
  rw [← hpre, ← hpost] at hsplit
  obtain ⟨low, hlow'⟩ : ∃ l, l = w.take k := ⟨_, rfl⟩
  obtain ⟨dlow, hdlow'⟩ : ∃ l, l = ds.take k := ⟨_, rfl⟩
  obtain ⟨c0, hc0'⟩ : ∃ x, x = w.getD k 0 := ⟨_, rfl⟩
  obtain ⟨c1, hc1'⟩ : ∃ x, x = w.getD (k + 1) 0 := ⟨_, rfl⟩
  obtain ⟨c2, hc2'⟩ : ∃ x, x = w.getD (k + 2) 0 := ⟨_, rfl⟩
  obtain ⟨e0, he0'⟩ : ∃ x, x = ds.getD k 0 := ⟨_, rfl⟩
  obtain ⟨e1, he1'⟩ : ∃ x, x = ds.getD (k + 1) 0 := ⟨_, rfl⟩
  rw [← hlow', ← hc0', ← hc1', ← hc2'] at dw
  rw [← hdlow', ← he0', ← he1'] at dd
  rw [← he0', ← he1'] at hd
  have hlowl : low.length = k := by rw [hlow']; simp; omega
  have hdlowl : dlow.length = k := by rw [hdlow']; simp; omega
  have hlen : low.length = dlow.length := by omega
  rw [dw] at hsplit
  have harrE : arr = pre ++ low ++ [c0, c1, c2] ++ post := by rw [hsplit]; simp
  clear hsplit hpre hpost hw dw hlow' hc0' hc1' hc2' hdlow' he0' he1' hwl
  subst harrE
  subst dd
  subst hprel
  have hpreA : Ruint.AllLt (pre ++ low ++ [c0, c1, c2]) := harr.left
  have hlow : Ruint.AllLt low := hpreA.left.right
  have hc0 : c0 < W := hpreA c0 (by simp)
  have hc1 : c1 < W := hpreA c1 (by simp)
  have hc2 : c2 < W := hpreA c2 (by simp)
  have hdlow : Ruint.AllLt dlow := hds.left
  have he0 : e0 < W := hds e0 (by simp)
  have he1 : e1 < W := hds e1 (by simp)
  have hn : (dlow ++ [e0, e1]).length = low.length + 2 := by simp [hlen]
  have hal : (pre ++ low ++ [c0, c1, c2] ++ post).length = pre.length + (low.length + 2) + 1 + post.length := by
    simp; omega
  rw [narrStep_decomp v pre low post dlow c0 c1 c2 e0 e1 hlen] at hs
  by_cases hgt : c2 * W + c1 > e1 * W + e0
  · rw [if_pos hgt] at hs; exact absurd hs (by simp)
  · rw [if_neg hgt] at hs
    have hs' := Option.some.inj hs
    obtain ⟨s1, s2, s3⟩ := nstep_shape low c0 c1 c2 dlow e0 e1 v hlen hlow hc0 hc1
    rw [hn]
    rw [step_decomp fuel v d pre low post dlow c0 c1 c2 e0 e1 hlen hlow hdlow hc0 hc1 hc2 he0 he1 (by omega) (by omega)
      hd h3x2 (by omega), hs']
    refine ⟨rfl, ?_, ?_⟩
    · rw [← hs']
      exact AllLt.append (AllLt.append (AllLt.append hpreA.left.left s2) (AllLt.cons s3 AllLt.nil)) harr.right
    · rw [← hs', hal]
      simp only [List.length_append, s1, List.length_singleton]

/-! ### the loop -/

theorem step_zero (fuel : ℕ) (ds : List ℕ) (n d v : ℕ) (arr : List ℕ) :
    Ruint.Gen.div_nxm_normalized_step1 fuel ds n d v 0 (0, arr) = ((0, arr), false) := by
  unfold Ruint.Gen.div_nxm_normalized_step1
  simp only [gt_iff_lt, Nat.lt_irrefl, decide_false, Bool.false_eq_true, if_false]

theorem loop_eq (fuel v d : ℕ) (ds : List ℕ) (hds : Ruint.AllLt ds) (h2 : 2 ≤ ds.length) (hfuel : ds.length < fuel)
    (hd : d = ds.getD (ds.length - 1) 0 * W + ds.getD (ds.length - 2) 0)
    (h3x2 : ∀ u21 u0, u21 < d → u0 < 2 ^ 64 → Ruint.Gen.div_3x2_mg10 u21 u0 d v = div3x2w u21 u0 d v) :
    ∀ (k : ℕ) (arr r : List ℕ) (f : ℕ), Ruint.AllLt arr → k + ds.length ≤ arr.length → arr.length < 2 ^ 64 → k < f →
      KN.narrLoop W ds v k arr = some r →
      Rs.loop (Ruint.Gen.div_nxm_normalized_step1 fuel ds ds.length d v 0) f (k, arr) = (0, r) := by
  intro k
  induction k with
  | zero =>
    intro arr r f _ _ _ hf hm
    obtain ⟨f, rfl⟩ : ∃ g, f = g + 1 := ⟨f - 1, by omega⟩
    have e : arr = r := by
      rw [KN.narrLoop] at hm
      exact Option.some.inj hm
    rw [loop_succ, step_zero, e]
    simp
  | succ k ih =>
    intro arr r f harr hk h64 hf hm
    obtain ⟨f, rfl⟩ : ∃ g, f = g + 1 := ⟨f - 1, by omega⟩
    rw [KN.narrLoop] at hm
    cases hstep : KN.narrStep W ds v arr k with
    | none => rw [hstep] at hm; exact absurd hm (by simp)
    | some arr' =>
      rw [hstep] at hm
      obtain ⟨s1, s2, s3⟩ := step_sim fuel v d ds arr arr' k hds h2 harr (by omega) h64 hfuel hd h3x2 hstep
      rw [loop_succ, s1]
      simp only [if_true]
      exact ih arr' r f s2 (by omega) (by omega) (by omega) hm

theorem getD_lt (l : List ℕ) (h : Ruint.AllLt l) (i : ℕ) : l.getD i 0 < W := by
  rw [List.getD_eq_getElem?_getD]
  cases hq : l[i]? with
  | none => exact W_pos
  | some x => exact h x (List.mem_of_getElem? hq)

theorem d_range (e1 e0 : ℕ) (h1 : 2 ^ 63 ≤ e1) (h2 : e1 < W) (h0 : e0 < W) :
    2 ^ 127 ≤ e1 * W + e0 ∧ e1 * W + e0 < 2 ^ 128 := by
  unfold W at *
  constructor <;> omega

/-- **`div_nxm_normalized` as generated from the source** = the C14 array model, whenever the model does not panic
    (`debug_assert!(n21 <= d)` never fires and `numerator.len() - n - 1` does not underflow). -/
theorem div_nxm_normalized_eq (num ds r : List ℕ) (hn : Ruint.AllLt num) (hd : Ruint.AllLt ds) (h2 : 2 ≤ ds.length)
    (htop : 2 ^ 63 ≤ ds.getD (ds.length - 1) 0) (h64 : num.length < 2 ^ 64)
    (hm : Ruint.Div.divNxmNormalized num ds = some r) (f : ℕ) (hf : num.length + 1 < f) :
    Ruint.Gen.div_nxm_normalized f num ds = r := by
  unfold divNxmNormalized KN.divNxmNormArr at hm
  simp only [] at hm
  by_cases hlt : num.length < ds.length + 1
  · rw [if_pos hlt] at hm; exact absurd hm (by simp)
  rw [if_neg hlt] at hm
  have he1W := getD_lt ds hd (ds.length - 1)
  have he0W := getD_lt ds hd (ds.length - 2)
  obtain ⟨e1, he1⟩ : ∃ x, x = ds.getD (ds.length - 1) 0 := ⟨_, rfl⟩
  obtain ⟨e0, he0⟩ : ∃ x, x = ds.getD (ds.length - 2) 0 := ⟨_, rfl⟩
  have w1 : Rs.wsub 64 (Rs.wsub 64 num.length ds.length) 1 = num.length - ds.length - 1 := by
    unfold Rs.wsub; omega
  have w2 : Rs.wadd 64 (num.length - ds.length - 1) 1 = num.length - ds.length := by unfold Rs.wadd; omega
  have w3 : Rs.wsub 64 ds.length 1 = ds.length - 1 := by unfold Rs.wsub; omega
  have w4 : Rs.wsub 64 ds.length 2 = ds.length - 2 := by unfold Rs.wsub; omega
  have hk : num.length - ds.length + ds.length ≤ num.length := by omega
  have hkf : num.length - ds.length < f := by omega
  have hfuel : ds.length < f := by omega
  rw [← he1, ← he0] at hm
  rw [← he1] at htop he1W
  rw [← he0] at he0W
  have hj := Ruint.Div.GenLoops.join_eq e1 e0 he1W he0W
  obtain ⟨d, hdd⟩ : ∃ d, d = e1 * W + e0 := ⟨_, rfl⟩
  have hj' : Ruint.Gen.dw_join e1 e0 = d := by rw [hj, hdd]; rfl
  obtain ⟨r1, r2⟩ := d_range e1 e0 htop he1W he0W
  rw [← hdd] at hm r1 r2
  have hrec := gen_reciprocal_2_eq d r1 r2
  have h3x2 : ∀ u21 u0, u21 < d → u0 < 2 ^ 64 →
      Ruint.Gen.div_3x2_mg10 u21 u0 d (reciprocal2 d) = div3x2w u21 u0 d (reciprocal2 d) := by
    intro u21 u0 hu hu0
    have hv := recip2Spec_facts d r1 r2
    rw [← reciprocal2_eq d r1 r2] at hv
    exact gen_div_3x2_eq u21 u0 d (reciprocal2 d) r2 hv.1 hu hu0 hv.2
  clear r1 r2 htop
  have hl := loop_eq f (reciprocal2 d) d ds hd h2 hfuel (by rw [← he1, ← he0]; exact hdd) h3x2
    (num.length - ds.length) num r f hn hk h64 hkf hm
  unfold Ruint.Gen.div_nxm_normalized
  simp only [w1, w2, w3, w4]
  rw [← he1, ← he0, hj', hrec, hl]

end Ruint.Div.GenKnuthN
