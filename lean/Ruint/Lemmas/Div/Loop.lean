import Ruint.Lemmas.Div.Step

namespace Ruint.Div.KLoop
open KStep

/-- a list of length `k+4` split at `k` (the Rust code indexes `numerator[j+n-3 ..= j+n]`). -/
theorem decomp4 (w : List ℕ) (k : ℕ) (h : w.length = k + 4) :
    w = w.take k ++ [w.getD k 0, w.getD (k + 1) 0, w.getD (k + 2) 0, w.getD (k + 3) 0] := by
  induction k generalizing w with
  | zero =>
    match w, h with
    | [a, b, c, e], _ => simp
  | succ k ih =>
    match w, h with
    | x :: w', h =>
      have h' : w'.length = k + 4 := by simpa using h
      have := ih w' h'
      simp only [List.take_succ_cons, List.cons_append, List.getD_cons_succ]
      rw [← this]

theorem decomp3 (w : List ℕ) (k : ℕ) (h : w.length = k + 3) :
    w = w.take k ++ [w.getD k 0, w.getD (k + 1) 0, w.getD (k + 2) 0] := by
  induction k generalizing w with
  | zero =>
    match w, h with
    | [a, b, c], _ => simp
  | succ k ih =>
    match w, h with
    | x :: w', h =>
      have h' : w'.length = k + 3 := by simpa using h
      have := ih w' h'
      simp only [List.take_succ_cons, List.cons_append, List.getD_cons_succ]
      rw [← this]


theorem kstepL_spec (T U : ℕ) (w ds : List ℕ) (d v : ℕ)
    (hT : 0 < T) (hU : 0 < U) (hW2 : 2 ≤ T * U)
    (hw : AllLt (T * U) w) (hds : AllLt (T * U) ds) (hlen : w.length = ds.length + 1) (h3 : 3 ≤ ds.length)
    (hn1 : T * U ≤ 2 * (ds.getD (ds.length - 1) 0 * T)) (hn2 : ds.getD (ds.length - 1) 0 * T < T * U)
    (hwin : val (T * U) w < val (T * U) ds * (T * U))
    (hd : d = (ds.getD (ds.length - 1) 0 * (T * U) + ds.getD (ds.length - 2) 0) * T + ds.getD (ds.length - 3) 0 / U)
    (hv : v = recip2Spec (T * U) d) :
    val (T * U) w = (kstepL T U w ds d v).1 * val (T * U) ds + val (T * U) (kstepL T U w ds d v).2
    ∧ val (T * U) (kstepL T U w ds d v).2 < val (T * U) ds
    ∧ (kstepL T U w ds d v).2.length = ds.length
    ∧ AllLt (T * U) (kstepL T U w ds d v).2
    ∧ (kstepL T U w ds d v).1 < T * U := by
  obtain ⟨k, hk⟩ : ∃ k, k = ds.length - 3 := ⟨_, rfl⟩
  have hdl : ds.length = k + 3 := by omega
  have hwl : w.length = k + 4 := by omega
  have e1i : ds.length - 1 = k + 2 := by omega
  have e2i : ds.length - 2 = k + 1 := by omega
  have e3i : ds.length - 3 = k := by omega
  rw [e1i] at hn1 hn2 hd
  rw [e2i, e3i] at hd
  have dw := decomp4 w k hwl
  have dd := decomp3 ds k hdl
  unfold kstepL
  simp only []
  rw [← hk]
  obtain ⟨low', hlow'⟩ : ∃ l, l = w.take k := ⟨_, rfl⟩
  obtain ⟨dlow', hdlow'⟩ : ∃ l, l = ds.take k := ⟨_, rfl⟩
  obtain ⟨nm, hnm⟩ : ∃ x, x = w.getD k 0 := ⟨_, rfl⟩
  obtain ⟨c0, hc0⟩ : ∃ x, x = w.getD (k + 1) 0 := ⟨_, rfl⟩
  obtain ⟨c1, hc1⟩ : ∃ x, x = w.getD (k + 2) 0 := ⟨_, rfl⟩
  obtain ⟨c2, hc2⟩ : ∃ x, x = w.getD (k + 3) 0 := ⟨_, rfl⟩
  obtain ⟨dm, hdm⟩ : ∃ x, x = ds.getD k 0 := ⟨_, rfl⟩
  obtain ⟨e0, he0⟩ : ∃ x, x = ds.getD (k + 1) 0 := ⟨_, rfl⟩
  obtain ⟨e1, he1⟩ : ∃ x, x = ds.getD (k + 2) 0 := ⟨_, rfl⟩
  rw [← hlow', ← hnm, ← hc0, ← hc1, ← hc2] at dw ⊢
  rw [← hdlow', ← hdm, ← he0, ← he1] at dd ⊢
  rw [← he1] at hn1 hn2 hd
  rw [← he0, ← hdm] at hd
  have hlowlen : low'.length = k := by rw [hlow']; simp; omega
  have hdlowlen : dlow'.length = k := by rw [hdlow']; simp; omega
  have hwa : AllLt (T * U) (low' ++ [nm, c0, c1, c2]) := by rw [← dw]; exact hw
  have hda : AllLt (T * U) (dlow' ++ [dm, e0, e1]) := by rw [← dd]; exact hds
  have key := kstepD_spec T U low' nm c0 c1 c2 dlow' dm e0 e1 d v hT hU hW2
    (fun x hx => hwa x (by simp [hx])) (fun x hx => hda x (by simp [hx]))
    (by rw [hlowlen, hdlowlen])
    (hwa nm (by simp)) (hwa c0 (by simp)) (hwa c1 (by simp))
    (hda dm (by simp)) (hda e0 (by simp)) (hda e1 (by simp))
    hn1 hn2 (by rw [← dw, ← dd]; exact hwin) hd hv
  rw [← dw, ← dd] at key
  rw [hdl, ← hlowlen]
  exact key

/-- the `for j in (0..=m).rev()` loop, functionally: `los` = the not yet consumed low limbs,
    most significant first; `r` = current `n`-limb remainder. Returns quotient digits (LE) and remainder. -/
def kloop (T U : ℕ) (ds : List ℕ) (d v : ℕ) : List ℕ → List ℕ → List ℕ × List ℕ
  | [], r => ([], r)
  | x :: los, r =>
    let s := kstepL T U (x :: r) ds d v
    let t := kloop T U ds d v los s.2
    (t.1 ++ [s.1], t.2)

theorem kloop_spec (T U : ℕ) (ds : List ℕ) (d v : ℕ)
    (hT : 0 < T) (hU : 0 < U) (hW2 : 2 ≤ T * U)
    (hds : AllLt (T * U) ds) (h3 : 3 ≤ ds.length)
    (hn1 : T * U ≤ 2 * (ds.getD (ds.length - 1) 0 * T)) (hn2 : ds.getD (ds.length - 1) 0 * T < T * U)
    (hd : d = (ds.getD (ds.length - 1) 0 * (T * U) + ds.getD (ds.length - 2) 0) * T + ds.getD (ds.length - 3) 0 / U)
    (hv : v = recip2Spec (T * U) d)
    (los r : List ℕ) (hlos : AllLt (T * U) los) (hr : AllLt (T * U) r) (hrl : r.length = ds.length)
    (hrD : val (T * U) r < val (T * U) ds) :
    val (T * U) los.reverse + (T * U) ^ los.length * val (T * U) r
      = val (T * U) (kloop T U ds d v los r).1 * val (T * U) ds + val (T * U) (kloop T U ds d v los r).2
    ∧ val (T * U) (kloop T U ds d v los r).2 < val (T * U) ds
    ∧ (kloop T U ds d v los r).1.length = los.length
    ∧ (kloop T U ds d v los r).2.length = ds.length
    ∧ AllLt (T * U) (kloop T U ds d v los r).1
    ∧ AllLt (T * U) (kloop T U ds d v los r).2 := by
  induction los generalizing r with
  | nil =>
    simp only [kloop, List.reverse_nil, val_nil, List.length_nil, pow_zero, Nat.one_mul, Nat.zero_mul, Nat.zero_add]
    exact ⟨trivial, hrD, trivial, hrl, fun x hx => by simp at hx, hr⟩
  | cons x los ih =>
    have hx : x < T * U := hlos x (by simp)
    have hlos' : AllLt (T * U) los := fun y hy => hlos y (by simp [hy])
    have hwall : AllLt (T * U) (x :: r) := by
      intro y hy; simp at hy; rcases hy with rfl | hy
      · exact hx
      · exact hr y hy
    have hwin : val (T * U) (x :: r) < val (T * U) ds * (T * U) := by
      rw [val_cons]
      have : (T * U) * (val (T * U) r + 1) ≤ (T * U) * val (T * U) ds := Nat.mul_le_mul_left _ hrD
      rw [Nat.mul_add, Nat.mul_one, Nat.mul_comm (T * U) (val (T * U) ds)] at this
      omega
    obtain ⟨s1, s2, s3, s4, s5⟩ := kstepL_spec T U (x :: r) ds d v hT hU hW2 hwall hds
      (by simp [hrl]) h3 hn1 hn2 hwin hd hv
    simp only [kloop]
    obtain ⟨s, hs⟩ : ∃ s, s = kstepL T U (x :: r) ds d v := ⟨_, rfl⟩
    rw [← hs] at s1 s2 s3 s4 s5 ⊢
    obtain ⟨i1, i2, i3, i4, i5, i6⟩ := ih s.2 hlos' s4 s3 s2
    obtain ⟨t, ht⟩ : ∃ t, t = kloop T U ds d v los s.2 := ⟨_, rfl⟩
    rw [← ht] at i1 i2 i3 i4 i5 i6 ⊢
    refine ⟨?_, i2, by simp [i3], i4, ?_, i6⟩
    · rw [List.reverse_cons, val_append, val_append, List.length_reverse, List.length_cons, i3]
      simp only [val_cons, val_nil, Nat.mul_zero, Nat.add_zero]
      rw [val_cons] at s1
      obtain ⟨P, hP⟩ : ∃ P, P = (T * U) ^ los.length := ⟨_, rfl⟩
      rw [pow_succ, ← hP]
      rw [← hP] at i1
      have e1 : val (T * U) los.reverse + P * x + P * (T * U) * val (T * U) r
          = val (T * U) los.reverse + P * (x + (T * U) * val (T * U) r) := by ring
      rw [e1, s1]
      have e2 : val (T * U) los.reverse + P * (s.1 * val (T * U) ds + val (T * U) s.2)
          = (val (T * U) los.reverse + P * val (T * U) s.2) + P * s.1 * val (T * U) ds := by ring
      rw [e2, i1]; ring
    · intro y hy
      rcases List.mem_append.mp hy with h | h
      · exact i5 y h
      · simp at h; rw [h]; exact s5


/-- `div_nxm` at value level: the prologue's `d`, `v` and the loop started on the top `n-1` limbs
    extended by a zero limb (`numerator.get(j + n).unwrap_or_default()` at `j = m`). -/
def knuthDiv (T U : ℕ) (num ds : List ℕ) (d v : ℕ) : List ℕ × List ℕ :=
  let m := num.length - ds.length
  kloop T U ds d v (num.take (m + 1)).reverse (num.drop (m + 1) ++ [0])

theorem knuthDiv_spec (T U : ℕ) (num ds : List ℕ) (d v : ℕ)
    (hT : 0 < T) (hU : 0 < U) (hW2 : 2 ≤ T * U)
    (hnum : AllLt (T * U) num) (hds : AllLt (T * U) ds) (h3 : 3 ≤ ds.length) (hlen : ds.length ≤ num.length)
    (hn1 : T * U ≤ 2 * (ds.getD (ds.length - 1) 0 * T)) (hn2 : ds.getD (ds.length - 1) 0 * T < T * U)
    (hd : d = (ds.getD (ds.length - 1) 0 * (T * U) + ds.getD (ds.length - 2) 0) * T + ds.getD (ds.length - 3) 0 / U)
    (hv : v = recip2Spec (T * U) d) :
    val (T * U) num = val (T * U) (knuthDiv T U num ds d v).1 * val (T * U) ds + val (T * U) (knuthDiv T U num ds d v).2
    ∧ val (T * U) (knuthDiv T U num ds d v).2 < val (T * U) ds
    ∧ (knuthDiv T U num ds d v).1.length = num.length - ds.length + 1
    ∧ (knuthDiv T U num ds d v).2.length = ds.length
    ∧ AllLt (T * U) (knuthDiv T U num ds d v).1
    ∧ AllLt (T * U) (knuthDiv T U num ds d v).2 := by
  obtain ⟨W, hW⟩ : ∃ W, W = T * U := ⟨_, rfl⟩
  obtain ⟨m, hm⟩ : ∃ m, m = num.length - ds.length := ⟨_, rfl⟩
  obtain ⟨k, hk⟩ : ∃ k, k = ds.length - 3 := ⟨_, rfl⟩
  have hdl : ds.length = k + 3 := by omega
  have hW0 : 0 < T * U := by omega
  -- divisor value is at least W^(n-1)
  have hDlow : (T * U) ^ (k + 2) ≤ val (T * U) ds := by
    have dd := decomp3 ds k hdl
    have e1pos : 0 < ds.getD (k + 2) 0 := by
      have : ds.length - 1 = k + 2 := by omega
      rw [this] at hn1
      rcases Nat.eq_zero_or_pos (ds.getD (k + 2) 0) with h | h
      · rw [h] at hn1; omega
      · exact h
    rw [dd, val3]
    have hl : (ds.take k).length = k := by simp; omega
    rw [hl]
    have : (T * U) ^ (k + 2) ≤ ds.getD (k + 2) 0 * (T * U) ^ (k + 2) := Nat.le_mul_of_pos_left _ e1pos
    have e : (ds.getD (k + 2) 0 * (T * U) + ds.getD (k + 1) 0) * (T * U) ^ (k + 1)
        = ds.getD (k + 2) 0 * (T * U) ^ (k + 2) + ds.getD (k + 1) 0 * (T * U) ^ (k + 1) := by ring
    rw [e]; omega
  have hlo : AllLt (T * U) (num.take (m + 1)).reverse := by
    intro x hx; exact hnum x (List.mem_of_mem_take (List.mem_reverse.mp hx))
  have hhiall : AllLt (T * U) (num.drop (m + 1)) := fun x hx => hnum x (List.mem_of_mem_drop hx)
  have hr0 : AllLt (T * U) (num.drop (m + 1) ++ [0]) := by
    apply allLt_append hhiall; intro x hx; simp at hx; rw [hx]; exact hW0
  have hdroplen : (num.drop (m + 1)).length = k + 2 := by simp; omega
  have hr0l : (num.drop (m + 1) ++ [0]).length = ds.length := by simp; omega
  have hr0v : val (T * U) (num.drop (m + 1) ++ [0]) = val (T * U) (num.drop (m + 1)) := by
    rw [val_append]; simp
  have hr0D : val (T * U) (num.drop (m + 1) ++ [0]) < val (T * U) ds := by
    rw [hr0v]
    have := val_lt_pow (T * U) _ hhiall
    rw [hdroplen] at this; omega
  have key := kloop_spec T U ds d v hT hU hW2 hds h3 hn1 hn2 hd hv
    (num.take (m + 1)).reverse (num.drop (m + 1) ++ [0]) hlo hr0 hr0l hr0D
  unfold knuthDiv
  simp only []
  rw [← hm]
  obtain ⟨t, ht⟩ : ∃ t, t = kloop T U ds d v (num.take (m + 1)).reverse (num.drop (m + 1) ++ [0]) := ⟨_, rfl⟩
  rw [← ht] at key ⊢
  obtain ⟨i1, i2, i3, i4, i5, i6⟩ := key
  have htl : (num.take (m + 1)).length = m + 1 := by simp; omega
  rw [List.reverse_reverse, List.length_reverse, htl, hr0v] at i1
  rw [List.length_reverse, htl] at i3
  refine ⟨?_, i2, i3, i4, i5, i6⟩
  rw [← i1]
  conv_lhs => rw [← List.take_append_drop (m + 1) num]
  rw [val_append, htl]

end Ruint.Div.KLoop