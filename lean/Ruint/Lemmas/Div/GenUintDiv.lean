import Ruint.Gen.WordsUintDiv
import Ruint.Model.DivUint
import Ruint.Lemmas.Div.Uint
import Ruint.Lemmas.GenUintWrap
import Ruint.Lemmas.GenMulWrap
import Ruint.Props.C01
import Ruint.Props.C02

/-! The `Uint` division surface (`src/div.rs`, `is_zero` of `src/cmp.rs`, `next_multiple_of` /
    `checked_next_multiple_of` of `src/special.rs`) as GENERATED from the source (`Gen/WordsUintDiv.lean`) equals
    the C03 models of `Model/DivUint.lean` on canonical operands. The tie of the generated `algorithms::div` to its
    model is an explicit hypothesis `HD` of every theorem that needs it. -/
set_option autoImplicit false
namespace Ruint.Div.GenUintDiv
open Ruint Ruint.Add Ruint.Mul Ruint.DivU

/-! ### `is_zero` -/

theorem replicate_beq_all : ∀ (a : List ℕ) (n : ℕ), a.length = n →
    (a == List.replicate n 0) = a.all (· == 0)
  | [], n, h => by
    simp only [List.length_nil] at h; subst h; rfl
  | x :: xs, n, h => by
    obtain ⟨m, rfl⟩ : ∃ m, n = m + 1 := ⟨xs.length, by simp only [List.length_cons] at h; omega⟩
    have ih := replicate_beq_all xs m (by simp only [List.length_cons] at h; omega)
    rw [List.replicate_succ, List.cons_beq_cons, ih, List.all_cons]

theorem is_zero_eq (bits : ℕ) (a : List ℕ) (ha : a.length = nlimbs bits) :
    Ruint.Gen.uint_is_zero bits (nlimbs bits) a = Ruint.DivU.isZero a := by
  unfold Ruint.Gen.uint_is_zero Ruint.DivU.isZero
  exact replicate_beq_all a _ ha

/-! ### the C01 / C02 ties at an arbitrary (sufficient) fuel -/

theorem overflowing_add_fuel (bits : ℕ) (hN : nlimbs bits < 2 ^ 64) (a b : List ℕ)
    (ha : a.length = nlimbs bits) (hb : b.length = nlimbs bits) (hwa : Ruint.AllLt a) (hwb : Ruint.AllLt b)
    (f : ℕ) (hf : nlimbs bits < f) :
    Ruint.Gen.uint_overflowing_add f bits (nlimbs bits) a b = overflowingAdd bits a b := by
  rw [← Ruint.GenUint.overflowing_add_eq bits hN a b ha hb hwa hwb]
  unfold Ruint.Gen.uint_overflowing_add
  by_cases h0 : bits = 0
  · subst h0; simp
  · have hbeq : (bits == 0) = false := by simp [h0]
    simp only [hbeq, Bool.false_eq_true, if_false]
    have hl := Ruint.GenUint.add_loop_eq a b [] [] false f (nlimbs bits) bits (by omega) rfl (by simp [ha]) hN
      (by omega)
    have hl' := Ruint.GenUint.add_loop_eq a b [] [] false (nlimbs bits + 1) (nlimbs bits) bits (by omega) rfl
      (by simp [ha]) hN (by omega)
    simp only [List.nil_append, List.length_nil] at hl hl'
    rw [hl, hl']

theorem wrapping_add_fuel (bits : ℕ) (hN : nlimbs bits < 2 ^ 64) (a b : List ℕ)
    (ha : a.length = nlimbs bits) (hb : b.length = nlimbs bits) (hwa : Ruint.AllLt a) (hwb : Ruint.AllLt b)
    (f : ℕ) (hf : nlimbs bits < f) :
    Ruint.Gen.uint_wrapping_add f bits (nlimbs bits) a b = wrappingAdd bits a b := by
  unfold Ruint.Gen.uint_wrapping_add wrappingAdd
  rw [overflowing_add_fuel bits hN a b ha hb hwa hwb f hf]

theorem checked_add_fuel (bits : ℕ) (hN : nlimbs bits < 2 ^ 64) (a b : List ℕ)
    (ha : a.length = nlimbs bits) (hb : b.length = nlimbs bits) (hwa : Ruint.AllLt a) (hwb : Ruint.AllLt b)
    (f : ℕ) (hf : nlimbs bits < f) :
    Ruint.Gen.uint_checked_add f bits (nlimbs bits) a b = checkedAdd bits a b := by
  unfold Ruint.Gen.uint_checked_add checkedAdd
  rw [overflowing_add_fuel bits hN a b ha hb hwa hwb f hf]
  rcases overflowingAdd bits a b with ⟨v, c⟩
  cases c <;> rfl

theorem overflowing_mul_fuel (bits : ℕ) (hN : nlimbs bits < 2 ^ 62) (a b : List ℕ)
    (ha : a.length = nlimbs bits) (hb' : b.length = nlimbs bits) (hwa : Ruint.AllLt a) (hwb : Ruint.AllLt b)
    (f : ℕ) (hf : 3 * nlimbs bits < f) :
    Ruint.Gen.uint_overflowing_mul f bits (nlimbs bits) a b = overflowingMul bits a b := by
  rw [← Ruint.GenMulWrap.overflowing_mul_eq bits hN a b ha hb' hwa hwb]
  obtain ⟨z1, _⟩ := zero_canon bits
  have hz : List.replicate (nlimbs bits) 0 = Add.zero bits := rfl
  unfold Ruint.Gen.uint_overflowing_mul
  simp only [hz]
  rw [Ruint.GenAddmul.addmul_eq (Add.zero bits) a b z1.2.1 hwa hwb (by rw [z1.1]; omega) (by omega) (by omega) f
    (by rw [z1.1, ha, hb']; omega),
    Ruint.GenAddmul.addmul_eq (Add.zero bits) a b z1.2.1 hwa hwb (by rw [z1.1]; omega) (by omega) (by omega)
    (3 * nlimbs bits + 1) (by rw [z1.1, ha, hb']; omega)]

theorem checked_mul_fuel (bits : ℕ) (hN : nlimbs bits < 2 ^ 62) (a b : List ℕ)
    (ha : a.length = nlimbs bits) (hb' : b.length = nlimbs bits) (hwa : Ruint.AllLt a) (hwb : Ruint.AllLt b)
    (f : ℕ) (hf : 3 * nlimbs bits < f) :
    Ruint.Gen.uint_checked_mul f bits (nlimbs bits) a b = checkedMul bits a b := by
  unfold Ruint.Gen.uint_checked_mul checkedMul
  rw [overflowing_mul_fuel bits hN a b ha hb' hwa hwb f hf]
  rcases overflowingMul bits a b with ⟨v, c⟩
  cases c <;> rfl

/-! ### `Self::ONE` -/

theorem one_canon (bits : ℕ) :
    Canon bits (toLimbs (nlimbs bits) (1 % 2 ^ bits)) ∧ Ruint.val (toLimbs (nlimbs bits) (1 % 2 ^ bits)) = 1 % 2 ^ bits := by
  have h : 1 % 2 ^ bits < 2 ^ bits := Nat.mod_lt _ (by positivity)
  exact ⟨canon_toLimbs bits _ h, val_toLimbs_of_lt bits _ h⟩

/-! ### the division surface -/

section
variable (HD : ∀ (num ds : List ℕ), Ruint.AllLt num → Ruint.AllLt ds → num.length < 2 ^ 64 → ds.length < 2 ^ 64 →
      ∀ f : ℕ, num.length + 1 < f → Ruint.Gen.div f num ds = Ruint.Div.div num ds)
include HD

theorem div_rem_eq (bits : ℕ) (hN : nlimbs bits < 2 ^ 62) (a b : List ℕ) (ha : Canon bits a) (hb : Canon bits b)
    (f : ℕ) (hf : nlimbs bits + 1 < f) :
    Ruint.Gen.uint_div_rem f bits (nlimbs bits) a b = Ruint.DivU.divRem bits a b := by
  unfold Ruint.Gen.uint_div_rem Ruint.DivU.divRem
  rw [HD a b ha.2.1 hb.2.1 (by rw [ha.1]; omega) (by rw [hb.1]; omega) f (by rw [ha.1]; exact hf)]
  rcases Ruint.Div.div a b with _ | ⟨q, r⟩ <;> rfl

theorem wrapping_div_eq (bits : ℕ) (hN : nlimbs bits < 2 ^ 62) (a b : List ℕ) (ha : Canon bits a) (hb : Canon bits b)
    (f : ℕ) (hf : nlimbs bits + 1 < f) :
    Ruint.Gen.uint_wrapping_div f bits (nlimbs bits) a b = Ruint.DivU.wrappingDiv bits a b := by
  unfold Ruint.Gen.uint_wrapping_div Ruint.DivU.wrappingDiv
  rw [div_rem_eq HD bits hN a b ha hb f hf]
  rcases Ruint.DivU.divRem bits a b with _ | ⟨q, r⟩ <;> rfl

theorem wrapping_rem_eq (bits : ℕ) (hN : nlimbs bits < 2 ^ 62) (a b : List ℕ) (ha : Canon bits a) (hb : Canon bits b)
    (f : ℕ) (hf : nlimbs bits + 1 < f) :
    Ruint.Gen.uint_wrapping_rem f bits (nlimbs bits) a b = Ruint.DivU.wrappingRem bits a b := by
  unfold Ruint.Gen.uint_wrapping_rem Ruint.DivU.wrappingRem
  rw [div_rem_eq HD bits hN a b ha hb f hf]
  rcases Ruint.DivU.divRem bits a b with _ | ⟨q, r⟩ <;> rfl

theorem checked_div_eq (bits : ℕ) (hN : nlimbs bits < 2 ^ 62) (a b : List ℕ) (ha : Canon bits a) (hb : Canon bits b)
    (f : ℕ) (hf : nlimbs bits + 1 < f) :
    Ruint.Gen.uint_checked_div f bits (nlimbs bits) a b = Ruint.DivU.checkedDiv bits a b := by
  unfold Ruint.Gen.uint_checked_div Ruint.DivU.checkedDiv
  rw [is_zero_eq bits b hb.1, wrapping_div_eq HD bits hN a b ha hb f hf]
  rcases Ruint.DivU.wrappingDiv bits a b with _ | q <;> rfl

theorem checked_rem_eq (bits : ℕ) (hN : nlimbs bits < 2 ^ 62) (a b : List ℕ) (ha : Canon bits a) (hb : Canon bits b)
    (f : ℕ) (hf : nlimbs bits + 1 < f) :
    Ruint.Gen.uint_checked_rem f bits (nlimbs bits) a b = Ruint.DivU.checkedRem bits a b := by
  unfold Ruint.Gen.uint_checked_rem Ruint.DivU.checkedRem
  rw [is_zero_eq bits b hb.1, wrapping_rem_eq HD bits hN a b ha hb f hf]
  rcases Ruint.DivU.wrappingRem bits a b with _ | q <;> rfl

omit HD in
/-- `q + Self::ONE` as generated = the model's value-level `ofVal bits (Ruint.val q + 1 % 2^bits)` -/
theorem add_one_eq (bits : ℕ) (hN : nlimbs bits < 2 ^ 62) (q : List ℕ) (hq : Canon bits q) (f : ℕ)
    (hf : nlimbs bits + 1 < f) :
    Ruint.Gen.uint_wrapping_add f bits (nlimbs bits) q (toLimbs (nlimbs bits) (1 % 2 ^ bits))
      = ofVal bits (Ruint.val q + 1 % 2 ^ bits) := by
  obtain ⟨o1, o2⟩ := one_canon bits
  rw [wrapping_add_fuel bits (by omega) q _ hq.1 o1.1 hq.2.1 o1.2.1 f (by omega)]
  obtain ⟨w1, w2⟩ := Ruint.C01.wrapping_add_spec bits q _ hq o1
  obtain ⟨v1, v2⟩ := canon_ofVal bits (Ruint.val q + 1 % 2 ^ bits)
  exact canon_ext bits _ _ w1 v1 (by rw [w2, v2, o2])

theorem div_ceil_eq (bits : ℕ) (hN : nlimbs bits < 2 ^ 62) (a b : List ℕ) (ha : Canon bits a) (hb : Canon bits b)
    (f : ℕ) (hf : nlimbs bits + 1 < f) :
    Ruint.Gen.uint_div_ceil f bits (nlimbs bits) a b = Ruint.DivU.divCeil bits a b := by
  unfold Ruint.Gen.uint_div_ceil Ruint.DivU.divCeil
  rw [div_rem_eq HD bits hN a b ha hb f hf]
  by_cases hz : Ruint.val b = 0
  · rw [divRem_zero bits a b ha hb hz]
  · obtain ⟨q, r, e, _, _, cq, cr⟩ := divRem_ok bits a b ha hb hz
    rw [e]
    simp only
    rw [is_zero_eq bits r cr.1, add_one_eq bits hN q cq f hf]

omit HD in
/-- the body of `checked_next_multiple_of` after the `div_rem`, `r` non-zero: `q.checked_add(ONE)?.checked_mul(rhs)` -/
theorem add_one_mul_eq (bits : ℕ) (hN : nlimbs bits < 2 ^ 62) (q b : List ℕ) (hq : Canon bits q) (hb : Canon bits b)
    (f : ℕ) (hf : 3 * nlimbs bits + 1 < f) :
    (match Ruint.Gen.uint_checked_add f bits (nlimbs bits) q (toLimbs (nlimbs bits) (1 % 2 ^ bits)) with
      | none => (some none : Option (Option (List ℕ)))
      | some q => some (Ruint.Gen.uint_checked_mul f bits (nlimbs bits) q b))
    = (if ¬ (Ruint.val q + 1 % 2 ^ bits < 2 ^ bits) then some none
       else if (Ruint.val q + 1 % 2 ^ bits) * Ruint.val b < 2 ^ bits
         then some (some (ofVal bits ((Ruint.val q + 1 % 2 ^ bits) * Ruint.val b))) else some none) := by
  obtain ⟨o1, o2⟩ := one_canon bits
  rw [checked_add_fuel bits (by omega) q _ hq.1 o1.1 hq.2.1 o1.2.1 f (by omega)]
  obtain ⟨s1, s2⟩ := Ruint.C01.checked_add_spec bits q _ hq o1
  rw [o2] at s1 s2
  by_cases h1 : Ruint.val q + 1 % 2 ^ bits < 2 ^ bits
  · obtain ⟨q1, e1, c1, v1⟩ := s1 h1
    rw [e1, if_neg (not_not.mpr h1)]
    simp only
    rw [checked_mul_fuel bits hN q1 b c1.1 hb.1 c1.2.1 hb.2.1 f (by omega)]
    obtain ⟨m1, m2⟩ := Ruint.C02.checked_mul_spec bits q1 b c1 hb
    rw [v1] at m1 m2
    by_cases h2 : (Ruint.val q + 1 % 2 ^ bits) * Ruint.val b < 2 ^ bits
    · obtain ⟨p, e2, c2, v2⟩ := m1 h2
      rw [e2, if_pos h2]
      obtain ⟨u1, u2⟩ := canon_ofVal bits ((Ruint.val q + 1 % 2 ^ bits) * Ruint.val b)
      rw [canon_ext bits _ _ c2 u1 (by rw [v2, u2, Nat.mod_eq_of_lt h2])]
    · rw [m2 (by omega), if_neg h2]
  · rw [s2 (by omega), if_pos h1]

theorem checked_next_multiple_of_eq (bits : ℕ) (hN : nlimbs bits < 2 ^ 62) (a b : List ℕ) (ha : Canon bits a)
    (hb : Canon bits b) (f : ℕ) (hf : 3 * nlimbs bits + 1 < f) :
    Ruint.Gen.uint_checked_next_multiple_of f bits (nlimbs bits) a b = Ruint.DivU.checkedNextMultipleOf bits a b := by
  unfold Ruint.Gen.uint_checked_next_multiple_of Ruint.DivU.checkedNextMultipleOf
  rw [is_zero_eq bits b hb.1, div_rem_eq HD bits hN a b ha hb f (by omega)]
  cases hzb : isZero b
  · have hz : Ruint.val b ≠ 0 := (isZero_false_iff b).mp hzb
    obtain ⟨q, r, e, _, _, cq, cr⟩ := divRem_ok bits a b ha hb hz
    rw [e]
    simp only [Bool.false_eq_true, if_false]
    rw [is_zero_eq bits r cr.1]
    cases hzr : isZero r
    · simp only [Bool.false_eq_true, if_false]
      exact add_one_mul_eq bits hN q b cq hb f hf
    · simp only [if_true]
  · simp only [if_true]

theorem next_multiple_of_eq (bits : ℕ) (hN : nlimbs bits < 2 ^ 62) (a b : List ℕ) (ha : Canon bits a)
    (hb : Canon bits b) (f : ℕ) (hf : 3 * nlimbs bits + 1 < f) :
    Ruint.Gen.uint_next_multiple_of f bits (nlimbs bits) a b = Ruint.DivU.nextMultipleOf bits a b := by
  unfold Ruint.Gen.uint_next_multiple_of Ruint.DivU.nextMultipleOf
  rw [checked_next_multiple_of_eq HD bits hN a b ha hb f hf]
  rcases Ruint.DivU.checkedNextMultipleOf bits a b with _ | _ | v <;> rfl

end

end Ruint.Div.GenUintDiv
