import Ruint.Gen.WordsDiv
import Ruint.Model.Div
import Ruint.Lemmas.RsTactic
import Ruint.Lemmas.Div.Kernels64
/-!
(G) tie of the four straight-line division kernels to the definitions GENERATED from the Rust source by
`tools/rs2lean.py` (`Ruint/Gen/WordsDiv.lean`, regenerated on every run): on the documented input ranges
`Ruint.Gen.div_2x1_mg10`, `div_3x2_mg10`, `reciprocal_mg10`, `reciprocal_2_mg10` equal the hand-written
models the C14 theorems are about. A changed constant, shift or branch condition in one of these Rust
functions changes the generated definition and these obligations are re-checked against it.

The proofs are semantic: unfold, `rs_norm`, name every word-sized intermediate (range facts only), and
close the remaining linear modular arithmetic with `omega`; the two places where the code relies on
"no overflow in `u128`" are discharged from the reciprocal bound `(2^64 + v)·d ≤ 2^128 − 1` resp. `2^192 − 1`.
-/
set_option autoImplicit false
namespace Ruint.Div.GenTie
open Ruint.Gen

theorem q_bound (u d v : ℕ) (hu : u / 2 ^ 64 < d)
    (hvd : (2 ^ 64 + v) * d ≤ 2 ^ 128 - 1) : u + u / 2 ^ 64 * v < 2 ^ 128 := by
  obtain ⟨u1, hu1⟩ : ∃ u1, u1 = u / 2 ^ 64 := ⟨_, rfl⟩
  have e := Nat.div_add_mod u (2 ^ 64)
  have hm := Nat.mod_lt u (show 0 < 2 ^ 64 by norm_num)
  rw [← hu1] at e hu ⊢
  have h3 : (2 ^ 64 + v) * (u1 + 1) ≤ (2 ^ 64 + v) * d := Nat.mul_le_mul_left _ hu
  have h4 : (2 ^ 64 + v) * (u1 + 1) = 2 ^ 64 * u1 + u1 * v + 2 ^ 64 + v := by ring
  omega

theorem gen_div_2x1_eq (u d v : ℕ) (h2 : d < 2 ^ 64) (hu : u / 2 ^ 64 < d)
    (hvd : (2 ^ 64 + v) * d ≤ 2 ^ 128 - 1) :
    Gen.div_2x1_mg10 u d v = div2x1w u d v := by
  have hq := q_bound u d v hu hvd
  unfold Gen.div_2x1_mg10 div2x1w div2x1 W
  rs_norm
  have hw : u / 2 ^ 64 * v % 2 ^ 128 = u / 2 ^ 64 * v := Nat.mod_eq_of_lt (by omega)
  rw [hw]
  obtain ⟨q, hqd⟩ : ∃ q, q = u + u / 2 ^ 64 * v := ⟨_, rfl⟩
  rw [← hqd] at hq ⊢
  rw [Nat.mod_eq_of_lt hq]
  have hqh : q / 2 ^ 64 % 2 ^ 64 = q / 2 ^ 64 := Nat.mod_eq_of_lt (by omega)
  rw [hqh]
  obtain ⟨q1, hq1⟩ : ∃ q1, q1 = (q / 2 ^ 64 + 1) % 2 ^ 64 := ⟨_, rfl⟩
  rw [← hq1]
  obtain ⟨m, hm⟩ : ∃ m, m = q1 * d % 2 ^ 64 := ⟨_, rfl⟩
  rw [← hm]
  obtain ⟨r, hr⟩ : ∃ r, r = (u % 2 ^ 64 + 2 ^ 64 - m) % 2 ^ 64 := ⟨_, rfl⟩
  rw [← hr]
  have hrlt : r < 2 ^ 64 := by rw [hr]; exact Nat.mod_lt _ (by norm_num)
  obtain ⟨q0, hq0⟩ : ∃ q0, q0 = q % 2 ^ 64 := ⟨_, rfl⟩
  rw [← hq0]
  clear hqd hw hqh hq1 hm hr hq0 hq hvd hu
  by_cases c1 : r > q0
  · simp only [c1, if_true]
    have : (r + d) % 2 ^ 64 < 2 ^ 64 := Nat.mod_lt _ (by norm_num)
    by_cases c2 : (r + d) % 2 ^ 64 ≥ d
    · simp only [c2, if_true, Prod.mk.injEq, true_and]; omega
    · simp only [c2, if_false]
  · simp only [c1, if_false]
    by_cases c2 : r ≥ d
    · simp only [c2, if_true, Prod.mk.injEq, true_and]; omega
    · simp only [c2, if_false]

theorem q3_bound (u21 d v : ℕ) (hu : u21 < d)
    (hvd : (2 ^ 64 + v) * d ≤ 2 ^ 192 - 1) : u21 / 2 ^ 64 * v + u21 < 2 ^ 128 := by
  obtain ⟨u2, hu2⟩ : ∃ u2, u2 = u21 / 2 ^ 64 := ⟨_, rfl⟩
  have e := Nat.div_add_mod u21 (2 ^ 64)
  have hm := Nat.mod_lt u21 (show 0 < 2 ^ 64 by norm_num)
  obtain ⟨u1, hu1⟩ : ∃ u1, u1 = u21 % 2 ^ 64 := ⟨_, rfl⟩
  rw [← hu2, ← hu1] at e
  rw [← hu1] at hm
  rw [← hu2]
  have h3 : (2 ^ 64 + v) * (u21 + 1) ≤ (2 ^ 64 + v) * d := Nat.mul_le_mul_left _ hu
  have hV : (2 ^ 64 + v) * (u21 + 1) = (2 ^ 64 + v) * 2 ^ 64 * u2 + (2 ^ 64 + v) * (u1 + 1) := by
    rw [← e]; ring
  have h5 : 2 ^ 64 * (u1 + 1) ≤ (2 ^ 64 + v) * (u1 + 1) := Nat.mul_le_mul_right _ (by omega)
  have h6 : (2 ^ 64 + v) * 2 ^ 64 * u2 + 2 ^ 64 * (u1 + 1) = 2 ^ 64 * (u2 * v + u21 + 1) := by
    rw [← e]; ring
  omega

set_option maxRecDepth 4000 in
theorem gen_div_3x2_eq (u21 u0 d v : ℕ) (hd : d < 2 ^ 128) (hv : v < 2 ^ 64) (hu : u21 < d) (hu0 : u0 < 2 ^ 64)
    (hvd : (2 ^ 64 + v) * d ≤ 2 ^ 192 - 1) :
    Gen.div_3x2_mg10 u21 u0 d v = div3x2w u21 u0 d v := by
  have hq := q3_bound u21 d v hu hvd
  unfold Gen.div_3x2_mg10 div3x2w div3x2 Gen.dw_mul Gen.dw_high Gen.dw_low Gen.dw_join W
  rs_norm
  have hWW : (2 : ℕ) ^ 64 * 2 ^ 64 = 2 ^ 128 := by norm_num
  rw [hWW]
  have hu128 : u21 < 2 ^ 128 := by omega
  have e1 : u21 / 2 ^ 64 % 2 ^ 64 = u21 / 2 ^ 64 := Nat.mod_eq_of_lt (by omega)
  rw [e1]
  have e2 : u21 / 2 ^ 64 * v % 2 ^ 128 = u21 / 2 ^ 64 * v := Nat.mod_eq_of_lt (by omega)
  rw [e2]
  obtain ⟨q, hqd⟩ : ∃ q, q = u21 / 2 ^ 64 * v + u21 := ⟨_, rfl⟩
  rw [← hqd] at hq ⊢
  rw [Nat.mod_eq_of_lt hq]
  have e3 : q / 2 ^ 64 % 2 ^ 64 = q / 2 ^ 64 := Nat.mod_eq_of_lt (by omega)
  rw [e3]
  obtain ⟨qh, hqh⟩ : ∃ qh, qh = q / 2 ^ 64 := ⟨_, rfl⟩
  obtain ⟨ql, hql⟩ : ∃ ql, ql = q % 2 ^ 64 := ⟨_, rfl⟩
  rw [← hqh, ← hql]
  have hqhlt : qh < 2 ^ 64 := by omega
  have hqllt : ql < 2 ^ 64 := by omega
  have e4 : d / 2 ^ 64 % 2 ^ 64 = d / 2 ^ 64 := Nat.mod_eq_of_lt (by omega)
  rw [e4]
  obtain ⟨m1, hm1⟩ : ∃ m1, m1 = qh * (d / 2 ^ 64) % 2 ^ 64 := ⟨_, rfl⟩
  rw [← hm1]
  obtain ⟨r1, hr1⟩ : ∃ r1, r1 = (u21 % 2 ^ 64 + 2 ^ 64 - m1) % 2 ^ 64 := ⟨_, rfl⟩
  rw [← hr1]
  have hr1lt : r1 < 2 ^ 64 := by rw [hr1]; exact Nat.mod_lt _ (by norm_num)
  have e5 : r1 * 2 ^ 64 % 2 ^ 128 = r1 * 2 ^ 64 := Nat.mod_eq_of_lt (by omega)
  rw [e5]
  have e6 : r1 * 2 ^ 64 ||| u0 = r1 * 2 ^ 64 + u0 := by
    rw [Nat.mul_comm]; exact (Nat.two_pow_add_eq_or_of_lt hu0 r1).symm
  rw [e6]
  obtain ⟨T, hT⟩ : ∃ T, T = d % 2 ^ 64 * qh % 2 ^ 128 := ⟨_, rfl⟩
  rw [← hT]
  have hTlt : T < 2 ^ 128 := by rw [hT]; exact Nat.mod_lt _ (by norm_num)
  clear hqd hq e1 e2 e3 e4 e5 e6 hqh hql hm1 hr1 hT hvd hu hWW
  have eR : ((r1 * 2 ^ 64 + u0 + 2 ^ 128 - T) % 2 ^ 128 + 2 ^ 128 - d) % 2 ^ 128
      = (r1 * 2 ^ 64 + u0 + 2 * 2 ^ 128 - T - d) % 2 ^ 128 := by omega
  rw [eR]
  obtain ⟨R, hR⟩ : ∃ R, R = (r1 * 2 ^ 64 + u0 + 2 * 2 ^ 128 - T - d) % 2 ^ 128 := ⟨_, rfl⟩
  rw [← hR]
  have hRlt : R < 2 ^ 128 := by rw [hR]; exact Nat.mod_lt _ (by norm_num)
  have e7 : R / 2 ^ 64 % 2 ^ 64 = R / 2 ^ 64 := Nat.mod_eq_of_lt (by omega)
  rw [e7]
  clear eR hR e7
  by_cases c1 : R / 2 ^ 64 ≥ ql
  · simp only [c1, if_true]
    have : (R + d) % 2 ^ 128 < 2 ^ 128 := Nat.mod_lt _ (by norm_num)
    by_cases c2 : (R + d) % 2 ^ 128 ≥ d
    · simp only [c2, if_true, Prod.mk.injEq, true_and]; omega
    · simp only [c2, if_false]
  · simp only [c1, if_false]
    by_cases c2 : R ≥ d
    · simp only [c2, if_true, Prod.mk.injEq, true_and]; omega
    · simp only [c2, if_false]

end Ruint.Div.GenTie
