import Ruint.Gen.WordsDiv
import Ruint.Model.Div
import Ruint.Lemmas.RsTactic
import Ruint.Lemmas.Div.Kernels64
/-!
(G) tie of the four straight-line division kernels to the definitions GENERATED from the Rust source by
`tools/rs2lean.py` (`Ruint/Gen/WordsDiv.lean`, regenerated on every run): on the documented input ranges
`Ruint.Gen.div_2x1_mg10`, `div_3x2_mg10`, `reciprocal_mg10`, `reciprocal_2_mg10` equal the hand-written
models the C14 theorems are about. A changed constant, shift or branch condition in one of these Rust
functions changes the generated definition and these obligations are re-checked against it.

The proofs are semantic: unfold, `rs_norm`, name every word-sized intermediate (range facts only), and
close the remaining linear modular arithmetic with `omega`; the two places where the code relies on
"no overflow in `u128`" are discharged from the reciprocal bound `(2^64 + v)·d ≤ 2^128 − 1` resp. `2^192 − 1`.
-/
set_option autoImplicit false
namespace Ruint.Div.GenTie
open Ruint.Gen

/-! ## the reciprocal bounds the two `u128` no-overflow steps rely on -/

theorem recipSpec_facts (d : ℕ) (h1 : 2 ^ 63 ≤ d) (h2 : d < 2 ^ 64) :
    recipSpec W d < 2 ^ 64 ∧ (2 ^ 64 + recipSpec W d) * d ≤ 2 ^ 128 - 1 := by
  unfold recipSpec W
  have hd0 : 0 < d := by omega
  obtain ⟨V, hV⟩ : ∃ V, V = (2 ^ 64 * 2 ^ 64 - 1) / d := ⟨_, rfl⟩
  rw [← hV]
  have e := Nat.div_add_mod (2 ^ 64 * 2 ^ 64 - 1) d
  have hm := Nat.mod_lt (2 ^ 64 * 2 ^ 64 - 1) hd0
  rw [← hV] at e
  have hVlo : 2 ^ 64 ≤ V := by
    rw [hV, Nat.le_div_iff_mul_le hd0]
    have : 2 ^ 64 * d ≤ 2 ^ 64 * (2 ^ 64 - 1) := Nat.mul_le_mul_left _ (by omega)
    omega
  have hVhi : V < 2 ^ 65 := by
    rw [hV]; apply Nat.div_lt_of_lt_mul
    have : 2 ^ 63 * 2 ^ 65 ≤ d * 2 ^ 65 := Nat.mul_le_mul_right _ h1
    omega
  constructor
  · omega
  · have : 2 ^ 64 + (V - 2 ^ 64) = V := by omega
    rw [this, Nat.mul_comm]; omega

theorem recip2Spec_facts (d : ℕ) (h1 : 2 ^ 127 ≤ d) (h2 : d < 2 ^ 128) :
    recip2Spec W d < 2 ^ 64 ∧ (2 ^ 64 + recip2Spec W d) * d ≤ 2 ^ 192 - 1 := by
  unfold recip2Spec W
  have hd0 : 0 < d := by omega
  obtain ⟨V, hV⟩ : ∃ V, V = (2 ^ 64 * 2 ^ 64 * 2 ^ 64 - 1) / d := ⟨_, rfl⟩
  rw [← hV]
  have e := Nat.div_add_mod (2 ^ 64 * 2 ^ 64 * 2 ^ 64 - 1) d
  have hm := Nat.mod_lt (2 ^ 64 * 2 ^ 64 * 2 ^ 64 - 1) hd0
  rw [← hV] at e
  have hVlo : 2 ^ 64 ≤ V := by
    rw [hV, Nat.le_div_iff_mul_le hd0]
    have : 2 ^ 64 * d ≤ 2 ^ 64 * (2 ^ 128 - 1) := Nat.mul_le_mul_left _ (by omega)
    omega
  have hVhi : V < 2 ^ 65 := by
    rw [hV]; apply Nat.div_lt_of_lt_mul
    have : 2 ^ 127 * 2 ^ 65 ≤ d * 2 ^ 65 := Nat.mul_le_mul_right _ h1
    omega
  constructor
  · omega
  · have : 2 ^ 64 + (V - 2 ^ 64) = V := by omega
    rw [this, Nat.mul_comm]; omega

theorem q_bound (u d v : ℕ) (hu : u / 2 ^ 64 < d)
    (hvd : (2 ^ 64 + v) * d ≤ 2 ^ 128 - 1) : u + u / 2 ^ 64 * v < 2 ^ 128 := by
  obtain ⟨u1, hu1⟩ : ∃ u1, u1 = u / 2 ^ 64 := ⟨_, rfl⟩
  have e := Nat.div_add_mod u (2 ^ 64)
  have hm := Nat.mod_lt u (show 0 < 2 ^ 64 by norm_num)
  rw [← hu1] at e hu ⊢
  have h3 : (2 ^ 64 + v) * (u1 + 1) ≤ (2 ^ 64 + v) * d := Nat.mul_le_mul_left _ hu
  have h4 : (2 ^ 64 + v) * (u1 + 1) = 2 ^ 64 * u1 + u1 * v + 2 ^ 64 + v := by ring
  omega

theorem gen_div_2x1_eq (u d v : ℕ) (h2 : d < 2 ^ 64) (hu : u / 2 ^ 64 < d)
    (hvd : (2 ^ 64 + v) * d ≤ 2 ^ 128 - 1) :
    Gen.div_2x1_mg10 u d v = div2x1w u d v := by
  have hq := q_bound u d v hu hvd
  unfold Gen.div_2x1_mg10 div2x1w div2x1 W
  rs_norm
  have hw : u / 2 ^ 64 * v % 2 ^ 128 = u / 2 ^ 64 * v := Nat.mod_eq_of_lt (by omega)
  rw [hw]
  obtain ⟨q, hqd⟩ : ∃ q, q = u + u / 2 ^ 64 * v := ⟨_, rfl⟩
  rw [← hqd] at hq ⊢
  rw [Nat.mod_eq_of_lt hq]
  have hqh : q / 2 ^ 64 % 2 ^ 64 = q / 2 ^ 64 := Nat.mod_eq_of_lt (by omega)
  rw [hqh]
  obtain ⟨q1, hq1⟩ : ∃ q1, q1 = (q / 2 ^ 64 + 1) % 2 ^ 64 := ⟨_, rfl⟩
  rw [← hq1]
  obtain ⟨m, hm⟩ : ∃ m, m = q1 * d % 2 ^ 64 := ⟨_, rfl⟩
  rw [← hm]
  obtain ⟨r, hr⟩ : ∃ r, r = (u % 2 ^ 64 + 2 ^ 64 - m) % 2 ^ 64 := ⟨_, rfl⟩
  rw [← hr]
  have hrlt : r < 2 ^ 64 := by rw [hr]; exact Nat.mod_lt _ (by norm_num)
  obtain ⟨q0, hq0⟩ : ∃ q0, q0 = q % 2 ^ 64 := ⟨_, rfl⟩
  rw [← hq0]
  clear hqd hw hqh hq1 hm hr hq0 hq hvd hu
  by_cases c1 : r > q0
  · simp only [c1, if_true]
    have : (r + d) % 2 ^ 64 < 2 ^ 64 := Nat.mod_lt _ (by norm_num)
    by_cases c2 : (r + d) % 2 ^ 64 ≥ d
    · simp only [c2, if_true, Prod.mk.injEq, true_and]; omega
    · simp only [c2, if_false]
  · simp only [c1, if_false]
    by_cases c2 : r ≥ d
    · simp only [c2, if_true, Prod.mk.injEq, true_and]; omega
    · simp only [c2, if_false]

theorem q3_bound (u21 d v : ℕ) (hu : u21 < d)
    (hvd : (2 ^ 64 + v) * d ≤ 2 ^ 192 - 1) : u21 / 2 ^ 64 * v + u21 < 2 ^ 128 := by
  obtain ⟨u2, hu2⟩ : ∃ u2, u2 = u21 / 2 ^ 64 := ⟨_, rfl⟩
  have e := Nat.div_add_mod u21 (2 ^ 64)
  have hm := Nat.mod_lt u21 (show 0 < 2 ^ 64 by norm_num)
  obtain ⟨u1, hu1⟩ : ∃ u1, u1 = u21 % 2 ^ 64 := ⟨_, rfl⟩
  rw [← hu2, ← hu1] at e
  rw [← hu1] at hm
  rw [← hu2]
  have h3 : (2 ^ 64 + v) * (u21 + 1) ≤ (2 ^ 64 + v) * d := Nat.mul_le_mul_left _ hu
  have hV : (2 ^ 64 + v) * (u21 + 1) = (2 ^ 64 + v) * 2 ^ 64 * u2 + (2 ^ 64 + v) * (u1 + 1) := by
    rw [← e]; ring
  have h5 : 2 ^ 64 * (u1 + 1) ≤ (2 ^ 64 + v) * (u1 + 1) := Nat.mul_le_mul_right _ (by omega)
  have h6 : (2 ^ 64 + v) * 2 ^ 64 * u2 + 2 ^ 64 * (u1 + 1) = 2 ^ 64 * (u2 * v + u21 + 1) := by
    rw [← e]; ring
  omega

set_option maxRecDepth 4000 in
theorem gen_div_3x2_eq (u21 u0 d v : ℕ) (hd : d < 2 ^ 128) (hv : v < 2 ^ 64) (hu : u21 < d) (hu0 : u0 < 2 ^ 64)
    (hvd : (2 ^ 64 + v) * d ≤ 2 ^ 192 - 1) :
    Gen.div_3x2_mg10 u21 u0 d v = div3x2w u21 u0 d v := by
  have hq := q3_bound u21 d v hu hvd
  unfold Gen.div_3x2_mg10 div3x2w div3x2 Gen.dw_mul Gen.dw_high Gen.dw_low Gen.dw_join W
  rs_norm
  have hWW : (2 : ℕ) ^ 64 * 2 ^ 64 = 2 ^ 128 := by norm_num
  rw [hWW]
  have hu128 : u21 < 2 ^ 128 := by omega
  have e1 : u21 / 2 ^ 64 % 2 ^ 64 = u21 / 2 ^ 64 := Nat.mod_eq_of_lt (by omega)
  rw [e1]
  have e2 : u21 / 2 ^ 64 * v % 2 ^ 128 = u21 / 2 ^ 64 * v := Nat.mod_eq_of_lt (by omega)
  rw [e2]
  obtain ⟨q, hqd⟩ : ∃ q, q = u21 / 2 ^ 64 * v + u21 := ⟨_, rfl⟩
  rw [← hqd] at hq ⊢
  rw [Nat.mod_eq_of_lt hq]
  have e3 : q / 2 ^ 64 % 2 ^ 64 = q / 2 ^ 64 := Nat.mod_eq_of_lt (by omega)
  rw [e3]
  obtain ⟨qh, hqh⟩ : ∃ qh, qh = q / 2 ^ 64 := ⟨_, rfl⟩
  obtain ⟨ql, hql⟩ : ∃ ql, ql = q % 2 ^ 64 := ⟨_, rfl⟩
  rw [← hqh, ← hql]
  have hqhlt : qh < 2 ^ 64 := by omega
  have hqllt : ql < 2 ^ 64 := by omega
  have e4 : d / 2 ^ 64 % 2 ^ 64 = d / 2 ^ 64 := Nat.mod_eq_of_lt (by omega)
  rw [e4]
  obtain ⟨m1, hm1⟩ : ∃ m1, m1 = qh * (d / 2 ^ 64) % 2 ^ 64 := ⟨_, rfl⟩
  rw [← hm1]
  obtain ⟨r1, hr1⟩ : ∃ r1, r1 = (u21 % 2 ^ 64 + 2 ^ 64 - m1) % 2 ^ 64 := ⟨_, rfl⟩
  rw [← hr1]
  have hr1lt : r1 < 2 ^ 64 := by rw [hr1]; exact Nat.mod_lt _ (by norm_num)
  have e5 : r1 * 2 ^ 64 % 2 ^ 128 = r1 * 2 ^ 64 := Nat.mod_eq_of_lt (by omega)
  rw [e5]
  have e6 : r1 * 2 ^ 64 ||| u0 = r1 * 2 ^ 64 + u0 := by
    rw [Nat.mul_comm]; exact (Nat.two_pow_add_eq_or_of_lt hu0 r1).symm
  rw [e6]
  obtain ⟨T, hT⟩ : ∃ T, T = d % 2 ^ 64 * qh % 2 ^ 128 := ⟨_, rfl⟩
  rw [← hT]
  have hTlt : T < 2 ^ 128 := by rw [hT]; exact Nat.mod_lt _ (by norm_num)
  clear hqd hq e1 e2 e3 e4 e5 e6 hqh hql hm1 hr1 hT hvd hu hWW
  have eR : ((r1 * 2 ^ 64 + u0 + 2 ^ 128 - T) % 2 ^ 128 + 2 ^ 128 - d) % 2 ^ 128
      = (r1 * 2 ^ 64 + u0 + 2 * 2 ^ 128 - T - d) % 2 ^ 128 := by omega
  rw [eR]
  obtain ⟨R, hR⟩ : ∃ R, R = (r1 * 2 ^ 64 + u0 + 2 * 2 ^ 128 - T - d) % 2 ^ 128 := ⟨_, rfl⟩
  rw [← hR]
  have hRlt : R < 2 ^ 128 := by rw [hR]; exact Nat.mod_lt _ (by norm_num)
  have e7 : R / 2 ^ 64 % 2 ^ 64 = R / 2 ^ 64 := Nat.mod_eq_of_lt (by omega)
  rw [e7]
  clear eR hR e7
  by_cases c1 : R / 2 ^ 64 ≥ ql
  · simp only [c1, if_true]
    have : (R + d) % 2 ^ 128 < 2 ^ 128 := Nat.mod_lt _ (by norm_num)
    by_cases c2 : (R + d) % 2 ^ 128 ≥ d
    · simp only [c2, if_true, Prod.mk.injEq, true_and]; omega
    · simp only [c2, if_false]
  · simp only [c1, if_false]
    by_cases c2 : R ≥ d
    · simp only [c2, if_true, Prod.mk.injEq, true_and]; omega
    · simp only [c2, if_false]

/-! ## `reciprocal_mg10` -/

theorem wadd_eq (a b : ℕ) : Rs.wadd 64 a b = Recip.wadd a b := rfl
theorem wmul_eq (a b : ℕ) : Rs.wmul 64 a b = Recip.wmul a b := rfl
theorem wshl_eq (a k : ℕ) : Rs.wshl 64 a k = Recip.wmul a (2 ^ k) := rfl
theorem wsub_eq (a b : ℕ) (hb : b < 2 ^ 64) : Rs.wsub 64 a b = Recip.wsub a b := by
  unfold Rs.wsub Recip.wsub Recip.M
  rw [Nat.mod_eq_of_lt hb]
theorem M_pos : 0 < Recip.M := by unfold Recip.M; norm_num
theorem wmul_lt (a b : ℕ) : Recip.wmul a b < 2 ^ 64 := Nat.mod_lt _ M_pos
theorem wadd_lt (a b : ℕ) : Recip.wadd a b < 2 ^ 64 := Nat.mod_lt _ M_pos
theorem wsub_lt (a b : ℕ) : Recip.wsub a b < 2 ^ 64 := Nat.mod_lt _ M_pos

theorem mul_hi_eq (a b : ℕ) (ha : a < 2 ^ 64) (hb : b < 2 ^ 64) : Gen.mul_hi a b = a * b / Recip.M := by
  unfold Gen.mul_hi Rs.wmul Recip.M
  simp only []
  have h : a * b < 2 ^ 64 * 2 ^ 64 := Nat.mul_lt_mul'' ha hb
  rw [Nat.mod_eq_of_lt (by omega : a * b < 2 ^ 128), Nat.mod_eq_of_lt]
  apply Nat.div_lt_of_lt_mul; omega

theorem muladd_hi_eq (a b c : ℕ) (ha : a < 2 ^ 64) (hb : b < 2 ^ 64) (hc : c < 2 ^ 64) :
    Gen.muladd_hi a b c = (a * b + c) / Recip.M := by
  unfold Gen.muladd_hi Rs.wmul Rs.wadd Recip.M
  simp only []
  have h : a * b ≤ (2 ^ 64 - 1) * (2 ^ 64 - 1) := Nat.mul_le_mul (by omega) (by omega)
  rw [Nat.mod_eq_of_lt (by omega : a * b < 2 ^ 128), Nat.mod_eq_of_lt (by omega : a * b + c < 2 ^ 128),
    Nat.mod_eq_of_lt]
  apply Nat.div_lt_of_lt_mul; omega

theorem table_eq : Gen.reciprocal_mg10_TABLE = Ruint.Gen.recipTable.toList := by rfl

theorem table_get (i : ℕ) : Gen.reciprocal_mg10_TABLE.getD i 0 = Recip.TABLE[i]! := by
  rw [table_eq]
  unfold Recip.TABLE
  simp [Array.getElem!_eq_getD, Array.getD_eq_getD_getElem?, List.getD_eq_getElem?_getD]


theorem mask_sel (x d : ℕ) (hx : x < 2 ^ 64) :
    x &&& Rs.wsub 64 0 (d % 2) = if d % 2 = 1 then x else 0 := by
  rcases Nat.mod_two_eq_zero_or_one d with h | h
  · rw [h]
    have : Rs.wsub 64 0 0 = 0 := by unfold Rs.wsub; norm_num
    rw [this]; simp
  · rw [h]
    have : Rs.wsub 64 0 1 = 2 ^ 64 - 1 := by unfold Rs.wsub; norm_num
    rw [this, Nat.and_two_pow_sub_one_eq_mod, Nat.mod_eq_of_lt hx]; simp

set_option maxRecDepth 8000 in
theorem gen_reciprocal_eq (d : ℕ) (h1 : 2 ^ 63 ≤ d) (h2 : d < 2 ^ 64) :
    Gen.reciprocal_mg10 d = reciprocal d := by
  unfold Gen.reciprocal_mg10 reciprocal Recip.recipModel
  simp only [wadd_eq, wmul_eq, wshl_eq, pow_one, Nat.and_one_is_mod]
  have hi : Rs.wsub 64 (d / 2 ^ 55) 256 = d / 2 ^ 55 - 256 := by unfold Rs.wsub; omega
  rw [hi, table_get]
  generalize hv0 : Recip.TABLE[d / 2 ^ 55 - 256]! = v0
  generalize hd40 : Recip.wadd 1 (d / 2 ^ 24) = d40
  generalize hf : Recip.wmul (Recip.wmul v0 v0) d40 / 2 ^ 40 = f
  have hflt : f < 2 ^ 64 := by rw [← hf]; exact lt_of_le_of_lt (Nat.div_le_self _ _) (wmul_lt _ _)
  rw [wsub_eq _ f hflt, wsub_eq _ 1 (by norm_num)]
  generalize hv1 : Recip.wsub (Recip.wsub (Recip.wmul v0 (2 ^ 11)) f) 1 = v1
  have h60 : Recip.wmul 1 (2 ^ 60) = 2 ^ 60 := by
    unfold Recip.wmul Recip.M; rw [Nat.one_mul]; exact Nat.mod_eq_of_lt (by norm_num)
  rw [h60, wsub_eq _ (Recip.wmul v1 d40) (wmul_lt _ _)]
  generalize hv2 : Recip.wadd (Recip.wmul v1 (2 ^ 13))
      (Recip.wmul v1 (Recip.wsub (2 ^ 60) (Recip.wmul v1 d40)) / 2 ^ 47) = v2
  have hv2lt : v2 < 2 ^ 64 := by rw [← hv2]; exact wadd_lt _ _
  rw [mask_sel (v2 / 2) d (by omega)]
  generalize hd63 : Recip.wadd d 1 / 2 = d63
  rw [wsub_eq _ (Recip.wmul v2 d63) (wmul_lt _ _)]
  generalize he : Recip.wsub (if d % 2 = 1 then v2 / 2 else 0) (Recip.wmul v2 d63) = e
  have helt : e < 2 ^ 64 := by rw [← he]; exact wsub_lt _ _
  rw [mul_hi_eq v2 e hv2lt helt]
  generalize hv3 : Recip.wadd (v2 * e / Recip.M / 2) (Recip.wmul v2 (2 ^ 31)) = v3
  have hv3lt : v3 < 2 ^ 64 := by rw [← hv3]; exact wadd_lt _ _
  rw [muladd_hi_eq v3 d d hv3lt h2 h2]
  have hb : (v3 * d + d) / Recip.M < 2 ^ 64 := by
    unfold Recip.M
    apply Nat.div_lt_of_lt_mul
    have h : v3 * d ≤ (2 ^ 64 - 1) * (2 ^ 64 - 1) := Nat.mul_le_mul (by omega) (by omega)
    omega
  rw [wsub_eq _ _ hb, wsub_eq _ d h2]


/-! ## `reciprocal_2_mg10` -/

theorem reciprocal_lt (d : ℕ) : reciprocal d < 2 ^ 64 := by
  unfold reciprocal Recip.recipModel
  exact Nat.mod_lt _ (by unfold Recip.M; norm_num)

theorem blk1_def (W d1 d0 v : ℕ) : R2.blk1 W d1 d0 v =
    (if (d1 * v % W + d0) % W < d0 then
      ((if (d1 * v % W + d0) % W ≥ d1 then (((v + W - 1) % W + W - 1) % W, (d1 * v % W + d0) % W - d1)
          else ((v + W - 1) % W, (d1 * v % W + d0) % W)).1,
       ((if (d1 * v % W + d0) % W ≥ d1 then (((v + W - 1) % W + W - 1) % W, (d1 * v % W + d0) % W - d1)
          else ((v + W - 1) % W, (d1 * v % W + d0) % W)).2 + W - d1) % W)
    else (v, (d1 * v % W + d0) % W)) := by
  unfold R2.blk1; rfl

theorem blk2_def (W d d0 v p : ℕ) : R2.blk2 W d d0 v p =
    (if (p + v * d0 / W) % W < v * d0 / W then
      if (p + v * d0 / W) % W * W + v * d0 % W ≥ d then ((v + W - 1) % W + W - 1) % W else (v + W - 1) % W
    else v) := by
  unfold R2.blk2; rfl

theorem gen_reciprocal_2_eq (d : ℕ) (h1 : 2 ^ 127 ≤ d) (h2 : d < 2 ^ 128) :
    Gen.reciprocal_2_mg10 d = reciprocal2 d := by
  have e1 : d / 2 ^ 64 % 2 ^ 64 = d / 2 ^ 64 := Nat.mod_eq_of_lt (by omega)
  have hrr : Gen.reciprocal_mg10 (d / 2 ^ 64) = Recip.recipModel (d / 2 ^ 64) :=
    gen_reciprocal_eq (d / 2 ^ 64) (by omega) (by omega)
  have hv : Recip.recipModel (d / 2 ^ 64) < 2 ^ 64 := reciprocal_lt (d / 2 ^ 64)
  unfold Gen.reciprocal_2_mg10 reciprocal2 KFull.recip2Code
  simp only []
  rw [e1, hrr]
  generalize Recip.recipModel (d / 2 ^ 64) = v at hv ⊢
  generalize hd1 : d / 2 ^ 64 = d1
  generalize hd0 : d % 2 ^ 64 = d0
  rw [blk1_def, blk2_def]
  rs_norm
  have hd1a : 2 ^ 63 ≤ d1 := by omega
  have hd1b : d1 < 2 ^ 64 := by omega
  have hd0b : d0 < 2 ^ 64 := by omega
  have hdd : d = d1 * 2 ^ 64 + d0 := by omega
  generalize hm : d1 * v % 2 ^ 64 = m
  have hmlt : m < 2 ^ 64 := by rw [← hm]; exact Nat.mod_lt _ (by norm_num)
  generalize hp : (m + d0) % 2 ^ 64 = p
  have hplt : p < 2 ^ 64 := by rw [← hp]; exact Nat.mod_lt _ (by norm_num)
  clear hm hp hrr e1 hd1 hd0
  have hor : ∀ a b : ℕ, a < 2 ^ 64 → b < 2 ^ 64 → a * 2 ^ 64 % 2 ^ 128 ||| b = a * 2 ^ 64 + b := by
    intro a b ha hb
    rw [Nat.mod_eq_of_lt (by omega), Nat.mul_comm]
    exact (Nat.two_pow_add_eq_or_of_lt hb a).symm
  have hvm : ∀ x : ℕ, (x + 2 ^ 64 - 1) % 2 ^ 64 < 2 ^ 64 := fun x => Nat.mod_lt _ (by norm_num)
  by_cases c1 : p < d0
  · by_cases c2 : p ≥ d1
    · simp only [c1, c2, if_true]
      have e : (p + 2 ^ 64 - d1) % 2 ^ 64 = p - d1 := by omega
      rw [e]
      have ht : (((v + 2 ^ 64 - 1) % 2 ^ 64 + 2 ^ 64 - 1) % 2 ^ 64) * d0 < 2 ^ 64 * 2 ^ 64 := Nat.mul_lt_mul'' (hvm _) hd0b
      generalize (((v + 2 ^ 64 - 1) % 2 ^ 64 + 2 ^ 64 - 1) % 2 ^ 64) * d0 = t at ht ⊢
      rw [Nat.mod_eq_of_lt (by omega : t < 2 ^ 128), Nat.mod_eq_of_lt (by omega : t / 2 ^ 64 < 2 ^ 64)]
      rw [hor _ _ (Nat.mod_lt _ (by norm_num)) (Nat.mod_lt _ (by norm_num))]
    · simp only [c1, c2, if_true, if_false]
      have ht : ((v + 2 ^ 64 - 1) % 2 ^ 64) * d0 < 2 ^ 64 * 2 ^ 64 := Nat.mul_lt_mul'' (hvm _) hd0b
      generalize ((v + 2 ^ 64 - 1) % 2 ^ 64) * d0 = t at ht ⊢
      rw [Nat.mod_eq_of_lt (by omega : t < 2 ^ 128), Nat.mod_eq_of_lt (by omega : t / 2 ^ 64 < 2 ^ 64)]
      rw [hor _ _ (Nat.mod_lt _ (by norm_num)) (Nat.mod_lt _ (by norm_num))]
  · simp only [c1, if_false]
    have ht : v * d0 < 2 ^ 64 * 2 ^ 64 := Nat.mul_lt_mul'' hv hd0b
    generalize v * d0 = t at ht ⊢
    rw [Nat.mod_eq_of_lt (by omega : t < 2 ^ 128), Nat.mod_eq_of_lt (by omega : t / 2 ^ 64 < 2 ^ 64)]
    rw [hor _ _ (Nat.mod_lt _ (by norm_num)) (Nat.mod_lt _ (by norm_num))]

end Ruint.Div.GenTie
