import Mathlib.Tactic.Ring
import Mathlib.Tactic.Linarith
import Mathlib.Tactic.NormNum
import Mathlib.Tactic.Zify
import Mathlib.Tactic.Positivity
import Mathlib.Tactic.Push
import Mathlib.Data.Int.ModEq
import Mathlib.Tactic.LinearCombination
import Ruint.Model.DivCore

namespace Ruint.Div.R2

/-! MG10 Algorithm 6 (`reciprocal_2_mg10`) given the 1-word reciprocal spec, generic base `W`. -/





example : ∀ d : Fin 64, 32 ≤ d.val → recip2 8 d.val = recip2Spec 8 d.val := by decide
example : ∀ d : Fin 256, 128 ≤ d.val → recip2 16 d.val = recip2Spec 16 d.val := by decide +kernel

theorem pred_mod (W v : ℕ) (hv : 1 ≤ v) (hvW : v < W) : (v + W - 1) % W = v - 1 := by
  have : v + W - 1 = (v - 1) + W := by omega
  rw [this, Nat.add_mod_right, Nat.mod_eq_of_lt (by omega)]

/-- Block 1 establishes `p = W - S2`, `(W+v)*d1 + d0 = W*W - S2`, `1 ≤ S2 ≤ d1`. -/
theorem blk1_spec (W d1 d0 : ℕ) (hW : 2 ≤ W) (hd1W : d1 < W) (hnorm : W ≤ 2 * d1) (hd0 : d0 < W) :
    let s := blk1 W d1 d0 (recipSpec W d1)
    ∃ S2 : ℕ, 1 ≤ S2 ∧ S2 ≤ d1 ∧ s.2 = W - S2 ∧ (W + s.1) * d1 + d0 + S2 = W * W ∧ s.1 < W := by
  intro s
  have hW0 : 0 < W := by omega
  have hd10 : 0 < d1 := by omega
  set V := (W * W - 1) / d1 with hV
  have hWW : 1 ≤ W * W := Nat.one_le_iff_ne_zero.mpr (by positivity)
  have hVd : V * d1 ≤ W * W - 1 := Nat.div_mul_le_self _ _
  have hVd' : W * W - 1 < (V + 1) * d1 := by
    have h := Nat.div_add_mod (W * W - 1) d1
    have hm := Nat.mod_lt (W * W - 1) hd10
    rw [← hV] at h
    nlinarith
  have hVW : W ≤ V := by
    rw [hV, Nat.le_div_iff_mul_le hd10]
    have h1 : W * d1 ≤ W * (W - 1) := Nat.mul_le_mul_left _ (by omega)
    have h2 : W * (W - 1) = W * W - W := by rw [Nat.mul_sub, Nat.mul_one]
    omega
  have hV2W : V < 2 * W := by
    by_contra hc
    push Not at hc
    have : 2 * W * d1 ≤ V * d1 := Nat.mul_le_mul_right _ hc
    have h3 : W * W ≤ 2 * W * d1 := by nlinarith
    omega
  -- S = W*W - V*d1 ∈ [1, d1]
  obtain ⟨S, hS⟩ : ∃ S, S + V * d1 = W * W := ⟨W * W - V * d1, by omega⟩
  have hS1 : 1 ≤ S := by omega
  have hSd : S ≤ d1 := by
    have : W * W - 1 < V * d1 + d1 := by rw [Nat.add_mul, Nat.one_mul] at hVd'; exact hVd'
    omega
  set v := V - W with hv
  have hvW : v < W := by omega
  have hvV : v + W = V := by omega
  have hrec : recipSpec W d1 = v := rfl
  -- p0 = d1 * v % W = W - S
  have hp0 : d1 * v % W = W - S := by
    have e : d1 * v + S = (W - d1) * W := by
      have : d1 * v = d1 * V - d1 * W := by rw [hv, Nat.mul_sub]
      have h1 : d1 * W ≤ d1 * V := Nat.mul_le_mul_left _ hVW
      have h2 : d1 * V = V * d1 := Nat.mul_comm _ _
      have h3 : (W - d1) * W = W * W - d1 * W := Nat.sub_mul _ _ _
      omega
    have e2 : d1 * v = (W - S) + (W - d1 - 1) * W := by
      have h3 : (W - d1) * W = (W - d1 - 1) * W + W := by
        have : W - d1 = (W - d1 - 1) + 1 := by omega
        conv_lhs => rw [this, Nat.add_mul, Nat.one_mul]
      omega
    rw [e2, Nat.add_mul_mod_self_right, Nat.mod_eq_of_lt (by omega)]
  simp only [s, blk1, hrec, hp0]
  clear_value v V
  by_cases hcarry : S ≤ d0
  · -- carry: p = d0 - S
    have hp : (W - S + d0) % W = d0 - S := by
      have : W - S + d0 = (d0 - S) + W := by omega
      rw [this, Nat.add_mod_right, Nat.mod_eq_of_lt (by omega)]
    rw [hp]
    have hlt : d0 - S < d0 := by omega
    simp only [hlt, if_true]
    -- need v ≥ 1 (no underflow): (W+v)*d1 = W*W - S, if v = 0 then W*d1 + S = W*W, S ≤ d1 < W ⇒ contradiction unless d1 = W-1..
    have hvd : (v + W) * d1 + S = W * W := by rw [hvV]; omega
    by_cases h2 : d0 - S ≥ d1
    · simp only [h2, if_true]
      -- two decrements
      have hv2 : 2 ≤ v := by
        by_contra hc
        push Not at hc
        -- (v+W)*d1 + S = W*W with v ≤ 1, and d0 ≥ S + d1, d0 < W
        have : (v + W) * d1 ≤ (1 + W) * d1 := Nat.mul_le_mul_right _ (by omega)
        nlinarith
      rw [pred_mod W v (by omega) hvW, pred_mod W (v - 1) (by omega) (by omega)]
      refine ⟨S + 2 * d1 - d0, by omega, by omega, ?_, ?_, by omega⟩
      · have : d0 - S - d1 + W - d1 = W - (S + 2 * d1 - d0) := by omega
        rw [this, Nat.mod_eq_of_lt (by omega)]
      · have : W + (v - 1 - 1) = (v + W) - 2 := by omega
        rw [this, Nat.sub_mul]
        have : 2 * d1 ≤ (v + W) * d1 := Nat.mul_le_mul_right _ (by omega)
        omega
    · simp only [h2, if_false]
      have hv1 : 1 ≤ v := by
        by_contra hc
        push Not at hc
        have hv0 : v = 0 := by omega
        rw [hv0, Nat.zero_add] at hvd
        -- W*d1 + S = W*W, S ≤ d0 < W, so W*(W - d1) = S < W ⇒ W - d1 < 1
        have : W * d1 + W ≤ W * W := by
          have : W * (d1 + 1) ≤ W * W := Nat.mul_le_mul_left _ (by omega)
          rw [Nat.mul_add, Nat.mul_one] at this; exact this
        omega
      rw [pred_mod W v hv1 hvW]
      refine ⟨S + d1 - d0, by omega, by omega, ?_, ?_, by omega⟩
      · have : d0 - S + W - d1 = W - (S + d1 - d0) := by omega
        rw [this, Nat.mod_eq_of_lt (by omega)]
      · have : W + (v - 1) = (v + W) - 1 := by omega
        rw [this, Nat.sub_mul, Nat.one_mul]
        have : d1 ≤ (v + W) * d1 := Nat.le_mul_of_pos_left _ (by omega)
        omega
  · -- no carry
    have hp : (W - S + d0) % W = W - S + d0 := Nat.mod_eq_of_lt (by omega)
    rw [hp]
    have hnl : ¬ (W - S + d0 < d0) := by omega
    simp only [hnl, if_false]
    refine ⟨S - d0, by omega, by omega, by omega, ?_, hvW⟩
    have hvd : (v + W) * d1 + S = W * W := by rw [hvV]; omega
    rw [Nat.add_comm W v]; omega


/-- characterisation used to conclude -/
theorem recip2_of_bounds (W d x : ℕ) (hd : 0 < d)
    (h1 : (W + x) * d ≤ W * W * W - 1) (h2 : W * W * W - 1 < (W + x + 1) * d) :
    recip2Spec W d = x := by
  unfold recip2Spec
  have : (W * W * W - 1) / d = W + x := by
    exact Nat.div_eq_of_lt_le h1 h2
  omega

theorem blk2_spec (W d1 d0 v S2 : ℕ) (hW : 2 ≤ W) (hd1W : d1 < W) (hnorm : W ≤ 2 * d1) (hd0 : d0 < W)
    (hvW : v < W) (hS1 : 1 ≤ S2) (hSd : S2 ≤ d1) (hinv : (W + v) * d1 + d0 + S2 = W * W) :
    blk2 W (d1 * W + d0) d0 v (W - S2) = recip2Spec W (d1 * W + d0) := by
  have hW0 : 0 < W := by omega
  set d := d1 * W + d0 with hd
  have hdpos : 0 < d := by rw [hd]; nlinarith
  have hW3 : 1 ≤ W * W * W := Nat.one_le_iff_ne_zero.mpr (by positivity)
  unfold blk2
  simp only []
  set t1 := v * d0 / W with ht1
  set t0 := v * d0 % W with ht0
  have ht : v * d0 = t1 * W + t0 := (Nat.div_add_mod' _ _).symm
  have ht0W : t0 < W := Nat.mod_lt _ hW0
  have ht1W : t1 < W := by
    rw [ht1]; apply Nat.div_lt_of_lt_mul; nlinarith
  -- (W+v)*d + S2*W = W^3 + t
  have hmain : (W + v) * d + S2 * W = W * W * W + v * d0 := by
    have e : (W + v) * d = ((W + v) * d1) * W + (W + v) * d0 := by rw [hd]; ring
    have e2 : ((W + v) * d1 + d0 + S2) * W = W * W * W := by rw [hinv]
    nlinarith
  have h2d : W * W ≤ 2 * d := by rw [hd]; nlinarith
  clear_value t1 t0
  symm
  by_cases hc : t1 < S2
  · -- no carry
    have hp : (W - S2 + t1) % W = W - S2 + t1 := Nat.mod_eq_of_lt (by omega)
    rw [hp]
    have : ¬ (W - S2 + t1 < t1) := by omega
    simp only [this, if_false]
    apply recip2_of_bounds W d v hdpos
    · -- (W+v)*d = W^3 - (S2 - t1)*W + t0 ≤ W^3 - 1
      have : (S2 - t1) * W ≥ W := Nat.le_mul_of_pos_left _ (by omega)
      have e : S2 * W = (S2 - t1) * W + t1 * W := by rw [← Nat.add_mul]; congr 1; omega
      omega
    · have e : S2 * W = (S2 - t1) * W + t1 * W := by rw [← Nat.add_mul]; congr 1; omega
      have : (S2 - t1) * W ≤ d1 * W := Nat.mul_le_mul_right _ (by omega)
      have e3 : (W + v + 1) * d = (W + v) * d + d := by ring
      rw [e3]; omega
  · -- carry
    push Not at hc
    have hp : (W - S2 + t1) % W = t1 - S2 := by
      have : W - S2 + t1 = (t1 - S2) + W := by omega
      rw [this, Nat.add_mod_right, Nat.mod_eq_of_lt (by omega)]
    rw [hp]
    have : t1 - S2 < t1 := by omega
    simp only [this, if_true]
    have hv2 : 2 ≤ v := by
      by_contra hcon
      push Not at hcon
      have : v * d0 < W := by
        rcases Nat.lt_or_ge v 1 with h | h
        · have : v = 0 := by omega
          rw [this]; simp; exact hW0
        · have : v = 1 := by omega
          rw [this]; simpa using hd0
      have : t1 * W ≤ v * d0 := by omega
      have : W ≤ t1 * W := Nat.le_mul_of_pos_left _ (by omega)
      omega
    rw [pred_mod W v (by omega) hvW]
    have e : t1 * W = (t1 - S2) * W + S2 * W := by rw [← Nat.add_mul]; congr 1; omega
    by_cases hge : (t1 - S2) * W + t0 ≥ d
    · simp only [hge, if_true]
      rw [pred_mod W (v - 1) (by omega) (by omega)]
      apply recip2_of_bounds W d (v - 1 - 1) hdpos
      · have e3 : (W + (v - 1 - 1)) * d + 2 * d = (W + v) * d := by
          have : W + (v - 1 - 1) + 2 = W + v := by omega
          rw [← this]; ring
        have hlt : (t1 - S2) * W + t0 < 2 * d := by
          have : v * d0 < W * W := by nlinarith
          omega
        omega
      · have e3 : (W + (v - 1 - 1) + 1) * d + d = (W + v) * d := by
          have : W + (v - 1 - 1) + 1 + 1 = W + v := by omega
          rw [← this]; ring
        omega
    · simp only [hge, if_false]
      apply recip2_of_bounds W d (v - 1) hdpos
      · have e3 : (W + (v - 1)) * d + d = (W + v) * d := by
          have : W + (v - 1) + 1 = W + v := by omega
          rw [← this]; ring
        omega
      · have e3 : (W + (v - 1) + 1) * d = (W + v) * d := by
          have : W + (v - 1) + 1 = W + v := by omega
          rw [this]
        rw [e3]; omega

/-- `reciprocal_2_mg10 d = ⌊(W³−1)/d⌋ − W` for every normalised two-word `d`. -/
theorem recip2_spec (W d : ℕ) (hW : 2 ≤ W) (hdW : d < W * W) (hnorm : W ≤ 2 * (d / W)) :
    recip2 W d = recip2Spec W d := by
  have hW0 : 0 < W := by omega
  have hd1W : d / W < W := Nat.div_lt_of_lt_mul hdW
  have hd0 : d % W < W := Nat.mod_lt _ hW0
  obtain ⟨S2, h1, h2, h3, h4, h5⟩ := blk1_spec W (d / W) (d % W) hW hd1W hnorm hd0
  unfold recip2
  simp only []
  rw [h3]
  have hd : d = d / W * W + d % W := (Nat.div_add_mod' d W).symm
  have := blk2_spec W (d / W) (d % W) _ S2 hW hd1W hnorm hd0 h5 h1 h2 h4
  rw [← hd] at this
  exact this


end Ruint.Div.R2