import Ruint.Lemmas.Div.Step

/-! One iteration of `div_nxm_normalized` (`n ≥ 2`, no shift, no zero-digit skip, overflow arm first). -/
namespace Ruint.Div.KN
open KStep


theorem val2 (W : ℕ) (l : List ℕ) (a b : ℕ) :
    val W (l ++ [a, b]) = (b * W + a) * W ^ l.length + val W l := by
  rw [val_append]; simp only [val_cons, val_nil]; ring

set_option maxHeartbeats 2000000 in
theorem nsetup (W k M Lw Dl c0 c1 c2 e0 e1 Win D N3 d n21 : ℕ) (hW2 : 2 ≤ W) (hM : M = W ^ k)
    (hLw : Lw < M) (hDl : Dl < M) (hc0 : c0 < W) (he0 : e0 < W) (he1 : e1 < W) (hn : W ≤ 2 * e1)
    (eWin : Win = N3 * M + Lw) (eD : D = d * M + Dl) (eN3 : N3 = n21 * W + c0) (ed : d = e1 * W + e0)
    (hwin : Win < D * W) :
    W * W ≤ 2 * d ∧ d < W * W ∧ 0 < D ∧ n21 ≤ d ∧ Win / D ≤ N3 / d ∧ N3 / d ≤ Win / D + 1
    ∧ (n21 = d → Win / D = W - 1) ∧ D < M * W * W := by
  have hW0 : 0 < W := by omega
  have hM0 : 0 < M := by rw [hM]; positivity
  have g1 : W * W ≤ 2 * d := by rw [ed]; nlinarith
  have g2 : d < W * W := by
    rw [ed]
    have : (e1 + 1) * W ≤ W * W := Nat.mul_le_mul_right _ he1
    nlinarith
  have hd0 : 0 < d := by nlinarith
  have g3 : 0 < D := by rw [eD]; positivity
  have g4 : n21 ≤ d := by
    by_contra hc; push Not at hc
    have h1 : (d + 1) * W ≤ n21 * W := Nat.mul_le_mul_right _ hc
    have h2 : (d + 1) * W * M ≤ N3 * M := Nat.mul_le_mul_right _ (by omega)
    have h3 : (d + 1) * W * M = (d * M + M) * W := by ring
    have h4 : (d * M + Dl) * W < (d * M + M) * W := Nat.mul_lt_mul_of_pos_right (by omega) hW0
    rw [eD] at hwin
    omega
  have hest := knuth_digit_estimate W M d Dl N3 Lw hW2 hM0 hDl hLw g1 (by rw [← eWin, ← eD]; exact hwin)
  rw [← eWin, ← eD] at hest
  have g8 : D < M * W * W := by
    rw [eD]
    have : (d + 1) * M ≤ W * W * M := Nat.mul_le_mul_right _ g2
    nlinarith
  refine ⟨g1, g2, g3, g4, hest.1, hest.2, ?_, g8⟩
  intro heq
  have hbig : W * M ≤ d * M + Dl := by
    have h1 : W ≤ d := by nlinarith
    have : W * M ≤ d * M := Nat.mul_le_mul_right _ h1
    omega
  have eN3' : N3 = d * W + c0 := by rw [eN3, heq]
  have hf := KS.forced_digit W M d Dl c0 Lw hW2 hDl
    (by rw [← eN3', ← eWin, ← eD]; exact hwin) hbig
  rw [← eN3', ← eWin, ← eD] at hf
  exact hf

set_option maxHeartbeats 4000000 in
theorem nstep_spec (W : ℕ) (low : List ℕ) (c0 c1 c2 : ℕ) (dlow : List ℕ) (e0 e1 v : ℕ) (hW2 : 2 ≤ W)
    (hlow : AllLt W low) (hdlow : AllLt W dlow) (hlen : low.length = dlow.length)
    (hc0 : c0 < W) (hc1 : c1 < W) (he0 : e0 < W) (he1 : e1 < W) (hn : W ≤ 2 * e1)
    (hwin : val W (low ++ [c0, c1, c2]) < val W (dlow ++ [e0, e1]) * W)
    (hv : v = recip2Spec W (e1 * W + e0)) :
    val W (low ++ [c0, c1, c2])
        = (nstep W low c0 c1 c2 dlow e0 e1 v).1 * val W (dlow ++ [e0, e1]) + val W (nstep W low c0 c1 c2 dlow e0 e1 v).2
    ∧ val W (nstep W low c0 c1 c2 dlow e0 e1 v).2 < val W (dlow ++ [e0, e1])
    ∧ (nstep W low c0 c1 c2 dlow e0 e1 v).2.length = low.length + 2
    ∧ AllLt W (nstep W low c0 c1 c2 dlow e0 e1 v).2
    ∧ (nstep W low c0 c1 c2 dlow e0 e1 v).1 < W := by
  have hW0 : 0 < W := by omega
  obtain ⟨k, hk⟩ : ∃ k, k = low.length := ⟨_, rfl⟩
  obtain ⟨M, hM⟩ : ∃ M, M = W ^ k := ⟨_, rfl⟩
  have hM0 : 0 < M := by rw [hM]; positivity
  obtain ⟨Win, eWinv⟩ : ∃ Win, Win = val W (low ++ [c0, c1, c2]) := ⟨_, rfl⟩
  obtain ⟨D, eDv⟩ : ∃ D, D = val W (dlow ++ [e0, e1]) := ⟨_, rfl⟩
  obtain ⟨d, ed⟩ : ∃ d, d = e1 * W + e0 := ⟨_, rfl⟩
  obtain ⟨n21, en21⟩ : ∃ n21, n21 = c2 * W + c1 := ⟨_, rfl⟩
  obtain ⟨N3, eN3⟩ : ∃ N3, N3 = n21 * W + c0 := ⟨_, rfl⟩
  obtain ⟨Lw, hLw⟩ : ∃ Lw, Lw = val W low := ⟨_, rfl⟩
  obtain ⟨Dl, hDl⟩ : ∃ Dl, Dl = val W dlow := ⟨_, rfl⟩
  have hLwM : Lw < M := by rw [hLw, hM, hk]; exact val_lt_pow W low hlow
  have hDlM : Dl < M := by rw [hDl, hM, hk, hlen]; exact val_lt_pow W dlow hdlow
  have eWin : Win = N3 * M + Lw := by
    rw [eWinv, val3, eN3, en21, hLw, hM, hk, pow_succ]; ring
  have eD : D = d * M + Dl := by
    rw [eDv, val2, ed, hDl, hM, hk, hlen]
  rw [← eWinv, ← eDv] at hwin ⊢
  obtain ⟨g1, g2, g3, g4, g5, g6, g7, g8⟩ :=
    nsetup W k M Lw Dl c0 c1 c2 e0 e1 Win D N3 d n21 hW2 hM hLwM hDlM hc0 he0 he1 hn eWin eD eN3 ed hwin
  obtain ⟨q, hq⟩ : ∃ q, q = Win / D := ⟨_, rfl⟩
  obtain ⟨R, hR⟩ : ∃ R, R = Win % D := ⟨_, rfl⟩
  have hqR : Win = q * D + R := by rw [hq, hR]; exact (Nat.div_add_mod' _ _).symm
  have hRD : R < D := by rw [hR]; exact Nat.mod_lt _ g3
  have hqW : q < W := by rw [hq]; exact Nat.div_lt_of_lt_mul hwin
  rw [← hq] at g5 g6 g7
  have hPk : W ^ (k + 2) = M * W * W := by rw [hM]; ring
  have hdsall : AllLt W (dlow ++ [e0, e1]) := by
    apply allLt_append hdlow; intro x hx; simp at hx; rcases hx with rfl | rfl <;> assumption
  unfold nstep
  simp only []
  rw [← ed, ← en21]
  by_cases h21 : n21 = d
  · -- overflow arm
    rw [if_pos h21]
    have hqv : q = W - 1 := g7 h21
    obtain ⟨L, hL⟩ : ∃ L, L = val W (low ++ [c0, c1]) := ⟨_, rfl⟩
    have hLall : AllLt W (low ++ [c0, c1]) := by
      apply allLt_append hlow; intro x hx; simp at hx; rcases hx with rfl | rfl <;> assumption
    have hP : W ^ (k + 2) = W ^ (low ++ [c0, c1]).length := by simp [hk]
    have hLlt : L < W ^ (k + 2) := by rw [hL, hP]; exact val_lt_pow W _ hLall
    have hWinL : Win = c2 * W ^ (k + 2) + L := by
      rw [eWinv, hL, val3, val2, ← hk]; ring
    have hdslen : (low ++ [c0, c1]).length = (dlow ++ [e0, e1]).length := by simp [hlen]
    obtain ⟨sm1, sm2, sm3⟩ := submulNx1_spec W hW0 (low ++ [c0, c1]) (dlow ++ [e0, e1]) (W - 1) 0 0 hdslen hLall
    rw [← hL, ← eDv, ← hP] at sm1
    obtain ⟨sm, hsm⟩ : ∃ sm, sm = submulNx1 W (low ++ [c0, c1]) (dlow ++ [e0, e1]) (W - 1) 0 0 := ⟨_, rfl⟩
    rw [← hsm] at sm1 sm2 sm3 ⊢
    have hL'lt : val W sm.1 < W ^ (k + 2) := by
      have := val_lt_pow W sm.1 sm3; rw [sm2, ← hP] at this; exact this
    have hcor := KS.correction (W ^ (k + 2)) D c2 L (val W sm.1) sm.2 (W - 1) q R (by positivity)
      (by rw [hPk]; exact g8) hL'lt
      (by rw [Nat.mul_comm (W - 1) D, Nat.mul_comm sm.2]; omega) (by rw [← hWinL]; exact hqR) hRD
    obtain ⟨hb, hL'R⟩ := hcor.1 hqv.symm
    refine ⟨?_, by rw [hL'R]; exact hRD, by rw [sm2]; simp, sm3, by omega⟩
    rw [hL'R, ← hqv]; exact hqR
  · rw [if_neg h21]
    have h21lt : n21 < d := by omega
    have hs := div3x2_spec W n21 c0 d hW2 g1 g2 h21lt hc0
    rw [← eN3] at hs
    rw [hv, ← ed, hs]
    simp only []
    obtain ⟨qh, hqh⟩ : ∃ qh, qh = N3 / d := ⟨_, rfl⟩
    rw [← hqh] at g5 g6 ⊢
    have hqhW : qh < W := by
      rw [hqh]; apply Nat.div_lt_of_lt_mul
      rw [eN3]; nlinarith
    have hqcase : qh = q ∨ qh = q + 1 := by omega
    obtain ⟨sm1, sm2, sm3⟩ := submulNx1_spec W hW0 low dlow qh 0 0 hlen hlow
    rw [← hLw, ← hDl, ← hk, ← hM] at sm1
    rw [← hk] at sm2
    obtain ⟨sm, hsm⟩ : ∃ sm, sm = submulNx1 W low dlow qh 0 0 := ⟨_, rfl⟩
    rw [← hsm] at sm1 sm2 sm3 ⊢
    obtain ⟨r, hr⟩ : ∃ r, r = N3 % d := ⟨_, rfl⟩
    rw [← hr]
    obtain ⟨rr, hrr⟩ : ∃ rr, rr = (r + W * W - sm.2) % (W * W) := ⟨_, rfl⟩
    rw [← hrr]
    have hv1 : val W sm.1 < M := by
      have := val_lt_pow W sm.1 sm3; rw [sm2, ← hM] at this; exact this
    have hsub : val W sm.1 + qh * Dl = Lw + sm.2 * M := by
      rw [Nat.mul_comm qh Dl, Nat.mul_comm sm.2 M]; omega
    have hd0 : 0 < d := by
      rcases Nat.eq_zero_or_pos d with h | h
      · rw [h] at g1; have : 0 < W * W := Nat.mul_pos hW0 hW0; omega
      · exact h
    have harith := t1_arith W M N3 d Lw Dl Win D q R qh sm.2 (val W sm.1) r hM0
      eWin eD hqR hRD hqh hr hsub hv1 hDlM hqhW g2 hd0
    rw [← hrr] at harith
    have hrrlt : rr < W * W := by rw [hrr]; exact Nat.mod_lt _ (Nat.mul_pos hW0 hW0)
    have hw'val : val W (sm.1 ++ [rr % W, rr / W]) = val W sm.1 + rr * M := by
      rw [val_append, sm2, ← hM]; simp only [val_cons, val_nil]
      have := Nat.mod_add_div rr W
      rw [Nat.mul_zero, Nat.add_zero, this, Nat.mul_comm]
    have hw'all : AllLt W (sm.1 ++ [rr % W, rr / W]) := by
      apply allLt_append sm3; intro x hx; simp at hx
      rcases hx with rfl | rfl
      · exact Nat.mod_lt _ hW0
      · exact Nat.div_lt_of_lt_mul hrrlt
    have hw'len : (sm.1 ++ [rr % W, rr / W]).length = k + 2 := by simp [sm2]
    rcases hqcase with hc | hc
    · obtain ⟨hflag, hval⟩ := harith.1 hc
      rw [if_neg hflag]
      refine ⟨?_, by rw [hw'val, hval]; exact hRD, by rw [hw'len, hk], hw'all, hqhW⟩
      rw [hw'val, hval, hc]; exact hqR
    · obtain ⟨hflag, hval⟩ := harith.2 hc
      rw [if_pos hflag]
      have hlen2 : (sm.1 ++ [rr % W, rr / W]).length = (dlow ++ [e0, e1]).length := by
        rw [hw'len]; simp [hk, hlen]
      obtain ⟨a1, a2, a3⟩ := adcN_spec W hW0 (sm.1 ++ [rr % W, rr / W]) (dlow ++ [e0, e1]) 0 hlen2
      rw [← eDv, hw'len, hw'val] at a1
      rw [hw'len] at a2
      obtain ⟨ad, had⟩ : ∃ ad, ad = adcN W (sm.1 ++ [rr % W, rr / W]) (dlow ++ [e0, e1]) 0 := ⟨_, rfl⟩
      rw [← had] at a1 a2 a3 ⊢
      have hadlt : val W ad.1 < W ^ (k + 2) := by
        have := val_lt_pow W ad.1 a3; rw [a2] at this; exact this
      have hPM : W ^ (k + 2) = W * W * M := by rw [hM]; ring
      have hRP : R < W ^ (k + 2) := by rw [hPk]; omega
      have hadR : val W ad.1 = R :=
        carry_one (W ^ (k + 2)) (val W ad.1) ad.2 R (by rw [a1, Nat.add_zero, hval, hPM]) hadlt hRP
      rw [pred_mod W qh (by omega) hqhW]
      refine ⟨?_, by rw [hadR]; exact hRD, by rw [a2, hk], a3, by omega⟩
      rw [hadR, hc, Nat.add_sub_cancel]; exact hqR

end Ruint.Div.KN