import Ruint.Lemmas.Float

/-! Comparison lemmas of the IEEE model against powers of two and zero, for decoded finite values;
    field decomposition of binary64 patterns. -/
namespace Ruint.Float

/-- a common extra scale does not change a comparison of scaled mantissas. -/
theorem scaled_le_iff (m1 m2 a b d : ℕ) : m1 * 2 ^ (a + d) ≤ m2 * 2 ^ (b + d) ↔ m1 * 2 ^ a ≤ m2 * 2 ^ b := by
  have hd : 0 < 2 ^ d := by positivity
  rw [pow_add, pow_add, ← Nat.mul_assoc, ← Nat.mul_assoc]
  exact Nat.mul_le_mul_right_iff hd

theorem scaled_lt_iff (m1 m2 a b d : ℕ) : m1 * 2 ^ (a + d) < m2 * 2 ^ (b + d) ↔ m1 * 2 ^ a < m2 * 2 ^ b := by
  have hd : 0 < 2 ^ d := by positivity
  rw [pow_add, pow_add, ← Nat.mul_assoc, ← Nat.mul_assoc]
  exact Nat.mul_lt_mul_right hd

/-- `m1·2^e1 ≤ m2·2^e2` with the model's alignment (`c = min e1 e2`) equals the comparison with the
    alignment that makes one side a pure mantissa. -/
theorem le_align (m1 m2 : ℕ) (e1 e2 : ℤ) :
    m1 * 2 ^ (e1 - min e1 e2).toNat ≤ m2 * 2 ^ (e2 - min e1 e2).toNat
      ↔ m1 * 2 ^ (e1 - e2).toNat ≤ m2 * 2 ^ (e2 - e1).toNat := by
  rcases le_total e1 e2 with h | h
  · rw [min_eq_left h]
    have : (e1 - e2).toNat = 0 := by omega
    simp [this]
  · rw [min_eq_right h]
    have : (e2 - e1).toNat = 0 := by omega
    simp [this]

theorem lt_align (m1 m2 : ℕ) (e1 e2 : ℤ) :
    m1 * 2 ^ (e1 - min e1 e2).toNat < m2 * 2 ^ (e2 - min e1 e2).toNat
      ↔ m1 * 2 ^ (e1 - e2).toNat < m2 * 2 ^ (e2 - e1).toNat := by
  rcases le_total e1 e2 with h | h
  · rw [min_eq_left h]
    have : (e1 - e2).toNat = 0 := by omega
    simp [this]
  · rw [min_eq_right h]
    have : (e2 - e1).toNat = 0 := by omega
    simp [this]

/-- `2^K` as a binary64 pattern, `-1022 ≤ K ≤ 1023`. -/
def pow2 (K : ℤ) : ℕ := (K + 1023).toNat * 2 ^ 52

theorem decode_pow2 (K : ℤ) (h1 : -1022 ≤ K) (h2 : K ≤ 1023) :
    decode b64 (pow2 K) = .fin false (2 ^ 52) (K - 52) := by
  have := decode_normal b64 b64_ok (K + 1023).toNat 0 (by omega) (by
    have : b64.emaxB = 2047 := by decide
    omega) (by norm_num [b64])
  simp only [Nat.add_zero] at this
  unfold pow2
  have hmb : b64.mb = 52 := rfl
  rw [hmb] at this
  rw [this]
  have hq : b64.qmin = -1074 := by decide
  rw [hq]
  congr 1
  omega

theorem half_eq : half b64 = pow2 (-1) := by decide
theorem two52_eq : two52 = pow2 52 := by decide
theorem exp2Int_eq (k : ℕ) (h : k ≤ 1023) : exp2Int b64 k = pow2 (k : ℤ) := by
  unfold exp2Int pow2
  have hb : b64.bias = 1023 := by decide
  have hmb : b64.mb = 52 := rfl
  rw [hb, hmb, if_pos h]
  congr 1 <;> omega
theorem exp2Int_inf (k : ℕ) (h : 1023 < k) : exp2Int b64 k = b64.infBits := by
  unfold exp2Int
  have hb : b64.bias = 1023 := by decide
  rw [hb, if_neg (by omega)]

theorem decode_zero : decode b64 0 = .fin false 0 (-1074) := by decide
theorem decode_inf64 : decode b64 b64.infBits = .inf false := by decide


/-- `2^a ≤ m·2^b` depends only on `a - b`. -/
theorem pow_le_mul_pow_iff (m a b a' b' : ℕ) (h : (a : ℤ) - b = a' - b') :
    2 ^ a ≤ m * 2 ^ b ↔ 2 ^ a' ≤ m * 2 ^ b' := by
  rcases le_total b b' with hb | hb
  · obtain ⟨t, rfl⟩ : ∃ t, b' = b + t := ⟨b' - b, by omega⟩
    have : a' = a + t := by omega
    subst this
    have := scaled_le_iff 1 m a b t
    simp only [Nat.one_mul] at this
    exact this.symm
  · obtain ⟨t, rfl⟩ : ∃ t, b = b' + t := ⟨b - b', by omega⟩
    have : a = a' + t := by omega
    subst this
    have := scaled_le_iff 1 m a' b' t
    simp only [Nat.one_mul] at this
    exact this

theorem mul_pow_lt_pow_iff (m a b a' b' : ℕ) (h : (a : ℤ) - b = a' - b') :
    m * 2 ^ b < 2 ^ a ↔ m * 2 ^ b' < 2 ^ a' := by
  have := pow_le_mul_pow_iff m a b a' b' h
  constructor
  · intro hh; by_contra hc; push Not at hc; exact absurd (this.mpr hc) (by omega)
  · intro hh; by_contra hc; push Not at hc; exact absurd (this.mp hc) (by omega)

/-- `x >= 2^K` on a non-negative finite `x = m·2^e`. -/
theorem ge_pow2_iff (x m : ℕ) (e K : ℤ) (hx : decode b64 x = .fin false m e) (h1 : -1022 ≤ K) (h2 : K ≤ 1023) :
    ge b64 x (pow2 K) = true ↔ 2 ^ (K - e).toNat ≤ m * 2 ^ (e - K).toNat := by
  unfold ge
  rw [hx, decode_pow2 K h1 h2]
  simp only [Dec.le, sInt, Bool.false_eq_true, if_false, decide_eq_true_eq, Nat.cast_le]
  rw [le_align, ← pow_add]
  exact pow_le_mul_pow_iff m _ _ _ _ (by omega)

/-- `x < 2^K` on a non-negative finite `x = m·2^e`. -/
theorem lt_pow2_iff (x m : ℕ) (e K : ℤ) (hx : decode b64 x = .fin false m e) (h1 : -1022 ≤ K) (h2 : K ≤ 1023) :
    lt b64 x (pow2 K) = true ↔ m * 2 ^ (e - K).toNat < 2 ^ (K - e).toNat := by
  unfold lt
  rw [hx, decode_pow2 K h1 h2]
  simp only [Dec.lt, sInt, Bool.false_eq_true, if_false, decide_eq_true_eq, Nat.cast_lt]
  rw [lt_align, ← pow_add]
  exact mul_pow_lt_pow_iff m _ _ _ _ (by omega)

/-- `x < 0.0`. -/
theorem lt_zero_iff (x m : ℕ) (neg : Bool) (e : ℤ) (hx : decode b64 x = .fin neg m e) :
    lt b64 x zero = true ↔ (neg = true ∧ m ≠ 0) := by
  unfold lt zero
  rw [hx, decode_zero]
  simp only [Dec.lt, sInt, Bool.false_eq_true, if_false, decide_eq_true_eq]
  have hp : 0 < 2 ^ (e - min e (-1074)).toNat := by positivity
  cases neg
  · simp only [Bool.false_eq_true, if_false, false_and, iff_false, not_lt]
    omega
  · simp only [if_true, true_and]
    constructor
    · intro h hm; subst hm; simp at h
    · intro hm
      have : 0 < m * 2 ^ (e - min e (-1074)).toNat := Nat.mul_pos (by omega) hp
      simp only [Nat.zero_mul, Nat.cast_zero]
      omega
end Ruint.Float
