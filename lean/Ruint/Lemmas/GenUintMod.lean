import Ruint.Gen.WordsUintMod
import Ruint.Model.Canon
import Ruint.Model.BitsRev
import Ruint.Model.Mul
import Ruint.Model.ModularLimbs
import Ruint.Model.Redc
import Ruint.Model.Cmp
import Ruint.Lemmas.Canon
import Ruint.Lemmas.GenUint
import Ruint.Lemmas.GenShift
import Ruint.Lemmas.GenBitsWrap
import Ruint.Lemmas.GenAddmul
import Ruint.Lemmas.GenCmp
import Ruint.Lemmas.ModularLimbs
import Ruint.Lemmas.Div.GenUintDiv
import Ruint.Lemmas.GenRedcLoops
import Ruint.Lemmas.GenRedcSquare
import Ruint.Lemmas.RedcSq

/-! `from_limbs`, `from_limbs_unmasked` (`src/lib.rs`), `next_power_of_two` (`src/special.rs`), `widening_mul`
    (`src/mul.rs`), `mul_mod`, `mul_redc`, `square_redc` (`src/modular.rs`) and `Ord::cmp` (`src/cmp.rs`) as GENERATED
    from the source (`Gen/WordsUintMod.lean`) equal the hand-written models the property theorems are about. The tie of
    the generated `algorithms::div` to its model is an explicit hypothesis `HD` of `mul_mod_eq`. -/
set_option autoImplicit false
namespace Ruint.GenUintMod
open Ruint

/-! ### `from_limbs`, `from_limbs_unmasked` -/

/-- **`Uint::from_limbs` as generated from `src/lib.rs`** (with its `assert!`) equals the C04 model. -/
theorem from_limbs_eq (bits : ℕ) (hN : nlimbs bits < 2 ^ 64) (l : List ℕ) (hl : l.length = nlimbs bits) :
    Ruint.Gen.uint_from_limbs bits (nlimbs bits) l = Ruint.Canon.fromLimbs bits l := by
  unfold Ruint.Gen.uint_from_limbs Ruint.Canon.fromLimbs Ruint.Canon.shouldMask Ruint.Canon.top
  rw [GenCore.mask_eq]
  by_cases h0 : bits = 0
  · subst h0; simp
  · have hb : 0 < bits := Nat.pos_of_ne_zero h0
    have hn := nlimbs_pos bits hb
    have hg := Ruint.GenShift.getD_getLast l (by omega)
    rw [hl] at hg
    rw [Ruint.GenUint.wsub_one _ hn hN, hg]
    have hW : W - 1 = 2 ^ 64 - 1 := rfl
    obtain ⟨M, hM⟩ : ∃ M, M = 2 ^ 64 - 1 := ⟨_, rfl⟩
    rw [hW, ← hM]
    by_cases hm : mask bits = M
    · simp [hm]
    · by_cases ht : l.getLast?.getD 0 ≤ mask bits
      · simp [hb, hm, ht, Nat.not_lt.mpr ht]
      · simp [hb, hm, ht, Nat.not_le.mp ht]

/-- **`Uint::from_limbs_unmasked` as generated from `src/lib.rs`** equals the C04 model. -/
theorem from_limbs_unmasked_eq (bits : ℕ) (hN : nlimbs bits < 2 ^ 64) (l : List ℕ) (hl : l.length = nlimbs bits)
    (hw : Ruint.AllLt l) :
    Ruint.Gen.uint_from_limbs_unmasked bits (nlimbs bits) l = Ruint.Canon.fromLimbsUnmasked bits l := by
  unfold Ruint.Gen.uint_from_limbs_unmasked Ruint.Canon.fromLimbsUnmasked
  rw [Ruint.Canon.masked_eq_maskTop bits l hl hw]
  by_cases h0 : bits = 0
  · subst h0
    have : l = [] := by simpa [nlimbs] using hl
    subst this
    simp [Ruint.Gen.uint_masked, maskTop]
  · exact Ruint.GenUint.masked_eq bits (Nat.pos_of_ne_zero h0) hN l hl hw

/-! ### `next_power_of_two` -/

/-- **`Uint::next_power_of_two` as generated from `src/special.rs`** (`checked_next_power_of_two().unwrap()`). -/
theorem next_power_of_two_eq (bits : ℕ) (hN : nlimbs bits < 2 ^ 57) (a : List ℕ) (ha : Canon bits a) :
    Ruint.Gen.uint_next_power_of_two (nlimbs bits + 1) bits (nlimbs bits) a = Ruint.Bits.nextPowerOfTwo bits a := by
  unfold Ruint.Gen.uint_next_power_of_two Ruint.Bits.nextPowerOfTwo
  rw [Ruint.GenBitsWrap.checked_next_power_of_two_eq bits hN a ha]
  cases Ruint.Bits.checkedNextPowerOfTwo bits a <;> rfl

/-! ### `Ord::cmp` -/

/-- **`Ord::cmp for Uint` as generated from `src/cmp.rs`** is the model `Cmp.cmp`. -/
theorem cmp_eq (bits LIMBS : ℕ) (a b : List ℕ) (h64 : min a.length b.length < 2 ^ 64) (f : ℕ)
    (hf : min a.length b.length < f) :
    Ruint.Gen.uint_cmp f bits LIMBS a b = Ruint.Cmp.cmp a b := by
  unfold Ruint.Gen.uint_cmp
  exact Ruint.GenCmp.limb_cmp_eq a b h64 f hf

/-! ### `widening_mul` -/

/-- **`Uint::widening_mul` as generated from `src/mul.rs`** (two `assert_eq!`, `addmul` into a zero result). -/
theorem widening_mul_eq (bits bitsRhs bitsRes limbsRes : ℕ) (hB : bits + bitsRhs + 63 < 2 ^ 64) (a b : List ℕ)
    (ha : Ruint.AllLt a) (hb : Ruint.AllLt b) (hla : a.length < 2 ^ 64) (hlb : b.length < 2 ^ 64) (f : ℕ)
    (hlen : limbsRes + a.length + b.length < f) :
    Ruint.Gen.uint_widening_mul f bitsRhs (nlimbs bitsRhs) bitsRes limbsRes bits (nlimbs bits) a b
      = Ruint.Mul.wideningMulG bits bitsRhs bitsRes limbsRes a b := by
  unfold Ruint.Gen.uint_widening_mul Ruint.Mul.wideningMulG
  have hw : Rs.wadd 64 bits bitsRhs = bits + bitsRhs := by unfold Rs.wadd; omega
  rw [hw]
  dsimp only
  by_cases h1 : bitsRes = bits + bitsRhs
  · obtain ⟨S, hS⟩ : ∃ S, S = bits + bitsRhs := ⟨_, rfl⟩
    rw [← hS] at h1 ⊢
    subst h1
    have hn : Ruint.Gen.nlimbs bitsRes = nlimbs bitsRes := GenCore.nlimbs_eq bitsRes (by omega)
    rw [hn]
    by_cases h2 : limbsRes = nlimbs bitsRes
    · have hzl : AllLt (List.replicate limbsRes 0) := by
        intro x hx; rw [List.eq_of_mem_replicate hx]; exact W_pos
      have hl64 : limbsRes < 2 ^ 64 := by rw [h2]; unfold nlimbs; omega
      rw [Ruint.GenAddmul.addmul_eq (List.replicate limbsRes 0) a b hzl ha hb
        (by rw [List.length_replicate]; exact hl64) hla hlb f (by rw [List.length_replicate]; exact hlen)]
      simp [h2]
    · simp [h2]
  · simp [h1]

/-! ### `mul_mod` -/

section
variable (HD : ∀ (num ds : List ℕ), Ruint.AllLt num → Ruint.AllLt ds → num.length < 2 ^ 64 → ds.length < 2 ^ 64 →
  ∀ f : ℕ, num.length + 1 < f → Ruint.Gen.div f num ds = Ruint.Div.div num ds)
include HD

/-- **`Uint::mul_mod` as generated from `src/modular.rs`** (zero buffer of `nlimbs(2·BITS)` limbs, generated `addmul`,
    generated `algorithms::div`, the remainder left in the modulus' limbs) equals the limb-level model. -/
theorem mul_mod_eq (bits : ℕ) (hB : 2 * bits + 63 < 2 ^ 64) (a b m : List ℕ)
    (ha : Canon bits a) (hb : Canon bits b) (hm : Canon bits m) (f : ℕ) (hf : 4 * nlimbs bits + 2 < f) :
    Ruint.Gen.uint_mul_mod f bits (nlimbs bits) a b m = Ruint.ModularL.mulMod bits a b m := by
  unfold Ruint.Gen.uint_mul_mod Ruint.ModularL.mulMod
  rw [Ruint.Div.GenUintDiv.is_zero_eq bits m hm.1]
  by_cases hz : DivU.isZero m = true
  · simp only [hz, if_true]; rfl
  · simp only [hz, if_false, Bool.false_eq_true]
    have hw : Rs.wmul 64 2 bits = 2 * bits := by unfold Rs.wmul; omega
    rw [hw, GenCore.nlimbs_eq (2 * bits) hB]
    have h2n : nlimbs (2 * bits) ≤ 2 * nlimbs bits := by unfold nlimbs; omega
    have hn57 : nlimbs bits < 2 ^ 58 := by unfold nlimbs; omega
    have hzl : AllLt (List.replicate (nlimbs (2 * bits)) 0) := by
      intro x hx; rw [List.eq_of_mem_replicate hx]; exact W_pos
    have hzv : val (List.replicate (nlimbs (2 * bits)) 0) = 0 := by
      have := (Add.zero_canon (2 * bits)).2; unfold Add.zero at this; exact this
    rw [Ruint.GenAddmul.addmul_eq (List.replicate (nlimbs (2 * bits)) 0) a b hzl ha.2.1 hb.2.1
      (by rw [List.length_replicate]; omega) (by rw [ha.1]; omega) (by rw [hb.1]; omega) f
      (by rw [List.length_replicate, ha.1, hb.1]; omega)]
    obtain ⟨p1, p2, p3, p4⟩ := Ruint.C15.addmul_spec (List.replicate (nlimbs (2 * bits)) 0) a b hzl
    obtain ⟨pr, hpr⟩ : ∃ pr, pr = Limb.addmul W (List.replicate (nlimbs (2 * bits)) 0) a b := ⟨_, rfl⟩
    rw [← hpr] at p1 p2 p3 p4 ⊢
    obtain ⟨prod, ov⟩ := pr
    simp only at p1 p2 p3 p4 ⊢
    rw [List.length_replicate, hzv, Nat.zero_add] at p4
    rw [List.length_replicate] at p1
    have hfit := Modular.mul_fits bits (val a) (val b) ha.2.2 hb.2.2
    have hov : ov = false := by
      cases ov
      · rfl
      · have := p4.1 rfl; omega
    subst hov
    simp only [Bool.false_eq_true, if_false]
    rw [HD prod m p2 hm.2.1 (by rw [p1]; omega) (by rw [hm.1]; omega) f (by rw [p1]; omega)]
    rcases Div.div prod m with _ | ⟨q, r⟩ <;> rfl

end

/-! ### `mul_redc`, `square_redc`

The models `Redc.uintMulRedc` / `uintSquareRedc` also mirror the `debug_assert!`s of the kernels and of the wrappers
(`result < modulus`), which the generated code does not contain: the ties are conditional on the model's success. The
only facts needed besides the kernel ties are structural: the kernels return `N` limbs. -/

open Ruint.Redc Ruint.Gen.RedcConsts

theorem sub_length (B : ℕ) : ∀ (ls rs : List ℕ) (bw : Bool), ls.length = rs.length →
    (sub B ls rs bw).1.length = ls.length := by
  intro ls
  induction ls with
  | nil => intro rs bw _; simp [sub]
  | cons l ls ih =>
    intro rs bw h
    cases rs with
    | nil => simp at h
    | cons r rs =>
      simp only [List.length_cons] at h
      rw [Ruint.GenRedcLoops.sub_cons]
      simp only [List.length_cons]
      rw [ih rs _ (by omega)]

theorem reduce1Carry_length (B : ℕ) (v md : List ℕ) (c : Bool) (h : v.length = md.length) :
    (reduce1Carry B v md c).length = md.length := by
  have hs := sub_length B v md false h
  unfold reduce1Carry
  obtain ⟨p, hp⟩ : ∃ p, p = sub B v md false := ⟨_, rfl⟩
  rw [← hp] at hs ⊢
  obtain ⟨rd, bw⟩ := p
  simp only at hs ⊢
  split <;> omega

theorem mulOuterRaw_length (B inv b : ℕ) (a md res : List ℕ) (carry : Bool) (hN : 0 < res.length)
    (hla : a.length = res.length) (hlm : md.length = res.length) :
    (mulOuterRaw B inv b a md res carry).1.length = res.length := by
  cases res with
  | nil => simp at hN
  | cons r0 rs =>
  cases a with
  | nil => simp at hla
  | cons a0 as =>
  cases md with
  | nil => simp at hlm
  | cons m0 ms =>
    simp only [List.length_cons, Nat.add_right_cancel_iff] at hla hlm
    simp only [mulOuterRaw, List.length_append, List.length_cons, List.length_nil]
    rw [Ruint.GenRedcLoops.mulInner_length B b _ as ms rs _ _ (by omega) (by omega)]
    omega

theorem mulOuter_length (B inv : ℕ) (keep : Bool) (b : ℕ) (a md : List ℕ) (s : MulSt)
    (hN : 0 < s.res.length) (hla : a.length = s.res.length) (hlm : md.length = s.res.length) :
    (mulOuter B inv keep b a md s).res.length = s.res.length := by
  rw [mulOuter_eq B inv keep b a md s hN hla hlm]
  cases keep <;> simp [mulOuterRaw_length B inv b a md s.res s.carry hN hla hlm]

theorem mulLoop_length (B inv : ℕ) (keep : Bool) (a md : List ℕ) : ∀ (bs : List ℕ) (s : MulSt),
    0 < s.res.length → a.length = s.res.length → md.length = s.res.length →
    (mulLoop B inv keep a md bs s).res.length = s.res.length := by
  intro bs
  induction bs with
  | nil => intro s _ _ _; simp [mulLoop]
  | cons b bs ih =>
    intro s hN hla hlm
    have h := mulOuter_length B inv keep b a md s hN hla hlm
    simp only [mulLoop]
    rw [ih _ (by rw [h]; exact hN) (by rw [h]; exact hla) (by rw [h]; exact hlm), h]

/-- the model of `mul_redc::<N>` returns `N` limbs (structurally: no range hypotheses) -/
theorem mulRedcCore_length (B : ℕ) (kM : ℕ → Bool) (inv : ℕ) (a b md : List ℕ) (hN : 0 < md.length)
    (hla : a.length = md.length) : (mulRedcCore B kM inv a b md).1.length = md.length := by
  unfold mulRedcCore
  simp only
  apply reduce1Carry_length
  rw [mulLoop_length] <;> simp [hN, hla]

theorem sqOuterRaw_length (B inv ai : ℕ) (as md rl rs : List ℕ) (ri : ℕ) (hlas : as.length = rs.length)
    (hlmd : md.length = rl.length + rs.length + 1) :
    (sqOuterRaw B inv rl.length ai as md (rl ++ ri :: rs)).1.length + 1 = md.length := by
  cases md with
  | nil => simp at hlmd
  | cons m0 ms =>
    have hd : (rl ++ ri :: rs).drop rl.length = ri :: rs := by simp
    have ht : (rl ++ ri :: rs).take rl.length = rl := by simp
    simp only [List.length_cons] at hlmd
    simp only [sqOuterRaw, hd, ht]
    rw [Ruint.GenRedcSquare.redRow_length]
    · simp
    · cases rl with
      | nil =>
        simp only [List.nil_append, List.tail_cons, List.length_nil] at hlmd ⊢
        rw [Ruint.GenRedcSquare.sqRow_length B ai as rs _ _ hlas]; omega
      | cons x xs =>
        simp only [List.cons_append, List.tail_cons, List.length_append, List.length_cons] at hlmd ⊢
        rw [Ruint.GenRedcSquare.sqRow_length B ai as rs _ _ hlas]; omega

theorem sqLoop_length (B inv : ℕ) (keep : Bool) (md : List ℕ) : ∀ (as : List ℕ) (i : ℕ) (s : SqSt),
    s.res.length = md.length → i + as.length = md.length →
    (sqLoop B inv keep md as i s).res.length = md.length := by
  intro as
  induction as with
  | nil => intro i s h _; simpa [sqLoop] using h
  | cons ai as ih =>
    intro i s hres hi
    simp only [List.length_cons] at hi
    obtain ⟨rl, ri, rs, hsp, hrl⟩ := Ruint.GenRedcSquare.split_at s.res i (by omega)
    have hmdne : md ≠ [] := by intro e; subst e; simp at hi
    have hlen : rl.length + rs.length + 1 = md.length := by
      rw [← hres, hsp]; simp; omega
    have hraw := sqOuterRaw_length B inv ai as md rl rs ri (by omega) (by omega)
    rw [hrl, ← hsp] at hraw
    simp only [sqLoop]
    apply ih
    · rw [sqOuter_eq B inv keep i ai as md s rl rs ri hsp hrl hmdne]
      cases keep <;> simp [hraw]
    · omega

/-- the model of `square_redc::<N>` returns `N` limbs (structurally) -/
theorem squareRedcCore_length (B : ℕ) (kS : ℕ → Bool) (inv : ℕ) (a md : List ℕ)
    (hla : a.length = md.length) : (squareRedcCore B kS inv a md).1.length = md.length := by
  unfold squareRedcCore
  simp only
  apply reduce1Carry_length
  rw [sqLoop_length] <;> simp [hla]

/-- `Uint::from_limbs` as generated accepts what the model's `from_limbs` + `debug_assert!(result < modulus)` accept -/
theorem from_limbs_of_checked (bits : ℕ) (hN : nlimbs bits < 2 ^ 64) (r0 md r : List ℕ)
    (hl : r0.length = nlimbs bits) (h : fromLimbsChecked bits r0 md = some r) :
    Ruint.Gen.uint_from_limbs bits (nlimbs bits) r0 = some r := by
  rw [from_limbs_eq bits hN r0 hl]
  unfold fromLimbsChecked at h
  unfold Ruint.Canon.fromLimbs Ruint.Canon.top
  rw [List.getLastD_eq_getLast?] at h
  by_cases ht : r0.getLast?.getD 0 > mask bits
  · by_cases h64 : bits % 64 = 0
    · have hs : Ruint.Canon.shouldMask bits = false := by
        rcases hc : Ruint.Canon.shouldMask bits with _ | _
        · rfl
        · exact absurd h64 ((Ruint.Canon.shouldMask_eq bits).mp hc).2
      simp only [h64, ne_eq, not_true_eq_false, decide_false, Bool.false_and, Bool.false_eq_true, if_false] at h
      simp only [hs, Bool.false_and, Bool.false_eq_true, if_false]
      by_cases hv : val r0 < val md
      · simpa [hv] using h
      · simp [hv] at h
    · simp only [ht, h64, ne_eq, not_false_eq_true, decide_true, Bool.and_self, if_true] at h
      simp at h
  · simp only [ht, decide_false, Bool.and_false, Bool.false_eq_true, if_false] at h ⊢
    by_cases hv : val r0 < val md
    · simpa [hv] using h
    · simp [hv] at h

/-- **`Uint::mul_redc` as generated from `src/modular.rs`** (`BITS == 0` arm, generated `mul_redc::<N>`, `from_limbs`)
    returns what the model returns whenever the model does not report a fired (debug) assertion. -/
theorem mul_redc_eq (bits : ℕ) (hN : nlimbs bits < 2 ^ 64) (a b md : List ℕ) (inv : ℕ)
    (ha : a.length = nlimbs bits) (hb : b.length = nlimbs bits) (hmd : md.length = nlimbs bits)
    (f : ℕ) (hf : nlimbs bits < f) (r : List ℕ)
    (hm : Ruint.Redc.uintMulRedc keepMul bits inv a b md = some r) :
    Ruint.Gen.uint_mul_redc f bits (nlimbs bits) a b md inv = some r := by
  unfold Ruint.Gen.uint_mul_redc
  unfold Ruint.Redc.uintMulRedc at hm
  by_cases h0 : bits = 0
  · subst h0
    simp only [if_true] at hm
    simp only [Option.some.injEq] at hm
    subst hm
    simp [nlimbs]
  · have hbeq : (bits == 0) = false := by simp [h0]
    have hn := nlimbs_pos bits (Nat.pos_of_ne_zero h0)
    simp only [h0, if_false] at hm
    simp only [hbeq, Bool.false_eq_true, if_false]
    have hk := Ruint.GenRedcLoops.mul_redc_eq a b md inv (by omega) (by omega) (by omega) (by omega) f (by omega)
    rw [hmd] at hk
    rw [hk]
    have hW : (2 : ℕ) ^ 64 = W := rfl
    rw [hW]
    have hlen := mulRedcCore_length W keepMul inv a b md (by omega) (by omega)
    unfold mulRedc at hm
    simp only at hm
    obtain ⟨c, hc⟩ : ∃ c, c = mulRedcCore W keepMul inv a b md := ⟨_, rfl⟩
    rw [← hc] at hm hlen ⊢
    obtain ⟨r0, ok⟩ := c
    simp only at hm hlen ⊢
    cases ok with
    | false => simp at hm
    | true =>
      simp only [if_true] at hm
      rw [from_limbs_of_checked bits hN r0 md r (by omega) hm]

/-- **`Uint::square_redc` as generated from `src/modular.rs`**: the same for `square_redc::<N>`. -/
theorem square_redc_eq (bits : ℕ) (hN : nlimbs bits < 2 ^ 64) (a md : List ℕ) (inv : ℕ)
    (ha : a.length = nlimbs bits) (hmd : md.length = nlimbs bits)
    (f : ℕ) (hf : nlimbs bits < f) (r : List ℕ)
    (hm : Ruint.Redc.uintSquareRedc keepSq bits inv a md = some r) :
    Ruint.Gen.uint_square_redc f bits (nlimbs bits) a md inv = some r := by
  unfold Ruint.Gen.uint_square_redc
  unfold Ruint.Redc.uintSquareRedc at hm
  by_cases h0 : bits = 0
  · subst h0
    simp only [if_true] at hm
    simp only [Option.some.injEq] at hm
    subst hm
    simp [nlimbs]
  · have hbeq : (bits == 0) = false := by simp [h0]
    have hn := nlimbs_pos bits (Nat.pos_of_ne_zero h0)
    simp only [h0, if_false] at hm
    simp only [hbeq, Bool.false_eq_true, if_false]
    have hk := Ruint.GenRedcSquare.square_redc_eq a md inv (by omega) (by omega) (by omega) f (by omega)
    rw [hmd] at hk
    rw [hk]
    have hW : (2 : ℕ) ^ 64 = W := rfl
    rw [hW]
    have hlen := squareRedcCore_length W keepSq inv a md (by omega)
    unfold squareRedc at hm
    simp only at hm
    obtain ⟨c, hc⟩ : ∃ c, c = squareRedcCore W keepSq inv a md := ⟨_, rfl⟩
    rw [← hc] at hm hlen ⊢
    obtain ⟨r0, ok⟩ := c
    simp only at hm hlen ⊢
    cases ok with
    | false => simp at hm
    | true =>
      simp only [if_true] at hm
      rw [from_limbs_of_checked bits hN r0 md r (by omega) hm]

end Ruint.GenUintMod
