import Ruint.Gen.StrTableFacts
import Ruint.Model.Radix
import Mathlib.Data.Nat.Notation
/-!
# C09: the two `match c` tables of `from_str_radix` (generated `Gen/StrTable`) = the model's `classify`
-/
namespace Ruint.StrTable

open Ruint.Radix in
def arm (c : Nat) : Nat × Nat × Nat × Nat × Nat → Option CharClass
  | (lo, hi, k, a, b) =>
    if lo ≤ c ∧ c ≤ hi then some (if k = 0 then .digit (c - a + b) else if k = 1 then .ignored else .digit a) else none
open Ruint.Radix in
def walk (c : Nat) : List (Nat × Nat × Nat × Nat × Nat) → CharClass
  | [] => .bad
  | r :: rs => match arm c r with | some x => x | none => walk c rs
open Ruint.Radix in
def classifyT (low high : List (Nat × Nat × Nat × Nat × Nat)) (lowMax radix : Nat) (c : Char) : CharClass :=
  if radix ≤ lowMax then walk c.toNat low else walk c.toNat high

theorem char_eq_iff (c d : Char) : c = d ↔ c.toNat = d.toNat := by
  constructor
  · intro h; rw [h]
  · intro h
    apply Char.ext
    exact UInt32.toNat_inj.mp h

open Ruint.Radix in
theorem walk_cons_hit (n lo hi k a b : Nat) (rs) (h : lo ≤ n ∧ n ≤ hi) :
    walk n ((lo, hi, k, a, b) :: rs)
      = (if k = 0 then .digit (n - a + b) else if k = 1 then .ignored else .digit a) := by
  simp only [walk, arm, if_pos h]

open Ruint.Radix in
theorem walk_cons_miss (n lo hi k a b : Nat) (rs) (h : ¬ (lo ≤ n ∧ n ≤ hi)) :
    walk n ((lo, hi, k, a, b) :: rs) = walk n rs := by
  simp only [walk, arm, if_neg h]

theorem lit_toNat :
    '0'.toNat = 48 ∧ '9'.toNat = 57 ∧ 'a'.toNat = 97 ∧ 'z'.toNat = 122 ∧ 'A'.toNat = 65 ∧ 'Z'.toNat = 90
    ∧ '_'.toNat = 95 ∧ '+'.toNat = 43 ∧ '-'.toNat = 45 ∧ '/'.toNat = 47 ∧ ','.toNat = 44 ∧ '='.toNat = 61
    ∧ '\r'.toNat = 13 ∧ '\n'.toNat = 10 := by decide

open Ruint.Radix in
/-- the first table on a code point. -/
def lowN (n : Nat) : CharClass :=
  if 48 ≤ n ∧ n ≤ 57 then .digit (n - 48)
  else if 97 ≤ n ∧ n ≤ 122 then .digit (n - 97 + 10)
  else if 65 ≤ n ∧ n ≤ 90 then .digit (n - 65 + 10)
  else if n = 95 then .ignored
  else .bad

open Ruint.Radix in
/-- the second table on a code point. -/
def highN (n : Nat) : CharClass :=
  if 65 ≤ n ∧ n ≤ 90 then .digit (n - 65)
  else if 97 ≤ n ∧ n ≤ 122 then .digit (n - 97 + 26)
  else if 48 ≤ n ∧ n ≤ 57 then .digit (n - 48 + 52)
  else if n = 43 ∨ n = 45 then .digit 62
  else if n = 47 ∨ n = 44 ∨ n = 95 then .digit 63
  else if n = 61 ∨ n = 13 ∨ n = 10 then .ignored
  else .bad

theorem walk_low (n : Nat) :
    walk n [(48, 57, 0, 48, 0), (97, 122, 0, 97, 10), (65, 90, 0, 65, 10), (95, 95, 1, 0, 0)] = lowN n := by
  unfold lowN
  by_cases h1 : 48 ≤ n ∧ n ≤ 57
  · rw [walk_cons_hit _ _ _ _ _ _ _ h1, if_pos h1]; simp
  rw [walk_cons_miss _ _ _ _ _ _ _ h1, if_neg h1]
  by_cases h2 : 97 ≤ n ∧ n ≤ 122
  · rw [walk_cons_hit _ _ _ _ _ _ _ h2, if_pos h2]; simp
  rw [walk_cons_miss _ _ _ _ _ _ _ h2, if_neg h2]
  by_cases h3 : 65 ≤ n ∧ n ≤ 90
  · rw [walk_cons_hit _ _ _ _ _ _ _ h3, if_pos h3]; simp
  rw [walk_cons_miss _ _ _ _ _ _ _ h3, if_neg h3]
  by_cases h4 : n = 95
  · rw [walk_cons_hit _ _ _ _ _ _ _ (by omega), if_pos h4]; simp
  rw [walk_cons_miss _ _ _ _ _ _ _ (by omega), if_neg h4]; rfl

theorem walk_high (n : Nat) :
    walk n [(65, 90, 0, 65, 0), (97, 122, 0, 97, 26), (48, 57, 0, 48, 52), (43, 43, 2, 62, 0), (45, 45, 2, 62, 0),
        (47, 47, 2, 63, 0), (44, 44, 2, 63, 0), (95, 95, 2, 63, 0), (61, 61, 1, 0, 0), (13, 13, 1, 0, 0), (10, 10, 1, 0, 0)]
      = highN n := by
  unfold highN
  by_cases h1 : 65 ≤ n ∧ n ≤ 90
  · rw [walk_cons_hit _ _ _ _ _ _ _ h1, if_pos h1]; simp
  rw [walk_cons_miss _ _ _ _ _ _ _ h1, if_neg h1]
  by_cases h2 : 97 ≤ n ∧ n ≤ 122
  · rw [walk_cons_hit _ _ _ _ _ _ _ h2, if_pos h2]; simp
  rw [walk_cons_miss _ _ _ _ _ _ _ h2, if_neg h2]
  by_cases h3 : 48 ≤ n ∧ n ≤ 57
  · rw [walk_cons_hit _ _ _ _ _ _ _ h3, if_pos h3]; simp
  rw [walk_cons_miss _ _ _ _ _ _ _ h3, if_neg h3]
  by_cases h4 : n = 43
  · rw [walk_cons_hit _ _ _ _ _ _ _ (by omega), if_pos (Or.inl h4)]; simp
  rw [walk_cons_miss _ _ _ _ _ _ _ (by omega)]
  by_cases h5 : n = 45
  · rw [walk_cons_hit _ _ _ _ _ _ _ (by omega), if_pos (Or.inr h5)]; simp
  rw [walk_cons_miss _ _ _ _ _ _ _ (by omega), if_neg (by omega)]
  by_cases h6 : n = 47
  · subst n; rfl
  rw [walk_cons_miss _ _ _ _ _ _ _ (by omega)]
  by_cases h7 : n = 44
  · subst n; rfl
  rw [walk_cons_miss _ _ _ _ _ _ _ (by omega)]
  by_cases h8 : n = 95
  · subst n; rfl
  rw [walk_cons_miss _ _ _ _ _ _ _ (by omega), if_neg (by omega)]
  by_cases h9 : n = 61
  · subst n; rfl
  rw [walk_cons_miss _ _ _ _ _ _ _ (by omega)]
  by_cases h10 : n = 13
  · subst n; rfl
  rw [walk_cons_miss _ _ _ _ _ _ _ (by omega)]
  by_cases h11 : n = 10
  · subst n; rfl
  rw [walk_cons_miss _ _ _ _ _ _ _ (by omega), if_neg (by omega)]; rfl

open Ruint.Radix in
/-- the model's `classify` on the code point of the character. -/
theorem classify_toNat (radix : ℕ) (c : Char) :
    classify radix c = if radix ≤ 36 then lowN c.toNat else highN c.toNat := by
  obtain ⟨e0, e9, ea, ez, eA, eZ, e_, ep, em, es, ec, ee, er, en⟩ := lit_toNat
  unfold classify lowN highN inRange
  simp only [char_eq_iff, e0, e9, ea, ez, eA, eZ, e_, ep, em, es, ec, ee, er, en, Bool.and_eq_true,
    decide_eq_true_eq]

theorem classify_eq (radix : ℕ) (c : Char) :
    classifyT Ruint.Gen.StrTable.low Ruint.Gen.StrTable.high Ruint.Gen.StrTable.lowMax radix c
      = Ruint.Radix.classify radix c := by
  obtain ⟨h1, h2, h3, _⟩ := Ruint.Gen.StrTable.tables_expected
  rw [classify_toNat, h1, h2, h3]
  unfold classifyT
  rw [walk_low, walk_high]

theorem radixMax_eq : Ruint.Gen.StrTable.radixMax = 64 :=
  Ruint.Gen.StrTable.tables_expected.2.2.2

end Ruint.StrTable

