import Ruint.Lemmas.Basic
import Ruint.Lemmas.GenLehmer
import Ruint.Gen.WordsKernels
import Ruint.Model.Cmp
import Ruint.Model.MulKernels
import Mathlib.Tactic.NormNum

/-! `algorithms::cmp` as GENERATED from `src/algorithms/mod.rs` (the common-prefix slicing, the downward loop, the
    `match` on `i8::from(>) - i8::from(<)` with its early returns, the final length comparison) equals the model
    `Ruint.Cmp.cmp` of C04 / C15. -/
namespace Ruint.GenCmp
open Ruint Ruint.GenLehmer

theorem w8a : Rs.wsub 8 1 0 = 1 := by unfold Rs.wsub; norm_num
theorem w8b : Rs.wsub 8 0 1 = 255 := by unfold Rs.wsub; norm_num
theorem w8c : Rs.wsub 8 0 0 = 0 := by unfold Rs.wsub; norm_num

theorem step_eq (lhs rhs : List ℕ) (bound i : ℕ) (r : Option Ordering) :
    Ruint.Gen.limb_cmp_step1 lhs rhs bound (i, r) =
      if bound < i then
        (if lhs.getD (Rs.wsub 64 i 1) 0 > rhs.getD (Rs.wsub 64 i 1) 0 then ((Rs.wsub 64 i 1, some Ordering.gt), false)
         else if lhs.getD (Rs.wsub 64 i 1) 0 < rhs.getD (Rs.wsub 64 i 1) 0 then ((Rs.wsub 64 i 1, some Ordering.lt), false)
         else ((Rs.wsub 64 i 1, none), true))
      else ((i, r), false) := by
  unfold Ruint.Gen.limb_cmp_step1
  dsimp only
  generalize Rs.wsub 64 i 1 = j
  generalize lhs.getD j 0 = x
  generalize rhs.getD j 0 = y
  by_cases hi : bound < i
  · simp only [gt_iff_lt, hi, decide_true, if_true]
    by_cases h1 : y < x
    · have h2 : ¬ x < y := by omega
      simp only [h1, h2, decide_true, decide_false, Bool.toNat_true, Bool.toNat_false, w8a, if_true]
      rfl
    · by_cases h2 : x < y
      · simp only [h1, h2, decide_true, decide_false, Bool.toNat_true, Bool.toNat_false, w8b, if_false, if_true]
        rfl
      · simp only [h1, h2, decide_false, Bool.toNat_false, w8c, if_false]
        rfl
  · simp only [gt_iff_lt, hi, decide_false, Bool.false_eq_true, if_false]

theorem loop_eq : ∀ (n : ℕ) (xs ys sx sy : List ℕ) (f : ℕ), xs.length = n → ys.length = n → n < 2 ^ 64 → n < f →
    (Rs.loop (Ruint.Gen.limb_cmp_step1 (xs ++ sx) (ys ++ sy) 0) f (n, none)).2
      = (match Cmp.scan xs.reverse ys.reverse with
         | .eq => none
         | o => some o) := by
  intro n
  induction n with
  | zero =>
    intro xs ys sx sy f hx hy _ hf
    obtain ⟨f, rfl⟩ : ∃ g, f = g + 1 := ⟨f - 1, by omega⟩
    have : xs = [] := List.length_eq_zero_iff.1 hx
    subst this
    rw [loop_succ, step_eq]
    simp [Cmp.scan]
  | succ n ih =>
    intro xs ys sx sy f hx hy h64 hf
    obtain ⟨f, rfl⟩ : ∃ g, f = g + 1 := ⟨f - 1, by omega⟩
    obtain ⟨xs', x, rfl⟩ := exists_init_last xs (by intro e; subst e; simp at hx)
    obtain ⟨ys', y, rfl⟩ := exists_init_last ys (by intro e; subst e; simp at hy)
    simp only [List.length_append, List.length_singleton] at hx hy
    have hx' : xs'.length = n := by omega
    have hy' : ys'.length = n := by omega
    have g0 : Rs.wsub 64 (n + 1) 1 = n := by unfold Rs.wsub; omega
    have g1 : (xs' ++ [x] ++ sx).getD n 0 = x := by rw [← hx']; simp
    have g2 : (ys' ++ [y] ++ sy).getD n 0 = y := by rw [← hy']; simp
    rw [loop_succ, step_eq]
    simp only [Nat.zero_lt_succ, if_true, g0, g1, g2, List.reverse_append, List.reverse_singleton,
      List.singleton_append, Cmp.scan, gt_iff_lt]
    by_cases h1 : y < x
    · simp [h1]
    · by_cases h2 : x < y
      · simp [h1, h2]
      · simp only [h1, h2, if_false, if_true]
        have := ih xs' ys' ([x] ++ sx) ([y] ++ sy) f hx' hy' (by omega) (by omega)
        simp only [List.append_assoc] at this ⊢
        exact this

/-- **`algorithms::cmp` as generated from the source** = the model, for all slices (any two lengths) -/
theorem limb_cmp_eq (l r : List ℕ) (h64 : min l.length r.length < 2 ^ 64) (f : ℕ) (hf : min l.length r.length < f) :
    Ruint.Gen.limb_cmp f l r = Cmp.cmp l r := by
  unfold Ruint.Gen.limb_cmp Cmp.cmp
  have hl := loop_eq (min l.length r.length) (l.take (min l.length r.length)) (r.take (min l.length r.length)) [] [] f
    (by simp) (by simp) h64 hf
  simp only [List.append_nil] at hl
  simp only [hl]
  cases Cmp.scan (l.take (min l.length r.length)).reverse (r.take (min l.length r.length)).reverse <;> rfl

/-! the two hand-written models of `cmp` (C04's `Cmp.cmp`, C15's `Limb.cmp`) are the same function -/

theorem scan_append : ∀ (as bs : List ℕ) (x y : ℕ), as.length = bs.length →
    Cmp.scan (as ++ [x]) (bs ++ [y]) = (match Cmp.scan as bs with
      | .eq => (if x > y then .gt else if x < y then .lt else .eq)
      | o => o) := by
  intro as
  induction as with
  | nil => intro bs x y h; cases bs with
    | nil => simp [Cmp.scan]
    | cons _ _ => simp at h
  | cons a as ih =>
    intro bs x y h
    cases bs with
    | nil => simp at h
    | cons b bs =>
      simp only [List.length_cons, Nat.add_right_cancel_iff] at h
      simp only [List.cons_append, Cmp.scan]
      by_cases h1 : a > b
      · simp [h1]
      · by_cases h2 : a < b
        · simp [h1, h2]
        · simp only [h1, h2, if_false]
          exact ih bs x y h

theorem compare_nat (x y : ℕ) : compare x y = (if x > y then .gt else if x < y then .lt else .eq) := by
  rcases Nat.lt_trichotomy x y with h | h | h
  · have : ¬ x > y := by omega
    rw [Nat.compare_eq_lt.2 h]; simp [h, this]
  · subst h; rw [Nat.compare_eq_eq.2 rfl]; simp
  · have : ¬ x < y := by omega
    rw [Nat.compare_eq_gt.2 h]; simp [h]

theorem cmpLimbs_eq_scan : ∀ (xs ys : List ℕ), xs.length = ys.length →
    Limb.cmpLimbs xs ys = Cmp.scan xs.reverse ys.reverse := by
  intro xs
  induction xs with
  | nil => intro ys h; cases ys with
    | nil => simp [Limb.cmpLimbs, Cmp.scan]
    | cons _ _ => simp at h
  | cons x xs ih =>
    intro ys h
    cases ys with
    | nil => simp at h
    | cons y ys =>
      simp only [List.length_cons, Nat.add_right_cancel_iff] at h
      simp only [Limb.cmpLimbs, List.reverse_cons]
      rw [scan_append _ _ x y (by simp [h]), ih ys h, compare_nat]
      rfl

theorem limb_cmp_model_eq (l r : List ℕ) : Limb.cmp l r = Cmp.cmp l r := by
  unfold Limb.cmp Cmp.cmp
  have h1 : Limb.cmpLimbs l r
      = Limb.cmpLimbs (l.take (min l.length r.length)) (r.take (min l.length r.length)) := by
    induction l generalizing r with
    | nil => simp [Limb.cmpLimbs]
    | cons x xs ih =>
      cases r with
      | nil => simp [Limb.cmpLimbs]
      | cons y ys =>
        simp only [List.length_cons, Nat.add_min_add_right, List.take_succ_cons, Limb.cmpLimbs]
        rw [← ih ys]
  rw [h1, cmpLimbs_eq_scan _ _ (by simp)]
  rfl

/-- `algorithms::cmp` as generated = C15's model too -/
theorem limb_cmp_eq' (l r : List ℕ) (h64 : min l.length r.length < 2 ^ 64) (f : ℕ) (hf : min l.length r.length < f) :
    Ruint.Gen.limb_cmp f l r = Limb.cmp l r := by
  rw [limb_cmp_model_eq, limb_cmp_eq l r h64 f hf]

end Ruint.GenCmp
