import Ruint.Lemmas.Redc
import Mathlib.Data.Nat.ModEq

/-!
# Lemmas for `Model/Redc.lean`, part 2: the complete `mul_redc` (CIOS) loop on limb lists.
-/
namespace Ruint.Redc
open Ruint

/-- the inner loop (positions `i ≥ 1`): value equation, limb ranges, carry ranges. -/
theorem mulInner_spec (B b m : ℕ) (hb : b < B) (hm : m < B) (as ms rs : List ℕ) (c1 c2 : ℕ)
    (h1 : as.length = rs.length) (h2 : ms.length = rs.length)
    (has : AllLtB B as) (hms : AllLtB B ms) (hrs : AllLtB B rs) (hc1 : c1 < B) (hc2 : c2 < B) :
    valB B (mulInner B b m as ms rs c1 c2).1
        + B ^ rs.length * ((mulInner B b m as ms rs c1 c2).2.1 + (mulInner B b m as ms rs c1 c2).2.2)
      = valB B rs + valB B as * b + valB B ms * m + c1 + c2
    ∧ (mulInner B b m as ms rs c1 c2).1.length = rs.length
    ∧ AllLtB B (mulInner B b m as ms rs c1 c2).1
    ∧ (mulInner B b m as ms rs c1 c2).2.1 < B ∧ (mulInner B b m as ms rs c1 c2).2.2 < B := by
  induction rs generalizing as ms c1 c2 with
  | nil =>
    cases as <;> cases ms <;> simp_all [mulInner, AllLtB]
  | cons r rs ih =>
    cases as with
    | nil => simp at h1
    | cons a as =>
      cases ms with
      | nil => simp at h2
      | cons mo ms =>
        simp only [List.length_cons, Nat.add_right_cancel_iff] at h1 h2
        obtain ⟨e1, v1lt, c1lt⟩ := carryingMulAdd_spec B a b r c1 has.head hb hrs.head hc1
        obtain ⟨e2, v2lt, c2lt⟩ := carryingMulAdd_spec B mo m (carryingMulAdd B a b r c1).1 c2
          hms.head hm v1lt hc2
        obtain ⟨ih1, ih2, ih3, ih4, ih5⟩ := ih as ms (carryingMulAdd B a b r c1).2
          (carryingMulAdd B mo m (carryingMulAdd B a b r c1).1 c2).2 h1 h2 has.tail hms.tail hrs.tail c1lt c2lt
        simp only [mulInner, valB_cons, List.length_cons, pow_succ]
        refine ⟨?_, by simp [ih2], AllLtB.cons v2lt ih3, ih4, ih5⟩
        generalize mulInner B b m as ms rs (carryingMulAdd B a b r c1).2
          (carryingMulAdd B mo m (carryingMulAdd B a b r c1).1 c2).2 = rest at *
        generalize carryingMulAdd B mo m (carryingMulAdd B a b r c1).1 c2 = q at *
        generalize carryingMulAdd B a b r c1 = p at *
        linear_combination B * ih1 + e1 + e2

/-- the reduction factor clears the lowest limb when `inv·m0 ≡ −1 (mod B)`. -/
theorem m_kills (B inv m0 t : ℕ) (hB : 0 < B) (hinv : (inv * m0) % B = B - 1) :
    (m0 * ((t * inv) % B) + t) % B = 0 := by
  have h1 : Nat.ModEq B (m0 * ((t * inv) % B) + t) (m0 * (t * inv) + t) :=
    Nat.ModEq.add_right _ (Nat.ModEq.mul_left _ (Nat.mod_modEq _ _))
  have h2 : m0 * (t * inv) + t = t * (inv * m0 + 1) := by ring
  have h3 : (inv * m0 + 1) % B = 0 := by
    rw [Nat.add_mod, hinv]
    rcases Nat.lt_or_ge 1 B with h | h
    · rw [Nat.mod_eq_of_lt h, Nat.sub_add_cancel (le_of_lt h), Nat.mod_self]
    · have : B = 1 := by omega
      subst this; simp
  rw [h1, h2, Nat.mul_mod, h3, Nat.mul_zero, Nat.zero_mod]

/-- the part of `mulOuter` common to both threshold arms: new limbs, the carry out of `carrying_add`, and
    the `debug_assert_eq!(value, 0)` flag. -/
def mulOuterRaw (B inv b : ℕ) (a md res : List ℕ) (carry : Bool) : List ℕ × Bool × Bool :=
  match a, md, res with
  | a0 :: as, m0 :: ms, r0 :: rs =>
      let p1 := carryingMulAdd B a0 b r0 0
      let m := (p1.1 * inv) % B
      let p2 := carryingMulAdd B m0 m p1.1 0
      let rest := mulInner B b m as ms rs p1.2 p2.2
      let t := carryingAdd B rest.2.1 rest.2.2 carry
      (rest.1 ++ [t.1], t.2, decide (p2.1 = 0))
  | _, _, _ => (res, carry, true)

theorem mulOuter_eq (B inv : ℕ) (keep : Bool) (b : ℕ) (a md : List ℕ) (s : MulSt)
    (hN : 0 < s.res.length) (hla : a.length = s.res.length) (hlm : md.length = s.res.length) :
    mulOuter B inv keep b a md s =
      if keep then
        { res := (mulOuterRaw B inv b a md s.res s.carry).1,
          carry := (mulOuterRaw B inv b a md s.res s.carry).2.1,
          ok := s.ok && (mulOuterRaw B inv b a md s.res s.carry).2.2 }
      else
        { res := (mulOuterRaw B inv b a md s.res s.carry).1, carry := s.carry,
          ok := s.ok && (mulOuterRaw B inv b a md s.res s.carry).2.2
            && !(mulOuterRaw B inv b a md s.res s.carry).2.1 } := by
  obtain ⟨res, carry, ok⟩ := s
  cases res with
  | nil => simp at hN
  | cons r0 rs =>
  cases a with
  | nil => simp at hla
  | cons a0 as =>
  cases md with
  | nil => simp at hlm
  | cons m0 ms =>
    cases keep <;> simp [mulOuter, mulOuterRaw]

/-- Exactness of one CIOS step: `B · A' = A + a·b + Mod·m` with `A = val res + B^N·carry`, limb ranges, and the
    `debug_assert_eq!(value, 0)` holds. -/
theorem mulOuterRaw_spec (B inv b : ℕ) (a md res : List ℕ) (carry : Bool)
    (hN : 0 < res.length) (hla : a.length = res.length) (hlm : md.length = res.length)
    (ha : AllLtB B a) (hmd : AllLtB B md) (hres : AllLtB B res) (hb : b < B)
    (hinv : (inv * md.headD 0) % B = B - 1) :
    (∃ m, m < B ∧ B * (valB B (mulOuterRaw B inv b a md res carry).1
          + B ^ res.length * (mulOuterRaw B inv b a md res carry).2.1.toNat)
        = (valB B res + B ^ res.length * carry.toNat) + valB B a * b + valB B md * m)
    ∧ (mulOuterRaw B inv b a md res carry).1.length = res.length
    ∧ AllLtB B (mulOuterRaw B inv b a md res carry).1
    ∧ (mulOuterRaw B inv b a md res carry).2.2 = true := by
  have hB : 0 < B := by omega
  cases res with
  | nil => simp at hN
  | cons r0 rs =>
  cases a with
  | nil => simp at hla
  | cons a0 as =>
  cases md with
  | nil => simp at hlm
  | cons m0 ms =>
    simp only [List.length_cons, Nat.add_right_cancel_iff] at hla hlm
    simp only [List.headD_cons] at hinv
    obtain ⟨e1, v1lt, c1lt⟩ := carryingMulAdd_spec B a0 b r0 0 ha.head hb hres.head hB
    obtain ⟨m, hmdef⟩ : ∃ m, m = ((carryingMulAdd B a0 b r0 0).1 * inv) % B := ⟨_, rfl⟩
    have hmB : m < B := by rw [hmdef]; exact Nat.mod_lt _ hB
    obtain ⟨e2, v2lt, c2lt⟩ := carryingMulAdd_spec B m0 m (carryingMulAdd B a0 b r0 0).1 0
      hmd.head hmB v1lt hB
    have hz : (carryingMulAdd B m0 m (carryingMulAdd B a0 b r0 0).1 0).1 = 0 := by
      have hk := m_kills B inv m0 (carryingMulAdd B a0 b r0 0).1 hB hinv
      rw [← hmdef] at hk
      have : (carryingMulAdd B m0 m (carryingMulAdd B a0 b r0 0).1 0).1
          = (m0 * m + (carryingMulAdd B a0 b r0 0).1 + 0) % B := by
        rw [← e2, Nat.add_mul_mod_self_left, Nat.mod_eq_of_lt v2lt]
      rw [this, Nat.add_zero]; exact hk
    obtain ⟨i1, i2, i3, i4, i5⟩ := mulInner_spec B b m hb hmB as ms rs (carryingMulAdd B a0 b r0 0).2
      (carryingMulAdd B m0 m (carryingMulAdd B a0 b r0 0).1 0).2 hla hlm ha.tail hmd.tail hres.tail c1lt c2lt
    obtain ⟨e3, tlt⟩ := carryingAdd_spec B _ _ carry i4 i5
    simp only [mulOuterRaw, ← hmdef]
    refine ⟨⟨m, hmB, ?_⟩, ?_, ?_, ?_⟩
    · rw [valB_append_single, i2]
      simp only [valB_cons, List.length_cons, pow_succ]
      rw [hz] at e2
      generalize mulInner B b m as ms rs (carryingMulAdd B a0 b r0 0).2
        (carryingMulAdd B m0 m (carryingMulAdd B a0 b r0 0).1 0).2 = rest at *
      generalize carryingMulAdd B m0 m (carryingMulAdd B a0 b r0 0).1 0 = q at *
      generalize carryingMulAdd B a0 b r0 0 = p at *
      generalize carryingAdd B rest.2.1 rest.2.2 carry = t at *
      linear_combination B * i1 + (B ^ rs.length * B) * e3 + e1 + e2
    · simp [i2]
    · exact AllLtB.append i3 (AllLtB.cons tlt AllLtB.nil)
    · simp [hz]

/-- one iteration of `for b in b` with bounds: exactness, limb range, `A' < 2·Mod`, no assertion fires.
    In the arm that drops the carry (`keep = false`) the dropped bit is provably zero. -/
theorem mulOuter_step (B inv : ℕ) (keep : Bool) (b : ℕ) (a md : List ℕ) (s : MulSt)
    (hN : 0 < s.res.length) (hla : a.length = s.res.length) (hlm : md.length = s.res.length)
    (ha : AllLtB B a) (hmd : AllLtB B md) (hres : AllLtB B s.res) (hb : b < B)
    (hinv : (inv * md.headD 0) % B = B - 1) (haM : valB B a < valB B md)
    (hA : valB B s.res + B ^ s.res.length * s.carry.toNat < 2 * valB B md)
    (hkeep : keep = false → 2 * valB B md ≤ B ^ s.res.length) :
    (∃ m, B * (valB B (mulOuter B inv keep b a md s).res
          + B ^ s.res.length * (mulOuter B inv keep b a md s).carry.toNat)
        = (valB B s.res + B ^ s.res.length * s.carry.toNat) + valB B a * b + valB B md * m)
    ∧ (mulOuter B inv keep b a md s).res.length = s.res.length
    ∧ AllLtB B (mulOuter B inv keep b a md s).res
    ∧ valB B (mulOuter B inv keep b a md s).res
        + B ^ s.res.length * (mulOuter B inv keep b a md s).carry.toNat < 2 * valB B md
    ∧ (mulOuter B inv keep b a md s).ok = s.ok := by
  have hB : 0 < B := by omega
  obtain ⟨⟨m, hmB, hs⟩, r2, r3, r4⟩ := mulOuterRaw_spec B inv b a md s.res s.carry hN hla hlm ha hmd hres hb hinv
  rw [mulOuter_eq B inv keep b a md s hN hla hlm]
  obtain ⟨raw, hraw⟩ : ∃ raw, raw = mulOuterRaw B inv b a md s.res s.carry := ⟨_, rfl⟩
  rw [← hraw] at hs r2 r3 r4 ⊢
  -- the exact new accumulator is below 2·Mod
  have hbound : valB B raw.1 + B ^ s.res.length * raw.2.1.toNat < 2 * valB B md := by
    obtain ⟨A', hA'⟩ : ∃ A', A' = valB B raw.1 + B ^ s.res.length * raw.2.1.toNat := ⟨_, rfl⟩
    obtain ⟨A, hAd⟩ : ∃ A, A = valB B s.res + B ^ s.res.length * s.carry.toNat := ⟨_, rfl⟩
    rw [← hA', ← hAd] at hs
    rw [← hAd] at hA
    rw [← hA']
    generalize valB B a = Av at *
    generalize valB B md = Md at *
    have h1 : Av * b ≤ Md * (B - 1) := Nat.mul_le_mul (le_of_lt haM) (by omega)
    have h2 : Md * m ≤ Md * (B - 1) := Nat.mul_le_mul_left _ (by omega)
    have h3 : Md * (B - 1) + Md = Md * B := by
      have : B - 1 + 1 = B := Nat.sub_add_cancel hB
      calc Md * (B - 1) + Md = Md * (B - 1 + 1) := by ring
        _ = Md * B := by rw [this]
    by_contra hc; push Not at hc
    have : B * (2 * Md) ≤ B * A' := Nat.mul_le_mul_left _ hc
    have e : B * (2 * Md) = 2 * (Md * B) := by ring
    omega
  cases keep
  · -- carry dropped: it is zero, and so was the old one
    have h2 := hkeep rfl
    have hv := valB_lt_pow B raw.1 r3
    rw [r2] at hv
    have hnc : raw.2.1 = false := by
      cases h : raw.2.1
      · rfl
      · rw [h] at hbound; simp only [Bool.toNat_true, Nat.mul_one] at hbound; omega
    have hoc : s.carry = false := by
      cases h : s.carry
      · rfl
      · rw [h] at hA; simp only [Bool.toNat_true, Nat.mul_one] at hA; omega
    simp only [Bool.false_eq_true, if_false]
    rw [hnc] at hs hbound
    rw [hoc] at hs ⊢
    refine ⟨⟨m, hs⟩, r2, r3, hbound, ?_⟩
    rw [r4, hnc]; simp
  · simp only [if_true]
    exact ⟨⟨m, hs⟩, r2, r3, hbound, by rw [r4]; simp⟩

/-- the outer loop `for b in b`. -/
theorem mulLoop_spec (B inv : ℕ) (keep : Bool) (a md : List ℕ)
    (ha : AllLtB B a) (hmd : AllLtB B md)
    (hinv : (inv * md.headD 0) % B = B - 1) (haM : valB B a < valB B md)
    (hkeep : keep = false → 2 * valB B md ≤ B ^ md.length)
    (bs : List ℕ) (s : MulSt) (hbs : AllLtB B bs)
    (hN : 0 < s.res.length) (hla : a.length = s.res.length) (hlm : md.length = s.res.length)
    (hres : AllLtB B s.res) (hA : valB B s.res + B ^ s.res.length * s.carry.toNat < 2 * valB B md) :
    (∃ M, B ^ bs.length * (valB B (mulLoop B inv keep a md bs s).res
          + B ^ s.res.length * (mulLoop B inv keep a md bs s).carry.toNat)
        = (valB B s.res + B ^ s.res.length * s.carry.toNat) + valB B a * valB B bs + valB B md * M)
    ∧ (mulLoop B inv keep a md bs s).res.length = s.res.length
    ∧ AllLtB B (mulLoop B inv keep a md bs s).res
    ∧ valB B (mulLoop B inv keep a md bs s).res
        + B ^ s.res.length * (mulLoop B inv keep a md bs s).carry.toNat < 2 * valB B md
    ∧ (mulLoop B inv keep a md bs s).ok = s.ok := by
  induction bs generalizing s with
  | nil =>
    simp only [mulLoop, List.length_nil, pow_zero, Nat.one_mul, valB_nil, Nat.mul_zero, Nat.add_zero]
    exact ⟨⟨0, by simp⟩, trivial, hres, hA, trivial⟩
  | cons b bs ih =>
    have hb : b < B := hbs.head
    obtain ⟨⟨m, s1⟩, s2, s3, s4, s5⟩ := mulOuter_step B inv keep b a md s hN hla hlm ha hmd hres hb hinv haM hA
      (by rw [← hlm]; exact hkeep)
    obtain ⟨s', hs'⟩ : ∃ s', s' = mulOuter B inv keep b a md s := ⟨_, rfl⟩
    rw [← hs'] at s1 s2 s3 s4 s5
    obtain ⟨⟨M, t1⟩, t2, t3, t4, t5⟩ := ih s' hbs.tail (by rw [s2]; exact hN) (by rw [s2]; exact hla)
      (by rw [s2]; exact hlm) s3 (by rw [s2]; exact s4)
    simp only [mulLoop, ← hs']
    rw [s2] at t1 t2 t4
    refine ⟨⟨m + B * M, ?_⟩, t2, t3, t4, by rw [t5, s5]⟩
    simp only [List.length_cons, pow_succ, valB_cons]
    generalize valB B (mulLoop B inv keep a md bs s').res
      + B ^ s.res.length * (mulLoop B inv keep a md bs s').carry.toNat = Ao at *
    generalize valB B s'.res + B ^ s.res.length * s'.carry.toNat = A1 at *
    generalize valB B s.res + B ^ s.res.length * s.carry.toNat = A at *
    linear_combination B * t1 + s1

/-- **`mul_redc` on limb lists, any base, any `N ≥ 1`**: no `debug_assert` fires, the result has `N` words,
    is below the modulus, and `B^N · result ≡ a·b (mod Mod)`. -/
theorem mulRedc_spec (B : ℕ) (keepMul : ℕ → Bool) (inv : ℕ) (a b md : List ℕ)
    (hN : 0 < md.length) (hla : a.length = md.length) (hlb : b.length = md.length)
    (ha : AllLtB B a) (hb : AllLtB B b) (hmd : AllLtB B md)
    (hinv : (inv * md.headD 0) % B = B - 1)
    (haM : valB B a < valB B md) (hbM : valB B b < valB B md)
    (hkeep : ∀ top, keepMul top = false → 2 * (top + 1) ≤ B) :
    ∃ r, mulRedc B keepMul inv a b md = some r ∧ r.length = md.length ∧ AllLtB B r
      ∧ valB B r < valB B md
      ∧ (B ^ md.length * valB B r) % valB B md = (valB B a * valB B b) % valB B md := by
  have hne : md ≠ [] := by intro h; rw [h] at hN; simp at hN
  have hB : 0 < B := by
    have := hmd (md.head hne) (List.head_mem hne); omega
  have hmd0 : 0 < valB B md := by omega
  have hk : keepMul (md.getLastD 0) = false → 2 * valB B md ≤ B ^ md.length := by
    intro h
    have h1 := hkeep _ h
    have h2 := valB_lt_of_top B md hmd hne
    have h3 : B ^ md.length = B * B ^ (md.length - 1) := by
      rw [← pow_succ']; congr 1; omega
    rw [h3]
    have : 2 * ((md.getLastD 0 + 1) * B ^ (md.length - 1)) ≤ B * B ^ (md.length - 1) := by
      rw [← Nat.mul_assoc]; exact Nat.mul_le_mul_right _ h1
    omega
  have hzl : (List.replicate md.length 0).length = md.length := List.length_replicate
  obtain ⟨s0, hs0⟩ : ∃ s0 : MulSt, s0 = MulSt.mk (List.replicate md.length 0) false
      (preOk B inv a md && decide (valB B b < valB B md)) := ⟨_, rfl⟩
  have hs0r : s0.res = List.replicate md.length 0 := by rw [hs0]
  have hs0c : s0.carry = false := by rw [hs0]
  have hs0o : s0.ok = true := by
    rw [hs0]; simp only [preOk, hinv, haM, hbM, decide_true, Bool.and_self]
  obtain ⟨⟨M, k1⟩, k2, k3, k4, k5⟩ := mulLoop_spec B inv (keepMul (md.getLastD 0)) a md ha hmd hinv haM hk
    b s0 hb (by rw [hs0r, hzl]; exact hN) (by rw [hs0r, hzl]; exact hla) (by rw [hs0r, hzl])
    (by rw [hs0r]; exact allLtB_replicate_zero hB _)
    (by rw [hs0r, hs0c, valB_replicate_zero]; simp; exact hmd0)
  obtain ⟨out, hout⟩ : ∃ out, out = mulLoop B inv (keepMul (md.getLastD 0)) a md b s0 := ⟨_, rfl⟩
  rw [← hout] at k1 k2 k3 k4 k5
  rw [hs0r, hzl] at k1 k2 k4
  rw [hs0c, valB_replicate_zero, hlb] at k1
  simp only [Bool.toNat_false, Nat.mul_zero, Nat.add_zero, Nat.zero_add] at k1
  obtain ⟨r1, r2, r3, r4⟩ := reduce1Carry_spec B out.res md out.carry k2 k3 hmd hmd0 k4
  have hcore : mulRedcCore B keepMul inv a b md = (reduce1Carry B out.res md out.carry, out.ok) := by
    simp only [mulRedcCore, ← hs0, ← hout]
  refine ⟨reduce1Carry B out.res md out.carry, ?_, r3, r4, r2, ?_⟩
  · simp only [mulRedc, hcore, k5, hs0o, if_true]
  · rw [r1, Nat.mul_mod, Nat.mod_mod, ← Nat.mul_mod, k1, Nat.add_mul_mod_self_left]

end Ruint.Redc
