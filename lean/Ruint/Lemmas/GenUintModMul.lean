import Ruint.Gen.WordsUintMod
import Ruint.Model.Mul
import Ruint.Lemmas.GenAddmul
import Ruint.Lemmas.GenMulWrap
/-! Part of the ties of `Gen/WordsUintMod.lean` (split per property so that a change to one source function breaks only the
    obligations of the properties resting on it). -/
namespace Ruint.GenUintMod
open Ruint

/-! ### `widening_mul` -/

/-- **`Uint::widening_mul` as generated from `src/mul.rs`** (two `assert_eq!`, `addmul` into a zero result). -/
theorem widening_mul_eq (bits bitsRhs bitsRes limbsRes : ℕ) (hB : bits + bitsRhs + 63 < 2 ^ 64) (a b : List ℕ)
    (ha : Ruint.AllLt a) (hb : Ruint.AllLt b) (hla : a.length < 2 ^ 64) (hlb : b.length < 2 ^ 64) (f : ℕ)
    (hlen : limbsRes + a.length + b.length < f) :
    Ruint.Gen.uint_widening_mul f bitsRhs (nlimbs bitsRhs) bitsRes limbsRes bits (nlimbs bits) a b
      = Ruint.Mul.wideningMulG bits bitsRhs bitsRes limbsRes a b := by
  unfold Ruint.Gen.uint_widening_mul Ruint.Mul.wideningMulG
  have hw : Rs.wadd 64 bits bitsRhs = bits + bitsRhs := by unfold Rs.wadd; omega
  rw [hw]
  dsimp only
  by_cases h1 : bitsRes = bits + bitsRhs
  · obtain ⟨S, hS⟩ : ∃ S, S = bits + bitsRhs := ⟨_, rfl⟩
    rw [← hS] at h1 ⊢
    subst h1
    have hn : Ruint.Gen.nlimbs bitsRes = nlimbs bitsRes := GenCore.nlimbs_eq bitsRes (by omega)
    rw [hn]
    by_cases h2 : limbsRes = nlimbs bitsRes
    · have hzl : AllLt (List.replicate limbsRes 0) := by
        intro x hx; rw [List.eq_of_mem_replicate hx]; exact W_pos
      have hl64 : limbsRes < 2 ^ 64 := by rw [h2]; unfold nlimbs; omega
      rw [Ruint.GenAddmul.addmul_eq (List.replicate limbsRes 0) a b hzl ha hb
        (by rw [List.length_replicate]; exact hl64) hla hlb f (by rw [List.length_replicate]; exact hlen)]
      simp [h2]
    · simp [h2]
  · simp [h1]


end Ruint.GenUintMod
