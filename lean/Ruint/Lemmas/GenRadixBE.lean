import Ruint.Lemmas.Radix
import Ruint.Lemmas.GenCore
import Ruint.Gen.WordsRadix
import Mathlib.Tactic.Linarith

/-! `Uint::from_base_be` and `SpigotLittle::next` as GENERATED from `src/base_convert.rs`
    (`Ruint/Gen/WordsRadix.lean`) equal the limb-level models of `Model/Radix.lean`
    (`fromBaseBE`, `spigotNextLimbs`) on their domain (word limbs / digits, lengths `< 2^64`, enough fuel). -/
namespace Ruint.GenRadixBE
open Ruint Ruint.Radix

theorem loop_succ {σ : Type} (step : σ → σ × Bool) (f : ℕ) (s : σ) :
    Rs.loop step (f + 1) s = if (step s).2 then Rs.loop step f (step s).1 else (step s).1 := rfl

/-- error encoding of the generated code: variant index in declaration order, fields padded with 0 -/
def errT : Ruint.Radix.BaseErr → ℕ × ℕ × ℕ
  | .overflow => (0, 0, 0)
  | .invalidBase b => (1, b, 0)
  | .invalidDigit d b => (2, d, b)

def mapErr {α : Type} : Except Ruint.Radix.BaseErr α → Except (ℕ × ℕ × ℕ) α
  | .ok a => .ok a
  | .error e => .error (errT e)

/-! ## `SpigotLittle::next` -/

theorem spigot_step_eq (base bound it z r : ℕ) (l : List ℕ) :
    Ruint.Gen.spigot_next_step1 base bound (it, z, r, l) =
      if bound < it then
        ((Rs.wsub 64 it 1, z ||| l.getD (Rs.wsub 64 it 1) 0,
          (Rs.wshl 128 r 64 ||| l.getD (Rs.wsub 64 it 1) 0) % base,
          l.set (Rs.wsub 64 it 1) ((Rs.wshl 128 r 64 ||| l.getD (Rs.wsub 64 it 1) 0) / base % 2 ^ 64)), true)
      else ((it, z, r, l), false) := by
  unfold Ruint.Gen.spigot_next_step1
  simp only [decide_eq_true_eq, gt_iff_lt]

/-- `zero |= limb`, last limb first -/
def orRev (z : ℕ) (xs : List ℕ) : ℕ := xs.foldr (fun x acc => acc ||| x) z

theorem orRev_append (z y : ℕ) (ys : List ℕ) : orRev z (ys ++ [y]) = orRev (z ||| y) ys := by
  simp [orRev, List.foldr_append]

theorem or_zero_iff (a b : ℕ) : a ||| b = 0 ↔ a = 0 ∧ b = 0 := by
  constructor
  · intro h
    have h1 : a ≤ a ||| b := Nat.left_le_or
    have h2 : b ≤ a ||| b := Nat.right_le_or
    omega
  · rintro ⟨rfl, rfl⟩; rfl

theorem orRev_eq_zero (z : ℕ) (xs : List ℕ) : orRev z xs = 0 ↔ z = 0 ∧ ∀ x ∈ xs, x = 0 := by
  induction xs with
  | nil => simp [orRev]
  | cons x xs ih =>
    have e : orRev z (x :: xs) = orRev z xs ||| x := rfl
    rw [e, or_zero_iff, ih]
    simp only [List.mem_cons, forall_eq_or_imp]
    tauto

theorem shortDivBE_cons (base x r : ℕ) (xs : List ℕ) :
    shortDivBE base (x :: xs) r =
      ((r * W + x) / base % W :: (shortDivBE base xs ((r * W + x) % base)).1,
        (shortDivBE base xs ((r * W + x) % base)).2) := by
  simp only [shortDivBE]

theorem shl_or_eq (r y : ℕ) (hr : r < 2 ^ 64) (hy : y < 2 ^ 64) : Rs.wshl 128 r 64 ||| y = r * W + y := by
  unfold Rs.wshl W
  rw [Nat.mod_eq_of_lt (by omega), Nat.mul_comm, ← Nat.two_pow_add_eq_or_of_lt hy r]

theorem spigot_loop_eq (base : ℕ) (hb0 : 0 < base) (hb : base < 2 ^ 64) :
    ∀ (xs sfx : List ℕ) (z r f : ℕ), Ruint.AllLt xs → r < base → xs.length < 2 ^ 64 → xs.length < f →
      Rs.loop (Ruint.Gen.spigot_next_step1 base 0) f (xs.length, z, r, xs ++ sfx)
        = (0, orRev z xs, (shortDivBE base xs.reverse r).2, (shortDivBE base xs.reverse r).1.reverse ++ sfx) := by
  intro xs
  induction xs using List.reverseRecOn with
  | nil =>
    intro sfx z r f _ _ _ h6
    obtain ⟨f, rfl⟩ : ∃ g, f = g + 1 := ⟨f - 1, by simp at h6; omega⟩
    rw [loop_succ, spigot_step_eq]
    simp [orRev, shortDivBE]
  | append_singleton ys y ih =>
    intro sfx z r f hw hr h64 h6
    obtain ⟨f, rfl⟩ : ∃ g, f = g + 1 := ⟨f - 1, by simp at h6; omega⟩
    simp only [List.length_append, List.length_singleton] at h64 h6
    have hyW : y < 2 ^ 64 := hw y (by simp)
    have hi : 0 < (ys ++ [y]).length := by simp
    have g1 : Rs.wsub 64 (ys ++ [y]).length 1 = ys.length := by
      simp only [List.length_append, List.length_singleton]; unfold Rs.wsub; omega
    have g2 : (ys ++ [y] ++ sfx).getD ys.length 0 = y := by simp
    have g3 : ∀ q, (ys ++ [y] ++ sfx).set ys.length q = ys ++ ([q] ++ sfx) := by intro q; simp
    have hj := shl_or_eq r y (by omega) hyW
    have hr' : (r * W + y) % base < base := Nat.mod_lt _ hb0
    rw [loop_succ, spigot_step_eq]
    simp only [hi, if_true, g1, g2, g3, hj]
    rw [ih ([(r * W + y) / base % 2 ^ 64] ++ sfx) (z ||| y) ((r * W + y) % base) f
      (fun x hx => hw x (by simp [hx])) hr' (by omega) (by omega)]
    have hrev : (ys ++ [y]).reverse = y :: ys.reverse := by simp
    rw [orRev_append, hrev, shortDivBE_cons]
    simp [W]

/-- **`SpigotLittle::next` as generated from the source** = the limb-level model. -/
theorem spigot_next_eq (base : ℕ) (limbs : List ℕ) (hb0 : 0 < base) (hb : base < 2 ^ 64) (hl : Ruint.AllLt limbs)
    (h64 : limbs.length < 2 ^ 64) (f : ℕ) (hf : limbs.length < f) :
    Ruint.Gen.spigot_next f base limbs =
      ((Ruint.Radix.spigotNextLimbs base limbs).2, (Ruint.Radix.spigotNextLimbs base limbs).1) := by
  have hl' := spigot_loop_eq base hb0 hb limbs [] 0 0 f hl hb0 h64 hf
  simp only [List.append_nil] at hl'
  unfold Ruint.Gen.spigot_next Ruint.Radix.spigotNextLimbs
  simp only [hl']
  by_cases hz : ∀ x ∈ limbs, x = 0
  · have h1 : orRev 0 limbs = 0 := (orRev_eq_zero 0 limbs).mpr ⟨rfl, hz⟩
    have h2 : (limbs.all (· == 0)) = true := by
      rw [List.all_eq_true]; intro x hx; simp [hz x hx]
    simp [h1, h2]
  · have h1 : ¬ orRev 0 limbs = 0 := fun h => hz ((orRev_eq_zero 0 limbs).mp h).2
    have h2 : ¬ (limbs.all (· == 0)) = true := by
      rw [List.all_eq_true]; intro h; apply hz; intro x hx; simpa using h x hx
    simp [h1, h2, W]

/-! ## `Uint::from_base_be` -/

theorem be_step2_eq (BITS LIMBS base bound c it : ℕ) (r : List ℕ) :
    Ruint.Gen.uint_from_base_be_step2 BITS LIMBS base bound (c, r, it) =
      if it < bound then
        ((Rs.wadd 128 c (Rs.wmul 128 (r.getD it 0) base) / 2 ^ 64,
          r.set it (Rs.wadd 128 c (Rs.wmul 128 (r.getD it 0) base) % 2 ^ 64),
          Rs.wadd 64 it 1), true)
      else ((c, r, it), false) := by
  unfold Ruint.Gen.uint_from_base_be_step2
  simp only [decide_eq_true_eq]

/-- the `u128` step `carry += limb * base` is exact and leaves a word carry. -/
theorem chain_arith (c x base : ℕ) (hc : c < 2 ^ 64) (hx : x < 2 ^ 64) (hb : base < 2 ^ 64) :
    Rs.wadd 128 c (Rs.wmul 128 x base) = c + x * base ∧ (c + x * base) / 2 ^ 64 < 2 ^ 64 := by
  have h1 : x * base ≤ (2 ^ 64 - 1) * (2 ^ 64 - 1) := Nat.mul_le_mul (by omega) (by omega)
  have h2 : (2 ^ 64 - 1) * (2 ^ 64 - 1) = 2 ^ 128 - 2 * 2 ^ 64 + 1 := by norm_num
  obtain ⟨p, hp⟩ : ∃ p, p = x * base := ⟨_, rfl⟩
  rw [← hp] at h1 ⊢
  unfold Rs.wadd Rs.wmul
  constructor <;> omega

theorem be_inner_eq (BITS LIMBS base : ℕ) (hb : base < 2 ^ 64) :
    ∀ (xs pre : List ℕ) (c f bound : ℕ), Ruint.AllLt xs → c < 2 ^ 64 → bound < 2 ^ 64 → xs.length < f →
      bound = pre.length + xs.length →
      Rs.loop (Ruint.Gen.uint_from_base_be_step2 BITS LIMBS base bound) f (c, pre ++ xs, pre.length)
        = ((mulAddChain base xs c).2, pre ++ (mulAddChain base xs c).1, bound) := by
  intro xs
  induction xs with
  | nil =>
    intro pre c f bound _ _ _ hf hbd
    obtain ⟨f, rfl⟩ : ∃ g, f = g + 1 := ⟨f - 1, by simp at hf; omega⟩
    rw [loop_succ, be_step2_eq]
    simp [mulAddChain, hbd]
  | cons x xs ih =>
    intro pre c f bound hw hc h64 hf hbd
    obtain ⟨f, rfl⟩ : ∃ g, f = g + 1 := ⟨f - 1, by simp at hf; omega⟩
    simp only [List.length_cons] at hf hbd
    have hx : x < 2 ^ 64 := hw x (by simp)
    obtain ⟨ha, hq⟩ := chain_arith c x base hc hx hb
    have hi : pre.length < bound := by omega
    have g2 : (pre ++ x :: xs).getD pre.length 0 = x := by simp
    have g3 : ∀ q, (pre ++ x :: xs).set pre.length q = (pre ++ [q]) ++ xs := by intro q; simp
    have g1 : ∀ q : ℕ, Rs.wadd 64 pre.length 1 = (pre ++ [q]).length := by
      intro q; simp only [List.length_append, List.length_singleton]; unfold Rs.wadd; omega
    rw [loop_succ, be_step2_eq]
    simp only [hi, if_true, g2, ha, g3]
    rw [g1 ((c + x * base) % 2 ^ 64)]
    rw [ih (pre ++ [(c + x * base) % 2 ^ 64]) ((c + x * base) / 2 ^ 64) f bound
      (fun y hy => hw y (by simp [hy])) hq h64 (by omega) (by simp; omega)]
    simp [mulAddChain, W]

theorem be_step1_eq (F BITS LIMBS base : ℕ) (digits : List ℕ) (bound : ℕ) (r : List ℕ) (it : ℕ)
    (o : Option (Except (ℕ × ℕ × ℕ) (List ℕ))) :
    Ruint.Gen.uint_from_base_be_step1 F BITS LIMBS base digits bound ((r, it), o) =
      if it < bound then
        if base ≤ digits.getD it 0 then (((r, it), some (Except.error (2, digits.getD it 0, base))), false)
        else
          if (decide ((Rs.loop (Ruint.Gen.uint_from_base_be_step2 BITS LIMBS base r.length) F
                  (digits.getD it 0, r, 0)).1 > 0)
              || ((LIMBS != 0) && decide (((Rs.loop (Ruint.Gen.uint_from_base_be_step2 BITS LIMBS base r.length) F
                  (digits.getD it 0, r, 0)).2.1.getD (Rs.wsub 64 LIMBS 1) 0) > Ruint.Gen.mask BITS))) = true then
            ((((Rs.loop (Ruint.Gen.uint_from_base_be_step2 BITS LIMBS base r.length) F
                  (digits.getD it 0, r, 0)).2.1, it), some (Except.error (0, 0, 0))), false)
          else
            ((((Rs.loop (Ruint.Gen.uint_from_base_be_step2 BITS LIMBS base r.length) F
                  (digits.getD it 0, r, 0)).2.1, Rs.wadd 64 it 1), none), true)
      else (((r, it), o), false) := by
  unfold Ruint.Gen.uint_from_base_be_step1
  simp only [decide_eq_true_eq, ge_iff_le]

theorem getLast_getD (l : List ℕ) : l.getLast?.getD 0 = l.getD (l.length - 1) 0 := by
  rw [List.getLast?_eq_getElem?, List.getD_eq_getElem?_getD]

theorem ovf_cond (bits N carry : ℕ) (r' : List ℕ) (hlen : r'.length = N) (hN : N < 2 ^ 64) :
    ((decide (carry > 0) || ((N != 0) && decide (r'.getD (Rs.wsub 64 N 1) 0 > Ruint.Gen.mask bits))) = true)
      ↔ (carry > 0 ∨ (N ≠ 0 ∧ r'.getLast?.getD 0 > mask bits)) := by
  rw [Ruint.GenCore.mask_eq, getLast_getD, hlen]
  simp only [Bool.or_eq_true, Bool.and_eq_true, decide_eq_true_eq, bne_iff_ne, ne_eq]
  by_cases h0 : N = 0
  · simp [h0]
  · have : Rs.wsub 64 N 1 = N - 1 := by unfold Rs.wsub; omega
    rw [this]

/-- what `from_base_be` returns from the final loop state -/
def fin (s : (List ℕ × ℕ) × Option (Except (ℕ × ℕ × ℕ) (List ℕ))) : Except (ℕ × ℕ × ℕ) (List ℕ) :=
  s.2.getD (Except.ok s.1.1)

theorem be_outer_eq (bits base : ℕ) (hN : nlimbs bits < 2 ^ 64) (hb : base < 2 ^ 64) (digits : List ℕ)
    (hd : Ruint.AllLt digits) (hl : digits.length < 2 ^ 64) (F : ℕ) (hF : nlimbs bits < F) :
    ∀ (ds pre r : List ℕ) (g : ℕ), pre ++ ds = digits → r.length = nlimbs bits → Ruint.AllLt r → ds.length < g →
      fin (Rs.loop (Ruint.Gen.uint_from_base_be_step1 F bits (nlimbs bits) base digits digits.length) g
            ((r, pre.length), none))
        = mapErr (fromBaseBELoop bits base ds r) := by
  intro ds
  induction ds with
  | nil =>
    intro pre r g hdig _ _ hg
    obtain ⟨g, rfl⟩ : ∃ k, g = k + 1 := ⟨g - 1, by simp at hg; omega⟩
    have hlen : digits.length = pre.length := by rw [← hdig]; simp
    have hn : ¬ pre.length < digits.length := by omega
    rw [loop_succ, be_step1_eq, if_neg hn]
    simp [fin, fromBaseBELoop, mapErr]
  | cons d ds ih =>
    intro pre r g hdig hrl hrw hg
    obtain ⟨g, rfl⟩ : ∃ k, g = k + 1 := ⟨g - 1, by simp at hg; omega⟩
    simp only [List.length_cons] at hg
    have hlen : digits.length = pre.length + (ds.length + 1) := by rw [← hdig]; simp
    have g2 : digits.getD pre.length 0 = d := by rw [← hdig]; simp
    have hdW : d < 2 ^ 64 := hd d (by rw [← hdig]; simp)
    have hi : pre.length < digits.length := by omega
    rw [loop_succ, be_step1_eq, if_pos hi, g2]
    by_cases hdb : base ≤ d
    · rw [if_pos hdb]
      simp [fin, fromBaseBELoop, hdb, mapErr, errT]
    · rw [if_neg hdb]
      have hin := be_inner_eq bits (nlimbs bits) base hb r [] d F r.length hrw hdW (by omega) (by omega) (by simp)
      simp only [List.nil_append, List.length_nil] at hin
      rw [hin]
      obtain ⟨_, c2, c3⟩ := mulAddChain_spec base r d
      have hmodel : fromBaseBELoop bits base (d :: ds) r =
          (if (mulAddChain base r d).2 > 0 ∨
              (nlimbs bits ≠ 0 ∧ (mulAddChain base r d).1.getLast?.getD 0 > mask bits) then .error .overflow
            else fromBaseBELoop bits base ds (mulAddChain base r d).1) := by
        simp only [fromBaseBELoop, ge_iff_le, hdb, if_false]
      rw [hmodel]
      generalize mulAddChain base r d = m at *
      obtain ⟨r', carry⟩ := m
      dsimp only at *
      have hc := ovf_cond bits (nlimbs bits) carry r' (by omega) hN
      by_cases hov : carry > 0 ∨ (nlimbs bits ≠ 0 ∧ r'.getLast?.getD 0 > mask bits)
      · rw [if_pos (hc.mpr hov), if_pos hov]
        simp [fin, mapErr, errT]
      · rw [if_neg (fun h => hov (hc.mp h)), if_neg hov]
        have g1 : Rs.wadd 64 pre.length 1 = (pre ++ [d]).length := by
          simp only [List.length_append, List.length_singleton]; unfold Rs.wadd; omega
        simp only [if_true]
        rw [g1]
        exact ih (pre ++ [d]) r' g (by rw [← hdig]; simp) (by omega) c3 (by omega)

/-- **`Uint::from_base_be` as generated from the source** = the limb-level model. -/
theorem from_base_be_eq (bits base : ℕ) (digits : List ℕ) (hN : nlimbs bits < 2 ^ 64) (hb : base < 2 ^ 64)
    (hd : Ruint.AllLt digits) (hl : digits.length < 2 ^ 64) (f : ℕ) (hf : nlimbs bits + digits.length < f) :
    Ruint.Gen.uint_from_base_be f bits (nlimbs bits) base digits = mapErr (Ruint.Radix.fromBaseBE bits base digits) := by
  unfold Ruint.Gen.uint_from_base_be Ruint.Radix.fromBaseBE
  by_cases h2 : base < 2
  · simp [h2, mapErr, errT]
  · have hz : Ruint.AllLt (List.replicate (nlimbs bits) 0) := by
      intro x hx; rw [(List.mem_replicate.mp hx).2]; exact W_pos
    have := be_outer_eq bits base hN hb digits hd hl f (by omega) digits [] (List.replicate (nlimbs bits) 0) f
      rfl (by simp) hz (by omega)
    simp only [h2, decide_false, Bool.false_eq_true, if_false]
    exact this

end Ruint.GenRadixBE
