import Ruint.Lemmas.GenBits
import Ruint.Lemmas.GenShiftWrap
import Ruint.Lemmas.BitsRev

/-! `is_power_of_two`, `checked_next_power_of_two` of `src/special.rs` as GENERATED from the source equal the C06 models. -/
namespace Ruint.GenBitsWrap
open Ruint Ruint.Bits Ruint.Shift

theorem is_power_of_two_eq (bits : ℕ) (hN : nlimbs bits < 2 ^ 57) (a : List ℕ) (ha : Canon bits a) :
    Ruint.Gen.uint_is_power_of_two (nlimbs bits + 1) bits (nlimbs bits) a = isPowerOfTwo a := by
  unfold Ruint.Gen.uint_is_power_of_two isPowerOfTwo
  rw [Ruint.GenBits.count_ones_eq bits hN a ha.1 ha.2.1 _ (by omega)]

theorem checked_next_power_of_two_eq (bits : ℕ) (hN : nlimbs bits < 2 ^ 57) (a : List ℕ) (ha : Canon bits a) :
    Ruint.Gen.uint_checked_next_power_of_two (nlimbs bits + 1) bits (nlimbs bits) a = checkedNextPowerOfTwo bits a := by
  unfold Ruint.Gen.uint_checked_next_power_of_two checkedNextPowerOfTwo
  rw [is_power_of_two_eq bits hN a ha, Ruint.GenBits.bit_len_eq bits hN a ha _ (by omega)]
  by_cases hp : isPowerOfTwo a = true
  · simp [hp]
  · simp only [hp, Bool.false_eq_true, if_false]
    by_cases hge : bits ≤ bitLen bits a
    · simp [hge]
    · have hb : 0 < bits := by omega
      simp only [ge_iff_le, hge, decide_false, Bool.false_eq_true, if_false, shlInt]
      have : Ruint.toLimbs (nlimbs bits) (1 % 2 ^ bits) = one bits := rfl
      rw [this, Ruint.GenShiftWrap.wrapping_shl_eq bits (by omega) _ (one_canon bits hb).1]

end Ruint.GenBitsWrap
