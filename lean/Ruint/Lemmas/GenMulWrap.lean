import Ruint.Lemmas.Mul
import Ruint.Lemmas.GenShift
import Ruint.Lemmas.GenUintWrap
import Ruint.Lemmas.GenAddmul

/-! `overflowing_mul`, `wrapping_mul`, `checked_mul`, `saturating_mul` of `src/mul.rs` as GENERATED from the source
    (`addmul` is the function generated from `algorithms/mul.rs`; `addmul_n` is the C15 model) equal the C02 models. -/
namespace Ruint.GenMulWrap
open Ruint Ruint.Mul Ruint.Limb Ruint.Add

theorem getD_last' (r : List ℕ) (h : 0 < r.length) : r.getD (r.length - 1) 0 = r.getLast?.getD 0 :=
  Ruint.GenShift.getD_getLast r h

theorem overflowing_mul_eq (bits : ℕ) (hN : nlimbs bits < 2 ^ 62) (a b : List ℕ)
    (ha : a.length = nlimbs bits) (hb' : b.length = nlimbs bits) (hwa : AllLt a) (hwb : AllLt b) :
    Ruint.Gen.uint_overflowing_mul (3 * nlimbs bits + 1) bits (nlimbs bits) a b = overflowingMul bits a b := by
  obtain ⟨z1, _⟩ := zero_canon bits
  obtain ⟨k1, k2, _, _⟩ := addmul_W (Add.zero bits) a b z1.2.1
  rw [z1.1] at k1
  have hz : List.replicate (nlimbs bits) 0 = Add.zero bits := rfl
  unfold Ruint.Gen.uint_overflowing_mul overflowingMul
  simp only [hz]
  rw [Ruint.GenAddmul.addmul_eq (Add.zero bits) a b z1.2.1 hwa hwb (by rw [z1.1]; omega) (by omega) (by omega) _
    (by rw [z1.1, ha, hb']; omega)]
  obtain ⟨r, hr⟩ : ∃ r, r = addmul W (Add.zero bits) a b := ⟨_, rfl⟩
  rw [← hr] at k1 k2 ⊢
  by_cases h0 : bits = 0
  · subst h0; simp
  · have hb : 0 < bits := Nat.pos_of_ne_zero h0
    have hn := nlimbs_pos bits hb
    have h1 : Rs.wsub 64 (nlimbs bits) 1 = nlimbs bits - 1 := by unfold Rs.wsub; omega
    have hg := getD_last' r.1 (by rw [k1]; omega)
    rw [k1] at hg
    simp only [gt_iff_lt, hb, decide_true, if_true, h1, hg, GenCore.mask_eq,
      Ruint.GenShift.apply_mask_eq bits hb (by omega) r.1 k1 k2]

theorem wrapping_mul_eq (bits : ℕ) (hN : nlimbs bits < 2 ^ 64) (a b : List ℕ)
    (ha : a.length = nlimbs bits) (hb' : b.length = nlimbs bits) :
    Ruint.Gen.uint_wrapping_mul bits (nlimbs bits) a b = wrappingMul bits a b := by
  obtain ⟨z1, _⟩ := zero_canon bits
  unfold Ruint.Gen.uint_wrapping_mul wrappingMul
  have hz : List.replicate (nlimbs bits) 0 = Add.zero bits := rfl
  rw [hz]
  by_cases h0 : bits = 0
  · subst h0; simp
  · have hb : 0 < bits := Nat.pos_of_ne_zero h0
    obtain ⟨r, hr, hlen, _, hw⟩ := (addmulN_spec W two_le_W (Add.zero bits) a b
      (by simpa only [allLtB_W] using z1.2.1)).1 ⟨by rw [z1.1, ha], by rw [z1.1, hb']⟩
    rw [z1.1] at hlen
    simp only [allLtB_W] at hw
    simp only [hr, Option.getD_some, gt_iff_lt, hb, decide_true, if_true,
      Ruint.GenShift.apply_mask_eq bits hb hN r hlen hw]

theorem checked_mul_eq (bits : ℕ) (hN : nlimbs bits < 2 ^ 62) (a b : List ℕ)
    (ha : a.length = nlimbs bits) (hb' : b.length = nlimbs bits) (hwa : AllLt a) (hwb : AllLt b) :
    Ruint.Gen.uint_checked_mul (3 * nlimbs bits + 1) bits (nlimbs bits) a b = checkedMul bits a b := by
  unfold Ruint.Gen.uint_checked_mul checkedMul
  rw [overflowing_mul_eq bits hN a b ha hb' hwa hwb]
  rcases overflowingMul bits a b with ⟨v, f⟩
  cases f <;> rfl

theorem saturating_mul_eq (bits : ℕ) (hN : nlimbs bits < 2 ^ 62) (a b : List ℕ)
    (ha : a.length = nlimbs bits) (hb' : b.length = nlimbs bits) (hwa : AllLt a) (hwb : AllLt b) :
    Ruint.Gen.uint_saturating_mul (3 * nlimbs bits + 1) bits (nlimbs bits) a b = saturatingMul bits a b := by
  unfold Ruint.Gen.uint_saturating_mul saturatingMul
  rw [overflowing_mul_eq bits hN a b ha hb' hwa hwb, Ruint.GenUintWrap.max_eq bits (by omega)]
  rcases overflowingMul bits a b with ⟨v, f⟩
  cases f <;> rfl

end Ruint.GenMulWrap
