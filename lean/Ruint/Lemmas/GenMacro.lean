import Ruint.Gen.WordsMacro
import Ruint.Model.Macro
import Ruint.Lemmas.GenCore

/-! Tie of `pad_limbs` of the `uint!` proc macro (`ruint-macro/src/lib.rs`), GENERATED into
`Ruint/Gen/WordsMacro.lean` by `tools/rs2lean.py` on every run (`Vec<u64>` as an owned word list, the two
`while` loops as step functions iterated by the fuelled `Rs.loop`), to the hand-written model
`Ruint.Macro.padLimbs` of `Model/Macro.lean` — the one the C19 theorems are about. -/
namespace Ruint.GenMacro
open Ruint Ruint.Macro

theorem loop_zero {σ : Type} (step : σ → σ × Bool) (s : σ) : Rs.loop step 0 s = s := rfl
theorem loop_succ {σ : Type} (step : σ → σ × Bool) (f : ℕ) (s : σ) :
    Rs.loop step (f + 1) s = if (step s).2 then Rs.loop step f (step s).1 else (step s).1 := rfl

/-! ## the model's `popZerosRev`, one equation per case -/

theorem popZerosRev_nil (n : ℕ) : popZerosRev n [] = [] := by
  unfold popZerosRev; rfl

theorem popZerosRev_zero (n : ℕ) (xs : List ℕ) :
    popZerosRev n (0 :: xs) = if xs.length + 1 > n then popZerosRev n xs else 0 :: xs := by
  rw [popZerosRev]

theorem popZerosRev_ne (n a : ℕ) (xs : List ℕ) (ha : a ≠ 0) : popZerosRev n (a :: xs) = a :: xs := by
  cases a with
  | zero => exact absurd rfl ha
  | succ a => rw [popZerosRev]; intro xs' h; simp at h

/-! ## the pop loop -/

theorem step1_eq (n : ℕ) (l : List ℕ) :
    Ruint.Gen.macro_pad_limbs_step1 n l =
      if n < l.length ∧ l.getLast? = some 0 then (l.dropLast, true) else (l, false) := by
  unfold Ruint.Gen.macro_pad_limbs_step1
  by_cases h : n < l.length ∧ l.getLast? = some 0
  · rw [if_pos h, if_pos]
    simp only [Bool.and_eq_true, decide_eq_true_eq, gt_iff_lt, beq_iff_eq]
    exact h
  · rw [if_neg h, if_neg]
    simp only [Bool.and_eq_true, decide_eq_true_eq, gt_iff_lt, beq_iff_eq]
    exact h

/-- `while limbs.len() > num_limbs && limbs.last() == Some(&0) { limbs.pop(); }` -/
theorem pop_loop_eq (n : ℕ) : ∀ (f : ℕ) (l : List ℕ), l.length < f →
    Rs.loop (Ruint.Gen.macro_pad_limbs_step1 n) f l = (popZerosRev n l.reverse).reverse := by
  intro f
  induction f with
  | zero => intro l h; omega
  | succ f ih =>
    intro l hl
    rw [loop_succ, step1_eq]
    rcases List.eq_nil_or_concat l with rfl | ⟨xs, a, rfl⟩
    · simp [popZerosRev_nil]
    · rw [List.concat_eq_append] at hl ⊢
      rw [List.reverse_concat]
      have hlen : (xs ++ [a]).length = xs.length + 1 := by simp
      by_cases ha : a = 0
      · subst ha
        rw [popZerosRev_zero, List.length_reverse]
        by_cases hn : n < xs.length + 1
        · have hc : n < (xs ++ [0]).length ∧ (xs ++ [0]).getLast? = some 0 := by
            rw [hlen]; exact ⟨hn, by simp⟩
          rw [if_pos hc, if_pos hn]
          dsimp only
          rw [if_pos rfl, List.dropLast_concat]
          exact ih xs (by rw [hlen] at hl; omega)
        · have hc : ¬ (n < (xs ++ [0]).length ∧ (xs ++ [0]).getLast? = some 0) := by
            rw [hlen]; exact fun h => hn h.1
          rw [if_neg hc, if_neg hn]
          dsimp only
          rw [if_neg (by simp)]
          simp
      · have hc : ¬ (n < (xs ++ [a]).length ∧ (xs ++ [a]).getLast? = some 0) := by
          intro h; apply ha; simpa using h.2
        rw [popZerosRev_ne _ _ _ ha, if_neg hc]
        dsimp only
        rw [if_neg (by simp)]
        simp

/-! ## the push loop -/

theorem step2_eq (n : ℕ) (l : List ℕ) :
    Ruint.Gen.macro_pad_limbs_step2 n l = if l.length < n then (l ++ [0], true) else (l, false) := by
  unfold Ruint.Gen.macro_pad_limbs_step2
  simp only [decide_eq_true_eq]

/-- `while limbs.len() < num_limbs { limbs.push(0); }` -/
theorem push_loop_eq (n : ℕ) : ∀ (f : ℕ) (l : List ℕ), n - l.length < f →
    Rs.loop (Ruint.Gen.macro_pad_limbs_step2 n) f l = l ++ List.replicate (n - l.length) 0 := by
  intro f
  induction f with
  | zero => intro l h; omega
  | succ f ih =>
    intro l hl
    rw [loop_succ, step2_eq]
    by_cases h : l.length < n
    · rw [if_pos h]
      dsimp only
      rw [if_pos rfl, ih (l ++ [0]) (by simp; omega)]
      have e : n - l.length = (n - (l ++ [0]).length) + 1 := by simp; omega
      rw [e, List.replicate_succ, List.append_assoc]
      rfl
    · rw [if_neg h]
      have e : n - l.length = 0 := by omega
      simp [e]

/-! ## limb count and mask -/

theorem num_limbs_eq (bits : ℕ) (hB : bits + 63 < 2 ^ 64) : (Rs.wadd 64 bits 63) / 64 = nlimbs bits := by
  unfold Rs.wadd nlimbs
  rw [Nat.mod_eq_of_lt hB]

theorem mask_expr_eq (bits : ℕ) :
    (if (bits == 0) = true then 0
      else if (bits % 64 == 0) = true then 2 ^ 64 - 1 else Rs.wsub 64 (Rs.wshl 64 1 (bits % 64)) 1) = mask bits :=
  Ruint.GenCore.mask_eq bits

/-! ## `pad_limbs` -/

/-- the generated `pad_limbs` of the `uint!` macro is the model's `padLimbs`. -/
theorem pad_limbs_eq (bits : ℕ) (hB : bits + 63 < 2 ^ 64) (limbs : List ℕ) (f : ℕ)
    (hf : limbs.length + nlimbs bits + 1 < f) :
    Ruint.Gen.macro_pad_limbs f bits limbs = Ruint.Macro.padLimbs bits limbs := by
  unfold Ruint.Gen.macro_pad_limbs Ruint.Macro.padLimbs
  simp only [num_limbs_eq bits hB, mask_expr_eq bits]
  rw [pop_loop_eq (nlimbs bits) f limbs (by omega), push_loop_eq (nlimbs bits) f _ (by omega)]
  simp only [Bool.or_eq_true, decide_eq_true_eq]

end Ruint.GenMacro
