import Ruint.Lemmas.FloatTo

/-! `(bits as fN) * exp2(exponent)` in closed form: cast, decode, exact scaling (or overflow). -/
namespace Ruint.Float

theorem bitLen_div_pow (v E : ℕ) (h : E < bitLen v) : bitLen (v / 2 ^ E) = bitLen v - E := by
  have hv : 0 < v := by
    rcases Nat.eq_zero_or_pos v with h0 | h0
    · subst h0; simp [bitLen] at h
    · exact h0
  obtain ⟨b1, b2⟩ := bitLen_bounds hv
  have hE : 0 < 2 ^ E := by positivity
  apply bitLen_eq (by omega)
  · rw [Nat.le_div_iff_mul_le hE, ← pow_add]
    have : bitLen v - E - 1 + E = bitLen v - 1 := by omega
    rw [this]; exact b1
  · rw [Nat.div_lt_iff_lt_mul hE, ← pow_add]
    have : bitLen v - E + E = bitLen v := by omega
    rw [this]; exact b2

/-- the top-64-bits decomposition: `b` has `min (bitLen v) 64` bits and `bitLen b + E = bitLen v`. -/
theorem msbSpec_facts (v : ℕ) (hv : 0 < v) :
    0 < v / 2 ^ (bitLen v - 64) ∧ bitLen (v / 2 ^ (bitLen v - 64)) + (bitLen v - 64) = bitLen v
      ∧ bitLen (v / 2 ^ (bitLen v - 64)) ≤ 64 := by
  have hL := bitLen_pos hv
  have hlt : bitLen v - 64 < bitLen v := by omega
  have hbl := bitLen_div_pow v (bitLen v - 64) hlt
  refine ⟨?_, by omega, by omega⟩
  rcases Nat.eq_zero_or_pos (v / 2 ^ (bitLen v - 64)) with h0 | h0
  · rw [h0, bitLen_zero] at hbl; omega
  · exact h0

theorem decode_exp2Int (f : Fmt) (hf : f.Ok) (E : ℕ) (hE : E ≤ f.bias) :
    decode f (exp2Int f E) = .fin false (2 ^ f.mb) ((E : ℤ) - (f.mb : ℤ)) := by
  have hb := f.two_bias hf
  have hE2 := f.emaxB_eq hf
  unfold exp2Int
  rw [if_pos hE]
  have := decode_normal f hf (E + f.bias) 0 (by omega) (by omega) (by positivity)
  simp only [Nat.add_zero] at this
  rw [this, f.qmin_eq]
  congr 1
  omega

/-- `(b as fN) * exp2(E)` in closed form. -/
theorem toFloatOf_closed (f : Fmt) (hw : f.Wide) (b E : ℕ) (hb : 0 < b) (hb64 : bitLen b ≤ 64) :
    toFloatOf f (b, E) = min f.infBits ((bitLen b + E + f.bias - 2) * 2 ^ f.mb + mant f b) := by
  obtain ⟨hf, hp, hbias⟩ := hw
  have hb1 := (f.two_bias hf).2
  have hL := bitLen_pos hb
  obtain ⟨m1, m2⟩ := mant_bounds f b hb
  have hinf := f.infBits_eq hf
  have hpp : 2 ^ (f.mb + 1) = 2 * 2 ^ f.mb := by ring
  have hp0 : 0 < 2 ^ f.mb := by positivity
  -- the cast
  have hcast : ofNat f b = (bitLen b + f.bias - 2) * 2 ^ f.mb + mant f b := by
    unfold ofNat rne sgn
    simp only [Bool.false_eq_true, if_false, Nat.zero_add]
    have := rneMag_nat f hf b 0 hb
    simp only [Nat.cast_zero, Nat.add_zero] at this
    rw [this, Nat.min_def, if_neg]
    rw [hinf, not_le]
    calc (bitLen b + f.bias - 2) * 2 ^ f.mb + mant f b
        ≤ (bitLen b + f.bias - 2) * 2 ^ f.mb + 2 * 2 ^ f.mb := by omega
      _ = (bitLen b + f.bias) * 2 ^ f.mb := by
          have : bitLen b + f.bias = (bitLen b + f.bias - 2) + 2 := by omega
          conv_rhs => rw [this, Nat.add_mul]
      _ < (2 * f.bias + 1) * 2 ^ f.mb := Nat.mul_lt_mul_of_pos_right (by omega) hp0
  have hlt : (bitLen b + f.bias - 2) * 2 ^ f.mb + mant f b < f.infBits := by
    rw [hinf]
    calc (bitLen b + f.bias - 2) * 2 ^ f.mb + mant f b
        ≤ (bitLen b + f.bias - 2) * 2 ^ f.mb + 2 * 2 ^ f.mb := by omega
      _ = (bitLen b + f.bias) * 2 ^ f.mb := by
          have : bitLen b + f.bias = (bitLen b + f.bias - 2) + 2 := by omega
          conv_rhs => rw [this, Nat.add_mul]
      _ < (2 * f.bias + 1) * 2 ^ f.mb := Nat.mul_lt_mul_of_pos_right (by omega) hp0
  unfold toFloatOf
  simp only
  rcases Nat.lt_or_ge f.bias E with hE | hE
  · -- exp2 overflowed to +inf
    have hx : exp2Int f E = f.infBits := by unfold exp2Int; rw [if_neg (by omega)]
    have hdi : decode f f.infBits = .inf false := by
      have hE2 := f.emaxB_eq hf
      have hT := (f.two_bias hf).1
      unfold decode Fmt.infBits
      have h1 : f.emaxB * 2 ^ f.mb % 2 ^ f.mb = 0 := Nat.mul_mod_left _ _
      have h2 : f.emaxB * 2 ^ f.mb / 2 ^ f.mb = f.emaxB := Nat.mul_div_cancel _ hp0
      have h3 : f.emaxB % 2 ^ f.eb = f.emaxB := Nat.mod_eq_of_lt (by omega)
      have h4 : f.emaxB * 2 ^ f.mb / 2 ^ (f.mb + f.eb) = 0 := by
        rw [pow_add, ← Nat.div_div_eq_div_mul, h2]; exact Nat.div_eq_of_lt (by omega)
      simp [h1, h2, h3, h4]
    rcases decode_assembled f hf (bitLen b + f.bias - 2) (mant f b) m1 m2 hlt with ⟨_, hd⟩ | ⟨_, hd⟩
    all_goals
      unfold mul
      rw [hcast, hd, hx, hdi]
      simp only
      have hne : ¬ (2 ^ f.mb = 0) := by positivity
      first
        | (rw [if_neg (by omega)]
           unfold inf sgn
           simp only [bne_self_eq_false, Bool.false_eq_true, if_false, Nat.zero_add]
           rw [Nat.min_def, if_pos]
           rw [hinf]
           have : 2 * f.bias ≤ bitLen b + E + f.bias - 2 := by omega
           calc (2 * f.bias + 1) * 2 ^ f.mb = 2 * f.bias * 2 ^ f.mb + 2 ^ f.mb := by ring
             _ ≤ (bitLen b + E + f.bias - 2) * 2 ^ f.mb + mant f b :=
                 Nat.add_le_add (Nat.mul_le_mul_right _ this) m1)
  · -- finite scale: exact multiplication
    have hde := decode_exp2Int f hf E hE
    rcases decode_assembled f hf (bitLen b + f.bias - 2) (mant f b) m1 m2 hlt with ⟨hM, hd⟩ | ⟨hM, hd⟩
    · unfold mul
      rw [hcast, hd, hde]
      simp only [bne_self_eq_false]
      unfold rne sgn
      simp only [Bool.false_eq_true, if_false, Nat.zero_add]
      have hbl : bitLen (mant f b) = f.mb + 1 + 0 := bitLen_eq (by omega) (by simpa using m1) (by simpa using hM)
      have key := rneMag_of_bits f (mant f b) f.mb 0 (f.qmin + ((bitLen b + f.bias - 2 : ℕ) : ℤ) + (E : ℤ)) hbl
        (by push_cast; omega)
      have e1 : f.qmin + ((bitLen b + f.bias - 2 : ℕ) : ℤ) + ((E : ℤ) - (f.mb : ℤ))
          = f.qmin + ((bitLen b + f.bias - 2 : ℕ) : ℤ) + (E : ℤ) - (f.mb : ℤ) := by ring
      rw [e1, key, rneShift_zero]
      have e2 : (f.qmin + ((bitLen b + f.bias - 2 : ℕ) : ℤ) + (E : ℤ) + ((0 : ℕ) : ℤ) - f.qmin).toNat
          = bitLen b + E + f.bias - 2 := by push_cast; omega
      rw [e2, Nat.min_def]
    · unfold mul
      rw [hcast, hd, hde]
      simp only [bne_self_eq_false]
      unfold rne sgn
      simp only [Bool.false_eq_true, if_false, Nat.zero_add]
      have hbl : bitLen (2 ^ f.mb) = f.mb + 1 + 0 := bitLen_eq (by omega) (by simp) (by rw [hpp]; omega)
      have key := rneMag_of_bits f (2 ^ f.mb) f.mb 0
        (f.qmin + ((bitLen b + f.bias - 2 : ℕ) : ℤ) + 1 + (E : ℤ)) hbl (by push_cast; omega)
      have e1 : f.qmin + ((bitLen b + f.bias - 2 : ℕ) : ℤ) + 1 + ((E : ℤ) - (f.mb : ℤ))
          = f.qmin + ((bitLen b + f.bias - 2 : ℕ) : ℤ) + 1 + (E : ℤ) - (f.mb : ℤ) := by ring
      rw [e1, key, rneShift_zero]
      have e2 : (f.qmin + ((bitLen b + f.bias - 2 : ℕ) : ℤ) + 1 + (E : ℤ) + ((0 : ℕ) : ℤ) - f.qmin).toNat
          = bitLen b + E + f.bias - 2 + 1 := by push_cast; omega
      rw [e2, Nat.min_def, hM]
      have e3 : (bitLen b + E + f.bias - 2 + 1) * 2 ^ f.mb + 2 ^ f.mb
          = (bitLen b + E + f.bias - 2) * 2 ^ f.mb + 2 ^ (f.mb + 1) := by rw [hpp]; ring
      rw [e3]

end Ruint.Float
