import Ruint.Lemmas.Basic
import Ruint.Lemmas.RsTactic
import Ruint.Lemmas.GenLehmer
import Ruint.Gen.WordsRedcLoops
import Ruint.Gen.RedcConsts
import Ruint.Model.Redc
import Mathlib.Tactic.Ring
import Mathlib.Tactic.Linarith

/-! `mul_redc` as GENERATED from `src/algorithms/mul_redc.rs` (both `for` loops, the indexed
    reads and writes of `result`, the threshold arm) equals the C11 model `Ruint.Redc.mulRedcCore`
    at base `2^64` with the generated threshold `keepMul`. -/
namespace Ruint.GenRedcLoops
open Ruint Ruint.Redc Ruint.GenLehmer

theorem cma_eq (l r a c : ℕ) :
    Ruint.Gen.carrying_mul_add l r a c = carryingMulAdd (2 ^ 64) l r a c := by
  unfold Ruint.Gen.carrying_mul_add carryingMulAdd
  rs_norm
  generalize l * r = p at *
  refine Prod.ext ?_ ?_ <;> simp only <;> omega

theorem cadd_eq (l r : ℕ) (c : Bool) :
    Ruint.Gen.carrying_add l r c = carryingAdd (2 ^ 64) l r c := by
  unfold Ruint.Gen.carrying_add carryingAdd
  cases c <;> rs_norm <;> simp

theorem step2_eq (N : ℕ) (a b md : List ℕ) (inv it1 bound c1 m c2 : ℕ) (res : List ℕ) (i : ℕ) :
    Ruint.Gen.mul_redc_step2 N a b md inv it1 bound (c1, m, c2, res, i) =
      if i < bound then
        (((Ruint.Gen.carrying_mul_add (a.getD i 0) (b.getD it1 0) (res.getD i 0) c1).2,
          (if i = 0 then Rs.wmul 64 (Ruint.Gen.carrying_mul_add (a.getD i 0) (b.getD it1 0) (res.getD i 0) c1).1 inv else m),
          (Ruint.Gen.carrying_mul_add (md.getD i 0)
            (if i = 0 then Rs.wmul 64 (Ruint.Gen.carrying_mul_add (a.getD i 0) (b.getD it1 0) (res.getD i 0) c1).1 inv else m)
            (Ruint.Gen.carrying_mul_add (a.getD i 0) (b.getD it1 0) (res.getD i 0) c1).1 c2).2,
          (if 0 < i then res.set (Rs.wsub 64 i 1)
            (Ruint.Gen.carrying_mul_add (md.getD i 0)
              (if i = 0 then Rs.wmul 64 (Ruint.Gen.carrying_mul_add (a.getD i 0) (b.getD it1 0) (res.getD i 0) c1).1 inv else m)
              (Ruint.Gen.carrying_mul_add (a.getD i 0) (b.getD it1 0) (res.getD i 0) c1).1 c2).1 else res),
          Rs.wadd 64 i 1), true)
      else ((c1, m, c2, res, i), false) := by
  unfold Ruint.Gen.mul_redc_step2
  simp only [decide_eq_true_eq, beq_iff_eq, gt_iff_lt]

theorem mulInner_cons (B b m a mo r c1 c2 : ℕ) (as ms rs : List ℕ) :
    mulInner B b m (a :: as) (mo :: ms) (r :: rs) c1 c2 =
      ((carryingMulAdd B mo m (carryingMulAdd B a b r c1).1 c2).1 ::
        (mulInner B b m as ms rs (carryingMulAdd B a b r c1).2 (carryingMulAdd B mo m (carryingMulAdd B a b r c1).1 c2).2).1,
       (mulInner B b m as ms rs (carryingMulAdd B a b r c1).2 (carryingMulAdd B mo m (carryingMulAdd B a b r c1).1 c2).2).2.1,
       (mulInner B b m as ms rs (carryingMulAdd B a b r c1).2 (carryingMulAdd B mo m (carryingMulAdd B a b r c1).1 c2).2).2.2) := by
  rw [mulInner]

theorem inner_loop_eq (N : ℕ) (b : List ℕ) (inv it1 m : ℕ) (hN : N < 2 ^ 64) :
    ∀ (as ms rs aP mP p : List ℕ) (x c1 c2 f : ℕ),
      as.length = ms.length → as.length = rs.length → aP.length = mP.length → aP.length = p.length + 1 →
      aP.length + as.length = N → as.length < f →
      ∃ y, Rs.loop (Ruint.Gen.mul_redc_step2 N (aP ++ as) b (mP ++ ms) inv it1 N) f
            (c1, m, c2, p ++ x :: rs, aP.length)
          = ((mulInner (2 ^ 64) (b.getD it1 0) m as ms rs c1 c2).2.1, m,
             (mulInner (2 ^ 64) (b.getD it1 0) m as ms rs c1 c2).2.2,
             p ++ (mulInner (2 ^ 64) (b.getD it1 0) m as ms rs c1 c2).1 ++ [y], N) := by
  intro as
  induction as with
  | nil =>
    intro ms rs aP mP p x c1 c2 f h1 h2 h3 h4 h5 h6
    cases ms with
    | cons _ _ => simp at h1
    | nil =>
    cases rs with
    | cons _ _ => simp at h2
    | nil =>
      obtain ⟨f, rfl⟩ : ∃ g, f = g + 1 := ⟨f - 1, by simp at h6; omega⟩
      simp only [List.length_nil, Nat.add_zero] at h5
      refine ⟨x, ?_⟩
      rw [loop_succ, step2_eq]
      simp [h5, mulInner]
  | cons a as ih =>
    intro ms rs aP mP p x c1 c2 f h1 h2 h3 h4 h5 h6
    cases ms with
    | nil => simp at h1
    | cons mo ms =>
    cases rs with
    | nil => simp at h2
    | cons r rs =>
      obtain ⟨f, rfl⟩ : ∃ g, f = g + 1 := ⟨f - 1, by simp at h6; omega⟩
      simp only [List.length_cons] at h1 h2 h5 h6
      have hi : aP.length < N := by omega
      have hi0 : aP.length ≠ 0 := by omega
      have hi1 : 0 < aP.length := by omega
      have g1 : (aP ++ a :: as).getD aP.length 0 = a := by simp
      have g2 : (mP ++ mo :: ms).getD aP.length 0 = mo := by rw [h3]; simp
      have g3 : (p ++ x :: r :: rs).getD aP.length 0 = r := by
        rw [h4, List.getD_eq_getElem?_getD, List.getElem?_append_right (by omega)]; simp
      have g4 : Rs.wsub 64 aP.length 1 = p.length := by unfold Rs.wsub; omega
      have g5 : ∀ y, (p ++ x :: r :: rs).set p.length y = (p ++ [y]) ++ r :: rs := by intro y; simp
      have g6 : Rs.wadd 64 aP.length 1 = (aP ++ [a]).length := by
        unfold Rs.wadd; rw [Nat.mod_eq_of_lt (by omega)]; simp
      rw [loop_succ, step2_eq]
      simp only [hi, hi0, hi1, if_true, if_false, g1, g2, g3, g4, g5, cma_eq, mulInner_cons]
      rw [g6]
      obtain ⟨y, hy⟩ := ih ms rs (aP ++ [a]) (mP ++ [mo])
        (p ++ [(carryingMulAdd (2 ^ 64) mo m (carryingMulAdd (2 ^ 64) a (b.getD it1 0) r c1).1 c2).1]) r
        (carryingMulAdd (2 ^ 64) a (b.getD it1 0) r c1).2
        (carryingMulAdd (2 ^ 64) mo m (carryingMulAdd (2 ^ 64) a (b.getD it1 0) r c1).1 c2).2 f
        (by omega) (by omega) (by simp [h3]) (by simp [h4]) (by simp; omega) (by omega)
      refine ⟨y, ?_⟩
      simp only [List.append_assoc, List.singleton_append] at hy ⊢
      rw [hy]

theorem mulInner_length (B b m : ℕ) : ∀ (as ms rs : List ℕ) (c1 c2 : ℕ),
    as.length = ms.length → as.length = rs.length → (mulInner B b m as ms rs c1 c2).1.length = as.length := by
  intro as
  induction as with
  | nil => intro ms rs c1 c2 _ _; simp [mulInner]
  | cons a as ih =>
    intro ms rs c1 c2 h1 h2
    cases ms with
    | nil => simp at h1
    | cons mo ms =>
    cases rs with
    | nil => simp at h2
    | cons r rs =>
      simp only [List.length_cons] at h1 h2
      rw [mulInner_cons]
      simp only [List.length_cons]
      rw [ih ms rs _ _ (by omega) (by omega)]

theorem step1_eq (fuel N : ℕ) (a b md : List ℕ) (inv bound : ℕ) (res : List ℕ) (carry : Bool) (it1 : ℕ) :
    Ruint.Gen.mul_redc_step1 fuel N a b md inv bound (res, carry, it1) =
      if it1 < bound then
        (((Rs.loop (Ruint.Gen.mul_redc_step2 N a b md inv it1 N) fuel (0, 0, 0, res, 0)).2.2.2.1.set (Rs.wsub 64 N 1)
            (Ruint.Gen.carrying_add (Rs.loop (Ruint.Gen.mul_redc_step2 N a b md inv it1 N) fuel (0, 0, 0, res, 0)).1
              (Rs.loop (Ruint.Gen.mul_redc_step2 N a b md inv it1 N) fuel (0, 0, 0, res, 0)).2.2.1 carry).1,
          (if 9223372036854775807 ≤ md.getD (Rs.wsub 64 N 1) 0 then
            (Ruint.Gen.carrying_add (Rs.loop (Ruint.Gen.mul_redc_step2 N a b md inv it1 N) fuel (0, 0, 0, res, 0)).1
              (Rs.loop (Ruint.Gen.mul_redc_step2 N a b md inv it1 N) fuel (0, 0, 0, res, 0)).2.2.1 carry).2
           else carry),
          Rs.wadd 64 it1 1), true)
      else ((res, carry, it1), false) := by
  unfold Ruint.Gen.mul_redc_step1
  simp only [decide_eq_true_eq, ge_iff_le]

/-- one full pass of the inner loop, started as the source starts it -/
theorem inner_full (N : ℕ) (b : List ℕ) (inv it1 : ℕ) (hN : N < 2 ^ 64) (a0 m0 r0 : ℕ) (as ms rs : List ℕ)
    (h1 : as.length = ms.length) (h2 : as.length = rs.length) (h5 : as.length + 1 = N) (f : ℕ) (hf : N < f) :
    ∃ y, Rs.loop (Ruint.Gen.mul_redc_step2 N (a0 :: as) b (m0 :: ms) inv it1 N) f (0, 0, 0, r0 :: rs, 0)
      = ((mulInner (2 ^ 64) (b.getD it1 0) (((carryingMulAdd (2 ^ 64) a0 (b.getD it1 0) r0 0).1 * inv) % 2 ^ 64) as ms rs
            (carryingMulAdd (2 ^ 64) a0 (b.getD it1 0) r0 0).2
            (carryingMulAdd (2 ^ 64) m0 (((carryingMulAdd (2 ^ 64) a0 (b.getD it1 0) r0 0).1 * inv) % 2 ^ 64)
              (carryingMulAdd (2 ^ 64) a0 (b.getD it1 0) r0 0).1 0).2).2.1,
         ((carryingMulAdd (2 ^ 64) a0 (b.getD it1 0) r0 0).1 * inv) % 2 ^ 64,
         (mulInner (2 ^ 64) (b.getD it1 0) (((carryingMulAdd (2 ^ 64) a0 (b.getD it1 0) r0 0).1 * inv) % 2 ^ 64) as ms rs
            (carryingMulAdd (2 ^ 64) a0 (b.getD it1 0) r0 0).2
            (carryingMulAdd (2 ^ 64) m0 (((carryingMulAdd (2 ^ 64) a0 (b.getD it1 0) r0 0).1 * inv) % 2 ^ 64)
              (carryingMulAdd (2 ^ 64) a0 (b.getD it1 0) r0 0).1 0).2).2.2,
         (mulInner (2 ^ 64) (b.getD it1 0) (((carryingMulAdd (2 ^ 64) a0 (b.getD it1 0) r0 0).1 * inv) % 2 ^ 64) as ms rs
            (carryingMulAdd (2 ^ 64) a0 (b.getD it1 0) r0 0).2
            (carryingMulAdd (2 ^ 64) m0 (((carryingMulAdd (2 ^ 64) a0 (b.getD it1 0) r0 0).1 * inv) % 2 ^ 64)
              (carryingMulAdd (2 ^ 64) a0 (b.getD it1 0) r0 0).1 0).2).1 ++ [y], N) := by
  obtain ⟨f, rfl⟩ : ∃ g, f = g + 1 := ⟨f - 1, by omega⟩
  have hN0 : 0 < N := by omega
  rw [loop_succ, step2_eq]
  have g6 : Rs.wadd 64 0 1 = [a0].length := by unfold Rs.wadd; simp
  simp only [hN0, if_true, lt_irrefl, if_false, List.getD_cons_zero, cma_eq, Rs.wmul]
  rw [g6]
  obtain ⟨y, hy⟩ := inner_loop_eq N b inv it1 (((carryingMulAdd (2 ^ 64) a0 (b.getD it1 0) r0 0).1 * inv) % 2 ^ 64) hN
    as ms rs [a0] [m0] [] r0 (carryingMulAdd (2 ^ 64) a0 (b.getD it1 0) r0 0).2
    (carryingMulAdd (2 ^ 64) m0 (((carryingMulAdd (2 ^ 64) a0 (b.getD it1 0) r0 0).1 * inv) % 2 ^ 64)
      (carryingMulAdd (2 ^ 64) a0 (b.getD it1 0) r0 0).1 0).2 f h1 h2 rfl rfl (by simp; omega) (by omega)
  refine ⟨y, ?_⟩
  simp only [List.singleton_append, List.nil_append] at hy
  rw [hy]

theorem getD_last (m0 : ℕ) (ms : List ℕ) : (m0 :: ms).getD ms.length 0 = (m0 :: ms).getLastD 0 := by
  induction ms generalizing m0 with
  | nil => simp
  | cons x xs ih => simpa using ih x

theorem set_last (l : List ℕ) (y t : ℕ) : (l ++ [y]).set l.length t = l ++ [t] := by simp

open Ruint.Gen.RedcConsts in
/-- one iteration of `for b in b` as generated = `mulOuter` of the model (result and carry) -/
theorem outer_iter (fuel N : ℕ) (b : List ℕ) (inv it1 bound : ℕ) (hN : N < 2 ^ 64) (hf : N < fuel) (hlt : it1 < bound)
    (a0 m0 r0 : ℕ) (as ms rs : List ℕ) (carry : Bool)
    (h1 : as.length = ms.length) (h2 : as.length = rs.length) (h5 : as.length + 1 = N) :
    ∃ res' carry', Ruint.Gen.mul_redc_step1 fuel N (a0 :: as) b (m0 :: ms) inv bound (r0 :: rs, carry, it1)
        = ((res', carry', Rs.wadd 64 it1 1), true)
      ∧ res'.length = N
      ∧ ∀ ok, (mulOuter (2 ^ 64) inv (keepMul ((m0 :: ms).getLastD 0)) (b.getD it1 0) (a0 :: as) (m0 :: ms)
                ⟨r0 :: rs, carry, ok⟩).res = res'
            ∧ (mulOuter (2 ^ 64) inv (keepMul ((m0 :: ms).getLastD 0)) (b.getD it1 0) (a0 :: as) (m0 :: ms)
                ⟨r0 :: rs, carry, ok⟩).carry = carry' := by
  obtain ⟨y, hy⟩ := inner_full N b inv it1 hN a0 m0 r0 as ms rs h1 h2 h5 fuel hf
  have hN1 : Rs.wsub 64 N 1 = ms.length := by unfold Rs.wsub; omega
  rw [step1_eq]
  simp only [hlt, if_true, hy, hN1, cadd_eq, getD_last]
  refine ⟨_, _, rfl, ?_, ?_⟩
  · simp [mulInner_length _ _ _ as ms rs _ _ h1 h2, h5]
  · intro ok
    have hlen := mulInner_length (2 ^ 64) (b.getD it1 0) (((carryingMulAdd (2 ^ 64) a0 (b.getD it1 0) r0 0).1 * inv) % 2 ^ 64)
      as ms rs (carryingMulAdd (2 ^ 64) a0 (b.getD it1 0) r0 0).2
            (carryingMulAdd (2 ^ 64) m0 (((carryingMulAdd (2 ^ 64) a0 (b.getD it1 0) r0 0).1 * inv) % 2 ^ 64)
              (carryingMulAdd (2 ^ 64) a0 (b.getD it1 0) r0 0).1 0).2 h1 h2
    rw [← h1, ← hlen, set_last]
    generalize (m0 :: ms).getLastD 0 = top
    unfold mulOuter keepMul T_mul
    dsimp only
    by_cases hk : 9223372036854775807 ≤ top
    · simp only [hk, ge_iff_le, decide_true, if_true, and_self]
    · simp only [hk, ge_iff_le, decide_false, if_false, Bool.false_eq_true, and_self]

theorem bsub_eq (l r : ℕ) (c : Bool) :
    Ruint.Gen.borrowing_sub l r c = borrowingSub (2 ^ 64) l r c := by
  unfold Ruint.Gen.borrowing_sub borrowingSub
  cases c <;> rs_norm <;> simp

theorem sub_step_eq (N : ℕ) (lhs rhs : List ℕ) (bound : ℕ) (res : List ℕ) (bw : Bool) (i : ℕ) :
    Ruint.Gen.redc_sub_step1 N lhs rhs bound (res, bw, i) =
      if i < bound then
        ((res.set i (Ruint.Gen.borrowing_sub (lhs.getD i 0) (rhs.getD i 0) bw).1,
          (Ruint.Gen.borrowing_sub (lhs.getD i 0) (rhs.getD i 0) bw).2, Rs.wadd 64 i 1), true)
      else ((res, bw, i), false) := by
  unfold Ruint.Gen.redc_sub_step1
  simp only [decide_eq_true_eq]

theorem sub_cons (B l r : ℕ) (ls rs : List ℕ) (bw : Bool) :
    sub B (l :: ls) (r :: rs) bw =
      ((borrowingSub B l r bw).1 :: (sub B ls rs (borrowingSub B l r bw).2).1,
       (sub B ls rs (borrowingSub B l r bw).2).2) := by
  rw [sub]

theorem sub_loop_eq (N : ℕ) (hN : N < 2 ^ 64) :
    ∀ (ls rs zs lP rP p : List ℕ) (bw : Bool) (f : ℕ),
      ls.length = rs.length → ls.length = zs.length → p.length = lP.length → p.length = rP.length →
      p.length + ls.length = N → ls.length < f →
      Rs.loop (Ruint.Gen.redc_sub_step1 N (lP ++ ls) (rP ++ rs) N) f (p ++ zs, bw, p.length)
        = (p ++ (sub (2 ^ 64) ls rs bw).1, (sub (2 ^ 64) ls rs bw).2, N) := by
  intro ls
  induction ls with
  | nil =>
    intro rs zs lP rP p bw f h1 h2 _ _ h5 h6
    cases rs with
    | cons _ _ => simp at h1
    | nil =>
    cases zs with
    | cons _ _ => simp at h2
    | nil =>
      obtain ⟨f, rfl⟩ : ∃ g, f = g + 1 := ⟨f - 1, by simp at h6; omega⟩
      simp only [List.length_nil, Nat.add_zero] at h5
      rw [loop_succ, sub_step_eq]
      simp [h5, sub]
  | cons l ls ih =>
    intro rs zs lP rP p bw f h1 h2 h3 h4 h5 h6
    cases rs with
    | nil => simp at h1
    | cons r rs =>
    cases zs with
    | nil => simp at h2
    | cons z zs =>
      obtain ⟨f, rfl⟩ : ∃ g, f = g + 1 := ⟨f - 1, by simp at h6; omega⟩
      simp only [List.length_cons] at h1 h2 h5 h6
      have hi : p.length < N := by omega
      have g1 : (lP ++ l :: ls).getD p.length 0 = l := by rw [h3]; simp
      have g2 : (rP ++ r :: rs).getD p.length 0 = r := by rw [h4]; simp
      have g5 : ∀ y, (p ++ z :: zs).set p.length y = (p ++ [y]) ++ zs := by intro y; simp
      have g6 : ∀ y : ℕ, Rs.wadd 64 p.length 1 = (p ++ [y]).length := by
        intro y; unfold Rs.wadd; rw [Nat.mod_eq_of_lt (by omega)]; simp
      rw [loop_succ, sub_step_eq]
      simp only [hi, if_true, g1, g2, g5, bsub_eq, sub_cons]
      rw [g6 (borrowingSub (2 ^ 64) l r bw).1]
      have := ih rs zs (lP ++ [l]) (rP ++ [r]) (p ++ [(borrowingSub (2 ^ 64) l r bw).1])
        (borrowingSub (2 ^ 64) l r bw).2 f (by omega) (by omega) (by simp [h3]) (by simp [h4]) (by simp; omega) (by omega)
      simp only [List.append_assoc, List.singleton_append] at this ⊢
      rw [this]

/-- `sub` of `mul_redc.rs` as generated (the `zip` loop) = the model's `sub`, operands of `N` limbs -/
theorem redc_sub_eq (l r : List ℕ) (hlr : l.length = r.length) (hN : l.length < 2 ^ 64) (f : ℕ) (hf : l.length < f) :
    Ruint.Gen.redc_sub f l.length l r = sub (2 ^ 64) l r false := by
  have := sub_loop_eq l.length hN l r (List.replicate l.length 0) [] [] [] false f hlr (by simp) rfl rfl (by simp) hf
  simp only [List.nil_append, List.length_nil] at this
  unfold Ruint.Gen.redc_sub
  simp only [List.length_replicate, ← hlr, Nat.min_self, this]

/-- `reduce1_carry` as generated = the model's -/
theorem reduce1_carry_eq (v md : List ℕ) (c : Bool) (hl : v.length = md.length) (hN : v.length < 2 ^ 64)
    (f : ℕ) (hf : v.length < f) :
    Ruint.Gen.reduce1_carry f v.length v md c = reduce1Carry (2 ^ 64) v md c := by
  unfold Ruint.Gen.reduce1_carry reduce1Carry
  rw [redc_sub_eq v md hl hN f hf]

open Ruint.Gen.RedcConsts in
theorem outer_loop_eq (fuel N inv : ℕ) (hN : N < 2 ^ 64) (hf : N < fuel) (a0 m0 : ℕ) (as ms : List ℕ)
    (h1 : as.length = ms.length) (h5 : as.length + 1 = N) :
    ∀ (bs bP res : List ℕ) (carry ok : Bool) (f : ℕ),
      res.length = N → bP.length + bs.length < 2 ^ 64 → bs.length < f →
      Rs.loop (Ruint.Gen.mul_redc_step1 fuel N (a0 :: as) (bP ++ bs) (m0 :: ms) inv (bP ++ bs).length) f
          (res, carry, bP.length)
        = ((mulLoop (2 ^ 64) inv (keepMul ((m0 :: ms).getLastD 0)) (a0 :: as) (m0 :: ms) bs ⟨res, carry, ok⟩).res,
           (mulLoop (2 ^ 64) inv (keepMul ((m0 :: ms).getLastD 0)) (a0 :: as) (m0 :: ms) bs ⟨res, carry, ok⟩).carry,
           (bP ++ bs).length)
        ∧ (mulLoop (2 ^ 64) inv (keepMul ((m0 :: ms).getLastD 0)) (a0 :: as) (m0 :: ms) bs ⟨res, carry, ok⟩).res.length = N := by
  intro bs
  induction bs with
  | nil =>
    intro bP res carry ok f hres _ hfl
    obtain ⟨f, rfl⟩ : ∃ g, f = g + 1 := ⟨f - 1, by simp at hfl; omega⟩
    rw [loop_succ, step1_eq]
    simp [mulLoop, hres]
  | cons bv bs ih =>
    intro bP res carry ok f hres hb64 hfl
    obtain ⟨f, rfl⟩ : ∃ g, f = g + 1 := ⟨f - 1, by simp at hfl; omega⟩
    simp only [List.length_cons] at hb64 hfl
    cases res with
    | nil => simp at hres; omega
    | cons r0 rs =>
      simp only [List.length_cons] at hres
      have hlt : bP.length < (bP ++ bv :: bs).length := by simp
      obtain ⟨res', carry', hstep, hlen, hmod⟩ := outer_iter fuel N (bP ++ bv :: bs) inv bP.length
        (bP ++ bv :: bs).length hN hf hlt a0 m0 r0 as ms rs carry h1 (by omega) h5
      have hbv : (bP ++ bv :: bs).getD bP.length 0 = bv := by simp
      rw [hbv] at hmod
      have g6 : Rs.wadd 64 bP.length 1 = (bP ++ [bv]).length := by
        unfold Rs.wadd; rw [Nat.mod_eq_of_lt (by omega)]; simp
      rw [loop_succ, hstep]
      simp only [if_true]
      rw [g6]
      have e : bP ++ bv :: bs = (bP ++ [bv]) ++ bs := by simp
      have := ih (bP ++ [bv]) res' carry'
        (mulOuter (2 ^ 64) inv (keepMul ((m0 :: ms).getLastD 0)) bv (a0 :: as) (m0 :: ms) ⟨r0 :: rs, carry, ok⟩).ok f
        hlen (by simp; omega) (by omega)
      rw [e, this.1]
      have hs : mulOuter (2 ^ 64) inv (keepMul ((m0 :: ms).getLastD 0)) bv (a0 :: as) (m0 :: ms) ⟨r0 :: rs, carry, ok⟩
          = ⟨res', carry', (mulOuter (2 ^ 64) inv (keepMul ((m0 :: ms).getLastD 0)) bv (a0 :: as) (m0 :: ms)
              ⟨r0 :: rs, carry, ok⟩).ok⟩ := by
        rw [← (hmod ok).1, ← (hmod ok).2]
      rw [mulLoop, hs]
      exact ⟨rfl, this.2⟩

open Ruint.Gen.RedcConsts in
/-- **`mul_redc` as generated from the source** equals the C11 model (result component) for every `N ≥ 1` and all
    operands of `N` limbs. (`reduce1_carry` is taken from the model: see the translator's `externs`.) -/
theorem mul_redc_eq (a b md : List ℕ) (inv : ℕ) (hN : 0 < md.length) (hN64 : md.length < 2 ^ 64)
    (ha : a.length = md.length) (hb : b.length = md.length) (fuel : ℕ) (hf : md.length < fuel) :
    Ruint.Gen.mul_redc fuel md.length a b md inv = (mulRedcCore (2 ^ 64) keepMul inv a b md).1 := by
  cases a with
  | nil => simp at ha; omega
  | cons a0 as =>
  cases hmd : md with
  | nil => simp [hmd] at hN
  | cons m0 ms =>
    rw [hmd] at ha hb hN64 hf
    simp only [List.length_cons] at ha hb hN64 hf
    have := outer_loop_eq fuel (ms.length + 1) inv hN64 hf a0 m0 as ms (by omega) (by omega) b []
      (List.replicate (ms.length + 1) 0) false
      (preOk (2 ^ 64) inv (a0 :: as) (m0 :: ms) && decide (valB (2 ^ 64) b < valB (2 ^ 64) (m0 :: ms))) fuel
      (by simp) (by simp; omega) (by omega)
    simp only [List.nil_append, List.length_nil] at this
    obtain ⟨hl, hlen⟩ := this
    unfold Ruint.Gen.mul_redc mulRedcCore
    simp only [List.length_cons, hl]
    have := reduce1_carry_eq _ (m0 :: ms) (mulLoop (2 ^ 64) inv (keepMul ((m0 :: ms).getLastD 0)) (a0 :: as) (m0 :: ms) b
      ⟨List.replicate (ms.length + 1) 0, false,
        preOk (2 ^ 64) inv (a0 :: as) (m0 :: ms) && decide (valB (2 ^ 64) b < valB (2 ^ 64) (m0 :: ms))⟩).carry
      (by rw [hlen]; simp) (by rw [hlen]; exact hN64) fuel (by rw [hlen]; exact hf)
    rw [hlen] at this
    exact this

end Ruint.GenRedcLoops
