import Ruint.Model.Facade
import Ruint.Lemmas.Basic
/-! C20 lemmas, part A: subtle's slice compare and big-endian limb scans. -/
namespace Ruint.Facade
open Ruint

theorem foldl_and_zip (a b : List ℕ) (acc : Bool) (h : a.length = b.length) :
    (a.zip b).foldl (fun x p => x && decide (p.1 = p.2)) acc = (acc && decide (a = b)) := by
  induction a generalizing b acc with
  | nil =>
    cases b with
    | nil => simp
    | cons y ys => simp at h
  | cons x xs ih =>
    cases b with
    | nil => simp at h
    | cons y ys =>
      simp only [List.length_cons, Nat.add_right_cancel_iff] at h
      simp only [List.zip_cons_cons, List.foldl_cons]
      rw [ih ys _ h]
      by_cases hxy : x = y <;> simp [hxy]

/-- `ct_eq` on the limb slices is list equality. -/
theorem ctEq_iff (a b : List ℕ) : ctEq a b = true ↔ a = b := by
  unfold ctEq
  by_cases h : a.length = b.length
  · rw [if_neg (by simpa using h), foldl_and_zip a b true h]; simp
  · rw [if_pos (by simpa using h)]
    constructor
    · intro hh; simp at hh
    · intro hh; subst hh; exact absurd rfl h

theorem scan_reverse {σ : Type} (f : σ → ℕ × ℕ → σ) (s : σ) (a b : List ℕ) (h : a.length = b.length) :
    (a.reverse.zip b.reverse).foldl f s = (a.zip b).foldr (fun p st => f st p) s := by
  rw [List.zip_eq_zipWith, List.zip_eq_zipWith, ← List.reverse_zipWith h, List.foldl_reverse]

/-- comparing `x + W·A` with `y + W·B` limb by limb. -/
theorem cons_lt_iff (x y A B : ℕ) (hx : x < W) (hy : y < W) :
    (x + W * A < y + W * B) ↔ (A < B ∨ (A = B ∧ x < y)) := by
  constructor
  · intro h
    rcases Nat.lt_trichotomy A B with h1 | h1 | h1
    · exact Or.inl h1
    · subst h1; exact Or.inr ⟨rfl, by omega⟩
    · exfalso
      have : W * (B + 1) ≤ W * A := Nat.mul_le_mul_left _ h1
      rw [Nat.mul_add] at this; omega
  · rintro (h | ⟨h1, h2⟩)
    · have : W * (A + 1) ≤ W * B := Nat.mul_le_mul_left _ h
      rw [Nat.mul_add] at this; omega
    · subst h1; omega

theorem cons_eq_iff (x y A B : ℕ) (hx : x < W) (hy : y < W) :
    (x + W * A = y + W * B) ↔ (A = B ∧ x = y) := by
  constructor
  · intro h
    have h1 := (cons_lt_iff x y A B hx hy).not
    have h2 := (cons_lt_iff y x B A hy hx).not
    have n1 : ¬ (x + W * A < y + W * B) := by omega
    have n2 : ¬ (y + W * B < x + W * A) := by omega
    have a1 := h1.mp n1
    have a2 := h2.mp n2
    push Not at a1 a2
    have hAB : A = B := by omega
    exact ⟨hAB, by subst hAB; have := a1.2 rfl; have := a2.2 rfl; omega⟩
  · rintro ⟨h1, h2⟩; subst h1; subst h2; rfl

/-- the big-endian scan keeps `(equal so far, greater so far)` = `(val = val, val > val)` of the limbs seen. -/
theorem gt_scan (a b : List ℕ) (h : a.length = b.length) (ha : AllLt a) (hb : AllLt b) :
    (a.zip b).foldr (fun p st => gtStep st p) (true, false)
      = (decide (val a = val b), decide (val b < val a)) := by
  induction a generalizing b with
  | nil =>
    cases b with
    | nil => simp
    | cons y ys => simp at h
  | cons x xs ih =>
    cases b with
    | nil => simp at h
    | cons y ys =>
      simp only [List.length_cons, Nat.add_right_cancel_iff] at h
      simp only [List.zip_cons_cons, List.foldr_cons]
      rw [ih ys h ha.tail hb.tail]
      simp only [gtStep, val_cons]
      have e1 := cons_eq_iff x y (val xs) (val ys) ha.head hb.head
      have e2 := cons_lt_iff y x (val ys) (val xs) hb.head ha.head
      congr 1
      · rw [Bool.and_eq_decide]; simp only [decide_eq_true_eq]; exact decide_eq_decide.mpr e1.symm
      · rw [← Bool.decide_and, ← Bool.decide_or]
        apply decide_eq_decide.mpr
        rw [e2]
        constructor
        · rintro (h1 | ⟨h1, h2⟩)
          · exact Or.inl h1
          · exact Or.inr ⟨h1.symm, h2⟩
        · rintro (h1 | ⟨h1, h2⟩)
          · exact Or.inl h1
          · exact Or.inr ⟨h1.symm, h2⟩

end Ruint.Facade
