import Ruint.Model.MulKernels
import Ruint.Lemmas.LimbB

/-! Chain lemmas for the limb kernels (generic base `B`): value equation + word bounds for
    `adc`, `sbb`, `adc_n`, `sbb_n`, `add_nx1`, `mul_nx1`, `addmul_nx1`, `submul_nx1`, and `cmp`.
    Re-homed from `notes/probes/{limb_chain_lemmas,submul_and_cmp}_probe.lean`. -/
namespace Ruint.Limb
open Ruint

/-- `x + P*c = total`, `x < P`  ⇒  `x = total % P`, `c = total / P`. -/
theorem carry_form (P x c total : ℕ) (hx : x < P) (h : x + P * c = total) :
    x = total % P ∧ c = total / P := by
  subst h
  have hP : 0 < P := by omega
  constructor
  · rw [Nat.add_mul_mod_self_left, Nat.mod_eq_of_lt hx]
  · rw [Nat.add_mul_div_left _ _ hP, Nat.div_eq_of_lt hx, Nat.zero_add]

/-- `x + sub = l + P*ret`, `x, l < P`  ⇒  `ret = ⌈(sub − l)/P⌉` (0 if `sub ≤ l`). -/
theorem borrow_form (P x l sub ret : ℕ) (hx : x < P) (hl : l < P)
    (h : x + sub = l + P * ret) : ret = (sub + P - 1 - l) / P ∧ x = l + P * ret - sub := by
  refine ⟨?_, by omega⟩
  have e : sub + P - 1 - l = (P - 1 - x) + P * ret := by omega
  rw [e, Nat.add_mul_div_left _ _ (by omega : 0 < P), Nat.div_eq_of_lt (by omega), Nat.zero_add]

theorem divmod_of (B q r : ℕ) (h : r < B) : (q * B + r) / B = q ∧ (q * B + r) % B = r := by
  have hB : 0 < B := by omega
  constructor
  · rw [Nat.add_comm, Nat.add_mul_div_right _ _ hB, Nat.div_eq_of_lt h, Nat.zero_add]
  · rw [Nat.add_comm, Nat.add_mul_mod_self_right, Nat.mod_eq_of_lt h]

/-! ### `adc` / `sbb` -/

theorem adc_spec (B l r c : ℕ) (hB : 0 < B) :
    (adc B l r c).1 + B * (adc B l r c).2 = l + r + c ∧ (adc B l r c).1 < B := by
  simp only [adc]
  exact ⟨Nat.mod_add_div _ _, Nat.mod_lt _ hB⟩

/-- `sbb` on words (any borrow word): `low + rhs + borrow = lhs + B·out`, `low` a word, `out ≤ 2`. -/
theorem sbb_spec (B l r c : ℕ) (hB : 2 ≤ B) (hl : l < B) (hr : r < B) (hc : c < B) :
    (sbb B l r c).1 + r + c = l + B * (sbb B l r c).2 ∧ (sbb B l r c).1 < B
    ∧ (sbb B l r c).2 ≤ 2 ∧ (sbb B l r c).2 < B ∧ (c ≤ 1 → (sbb B l r c).2 ≤ 1) := by
  obtain ⟨D, hD⟩ : ∃ D, D = B * B := ⟨_, rfl⟩
  have hD2 : 2 * B ≤ D := by rw [hD]; exact Nat.mul_le_mul_right B hB
  -- the u128 result
  have key : ∃ lo out, (sbb B l r c) = (lo, out) ∧ lo + r + c = l + B * out ∧ lo < B ∧ out ≤ 2
      ∧ (c ≤ 1 → out ≤ 1) := by
    simp only [sbb, ← hD]
    have hr1 : (l + D - r) % D = if r ≤ l then l - r else l + D - r := by
      split
      · have : l + D - r = (l - r) + D := by omega
        rw [this, Nat.add_mod_right, Nat.mod_eq_of_lt (by omega)]
      · exact Nat.mod_eq_of_lt (by omega)
    rw [hr1]
    by_cases hx : r + c ≤ l
    · -- no borrow
      have hr' : r ≤ l := by omega
      simp only [hr', if_true]
      have : l - r + D - c = (l - r - c) + D := by omega
      rw [this, Nat.add_mod_right, Nat.mod_eq_of_lt (by omega : l - r - c < D)]
      refine ⟨l - r - c, 0, ?_, by omega, by omega, by omega, by omega⟩
      rw [Nat.mod_eq_of_lt (by omega : l - r - c < B), Nat.div_eq_of_lt (by omega : l - r - c < B)]
      simp [Nat.mod_self]
    · -- borrow: result = D - d, d = r + c - l ∈ [1, 2B-2]
      obtain ⟨d, hd⟩ : ∃ d, d = r + c - l := ⟨_, rfl⟩
      have hres : ((if r ≤ l then l - r else l + D - r) + D - c) % D = D - d := by
        split
        · have : l - r + D - c = D - d := by omega
          rw [this]; exact Nat.mod_eq_of_lt (by omega)
        · have : l + D - r + D - c = (D - d) + D := by omega
          rw [this, Nat.add_mod_right]; exact Nat.mod_eq_of_lt (by omega)
      rw [hres]
      by_cases hdB : d ≤ B
      · -- out = 1
        have e : D - d = (B - 1) * B + (B - d) := by
          have : (B - 1) * B = D - B := by rw [hD, Nat.sub_mul, Nat.one_mul]
          omega
        by_cases hdd : d = B
        · have e' : D - d = (B - 1) * B + 0 := by rw [e, hdd]; simp
          obtain ⟨q1, q2⟩ := divmod_of B (B - 1) 0 (by omega)
          rw [e', q1, q2]
          refine ⟨0, 1, ?_, by omega, by omega, by omega, fun _ => le_refl _⟩
          have : B - (B - 1) = 1 := by omega
          rw [this, Nat.mod_eq_of_lt (by omega : 1 < B)]
        · obtain ⟨q1, q2⟩ := divmod_of B (B - 1) (B - d) (by omega)
          rw [e, q1, q2]
          refine ⟨B - d, 1, ?_, by omega, by omega, by omega, fun _ => le_refl _⟩
          have : B - (B - 1) = 1 := by omega
          rw [this, Nat.mod_eq_of_lt (by omega : 1 < B)]
      · -- out = 2 (needs B ≥ 3 since d ≤ 2B - 2)
        have hB3 : 3 ≤ B := by omega
        have e : D - d = (B - 2) * B + (2 * B - d) := by
          have : (B - 2) * B = D - 2 * B := by rw [hD, Nat.sub_mul]
          omega
        obtain ⟨q1, q2⟩ := divmod_of B (B - 2) (2 * B - d) (by omega)
        rw [e, q1, q2]
        refine ⟨2 * B - d, 2, ?_, by omega, by omega, by omega, fun h => by omega⟩
        have : B - (B - 2) = 2 := by omega
        rw [this, Nat.mod_eq_of_lt (by omega : 2 < B)]
  obtain ⟨lo, out, e, h1, h2, h3, h4⟩ := key
  rw [e]
  refine ⟨h1, h2, h3, ?_, h4⟩
  simp only
  rcases Nat.lt_or_ge 2 B with h | h
  · omega
  · have hB2 : B = 2 := by omega
    subst hB2
    omega

/-! ### `adc_n` / `sbb_n` -/

theorem adcN_none (B : ℕ) (as bs : List ℕ) (c : ℕ) :
    adcN B as bs c = none ↔ bs.length < as.length := by
  induction as generalizing bs c with
  | nil => simp [adcN]
  | cons a as ih =>
    cases bs with
    | nil => simp [adcN]
    | cons b bs =>
      simp only [adcN, List.length_cons, Nat.add_lt_add_iff_right]
      rw [← ih bs (adc B a b c).2]
      cases adcN B as bs (adc B a b c).2 <;> simp

theorem adcN_spec (B : ℕ) (hB : 0 < B) (as bs : List ℕ) (c : ℕ) (h : as.length ≤ bs.length) :
    ∃ r, adcN B as bs c = some r
      ∧ valB B r.1 + B ^ as.length * r.2 = valB B as + valB B (bs.take as.length) + c
      ∧ r.1.length = as.length ∧ AllLtB B r.1 := by
  induction as generalizing bs c with
  | nil => exact ⟨([], c), by simp [adcN], by simp, rfl, AllLtB.nil⟩
  | cons a as ih =>
    cases bs with
    | nil => simp at h
    | cons b bs =>
      simp only [List.length_cons, Nat.add_le_add_iff_right] at h
      obtain ⟨e1, e2⟩ := adc_spec B a b c hB
      obtain ⟨r, hr, i1, i2, i3⟩ := ih bs (adc B a b c).2 h
      refine ⟨((adc B a b c).1 :: r.1, r.2), by simp [adcN, hr], ?_, by simp [i2], AllLtB.cons e2 i3⟩
      simp only [valB_cons, List.length_cons, pow_succ, List.take_succ_cons]
      generalize adc B a b c = s at *
      generalize valB B (List.take as.length bs) = vb at *
      nlinarith [i1, e1]

theorem sbbN_none (B : ℕ) (as bs : List ℕ) (c : ℕ) :
    sbbN B as bs c = none ↔ bs.length < as.length := by
  induction as generalizing bs c with
  | nil => simp [sbbN]
  | cons a as ih =>
    cases bs with
    | nil => simp [sbbN]
    | cons b bs =>
      simp only [sbbN, List.length_cons, Nat.add_lt_add_iff_right]
      rw [← ih bs (sbb B a b c).2]
      cases sbbN B as bs (sbb B a b c).2 <;> simp

theorem sbbN_spec (B : ℕ) (hB : 2 ≤ B) (as bs : List ℕ) (c : ℕ) (h : as.length ≤ bs.length)
    (ha : AllLtB B as) (hb : AllLtB B (bs.take as.length)) (hc : c < B) :
    ∃ r, sbbN B as bs c = some r
      ∧ valB B r.1 + valB B (bs.take as.length) + c = valB B as + B ^ as.length * r.2
      ∧ r.1.length = as.length ∧ AllLtB B r.1 ∧ r.2 < B := by
  induction as generalizing bs c with
  | nil => exact ⟨([], c), by simp [sbbN], by simp, rfl, AllLtB.nil, hc⟩
  | cons a as ih =>
    cases bs with
    | nil => simp at h
    | cons b bs =>
      simp only [List.length_cons, Nat.add_le_add_iff_right] at h
      simp only [List.length_cons, List.take_succ_cons] at hb
      obtain ⟨e1, e2, _, e4, _⟩ := sbb_spec B a b c hB ha.head hb.head hc
      obtain ⟨r, hr, i1, i2, i3, i4⟩ := ih bs (sbb B a b c).2 h ha.tail hb.tail e4
      refine ⟨((sbb B a b c).1 :: r.1, r.2), by simp [sbbN, hr], ?_, by simp [i2], AllLtB.cons e2 i3, i4⟩
      simp only [valB_cons, List.length_cons, pow_succ, List.take_succ_cons]
      generalize sbb B a b c = s at *
      generalize valB B (List.take as.length bs) = vb at *
      nlinarith [i1, e1]

/-! ### `add_nx1`, `mul_nx1`, `addmul_nx1`, `submul_nx1` -/

theorem addNx1_spec (B : ℕ) (ls : List ℕ) (c : ℕ) :
    valB B (addNx1 B ls c).1 + B ^ ls.length * (addNx1 B ls c).2 = valB B ls + c
    ∧ (addNx1 B ls c).1.length = ls.length := by
  induction ls generalizing c with
  | nil => simp [addNx1]
  | cons l ls ih =>
    by_cases hc : c = 0
    · subst hc; simp [addNx1]
    · obtain ⟨i1, i2⟩ := ih ((l + c) / B)
      simp only [addNx1, hc, if_false, valB_cons, List.length_cons, pow_succ]
      refine ⟨?_, by simp [i2]⟩
      have e := Nat.div_add_mod (l + c) B
      generalize addNx1 B ls ((l + c) / B) = r at *
      nlinarith [i1, e]

theorem addNx1_lt (B : ℕ) (hB : 0 < B) (ls : List ℕ) (c : ℕ) (h : AllLtB B ls) :
    AllLtB B (addNx1 B ls c).1 := by
  induction ls generalizing c with
  | nil => simp [addNx1]; exact AllLtB.nil
  | cons l ls ih =>
    by_cases hc : c = 0
    · subst hc; simpa [addNx1] using h
    · simp only [addNx1, hc, if_false]
      exact AllLtB.cons (Nat.mod_lt _ hB) (ih _ h.tail)

theorem mulNx1Go_spec (B : ℕ) (hB : 0 < B) (xs : List ℕ) (a c : ℕ) :
    valB B (mulNx1Go B xs a c).1 + B ^ xs.length * (mulNx1Go B xs a c).2 = valB B xs * a + c
    ∧ (mulNx1Go B xs a c).1.length = xs.length ∧ AllLtB B (mulNx1Go B xs a c).1 := by
  induction xs generalizing c with
  | nil => simp [mulNx1Go]; exact AllLtB.nil
  | cons x xs ih =>
    obtain ⟨i1, i2, i3⟩ := ih ((x * a + c) / B)
    simp only [mulNx1Go, valB_cons, List.length_cons, pow_succ]
    refine ⟨?_, by simp [i2], AllLtB.cons (Nat.mod_lt _ hB) i3⟩
    have e := Nat.div_add_mod (x * a + c) B
    generalize mulNx1Go B xs a ((x * a + c) / B) = r at *
    nlinarith [i1, e]

theorem addmulNx1Go_spec (B : ℕ) (ls as : List ℕ) (b c : ℕ) (h : ls.length = as.length) :
    valB B (addmulNx1Go B ls as b c).1 + B ^ ls.length * (addmulNx1Go B ls as b c).2
      = valB B ls + valB B as * b + c ∧ (addmulNx1Go B ls as b c).1.length = ls.length := by
  induction ls generalizing as c with
  | nil => cases as <;> simp_all [addmulNx1Go]
  | cons l ls ih =>
    cases as with
    | nil => simp at h
    | cons a as =>
      simp only [List.length_cons, Nat.add_right_cancel_iff] at h
      obtain ⟨i1, i2⟩ := ih as ((a * b + c + l) / B) h
      simp only [addmulNx1Go, valB_cons, List.length_cons, pow_succ]
      refine ⟨?_, by simp [i2]⟩
      have e := Nat.div_add_mod (a * b + c + l) B
      generalize addmulNx1Go B ls as b ((a * b + c + l) / B) = r at *
      nlinarith [i1, e]

/-- truncated `addmul_nx1` (window shorter than `a`): exact accounting of what is dropped. -/
theorem addmulNx1Go_trunc (B : ℕ) (ls as : List ℕ) (b c : ℕ) (h : ls.length ≤ as.length) :
    valB B (addmulNx1Go B ls as b c).1
        + B ^ ls.length * ((addmulNx1Go B ls as b c).2 + valB B (as.drop ls.length) * b)
      = valB B ls + valB B as * b + c ∧ (addmulNx1Go B ls as b c).1.length = ls.length := by
  induction ls generalizing as c with
  | nil => simp [addmulNx1Go]; ring
  | cons l ls ih =>
    cases as with
    | nil => simp at h
    | cons a as =>
      simp only [List.length_cons, Nat.add_le_add_iff_right] at h
      obtain ⟨i1, i2⟩ := ih as ((a * b + c + l) / B) h
      simp only [addmulNx1Go, valB_cons, List.length_cons, pow_succ, List.drop_succ_cons]
      refine ⟨?_, by simp [i2]⟩
      have e := Nat.div_add_mod (a * b + c + l) B
      generalize addmulNx1Go B ls as b ((a * b + c + l) / B) = r at *
      generalize valB B (as.drop ls.length) = dr at *
      nlinarith [i1, e]

theorem addmulNx1Go_lt (B : ℕ) (hB : 0 < B) (ls as : List ℕ) (b c : ℕ) (h : AllLtB B ls) :
    AllLtB B (addmulNx1Go B ls as b c).1 := by
  induction ls generalizing as c with
  | nil => cases as <;> simp [addmulNx1Go] <;> exact AllLtB.nil
  | cons l ls ih =>
    cases as with
    | nil => simpa [addmulNx1Go] using h
    | cons a as =>
      simp only [addmulNx1Go]
      exact AllLtB.cons (Nat.mod_lt _ hB) (ih as _ h.tail)

/-- passing `a[..lhs.len()]` or all of `a` is the same: the loop stops with the window. -/
theorem addmulNx1Go_take (B : ℕ) (ls as : List ℕ) (b c : ℕ) :
    addmulNx1Go B ls (as.take ls.length) b c = addmulNx1Go B ls as b c := by
  induction ls generalizing as c with
  | nil => cases as <;> simp [addmulNx1Go]
  | cons l ls ih =>
    cases as with
    | nil => simp [addmulNx1Go]
    | cons a as => simp only [List.length_cons, List.take_succ_cons, addmulNx1Go, ih]

/-- carry of `addmul_nx1` is a word when the operands are words. -/
theorem addmulNx1Go_carry (B : ℕ) (ls as : List ℕ) (b c : ℕ) (h : ls.length = as.length)
    (hl : AllLtB B ls) (ha : AllLtB B as) (hb : b < B) (hc : c < B) :
    (addmulNx1Go B ls as b c).2 < B := by
  induction ls generalizing as c with
  | nil => cases as <;> simp_all [addmulNx1Go]
  | cons l ls ih =>
    cases as with
    | nil => simp at h
    | cons a as =>
      simp only [List.length_cons, Nat.add_right_cancel_iff] at h
      simp only [addmulNx1Go]
      apply ih as _ h hl.tail ha.tail
      have h1 := hl.head
      have h2 := ha.head
      apply Nat.div_lt_of_lt_mul
      have : a * b ≤ (B - 1) * (B - 1) := Nat.mul_le_mul (by omega) (by omega)
      have e : (B - 1) * (B - 1) + (B - 1) + (B - 1) + 1 = B * B := by
        obtain ⟨k, rfl⟩ : ∃ k, B = k + 1 := ⟨B - 1, by omega⟩
        simp only [Nat.add_sub_cancel]; ring
      omega

theorem mulNx1Go_carry (B : ℕ) (xs : List ℕ) (a c : ℕ)
    (hx : AllLtB B xs) (ha : a < B) (hc : c < B) : (mulNx1Go B xs a c).2 < B := by
  induction xs generalizing c with
  | nil => simpa [mulNx1Go] using hc
  | cons x xs ih =>
    simp only [mulNx1Go]
    apply ih _ hx.tail
    have h1 := hx.head
    apply Nat.div_lt_of_lt_mul
    have : x * a ≤ (B - 1) * (B - 1) := Nat.mul_le_mul (by omega) (by omega)
    have e : (B - 1) * (B - 1) + (B - 1) + (B - 1) + 1 = B * B := by
      obtain ⟨k, rfl⟩ : ∃ k, B = k + 1 := ⟨B - 1, by omega⟩
      simp only [Nat.add_sub_cancel]; ring
    omega

/-- `submul_nx1` chain: `lhs' + a·b + carry + borrow = lhs + B^n · ret`. -/
theorem submulNx1Go_spec (B : ℕ) (hB : 2 ≤ B) (ls as : List ℕ) (b carry borrow : ℕ)
    (h : ls.length = as.length) (hl : AllLtB B ls) (hbr : borrow < B) :
    valB B (submulNx1Go B ls as b carry borrow).1 + valB B as * b + carry + borrow
      = valB B ls + B ^ ls.length * (submulNx1Go B ls as b carry borrow).2
    ∧ (submulNx1Go B ls as b carry borrow).1.length = ls.length
    ∧ AllLtB B (submulNx1Go B ls as b carry borrow).1 := by
  have hB0 : 0 < B := by omega
  induction ls generalizing as carry borrow with
  | nil => cases as <;> simp_all [submulNx1Go, AllLtB] <;> omega
  | cons l ls ih =>
    cases as with
    | nil => simp at h
    | cons a as =>
      simp only [List.length_cons, Nat.add_right_cancel_iff] at h
      obtain ⟨s1, s2, _, s4, _⟩ := sbb_spec B l ((a * b + carry) % B) borrow hB hl.head
        (Nat.mod_lt _ hB0) hbr
      obtain ⟨i1, i2, i3⟩ := ih as ((a * b + carry) / B) (sbb B l ((a * b + carry) % B) borrow).2 h
        hl.tail s4
      simp only [submulNx1Go, valB_cons, List.length_cons, pow_succ]
      refine ⟨?_, by simp [i2], AllLtB.cons s2 i3⟩
      have e := Nat.div_add_mod (a * b + carry) B
      generalize sbb B l ((a * b + carry) % B) borrow = s at *
      generalize submulNx1Go B ls as b ((a * b + carry) / B) s.2 = r at *
      nlinarith [i1, s1, e]

/-! ### `cmp` -/

theorem cmpLimbs_spec (B : ℕ) (l r : List ℕ) (h : l.length = r.length) (hl : AllLtB B l)
    (hr : AllLtB B r) : cmpLimbs l r = compare (valB B l) (valB B r) := by
  induction l generalizing r with
  | nil => cases r <;> simp_all [cmpLimbs]
  | cons x xs ih =>
    cases r with
    | nil => simp at h
    | cons y ys =>
      simp only [List.length_cons, Nat.add_right_cancel_iff] at h
      have hx : x < B := hl.head
      have hy : y < B := hr.head
      have := ih ys h hl.tail hr.tail
      simp only [cmpLimbs, valB_cons]
      rw [this]
      rcases Nat.lt_trichotomy (valB B xs) (valB B ys) with hlt | heq | hgt
      · have : compare (valB B xs) (valB B ys) = .lt := Nat.compare_eq_lt.mpr hlt
        rw [this]
        symm; apply Nat.compare_eq_lt.mpr
        nlinarith
      · rw [heq]
        simp only [Nat.compare_eq_eq.mpr rfl]
        rcases Nat.lt_trichotomy x y with h1 | h1 | h1
        · rw [Nat.compare_eq_lt.mpr h1]; symm; apply Nat.compare_eq_lt.mpr; omega
        · rw [h1]; simp
        · rw [Nat.compare_eq_gt.mpr h1]; symm; apply Nat.compare_eq_gt.mpr; omega
      · have : compare (valB B xs) (valB B ys) = .gt := Nat.compare_eq_gt.mpr hgt
        rw [this]
        symm; apply Nat.compare_eq_gt.mpr
        nlinarith

/-- the zipped loop only sees the common prefix. -/
theorem cmpLimbs_take (l r : List ℕ) :
    cmpLimbs l r = cmpLimbs (l.take (min l.length r.length)) (r.take (min l.length r.length)) := by
  induction l generalizing r with
  | nil => simp [cmpLimbs]
  | cons x xs ih =>
    cases r with
    | nil => simp [cmpLimbs]
    | cons y ys =>
      simp only [List.length_cons, Nat.add_min_add_right, List.take_succ_cons, cmpLimbs]
      rw [← ih ys]

end Ruint.Limb
