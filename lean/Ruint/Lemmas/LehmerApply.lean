import Ruint.Model.Lehmer
import Mathlib.Tactic.Ring
import Mathlib.Tactic.Linarith
import Mathlib.Tactic.NormNum
import Mathlib.Tactic.Positivity
import Mathlib.Tactic.Push
import Mathlib.Tactic.Zify
import Mathlib.Tactic.LinearCombination
import Mathlib.Data.Int.GCD
import Mathlib.Data.Int.ModEq
import Mathlib.Data.Nat.GCD.Basic
/-!
# `Matrix::apply` is exact on a matrix meeting the Lehmer contract

`good a b m` (the decidable non-identity contract of `Ruint.Model.Lehmer`) implies that the wrapping
`Uint` computation of `apply` never panics and returns the true integer image `(c, d) = m·(a, b)`, that
`0 ≤ d < c`, `d < b`, `c ≤ a`, and that `gcd c d = gcd a b` (the matrix is unimodular: the inverse relations
`a = m3·c + m1·d`, `b = m2·c + m0·d` hold).

Re-homed from the design probe `notes/probes/lehmer_prefix_matrix_full_proof.lean` (`apply_progress`).
-/
namespace Ruint.Lehmer
open Ruint

/-- unfolding of the Bool contract into Props -/
theorem good_iff (a b : ℕ) (m : Mat) : good a b m = true ↔
    ((m.1 : ℤ) * m.2.2.2.1 - m.2.1 * m.2.2.1 = sgn m.2.2.2.2 ∧ m.1 ≤ m.2.2.1 ∧ m.2.1 ≤ m.2.2.2.1 ∧ 1 ≤ m.2.2.1
      ∧ 0 ≤ (applyZ m a b).2 ∧ (applyZ m a b).2 < (applyZ m a b).1 ∧ (applyZ m a b).2 < (b : ℤ)) := by
  unfold good
  simp only [Bool.and_eq_true, decide_eq_true_eq, and_assoc]

/-- `applyZ` in sign-uniform form: `(c, d) = s·(m0·x − m1·y, m3·y − m2·x)` with `s = sgn m.4`. -/
theorem applyZ_eq_sgn (m : Mat) (x y : ℤ) :
    applyZ m x y = (sgn m.2.2.2.2 * ((m.1 : ℤ) * x - m.2.1 * y), sgn m.2.2.2.2 * ((m.2.2.2.1 : ℤ) * y - m.2.2.1 * x)) := by
  obtain ⟨m0, m1, m2, m3, ev⟩ := m
  cases ev
  · simp only [applyZ, sgn, Bool.false_eq_true, if_false]
    refine Prod.ext ?_ ?_ <;> (dsimp only; ring)
  · simp only [applyZ, sgn, if_true]
    refine Prod.ext ?_ ?_ <;> (dsimp only; ring)

theorem sgn_mul_self (e : Bool) : sgn e * sgn e = 1 := by cases e <;> simp [sgn]

/-- the arithmetic heart (sign-uniform): a matrix with determinant `s = ±1` and non-decreasing rows
    whose integer image `(C, D)` of `(a, b)`, `b ≤ a`, satisfies `0 ≤ D < C`, `D < b`. -/
theorem unimodular_facts (a b m0 m1 m2 m3 : ℕ) (s C D : ℤ) (hss : s * s = 1)
    (hdet : (m0 : ℤ) * m3 - m1 * m2 = s)
    (hC : C = s * ((m0 : ℤ) * a - m1 * b)) (hD : D = s * ((m3 : ℤ) * b - m2 * a))
    (h02 : m0 ≤ m2) (h13 : m1 ≤ m3)
    (hD0 : 0 ≤ D) (hDC : D < C) (hDb : D < (b : ℤ)) (hba : b ≤ a) :
    ∃ c d : ℕ, C = (c : ℤ) ∧ D = (d : ℤ) ∧ d < c ∧ d < b ∧ Nat.gcd c d = Nat.gcd a b
      ∧ a = m3 * c + m1 * d ∧ b = m2 * c + m0 * d
      ∧ c ≤ a ∧ m0 ≤ a ∧ m1 ≤ a ∧ m2 ≤ a ∧ m3 ≤ a := by
  obtain ⟨d, hd⟩ := Int.eq_ofNat_of_zero_le hD0
  obtain ⟨c, hc⟩ := Int.eq_ofNat_of_zero_le (le_of_lt (lt_of_le_of_lt hD0 hDC))
  have hdc : d < c := by
    have : (d : ℤ) < c := by rw [← hd, ← hc]; exact hDC
    exact_mod_cast this
  have hdb : d < b := by
    have : (d : ℤ) < b := by rw [← hd]; exact hDb
    exact_mod_cast this
  -- inverse relations from `det = s`, `s² = 1`
  have eA : (a : ℤ) = m3 * c + m1 * d := by
    rw [← hc, ← hd, hC, hD]
    linear_combination (-(a : ℤ)) * hss - (s * (a : ℤ)) * hdet
  have eB : (b : ℤ) = m2 * c + m0 * d := by
    rw [← hc, ← hd, hC, hD]
    linear_combination (-(b : ℤ)) * hss - (s * (b : ℤ)) * hdet
  have eAn : a = m3 * c + m1 * d := by exact_mod_cast eA
  have eBn : b = m2 * c + m0 * d := by exact_mod_cast eB
  -- `m3 ≥ 1`: otherwise `m1 = 0` and the determinant vanishes
  have h3 : 1 ≤ m3 := by
    by_contra h
    have h30 : m3 = 0 := by omega
    have h10 : m1 = 0 := by omega
    rw [h30, h10] at hdet
    simp only [Nat.cast_zero, mul_zero, zero_mul, sub_zero] at hdet
    rw [← hdet] at hss
    simp at hss
  have hc1 : 1 ≤ c := by omega
  have k1 : m3 ≤ m3 * c := Nat.le_mul_of_pos_right _ hc1
  have k2 : c ≤ m3 * c := Nat.le_mul_of_pos_left _ h3
  have k3 : m2 ≤ m2 * c := Nat.le_mul_of_pos_right _ hc1
  have k4 : 0 ≤ m1 * d := Nat.zero_le _
  have k5 : 0 ≤ m0 * d := Nat.zero_le _
  refine ⟨c, d, hc, hd, hdc, hdb, ?_, eAn, eBn, by omega, by omega, by omega, by omega, by omega⟩
  apply Nat.dvd_antisymm
  · apply Nat.dvd_gcd
    · rw [eAn]
      exact dvd_add (Dvd.dvd.mul_left (Nat.gcd_dvd_left c d) _) (Dvd.dvd.mul_left (Nat.gcd_dvd_right c d) _)
    · rw [eBn]
      exact dvd_add (Dvd.dvd.mul_left (Nat.gcd_dvd_left c d) _) (Dvd.dvd.mul_left (Nat.gcd_dvd_right c d) _)
  · have ga : ((Nat.gcd a b : ℕ) : ℤ) ∣ (a : ℤ) := Int.natCast_dvd_natCast.mpr (Nat.gcd_dvd_left a b)
    have gb : ((Nat.gcd a b : ℕ) : ℤ) ∣ (b : ℤ) := Int.natCast_dvd_natCast.mpr (Nat.gcd_dvd_right a b)
    apply Nat.dvd_gcd
    · apply Int.natCast_dvd_natCast.mp
      rw [← hc, hC]
      exact Dvd.dvd.mul_left (dvd_sub (Dvd.dvd.mul_left ga _) (Dvd.dvd.mul_left gb _)) _
    · apply Int.natCast_dvd_natCast.mp
      rw [← hd, hD]
      exact Dvd.dvd.mul_left (dvd_sub (Dvd.dvd.mul_left gb _) (Dvd.dvd.mul_left ga _)) _

/-- what a good matrix means on naturals: image (c, d), progress, gcd, inverse relations, entry bounds -/
theorem good_facts (a b : ℕ) (m : Mat) (hba : b ≤ a) (h : good a b m = true) :
    ∃ c d : ℕ, applyZ m a b = ((c : ℤ), (d : ℤ)) ∧ d < c ∧ d < b ∧ Nat.gcd c d = Nat.gcd a b
      ∧ a = m.2.2.2.1 * c + m.2.1 * d ∧ b = m.2.2.1 * c + m.1 * d
      ∧ c ≤ a ∧ m.1 ≤ a ∧ m.2.1 ≤ a ∧ m.2.2.1 ≤ a ∧ m.2.2.2.1 ≤ a := by
  obtain ⟨hdet, h02, h13, -, hD0, hDC, hDb⟩ := (good_iff a b m).mp h
  have hz := applyZ_eq_sgn m a b
  obtain ⟨c, d, hc, hd, r⟩ := unimodular_facts a b m.1 m.2.1 m.2.2.1 m.2.2.2.1 (sgn m.2.2.2.2)
    (applyZ m a b).1 (applyZ m a b).2 (sgn_mul_self _) hdet
    (by rw [hz]) (by rw [hz]) h02 h13 hD0 hDC hDb hba
  exact ⟨c, d, Prod.ext hc hd, r⟩

/-- wrapping subtraction of wrapped products, congruence form (for the cofactor updates of
    `gcd_extended` / `inv_mod`). -/
theorem usub_umul_modEq (M p x q y : ℕ) (hM : 0 < M) :
    ((usub M (umul M p x) (umul M q y) : ℕ) : ℤ) ≡ (p : ℤ) * x - q * y [ZMOD M] := by
  unfold usub umul
  obtain ⟨P, hP⟩ : ∃ P, P = p * x := ⟨_, rfl⟩
  obtain ⟨Q, hQ⟩ : ∃ Q, Q = q * y := ⟨_, rfl⟩
  have hPz : (p : ℤ) * x = (P : ℤ) := by rw [hP]; push_cast; ring
  have hQz : (q : ℤ) * y = (Q : ℤ) := by rw [hQ]; push_cast; ring
  rw [← hP, ← hQ, hPz, hQz]
  have hle : Q % M ≤ P % M + M := by
    have := Nat.mod_lt Q hM
    omega
  have e : (((P % M + M - Q % M) % M : ℕ) : ℤ) = ((P : ℤ) % M + M - (Q : ℤ) % M) % M := by
    rw [Int.natCast_mod, Nat.cast_sub hle, Nat.cast_add, Int.natCast_mod, Int.natCast_mod]
  rw [e]
  refine (Int.mod_modEq _ _).trans ?_
  have h1 : (P : ℤ) % M ≡ P [ZMOD M] := Int.mod_modEq _ _
  have h2 : (Q : ℤ) % M ≡ Q [ZMOD M] := Int.mod_modEq _ _
  have h3 : (M : ℤ) ≡ 0 [ZMOD M] := by
    rw [Int.modEq_zero_iff_dvd]
  have h4 := (h1.add h3).sub h2
  rw [add_zero] at h4
  exact h4

/-- the wrapped result is a canonical `Uint` value -/
theorem usub_lt (M x y : ℕ) (hM : 0 < M) : usub M x y < M := Nat.mod_lt _ hM

/-- wrapping subtraction of wrapped products is exact when the true difference is a natural below M -/
theorem usub_umul_exact (M p x q y : ℕ) (hM : 0 < M) (hle : q * y ≤ p * x) (hlt : p * x - q * y < M) :
    usub M (umul M p x) (umul M q y) = p * x - q * y := by
  have hmod := usub_umul_modEq M p x q y hM
  have hlt' := usub_lt M (umul M p x) (umul M q y) hM
  obtain ⟨u, hu⟩ : ∃ u, u = usub M (umul M p x) (umul M q y) := ⟨_, rfl⟩
  rw [← hu] at hmod hlt' ⊢
  obtain ⟨t, ht⟩ : ∃ t, t = p * x - q * y := ⟨_, rfl⟩
  have htz : (p : ℤ) * x - q * y = (t : ℤ) := by
    rw [ht, Nat.cast_sub hle]; push_cast; ring
  rw [← ht] at hlt ⊢
  rw [htz] at hmod
  have h1 : (u : ℤ) % M = u := Int.emod_eq_of_lt (by positivity) (by exact_mod_cast hlt')
  have h2 : (t : ℤ) % M = t := Int.emod_eq_of_lt (by positivity) (by exact_mod_cast hlt)
  have : (u : ℤ) = t := by
    have := hmod
    unfold Int.ModEq at this
    rw [h1, h2] at this
    exact this
  exact_mod_cast this

/-- `apply` is exact on a good matrix: no panic, the wrapped results are the true integers -/
theorem apply_exact (bits a b : ℕ) (m : Mat) (ha : a < 2 ^ bits) (hba : b ≤ a) (h : good a b m = true) :
    ∃ c d : ℕ, apply bits m a b = some (c, d) ∧ applyZ m a b = ((c : ℤ), (d : ℤ)) ∧ d < c ∧ d < b ∧ c ≤ a
      ∧ Nat.gcd c d = Nat.gcd a b := by
  obtain ⟨c, d, hz, hdc, hdb, hg, -, -, hca, b0, b1, b2, b3⟩ := good_facts a b m hba h
  refine ⟨c, d, ?_, hz, hdc, hdb, hca, hg⟩
  obtain ⟨m0, m1, m2, m3, ev⟩ := m
  dsimp only at b0 b1 b2 b3
  have hbits : bits ≠ 0 := by
    intro h0
    rw [h0] at ha
    omega
  obtain ⟨M, hMdef⟩ : ∃ M, M = 2 ^ bits := ⟨_, rfl⟩
  have hM : 0 < M := by rw [hMdef]; positivity
  rw [← hMdef] at ha
  have hnone : ¬ (M ≤ m0 ∨ M ≤ m1 ∨ M ≤ m2 ∨ M ≤ m3) := by omega
  cases ev
  · -- odd: c = m1*b - m0*a, d = m2*a - m3*b
    simp only [applyZ, Bool.false_eq_true, if_false, Prod.mk.injEq] at hz
    obtain ⟨hzc, hzd⟩ := hz
    have ec : m1 * b = m0 * a + c := by
      have : ((m1 * b : ℕ) : ℤ) = ((m0 * a + c : ℕ) : ℤ) := by push_cast; linarith
      exact_mod_cast this
    have ed : m2 * a = m3 * b + d := by
      have : ((m2 * a : ℕ) : ℤ) = ((m3 * b + d : ℕ) : ℤ) := by push_cast; linarith
      exact_mod_cast this
    have e1 := usub_umul_exact M m1 b m0 a hM (by omega) (by omega)
    have e2 := usub_umul_exact M m2 a m3 b hM (by omega) (by omega)
    simp only [apply, if_neg hbits, ← hMdef, if_neg hnone, Bool.false_eq_true, if_false, e1, e2]
    congr 2 <;> omega
  · -- even: c = m0*a - m1*b, d = m3*b - m2*a
    simp only [applyZ, if_true, Prod.mk.injEq] at hz
    obtain ⟨hzc, hzd⟩ := hz
    have ec : m0 * a = m1 * b + c := by
      have : ((m0 * a : ℕ) : ℤ) = ((m1 * b + c : ℕ) : ℤ) := by push_cast; linarith
      exact_mod_cast this
    have ed : m3 * b = m2 * a + d := by
      have : ((m3 * b : ℕ) : ℤ) = ((m2 * a + d : ℕ) : ℤ) := by push_cast; linarith
      exact_mod_cast this
    have e1 := usub_umul_exact M m0 a m1 b hM (by omega) (by omega)
    have e2 := usub_umul_exact M m3 b m2 a hM (by omega) (by omega)
    simp only [apply, if_neg hbits, ← hMdef, if_neg hnone, if_true, e1, e2]
    congr 2 <;> omega

end Ruint.Lehmer
