import Ruint.Lemmas.FloatTryF

/-! `f32 as f64` is exact (sign, value), `floorHalf` is scale invariant, the sign bit on a pattern. -/
namespace Ruint.Float

/-- scaling the mantissa against the exponent does not change `⌊f + 1/2⌋`. -/
theorem floorHalf_scale (m j : ℕ) (e : ℤ) : floorHalf (m * 2 ^ j) (e - (j : ℤ)) = floorHalf m e := by
  rcases le_or_gt 0 (e - (j : ℤ)) with h1 | h1
  · have he : 0 ≤ e := by omega
    rw [floorHalf_nonneg_exp _ _ h1, floorHalf_nonneg_exp _ _ he, Nat.mul_assoc, ← pow_add]
    congr 2; omega
  · obtain ⟨t, ht⟩ : ∃ t : ℕ, e - (j : ℤ) = -(t : ℤ) := ⟨(-(e - (j : ℤ))).toNat, by omega⟩
    have ht1 : 1 ≤ t := by omega
    rw [ht, floorHalf_neg_exp _ t ht1]
    rcases le_or_gt 0 e with he | he
    · rw [floorHalf_nonneg_exp _ _ he]
      have hj : j = e.toNat + t := by omega
      have h2t : 2 ^ t = 2 * 2 ^ (t - 1) := by rw [← pow_succ']; congr 1; omega
      have hp : 0 < 2 ^ (t - 1) := by positivity
      have : m * 2 ^ j + 2 ^ (t - 1) = 2 ^ (t - 1) + 2 ^ t * (m * 2 ^ e.toNat) := by
        rw [hj, pow_add]; ring
      rw [this, Nat.add_mul_div_left _ _ (by positivity), Nat.div_eq_of_lt (by omega), Nat.zero_add]
    · obtain ⟨s, hs⟩ : ∃ s : ℕ, e = -(s : ℤ) := ⟨(-e).toNat, by omega⟩
      subst hs
      have hs1 : 1 ≤ s := by omega
      rw [floorHalf_neg_exp _ s hs1]
      have hts : t = j + s := by omega
      subst hts
      have e1 : 2 ^ (j + s - 1) = 2 ^ j * 2 ^ (s - 1) := by rw [← pow_add]; congr 1; omega
      have e2 : m * 2 ^ j + 2 ^ j * 2 ^ (s - 1) = 2 ^ j * (m + 2 ^ (s - 1)) := by ring
      rw [e1, e2, pow_add, Nat.mul_div_mul_left _ _ (by positivity)]

/-- the sign bit on top of a non-negative pattern. -/
theorem decode_sgn (neg : Bool) (y m : ℕ) (e : ℤ) (hy : y < 2 ^ 63) (h : decode b64 y = .fin false m e) :
    decode b64 (sgn b64 neg + y) = .fin neg m e := by
  cases neg
  · simp only [sgn, Bool.false_eq_true, if_false, Nat.zero_add]; exact h
  · have hs : b64.signBit = 2 ^ 63 := by decide
    simp only [sgn, if_true, hs]
    have hE : b64.emaxB = 2047 := by decide
    have hq : b64.qmin = -1074 := by decide
    have hmb : b64.mb = 52 := rfl
    have heb : b64.eb = 11 := rfl
    unfold decode at h ⊢
    simp only [hE, hq, hmb, heb] at h ⊢
    have f1 : (2 ^ 63 + y) % 2 ^ 52 = y % 2 ^ 52 := by omega
    have f2 : ((2 ^ 63 + y) / 2 ^ 52) % 2 ^ 11 = (y / 2 ^ 52) % 2 ^ 11 := by omega
    have f3 : ((2 ^ 63 + y) / 2 ^ (52 + 11)) % 2 = 1 := by omega
    rw [f1, f2, f3]
    split at h
    · split at h <;> simp at h
    · next h1 =>
      rw [if_neg h1]
      split at h
      · next h2 =>
        rw [if_pos h2]
        simp only [Dec.fin.injEq] at h ⊢
        exact ⟨by simp, h.2.1, h.2.2⟩
      · next h2 =>
        rw [if_neg h2]
        simp only [Dec.fin.injEq] at h ⊢
        exact ⟨by simp, h.2.1, h.2.2⟩

/-- fields of a binary32 pattern that decodes to a finite value. -/
theorem decode32_bounds (x m : ℕ) (neg : Bool) (e : ℤ) (hx : decode b32 x = .fin neg m e) :
    m < 2 ^ 24 ∧ -149 ≤ e ∧ e ≤ 104 := by
  have hE : b32.emaxB = 255 := by decide
  have hq : b32.qmin = -149 := by decide
  have hmb : b32.mb = 23 := rfl
  have heb : b32.eb = 8 := rfl
  unfold decode at hx
  simp only [hE, hq, hmb, heb] at hx
  have hlt : (x / 2 ^ 23) % 2 ^ 8 < 256 := Nat.mod_lt _ (by norm_num)
  have hF : x % 2 ^ 23 < 2 ^ 23 := Nat.mod_lt _ (by norm_num)
  split at hx
  · split at hx <;> simp at hx
  · next h1 =>
    split at hx
    · simp only [Dec.fin.injEq] at hx
      obtain ⟨_, b, c⟩ := hx
      omega
    · simp only [Dec.fin.injEq] at hx
      obtain ⟨_, b, c⟩ := hx
      omega

/-- `f32 as f64` is exact: the binary64 pattern decodes to the same sign and the same value. -/
theorem f32ToF64_fin (x m : ℕ) (neg : Bool) (e : ℤ) (hx : decode b32 x = .fin neg m e) :
    f32ToF64 x < 2 ^ 64 ∧ ∃ m' e', decode b64 (f32ToF64 x) = .fin neg m' e'
      ∧ floorHalf m' e' = floorHalf m e ∧ (m = 0 → m' = 0) ∧ (m ≠ 0 → m' ≠ 0) := by
  obtain ⟨hm24, he1, he2⟩ := decode32_bounds x m neg e hx
  have hs : sgn b64 neg ≤ 2 ^ 63 := by
    cases neg <;> simp [sgn, Fmt.signBit, b64]
  unfold f32ToF64
  rw [hx]
  simp only
  unfold rne
  rcases Nat.eq_zero_or_pos m with hm0 | hmpos
  · subst hm0
    have : rneMag b64 0 e = 0 := by simp [rneMag]
    rw [this, Nat.add_zero]
    refine ⟨by omega, 0, -1074, ?_, ?_, fun _ => rfl, fun h => absurd rfl h⟩
    · have := decode_sgn neg 0 0 (-1074) (by norm_num) decode_zero
      simpa using this
    · rw [floorHalf_zero, floorHalf_zero]
  · have hL1 := bitLen_pos hmpos
    have hL2 : bitLen m ≤ 24 := bitLen_le_of_lt hm24
    have hq : b64.qmin = -1074 := by decide
    have hmb : b64.mb = 52 := rfl
    have hinf : b64.infBits = 2047 * 2 ^ 52 := by decide
    have hn := rneMag_normal b64 m e hmpos (by rw [hq, hmb]; omega)
    simp only [hmb, hq, hinf] at hn
    have cL : bitLen m ≤ 52 + 1 := by omega
    rw [if_pos cL] at hn
    obtain ⟨L, hL⟩ : ∃ L, L = bitLen m := ⟨_, rfl⟩
    rw [← hL] at hn hL1 hL2
    obtain ⟨b1, b2⟩ := bitLen_bounds hmpos
    rw [← hL] at b1 b2
    have hMr1 : 2 ^ 52 ≤ m * 2 ^ (52 + 1 - L) := by
      have : 52 = (L - 1) + (52 + 1 - L) := by omega
      calc 2 ^ 52 = 2 ^ (L - 1) * 2 ^ (52 + 1 - L) := by rw [← pow_add, ← this]
        _ ≤ m * 2 ^ (52 + 1 - L) := Nat.mul_le_mul_right _ b1
    have hMr2 : m * 2 ^ (52 + 1 - L) < 2 ^ 53 := by
      have : 53 = L + (52 + 1 - L) := by omega
      calc m * 2 ^ (52 + 1 - L) < 2 ^ L * 2 ^ (52 + 1 - L) := Nat.mul_lt_mul_of_pos_right b2 (by positivity)
        _ = 2 ^ 53 := by rw [← pow_add, ← this]
    obtain ⟨Q, hQ⟩ : ∃ Q, Q = (e + (L : ℤ) - ((52 + 1 : ℕ) : ℤ) - -1074).toNat := ⟨_, rfl⟩
    rw [← hQ] at hn
    have hQ1 : Q ≤ 1149 := by omega
    obtain ⟨Mr, hMr⟩ : ∃ Mr, Mr = m * 2 ^ (52 + 1 - L) := ⟨_, rfl⟩
    rw [← hMr] at hn hMr1 hMr2
    rw [if_neg (by omega)] at hn
    rw [hn]
    refine ⟨by omega, Mr, -1074 + (Q : ℤ), ?_, ?_, fun h => by omega, fun _ => by omega⟩
    · apply decode_sgn neg _ _ _ (by omega)
      have := decode_assembled b64 b64_ok Q Mr (by rw [hmb]; exact hMr1) (by rw [hmb]; omega)
        (by rw [hinf, hmb]; omega)
      rw [hmb, hq] at this
      rcases this with ⟨_, h⟩ | ⟨h, _⟩
      · exact h
      · omega
    · have : -1074 + (Q : ℤ) = e - ((52 + 1 - L : ℕ) : ℤ) := by omega
      rw [this, hMr, floorHalf_scale]

/-- `±∞ as f64` stays `±∞`. -/
theorem f32ToF64_inf (x : ℕ) (n : Bool) (hx : decode b32 x = .inf n) : decode b64 (f32ToF64 x) = .inf n := by
  unfold f32ToF64
  rw [hx]
  cases n <;> decide +kernel

/-- the only non-negative infinite `u64` pattern. -/
theorem inf_pattern (x : ℕ) (hx64 : x < 2 ^ 64) (h : decode b64 x = .inf false) : x = b64.infBits := by
  have hE : b64.emaxB = 2047 := by decide
  have hq : b64.qmin = -1074 := by decide
  have hmb : b64.mb = 52 := rfl
  have heb : b64.eb = 11 := rfl
  have hinf : b64.infBits = 2047 * 2 ^ 52 := by decide
  unfold decode at h
  simp only [hE, hq, hmb, heb] at h
  split at h
  · next h1 =>
    split at h
    · next h2 =>
      simp only [Dec.inf.injEq, decide_eq_false_iff_not] at h
      rw [hinf]; omega
    · simp at h
  · split at h <;> simp at h

end Ruint.Float
