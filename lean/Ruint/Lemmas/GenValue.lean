import Ruint.Lemmas.GenLehmer
import Ruint.Gen.WordsValue
import Ruint.Model.Pow
import Ruint.Model.Modular
import Mathlib.Tactic.Ring

/-! Value-level (L2) wrappers GENERATED from `src/pow.rs` / `src/modular.rs` in the translator's *value mode*
    (a `Uint` is its numeric value; callee methods are their value-level meanings) equal the L2 models of C13 / C10:
    the loop conditions, flag updates, early returns and the conditional subtraction are the source's. -/
namespace Ruint.GenValue
open Ruint Ruint.GenLehmer

theorem testBit0 (bits e : ℕ) (hb : 0 < bits) : (decide (0 < bits) && Nat.testBit e 0) = decide (e % 2 = 1) := by
  simp [hb, Nat.testBit_zero]

/-! ### `overflowing_pow`, `wrapping_pow` -/

theorem opow_step_eq (bits L result : ℕ) (ov : Bool) (base : ℕ) (bov : Bool) (e : ℕ) (hb : 0 < bits) :
    Ruint.Gen.val_overflowing_pow_step1 bits L (result, ov, base, bov, e) =
      if e = 0 then ((result, ov, base, bov, e), false)
      else
        (((if e % 2 = 1 then (result * base % 2 ^ bits) else result),
          (if e % 2 = 1 then (ov || (decide (2 ^ bits ≤ result * base) || bov)) else ov),
          base * base % 2 ^ bits, (bov || decide (2 ^ bits ≤ base * base)), e / 2), true) := by
  unfold Ruint.Gen.val_overflowing_pow_step1
  by_cases he : e = 0
  · simp [he]
  · have h1 : (!(e == 0)) = true := by simp [he]
    simp only [h1, if_true, he, if_false, testBit0 bits e hb, pow_one]
    by_cases h2 : e % 2 = 1 <;> simp [h2]

theorem opow_loop_eq (bits L : ℕ) (hb : 0 < bits) :
    ∀ (fuel base e result : ℕ) (ov bov : Bool),
      (Rs.loop (Ruint.Gen.val_overflowing_pow_step1 bits L) fuel (result, ov, base, bov, e)).1
          = (Pow.loop (2 ^ bits) fuel base e result ov bov).1
      ∧ (Rs.loop (Ruint.Gen.val_overflowing_pow_step1 bits L) fuel (result, ov, base, bov, e)).2.1
          = (Pow.loop (2 ^ bits) fuel base e result ov bov).2 := by
  intro fuel
  induction fuel with
  | zero => intro base e result ov bov; simp [loop_zero, Pow.loop]
  | succ f ih =>
    intro base e result ov bov
    rw [loop_succ, opow_step_eq bits L result ov base bov e hb]
    unfold Pow.loop
    by_cases he : e = 0
    · simp [he]
    · simp only [he, if_false, if_true]
      by_cases h2 : e % 2 = 1
      · simp only [h2, if_true, Pow.omul]
        have := ih (base * base % 2 ^ bits) (e / 2) (result * base % 2 ^ bits)
          (ov || (decide (2 ^ bits ≤ result * base) || bov)) (bov || decide (2 ^ bits ≤ base * base))
        simpa [Bool.or_assoc] using this
      · simp only [h2, if_false, Pow.omul]
        exact ih _ _ _ _ _

theorem one_mod (bits : ℕ) (hb : 0 < bits) : 1 % 2 ^ bits = 1 :=
  Nat.mod_eq_of_lt (Nat.one_lt_two_pow (by omega))

/-- **`overflowing_pow` as generated (value mode)** = the C13 model, with the model's own fuel -/
theorem overflowing_pow_eq (bits L a e : ℕ) :
    Ruint.Gen.val_overflowing_pow (e + 1) bits L a e = Pow.overflowingPow bits a e := by
  unfold Ruint.Gen.val_overflowing_pow Pow.overflowingPow
  by_cases h0 : bits = 0
  · simp [h0]
  · have hb : 0 < bits := Nat.pos_of_ne_zero h0
    have hne : (bits == 0) = false := by simp [h0]
    obtain ⟨h1, h2⟩ := opow_loop_eq bits L hb (e + 1) a e 1 false false
    simp only [hne, Bool.false_eq_true, if_false, h0, one_mod bits hb, h1, h2]

theorem wpow_step_eq (bits L result base e : ℕ) (hb : 0 < bits) :
    Ruint.Gen.val_wrapping_pow_step1 bits L (result, base, e) =
      if e = 0 then ((result, base, e), false)
      else (((if e % 2 = 1 then (result * base % 2 ^ bits) else result), base * base % 2 ^ bits, e / 2), true) := by
  unfold Ruint.Gen.val_wrapping_pow_step1
  by_cases he : e = 0
  · simp [he]
  · have h1 : (!(e == 0)) = true := by simp [he]
    simp only [h1, if_true, he, if_false, testBit0 bits e hb, pow_one]
    by_cases h2 : e % 2 = 1 <;> simp [h2]

theorem wpow_loop_eq (bits L : ℕ) (hb : 0 < bits) :
    ∀ (fuel base e result : ℕ),
      (Rs.loop (Ruint.Gen.val_wrapping_pow_step1 bits L) fuel (result, base, e)).1
          = Pow.wloop (2 ^ bits) fuel base e result := by
  intro fuel
  induction fuel with
  | zero => intro base e result; simp [loop_zero, Pow.wloop]
  | succ f ih =>
    intro base e result
    rw [loop_succ, wpow_step_eq bits L result base e hb]
    unfold Pow.wloop
    by_cases he : e = 0
    · simp [he]
    · simp only [he, if_false, if_true]
      exact ih _ _ _

/-- **`wrapping_pow` as generated (value mode)** = the C13 model -/
theorem wrapping_pow_eq (bits L a e : ℕ) :
    Ruint.Gen.val_wrapping_pow (e + 1) bits L a e = Pow.wrappingPow bits a e := by
  unfold Ruint.Gen.val_wrapping_pow Pow.wrappingPow
  by_cases h0 : bits = 0
  · simp [h0]
  · have hb : 0 < bits := Nat.pos_of_ne_zero h0
    have hne : (bits == 0) = false := by simp [h0]
    simp only [hne, Bool.false_eq_true, if_false, h0, one_mod bits hb, wpow_loop_eq bits L hb]

theorem checked_pow_eq (bits L a e : ℕ) :
    Ruint.Gen.val_checked_pow (e + 1) bits L a e = Pow.checkedPow bits a e := by
  unfold Ruint.Gen.val_checked_pow Pow.checkedPow
  rw [overflowing_pow_eq]
  rcases Pow.overflowingPow bits a e with ⟨v, f⟩
  cases f <;> rfl

theorem saturating_pow_eq (bits L a e : ℕ) :
    Ruint.Gen.val_saturating_pow (e + 1) bits L a e = Pow.saturatingPow bits a e := by
  unfold Ruint.Gen.val_saturating_pow Pow.saturatingPow
  rw [overflowing_pow_eq]
  rcases Pow.overflowingPow bits a e with ⟨v, f⟩
  cases f <;> rfl

theorem pow_eq (bits L a e : ℕ) : Ruint.Gen.val_pow (e + 1) bits L a e = Pow.pow bits a e := by
  unfold Ruint.Gen.val_pow Pow.pow
  exact wrapping_pow_eq bits L a e

/-! ### `reduce_mod`, `add_mod`, `pow_mod` -/

theorem reduce_mod_eq (bits L a m : ℕ) : Ruint.Gen.val_reduce_mod bits L a m = Modular.reduceMod a m := by
  unfold Ruint.Gen.val_reduce_mod Modular.reduceMod
  by_cases hm : m = 0
  · simp [hm]
  · have : (m == 0) = false := by simp [hm]
    simp only [this, Bool.false_eq_true, if_false, hm, decide_eq_true_eq]

/-- **`add_mod` as generated (value mode)** = the C10 model (modulus a `BITS`-bit value) -/
theorem add_mod_eq (bits L a b m : ℕ) (hm : m < 2 ^ bits) :
    Ruint.Gen.val_add_mod bits L a b m = Modular.addMod bits a b m := by
  unfold Ruint.Gen.val_add_mod Modular.addMod Modular.wsub
  simp only [reduce_mod_eq, Nat.mod_eq_of_lt hm, ge_iff_le]

theorem pmod_step_eq (bits L m result base e : ℕ) :
    Ruint.Gen.val_pow_mod_step1 bits L m (result, base, e) =
      if 0 < e then
        (((if e % 2 = 1 then Modular.mulMod bits result base m else result), Modular.mulMod bits base base m, e / 2), true)
      else ((result, base, e), false) := by
  unfold Ruint.Gen.val_pow_mod_step1
  have h : (e % 2 ^ 64 &&& 1) = e % 2 := by
    rw [Nat.and_one_is_mod]; omega
  by_cases he : 0 < e
  · simp only [gt_iff_lt, he, decide_true, if_true, h, pow_one]
    by_cases h2 : e % 2 = 1 <;> simp [h2]
  · simp [he]

theorem pmod_loop_eq (bits L m : ℕ) :
    ∀ (fuel base e result : ℕ),
      (Rs.loop (Ruint.Gen.val_pow_mod_step1 bits L m) fuel (result, base, e)).1
          = Modular.powModLoop bits m fuel base e result := by
  intro fuel
  induction fuel with
  | zero => intro base e result; simp [loop_zero, Modular.powModLoop]
  | succ f ih =>
    intro base e result
    rw [loop_succ, pmod_step_eq]
    unfold Modular.powModLoop
    by_cases he : 0 < e
    · simp only [gt_iff_lt, he, if_true]
      exact ih _ _ _
    · simp [he]

/-- **`pow_mod` as generated (value mode)** = the C10 model, with the model's own fuel (`BITS`) -/
theorem pow_mod_eq (bits L a e m : ℕ) :
    Ruint.Gen.val_pow_mod bits bits L a e m = Modular.powMod bits a e m := by
  unfold Ruint.Gen.val_pow_mod Modular.powMod
  by_cases h0 : bits = 0
  · simp [h0]
  · have hb : 0 < bits := Nat.pos_of_ne_zero h0
    have hne : (bits == 0) = false := by simp [h0]
    by_cases hm : m ≤ 1
    · simp [hm, one_mod bits hb]
    · simp only [hne, Bool.false_or, one_mod bits hb, hm, decide_false, Bool.false_eq_true, if_false, pmod_loop_eq,
        h0, or_self]

end Ruint.GenValue
