import Ruint.Lemmas.FacadeB
/-! C20 lemmas, part C: byte strings and `swap_bytes`. -/
namespace Ruint.Facade
open Ruint

theorem beBytes_eq (n v : ℕ) : beBytes n v = (leBytes n v).reverse := by
  induction n generalizing v with
  | zero => rfl
  | succ n ih => simp [beBytes, leBytes, ih]

theorem leBytes_length (n v : ℕ) : (leBytes n v).length = n := by
  induction n generalizing v with
  | zero => rfl
  | succ n ih => simp [leBytes, ih]

theorem leBytes_lt (n v : ℕ) : ∀ x ∈ leBytes n v, x < 256 := by
  induction n generalizing v with
  | zero => intro x hx; simp [leBytes] at hx
  | succ n ih =>
    intro x hx
    simp only [leBytes, List.mem_cons] at hx
    rcases hx with h | h
    · rw [h]; exact Nat.mod_lt _ (by norm_num)
    · exact ih _ x h

theorem valB_leBytes (n v : ℕ) : valB 256 (leBytes n v) = v % 256 ^ n := by
  induction n generalizing v with
  | zero => simp [leBytes, valB, Nat.mod_one]
  | succ n ih =>
    simp only [leBytes, valB, ih]
    rw [pow_succ, Nat.mul_comm (256 ^ n) 256, Nat.mod_mul]

theorem leBytes_valB (l : List ℕ) (h : ∀ x ∈ l, x < 256) : leBytes l.length (valB 256 l) = l := by
  induction l with
  | nil => rfl
  | cons x xs ih =>
    have hx : x < 256 := h x (by simp)
    simp only [List.length_cons, leBytes, valB]
    have e1 : (x + 256 * valB 256 xs) % 256 = x := by omega
    have e2 : (x + 256 * valB 256 xs) / 256 = valB 256 xs := by omega
    rw [e1, e2, ih (fun y hy => h y (by simp [hy]))]

theorem valB_lt (l : List ℕ) (h : ∀ x ∈ l, x < 256) : valB 256 l < 256 ^ l.length := by
  induction l with
  | nil => simp [valB]
  | cons x xs ih =>
    have hx : x < 256 := h x (by simp)
    have := ih (fun y hy => h y (by simp [hy]))
    simp only [valB, List.length_cons, pow_succ]
    omega

theorem ofBe_reverse (l : List ℕ) : ofBe l.reverse = valB 256 l := by
  unfold ofBe
  rw [List.foldl_reverse]
  induction l with
  | nil => rfl
  | cons x xs ih => simp only [List.foldr_cons, valB, ih]; omega

/-- `swap_bytes` at a byte-aligned width: never fails, and the little-endian byte string of the result
    is the reversed byte string of the input (hence an involution). -/
theorem swapBytes_spec (k v : ℕ) (hv : v < 2 ^ (8 * k)) :
    ∃ r, swapBytes (8 * k) v = some r ∧ r < 2 ^ (8 * k) ∧ leBytes k r = (leBytes k v).reverse
      ∧ swapBytes (8 * k) r = some v := by
  have hn : nbytes (8 * k) = k := by unfold nbytes; omega
  have hp : (2 : ℕ) ^ (8 * k) = 256 ^ k := by rw [pow_mul]; norm_num
  have key : ∀ w, w < 256 ^ k → swapBytes (8 * k) w = some (valB 256 (leBytes k w).reverse)
      ∧ valB 256 (leBytes k w).reverse < 256 ^ k
      ∧ leBytes k (valB 256 (leBytes k w).reverse) = (leBytes k w).reverse := by
    intro w _
    have hl : ∀ x ∈ (leBytes k w).reverse, x < 256 := fun x hx => leBytes_lt k w x (by simpa using hx)
    have hlen : (leBytes k w).reverse.length = k := by simp [leBytes_length]
    have hlt := valB_lt _ hl
    rw [hlen] at hlt
    refine ⟨?_, hlt, ?_⟩
    · unfold swapBytes tryFromBe
      rw [hn, beBytes_eq, List.reverse_reverse]
      have : ofBe (leBytes k w) = valB 256 (leBytes k w).reverse := by
        rw [← ofBe_reverse, List.reverse_reverse]
      rw [if_neg (by rw [leBytes_length]; omega), this, hp, if_pos hlt]
    · have := leBytes_valB _ hl
      rw [hlen] at this
      exact this
  rw [hp] at hv ⊢
  obtain ⟨k1, k2, k3⟩ := key v hv
  refine ⟨_, k1, k2, k3, ?_⟩
  obtain ⟨j1, _, _⟩ := key _ k2
  rw [j1, k3, List.reverse_reverse, valB_leBytes, Nat.mod_eq_of_lt hv]

end Ruint.Facade
