import Ruint.Lemmas.FloatCmp
import Ruint.Lemmas.FloatTryA
import Ruint.Lemmas.FloatTryB

/-! The two arms of `try_from(f64)` after the range checks: integers (`e ≥ 0`, repaired code adds nothing)
    and fractions (`1/2 ≤ x < 2^52`, `x + 0.5` then truncate). -/
namespace Ruint.Float

theorem tfMain_int (bits x m : ℕ) (e : ℤ) (hx : decode b64 x = .fin false m e) (hx64 : x < 2 ^ 64)
    (hm : 2 ^ 52 ≤ m) (he : 0 ≤ e) (hlt : m * 2 ^ e.toNat < 2 ^ bits) :
    tfMain true bits x = .ok (m * 2 ^ e.toNat) := by
  obtain ⟨hB, hneg, hcase⟩ := decode_fin_fields x m false e hx
  have hF : x % 2 ^ 52 < 2 ^ 52 := Nat.mod_lt _ (by norm_num)
  rcases hcase with ⟨_, hm', _⟩ | ⟨hB1, hm', he'⟩
  · omega
  obtain ⟨B, hBdef⟩ : ∃ B, B = (x / 2 ^ 52) % 2 ^ 11 := ⟨_, rfl⟩
  rw [← hBdef] at hB hB1 he'
  have hsign : x / 2 ^ 63 = 0 := by
    have : x / 2 ^ 63 < 2 := by omega
    have : ¬ ((x / 2 ^ 63) % 2 = 1) := by simpa using hneg
    omega
  have hnorm : isNormal b64 x = true := (isNormal_iff x).mpr (by rw [← hBdef]; omega)
  have hge : ge b64 x two52 = true := by
    rw [two52_eq, ge_pow2_iff x m e 52 hx (by norm_num) (by norm_num)]
    have h1 : (52 - e).toNat ≤ 52 := by omega
    calc 2 ^ (52 - e).toNat ≤ 2 ^ 52 := Nat.pow_le_pow_right (by norm_num) h1
      _ ≤ m := hm
      _ ≤ m * 2 ^ (e - 52).toNat := Nat.le_mul_of_pos_right _ (by positivity)
  -- e + 52 < bits
  have hebits : e.toNat + 52 < bits := by
    have : 2 ^ (e.toNat + 52) < 2 ^ bits := by
      calc 2 ^ (e.toNat + 52) = 2 ^ 52 * 2 ^ e.toNat := by rw [pow_add, Nat.mul_comm]
        _ ≤ m * 2 ^ e.toNat := Nat.mul_le_mul_right _ hm
        _ < 2 ^ bits := hlt
    exact (Nat.pow_lt_pow_iff_right (by norm_num : 1 < 2)).mp this
  have hmlt : m < 2 ^ bits := lt_of_le_of_lt (Nat.le_mul_of_pos_right _ (by positivity)) hlt
  have hBe : B - 1023 = e.toNat + 52 := by omega
  unfold tfMain
  simp only [hnorm, hge, Bool.not_true, Bool.false_eq_true, if_false, Bool.and_self, if_true, hsign,
    ne_eq, not_true_eq_false, ← hBdef, ← hm']
  rw [if_neg (by omega), hBe, if_neg (by omega)]
  by_cases h0 : e.toNat = 0
  · rw [if_pos (by omega)]
    have : 52 - (e.toNat + 52) = 0 := by omega
    rw [this, h0]
    simp [tryFromU64, hmlt]
  · rw [if_neg (by omega)]
    have : e.toNat + 52 - 52 = e.toNat := by omega
    simp only [tryFromU64, hmlt, if_true, oshl, this]
    rw [Nat.mod_eq_of_lt hlt]
    simp [Nat.not_le.mpr hlt]


theorem fields_assembled (Q Mr : ℕ) (hQ : Q ≤ 2044) (h1 : 2 ^ 52 ≤ Mr) (h2 : Mr < 2 ^ 53) :
    (Q * 2 ^ 52 + Mr) / 2 ^ 63 = 0 ∧ ((Q * 2 ^ 52 + Mr) / 2 ^ 52) % 2 ^ 11 = Q + 1
      ∧ (Q * 2 ^ 52 + Mr) % 2 ^ 52 = Mr - 2 ^ 52 := by
  refine ⟨by omega, by omega, by omega⟩

/-- the rounding arm of `try_from(f64)` on a normal `x = m·2^(-s)` with `1/2 ≤ x < 2^52`
    (same for the code before and after the repair). -/
theorem tfMain_frac (fixed : Bool) (bits x m s : ℕ) (hx : decode b64 x = .fin false m (-(s : ℤ)))
    (hm : 2 ^ 52 ≤ m) (hs : 1 ≤ s) (hs' : s ≤ 53) :
    tfMain fixed bits x = tryFromU64 bits ((m + 2 ^ (s - 1)) / 2 ^ s) := by
  obtain ⟨hB, hneg, hcase⟩ := decode_fin_fields x m false _ hx
  have hF : x % 2 ^ 52 < 2 ^ 52 := Nat.mod_lt _ (by norm_num)
  rcases hcase with ⟨_, hm', _⟩ | ⟨hB1, hm', he'⟩
  · omega
  have hm53 : m < 2 ^ 53 := by omega
  have hnorm : isNormal b64 x = true := (isNormal_iff x).mpr (by omega)
  have hge : ge b64 x two52 = false := by
    rw [two52_eq, ← Bool.not_eq_true, ge_pow2_iff x m _ 52 hx (by norm_num) (by norm_num)]
    have h1 : (52 - -(s : ℤ)).toNat = 52 + s := by omega
    have h2 : (-(s : ℤ) - 52).toNat = 0 := by omega
    rw [h1, h2, pow_zero, Nat.mul_one, not_le]
    calc m < 2 ^ 53 := hm53
      _ ≤ 2 ^ (52 + s) := Nat.pow_le_pow_right (by norm_num) (by omega)
  obtain ⟨k, Mr, hk1, hks, hsk, hMr1, hMr2, hadd, hfloor⟩ := add_half_frac x m s hx hm hm53 hs hs'
  obtain ⟨v, hv⟩ : ∃ v, v = (1074 - s + k) * 2 ^ 52 + Mr := ⟨_, rfl⟩
  have hQ : 1074 - s + k ≤ 1074 := by omega
  obtain ⟨hsign, hbe, hfr⟩ := fields_assembled (1074 - s + k) Mr (by omega) hMr1 hMr2
  rw [← hv] at hsign hbe hfr
  unfold tfMain
  simp only [hnorm, hge, Bool.not_true, Bool.false_eq_true, if_false, Bool.and_false, hadd, ← hv, hsign,
    ne_eq, not_true_eq_false, hbe, hfr]
  rw [if_neg (by omega)]
  have e1 : 1074 - s + k + 1 - 1023 = 52 + k - s := by omega
  have e2 : 2 ^ 52 + (Mr - 2 ^ 52) = Mr := by omega
  rw [e1, e2, if_neg (by omega), if_pos (by omega)]
  have e3 : 52 - (52 + k - s) = s - k := by omega
  rw [e3, hfloor]

end Ruint.Float
