import Ruint.Gen.WordsUintMod
import Ruint.Model.ModularLimbs
import Ruint.Lemmas.ModularLimbs
import Ruint.Lemmas.GenAddmul
import Ruint.Lemmas.Div.GenUintDiv
import Ruint.Lemmas.GenMulWrap
/-! Part of the ties of `Gen/WordsUintMod.lean` (split per property so that a change to one source function breaks only the
    obligations of the properties resting on it). -/
namespace Ruint.GenUintMod
open Ruint

/-! ### `mul_mod` -/

section
variable (HD : ∀ (num ds : List ℕ), Ruint.AllLt num → Ruint.AllLt ds → num.length < 2 ^ 64 → ds.length < 2 ^ 64 →
  ∀ f : ℕ, num.length + 1 < f → Ruint.Gen.div f num ds = Ruint.Div.div num ds)
include HD

/-- **`Uint::mul_mod` as generated from `src/modular.rs`** (zero buffer of `nlimbs(2·BITS)` limbs, generated `addmul`,
    generated `algorithms::div`, the remainder left in the modulus' limbs) equals the limb-level model. -/
theorem mul_mod_eq (bits : ℕ) (hB : 2 * bits + 63 < 2 ^ 64) (a b m : List ℕ)
    (ha : Canon bits a) (hb : Canon bits b) (hm : Canon bits m) (f : ℕ) (hf : 4 * nlimbs bits + 2 < f) :
    Ruint.Gen.uint_mul_mod f bits (nlimbs bits) a b m = Ruint.ModularL.mulMod bits a b m := by
  unfold Ruint.Gen.uint_mul_mod Ruint.ModularL.mulMod
  rw [Ruint.Div.GenUintDiv.is_zero_eq bits m hm.1]
  by_cases hz : DivU.isZero m = true
  · simp only [hz, if_true]; rfl
  · simp only [hz, if_false, Bool.false_eq_true]
    have hw : Rs.wmul 64 2 bits = 2 * bits := by unfold Rs.wmul; omega
    rw [hw, GenCore.nlimbs_eq (2 * bits) hB]
    have h2n : nlimbs (2 * bits) ≤ 2 * nlimbs bits := by unfold nlimbs; omega
    have hn57 : nlimbs bits < 2 ^ 58 := by unfold nlimbs; omega
    have hzl : AllLt (List.replicate (nlimbs (2 * bits)) 0) := by
      intro x hx; rw [List.eq_of_mem_replicate hx]; exact W_pos
    have hzv : val (List.replicate (nlimbs (2 * bits)) 0) = 0 := by
      have := (Add.zero_canon (2 * bits)).2; unfold Add.zero at this; exact this
    rw [Ruint.GenAddmul.addmul_eq (List.replicate (nlimbs (2 * bits)) 0) a b hzl ha.2.1 hb.2.1
      (by rw [List.length_replicate]; omega) (by rw [ha.1]; omega) (by rw [hb.1]; omega) f
      (by rw [List.length_replicate, ha.1, hb.1]; omega)]
    obtain ⟨p1, p2, p3, p4⟩ := Ruint.C15.addmul_spec (List.replicate (nlimbs (2 * bits)) 0) a b hzl
    obtain ⟨pr, hpr⟩ : ∃ pr, pr = Limb.addmul W (List.replicate (nlimbs (2 * bits)) 0) a b := ⟨_, rfl⟩
    rw [← hpr] at p1 p2 p3 p4 ⊢
    obtain ⟨prod, ov⟩ := pr
    simp only at p1 p2 p3 p4 ⊢
    rw [List.length_replicate, hzv, Nat.zero_add] at p4
    rw [List.length_replicate] at p1
    have hfit := Modular.mul_fits bits (val a) (val b) ha.2.2 hb.2.2
    have hov : ov = false := by
      cases ov
      · rfl
      · have := p4.1 rfl; omega
    subst hov
    simp only [Bool.false_eq_true, if_false]
    rw [HD prod m p2 hm.2.1 (by rw [p1]; omega) (by rw [hm.1]; omega) f (by rw [p1]; omega)]
    rcases Div.div prod m with _ | ⟨q, r⟩ <;> rfl

end


end Ruint.GenUintMod
