import Ruint.Model.ModularLimbs
import Ruint.Lemmas.Modular
import Ruint.Props.C01
import Ruint.Props.C03
import Ruint.Props.C14
import Ruint.Props.C15

/-!
# The limb-level models of `reduce_mod`, `add_mod`, `mul_mod` refine the value-level ones

Composition of the property theorems of the operations they call: `cmp` orders by value (C15), `%=` is `%` (C03 over
C14's `div`), `overflowing_add` / wrapping `-` (C01), `addmul` (C15) and `algorithms::div` in the 2N-by-N shape (C14:
`div_contract` holds for every pair of slice lengths). No panic on canonical operands.
-/
namespace Ruint.ModularL
open Ruint

theorem ge_spec (a b : List ℕ) (h : a.length = b.length) (ha : AllLt a) (hb : AllLt b) :
    ge a b = decide (val a ≥ val b) := by
  unfold ge
  rw [Ruint.C15.cmp_spec a b h ha hb]
  by_cases hge : val a ≥ val b
  · have hne : compare (val a) (val b) ≠ Ordering.lt := by
      rw [Ne, Nat.compare_eq_lt]; omega
    simp only [hge, decide_true]
    cases hc : compare (val a) (val b)
    · exact absurd hc hne
    · rfl
    · rfl
  · have hlt : compare (val a) (val b) = Ordering.lt := Nat.compare_eq_lt.mpr (by omega)
    simp only [hge, decide_false, hlt]
    rfl

theorem reduceMod_refines (bits : ℕ) (a m : List ℕ) (ha : Canon bits a) (hm : Canon bits m) :
    ∃ r, reduceMod bits a m = some r ∧ Canon bits r ∧ val r = Modular.reduceMod (val a) (val m) := by
  unfold reduceMod Modular.reduceMod
  by_cases h0 : val m = 0
  · simp only [(DivU.isZero_iff m).mpr h0, if_true, h0]
    exact ⟨_, rfl, (Add.zero_canon bits).1, (Add.zero_canon bits).2⟩
  · have hz : ¬ DivU.isZero m = true := fun h => h0 ((DivU.isZero_iff m).mp h)
    simp only [hz, h0, if_false, Bool.false_eq_true]
    rw [ge_spec a m (by rw [ha.1, hm.1]) ha.2.1 hm.2.1]
    by_cases hge : val a ≥ val m
    · simp only [hge, decide_true, if_true]
      obtain ⟨r, e, hv, hc⟩ := Ruint.C03.wrapping_rem_spec bits a m ha hm h0
      exact ⟨r, e, hc, hv⟩
    · simp only [hge, decide_false, Bool.false_eq_true, if_false]
      exact ⟨a, rfl, ha, rfl⟩

theorem addMod_refines (bits : ℕ) (a b m : List ℕ) (ha : Canon bits a) (hb : Canon bits b)
    (hm : Canon bits m) :
    ∃ r, addMod bits a b m = some r ∧ Canon bits r
      ∧ val r = Modular.addMod bits (val a) (val b) (val m) := by
  obtain ⟨l, el, cl, vl⟩ := reduceMod_refines bits a m ha hm
  obtain ⟨r, er, cr, vr⟩ := reduceMod_refines bits b m hb hm
  unfold addMod Modular.addMod
  rw [el, er]
  simp only
  obtain ⟨o1, o2, o3⟩ := Ruint.C01.overflowing_add_spec bits l r cl cr
  obtain ⟨res, hres⟩ : ∃ res, res = Add.overflowingAdd bits l r := ⟨_, rfl⟩
  rw [← hres] at o1 o2 o3 ⊢
  obtain ⟨rv, rf⟩ := res
  simp only at o1 o2 o3 ⊢
  rw [ge_spec rv m (by rw [o1.1, hm.1]) o1.2.1 hm.2.1, ← vl, ← vr, ← o2]
  have hflag : rf = decide (2 ^ bits ≤ val l + val r) := by
    cases rf
    · have : ¬ 2 ^ bits ≤ val l + val r := fun h => by have := o3.2 h; simp at this
      simp [this]
    · have := o3.1 rfl; simp [this]
  rw [← hflag]
  by_cases hc : (rf || decide (val rv ≥ val m)) = true
  · simp only [hc, if_true]
    obtain ⟨w1, w2⟩ := Ruint.C01.wrapping_sub_spec bits rv m o1 hm
    refine ⟨_, rfl, w1, ?_⟩
    rw [w2]; unfold Modular.wsub
    rw [Nat.mod_eq_of_lt hm.val_lt]
  · simp only [hc, if_false, Bool.false_eq_true]
    exact ⟨rv, rfl, o1, rfl⟩

theorem mulMod_refines (bits : ℕ) (a b m : List ℕ) (ha : Canon bits a) (hb : Canon bits b)
    (hm : Canon bits m) :
    ∃ r, mulMod bits a b m = some r ∧ Canon bits r
      ∧ val r = Modular.mulMod bits (val a) (val b) (val m) := by
  unfold mulMod Modular.mulMod
  by_cases h0 : val m = 0
  · simp only [(DivU.isZero_iff m).mpr h0, if_true, h0]
    exact ⟨_, rfl, (Add.zero_canon bits).1, (Add.zero_canon bits).2⟩
  · have hz : ¬ DivU.isZero m = true := fun h => h0 ((DivU.isZero_iff m).mp h)
    simp only [hz, h0, if_false, Bool.false_eq_true]
    have hzl : AllLt (List.replicate (nlimbs (2 * bits)) 0) := by
      intro x hx; rw [List.eq_of_mem_replicate hx]; exact W_pos
    have hzv : val (List.replicate (nlimbs (2 * bits)) 0) = 0 := by
      have := (Add.zero_canon (2 * bits)).2; unfold Add.zero at this; exact this
    obtain ⟨p1, p2, p3, p4⟩ := Ruint.C15.addmul_spec (List.replicate (nlimbs (2 * bits)) 0) a b hzl
    obtain ⟨pr, hpr⟩ : ∃ pr, pr = Limb.addmul W (List.replicate (nlimbs (2 * bits)) 0) a b := ⟨_, rfl⟩
    rw [← hpr] at p1 p2 p3 p4 ⊢
    obtain ⟨prod, ov⟩ := pr
    simp only at p1 p2 p3 p4 ⊢
    rw [List.length_replicate, hzv, Nat.zero_add] at p3 p4
    rw [List.length_replicate] at p1
    have hfit := Modular.mul_fits bits (val a) (val b) ha.val_lt hb.val_lt
    have hov : ov = false := by
      cases ov
      · rfl
      · have := p4.1 rfl; omega
    subst hov
    simp only [Bool.false_eq_true, if_false]
    obtain ⟨q, r, e, _, hr, _, hrl, _, hrw⟩ := Ruint.C14.div_contract prod m p2 hm.2.1 h0
    rw [e]
    simp only
    refine ⟨r, rfl, ⟨by rw [hrl, hm.1], hrw, ?_⟩, by rw [hr, p3]⟩
    rw [hr]
    exact lt_trans (Nat.mod_lt _ (Nat.pos_of_ne_zero h0)) hm.val_lt

end Ruint.ModularL
