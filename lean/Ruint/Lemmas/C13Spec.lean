import Ruint.Model.Pow
import Ruint.Model.Log
import Ruint.Model.Root
import Mathlib.Tactic.Ring
import Mathlib.Tactic.Linarith
import Mathlib.Tactic.NormNum
import Mathlib.Tactic.Positivity
import Mathlib.Tactic.Push

/-!
# The executable specs used by the C13 driver are the mathematical answers

The driver's spec column is computed by small independent functions (`Log.ilog`: repeated
multiplication; `Root.iroot`: bisection; `Pow.specPow`: most-significant-bit-first square-and-multiply
with the true value saturated at the modulus). These lemmas tie them to `^`, so a wrong spec function
cannot hide a wrong implementation.
-/
namespace Ruint.C13Spec
open Ruint.Pow Ruint.Log Ruint.Root

/-! ### `ilog` -/

theorem ilogLoop_spec (base x : ℕ) (f p l : ℕ) (hp : p = base ^ l) (hpx : p ≤ x)
    (hf : x < base ^ (l + f)) :
    base ^ (ilogLoop base x f p l) ≤ x ∧ x < base ^ (ilogLoop base x f p l + 1) := by
  induction f generalizing p l with
  | zero => simp at hf; omega
  | succ f ih =>
    simp only [ilogLoop]
    split
    · next h =>
      exact ih (p * base) (l + 1) (by rw [hp, pow_succ]) h
        (by rw [show l + 1 + f = l + (f + 1) by ring]; exact hf)
    · next h =>
      refine ⟨by rw [← hp]; exact hpx, ?_⟩
      rw [pow_succ, ← hp]; omega

/-- `ilog base x = ⌊log_base x⌋`. -/
theorem ilog_spec (base x : ℕ) (hb : 2 ≤ base) (hx : 1 ≤ x) :
    base ^ (ilog base x) ≤ x ∧ x < base ^ (ilog base x + 1) := by
  unfold ilog
  apply ilogLoop_spec base x _ 1 0 (by simp) hx
  have h1 : x < 2 ^ (x.log2 + 1) := Nat.lt_log2_self
  have h2 : 2 ^ (x.log2 + 1) ≤ base ^ (x.log2 + 1) := Nat.pow_le_pow_left hb _
  simpa using lt_of_lt_of_le h1 h2

/-! ### `iroot` -/

theorem irootLoop_spec (x k : ℕ) (f lo hi : ℕ) (hlo : lo ^ k ≤ x) (hhi : x < hi ^ k)
    (hw : hi - lo ≤ 2 ^ f) :
    (irootLoop x k f lo hi) ^ k ≤ x ∧ x < (irootLoop x k f lo hi + 1) ^ k := by
  induction f generalizing lo hi with
  | zero =>
    simp only [irootLoop]
    simp at hw
    exact ⟨hlo, lt_of_lt_of_le hhi (Nat.pow_le_pow_left (by omega) k)⟩
  | succ f ih =>
    simp only [irootLoop]
    split
    · next h => exact ⟨hlo, lt_of_lt_of_le hhi (Nat.pow_le_pow_left (by omega) k)⟩
    · next h =>
      have hp : 2 ^ (f + 1) = 2 * 2 ^ f := by rw [pow_succ]; ring
      split
      · next hm => exact ih _ _ hm hhi (by omega)
      · next hm => exact ih _ _ hlo (by omega) (by omega)

/-- `iroot x k = ⌊x^(1/k)⌋` for `k ≥ 1`. -/
theorem iroot_spec (x k : ℕ) (hk : 1 ≤ k) :
    (iroot x k) ^ k ≤ x ∧ x < (iroot x k + 1) ^ k := by
  unfold iroot
  by_cases h0 : x = 0
  · rw [if_pos h0, h0]; simp; omega
  · rw [if_neg h0]
    have hlt : x < 2 ^ (x.log2 + 1) := Nat.lt_log2_self
    by_cases h1 : x.log2 < k
    · rw [if_pos h1]
      refine ⟨by simp; omega, ?_⟩
      exact lt_of_lt_of_le hlt (Nat.pow_le_pow_right (by omega) (by omega))
    · rw [if_neg h1]
      apply irootLoop_spec
      · rw [Nat.zero_pow (by omega)]; omega
      · rw [← pow_mul]
        have hq : x.log2 < (x.log2 / k + 1) * k := by
          have := Nat.div_add_mod x.log2 k
          have := Nat.mod_lt x.log2 (by omega : k > 0)
          nlinarith
        exact lt_of_lt_of_le hlt (Nat.pow_le_pow_right (by omega) (by omega))
      · have : 2 ^ (x.log2 / k + 2) = 2 * 2 ^ (x.log2 / k + 1) := by rw [pow_succ]; ring
        omega

/-! ### `specPow` -/

theorem cap_mul (m X Y : ℕ) : min (min X m * Y) m = min (X * Y) m := by
  by_cases h : X < m
  · have : min X m = X := Nat.min_eq_left (by omega)
    rw [this]
  · push Not at h
    rw [Nat.min_eq_right h]
    rcases Nat.eq_zero_or_pos Y with h0 | h0
    · subst h0; simp
    · have h1 : m ≤ m * Y := Nat.le_mul_of_pos_right m h0
      have h2 : m ≤ X * Y := le_trans h1 (Nat.mul_le_mul_right Y h)
      omega

theorem cap_sq (m X : ℕ) : min (min X m * min X m) m = min (X * X) m := by
  rw [cap_mul, Nat.mul_comm X (min X m), cap_mul]

theorem specStep_spec (m a p : ℕ) (b : Bool) :
    specStep m a (a ^ p % m, min (a ^ p) m) b
      = (a ^ (2 * p + b.toNat) % m, min (a ^ (2 * p + b.toNat)) m) := by
  have hsq : a ^ p * a ^ p = a ^ (2 * p) := by rw [← pow_add]; congr 1; ring
  unfold specStep
  simp only
  rw [cap_sq, hsq, ← Nat.mul_mod, hsq]
  cases b
  · simp
  · simp only [if_true, Bool.toNat_true]
    rw [cap_mul, Nat.mod_mul_mod, pow_succ]

theorem specGo_spec (m a e : ℕ) (i : ℕ) :
    specGo m a e i (a ^ (e / 2 ^ i) % m, min (a ^ (e / 2 ^ i)) m) = (a ^ e % m, min (a ^ e) m) := by
  induction i with
  | zero => simp [specGo]
  | succ i ih =>
    simp only [specGo]
    rw [specStep_spec]
    have : 2 * (e / 2 ^ (i + 1)) + (e / 2 ^ i % 2 == 1).toNat = e / 2 ^ i := by
      have h1 : e / 2 ^ (i + 1) = e / 2 ^ i / 2 := by rw [pow_succ, Nat.div_div_eq_div_mul]
      rw [h1]
      have := Nat.div_add_mod (e / 2 ^ i) 2
      rcases Nat.mod_two_eq_zero_or_one (e / 2 ^ i) with h | h <;> simp [h] <;> omega
    rw [this, ih]

/-- the driver's spec function for `pow`: value mod `m` and the true value saturated at `m`. -/
theorem specPow_spec (m a e : ℕ) : specPow m a e = (a ^ e % m, min (a ^ e) m) := by
  unfold specPow
  have h : e / 2 ^ (e.log2 + 1) = 0 := Nat.div_eq_of_lt Nat.lt_log2_self
  have := specGo_spec m a e (e.log2 + 1)
  rw [h, pow_zero] at this
  exact this

/-! ### enumerations for the tiny-width cross-checks of `Props/C13.lean` -/

/-- bounded enumeration -/
def allLt (n : Nat) (p : Nat → Bool) : Bool := (List.range n).all p

/-- widths `< maxBits`, all `x`, all degrees reaching the loop, **all** guesses `g < 2^bits`:
    `guessOk → root = oracle`. -/
def rootCross (maxBits : Nat) : Bool :=
  allLt maxBits fun bits => allLt (2 ^ bits) fun x => allLt bits fun k =>
    if 2 ≤ k ∧ x ≠ 0 then
      allLt (2 ^ bits) fun g =>
        !(guessOk bits x k g (iroot x k)) || decide (root bits x k g = .ok (iroot x k))
    else true

/-- an exact first guess `g = s` always satisfies the hypothesis (it is not vacuous at any tiny input). -/
def rootExactGuessOk (maxBits : Nat) : Bool :=
  allLt maxBits fun bits => allLt (2 ^ bits) fun x => allLt bits fun k =>
    if 2 ≤ k ∧ x ≠ 0 then
      guessOk bits x k (iroot x k) (iroot x k) && decide (root bits x k (iroot x k) = .ok (iroot x k))
    else true

/-- widths `< maxBits`, all `(x, base)`, **all** estimates: `estOk → log = oracle`. -/
def logCross (maxBits : Nat) : Bool :=
  allLt maxBits fun bits => allLt (2 ^ bits) fun x => allLt (2 ^ bits) fun base => allLt (2 ^ bits) fun est =>
    if 2 ≤ base ∧ x ≠ 0 then
      !(estOk bits base est (ilog base x)) || decide (Log.log bits x base est = .ok (ilog base x))
    else true


end Ruint.C13Spec
