import Ruint.Model.Gcd
import Mathlib.Tactic.Ring
import Mathlib.Tactic.Linarith
import Mathlib.Tactic.NormNum
import Mathlib.Tactic.Positivity
import Mathlib.Tactic.Push
import Mathlib.Tactic.Zify
import Mathlib.Tactic.LinearCombination
import Mathlib.Data.Int.ModEq
import Mathlib.Data.Int.GCD
import Mathlib.Data.Nat.GCD.Basic
/-!
# `gcd_extended`: gcd and exact Bezout cofactors, relative to the Lehmer-matrix contract

The executable model `Ruint.Gcd.gcdExtended bits a b` works on naturals with wrapping arithmetic modulo
`M = 2^bits`. This file proves that, whenever the matrix oracle `matFrom` meets `contract` (hypothesis
`horacle`), the model does not panic, returns `g = Nat.gcd a b` and cofactors `x, y < 2^bits` with the
*exact* integer identity `a*x - b*y = g` (flag `true`) resp. `b*y - a*x = g` (flag `false`).

Structure:
* `ZSt`, `zStep`, `Inv`, `inv_step`, `final`, `init`: the loop over ℤ (no wrapping), with the matrix a
  parameter of the step; invariant with the magnitudes of the four cofactors (signs alternate as `even` says).
* `Rel`: refinement between the model state (naturals `< M`) and the ℤ state: `a`, `b`, `even` equal,
  cofactors congruent modulo `M`. `step_refine`, `loop_refine`.
* `xloop_spec`: the loop from the initial state, followed by the sign patch.
* `gcdExtended_spec_of_oracle`, `gcdExtended_mod_of_oracle`.
-/
set_option linter.unusedSimpArgs false
set_option linter.unusedTactic false
set_option linter.unreachableTactic false

namespace Ruint.GcdExt
open Ruint Ruint.Lehmer Ruint.Gcd

/-! ## the loop over ℤ -/

structure ZSt where
  (a b s0 s1 t0 t1 : ℤ)
  (even : Bool)

/-- one iteration of the loop body over ℤ with the matrix `m`. -/
def zStep (m : Mat) (s : ZSt) : ZSt :=
  if m = ident then
    let q := s.a / s.b
    { a := s.b, b := s.a - q * s.b, s0 := s.s1, s1 := s.s0 - q * s.s1,
      t0 := s.t1, t1 := s.t0 - q * s.t1, even := !s.even }
  else
    { a := (applyZ m s.a s.b).1, b := (applyZ m s.a s.b).2,
      s0 := (applyZ m s.s0 s.s1).1, s1 := (applyZ m s.s0 s.s1).2,
      t0 := (applyZ m s.t0 s.t1).1, t1 := (applyZ m s.t0 s.t1).2, even := xor s.even (!m.2.2.2.2) }

/-- `good` as a proposition over ℤ. -/
def GoodP (m : Mat) (a b : ℤ) : Prop :=
  (m.1 : ℤ) * m.2.2.2.1 - m.2.1 * m.2.2.1 = sgn m.2.2.2.2
    ∧ m.1 ≤ m.2.2.1 ∧ m.2.1 ≤ m.2.2.2.1 ∧ 1 ≤ m.2.2.1
    ∧ 0 ≤ (applyZ m a b).2 ∧ (applyZ m a b).2 < (applyZ m a b).1 ∧ (applyZ m a b).2 < b

theorem good_iff (a b : ℕ) (m : Mat) : good a b m = true ↔ GoodP m a b := by
  simp only [good, GoodP, Bool.and_eq_true, decide_eq_true_eq, and_assoc]

theorem contract_cases (a b : ℕ) (m : Mat) (h : contract a b m = true) :
    m = ident ∨ GoodP m a b := by
  unfold contract at h
  rw [Bool.or_eq_true] at h
  rcases h with h | h
  · left; exact eq_of_beq h
  · right; exact (good_iff a b m).1 h

/-- invariant; `S0 S1 T0 T1` are the magnitudes of the four cofactors. -/
structure Inv (A B : ℤ) (s : ZSt) (S0 S1 T0 T1 : ℤ) : Prop where
  nS0 : 0 ≤ S0
  nS1 : 0 ≤ S1
  nT0 : 0 ≤ T0
  nT1 : 0 ≤ T1
  es0 : s.s0 = sgn s.even * S0
  es1 : s.s1 = - sgn s.even * S1
  et0 : s.t0 = - sgn s.even * T0
  et1 : s.t1 = sgn s.even * T1
  la : s.a = s.s0 * A + s.t0 * B
  lb : s.b = s.s1 * A + s.t1 * B
  linT : T0 * s.b + T1 * s.a = A
  linS : S0 * s.b + S1 * s.a = B
  monoT : T0 ≤ T1
  monoS : S0 ≤ S1 ∨ (S0 = 1 ∧ S1 = 0)
  ob : 0 ≤ s.b
  oab : s.b ≤ s.a

theorem sgn_not (b : Bool) : sgn (!b) = - sgn b := by cases b <;> simp [sgn]

set_option maxHeartbeats 2000000 in
theorem inv_step (m : Mat) (A B : ℤ) (s : ZSt) (S0 S1 T0 T1 : ℤ)
    (h : Inv A B s S0 S1 T0 T1) (hb : s.b ≠ 0) (hg : m = ident ∨ GoodP m s.a s.b) :
    ∃ S0' S1' T0' T1', Inv A B (zStep m s) S0' S1' T0' T1' ∧ (zStep m s).b < s.b := by
  obtain ⟨nS0, nS1, nT0, nT1, es0, es1, et0, et1, la, lb, linT, linS, monoT, monoS, ob, oab⟩ := h
  have hbpos : 0 < s.b := lt_of_le_of_ne ob (Ne.symm hb)
  unfold zStep
  simp only []
  rcases hg with hid | ⟨hdet, hr0, hr1, _, hd0, hdc, hdb⟩
  · rw [if_pos hid]
    obtain ⟨q, hq⟩ : ∃ q, q = s.a / s.b := ⟨_, rfl⟩
    rw [← hq]
    have hq1 : 1 ≤ q := by rw [hq]; exact Int.le_ediv_of_mul_le hbpos (by linarith)
    have hrem : s.a - q * s.b = s.a % s.b := by rw [Int.emod_def, hq]; ring
    have hr0' : 0 ≤ s.a - q * s.b := by rw [hrem]; exact Int.emod_nonneg _ hb
    have hr1' : s.a - q * s.b < s.b := by rw [hrem]; exact Int.emod_lt_of_pos _ hbpos
    refine ⟨S1, S0 + q * S1, T1, T0 + q * T1,
      ⟨nS1, by nlinarith, nT1, by nlinarith, ?_, ?_, ?_, ?_, lb, ?_, ?_, ?_, by nlinarith, ?_, hr0', le_of_lt hr1'⟩, hr1'⟩
    · simp only [sgn_not]; rw [es1]; try ring
    · simp only [sgn_not]; rw [es0, es1]; try ring
    · simp only [sgn_not]; rw [et1]; try ring
    · simp only [sgn_not]; rw [et0, et1]; try ring
    · simp only []; rw [la, lb]; ring
    · simp only []; linear_combination linT
    · simp only []; linear_combination linS
    · left
      rcases monoS with h | ⟨h1, h2⟩
      · nlinarith
      · rw [h1, h2]; nlinarith
  · have hne : ¬ m = ident := by
      intro hid
      rw [hid] at hdc hd0 hdb
      simp [applyZ, ident] at hdc hd0 hdb
    rw [if_neg hne]
    obtain ⟨m0, m1, m2, m3, ev⟩ := m
    simp only at hdet hr0 hr1 hd0 hdc hdb ⊢
    have hr0z : (m0 : ℤ) ≤ m2 := by exact_mod_cast hr0
    have hr1z : (m1 : ℤ) ≤ m3 := by exact_mod_cast hr1
    have p0 : (0 : ℤ) ≤ m0 := by positivity
    have p1 : (0 : ℤ) ≤ m1 := by positivity
    have p2 : (0 : ℤ) ≤ m2 := by positivity
    have p3 : (0 : ℤ) ≤ m3 := by positivity
    refine ⟨m0 * S0 + m1 * S1, m2 * S0 + m3 * S1, m0 * T0 + m1 * T1, m2 * T0 + m3 * T1,
      ⟨by positivity, by positivity, by positivity, by positivity, ?_, ?_, ?_, ?_, ?_, ?_, ?_, ?_, by nlinarith, ?_, hd0, le_of_lt hdc⟩, hdb⟩
    · cases ev <;> cases hE : s.even <;> simp only [applyZ, hE, sgn, Bool.false_eq_true, if_false, if_true, Bool.not_false, Bool.not_true, Bool.xor_false, Bool.xor_true, Bool.false_xor, Bool.true_xor] at es0 es1 ⊢ <;> rw [es0, es1] <;> ring
    · cases ev <;> cases hE : s.even <;> simp only [applyZ, hE, sgn, Bool.false_eq_true, if_false, if_true, Bool.not_false, Bool.not_true, Bool.xor_false, Bool.xor_true, Bool.false_xor, Bool.true_xor] at es0 es1 ⊢ <;> rw [es0, es1] <;> ring
    · cases ev <;> cases hE : s.even <;> simp only [applyZ, hE, sgn, Bool.false_eq_true, if_false, if_true, Bool.not_false, Bool.not_true, Bool.xor_false, Bool.xor_true, Bool.false_xor, Bool.true_xor] at et0 et1 ⊢ <;> rw [et0, et1] <;> ring
    · cases ev <;> cases hE : s.even <;> simp only [applyZ, hE, sgn, Bool.false_eq_true, if_false, if_true, Bool.not_false, Bool.not_true, Bool.xor_false, Bool.xor_true, Bool.false_xor, Bool.true_xor] at et0 et1 ⊢ <;> rw [et0, et1] <;> ring
    · cases ev <;> simp only [applyZ, Bool.false_eq_true, if_false, if_true] <;> rw [la, lb] <;> ring
    · cases ev <;> simp only [applyZ, Bool.false_eq_true, if_false, if_true] <;> rw [la, lb] <;> ring
    · cases ev
      · simp only [applyZ, Bool.false_eq_true, if_false, sgn] at hdet ⊢
        linear_combination (-(T0 * s.b + T1 * s.a)) * hdet + linT
      · simp only [applyZ, if_true, sgn] at hdet ⊢
        linear_combination (T0 * s.b + T1 * s.a) * hdet + linT
    · cases ev
      · simp only [applyZ, Bool.false_eq_true, if_false, sgn] at hdet ⊢
        linear_combination (-(S0 * s.b + S1 * s.a)) * hdet + linS
      · simp only [applyZ, if_true, sgn] at hdet ⊢
        linear_combination (S0 * s.b + S1 * s.a) * hdet + linS
    · left
      rcases monoS with h | ⟨h1, h2⟩
      · nlinarith
      · rw [h1, h2]; nlinarith

/-- exit: the returned magnitudes and flag satisfy the Bezout identity, `a` divides both inputs,
    and the magnitudes are bounded by the inputs (so they fit the type). -/
theorem final (A B : ℤ) (hA : 0 < A) (s : ZSt) (S0 S1 T0 T1 : ℤ)
    (h : Inv A B s S0 S1 T0 T1) (hb : s.b = 0) :
    (if s.even then s.a = S0 * A - T0 * B else s.a = T0 * B - S0 * A)
    ∧ s.a ∣ A ∧ s.a ∣ B ∧ 0 ≤ S0 ∧ 0 ≤ T0 ∧ T0 ≤ A ∧ (S0 ≤ B ∨ S0 = 1) := by
  obtain ⟨nS0, nS1, nT0, nT1, es0, es1, et0, et1, la, lb, linT, linS, monoT, monoS, ob, oab⟩ := h
  rw [hb] at linT linS
  have hTa : T1 * s.a = A := by linarith
  have hSa : S1 * s.a = B := by linarith
  have hapos : 0 < s.a := by
    rcases lt_or_eq_of_le (hb ▸ oab : (0 : ℤ) ≤ s.a) with h | h
    · exact h
    · rw [← h] at hTa; linarith
  refine ⟨?_, ⟨T1, by linarith⟩, ⟨S1, by linarith⟩, nS0, nT0, ?_, ?_⟩
  · cases hE : s.even
    · simp only [Bool.false_eq_true, if_false]
      rw [la, es0, et0, hE]; simp only [sgn, Bool.false_eq_true, if_false]; ring
    · simp only [if_true]
      rw [la, es0, et0, hE]; simp only [sgn, if_true]; ring
  · have : T1 ≤ T1 * s.a := by nlinarith
    linarith
  · rcases monoS with h | ⟨h1, _⟩
    · left
      have : S1 ≤ S1 * s.a := by nlinarith
      linarith
    · right; exact h1

theorem init (A B : ℤ) (hB : 0 ≤ B) (hBA : B ≤ A) :
    Inv A B { a := A, b := B, s0 := 1, s1 := 0, t0 := 0, t1 := 1, even := true } 1 0 0 1 :=
  { nS0 := by norm_num, nS1 := le_refl _, nT0 := le_refl _, nT1 := by norm_num
    es0 := by simp [sgn], es1 := by simp [sgn], et0 := by simp [sgn], et1 := by simp [sgn]
    la := by simp, lb := by simp
    linT := by simp, linS := by simp
    monoT := by norm_num, monoS := Or.inr ⟨rfl, rfl⟩
    ob := hB, oab := hBA }

/-! ## wrapping operations are ring operations modulo `M` -/

theorem umul_lt {M : ℕ} (hM : 0 < M) (x y : ℕ) : umul M x y < M := Nat.mod_lt _ hM

theorem usub_lt {M : ℕ} (hM : 0 < M) (x y : ℕ) : usub M x y < M := Nat.mod_lt _ hM

theorem umul_modEq {M p x : ℕ} {x' : ℤ} (hx : (x : ℤ) ≡ x' [ZMOD M]) :
    ((umul M p x : ℕ) : ℤ) ≡ p * x' [ZMOD M] := by
  unfold umul
  rw [Int.natCast_mod, Nat.cast_mul]
  exact (Int.mod_modEq _ _).trans (hx.mul_left _)

theorem usub_modEq {M u v : ℕ} {u' v' : ℤ} (hv : v ≤ M) (hu : (u : ℤ) ≡ u' [ZMOD M])
    (hv' : (v : ℤ) ≡ v' [ZMOD M]) : ((usub M u v : ℕ) : ℤ) ≡ u' - v' [ZMOD M] := by
  unfold usub
  rw [Int.natCast_mod, Nat.cast_sub (by omega), Nat.cast_add]
  refine (Int.mod_modEq _ _).trans ?_
  have e : ((u : ℤ) + M - v) = (u - v) + M := by ring
  rw [e]
  have hM0 : (M : ℤ) ≡ 0 [ZMOD M] := by simp [Int.ModEq]
  have := (hu.sub hv').add hM0
  simpa using this

theorem usub_umul_modEq {M p q x y : ℕ} {x' y' : ℤ} (hM : 0 < M) (hx : (x : ℤ) ≡ x' [ZMOD M])
    (hy : (y : ℤ) ≡ y' [ZMOD M]) :
    ((usub M (umul M p x) (umul M q y) : ℕ) : ℤ) ≡ p * x' - q * y' [ZMOD M] :=
  usub_modEq (le_of_lt (umul_lt hM _ _)) (umul_modEq hx) (umul_modEq hy)

/-- a word congruent to an integer in `[0, M)` is that integer. -/
theorem eq_of_modEq {M x : ℕ} {y : ℤ} (hx : x < M) (hy0 : 0 ≤ y) (hy : y < M)
    (h : (x : ℤ) ≡ y [ZMOD M]) : (x : ℤ) = y := by
  have := h.eq
  rwa [Int.emod_eq_of_lt (by positivity) (by exact_mod_cast hx), Int.emod_eq_of_lt hy0 hy] at this

/-- the full-precision Euclid step: `a - (a / b) * b` computed with wrapping operations is `a % b`. -/
theorem usub_umul_div (M a b : ℕ) (ha : a < M) : usub M a (umul M (a / b) b) = a % b := by
  have h := Nat.div_add_mod' a b
  obtain ⟨p, hp⟩ : ∃ p, p = a / b * b := ⟨_, rfl⟩
  obtain ⟨r, hr⟩ : ∃ r, r = a % b := ⟨_, rfl⟩
  rw [← hp, ← hr] at h
  unfold usub umul
  rw [← hp, ← hr]
  have hpM : p % M = p := Nat.mod_eq_of_lt (by omega)
  have hrM : r % M = r := Nat.mod_eq_of_lt (by omega)
  have e : a + M - p = r + M := by omega
  rw [hpM, e, Nat.add_mod_right, hrM]

/-! ## entries of a good matrix are bounded by `a` -/

theorem good_bounds (m0 m1 m2 m3 : ℕ) (ev : Bool) (a b : ℤ) (hba : b ≤ a)
    (hg : GoodP (m0, m1, m2, m3, ev) a b) :
    (m0 : ℤ) ≤ a ∧ (m1 : ℤ) ≤ a ∧ (m2 : ℤ) ≤ a ∧ (m3 : ℤ) ≤ a
      ∧ (applyZ (m0, m1, m2, m3, ev) a b).1 ≤ a := by
  obtain ⟨hdet, hr0, hr1, h2, hd0, hdc, hdb⟩ := hg
  simp only at hdet hr0 hr1 h2
  have hr0z : (m0 : ℤ) ≤ m2 := by exact_mod_cast hr0
  have hr1z : (m1 : ℤ) ≤ m3 := by exact_mod_cast hr1
  have p0 : (0 : ℤ) ≤ m0 := by positivity
  have p1 : (0 : ℤ) ≤ m1 := by positivity
  have p2 : (0 : ℤ) ≤ m2 := by positivity
  have p3 : (0 : ℤ) ≤ m3 := by positivity
  obtain ⟨c, hc⟩ : ∃ c, c = (applyZ (m0, m1, m2, m3, ev) a b).1 := ⟨_, rfl⟩
  obtain ⟨d, hd⟩ : ∃ d, d = (applyZ (m0, m1, m2, m3, ev) a b).2 := ⟨_, rfl⟩
  rw [← hc, ← hd] at hdc
  rw [← hd] at hd0 hdb
  rw [← hc]
  have hc1 : 1 ≤ c := by omega
  have ha : a = m3 * c + m1 * d := by
    cases ev
    · simp only [applyZ, Bool.false_eq_true, if_false, sgn] at hdet hc hd
      rw [hc, hd]; linear_combination a * hdet
    · simp only [applyZ, if_true, sgn] at hdet hc hd
      rw [hc, hd]; linear_combination (-a) * hdet
  have hb : b = m2 * c + m0 * d := by
    cases ev
    · simp only [applyZ, Bool.false_eq_true, if_false, sgn] at hdet hc hd
      rw [hc, hd]; linear_combination b * hdet
    · simp only [applyZ, if_true, sgn] at hdet hc hd
      rw [hc, hd]; linear_combination (-b) * hdet
  have h31 : (1 : ℤ) ≤ m3 := by
    by_contra hcon
    have h30 : (m3 : ℤ) = 0 := by omega
    have h10 : (m1 : ℤ) = 0 := by omega
    rw [h30, h10] at hdet
    cases ev <;> simp [sgn] at hdet
  have e1 : (m3 : ℤ) * 1 ≤ m3 * c := mul_le_mul_of_nonneg_left hc1 p3
  have e2 : (m2 : ℤ) * 1 ≤ m2 * c := mul_le_mul_of_nonneg_left hc1 p2
  have e3 : (0 : ℤ) ≤ m1 * d := mul_nonneg p1 hd0
  have e4 : (0 : ℤ) ≤ m0 * d := mul_nonneg p0 hd0
  have e5 : (1 : ℤ) * c ≤ m3 * c := mul_le_mul_of_nonneg_right h31 (by omega)
  refine ⟨?_, ?_, ?_, ?_, ?_⟩ <;> linarith

/-! ## `Matrix::apply` on words vs. `applyZ` -/

theorem apply_modEq (bits M : ℕ) (hM : M = 2 ^ bits) (hbits : bits ≠ 0) (m : Mat)
    (h0 : m.1 < M) (h1 : m.2.1 < M) (h2 : m.2.2.1 < M) (h3 : m.2.2.2.1 < M)
    (x y : ℕ) (x' y' : ℤ) (hx : (x : ℤ) ≡ x' [ZMOD M]) (hy : (y : ℤ) ≡ y' [ZMOD M]) :
    ∃ u v, apply bits m x y = some (u, v) ∧ u < M ∧ v < M
      ∧ (u : ℤ) ≡ (applyZ m x' y').1 [ZMOD M] ∧ (v : ℤ) ≡ (applyZ m x' y').2 [ZMOD M] := by
  have hMpos : 0 < M := by rw [hM]; positivity
  obtain ⟨m0, m1, m2, m3, ev⟩ := m
  simp only at h0 h1 h2 h3
  unfold Lehmer.apply
  rw [if_neg hbits]
  simp only [← hM]
  rw [if_neg (by omega)]
  cases ev
  · simp only [Bool.false_eq_true, if_false, applyZ]
    exact ⟨_, _, rfl, usub_lt hMpos _ _, usub_lt hMpos _ _, usub_umul_modEq hMpos hy hx,
      usub_umul_modEq hMpos hx hy⟩
  · simp only [if_true, applyZ]
    exact ⟨_, _, rfl, usub_lt hMpos _ _, usub_lt hMpos _ _, usub_umul_modEq hMpos hx hy,
      usub_umul_modEq hMpos hy hx⟩

/-! ## refinement -/

structure Rel (M : ℕ) (s : XSt) (z : ZSt) : Prop where
  ea : (s.a : ℤ) = z.a
  eb : (s.b : ℤ) = z.b
  ee : s.even = z.even
  cs0 : (s.s0 : ℤ) ≡ z.s0 [ZMOD M]
  cs1 : (s.s1 : ℤ) ≡ z.s1 [ZMOD M]
  ct0 : (s.t0 : ℤ) ≡ z.t0 [ZMOD M]
  ct1 : (s.t1 : ℤ) ≡ z.t1 [ZMOD M]
  ra : s.a < M
  rs0 : s.s0 < M
  rs1 : s.s1 < M
  rt0 : s.t0 < M
  rt1 : s.t1 < M

theorem step_refine (bits M : ℕ) (hM : M = 2 ^ bits) (hbits : bits ≠ 0) (m : Mat) (s : XSt) (z : ZSt)
    (hR : Rel M s z) (hba : s.b ≤ s.a) (hm : m = ident ∨ GoodP m z.a z.b) :
    ∃ s', xStep bits m s = some s' ∧ Rel M s' (zStep m z) := by
  have hMpos : 0 < M := by rw [hM]; positivity
  obtain ⟨ea, eb, ee, cs0, cs1, ct0, ct1, ra, rs0, rs1, rt0, rt1⟩ := hR
  by_cases hid : m = ident
  · unfold xStep zStep
    simp only [if_pos hid, ← hM]
    refine ⟨_, rfl, ?_⟩
    have hq : ((s.a / s.b : ℕ) : ℤ) = z.a / z.b := by rw [Int.natCast_div, ea, eb]
    refine ⟨eb, ?_, by simp only [ee], cs1, ?_, ct1, ?_, (by simp only; omega), rs1, usub_lt hMpos _ _, rt1,
      usub_lt hMpos _ _⟩
    · simp only
      rw [usub_umul_div M s.a s.b ra, Int.natCast_mod, ea, eb, Int.emod_def]; ring
    · simp only
      rw [← hq]
      have := usub_modEq (le_of_lt (umul_lt hMpos (s.a / s.b) s.s1)) cs0 (umul_modEq (p := s.a / s.b) cs1)
      exact this
    · simp only
      rw [← hq]
      have := usub_modEq (le_of_lt (umul_lt hMpos (s.a / s.b) s.t1)) ct0 (umul_modEq (p := s.a / s.b) ct1)
      exact this
  · have hg : GoodP m z.a z.b := by
      rcases hm with h | h
      · exact absurd h hid
      · exact h
    have hzba : z.b ≤ z.a := by rw [← ea, ← eb]; exact_mod_cast hba
    obtain ⟨m0, m1, m2, m3, ev⟩ := m
    obtain ⟨b0, b1, b2, b3, bc⟩ := good_bounds m0 m1 m2 m3 ev z.a z.b hzba hg
    obtain ⟨hdet, hr0, hr1, h2, hd0, hdc, hdb⟩ := hg
    have raz : z.a < M := by rw [← ea]; exact_mod_cast ra
    have k0 : m0 < M := by zify; omega
    have k1 : m1 < M := by zify; omega
    have k2 : m2 < M := by zify; omega
    have k3 : m3 < M := by zify; omega
    obtain ⟨a', b', hab, ra', rb', ca', cb'⟩ := apply_modEq bits M hM hbits (m0, m1, m2, m3, ev) k0 k1 k2 k3
      s.a s.b z.a z.b (by rw [ea]) (by rw [eb])
    obtain ⟨s0', s1', hs, rs0', rs1', cs0', cs1'⟩ := apply_modEq bits M hM hbits (m0, m1, m2, m3, ev) k0 k1 k2 k3
      s.s0 s.s1 z.s0 z.s1 cs0 cs1
    obtain ⟨t0', t1', ht, rt0', rt1', ct0', ct1'⟩ := apply_modEq bits M hM hbits (m0, m1, m2, m3, ev) k0 k1 k2 k3
      s.t0 s.t1 z.t0 z.t1 ct0 ct1
    unfold xStep zStep
    simp only [if_neg hid, hab, hs, ht]
    refine ⟨_, rfl, ?_⟩
    refine ⟨?_, ?_, by simp only [ee], cs0', cs1', ct0', ct1', ra', rs0', rs1', rt0', rt1'⟩
    · exact eq_of_modEq ra' (le_of_lt (lt_of_le_of_lt hd0 hdc)) (lt_of_le_of_lt bc raz) ca'
    · exact eq_of_modEq rb' hd0 (lt_of_lt_of_le hdb (le_trans hzba (le_of_lt raz))) cb'

/-! ## the loop -/

theorem loop_refine
    (horacle : ∀ a b : ℕ, b ≤ a → 0 < b → ∃ m, matFrom a b = some m ∧ contract a b m = true)
    (bits M : ℕ) (hM : M = 2 ^ bits) (hbits : bits ≠ 0) (A B : ℤ) (f : ℕ) (s : XSt) (z : ZSt)
    (S0 S1 T0 T1 : ℤ) (hI : Inv A B z S0 S1 T0 T1) (hR : Rel M s z) (hf : s.b < f) :
    ∃ s' z' S0' S1' T0' T1', xLoop bits f s = some s' ∧ Rel M s' z' ∧ Inv A B z' S0' S1' T0' T1'
      ∧ s'.b = 0 := by
  induction f generalizing s z S0 S1 T0 T1 with
  | zero => omega
  | succ f ih =>
    simp only [xLoop]
    by_cases hb : s.b = 0
    · rw [if_pos hb]; exact ⟨s, z, S0, S1, T0, T1, rfl, hR, hI, hb⟩
    · rw [if_neg hb]
      have hzba : z.b ≤ z.a := hI.oab
      have hba : s.b ≤ s.a := by have := hR.ea; have := hR.eb; omega
      obtain ⟨m, hm, hc⟩ := horacle s.a s.b hba (by omega)
      have hg := contract_cases _ _ _ hc
      rw [hR.ea, hR.eb] at hg
      obtain ⟨s', hs', hR'⟩ := step_refine bits M hM hbits m s z hR hba hg
      have hzb : z.b ≠ 0 := by rw [← hR.eb]; exact_mod_cast hb
      obtain ⟨S0', S1', T0', T1', hI', hlt⟩ := inv_step m A B z S0 S1 T0 T1 hI hzb hg
      rw [hm]; simp only [hs']
      exact ih s' _ S0' S1' T0' T1' hI' hR' (by have := hR'.eb; have := hR.eb; omega)

/-- the loop from the initial state followed by the sign patch (inputs already ordered). -/
theorem xloop_spec
    (horacle : ∀ a b : ℕ, b ≤ a → 0 < b → ∃ m, matFrom a b = some m ∧ contract a b m = true)
    (bits : ℕ) (hbits : bits ≠ 0) (a b : ℕ) (hba : b ≤ a) (ha : a < 2 ^ bits) :
    ∃ s : XSt, xLoop bits (b + 1) { a := a, b := b, s0 := 1, s1 := 0, t0 := 0, t1 := 1, even := true }
        = some s
      ∧ s.a = Nat.gcd a b ∧ s.a < 2 ^ bits ∧
      ∃ X Y : ℕ, X < 2 ^ bits ∧ Y < 2 ^ bits
        ∧ (if s.even then (s.s0, usub (2 ^ bits) 0 s.t0) else (usub (2 ^ bits) 0 s.s0, s.t0)) = (X, Y)
        ∧ (s.even = true → (a : ℤ) * X - b * Y = s.a)
        ∧ (s.even = false → (b : ℤ) * Y - a * X = s.a) := by
  obtain ⟨M, hM⟩ : ∃ M, M = 2 ^ bits := ⟨_, rfl⟩
  have h1M : 1 < M := by rw [hM]; exact Nat.one_lt_two_pow hbits
  rw [← hM] at ha ⊢
  by_cases ha0 : a = 0
  · have hb0 : b = 0 := by omega
    subst ha0; subst hb0
    refine ⟨{ a := 0, b := 0, s0 := 1, s1 := 0, t0 := 0, t1 := 1, even := true }, by simp [xLoop],
      by simp, (by simp only; omega), 1, 0, h1M, by omega, ?_, ?_, ?_⟩
    · simp [usub]
    · simp
    · simp
  · have hI := init (a : ℤ) (b : ℤ) (by positivity) (by exact_mod_cast hba)
    have hR : Rel M { a := a, b := b, s0 := 1, s1 := 0, t0 := 0, t1 := 1, even := true }
        { a := a, b := b, s0 := 1, s1 := 0, t0 := 0, t1 := 1, even := true } :=
      ⟨rfl, rfl, rfl, by simp, by simp, by simp, by simp, ha, h1M, (by simp only; omega), (by simp only; omega), h1M⟩
    obtain ⟨s, z, S0, S1, T0, T1, hloop, hR', hI', hb'⟩ :=
      loop_refine horacle bits M hM hbits a b (b + 1) _ _ 1 0 0 1 hI hR (by simp only; omega)
    have hzb : z.b = 0 := by rw [← hR'.eb, hb']; rfl
    obtain ⟨hbez, hdA, hdB, nS0, nT0, hT0A, hS0B⟩ :=
      final a b (by omega) z S0 S1 T0 T1 hI' hzb
    obtain ⟨X, hX⟩ := Int.eq_ofNat_of_zero_le nS0
    obtain ⟨Y, hY⟩ := Int.eq_ofNat_of_zero_le nT0
    subst hX; subst hY
    have hMpos : 0 < M := by omega
    have hXM : X < M := by
      rcases hS0B with h | h
      · have : X ≤ b := by exact_mod_cast h
        omega
      · have : X = 1 := by exact_mod_cast h
        omega
    have hYM : Y < M := by
      have : Y ≤ a := by exact_mod_cast hT0A
      omega
    have hXMz : (X : ℤ) < M := by exact_mod_cast hXM
    have hYMz : (Y : ℤ) < M := by exact_mod_cast hYM
    -- the gcd
    have hg : s.a = Nat.gcd a b := by
      have hda : s.a ∣ a := Int.natCast_dvd_natCast.1 (by rw [hR'.ea]; exact hdA)
      have hdb : s.a ∣ b := Int.natCast_dvd_natCast.1 (by rw [hR'.ea]; exact hdB)
      have ga : (Nat.gcd a b : ℤ) ∣ a := Int.natCast_dvd_natCast.2 (Nat.gcd_dvd_left a b)
      have gb : (Nat.gcd a b : ℤ) ∣ b := Int.natCast_dvd_natCast.2 (Nat.gcd_dvd_right a b)
      have h2 : (Nat.gcd a b : ℤ) ∣ z.a := by
        cases hE : z.even
        · rw [hE] at hbez; simp only [Bool.false_eq_true, if_false] at hbez
          rw [hbez]; exact dvd_sub (Dvd.dvd.mul_left gb _) (Dvd.dvd.mul_left ga _)
        · rw [hE] at hbez; simp only [if_true] at hbez
          rw [hbez]; exact dvd_sub (Dvd.dvd.mul_left ga _) (Dvd.dvd.mul_left gb _)
      exact Nat.dvd_antisymm (Nat.dvd_gcd hda hdb)
        (Int.natCast_dvd_natCast.1 (by rw [hR'.ea]; exact h2))
    refine ⟨s, hloop, hg, hR'.ra, X, Y, hXM, hYM, ?_, ?_, ?_⟩
    · have z0 : ((0 : ℕ) : ℤ) ≡ 0 [ZMOD M] := by simp
      cases hE : s.even
      · have hEz : z.even = false := by rw [← hR'.ee, hE]
        have es0 := hI'.es0
        have et0 := hI'.et0
        rw [hEz] at es0 et0
        simp only [sgn, Bool.false_eq_true, if_false] at es0 et0
        have c1 : ((usub M 0 s.s0 : ℕ) : ℤ) ≡ X [ZMOD M] := by
          have := usub_modEq (le_of_lt hR'.rs0) z0 hR'.cs0
          rw [es0] at this; simpa using this
        have c2 : ((s.t0 : ℕ) : ℤ) ≡ Y [ZMOD M] := by
          have := hR'.ct0
          rw [et0] at this; simpa using this
        have e1 := eq_of_modEq (usub_lt hMpos _ _) (by positivity) hXMz c1
        have e2 := eq_of_modEq hR'.rt0 (by positivity) hYMz c2
        simp only [Bool.false_eq_true, if_false, Prod.mk.injEq]
        exact ⟨by exact_mod_cast e1, by exact_mod_cast e2⟩
      · have hEz : z.even = true := by rw [← hR'.ee, hE]
        have es0 := hI'.es0
        have et0 := hI'.et0
        rw [hEz] at es0 et0
        simp only [sgn, if_true] at es0 et0
        have c1 : ((s.s0 : ℕ) : ℤ) ≡ X [ZMOD M] := by
          have := hR'.cs0
          rw [es0] at this; simpa using this
        have c2 : ((usub M 0 s.t0 : ℕ) : ℤ) ≡ Y [ZMOD M] := by
          have := usub_modEq (le_of_lt hR'.rt0) z0 hR'.ct0
          rw [et0] at this; simpa using this
        have e1 := eq_of_modEq hR'.rs0 (by positivity) hXMz c1
        have e2 := eq_of_modEq (usub_lt hMpos _ _) (by positivity) hYMz c2
        simp only [if_true, Prod.mk.injEq]
        exact ⟨by exact_mod_cast e1, by exact_mod_cast e2⟩
    · intro hE
      rw [← hR'.ee, hE] at hbez
      simp only [if_true] at hbez
      rw [hR'.ea, hbez]; ring
    · intro hE
      rw [← hR'.ee, hE] at hbez
      simp only [Bool.false_eq_true, if_false] at hbez
      rw [hR'.ea, hbez]; ring

/-! ## `gcd_extended` -/

/-- common strengthening of the two statements below (`g < 2^bits` included). -/
theorem gcdExtended_core
    (horacle : ∀ a b : ℕ, b ≤ a → 0 < b → ∃ m, matFrom a b = some m ∧ contract a b m = true)
    (bits a b : ℕ) (ha : a < 2 ^ bits) (hb : b < 2 ^ bits) :
    ∃ g x y s, gcdExtended bits a b = some (g, x, y, s) ∧ g = Nat.gcd a b ∧ g < 2 ^ bits
      ∧ x < 2 ^ bits ∧ y < 2 ^ bits
      ∧ (s = true → (a : ℤ) * x - b * y = g) ∧ (s = false → (b : ℤ) * y - a * x = g) := by
  by_cases hbits : bits = 0
  · subst hbits
    have ha0 : a = 0 := by omega
    have hb0 : b = 0 := by omega
    subst ha0; subst hb0
    exact ⟨0, 0, 0, false, by simp [gcdExtended], by simp, by simp, by simp, by simp, by simp, by simp⟩
  · unfold gcdExtended
    rw [if_neg hbits]
    by_cases hlt : a < b
    · obtain ⟨s, hloop, hg, hgM, X, Y, hX, hY, hpair, h1, h2⟩ :=
        xloop_spec horacle bits hbits b a (le_of_lt hlt) hb
      simp only [hlt, decide_true, if_true, hloop, hpair]
      refine ⟨s.a, Y, X, !s.even, rfl, by rw [hg, Nat.gcd_comm], hgM, hY, hX, ?_, ?_⟩
      · intro hE
        have hE' : s.even = false := by simpa using hE
        have := h2 hE'
        linarith
      · intro hE
        have hE' : s.even = true := by simpa using hE
        have := h1 hE'
        linarith
    · obtain ⟨s, hloop, hg, hgM, X, Y, hX, hY, hpair, h1, h2⟩ :=
        xloop_spec horacle bits hbits a b (not_lt.1 hlt) ha
      simp only [hlt, decide_false, Bool.false_eq_true, if_false, hloop, hpair]
      exact ⟨s.a, X, Y, s.even, rfl, hg, hgM, hX, hY, h1, h2⟩

/-- **`gcd_extended`, exact form.** If the matrix oracle meets its contract, the model does not panic and
    returns `g = gcd a b` together with cofactors `x, y < 2^bits` satisfying the Bezout identity *over ℤ*
    (no wrapping), oriented by the returned flag. -/
theorem gcdExtended_spec_of_oracle
    (horacle : ∀ a b : ℕ, b ≤ a → 0 < b → ∃ m, matFrom a b = some m ∧ contract a b m = true)
    (bits a b : ℕ) (ha : a < 2 ^ bits) (hb : b < 2 ^ bits) :
    ∃ g x y s, gcdExtended bits a b = some (g, x, y, s) ∧ g = Nat.gcd a b ∧ x < 2 ^ bits ∧ y < 2 ^ bits
      ∧ (s = true → (a : ℤ) * x - b * y = g) ∧ (s = false → (b : ℤ) * y - a * x = g) := by
  obtain ⟨g, x, y, s, h, hg, _, hx, hy, h1, h2⟩ := gcdExtended_core horacle bits a b ha hb
  exact ⟨g, x, y, s, h, hg, hx, hy, h1, h2⟩

/-- the property's wording: the identity evaluated modulo `2^bits` with the wrapping operations -/
theorem gcdExtended_mod_of_oracle
    (horacle : ∀ a b : ℕ, b ≤ a → 0 < b → ∃ m, matFrom a b = some m ∧ contract a b m = true)
    (bits a b : ℕ) (ha : a < 2 ^ bits) (hb : b < 2 ^ bits) :
    ∃ g x y s, gcdExtended bits a b = some (g, x, y, s) ∧ g = Nat.gcd a b
      ∧ (s = true → usub (2 ^ bits) (umul (2 ^ bits) a x) (umul (2 ^ bits) b y) = g)
      ∧ (s = false → usub (2 ^ bits) (umul (2 ^ bits) b y) (umul (2 ^ bits) a x) = g) := by
  obtain ⟨g, x, y, s, h, hg, hgM, hx, hy, h1, h2⟩ := gcdExtended_core horacle bits a b ha hb
  obtain ⟨M, hM⟩ : ∃ M, M = 2 ^ bits := ⟨_, rfl⟩
  rw [← hM] at hgM ⊢
  have hMpos : 0 < M := by rw [hM]; positivity
  have hgMz : (g : ℤ) < M := by exact_mod_cast hgM
  refine ⟨g, x, y, s, h, hg, ?_, ?_⟩
  · intro hs
    have c := usub_umul_modEq (M := M) (p := a) (q := b) hMpos (Int.ModEq.refl (x : ℤ))
      (Int.ModEq.refl (y : ℤ))
    rw [h1 hs] at c
    exact_mod_cast eq_of_modEq (usub_lt hMpos _ _) (by positivity) hgMz c
  · intro hs
    have c := usub_umul_modEq (M := M) (p := b) (q := a) hMpos (Int.ModEq.refl (y : ℤ))
      (Int.ModEq.refl (x : ℤ))
    rw [h2 hs] at c
    exact_mod_cast eq_of_modEq (usub_lt hMpos _ _) (by positivity) hgMz c

end Ruint.GcdExt
