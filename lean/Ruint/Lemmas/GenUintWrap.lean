import Ruint.Lemmas.GenUint

/-! The `src/add.rs` wrappers (`checked_*`, `saturating_*`, `wrapping_*`, `*_neg`, `abs_diff`) as GENERATED from the
    source equal the C01 models on well-formed operands. -/
namespace Ruint.GenUintWrap
open Ruint Ruint.Add Ruint.GenUint

theorem allLt_zero (n : ℕ) : AllLt (List.replicate n 0) := by
  intro x hx; rw [List.eq_of_mem_replicate hx]; exact W_pos

theorem overflowing_neg_eq (bits : ℕ) (hN : nlimbs bits < 2 ^ 64) (a : List ℕ) (ha : a.length = nlimbs bits) (hwa : AllLt a) :
    Ruint.Gen.uint_overflowing_neg (nlimbs bits + 1) bits (nlimbs bits) a = overflowingNeg bits a := by
  unfold Ruint.Gen.uint_overflowing_neg overflowingNeg
  exact overflowing_sub_eq bits hN _ a (by simp) ha (allLt_zero _) hwa

theorem checked_add_eq (bits : ℕ) (hN : nlimbs bits < 2 ^ 64) (a b : List ℕ) (ha : a.length = nlimbs bits) (hb : b.length = nlimbs bits)
    (hwa : AllLt a) (hwb : AllLt b) :
    Ruint.Gen.uint_checked_add (nlimbs bits + 1) bits (nlimbs bits) a b = checkedAdd bits a b := by
  unfold Ruint.Gen.uint_checked_add checkedAdd
  rw [overflowing_add_eq bits hN a b ha hb hwa hwb]
  rcases overflowingAdd bits a b with ⟨v, f⟩
  cases f <;> rfl

theorem checked_sub_eq (bits : ℕ) (hN : nlimbs bits < 2 ^ 64) (a b : List ℕ) (ha : a.length = nlimbs bits) (hb : b.length = nlimbs bits)
    (hwa : AllLt a) (hwb : AllLt b) :
    Ruint.Gen.uint_checked_sub (nlimbs bits + 1) bits (nlimbs bits) a b = checkedSub bits a b := by
  unfold Ruint.Gen.uint_checked_sub checkedSub
  rw [overflowing_sub_eq bits hN a b ha hb hwa hwb]
  rcases overflowingSub bits a b with ⟨v, f⟩
  cases f <;> rfl

theorem checked_neg_eq (bits : ℕ) (hN : nlimbs bits < 2 ^ 64) (a : List ℕ) (ha : a.length = nlimbs bits) (hwa : AllLt a) :
    Ruint.Gen.uint_checked_neg (nlimbs bits + 1) bits (nlimbs bits) a = checkedNeg bits a := by
  unfold Ruint.Gen.uint_checked_neg checkedNeg
  rw [overflowing_neg_eq bits hN a ha hwa]
  rcases overflowingNeg bits a with ⟨v, f⟩
  cases f <;> rfl

/-- `Self::MAX` as the translator spells it = the model's `max` -/
theorem max_eq (bits : ℕ) (hN : nlimbs bits < 2 ^ 64) : Ruint.Gen.uint_masked bits (nlimbs bits) (List.replicate (nlimbs bits) (2 ^ 64 - 1)) = Add.max bits := by
  unfold Add.max
  by_cases h0 : bits = 0
  · subst h0
    have : nlimbs 0 = 0 := by simp [nlimbs]
    rw [this]
    unfold Ruint.Gen.uint_masked
    simp [maskTop]
  · have hb : 0 < bits := Nat.pos_of_ne_zero h0
    have e : (2 : ℕ) ^ 64 - 1 = W - 1 := rfl
    rw [e]
    exact masked_eq bits hb hN _ (by simp) (by
      intro x hx; rw [List.eq_of_mem_replicate hx]; have := W_pos; omega)

theorem saturating_add_eq (bits : ℕ) (hN : nlimbs bits < 2 ^ 64) (a b : List ℕ) (ha : a.length = nlimbs bits) (hb : b.length = nlimbs bits)
    (hwa : AllLt a) (hwb : AllLt b) :
    Ruint.Gen.uint_saturating_add (nlimbs bits + 1) bits (nlimbs bits) a b = saturatingAdd bits a b := by
  unfold Ruint.Gen.uint_saturating_add saturatingAdd
  rw [overflowing_add_eq bits hN a b ha hb hwa hwb, max_eq bits hN]
  rcases overflowingAdd bits a b with ⟨v, f⟩
  cases f <;> rfl

theorem saturating_sub_eq (bits : ℕ) (hN : nlimbs bits < 2 ^ 64) (a b : List ℕ) (ha : a.length = nlimbs bits) (hb : b.length = nlimbs bits)
    (hwa : AllLt a) (hwb : AllLt b) :
    Ruint.Gen.uint_saturating_sub (nlimbs bits + 1) bits (nlimbs bits) a b = saturatingSub bits a b := by
  unfold Ruint.Gen.uint_saturating_sub saturatingSub
  rw [overflowing_sub_eq bits hN a b ha hb hwa hwb]
  rcases overflowingSub bits a b with ⟨v, f⟩
  cases f <;> rfl

theorem wrapping_add_eq (bits : ℕ) (hN : nlimbs bits < 2 ^ 64) (a b : List ℕ) (ha : a.length = nlimbs bits) (hb : b.length = nlimbs bits)
    (hwa : AllLt a) (hwb : AllLt b) :
    Ruint.Gen.uint_wrapping_add (nlimbs bits + 1) bits (nlimbs bits) a b = wrappingAdd bits a b := by
  unfold Ruint.Gen.uint_wrapping_add wrappingAdd
  rw [overflowing_add_eq bits hN a b ha hb hwa hwb]

theorem wrapping_sub_eq (bits : ℕ) (hN : nlimbs bits < 2 ^ 64) (a b : List ℕ) (ha : a.length = nlimbs bits) (hb : b.length = nlimbs bits)
    (hwa : AllLt a) (hwb : AllLt b) :
    Ruint.Gen.uint_wrapping_sub (nlimbs bits + 1) bits (nlimbs bits) a b = wrappingSub bits a b := by
  unfold Ruint.Gen.uint_wrapping_sub wrappingSub
  rw [overflowing_sub_eq bits hN a b ha hb hwa hwb]

theorem wrapping_neg_eq (bits : ℕ) (hN : nlimbs bits < 2 ^ 64) (a : List ℕ) (ha : a.length = nlimbs bits) (hwa : AllLt a) :
    Ruint.Gen.uint_wrapping_neg (nlimbs bits + 1) bits (nlimbs bits) a = wrappingNeg bits a := by
  unfold Ruint.Gen.uint_wrapping_neg wrappingNeg
  rw [overflowing_neg_eq bits hN a ha hwa]

theorem abs_diff_eq (bits : ℕ) (hN : nlimbs bits < 2 ^ 64) (a b : List ℕ) (ha : a.length = nlimbs bits) (hb : b.length = nlimbs bits)
    (hwa : AllLt a) (hwb : AllLt b) :
    Ruint.Gen.uint_abs_diff (nlimbs bits + 1) bits (nlimbs bits) a b = absDiff bits a b := by
  unfold Ruint.Gen.uint_abs_diff absDiff ltLimbs
  rw [wrapping_sub_eq bits hN b a hb ha hwb hwa, wrapping_sub_eq bits hN a b ha hb hwa hwb]

end Ruint.GenUintWrap
