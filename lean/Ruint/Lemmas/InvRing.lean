import Ruint.Lemmas.Mul
import Ruint.Props.C01
import Mathlib.Data.Int.ModEq
import Mathlib.Tactic.LinearCombination

/-! `inv_ring`: seed `(3n) xor 2` correct on 4 bits, wrapping Newton/Hensel step doubles the number of
    correct bits, four steps give the 64-bit inverse, the limb-doubling loop gives the inverse mod
    `2^BITS`. Re-homed from `notes/probes/inv_ring_hensel_probe.lean`. -/
namespace Ruint.Mul
open Ruint Ruint.Add

/-- Hensel: `a·x ≡ 1 (mod m)` ⇒ `a·(x·(2 − a·x)) ≡ 1 (mod m²)`. -/
theorem hensel (a x m : ℤ) (h : a * x ≡ 1 [ZMOD m]) : a * (x * (2 - a * x)) ≡ 1 [ZMOD m * m] := by
  have h1 : m ∣ 1 - a * x := (Int.modEq_iff_dvd.mp h)
  obtain ⟨t, ht⟩ := h1
  apply Int.modEq_iff_dvd.mpr
  refine ⟨t * t, ?_⟩
  have : 1 - a * (x * (2 - a * x)) = (1 - a * x) * (1 - a * x) := by ring
  rw [this, ht]; ring

/-- one Newton step in wrapping arithmetic modulo `M` (`x *= 2 - n * x`). -/
def newtonM (M n x : ℕ) : ℕ := (x * ((2 + M - (n * x) % M) % M)) % M

theorem newton64_eq (n x : ℕ) : newton64 n x = newtonM W n x := rfl

theorem newtonM_modEq (M n x : ℕ) (hM : 0 < M) :
    (newtonM M n x : ℤ) ≡ (x : ℤ) * (2 - (n : ℤ) * x) [ZMOD (M : ℤ)] := by
  unfold newtonM
  have hle : (n * x) % M ≤ 2 + M := by have := Nat.mod_lt (n * x) hM; omega
  have h1 : (((2 + M - (n * x) % M) % M : ℕ) : ℤ) ≡ 2 - (n : ℤ) * x [ZMOD (M : ℤ)] := by
    have e : (((2 + M - (n * x) % M : ℕ)) : ℤ) = 2 + (M : ℤ) - (((n * x) % M : ℕ) : ℤ) := by
      rw [Nat.cast_sub hle]; push_cast; ring
    have a1 : (((2 + M - (n * x) % M) % M : ℕ) : ℤ) ≡ ((2 + M - (n * x) % M : ℕ) : ℤ) [ZMOD (M : ℤ)] := by
      rw [Int.natCast_mod]; exact Int.mod_modEq _ _
    have a2 : (((n * x) % M : ℕ) : ℤ) ≡ (n : ℤ) * x [ZMOD (M : ℤ)] := by
      rw [Int.natCast_mod]; push_cast; exact Int.mod_modEq _ _
    have a3 : (2 + (M : ℤ) - (((n * x) % M : ℕ) : ℤ)) ≡ 2 + (M : ℤ) - (n : ℤ) * x [ZMOD (M : ℤ)] :=
      Int.ModEq.sub (Int.ModEq.refl _) a2
    have a4 : (2 + (M : ℤ) - (n : ℤ) * x) ≡ 2 - (n : ℤ) * x [ZMOD (M : ℤ)] := by
      apply Int.modEq_iff_dvd.mpr; exact ⟨-1, by ring⟩
    rw [e] at a1
    exact a1.trans (a3.trans a4)
  have h2 : ((x * ((2 + M - (n * x) % M) % M) % M : ℕ) : ℤ)
      ≡ (x : ℤ) * (((2 + M - (n * x) % M) % M : ℕ) : ℤ) [ZMOD (M : ℤ)] := by
    rw [Int.natCast_mod]; push_cast; exact Int.mod_modEq _ _
  exact h2.trans (Int.ModEq.mul_left _ h1)

/-- doubling in `Z/M`: correct modulo `m` ⇒ correct modulo every `k` dividing both `M` and `m²`. -/
theorem newtonM_double (M a x m : ℕ) (hM : 0 < M) (k : ℕ) (hk : k ∣ M) (hkm : k ∣ m * m)
    (h : (a : ℤ) * x ≡ 1 [ZMOD (m : ℤ)]) : (a : ℤ) * newtonM M a x ≡ 1 [ZMOD (k : ℤ)] := by
  have h1 := newtonM_modEq M a x hM
  have h2 : (a : ℤ) * newtonM M a x ≡ (a : ℤ) * ((x : ℤ) * (2 - (a : ℤ) * x)) [ZMOD (M : ℤ)] :=
    Int.ModEq.mul_left _ h1
  have h3 := Int.ModEq.of_dvd (by exact_mod_cast hk : (k : ℤ) ∣ (M : ℤ)) h2
  have h4 := hensel a x m h
  have h5 := Int.ModEq.of_dvd (by exact_mod_cast hkm : (k : ℤ) ∣ (m : ℤ) * m) h4
  exact h3.trans h5

/-- ℕ-level form of the congruence -/
theorem modEq_one_nat (a x k : ℕ) (hk : 0 < k) :
    (a : ℤ) * x ≡ 1 [ZMOD (k : ℤ)] ↔ (a * x) % k = 1 % k := by
  constructor
  · intro h
    have h' : ((a * x : ℕ) : ℤ) % (k : ℤ) = ((1 : ℕ) : ℤ) % (k : ℤ) := by
      push_cast; exact h
    rw [← Int.natCast_mod, ← Int.natCast_mod] at h'
    exact_mod_cast h'
  · intro h
    have h' : (((a * x) % k : ℕ) : ℤ) = ((1 % k : ℕ) : ℤ) := by rw [h]
    rw [Int.natCast_mod, Int.natCast_mod] at h'
    push_cast at h'
    exact h'

/-- the seed: `(3n) xor 2` is the inverse of odd `n` modulo 16. -/
theorem seed_table : ∀ r : Fin 16, r.val % 2 = 1 → (r.val * (((r.val * 3) % 16) ^^^ 2)) % 16 = 1 := by
  decide

theorem seed_correct (n : ℕ) (hodd : n % 2 = 1) :
    (n * (((n * 3) % 2 ^ 64) ^^^ 2)) % 16 = 1 := by
  have h16 : (16 : ℕ) = 2 ^ 4 := by norm_num
  have hx : ((((n * 3) % 2 ^ 64) ^^^ 2) % 16) = (((n % 16) * 3) % 16) ^^^ 2 := by
    rw [h16, Nat.xor_mod_two_pow]
    congr 1
    · rw [Nat.mod_mod_of_dvd _ (by norm_num : 2 ^ 4 ∣ 2 ^ 64), Nat.mul_mod]
      norm_num
  have ht := seed_table ⟨n % 16, Nat.mod_lt _ (by norm_num)⟩ (by simp only []; omega)
  simp only [] at ht
  rw [Nat.mul_mod, hx]
  exact ht

/-- the first-limb block of `inv_ring` is the inverse modulo `2^64`. -/
theorem inv64_correct (n : ℕ) (hodd : n % 2 = 1) : (n * inv64 n) % W = 1 := by
  have hW : 0 < W := W_pos
  have s0 : (n : ℤ) * ((((n * 3) % W) ^^^ 2 : ℕ) : ℤ) ≡ 1 [ZMOD ((16 : ℕ) : ℤ)] := by
    rw [modEq_one_nat _ _ _ (by norm_num)]
    exact seed_correct n hodd
  have s1 := newtonM_double W n _ 16 hW (16 * 16) (by unfold W; norm_num) (dvd_refl _) s0
  have s2 := newtonM_double W n _ (16 * 16) hW (16 * 16 * (16 * 16)) (by unfold W; norm_num)
    (dvd_refl _) s1
  have s3 := newtonM_double W n _ (16 * 16 * (16 * 16)) hW
    (16 * 16 * (16 * 16) * (16 * 16 * (16 * 16))) (by unfold W; norm_num) (dvd_refl _) s2
  have s4 := newtonM_double W n _ (16 * 16 * (16 * 16) * (16 * 16 * (16 * 16))) hW W
    (dvd_refl _) (by unfold W; norm_num) s3
  rw [modEq_one_nat _ _ _ hW] at s4
  have : 1 % W = 1 := by unfold W; norm_num
  rw [this] at s4
  exact s4

theorem inv64_lt (n : ℕ) : inv64 n < W := by
  unfold inv64 newton64
  exact Nat.mod_lt _ W_pos

/-! ### the limb-doubling loop -/

theorem val_two (bits : ℕ) (h : 2 ≤ bits) : Canon bits (two bits) ∧ val (two bits) = 2 := by
  have h2 : 2 < 2 ^ bits := by
    calc 2 < 2 ^ 2 := by norm_num
      _ ≤ 2 ^ bits := Nat.pow_le_pow_right (by norm_num) h
  exact ⟨canon_toLimbs bits 2 h2, val_toLimbs_of_lt bits 2 h2⟩

/-- one loop body at the value level -/
theorem body_val (bits : ℕ) (hb : 2 ≤ bits) (a r : List ℕ) (ha : Canon bits a) (hr : Canon bits r) :
    Canon bits (wrappingMul bits r (wrappingSub bits (two bits) (wrappingMul bits a r)))
    ∧ val (wrappingMul bits r (wrappingSub bits (two bits) (wrappingMul bits a r)))
        = newtonM (2 ^ bits) (val a) (val r) := by
  obtain ⟨t1, t2⟩ := val_two bits hb
  obtain ⟨m1, m2⟩ := wrappingMul_spec bits a r ha hr
  obtain ⟨s1, s2⟩ := C01.wrapping_sub_spec bits (two bits) _ t1 m1
  obtain ⟨p1, p2⟩ := wrappingMul_spec bits r _ hr s1
  refine ⟨p1, ?_⟩
  rw [p2, s2, m2, t2]
  rfl

/-- exponent of the modulus that is known correct after `c` limbs -/
def okBits (bits c : ℕ) : ℕ := min (64 * c) bits

theorem invLoop_spec (bits : ℕ) (hb : 2 ≤ bits) (a : List ℕ) (ha : Canon bits a) :
    ∀ (fuel c : ℕ) (r : List ℕ), 1 ≤ c → nlimbs bits ≤ c + fuel → Canon bits r →
      (val a * val r) % 2 ^ okBits bits c = 1 % 2 ^ okBits bits c →
      Canon bits (invLoop bits a fuel c r)
      ∧ (val a * val (invLoop bits a fuel c r)) % 2 ^ bits = 1 % 2 ^ bits := by
  intro fuel
  induction fuel with
  | zero =>
    intro c r _ hn hr h
    have : okBits bits c = bits := by unfold okBits nlimbs at *; omega
    rw [this] at h
    exact ⟨hr, h⟩
  | succ f ih =>
    intro c r hc hn hr h
    unfold invLoop
    by_cases hlt : c < nlimbs bits
    · simp only [hlt, if_true]
      obtain ⟨b1, b2⟩ := body_val bits hb a r ha hr
      apply ih (c * 2) _ (by omega) (by omega) b1
      rw [b2]
      have hM : 0 < 2 ^ bits := by positivity
      have hk : 0 < 2 ^ okBits bits (c * 2) := by positivity
      have hm : 0 < 2 ^ okBits bits c := by positivity
      rw [← modEq_one_nat _ _ _ hk]
      rw [← modEq_one_nat _ _ _ hm] at h
      apply newtonM_double (2 ^ bits) (val a) (val r) (2 ^ okBits bits c) hM _ _ _ h
      · exact pow_dvd_pow 2 (by unfold okBits; omega)
      · rw [← pow_add]; exact pow_dvd_pow 2 (by unfold okBits; omega)
    · simp only [hlt, if_false]
      have : okBits bits c = bits := by unfold okBits nlimbs at *; omega
      rw [this] at h
      exact ⟨hr, h⟩

theorem headD_mod_two (a : List ℕ) : a.headD 0 % 2 = val a % 2 := by
  cases a with
  | nil => rfl
  | cons x xs =>
    simp only [List.headD_cons, val_cons]
    have : W * val xs = 2 * (2 ^ 63 * val xs) := by unfold W; ring
    omega

theorem setLow_spec (bits v : ℕ) (hb : 0 < bits) (hv : v < W) :
    (setLow bits v).length = nlimbs bits ∧ AllLt (setLow bits v) ∧ val (setLow bits v) = v := by
  obtain ⟨z1, z2⟩ := zero_canon bits
  have hn := nlimbs_pos bits hb
  unfold setLow
  generalize hz : zero bits = z at *
  cases z with
  | nil => have := z1.1; simp at this; omega
  | cons x rest =>
    have hx : x = 0 := by
      have : x ∈ zero bits := by rw [hz]; simp
      simp only [zero, List.mem_replicate] at this
      exact this.2
    subst hx
    simp only [val_cons, Nat.zero_add] at z2
    have hrest : val rest = 0 := by
      have := W_pos
      rcases Nat.eq_zero_or_pos (val rest) with h | h
      · exact h
      · have : 0 < W * val rest := Nat.mul_pos W_pos h
        omega
    refine ⟨by simpa using z1.1, AllLt.cons hv z1.2.1.tail, by simp [hrest]⟩

theorem invRing_spec (bits : ℕ) (a : List ℕ) (ha : Canon bits a) :
    (0 < bits ∧ val a % 2 = 1 →
      ∃ r, invRing bits a = some r ∧ Canon bits r ∧ (val a * val r) % 2 ^ bits = 1 % 2 ^ bits)
    ∧ (¬ (0 < bits ∧ val a % 2 = 1) → invRing bits a = none) := by
  constructor
  · rintro ⟨hb, hodd⟩
    have hc : ¬ (bits = 0 ∨ a.headD 0 % 2 = 0) := by
      rw [headD_mod_two]; omega
    unfold invRing
    simp only [hc, if_false]
    have hodd0 : a.headD 0 % 2 = 1 := by rw [headD_mod_two]; exact hodd
    have hinv := inv64_correct (a.headD 0) hodd0
    have hlt := inv64_lt (a.headD 0)
    obtain ⟨l1, l2, l3⟩ := setLow_spec bits (inv64 (a.headD 0)) hb hlt
    -- val a ≡ head (mod W)
    have hmodW : val a % W = a.headD 0 % W := by
      cases a with
      | nil => rfl
      | cons x xs => simp only [List.headD_cons, val_cons, Nat.add_mul_mod_self_left]
    have hprodW : (val a * inv64 (a.headD 0)) % W = 1 := by
      rw [Nat.mul_mod, hmodW, ← Nat.mul_mod]; exact hinv
    generalize inv64 (a.headD 0) = v at *
    generalize setLow bits v = r0 at *
    by_cases h1 : nlimbs bits ≤ 1
    · -- single limb: no iteration, the final mask reduces modulo 2^bits
      have hn : nlimbs bits = 1 := by have := nlimbs_pos bits hb; omega
      have hloop : invLoop bits a (nlimbs bits) 1 r0 = r0 := by
        rw [hn]; unfold invLoop; simp [hn]
      rw [hloop]
      obtain ⟨m1, m2, _⟩ := maskTop_spec bits hb r0 l1 l2
      refine ⟨_, rfl, m1, ?_⟩
      rw [m2, l3, Nat.mul_mod, Nat.mod_mod, ← Nat.mul_mod]
      have hdvd : 2 ^ bits ∣ W := by
        unfold W; exact pow_dvd_pow 2 (by unfold nlimbs at hn; omega)
      rw [← Nat.mod_mod_of_dvd _ hdvd, hprodW]
    · -- at least two limbs: the start value is canonical, the loop doubles
      have hb65 : 65 ≤ bits := by unfold nlimbs at h1; omega
      have hr0 : Canon bits r0 := by
        refine ⟨l1, l2, ?_⟩
        rw [l3]
        calc v < W := hlt
          _ = 2 ^ 64 := rfl
          _ ≤ 2 ^ bits := Nat.pow_le_pow_right (by norm_num) (by omega)
      have hstart : (val a * val r0) % 2 ^ okBits bits 1 = 1 % 2 ^ okBits bits 1 := by
        have : okBits bits 1 = 64 := by unfold okBits; omega
        rw [this, l3]
        have : (2 : ℕ) ^ 64 = W := rfl
        rw [this, hprodW]
        unfold W; norm_num
      obtain ⟨c1, c2⟩ := invLoop_spec bits (by omega) a ha (nlimbs bits) 1 r0 (le_refl _) (by omega)
        hr0 hstart
      obtain ⟨m1, m2, _⟩ := maskTop_spec bits hb _ c1.1 c1.2.1
      refine ⟨_, rfl, m1, ?_⟩
      rw [m2, Nat.mod_eq_of_lt c1.val_lt]
      exact c2
  · intro h
    have hc : bits = 0 ∨ a.headD 0 % 2 = 0 := by
      rw [headD_mod_two]
      by_contra hcon
      push Not at hcon
      exact h ⟨by omega, by omega⟩
    unfold invRing
    simp only [hc, if_true]

end Ruint.Mul
