import Ruint.Lemmas.RedcUint
import Ruint.Lemmas.GenRedc
import Ruint.Lemmas.Add

/-! Lemmas for `Model/Redc.lean`, part 5: the hand-written generic-base word primitives, at `B = W`, are equal to
    the definitions GENERATED from the Rust source by `tools/rs2lean.py` (`Ruint/Gen/Words*.lean`, regenerated on
    every run; their contracts are re-proved in `Lemmas/GenRedc.lean` / `Lemmas/Add.lean`). Both sides satisfy a
    value equation with range conditions that determines the outputs uniquely. -/
namespace Ruint.Redc
open Ruint

theorem pair_unique (p q : ℕ × ℕ) (X : ℕ) (hp : p.1 + W * p.2 = X) (hq : q.1 + W * q.2 = X)
    (hp1 : p.1 < W) (hq1 : q.1 < W) : p = q := by
  obtain ⟨p1, p2⟩ := p
  obtain ⟨q1, q2⟩ := q
  simp only at *
  have hW := W_pos
  have h1 : p1 = q1 := by
    have := congrArg (· % W) (hp.trans hq.symm)
    simp only [Nat.add_mul_mod_self_left] at this
    rwa [Nat.mod_eq_of_lt hp1, Nat.mod_eq_of_lt hq1] at this
  subst h1
  have h2 : W * p2 = W * q2 := by omega
  rw [Nat.eq_of_mul_eq_mul_left hW h2]

theorem gen_carrying_mul_add_eq (l r a c : ℕ) (hl : l < W) (hr : r < W) (ha : a < W) (hc : c < W) :
    Ruint.Gen.carrying_mul_add l r a c = carryingMulAdd W l r a c := by
  obtain ⟨g1, g2, _⟩ := Ruint.GenRedc.carrying_mul_add_spec l r a c hl hr ha hc
  obtain ⟨m1, m2, _⟩ := carryingMulAdd_spec W l r a c hl hr ha hc
  exact pair_unique _ _ _ g1 m1 g2 m2

theorem gen_carrying_double_mul_add_eq (l r a clo : ℕ) (chi : Bool)
    (hl : l < W) (hr : r < W) (ha : a < W) (hc : clo < W) :
    Ruint.Gen.carrying_double_mul_add l r a clo chi = carryingDoubleMulAdd W l r a clo chi := by
  obtain ⟨g1, g2, g3⟩ := Ruint.GenRedc.carrying_double_mul_add_spec l r a clo chi hl hr ha hc
  obtain ⟨m1, m2, m3⟩ := carryingDoubleMulAdd_spec W l r a clo chi (by unfold W; omega) hl hr ha hc
  generalize Ruint.Gen.carrying_double_mul_add l r a clo chi = p at *
  generalize carryingDoubleMulAdd W l r a clo chi = q at *
  obtain ⟨p1, p2, p3⟩ := p
  obtain ⟨q1, q2, q3⟩ := q
  simp only at *
  have hW := W_pos
  have e : (p1, p2 + W * p3.toNat) = (q1, q2 + W * q3.toNat) :=
    pair_unique (p1, p2 + W * p3.toNat) (q1, q2 + W * q3.toNat) (2 * (l * r) + a + clo + W * chi.toNat)
      (by simp only; rw [← g1]; ring) (by simp only; rw [← m1]; ring) g2 m2
  simp only [Prod.mk.injEq] at e
  obtain ⟨e1, e2⟩ := e
  have e3 : (p2, p3.toNat) = (q2, q3.toNat) :=
    pair_unique (p2, p3.toNat) (q2, q3.toNat) _ rfl e2.symm g3 m3
  simp only [Prod.mk.injEq] at e3
  obtain ⟨e4, e5⟩ := e3
  have e6 : p3 = q3 := by cases p3 <;> cases q3 <;> simp_all
  rw [e1, e4, e6]

theorem gen_carrying_add_eq (x y : ℕ) (c : Bool) (hx : x < W) (hy : y < W) :
    Ruint.Gen.carrying_add x y c = carryingAdd W x y c := by
  obtain ⟨g1, g2⟩ := Ruint.Add.carryingAdd_spec x y c hx hy
  obtain ⟨m1, m2⟩ := carryingAdd_spec W x y c hx hy
  have : Ruint.Add.carryingAdd x y c = Ruint.Gen.carrying_add x y c := rfl
  rw [this] at g1 g2
  generalize Ruint.Gen.carrying_add x y c = p at *
  generalize carryingAdd W x y c = q at *
  obtain ⟨p1, p2⟩ := p
  obtain ⟨q1, q2⟩ := q
  simp only at *
  have e := pair_unique (p1, p2.toNat) (q1, q2.toNat) _ g1 m1 g2 m2
  simp only [Prod.mk.injEq] at e
  have e6 : p2 = q2 := by cases p2 <;> cases q2 <;> simp_all
  rw [e.1, e6]

theorem gen_borrowing_sub_eq (x y : ℕ) (c : Bool) (hx : x < W) (hy : y < W) :
    Ruint.Gen.borrowing_sub x y c = borrowingSub W x y c := by
  obtain ⟨g1, g2⟩ := Ruint.Add.borrowingSub_spec x y c hx hy
  obtain ⟨m1, m2⟩ := borrowingSub_spec W x y c hx hy
  have : Ruint.Add.borrowingSub x y c = Ruint.Gen.borrowing_sub x y c := rfl
  rw [this] at g1 g2
  generalize Ruint.Gen.borrowing_sub x y c = p at *
  generalize borrowingSub W x y c = q at *
  obtain ⟨p1, p2⟩ := p
  obtain ⟨q1, q2⟩ := q
  simp only at *
  have hc : c.toNat ≤ 1 := Bool.toNat_le c
  have hW := W_pos
  -- p1 + y + c = x + W·p2, q1 + y + c = x + W·q2 with p1, q1 < W
  have e6 : p2 = q2 := by
    cases p2 <;> cases q2 <;> simp only [Bool.toNat_false, Bool.toNat_true, Nat.mul_zero, Nat.mul_one, Nat.add_zero] at g1 m1
    · rfl
    · omega
    · omega
    · rfl
  subst e6
  have : p1 = q1 := by omega
  rw [this]

end Ruint.Redc
