import Ruint.Model.Lehmer
import Mathlib.Tactic.Ring
import Mathlib.Tactic.Linarith
import Mathlib.Tactic.NormNum
import Mathlib.Tactic.Positivity
import Mathlib.Tactic.Push
import Mathlib.Tactic.Zify
import Mathlib.Tactic.LinearCombination
import Mathlib.Data.Int.GCD
import Mathlib.Data.Nat.GCD.Basic
/-!
# `Matrix::from_u64` (extended Euclid on `u64` words) meets the Lehmer contract

`fromU64_spec`: on the documented domain (`r1 ≤ r0 < 2^64`) the model of `from_u64` does not panic, no `u64`
operation wraps, and the result is the identity (for `r1 = 0`) or a matrix that satisfies `good` and maps
`(r0, r1)` to `(gcd r0 r1, 0)`; all four entries are `≤ r0`.

The loop body of the source is one Euclid half-step written twice with the roles of the two rows exchanged;
`HInv` is the invariant of a half-step (orientation `s = ±1`), `half_step` its preservation together with
the absence of wrapping, `final` the exit condition.
-/
namespace Ruint.Lehmer
open Ruint

theorem wmul_eq {x y : ℕ} (h : x * y < W) : wmul x y = x * y := Nat.mod_eq_of_lt h

theorem wadd_eq {x y : ℕ} (h : x + y < W) : wadd x y = x + y := Nat.mod_eq_of_lt h

theorem wsub_eq {x y : ℕ} (hyx : y ≤ x) (hx : x < W) : wsub x y = x - y := by
  unfold wsub
  rw [show x + W - y = (x - y) + W by omega, Nat.add_mod_right, Nat.mod_eq_of_lt (by omega)]

/-- Half-step invariant. `(x, y)` are the current remainders (`x` is the one that is reduced next),
    `(u, v)` / `(u', v')` the cofactor rows belonging to `x` / `y`, `s` the orientation.
    `A`, `B` are the inputs of `from_u64`. -/
structure HInv (A B : ℕ) (s : ℤ) (x y u v u' v' : ℕ) : Prop where
  ex : (x : ℤ) = s * ((u : ℤ) * A - v * B)
  ey : (y : ℤ) = s * ((v' : ℤ) * B - u' * A)
  det : (u : ℤ) * v' - v * u' = s
  gcd : Nat.gcd x y = Nat.gcd A B
  eA : A = v' * x + v * y
  eB : B = u' * x + u * y
  xW : x < W
  yW : y < W
  pos : 1 ≤ u + u'

/-- One Euclid half-step: the three word operations do not wrap, and the invariant holds for the exchanged
    state with the opposite orientation. -/
theorem half_step (A B : ℕ) (hA : A < W) (hB : B < W) (s : ℤ) (x y u v u' v' : ℕ)
    (h : HInv A B s x y u v u' v') (hy : 0 < y) (hyx : y ≤ x) :
    wsub x (wmul (x / y) y) = x % y ∧
    wadd u (wmul (x / y) u') = u + x / y * u' ∧
    wadd v (wmul (x / y) v') = v + x / y * v' ∧
    HInv A B (-s) y (x % y) u' v' (u + x / y * u') (v + x / y * v') ∧
    u' ≤ u + x / y * u' ∧ v' ≤ v + x / y * v' ∧ 1 ≤ u + x / y * u' ∧ x % y < y := by
  obtain ⟨ex, ey, det, hg, eA, eB, xW, yW, pos⟩ := h
  have hg' : Nat.gcd y (x % y) = Nat.gcd A B := by
    rw [Nat.gcd_comm y, ← Nat.gcd_rec, Nat.gcd_comm]; exact hg
  obtain ⟨q, hq⟩ : ∃ q, q = x / y := ⟨_, rfl⟩
  obtain ⟨r, hr⟩ : ∃ r, r = x % y := ⟨_, rfl⟩
  have hdm : q * y + r = x := by rw [hq, hr]; exact Nat.div_add_mod' x y
  have hry : r < y := by rw [hr]; exact Nat.mod_lt _ hy
  have hq1 : 1 ≤ q := by rw [hq]; exact Nat.div_pos hyx hy
  rw [← hr] at hg'
  rw [← hq, ← hr]
  -- the new inverse relations, on ℕ
  have eA' : A = (v + q * v') * y + v' * r := by rw [eA, ← hdm]; ring
  have eB' : B = (u + q * u') * y + u' * r := by rw [eB, ← hdm]; ring
  have hu1 : u + q * u' ≤ (u + q * u') * y := Nat.le_mul_of_pos_right _ hy
  have hv1 : v + q * v' ≤ (v + q * v') * y := Nat.le_mul_of_pos_right _ hy
  have hu2 : u' ≤ q * u' := Nat.le_mul_of_pos_left _ hq1
  have hv2 : v' ≤ q * v' := Nat.le_mul_of_pos_left _ hq1
  have hqy : q * y < W := by omega
  have hqu : q * u' < W := by omega
  have hqv : q * v' < W := by omega
  have hdmZ : (q : ℤ) * y + r = x := by exact_mod_cast hdm
  refine ⟨?_, ?_, ?_, ⟨?_, ?_, ?_, hg', eA', eB', yW, by omega, by omega⟩, by omega, by omega, by omega, hry⟩
  · rw [wmul_eq hqy, wsub_eq (by omega) xW]; omega
  · rw [wmul_eq hqu, wadd_eq (by omega)]
  · rw [wmul_eq hqv, wadd_eq (by omega)]
  · linear_combination ey
  · push_cast; linear_combination ex - (q : ℤ) * ey + hdmZ
  · push_cast; linear_combination (-1 : ℤ) * det

/-- the postcondition of `from_u64` for a non-zero `B`. -/
def Post (A B : ℕ) (m : Mat) : Prop :=
  good A B m = true ∧ applyZ m A B = ((Nat.gcd A B : ℤ), 0) ∧
    m.1 ≤ A ∧ m.2.1 ≤ A ∧ m.2.2.1 ≤ A ∧ m.2.2.2.1 ≤ A

/-- exit: the remainder that was just reduced became zero. -/
theorem final (A B : ℕ) (hB0 : 0 < B) (hBA : B ≤ A) (flag : Bool) (X U V U' V' : ℕ)
    (h : HInv A B (sgn flag) X 0 U V U' V') (hX : 0 < X) (hU : U ≤ U') (hV : V ≤ V') (hU' : 1 ≤ U') :
    Post A B (U, V, U', V', flag) := by
  obtain ⟨ex, ey, det, hg, eA, eB, xW, yW, pos⟩ := h
  rw [Nat.gcd_zero_right] at hg
  simp only [Nat.mul_zero, Nat.add_zero] at eA eB
  have hV'1 : V' ≤ V' * X := Nat.le_mul_of_pos_right _ hX
  have hU'1 : U' ≤ U' * X := Nat.le_mul_of_pos_right _ hX
  have hap : applyZ (U, V, U', V', flag) A B = ((X : ℤ), 0) := by
    cases flag
    · simp only [sgn, Bool.false_eq_true, if_false] at ex ey
      simp only [applyZ, Bool.false_eq_true, if_false]
      refine Prod.ext ?_ ?_
      · show (V : ℤ) * B - U * A = X
        linear_combination (-1 : ℤ) * ex
      · show (U' : ℤ) * A - V' * B = 0
        push_cast at ey; linear_combination (-1 : ℤ) * ey
    · simp only [sgn, if_true] at ex ey
      simp only [applyZ, if_true]
      refine Prod.ext ?_ ?_
      · show (U : ℤ) * A - V * B = X
        linear_combination (-1 : ℤ) * ex
      · show (V' : ℤ) * B - U' * A = 0
        push_cast at ey; linear_combination (-1 : ℤ) * ey
  have hXZ : (0 : ℤ) < X := by exact_mod_cast hX
  have hBZ : (0 : ℤ) < B := by exact_mod_cast hB0
  refine ⟨?_, ?_, ?_, ?_, ?_, ?_⟩
  · simp only [good, hap, Bool.and_eq_true, decide_eq_true_eq]
    exact ⟨⟨⟨⟨⟨⟨det, hU⟩, hV⟩, hU'⟩, le_refl _⟩, hXZ⟩, hBZ⟩
  · rw [hap, ← hg]
  · show U ≤ A
    omega
  · show V ≤ A
    omega
  · show U' ≤ A
    omega
  · show V' ≤ A
    omega

/-- the loop of `from_u64`: with fuel above `r1` it exits through one of the two `return`s. -/
theorem loop_spec (A B : ℕ) (hA : A < W) (hB0 : 0 < B) (hBA : B ≤ A) (f : ℕ) :
    ∀ r0 r1 q00 q01 q10 q11 : ℕ, HInv A B 1 r0 r1 q00 q01 q10 q11 → 0 < r1 → r1 ≤ r0 → r1 < f →
      Post A B (fromU64Loop f r0 r1 q00 q01 q10 q11) := by
  have hB : B < W := by omega
  induction f with
  | zero => intro r0 r1 q00 q01 q10 q11 _ _ _ hf; omega
  | succ f ih =>
    intro r0 r1 q00 q01 q10 q11 h hr1 hle hf
    obtain ⟨e1, e2, e3, h', m1, m2, m3, hlt⟩ := half_step A B hA hB 1 _ _ _ _ _ _ h hr1 hle
    simp only [fromU64Loop, e1, e2, e3]
    split
    · next hz =>
      rw [hz] at h'
      have hs : sgn false = -1 := by simp [sgn]
      exact final A B hB0 hBA false r1 q10 q11 _ _ (by rw [hs]; exact h') hr1 m1 m2 m3
    · next hnz =>
      have hr0' : 0 < r0 % r1 := Nat.pos_of_ne_zero hnz
      obtain ⟨e1', e2', e3', h'', n1, n2, n3, hlt'⟩ :=
        half_step A B hA hB (-1) _ _ _ _ _ _ h' hr0' (le_of_lt hlt)
      rw [neg_neg] at h''
      simp only [e1', e2', e3']
      split
      · next hz' =>
        rw [hz'] at h''
        have hs : sgn true = 1 := by simp [sgn]
        exact final A B hB0 hBA true _ _ _ _ _ (by rw [hs]; exact h'') hr0' n1 n2 n3
      · next hnz' =>
        exact ih _ _ _ _ _ _ h'' (Nat.pos_of_ne_zero hnz') (le_of_lt hlt') (by omega)

/-- `from_u64` is total on its documented domain, never wraps, and returns a matrix that meets the
    Lehmer contract and maps `(r0, r1)` to `(gcd, 0)`. -/
theorem fromU64_spec (r0 r1 : ℕ) (hle : r1 ≤ r0) (hW : r0 < W) :
    ∃ m, fromU64 r0 r1 = some m ∧
      (r1 = 0 → m = ident) ∧
      (0 < r1 → good r0 r1 m = true
        ∧ applyZ m r0 r1 = ((Nat.gcd r0 r1 : ℤ), 0)
        ∧ m.1 ≤ r0 ∧ m.2.1 ≤ r0 ∧ m.2.2.1 ≤ r0 ∧ m.2.2.2.1 ≤ r0) := by
  unfold fromU64
  rw [if_neg (by omega)]
  by_cases h0 : r1 = 0
  · rw [if_pos h0]
    exact ⟨ident, rfl, fun _ => rfl, fun h => by omega⟩
  · rw [if_neg h0]
    refine ⟨_, rfl, fun h => absurd h h0, fun hpos => ?_⟩
    have hinit : HInv r0 r1 1 r0 r1 1 0 0 1 := by
      refine ⟨?_, ?_, ?_, rfl, ?_, ?_, hW, by omega, by omega⟩
      · push_cast; ring
      · push_cast; ring
      · norm_num
      · omega
      · omega
    exact loop_spec r0 r1 hW hpos hle (r1 + 1) r0 r1 1 0 0 1 hinit hpos hle (by omega)

example : fromU64 252 105 = some (2, 5, 5, 12, false) := by decide
example : fromU64 5 0 = some ident := by decide
example : fromU64 3 7 = none := by decide

end Ruint.Lehmer
