import Ruint.Model.Bits
import Ruint.Lemmas.Basic

/-! Lemmas for C06 (and the bit-level toolkit C05 uses): `val` versus `Nat.testBit`, limb-wise logic,
    word primitives. -/
namespace Ruint.Bits
open Ruint

/-! ## constants -/

theorem val_replicate_zero (n : ℕ) : val (List.replicate n 0) = 0 := by
  induction n with
  | zero => rfl
  | succ n ih => simp [List.replicate_succ, ih]

theorem allLt_replicate_zero (n : ℕ) : AllLt (List.replicate n 0) := by
  intro x hx; simp only [List.mem_replicate] at hx; rw [hx.2]; exact W_pos

theorem zero_canon (bits : ℕ) : Canon bits (zero bits) ∧ val (zero bits) = 0 := by
  refine ⟨⟨by simp [zero], allLt_replicate_zero _, ?_⟩, val_replicate_zero _⟩
  rw [zero, val_replicate_zero]; positivity

theorem val_replicate_max (n : ℕ) : val (List.replicate n (W - 1)) = W ^ n - 1 := by
  induction n with
  | zero => rfl
  | succ n ih =>
    simp only [List.replicate_succ, val_cons, ih, pow_succ]
    have h1 : 0 < W ^ n := by have := W_pos; positivity
    have h2 := W_pos
    have : W * (W ^ n - 1) = W ^ n * W - W := by
      rw [Nat.mul_sub, Nat.mul_one, Nat.mul_comm]
    rw [this]
    have : W ≤ W ^ n * W := Nat.le_mul_of_pos_left W h1
    omega

/-- `(k·M − 1) mod M = M − 1`. -/
theorem pred_mul_mod (M k : ℕ) (hM : 0 < M) (hk : 0 < k) : (M * k - 1) % M = M - 1 := by
  have : M * k - 1 = (M - 1) + M * (k - 1) := by
    have : M * k = M * (k - 1) + M := by
      rw [← Nat.mul_succ]; congr 1; omega
    omega
  rw [this, Nat.add_mul_mod_self_left, Nat.mod_eq_of_lt (by omega)]

theorem maxU_canon (bits : ℕ) : Canon bits (maxU bits) ∧ val (maxU bits) = 2 ^ bits - 1 := by
  rcases Nat.eq_zero_or_pos bits with h | h
  · subst h; simp [maxU, nlimbs, maskTop, Canon, AllLt]
  · have hl : (List.replicate (nlimbs bits) (W - 1)).length = nlimbs bits := by simp
    have ha : AllLt (List.replicate (nlimbs bits) (W - 1)) := by
      intro x hx; simp only [List.mem_replicate] at hx; rw [hx.2]; have := W_pos; omega
    obtain ⟨h1, h2, _⟩ := maskTop_spec bits h _ hl ha
    refine ⟨h1, ?_⟩
    unfold maxU
    rw [h2, val_replicate_max]
    obtain ⟨k, hk⟩ := pow_dvd_W bits
    have hp : 0 < 2 ^ bits := by positivity
    have hkpos : 0 < k := by
      rcases Nat.eq_zero_or_pos k with h | h
      · subst h; have := W_pos; have : 0 < W ^ nlimbs bits := by positivity
        omega
      · exact h
    rw [hk, pred_mul_mod _ _ hp hkpos]

/-! ## list toolkit -/

theorem take_drop_val (a : List ℕ) (m : ℕ) (hm : m ≤ a.length) :
    val a = val (a.take m) + W ^ m * val (a.drop m) := by
  conv_lhs => rw [← List.take_append_drop m a]
  rw [val_append, List.length_take, Nat.min_eq_left hm]

theorem allLt_take {a : List ℕ} (h : AllLt a) (m : ℕ) : AllLt (a.take m) :=
  fun x hx => h x (List.mem_of_mem_take hx)
theorem allLt_drop {a : List ℕ} (h : AllLt a) (m : ℕ) : AllLt (a.drop m) :=
  fun x hx => h x (List.mem_of_mem_drop hx)
theorem allLt_reverse {a : List ℕ} (h : AllLt a) : AllLt a.reverse :=
  fun x hx => h x (List.mem_reverse.mp hx)

theorem val_eq_zero_iff (l : List ℕ) : val l = 0 ↔ ∀ x ∈ l, x = 0 := by
  induction l with
  | nil => simp
  | cons x xs ih =>
    have hW := W_pos
    simp only [val_cons, List.mem_cons, forall_eq_or_imp]
    constructor
    · intro h
      have h1 : x = 0 := by omega
      have h2 : W * val xs = 0 := by omega
      have h3 : val xs = 0 := by
        rcases Nat.mul_eq_zero.mp h2 with h | h
        · omega
        · exact h
      exact ⟨h1, ih.mp h3⟩
    · rintro ⟨h1, h2⟩
      rw [h1, ih.mpr h2]; simp

/-! ## `val` and `testBit` -/

theorem W_two_pow : W = 2 ^ 64 := rfl

/-- bit `i` of a limb list is bit `i % 64` of limb `i / 64`. -/
theorem val_testBit (l : List ℕ) (h : AllLt l) (i : ℕ) :
    (val l).testBit i = (l.getD (i / 64) 0).testBit (i % 64) := by
  induction l generalizing i with
  | nil => simp
  | cons x xs ih =>
    have hx : x < 2 ^ 64 := h.head
    rw [val_cons, Nat.add_comm, W_two_pow, Nat.testBit_two_pow_mul_add _ hx]
    by_cases hi : i < 64
    · have h0 : i / 64 = 0 := by omega
      have h1 : i % 64 = i := by omega
      simp [hi, h0, h1]
    · have h0 : i / 64 = (i - 64) / 64 + 1 := by omega
      have h1 : i % 64 = (i - 64) % 64 := by omega
      simp only [hi, if_false, h0, List.getD_cons_succ, h1]
      exact ih h.tail (i - 64)

theorem val_testBit_lt (bits : ℕ) (l : List ℕ) (h : Canon bits l) (i : ℕ) (hi : bits ≤ i) :
    (val l).testBit i = false :=
  Nat.testBit_lt_two_pow (lt_of_lt_of_le h.val_lt (Nat.pow_le_pow_right (by norm_num) hi))

/-! ## limb-wise logic -/

theorem lor_split (p q x y : ℕ) (hx : x < 2 ^ 64) (hy : y < 2 ^ 64) :
    (2 ^ 64 * p + x) ||| (2 ^ 64 * q + y) = 2 ^ 64 * (p ||| q) + (x ||| y) := by
  apply Nat.eq_of_testBit_eq
  intro i
  rw [Nat.testBit_or, Nat.testBit_two_pow_mul_add _ hx, Nat.testBit_two_pow_mul_add _ hy,
    Nat.testBit_two_pow_mul_add _ (Nat.or_lt_two_pow hx hy)]
  split <;> simp [Nat.testBit_or]

theorem land_split (p q x y : ℕ) (hx : x < 2 ^ 64) (hy : y < 2 ^ 64) :
    (2 ^ 64 * p + x) &&& (2 ^ 64 * q + y) = 2 ^ 64 * (p &&& q) + (x &&& y) := by
  apply Nat.eq_of_testBit_eq
  intro i
  rw [Nat.testBit_and, Nat.testBit_two_pow_mul_add _ hx, Nat.testBit_two_pow_mul_add _ hy,
    Nat.testBit_two_pow_mul_add _ (Nat.and_lt_two_pow x hy)]
  split <;> simp [Nat.testBit_and]

theorem xor_split (p q x y : ℕ) (hx : x < 2 ^ 64) (hy : y < 2 ^ 64) :
    (2 ^ 64 * p + x) ^^^ (2 ^ 64 * q + y) = 2 ^ 64 * (p ^^^ q) + (x ^^^ y) := by
  apply Nat.eq_of_testBit_eq
  intro i
  rw [Nat.testBit_xor, Nat.testBit_two_pow_mul_add _ hx, Nat.testBit_two_pow_mul_add _ hy,
    Nat.testBit_two_pow_mul_add _ (Nat.xor_lt_two_pow hx hy)]
  split <;> simp [Nat.testBit_xor]

theorem bitOr_spec (a b : List ℕ) (hl : a.length = b.length) (ha : AllLt a) (hb : AllLt b) :
    val (bitOr a b) = val a ||| val b ∧ (bitOr a b).length = a.length ∧ AllLt (bitOr a b) := by
  induction a generalizing b with
  | nil => cases b <;> simp_all [bitOr, AllLt]
  | cons x xs ih =>
    cases b with
    | nil => simp at hl
    | cons y ys =>
      simp only [List.length_cons, Nat.add_right_cancel_iff] at hl
      obtain ⟨i1, i2, i3⟩ := ih ys hl ha.tail hb.tail
      have hx : x < 2 ^ 64 := ha.head
      have hy : y < 2 ^ 64 := hb.head
      unfold bitOr at *
      simp only [List.zipWith_cons_cons, val_cons, List.length_cons]
      refine ⟨?_, by rw [i2], AllLt.cons (Nat.or_lt_two_pow hx hy) i3⟩
      rw [i1, Nat.add_comm x, Nat.add_comm y, W_two_pow, lor_split _ _ _ _ hx hy, Nat.add_comm]

theorem bitAnd_spec (a b : List ℕ) (hl : a.length = b.length) (ha : AllLt a) (hb : AllLt b) :
    val (bitAnd a b) = val a &&& val b ∧ (bitAnd a b).length = a.length ∧ AllLt (bitAnd a b) := by
  induction a generalizing b with
  | nil => cases b <;> simp_all [bitAnd, AllLt]
  | cons x xs ih =>
    cases b with
    | nil => simp at hl
    | cons y ys =>
      simp only [List.length_cons, Nat.add_right_cancel_iff] at hl
      obtain ⟨i1, i2, i3⟩ := ih ys hl ha.tail hb.tail
      have hx : x < 2 ^ 64 := ha.head
      have hy : y < 2 ^ 64 := hb.head
      unfold bitAnd at *
      simp only [List.zipWith_cons_cons, val_cons, List.length_cons]
      refine ⟨?_, by rw [i2], AllLt.cons (Nat.and_lt_two_pow x hy) i3⟩
      rw [i1, Nat.add_comm x, Nat.add_comm y, W_two_pow, land_split _ _ _ _ hx hy, Nat.add_comm]

theorem bitXor_spec (a b : List ℕ) (hl : a.length = b.length) (ha : AllLt a) (hb : AllLt b) :
    val (bitXor a b) = val a ^^^ val b ∧ (bitXor a b).length = a.length ∧ AllLt (bitXor a b) := by
  induction a generalizing b with
  | nil => cases b <;> simp_all [bitXor, AllLt]
  | cons x xs ih =>
    cases b with
    | nil => simp at hl
    | cons y ys =>
      simp only [List.length_cons, Nat.add_right_cancel_iff] at hl
      obtain ⟨i1, i2, i3⟩ := ih ys hl ha.tail hb.tail
      have hx : x < 2 ^ 64 := ha.head
      have hy : y < 2 ^ 64 := hb.head
      unfold bitXor at *
      simp only [List.zipWith_cons_cons, val_cons, List.length_cons]
      refine ⟨?_, by rw [i2], AllLt.cons (Nat.xor_lt_two_pow hx hy) i3⟩
      rw [i1, Nat.add_comm x, Nat.add_comm y, W_two_pow, xor_split _ _ _ _ hx hy, Nat.add_comm]

/-- `a ||| b = a + b` when `a` is a multiple of `2^k` and `b < 2^k`. -/
theorem lor_eq_add (k a b : ℕ) (hb : b < 2 ^ k) : 2 ^ k * a ||| b = 2 ^ k * a + b :=
  (Nat.two_pow_add_eq_or_of_lt hb a).symm

/-- binary-logic results of canonical values are canonical. -/
theorem lt_two_pow_of_testBit (bits x : ℕ) (h : ∀ i, bits ≤ i → x.testBit i = false) : x < 2 ^ bits := by
  by_contra hc
  push Not at hc
  obtain ⟨i, hi, hb⟩ := Nat.exists_ge_and_testBit_of_ge_two_pow hc
  rw [h i hi] at hb
  exact Bool.false_ne_true hb

theorem and_two_pow_ne_zero (x k : ℕ) : (x &&& 2 ^ k != 0) = x.testBit k := by
  cases h : x.testBit k
  · have : x &&& 2 ^ k = 0 := by
      apply Nat.eq_of_testBit_eq; intro j
      rw [Nat.testBit_and, Nat.testBit_two_pow, Nat.zero_testBit]
      by_cases hj : k = j
      · subst hj; simp [h]
      · simp [hj]
    simp [this]
  · have : (x &&& 2 ^ k).testBit k = true := by
      rw [Nat.testBit_and, Nat.testBit_two_pow]; simp [h]
    have hne : x &&& 2 ^ k ≠ 0 := by intro h0; rw [h0] at this; simp at this
    simp [hne]

theorem bit_spec (bits : ℕ) (a : List ℕ) (ha : AllLt a) (i : ℕ) :
    bit bits a i = (decide (i < bits) && (val a).testBit i) := by
  unfold bit
  by_cases h : i ≥ bits
  · have : ¬ i < bits := by omega
    simp [h, this]
  · have : i < bits := by omega
    simp only [h, if_false, this, decide_true, Bool.true_and]
    rw [and_two_pow_ne_zero, val_testBit a ha]

/-! ## `not` -/

theorem wnot_lt (x : ℕ) : wnot x < W := by unfold wnot; have := W_pos; omega

theorem val_map_wnot (l : List ℕ) (h : AllLt l) :
    val (l.map wnot) + val l + 1 = W ^ l.length ∧ AllLt (l.map wnot) := by
  induction l with
  | nil => simp [AllLt]
  | cons x xs ih =>
    obtain ⟨i1, i2⟩ := ih h.tail
    have hx : x < W := h.head
    refine ⟨?_, AllLt.cons (wnot_lt x) i2⟩
    simp only [List.map_cons, val_cons, List.length_cons, pow_succ, wnot]
    generalize val (xs.map wnot) = r at *
    generalize W ^ xs.length = P at *
    have : W - 1 - x + x + 1 = W := by omega
    nlinarith

/-- `not`: canonical, value `2^bits − 1 − a`. -/
theorem not_val (bits : ℕ) (a : List ℕ) (ha : Canon bits a) :
    Canon bits (not bits a) ∧ val (not bits a) = 2 ^ bits - 1 - val a := by
  unfold not
  rcases Nat.eq_zero_or_pos bits with h0 | hpos
  · subst h0
    have ea := canon_zero_bits a ha
    subst ea
    simp [(zero_canon 0).1, (zero_canon 0).2]
  · have hne : bits ≠ 0 := by omega
    simp only [hne, if_false]
    obtain ⟨v1, v2⟩ := val_map_wnot a ha.2.1
    obtain ⟨m1, m2, _⟩ := maskTop_spec bits hpos (a.map wnot) (by simp [ha.1]) v2
    refine ⟨m1, ?_⟩
    rw [m2]
    obtain ⟨k, hk⟩ := pow_dvd_W bits
    have hA := ha.val_lt
    have hp : 0 < 2 ^ bits := by positivity
    have hkpos : 0 < k := by
      rcases Nat.eq_zero_or_pos k with h | h
      · subst h; have := W_pos; have : 0 < W ^ nlimbs bits := by positivity
        omega
      · exact h
    rw [ha.1, hk] at v1
    have e : val (a.map wnot) = (2 ^ bits - 1 - val a) + 2 ^ bits * (k - 1) := by
      have : 2 ^ bits * k = 2 ^ bits * (k - 1) + 2 ^ bits := by
        rw [← Nat.mul_succ]; congr 1; omega
      omega
    rw [e, Nat.add_mul_mod_self_left, Nat.mod_eq_of_lt (by omega)]

theorem testBit_not (bits A i : ℕ) (hA : A < 2 ^ bits) :
    (2 ^ bits - 1 - A).testBit i = (decide (i < bits) && !A.testBit i) := by
  have : 2 ^ bits - 1 - A = 2 ^ bits - (A + 1) := by omega
  rw [this, Nat.testBit_two_pow_sub_succ hA]

/-! ## limb extraction -/

theorem getD_lt (l : List ℕ) (h : AllLt l) (k : ℕ) : l.getD k 0 < W := by
  rw [List.getD_eq_getElem?_getD]
  cases hk : l[k]? with
  | none => exact W_pos
  | some x => exact h x (List.mem_of_getElem? hk)

theorem val_drop (l : List ℕ) (h : AllLt l) (k : ℕ) : val (l.drop k) = val l / W ^ k := by
  by_cases hk : k ≤ l.length
  · have e := take_drop_val l k hk
    have hlt := val_lt_pow _ (allLt_take h k)
    rw [List.length_take, Nat.min_eq_left hk] at hlt
    have hp : 0 < W ^ k := by have := W_pos; positivity
    rw [e, Nat.add_mul_div_left _ _ hp, Nat.div_eq_of_lt hlt, Nat.zero_add]
  · have hd : l.drop k = [] := List.drop_eq_nil_of_le (by omega)
    have hlt := val_lt_pow l h
    have : W ^ l.length ≤ W ^ k := Nat.pow_le_pow_right W_pos (by omega)
    rw [hd, Nat.div_eq_of_lt (by omega)]; rfl

theorem val_drop_cons (l : List ℕ) (k : ℕ) :
    val (l.drop k) = l.getD k 0 + W * val (l.drop (k + 1)) := by
  by_cases hk : k < l.length
  · rw [List.drop_eq_getElem_cons hk, val_cons, List.getD_eq_getElem?_getD,
      List.getElem?_eq_getElem hk]; rfl
  · have h1 : l.drop k = [] := List.drop_eq_nil_of_le (by omega)
    have h2 : l.drop (k + 1) = [] := List.drop_eq_nil_of_le (by omega)
    have h3 : l.getD k 0 = 0 := by
      rw [List.getD_eq_getElem?_getD, List.getElem?_eq_none (by omega)]; rfl
    rw [h1, h2, h3]; rfl

/-- limb `k` is `⌊val / W^k⌋ mod W`. -/
theorem getD_eq_div_mod (l : List ℕ) (h : AllLt l) (k : ℕ) : l.getD k 0 = val l / W ^ k % W := by
  rw [← val_drop l h k, val_drop_cons, Nat.add_mul_mod_self_left, Nat.mod_eq_of_lt (getD_lt l h k)]

/-! ## `byte` -/

theorem byte_val (l : List ℕ) (h : AllLt l) (i : ℕ) :
    l.getD (i / 8) 0 / 256 ^ (i % 8) % 256 = val l / 256 ^ i % 256 := by
  have hW : W = 256 ^ (i % 8) * (256 * 256 ^ (7 - i % 8)) := by
    rw [← pow_succ', ← pow_add]
    have : i % 8 + (7 - i % 8 + 1) = 8 := by omega
    rw [this]; rfl
  have hi : 256 ^ i = W ^ (i / 8) * 256 ^ (i % 8) := by
    have : W = 256 ^ 8 := rfl
    rw [this, ← pow_mul, ← pow_add]; congr 1; omega
  rw [hi, ← Nat.div_div_eq_div_mul, ← val_drop l h, val_drop_cons]
  generalize l.getD (i / 8) 0 = x
  generalize val (l.drop (i / 8 + 1)) = rest
  have hp : 0 < 256 ^ (i % 8) := by positivity
  rw [hW, Nat.mul_assoc, Nat.add_mul_div_left _ _ hp, Nat.mul_assoc, Nat.add_mul_mod_self_left]

/-! ## `set_bit` -/

theorem wnot_two_pow_testBit (k m : ℕ) (hk : k < 64) :
    (wnot (2 ^ k)).testBit m = (decide (m < 64) && !decide (k = m)) := by
  have h : 2 ^ k < 2 ^ 64 := Nat.pow_lt_pow_right (by norm_num) hk
  have : wnot (2 ^ k) = 2 ^ 64 - (2 ^ k + 1) := by unfold wnot W; omega
  rw [this, Nat.testBit_two_pow_sub_succ h, Nat.testBit_two_pow]

theorem getD_modify (l : List ℕ) (f : ℕ → ℕ) (i j : ℕ) :
    (l.modify i f).getD j 0 = if i = j ∧ j < l.length then f (l.getD j 0) else l.getD j 0 := by
  rw [List.getD_eq_getElem?_getD, List.getD_eq_getElem?_getD, List.getElem?_modify]
  by_cases hj : j < l.length
  · rw [List.getElem?_eq_getElem hj]
    by_cases hij : i = j <;> simp [hij, hj]
  · rw [List.getElem?_eq_none (by omega)]
    simp [hj]

theorem allLt_modify (l : List ℕ) (h : AllLt l) (f : ℕ → ℕ) (hf : ∀ x, x < W → f x < W) (i : ℕ) :
    AllLt (l.modify i f) := by
  induction l generalizing i with
  | nil => simpa using h
  | cons x xs ih =>
    cases i with
    | zero => exact AllLt.cons (hf x h.head) h.tail
    | succ i => exact AllLt.cons h.head (ih h.tail i)

/-- `set_bit`: canonical; exactly the addressed bit is written, an out-of-range index writes nothing. -/
theorem setBit_spec (bits : ℕ) (a : List ℕ) (i : ℕ) (v : Bool) (ha : Canon bits a) :
    Canon bits (setBit bits a i v)
    ∧ ∀ j, (val (setBit bits a i v)).testBit j
        = if j = i ∧ i < bits then v else (val a).testBit j := by
  unfold setBit
  by_cases hi : i ≥ bits
  · simp only [hi, if_true]
    refine ⟨ha, fun j => ?_⟩
    have : ¬ (j = i ∧ i < bits) := by omega
    simp [this]
  · simp only [hi, if_false]
    have hib : i < bits := by omega
    have hk : i % 64 < 64 := Nat.mod_lt _ (by norm_num)
    have hpow : 2 ^ (i % 64) < 2 ^ 64 := Nat.pow_lt_pow_right (by norm_num) hk
    have hil : i / 64 < a.length := by rw [ha.1]; unfold nlimbs; omega
    have hall : AllLt (a.modify (i / 64) fun x =>
        if v = true then x ||| 2 ^ (i % 64) else x &&& wnot (2 ^ (i % 64))) := by
      apply allLt_modify a ha.2.1
      intro x hx
      split
      · exact Nat.or_lt_two_pow hx hpow
      · exact lt_of_le_of_lt Nat.and_le_left hx
    have hbits : ∀ j, (val (a.modify (i / 64) fun x =>
        if v = true then x ||| 2 ^ (i % 64) else x &&& wnot (2 ^ (i % 64)))).testBit j
        = if j = i ∧ i < bits then v else (val a).testBit j := by
      intro j
      rw [val_testBit _ hall, getD_modify, val_testBit a ha.2.1]
      by_cases hj : j = i
      · subst hj
        simp only [true_and, hil, if_true, hib]
        cases v
        · simp [Nat.testBit_and, wnot_two_pow_testBit _ _ hk]
        · simp [Nat.testBit_or]
      · have hne : ¬ (j = i ∧ i < bits) := fun h => hj h.1
        simp only [hne, if_false]
        by_cases hq : i / 64 = j / 64 ∧ j / 64 < a.length
        · simp only [hq, and_self, if_true]
          have hm : i % 64 ≠ j % 64 := by omega
          have hjm : j % 64 < 64 := Nat.mod_lt _ (by norm_num)
          cases v
          · simp [Nat.testBit_and, wnot_two_pow_testBit _ _ hk, hm, hjm]
          · simp [Nat.testBit_or, hm]
        · simp only [hq, if_false]
    refine ⟨⟨by rw [List.length_modify, ha.1], hall, ?_⟩, hbits⟩
    apply lt_two_pow_of_testBit
    intro j hj
    rw [hbits j]
    have hne : ¬ (j = i ∧ i < bits) := by omega
    simp only [hne, if_false]
    exact val_testBit_lt bits a ha j hj

/-! ## bit length -/

/-- number of significant bits: `0` for `0`, else `⌊log₂ x⌋ + 1` (`Nat.size`). -/
def size (x : ℕ) : ℕ := if x = 0 then 0 else Nat.log2 x + 1

theorem size_zero : size 0 = 0 := rfl

/-- `size` is pinned by `2^(L-1) ≤ x < 2^L`. -/
theorem size_unique (x L : ℕ) (hx : x ≠ 0) (h1 : x < 2 ^ L) (h2 : 2 ^ (L - 1) ≤ x) : size x = L := by
  unfold size
  simp only [hx, if_false]
  have hL : L ≠ 0 := by
    intro h; subst h; simp at h1; omega
  have a1 : x.log2 < L := (Nat.log2_lt hx).mpr h1
  have a2 : ¬ x.log2 < L - 1 := by
    rw [Nat.log2_lt hx]; omega
  omega

theorem size_bounds (x : ℕ) : x < 2 ^ size x ∧ (x ≠ 0 → 2 ^ (size x - 1) ≤ x) := by
  unfold size
  by_cases hx : x = 0
  · subst hx; simp
  · simp only [hx, if_false, ne_eq, not_false_eq_true, Nat.add_sub_cancel, forall_true_left]
    exact ⟨Nat.lt_log2_self, Nat.log2_self_le hx⟩

theorem size_le (x bits : ℕ) (h : x < 2 ^ bits) : size x ≤ bits := by
  unfold size
  by_cases hx : x = 0
  · simp [hx]
  · simp only [hx, if_false]
    have := (Nat.log2_lt hx).mpr h
    omega

theorem bitLenAux_zero (f : ℕ) : bitLenAux f 0 = 0 := by cases f <;> simp [bitLenAux]

theorem bitLenAux_spec (f x : ℕ) (h : x < 2 ^ f) : bitLenAux f x = size x := by
  induction f generalizing x with
  | zero =>
    have : x = 0 := by simpa using h
    subst this; rfl
  | succ f ih =>
    by_cases hx : x = 0
    · subst hx; rfl
    · simp only [bitLenAux, hx, if_false]
      have h2 : x / 2 < 2 ^ f := by rw [pow_succ] at h; omega
      rw [ih (x / 2) h2]
      symm
      by_cases hx2 : x / 2 = 0
      · have : x = 1 := by omega
        subst this
        rw [hx2, size_zero]
        exact size_unique 1 1 (by norm_num) (by norm_num) (by norm_num)
      · obtain ⟨b1, b2⟩ := size_bounds (x / 2)
        have b2 := b2 hx2
        have hs : size (x / 2) ≠ 0 := by
          intro h0; rw [h0] at b1; simp at b1; omega
        apply size_unique x _ hx
        · rw [pow_succ]; omega
        · rw [Nat.add_sub_cancel]
          have : 2 ^ size (x / 2) = 2 ^ (size (x / 2) - 1) * 2 := by
            rw [← pow_succ]; congr 1; omega
          omega

/-- spec of the word primitive behind `u64::leading_zeros`. -/
theorem bitLen64_spec (x : ℕ) (h : x < W) : bitLen64 x = size x ∧ bitLen64 x ≤ 64 := by
  have := bitLenAux_spec 64 x h
  exact ⟨this, by unfold bitLen64; rw [this]; exact size_le x 64 h⟩

theorem clz64_spec (x : ℕ) (h : x < W) : clz64 x + size x = 64 := by
  obtain ⟨h1, h2⟩ := bitLen64_spec x h
  unfold clz64; omega

theorem size_mask (bits : ℕ) (hpos : 0 < bits) : size (mask bits) = topBits bits := by
  obtain ⟨t1, t2, _⟩ := topBits_range bits hpos
  rw [mask_eq bits hpos]
  have hp : 2 ^ topBits bits = 2 ^ (topBits bits - 1) * 2 := by
    rw [← pow_succ]; congr 1; omega
  have : 0 < 2 ^ (topBits bits - 1) := by positivity
  apply size_unique
  · omega
  · omega
  · omega

/-! ## highest non-zero limb -/

theorem rposNonzero_spec (l : List ℕ) :
    match rposNonzero l with
    | none => val l = 0
    | some i => i < l.length ∧ l.getD i 0 ≠ 0 ∧ val (l.drop (i + 1)) = 0 := by
  induction l with
  | nil => simp [rposNonzero]
  | cons x xs ih =>
    unfold rposNonzero
    cases h : rposNonzero xs with
    | some i =>
      rw [h] at ih
      simp only [List.length_cons, List.getD_cons_succ, List.drop_succ_cons]
      exact ⟨by omega, ih.2.1, ih.2.2⟩
    | none =>
      rw [h] at ih
      simp only at ih
      by_cases hx : x ≠ 0
      · rw [if_pos hx]
        simp only [List.length_cons, List.getD_cons_zero, Nat.zero_add, List.drop_succ_cons,
          List.drop_zero]
        exact ⟨by omega, hx, ih⟩
      · rw [if_neg hx]
        have : x = 0 := by simpa using hx
        simp only [val_cons, this, ih, Nat.mul_zero, Nat.add_zero]

/-- value bounds from the highest non-zero limb `x` at position `i`. -/
theorem size_of_top (l : List ℕ) (h : AllLt l) (i : ℕ) (hi : i < l.length)
    (hx : l.getD i 0 ≠ 0) (hz : val (l.drop (i + 1)) = 0) :
    size (val l) = 64 * i + size (l.getD i 0) ∧ val l / W ^ i = l.getD i 0 := by
  have e := take_drop_val l i (by omega)
  have hlo := val_lt_pow _ (allLt_take h i)
  rw [List.length_take, Nat.min_eq_left (by omega)] at hlo
  rw [val_drop_cons, hz, Nat.mul_zero, Nat.add_zero] at e
  have hxW := getD_lt l h i
  generalize l.getD i 0 = x at *
  obtain ⟨b1, b2⟩ := size_bounds x
  have b2 := b2 hx
  have hP : W ^ i = 2 ^ (64 * i) := by unfold W; rw [← pow_mul]
  have hPpos : 0 < W ^ i := by have := W_pos; positivity
  have hs : size x ≠ 0 := by
    intro h0; rw [h0] at b1; simp at b1; omega
  constructor
  · apply size_unique
    · have : 0 < W ^ i * x := Nat.mul_pos hPpos (Nat.pos_of_ne_zero hx)
      omega
    · rw [e, pow_add, ← hP]
      have : W ^ i * (x + 1) ≤ W ^ i * 2 ^ size x := Nat.mul_le_mul_left _ b1
      nlinarith
    · have : 64 * i + size x - 1 = 64 * i + (size x - 1) := by omega
      rw [this, pow_add, ← hP, e]
      have : W ^ i * 2 ^ (size x - 1) ≤ W ^ i * x := Nat.mul_le_mul_left _ b2
      omega
  · rw [e, Nat.add_mul_div_left _ _ hPpos, Nat.div_eq_of_lt hlo, Nat.zero_add]

/-- `leading_zeros = BITS − (number of significant bits)`; `bit_len` is the number of significant
    bits. -/
theorem leadingZeros_spec (bits : ℕ) (a : List ℕ) (ha : Canon bits a) :
    leadingZeros bits a = bits - size (val a) := by
  unfold leadingZeros
  have hr := rposNonzero_spec a
  cases h : rposNonzero a with
  | none =>
    rw [h] at hr
    simp only at hr ⊢
    rw [hr, size_zero, Nat.sub_zero]
  | some i =>
    rw [h] at hr
    simp only at hr ⊢
    obtain ⟨h1, h2, h3⟩ := hr
    have hpos : 0 < bits := by
      rcases Nat.eq_zero_or_pos bits with h0 | h0
      · subst h0; have := canon_zero_bits a ha; subst this; simp at h1
      · exact h0
    obtain ⟨s1, _⟩ := size_of_top a ha.2.1 i h1 h2 h3
    have c1 := clz64_spec (a.getD i 0) (getD_lt a ha.2.1 i)
    have c2 := clz64_spec (mask bits) (mask_lt_W bits)
    rw [size_mask bits hpos] at c2
    obtain ⟨t1, t2, t3⟩ := topBits_range bits hpos
    have hle := size_le (val a) bits ha.val_lt
    rw [ha.1] at h1
    rw [s1] at hle ⊢
    generalize size (a.getD i 0) = Lx at *
    generalize clz64 (a.getD i 0) = cx at *
    generalize clz64 (mask bits) = cm at *
    generalize topBits bits = tb at *
    generalize nlimbs bits = n at *
    omega

/-! ## trailing zeros / ones -/

theorem ctzAux_spec (f x : ℕ) (hx : x ≠ 0) (h : x < 2 ^ f) :
    ∃ o, x = 2 ^ ctzAux f x * o ∧ o % 2 = 1 ∧ ctzAux f x < f := by
  induction f generalizing x with
  | zero => simp at h; omega
  | succ f ih =>
    by_cases hodd : x % 2 = 1
    · exact ⟨x, by simp [ctzAux, hodd], hodd, by simp [ctzAux, hodd]⟩
    · simp only [ctzAux, hodd, if_false]
      have h2 : x / 2 < 2 ^ f := by rw [pow_succ] at h; omega
      obtain ⟨o, e1, e2, e3⟩ := ih (x / 2) (by omega) h2
      refine ⟨o, ?_, e2, by omega⟩
      have : x = 2 * (x / 2) := by omega
      rw [pow_succ, Nat.mul_comm _ 2, Nat.mul_assoc, ← e1]
      exact this

/-- spec of the word primitive behind `u64::trailing_zeros`: `x = 2^ctz · odd` for `x ≠ 0`
    (and `ctz 0 = 64`). -/
theorem ctz64_spec (x : ℕ) (hx : x ≠ 0) (h : x < W) :
    ∃ o, x = 2 ^ ctz64 x * o ∧ o % 2 = 1 ∧ ctz64 x < 64 := by
  unfold ctz64; simp only [hx, if_false]; exact ctzAux_spec 64 x hx h

theorem ctz64_zero : ctz64 0 = 64 := rfl

theorem position_spec (p : ℕ → Bool) (l : List ℕ) :
    match position p l with
    | none => ∀ x ∈ l, p x = false
    | some n => n < l.length ∧ p (l.getD n 0) = true ∧ ∀ x ∈ l.take n, p x = false := by
  induction l with
  | nil => simp [position]
  | cons x xs ih =>
    unfold position
    by_cases hp : p x = true
    · simp [hp]
    · simp only [hp]
      have hpf : p x = false := by simpa using hp
      cases h : position p xs with
      | none =>
        rw [h] at ih
        simp only [Option.map_none]
        intro y hy
        simp only [List.mem_cons] at hy
        rcases hy with rfl | hy
        · exact hpf
        · exact ih y hy
      | some n =>
        rw [h] at ih
        simp only [Option.map_some]
        refine ⟨by simp only [List.length_cons]; omega, by simpa using ih.2.1, ?_⟩
        intro y hy
        rw [List.take_succ_cons] at hy
        simp only [List.mem_cons] at hy
        rcases hy with rfl | hy
        · exact hpf
        · exact ih.2.2 y hy

theorem val_replicate (n x : ℕ) : val (List.replicate n x) * (W - 1) + x = x * W ^ n := by
  induction n with
  | zero => simp
  | succ n ih =>
    simp only [List.replicate_succ, val_cons, pow_succ]
    have hW := W_pos
    obtain ⟨w, hw⟩ : ∃ w, W = w + 1 := ⟨W - 1, by omega⟩
    rw [hw] at ih ⊢
    simp only [Nat.add_sub_cancel] at ih ⊢
    nlinarith

theorem eq_replicate_of_forall (l : List ℕ) (x : ℕ) (h : ∀ y ∈ l, y = x) :
    l = List.replicate l.length x := by
  induction l with
  | nil => rfl
  | cons y ys ih =>
    rw [List.length_cons, List.replicate_succ, h y (by simp), ← ih (fun z hz => h z (by simp [hz]))]

/-- a value whose low `n` limbs are zero. -/
theorem val_low_zero (l : List ℕ) (n : ℕ) (hn : n ≤ l.length) (h : ∀ x ∈ l.take n, x = 0) :
    val l = W ^ n * val (l.drop n) := by
  rw [take_drop_val l n hn]
  have : val (l.take n) = 0 := (val_eq_zero_iff _).mpr h
  rw [this, Nat.zero_add]

/-- `trailing_zeros`: `BITS` for zero, else the exponent of the largest power of two dividing the value. -/
theorem trailingZeros_spec (bits : ℕ) (a : List ℕ) (ha : Canon bits a) :
    (val a = 0 → trailingZeros bits a = bits)
    ∧ (val a ≠ 0 → ∃ m, val a = 2 ^ trailingZeros bits a * m ∧ m % 2 = 1) := by
  unfold trailingZeros
  have hp := position_spec (fun l => l != 0) a
  cases h : position (fun l => l != 0) a with
  | none =>
    rw [h] at hp
    simp only at hp ⊢
    have hz : val a = 0 := (val_eq_zero_iff a).mpr
      (fun x hx => by simpa using hp x hx)
    exact ⟨fun _ => trivial, fun hne => absurd hz hne⟩
  | some n =>
    rw [h] at hp
    simp only at hp ⊢
    obtain ⟨h1, h2, h3⟩ := hp
    have hx0 : a.getD n 0 ≠ 0 := by simpa using h2
    have e := val_low_zero a n (by omega) (fun x hx => by simpa using h3 x hx)
    rw [val_drop_cons] at e
    obtain ⟨o, o1, o2, o3⟩ := ctz64_spec (a.getD n 0) hx0 (getD_lt a ha.2.1 n)
    have hWc : W = 2 ^ ctz64 (a.getD n 0) * (2 * 2 ^ (63 - ctz64 (a.getD n 0))) := by
      rw [← pow_succ', ← pow_add]; unfold W; congr 1; omega
    have hP : W ^ n = 2 ^ (64 * n) := by unfold W; rw [← pow_mul]
    have hval : val a = 2 ^ (n * 64 + ctz64 (a.getD n 0))
        * (o + 2 * 2 ^ (63 - ctz64 (a.getD n 0)) * val (a.drop (n + 1))) := by
      rw [e, hP, Nat.mul_comm n 64, pow_add, Nat.mul_assoc]
      congr 1
      conv_lhs => rw [o1, hWc]
      ring
    have hne : val a ≠ 0 := by
      rw [e]
      have : 0 < W ^ n := by have := W_pos; positivity
      have : 0 < a.getD n 0 := Nat.pos_of_ne_zero hx0
      have : 0 < W ^ n * (a.getD n 0 + W * val (a.drop (n + 1))) := Nat.mul_pos ‹_› (by omega)
      omega
    refine ⟨fun hz => absurd hz hne, fun _ => ⟨_, hval, ?_⟩⟩
    rw [Nat.mul_assoc, Nat.add_mul_mod_self_left]; exact o2

/-- a value whose low `n` limbs are all-ones. -/
theorem val_low_ones (l : List ℕ) (n : ℕ) (hn : n ≤ l.length) (h : ∀ x ∈ l.take n, x = W - 1) :
    val l + 1 = W ^ n * (val (l.drop n) + 1) := by
  rw [take_drop_val l n hn]
  have hr := eq_replicate_of_forall (l.take n) (W - 1) h
  rw [List.length_take, Nat.min_eq_left hn] at hr
  have hv := val_replicate_max n
  rw [← hr] at hv
  have : 0 < W ^ n := by have := W_pos; positivity
  rw [hv, Nat.mul_add, Nat.mul_one]; omega

/-- `trailing_ones`: the exponent of the largest power of two dividing `value + 1`
    (so `BITS` for `MAX`, whose successor is `2^BITS`). -/
theorem trailingOnes_spec (bits : ℕ) (a : List ℕ) (ha : Canon bits a) :
    ∃ m, val a + 1 = 2 ^ trailingOnes bits a * m ∧ m % 2 = 1 := by
  unfold trailingOnes
  have hp := position_spec (fun l => l != W - 1) a
  cases h : position (fun l => l != W - 1) a with
  | none =>
    rw [h] at hp
    simp only at hp ⊢
    have e := val_low_ones a a.length (le_refl _)
      (fun x hx => by simpa using hp x (List.mem_of_mem_take hx))
    rw [List.drop_length, val_nil, Nat.zero_add, Nat.mul_one, ha.1] at e
    -- W^n - 1 < 2^bits ≤ W^n, and 2^bits ∣ W^n, hence 2^bits = W^n
    obtain ⟨k, hk⟩ := pow_dvd_W bits
    have hA := ha.val_lt
    have hpos : 0 < 2 ^ bits := by positivity
    have hk1 : k = 1 := by
      rcases Nat.lt_trichotomy k 1 with hk0 | hk0 | hk0
      · have : k = 0 := by omega
        subst this; omega
      · exact hk0
      · exfalso
        have : 2 ^ bits * 2 ≤ 2 ^ bits * k := Nat.mul_le_mul_left _ hk0
        omega
    refine ⟨1, ?_, rfl⟩
    rw [e, hk, hk1]
  | some n =>
    rw [h] at hp
    simp only at hp ⊢
    obtain ⟨h1, h2, h3⟩ := hp
    have hxW := getD_lt a ha.2.1 n
    have hx0 : a.getD n 0 ≠ W - 1 := by simpa using h2
    have e := val_low_ones a n (by omega) (fun x hx => by simpa using h3 x hx)
    rw [val_drop_cons] at e
    have hy0 : wnot (a.getD n 0) ≠ 0 := by unfold wnot; omega
    obtain ⟨o, o1, o2, o3⟩ := ctz64_spec (wnot (a.getD n 0)) hy0 (wnot_lt _)
    unfold cto64
    generalize ctz64 (wnot (a.getD n 0)) = c at *
    have hWc : W = 2 ^ c * (2 * 2 ^ (63 - c)) := by
      rw [← pow_succ', ← pow_add]; unfold W; congr 1; omega
    have hP : W ^ n = 2 ^ (64 * n) := by unfold W; rw [← pow_mul]
    -- x + 1 = W - y = 2^c * (2 * 2^(63-c) - o)
    have hole : o ≤ 2 * 2 ^ (63 - c) := by
      by_contra hc
      push Not at hc
      have : 2 ^ c * (2 * 2 ^ (63 - c)) < 2 ^ c * o := Nat.mul_lt_mul_of_pos_left hc (by positivity)
      have := wnot_lt (a.getD n 0)
      omega
    have hx1 : a.getD n 0 + 1 = 2 ^ c * (2 * 2 ^ (63 - c) - o) := by
      rw [Nat.mul_sub, ← hWc, ← o1]; unfold wnot; omega
    refine ⟨(2 * 2 ^ (63 - c) - o) + 2 * 2 ^ (63 - c) * val (a.drop (n + 1)), ?_, ?_⟩
    · rw [e, hP, Nat.mul_comm n 64, pow_add, Nat.mul_assoc]
      congr 1
      have : a.getD n 0 + W * val (a.drop (n + 1)) + 1
          = (a.getD n 0 + 1) + W * val (a.drop (n + 1)) := by omega
      rw [this, hx1]
      conv_lhs => rw [hWc]
      ring
    · rw [Nat.mul_assoc, Nat.add_mul_mod_self_left]
      omega

/-! ## population count -/

/-- number of set bits among positions `0..n-1`. -/
def bitCount (n A : ℕ) : ℕ := (List.range n).countP (fun i => A.testBit i)

theorem popAux_zero (f : ℕ) : popAux f 0 = 0 := by
  induction f with
  | zero => rfl
  | succ f ih => simp [popAux, ih]

/-- spec of the word primitive behind `u64::count_ones`: the number of set bits below `f`. -/
theorem popAux_eq_bitCount (f x : ℕ) : popAux f x = bitCount f x := by
  induction f generalizing x with
  | zero => rfl
  | succ f ih =>
    unfold bitCount at *
    rw [popAux, ih, List.range_succ_eq_map, List.countP_cons, List.countP_map, Nat.add_comm]
    congr 1
    · congr 1; funext i; simp [Nat.testBit_succ]
    · rw [Nat.testBit_zero]
      have := Nat.mod_two_eq_zero_or_one x
      rcases this with h | h <;> simp [h]

theorem popAux_add (f g x y : ℕ) (hx : x < 2 ^ f) :
    popAux (f + g) (x + 2 ^ f * y) = popAux f x + popAux g y := by
  induction f generalizing x with
  | zero =>
    have : x = 0 := by simpa using hx
    subst this; simp [popAux]
  | succ f ih =>
    have h2 : x / 2 < 2 ^ f := by rw [pow_succ] at hx; omega
    have e1 : f + 1 + g = (f + g) + 1 := by omega
    have e2 : (x + 2 ^ (f + 1) * y) % 2 = x % 2 := by
      rw [pow_succ, Nat.mul_comm (2 ^ f) 2, Nat.mul_assoc, Nat.add_mul_mod_self_left]
    have e3 : (x + 2 ^ (f + 1) * y) / 2 = x / 2 + 2 ^ f * y := by
      rw [pow_succ, Nat.mul_comm (2 ^ f) 2, Nat.mul_assoc, Nat.add_mul_div_left _ _ (by norm_num)]
    rw [e1, popAux, e2, e3, ih (x / 2) h2, popAux]
    omega

theorem foldl_add_popcnt (l : List ℕ) (acc : ℕ) :
    l.foldl (fun t x => t + popcnt64 x) acc = acc + l.foldl (fun t x => t + popcnt64 x) 0 := by
  induction l generalizing acc with
  | nil => simp
  | cons x xs ih => simp only [List.foldl_cons, Nat.zero_add]; rw [ih, ih (popcnt64 x)]; omega

theorem countOnes_eq_popAux (l : List ℕ) (h : AllLt l) :
    countOnes l = popAux (64 * l.length) (val l) := by
  induction l with
  | nil => rfl
  | cons x xs ih =>
    unfold countOnes at *
    have hx : x < 2 ^ 64 := h.head
    rw [List.foldl_cons, Nat.zero_add, foldl_add_popcnt, ih h.tail, List.length_cons, val_cons]
    have : 64 * (xs.length + 1) = 64 + 64 * xs.length := by omega
    rw [this, W_two_pow, popAux_add 64 _ x _ hx]; rfl

theorem bitCount_mono (n m A : ℕ) (hnm : n ≤ m) (hA : A < 2 ^ n) : bitCount m A = bitCount n A := by
  unfold bitCount
  obtain ⟨d, rfl⟩ : ∃ d, m = n + d := ⟨m - n, by omega⟩
  rw [List.range_add, List.countP_append, List.countP_map]
  have : List.countP ((fun i => A.testBit i) ∘ fun x => n + x) (List.range d) = 0 := by
    rw [List.countP_eq_zero]
    intro i _
    simp only [Function.comp, Bool.not_eq_true]
    exact Nat.testBit_lt_two_pow (lt_of_lt_of_le hA (Nat.pow_le_pow_right (by norm_num) (by omega)))
  rw [this, Nat.add_zero]

/-- `count_ones` = number of set bits among the `bits` positions. -/
theorem countOnes_spec (bits : ℕ) (a : List ℕ) (ha : Canon bits a) :
    countOnes a = bitCount bits (val a) := by
  rw [countOnes_eq_popAux a ha.2.1, popAux_eq_bitCount, ha.1]
  apply bitCount_mono _ _ _ _ ha.val_lt
  unfold nlimbs; omega

theorem bitCount_le (n A : ℕ) : bitCount n A ≤ n := by
  unfold bitCount
  have := List.countP_le_length (p := fun i => A.testBit i) (l := List.range n)
  simpa using this

/-- `count_zeros` = number of clear bits among the `bits` positions. -/
theorem bitCount_compl (n A : ℕ) :
    n - bitCount n A = (List.range n).countP (fun i => !A.testBit i) := by
  unfold bitCount
  have h := List.length_eq_countP_add_countP (fun i => A.testBit i) (l := List.range n)
  rw [List.length_range] at h
  have e : (List.range n).countP (fun a => decide ¬(fun i => A.testBit i) a = true)
      = (List.range n).countP (fun i => !A.testBit i) := by
    congr 1; funext i; simp
  rw [e] at h
  omega

/-! ## powers of two -/

theorem popAux_eq_zero (f x : ℕ) (hx : x < 2 ^ f) (h : popAux f x = 0) : x = 0 := by
  induction f generalizing x with
  | zero => simpa using hx
  | succ f ih =>
    rw [popAux] at h
    have h2 : x / 2 < 2 ^ f := by rw [pow_succ] at hx; omega
    have := ih (x / 2) h2 (by omega)
    omega

theorem popAux_eq_one_iff (f x : ℕ) (hx : x < 2 ^ f) : popAux f x = 1 ↔ ∃ k, x = 2 ^ k := by
  induction f generalizing x with
  | zero =>
    have : x = 0 := by simpa using hx
    subst this
    simp only [popAux]
    constructor
    · intro h; omega
    · rintro ⟨k, hk⟩
      have : 0 < 2 ^ k := by positivity
      omega
  | succ f ih =>
    have h2 : x / 2 < 2 ^ f := by rw [pow_succ] at hx; omega
    rw [popAux]
    constructor
    · intro h
      rcases Nat.mod_two_eq_zero_or_one x with hm | hm
      · rw [hm, Nat.zero_add] at h
        obtain ⟨k, hk⟩ := (ih (x / 2) h2).mp h
        exact ⟨k + 1, by rw [pow_succ]; omega⟩
      · rw [hm] at h
        have := popAux_eq_zero f (x / 2) h2 (by omega)
        exact ⟨0, by simp; omega⟩
    · rintro ⟨k, hk⟩
      cases k with
      | zero =>
        have : x = 1 := by simpa using hk
        subst this
        simp [popAux_zero]
      | succ k =>
        have hm : x % 2 = 0 := by rw [hk, pow_succ]; omega
        have hd : x / 2 = 2 ^ k := by rw [hk, pow_succ]; omega
        rw [hm, Nat.zero_add]
        exact (ih (x / 2) h2).mpr ⟨k, hd⟩

/-- `is_power_of_two` ⇔ the value is `2^k` for some `k`. -/
theorem isPowerOfTwo_spec (a : List ℕ) (ha : AllLt a) :
    isPowerOfTwo a = true ↔ ∃ k, val a = 2 ^ k := by
  unfold isPowerOfTwo
  rw [beq_iff_eq, countOnes_eq_popAux a ha]
  apply popAux_eq_one_iff
  have := val_lt_pow a ha
  unfold W at this
  rwa [← pow_mul] at this

/-! ## bit reversal of a word -/

theorem revAux_testBit (f x acc j : ℕ) :
    (revAux f x acc).testBit j = if j < f then x.testBit (f - 1 - j) else acc.testBit (j - f) := by
  induction f generalizing x acc with
  | zero => simp [revAux]
  | succ f ih =>
    rw [revAux, ih]
    by_cases h1 : j < f
    · have h2 : j < f + 1 := by omega
      simp only [h1, h2, if_true]
      have : f + 1 - 1 - j = (f - 1 - j) + 1 := by omega
      rw [this, Nat.testBit_succ]
    · simp only [h1, if_false]
      by_cases h2 : j = f
      · subst h2
        simp only [Nat.lt_succ_self, if_true, Nat.sub_self]
        have : j + 1 - 1 - j = 0 := by omega
        rw [this, Nat.testBit_zero, Nat.testBit_zero, Nat.mul_add_mod, Nat.mod_mod]
      · have h3 : ¬ j < f + 1 := by omega
        simp only [h3, if_false]
        have : j - f = (j - (f + 1)) + 1 := by omega
        rw [this, Nat.testBit_succ]
        congr 1
        have := Nat.mod_lt x (show 0 < 2 by norm_num)
        omega

/-- spec of the word primitive behind `u64::reverse_bits`. -/
theorem rev64_testBit (x j : ℕ) : (rev64 x).testBit j = (decide (j < 64) && x.testBit (63 - j)) := by
  unfold rev64
  rw [revAux_testBit]
  by_cases h : j < 64 <;> simp [h]

theorem rev64_lt (x : ℕ) : rev64 x < W := by
  apply lt_two_pow_of_testBit
  intro i hi
  rw [rev64_testBit]
  have : ¬ i < 64 := by omega
  simp [this]

theorem rev64_zero : rev64 0 = 0 := by
  apply Nat.eq_of_testBit_eq
  intro i
  rw [rev64_testBit]; simp

/-- reversing the limb order and each limb reverses all `64·n` bit positions. -/
theorem val_reverse_map_rev64 (l : List ℕ) (h : AllLt l) :
    AllLt (l.reverse.map rev64) ∧ ∀ j, (val (l.reverse.map rev64)).testBit j
      = (decide (j < 64 * l.length) && (val l).testBit (64 * l.length - 1 - j)) := by
  have hall : AllLt (l.reverse.map rev64) := by
    intro y hy
    simp only [List.mem_map] at hy
    obtain ⟨x, _, rfl⟩ := hy
    exact rev64_lt x
  refine ⟨hall, fun j => ?_⟩
  rw [val_testBit _ hall, val_testBit l h, List.getD_eq_getElem?_getD, List.getD_eq_getElem?_getD,
    List.getElem?_map]
  by_cases hj : j < 64 * l.length
  · have hq : j / 64 < l.length := by omega
    have hq' : j / 64 < l.reverse.length := by rw [List.length_reverse]; exact hq
    rw [List.getElem?_reverse hq]
    have e1 : (64 * l.length - 1 - j) / 64 = l.length - 1 - j / 64 := by omega
    have e2 : (64 * l.length - 1 - j) % 64 = 63 - j % 64 := by omega
    have hm : j % 64 < 64 := Nat.mod_lt _ (by norm_num)
    rw [e1, e2]
    cases hx : l[l.length - 1 - j / 64]? with
    | none => simp [hj]
    | some x => simp [hj, rev64_testBit, hm]
  · have : l.reverse[j / 64]? = none := by
      rw [List.getElem?_eq_none]; rw [List.length_reverse]; omega
    simp [this, hj]

/-! ## `most_significant_bits` -/

theorem headD_eq_getD (l : List ℕ) : l.headD 0 = l.getD 0 0 := by cases l <;> rfl

/-- `most_significant_bits`: exponent `e = max(bit_len − 64, 0)` and `bits = ⌊value / 2^e⌋`
    (so the top 64 significant bits; `e = 0` and the value itself when it fits a word). -/
theorem mostSignificantBits_spec (a : List ℕ) (ha : AllLt a) :
    (mostSignificantBits a).2 = size (val a) - 64
    ∧ (mostSignificantBits a).1 = val a / 2 ^ (mostSignificantBits a).2 := by
  unfold mostSignificantBits
  have hr := rposNonzero_spec a
  cases h : rposNonzero a with
  | none =>
    rw [h] at hr
    simp only at hr
    simp only [Option.getD_none, if_true]
    have hz := (val_eq_zero_iff a).mp hr
    have : a.headD 0 = 0 := by
      cases a with
      | nil => rfl
      | cons x xs => exact hz x (by simp)
    rw [this, hr, size_zero]; simp
  | some i =>
    rw [h] at hr
    simp only at hr
    obtain ⟨h1, h2, h3⟩ := hr
    obtain ⟨s1, s2⟩ := size_of_top a ha i h1 h2 h3
    simp only [Option.getD_some]
    cases i with
    | zero =>
      simp only [if_true]
      have hx := getD_lt a ha 0
      have := size_le _ 64 hx
      rw [pow_zero, Nat.div_one] at s2
      rw [headD_eq_getD, s1, s2]
      simp only [Nat.mul_zero, Nat.zero_add, pow_zero, Nat.div_one, and_true]
      rw [← s2]; omega
    | succ i =>
      have hne : i + 1 ≠ 0 := by omega
      simp only [hne, if_false, Nat.add_sub_cancel]
      have hhi := getD_lt a ha (i + 1)
      have hlo := getD_lt a ha i
      have c := clz64_spec _ hhi
      obtain ⟨b1, b2⟩ := size_bounds (a.getD (i + 1) 0)
      have b2 := b2 h2
      have hs1 : 1 ≤ size (a.getD (i + 1) 0) := by
        by_contra hc
        have : size (a.getD (i + 1) 0) = 0 := by omega
        rw [this] at b1; simp at b1; exact h2 b1
      have hsle := size_le _ 64 hhi
      -- value above limb i
      have hdiv : val a / W ^ i = a.getD i 0 + W * a.getD (i + 1) 0 := by
        rw [← val_drop a ha i, val_drop_cons, val_drop_cons a (i + 1), h3, Nat.mul_zero,
          Nat.add_zero]
      have hexp : (i + 1) * 64 - clz64 (a.getD (i + 1) 0) = 64 * i + size (a.getD (i + 1) 0) := by
        omega
      have hpow : 2 ^ (64 * i + size (a.getD (i + 1) 0)) = W ^ i * 2 ^ size (a.getD (i + 1) 0) := by
        unfold W; rw [← pow_mul, ← pow_add]
      refine ⟨by rw [hexp, s1]; omega, ?_⟩
      rw [hexp, hpow, ← Nat.div_div_eq_div_mul, hdiv]
      generalize a.getD (i + 1) 0 = hi at *
      generalize a.getD i 0 = lo at *
      by_cases hlz : clz64 hi > 0
      · simp only [hlz, if_true]
        have e64 : 64 - clz64 hi = size hi := by omega
        have hW : W = 2 ^ size hi * 2 ^ clz64 hi := by
          rw [← pow_add]; unfold W; congr 1; omega
        have hprod : hi * 2 ^ clz64 hi < W := by
          rw [hW]; exact Nat.mul_lt_mul_of_pos_right b1 (by positivity)
        have hlo2 : lo / 2 ^ size hi < 2 ^ clz64 hi := by
          apply Nat.div_lt_of_lt_mul; rw [← hW]; exact hlo
        rw [Nat.mod_eq_of_lt hprod, e64, Nat.mul_comm hi, lor_eq_add _ _ _ hlo2, hW,
          Nat.mul_assoc, Nat.add_mul_div_left _ _ (by positivity), Nat.add_comm]
      · simp only [hlz, if_false]
        have e64 : size hi = 64 := by omega
        rw [e64]
        have : (2 : ℕ) ^ 64 = W := rfl
        rw [this, Nat.add_mul_div_left _ _ W_pos, Nat.div_eq_of_lt hlo, Nat.zero_add]

/-- the top significant bit is set and everything above it is clear. -/
theorem size_testBit (x : ℕ) :
    (x ≠ 0 → x.testBit (size x - 1) = true) ∧ ∀ i, size x ≤ i → x.testBit i = false := by
  obtain ⟨b1, b2⟩ := size_bounds x
  constructor
  · intro hx
    have b2 := b2 hx
    have hs : size x ≠ 0 := by
      intro h0; rw [h0] at b1; simp at b1; exact hx b1
    rw [Nat.testBit_eq_decide_div_mod_eq, decide_eq_true_eq]
    have hp : 2 ^ size x = 2 ^ (size x - 1) * 2 := by
      rw [← pow_succ]; congr 1; omega
    have h1 : x / 2 ^ (size x - 1) = 1 := by
      apply Nat.div_eq_of_lt_le
      · omega
      · omega
    rw [h1]
  · intro i hi
    exact Nat.testBit_lt_two_pow (lt_of_lt_of_le b1 (Nat.pow_le_pow_right (by norm_num) hi))

/-- bits of `2^t · m` with `m` odd. -/
theorem testBit_pow_mul_odd (t m : ℕ) (hm : m % 2 = 1) :
    (∀ i, i < t → (2 ^ t * m).testBit i = false) ∧ (2 ^ t * m).testBit t = true := by
  constructor
  · intro i hi
    rw [Nat.mul_comm, Nat.testBit_mul_two_pow]
    have : ¬ t ≤ i := by omega
    simp [this]
  · rw [Nat.mul_comm, Nat.testBit_mul_two_pow, Nat.sub_self, Nat.testBit_zero]
    simp [hm]

/-- bits of `2^t · m − 1` with `m` odd. -/
theorem testBit_pow_mul_odd_pred (t m : ℕ) (hm : m % 2 = 1) :
    (∀ i, i < t → (2 ^ t * m - 1).testBit i = true) ∧ (2 ^ t * m - 1).testBit t = false := by
  have hp : 0 < 2 ^ t := by positivity
  have e : 2 ^ t * m - 1 = 2 ^ t * (m - 1) + (2 ^ t - 1) := by
    have : 2 ^ t * m = 2 ^ t * (m - 1) + 2 ^ t := by
      rw [← Nat.mul_succ]; congr 1; omega
    omega
  have hlt : 2 ^ t - 1 < 2 ^ t := by omega
  rw [e]
  constructor
  · intro i hi
    rw [Nat.testBit_two_pow_mul_add _ hlt, if_pos hi, Nat.testBit_two_pow_sub_one]
    simp [hi]
  · rw [Nat.testBit_two_pow_mul_add _ hlt, if_neg (by omega), Nat.sub_self, Nat.testBit_zero]
    simp; omega

end Ruint.Bits
