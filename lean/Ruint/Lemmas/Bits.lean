import Ruint.Model.Bits
import Ruint.Lemmas.Basic

/-! Lemmas for C06 (and the bit-level toolkit C05 uses): `val` versus `Nat.testBit`, limb-wise logic,
    word primitives. -/
namespace Ruint.Bits
open Ruint

/-! ## constants -/

theorem val_replicate_zero (n : ℕ) : val (List.replicate n 0) = 0 := by
  induction n with
  | zero => rfl
  | succ n ih => simp [List.replicate_succ, ih]

theorem allLt_replicate_zero (n : ℕ) : AllLt (List.replicate n 0) := by
  intro x hx; simp only [List.mem_replicate] at hx; rw [hx.2]; exact W_pos

theorem zero_canon (bits : ℕ) : Canon bits (zero bits) ∧ val (zero bits) = 0 := by
  refine ⟨⟨by simp [zero], allLt_replicate_zero _, ?_⟩, val_replicate_zero _⟩
  rw [zero, val_replicate_zero]; positivity

theorem val_replicate_max (n : ℕ) : val (List.replicate n (W - 1)) = W ^ n - 1 := by
  induction n with
  | zero => rfl
  | succ n ih =>
    simp only [List.replicate_succ, val_cons, ih, pow_succ]
    have h1 : 0 < W ^ n := by have := W_pos; positivity
    have h2 := W_pos
    have : W * (W ^ n - 1) = W ^ n * W - W := by
      rw [Nat.mul_sub, Nat.mul_one, Nat.mul_comm]
    rw [this]
    have : W ≤ W ^ n * W := Nat.le_mul_of_pos_left W h1
    omega

/-- `(k·M − 1) mod M = M − 1`. -/
theorem pred_mul_mod (M k : ℕ) (hM : 0 < M) (hk : 0 < k) : (M * k - 1) % M = M - 1 := by
  have : M * k - 1 = (M - 1) + M * (k - 1) := by
    have : M * k = M * (k - 1) + M := by
      rw [← Nat.mul_succ]; congr 1; omega
    omega
  rw [this, Nat.add_mul_mod_self_left, Nat.mod_eq_of_lt (by omega)]

theorem maxU_canon (bits : ℕ) : Canon bits (maxU bits) ∧ val (maxU bits) = 2 ^ bits - 1 := by
  rcases Nat.eq_zero_or_pos bits with h | h
  · subst h; simp [maxU, nlimbs, maskTop, Canon, AllLt]
  · have hl : (List.replicate (nlimbs bits) (W - 1)).length = nlimbs bits := by simp
    have ha : AllLt (List.replicate (nlimbs bits) (W - 1)) := by
      intro x hx; simp only [List.mem_replicate] at hx; rw [hx.2]; have := W_pos; omega
    obtain ⟨h1, h2, _⟩ := maskTop_spec bits h _ hl ha
    refine ⟨h1, ?_⟩
    unfold maxU
    rw [h2, val_replicate_max]
    obtain ⟨k, hk⟩ := pow_dvd_W bits
    have hp : 0 < 2 ^ bits := by positivity
    have hkpos : 0 < k := by
      rcases Nat.eq_zero_or_pos k with h | h
      · subst h; have := W_pos; have : 0 < W ^ nlimbs bits := by positivity
        omega
      · exact h
    rw [hk, pred_mul_mod _ _ hp hkpos]

/-! ## `val` and `testBit` -/

theorem W_two_pow : W = 2 ^ 64 := rfl

/-- bit `i` of a limb list is bit `i % 64` of limb `i / 64`. -/
theorem val_testBit (l : List ℕ) (h : AllLt l) (i : ℕ) :
    (val l).testBit i = (l.getD (i / 64) 0).testBit (i % 64) := by
  induction l generalizing i with
  | nil => simp
  | cons x xs ih =>
    have hx : x < 2 ^ 64 := h.head
    rw [val_cons, Nat.add_comm, W_two_pow, Nat.testBit_two_pow_mul_add _ hx]
    by_cases hi : i < 64
    · have h0 : i / 64 = 0 := by omega
      have h1 : i % 64 = i := by omega
      simp [hi, h0, h1]
    · have h0 : i / 64 = (i - 64) / 64 + 1 := by omega
      have h1 : i % 64 = (i - 64) % 64 := by omega
      simp only [hi, if_false, h0, List.getD_cons_succ, h1]
      exact ih h.tail (i - 64)

theorem val_testBit_lt (bits : ℕ) (l : List ℕ) (h : Canon bits l) (i : ℕ) (hi : bits ≤ i) :
    (val l).testBit i = false :=
  Nat.testBit_lt_two_pow (lt_of_lt_of_le h.val_lt (Nat.pow_le_pow_right (by norm_num) hi))

/-! ## limb-wise logic -/

theorem lor_split (p q x y : ℕ) (hx : x < 2 ^ 64) (hy : y < 2 ^ 64) :
    (2 ^ 64 * p + x) ||| (2 ^ 64 * q + y) = 2 ^ 64 * (p ||| q) + (x ||| y) := by
  apply Nat.eq_of_testBit_eq
  intro i
  rw [Nat.testBit_or, Nat.testBit_two_pow_mul_add _ hx, Nat.testBit_two_pow_mul_add _ hy,
    Nat.testBit_two_pow_mul_add _ (Nat.or_lt_two_pow hx hy)]
  split <;> simp [Nat.testBit_or]

theorem land_split (p q x y : ℕ) (hx : x < 2 ^ 64) (hy : y < 2 ^ 64) :
    (2 ^ 64 * p + x) &&& (2 ^ 64 * q + y) = 2 ^ 64 * (p &&& q) + (x &&& y) := by
  apply Nat.eq_of_testBit_eq
  intro i
  rw [Nat.testBit_and, Nat.testBit_two_pow_mul_add _ hx, Nat.testBit_two_pow_mul_add _ hy,
    Nat.testBit_two_pow_mul_add _ (Nat.and_lt_two_pow x hy)]
  split <;> simp [Nat.testBit_and]

theorem xor_split (p q x y : ℕ) (hx : x < 2 ^ 64) (hy : y < 2 ^ 64) :
    (2 ^ 64 * p + x) ^^^ (2 ^ 64 * q + y) = 2 ^ 64 * (p ^^^ q) + (x ^^^ y) := by
  apply Nat.eq_of_testBit_eq
  intro i
  rw [Nat.testBit_xor, Nat.testBit_two_pow_mul_add _ hx, Nat.testBit_two_pow_mul_add _ hy,
    Nat.testBit_two_pow_mul_add _ (Nat.xor_lt_two_pow hx hy)]
  split <;> simp [Nat.testBit_xor]

theorem bitOr_spec (a b : List ℕ) (hl : a.length = b.length) (ha : AllLt a) (hb : AllLt b) :
    val (bitOr a b) = val a ||| val b ∧ (bitOr a b).length = a.length ∧ AllLt (bitOr a b) := by
  induction a generalizing b with
  | nil => cases b <;> simp_all [bitOr, AllLt]
  | cons x xs ih =>
    cases b with
    | nil => simp at hl
    | cons y ys =>
      simp only [List.length_cons, Nat.add_right_cancel_iff] at hl
      obtain ⟨i1, i2, i3⟩ := ih ys hl ha.tail hb.tail
      have hx : x < 2 ^ 64 := ha.head
      have hy : y < 2 ^ 64 := hb.head
      unfold bitOr at *
      simp only [List.zipWith_cons_cons, val_cons, List.length_cons]
      refine ⟨?_, by rw [i2], AllLt.cons (Nat.or_lt_two_pow hx hy) i3⟩
      rw [i1, Nat.add_comm x, Nat.add_comm y, W_two_pow, lor_split _ _ _ _ hx hy, Nat.add_comm]

theorem bitAnd_spec (a b : List ℕ) (hl : a.length = b.length) (ha : AllLt a) (hb : AllLt b) :
    val (bitAnd a b) = val a &&& val b ∧ (bitAnd a b).length = a.length ∧ AllLt (bitAnd a b) := by
  induction a generalizing b with
  | nil => cases b <;> simp_all [bitAnd, AllLt]
  | cons x xs ih =>
    cases b with
    | nil => simp at hl
    | cons y ys =>
      simp only [List.length_cons, Nat.add_right_cancel_iff] at hl
      obtain ⟨i1, i2, i3⟩ := ih ys hl ha.tail hb.tail
      have hx : x < 2 ^ 64 := ha.head
      have hy : y < 2 ^ 64 := hb.head
      unfold bitAnd at *
      simp only [List.zipWith_cons_cons, val_cons, List.length_cons]
      refine ⟨?_, by rw [i2], AllLt.cons (Nat.and_lt_two_pow x hy) i3⟩
      rw [i1, Nat.add_comm x, Nat.add_comm y, W_two_pow, land_split _ _ _ _ hx hy, Nat.add_comm]

theorem bitXor_spec (a b : List ℕ) (hl : a.length = b.length) (ha : AllLt a) (hb : AllLt b) :
    val (bitXor a b) = val a ^^^ val b ∧ (bitXor a b).length = a.length ∧ AllLt (bitXor a b) := by
  induction a generalizing b with
  | nil => cases b <;> simp_all [bitXor, AllLt]
  | cons x xs ih =>
    cases b with
    | nil => simp at hl
    | cons y ys =>
      simp only [List.length_cons, Nat.add_right_cancel_iff] at hl
      obtain ⟨i1, i2, i3⟩ := ih ys hl ha.tail hb.tail
      have hx : x < 2 ^ 64 := ha.head
      have hy : y < 2 ^ 64 := hb.head
      unfold bitXor at *
      simp only [List.zipWith_cons_cons, val_cons, List.length_cons]
      refine ⟨?_, by rw [i2], AllLt.cons (Nat.xor_lt_two_pow hx hy) i3⟩
      rw [i1, Nat.add_comm x, Nat.add_comm y, W_two_pow, xor_split _ _ _ _ hx hy, Nat.add_comm]

/-- `a ||| b = a + b` when `a` is a multiple of `2^k` and `b < 2^k`. -/
theorem lor_eq_add (k a b : ℕ) (hb : b < 2 ^ k) : 2 ^ k * a ||| b = 2 ^ k * a + b :=
  (Nat.two_pow_add_eq_or_of_lt hb a).symm

/-- binary-logic results of canonical values are canonical. -/
theorem lt_two_pow_of_testBit (bits x : ℕ) (h : ∀ i, bits ≤ i → x.testBit i = false) : x < 2 ^ bits := by
  by_contra hc
  push Not at hc
  obtain ⟨i, hi, hb⟩ := Nat.exists_ge_and_testBit_of_ge_two_pow hc
  rw [h i hi] at hb
  exact Bool.false_ne_true hb

theorem and_two_pow_ne_zero (x k : ℕ) : (x &&& 2 ^ k != 0) = x.testBit k := by
  cases h : x.testBit k
  · have : x &&& 2 ^ k = 0 := by
      apply Nat.eq_of_testBit_eq; intro j
      rw [Nat.testBit_and, Nat.testBit_two_pow, Nat.zero_testBit]
      by_cases hj : k = j
      · subst hj; simp [h]
      · simp [hj]
    simp [this]
  · have : (x &&& 2 ^ k).testBit k = true := by
      rw [Nat.testBit_and, Nat.testBit_two_pow]; simp [h]
    have hne : x &&& 2 ^ k ≠ 0 := by intro h0; rw [h0] at this; simp at this
    simp [hne]

theorem bit_spec (bits : ℕ) (a : List ℕ) (ha : AllLt a) (i : ℕ) :
    bit bits a i = (decide (i < bits) && (val a).testBit i) := by
  unfold bit
  by_cases h : i ≥ bits
  · have : ¬ i < bits := by omega
    simp [h, this]
  · have : i < bits := by omega
    simp only [h, if_false, this, decide_true, Bool.true_and]
    rw [and_two_pow_ne_zero, val_testBit a ha]

end Ruint.Bits
