import Ruint.Lemmas.GenKernels
import Ruint.Lemmas.Addmul
import Ruint.Lemmas.Mul

/-! `algorithms::addmul` as GENERATED from `src/algorithms/mul.rs` (the four `while let` trimming loops with slice
    patterns, the window re-borrowing `lhs = rest` / `lhs = &mut lhs[1..]`, `split_at_mut`, the `for &b in b` loop with its
    `break`, the calls of the generated `addmul_nx1` / `add_nx1`) equals the C15 model `Ruint.Limb.addmul` on word limbs.
    A re-borrowed `&mut [u64]` is translated as a window plus the limbs in front of it (`lhs_done ++ lhs`). -/
namespace Ruint.GenAddmul
open Ruint Ruint.Limb Ruint.GenLehmer Ruint.GenKernels

/-! ### the kernels with any sufficient fuel -/

theorem addmul_nx1_eqF (lhs a : List ℕ) (b : ℕ) (hl : lhs.length = a.length) (hn : a.length < 2 ^ 64)
    (hwl : AllLt lhs) (hwa : AllLt a) (hb : b < W) (f : ℕ) (hf : a.length < f) :
    Ruint.Gen.addmul_nx1 f lhs a b = addmulNx1 W lhs a b := by
  have hloop := addmul_loop_eq b hb lhs a [] [] 0 f a.length hl rfl (by simp) hn hf hwl hwa W_pos
  simp only [List.nil_append, List.length_nil] at hloop
  unfold Ruint.Gen.addmul_nx1 addmulNx1
  simp only [hloop]

theorem add_nx1_eqF (lhs : List ℕ) (a : ℕ) (hn : lhs.length < 2 ^ 64) (hw : AllLt lhs) (ha : a < W) (f : ℕ)
    (hf : lhs.length < f) :
    Ruint.Gen.add_nx1 f lhs a = addNx1 W lhs a := by
  unfold Ruint.Gen.add_nx1
  by_cases h0 : a = 0
  · subst h0; simp [addNx1_zero]
  · have hb : (a == 0) = false := by simp [h0]
    simp only [hb, Bool.false_eq_true, if_false]
    have := addnx1_loop_eq lhs [] a f lhs.length (by simp) hn hf hw ha h0
    simp only [List.nil_append, List.length_nil] at this
    simp only [this]

/-! ### the trimming loops -/

theorem sf_step_eq (as done win : List ℕ) :
    Ruint.Gen.addmul_step1 (as, done, win) =
      if as.head? = some 0 then
        ((as.drop 1, (if win.isEmpty then done else done ++ win.take 1), (if win.isEmpty then win else win.drop 1)), true)
      else ((as, done, win), false) := by
  unfold Ruint.Gen.addmul_step1
  by_cases h : as.head? = some 0
  · by_cases hw : win.isEmpty = true <;> simp [h, hw]
  · simp [h]

theorem stripFront_nz (win : List ℕ) (x : ℕ) (xs : List ℕ) (hx : x ≠ 0) :
    stripFront win (x :: xs) = ([], win, x :: xs) := by
  cases x with
  | zero => exact absurd rfl hx
  | succ n => rfl

theorem sf_loop_eq : ∀ (as win done : List ℕ) (f : ℕ), as.length < f →
    Rs.loop Ruint.Gen.addmul_step1 f (as, done, win)
      = ((stripFront win as).2.2, done ++ (stripFront win as).1, (stripFront win as).2.1) := by
  intro as
  induction as with
  | nil =>
    intro win done f hf
    obtain ⟨f, rfl⟩ : ∃ g, f = g + 1 := ⟨f - 1, by simp at hf; omega⟩
    rw [loop_succ, sf_step_eq]
    simp [stripFront]
  | cons x xs ih =>
    intro win done f hf
    obtain ⟨f, rfl⟩ : ∃ g, f = g + 1 := ⟨f - 1, by simp at hf; omega⟩
    simp only [List.length_cons] at hf
    rw [loop_succ, sf_step_eq]
    by_cases hx : x = 0
    · subst hx
      cases win with
      | nil =>
        simp only [List.head?_cons, if_true, List.drop_succ_cons, List.drop_zero, List.isEmpty_nil]
        rw [ih [] done f (by omega)]
        simp [stripFront]
      | cons l ls =>
        simp only [List.head?_cons, if_true, List.drop_succ_cons, List.drop_zero, List.isEmpty_cons,
          Bool.false_eq_true, if_false, List.take_succ_cons, List.take_zero]
        rw [ih ls (done ++ [l]) f (by omega)]
        simp [stripFront]
    · have : (x :: xs).head? ≠ some 0 := by simp; exact hx
      simp only [this, if_false, stripFront_nz win x xs hx, List.append_nil, Bool.false_eq_true]

theorem sb_step_eq (as : List ℕ) :
    Ruint.Gen.addmul_step2 as = if as.getLast? = some 0 then (as.dropLast, true) else (as, false) := by
  unfold Ruint.Gen.addmul_step2
  by_cases h : as.getLast? = some 0 <;> simp [h]

theorem stripBack_append_zero (ys : List ℕ) : stripBack (ys ++ [0]) = stripBack ys := by
  induction ys with
  | nil => simp [stripBack]
  | cons y ys ih => simp only [List.cons_append, stripBack, ih]

theorem stripBack_append_nz (ys : List ℕ) (y : ℕ) (hy : y ≠ 0) : stripBack (ys ++ [y]) = ys ++ [y] := by
  induction ys with
  | nil => simp [stripBack, hy]
  | cons z zs ih =>
    simp only [List.cons_append, stripBack, ih]
    cases zs <;> simp

theorem sb_loop_eq : ∀ (n : ℕ) (as : List ℕ) (f : ℕ), as.length = n → n < f →
    Rs.loop Ruint.Gen.addmul_step2 f as = stripBack as := by
  intro n
  induction n with
  | zero =>
    intro as f h hf
    obtain ⟨f, rfl⟩ : ∃ g, f = g + 1 := ⟨f - 1, by omega⟩
    have : as = [] := List.length_eq_zero_iff.1 h
    subst this
    rw [loop_succ, sb_step_eq]
    simp [stripBack]
  | succ n ih =>
    intro as f h hf
    obtain ⟨f, rfl⟩ : ∃ g, f = g + 1 := ⟨f - 1, by omega⟩
    obtain ⟨ys, y, rfl⟩ := exists_init_last as (by intro e; subst e; simp at h)
    simp only [List.length_append, List.length_singleton] at h
    rw [loop_succ, sb_step_eq]
    by_cases hy : y = 0
    · subst hy
      simp only [List.getLast?_append, List.getLast?_singleton, Option.some_or, if_true, List.dropLast_concat]
      rw [ih ys f (by omega) (by omega), stripBack_append_zero]
    · have : (ys ++ [y]).getLast? ≠ some 0 := by simp; exact hy
      simp only [this, if_false, stripBack_append_nz ys y hy, Bool.false_eq_true]

/-! ### the `for &b in b` loop -/

theorem rows_step_eq (fuel : ℕ) (a b : List ℕ) (bound : ℕ) (ov : Bool) (win done : List ℕ) (it : ℕ) :
    Ruint.Gen.addmul_step5 fuel a b bound (ov, win, done, it) =
      if it < bound then
        (if a.length ≤ win.length then
          ((ov || ((Ruint.Gen.add_nx1 fuel (win.drop a.length)
                (Ruint.Gen.addmul_nx1 fuel (win.take a.length) a (b.getD it 0)).2).2 != 0),
            ((Ruint.Gen.addmul_nx1 fuel (win.take a.length) a (b.getD it 0)).1 ++
              (Ruint.Gen.add_nx1 fuel (win.drop a.length)
                (Ruint.Gen.addmul_nx1 fuel (win.take a.length) a (b.getD it 0)).2).1).drop 1,
            done ++ ((Ruint.Gen.addmul_nx1 fuel (win.take a.length) a (b.getD it 0)).1 ++
              (Ruint.Gen.add_nx1 fuel (win.drop a.length)
                (Ruint.Gen.addmul_nx1 fuel (win.take a.length) a (b.getD it 0)).2).1).take 1,
            Rs.wadd 64 it 1), true)
         else if win.isEmpty then ((true, win, done, it), false)
         else
          ((true, (Ruint.Gen.addmul_nx1 fuel win (a.take win.length) (b.getD it 0)).1.drop 1,
            done ++ (Ruint.Gen.addmul_nx1 fuel win (a.take win.length) (b.getD it 0)).1.take 1,
            Rs.wadd 64 it 1), true))
      else ((ov, win, done, it), false) := by
  unfold Ruint.Gen.addmul_step5
  by_cases h1 : it < bound
  · by_cases h2 : a.length ≤ win.length
    · simp [h1, h2]
    · by_cases h3 : win.isEmpty = true <;> simp [h1, h2, h3]
  · simp [h1]

theorem rows_loop_eq (fuel : ℕ) (a : List ℕ) (ha0 : a ≠ []) (hwa : AllLt a) (ha64 : a.length < 2 ^ 64) (haf : a.length < fuel)
    (B : List ℕ) (hB64 : B.length < 2 ^ 64) :
    ∀ (bs bP win done : List ℕ) (ov : Bool) (f : ℕ), B = bP ++ bs → AllLt bs → AllLt win → win.length < fuel →
      win.length < 2 ^ 64 → bs.length < f →
      (Rs.loop (Ruint.Gen.addmul_step5 fuel a B B.length) f (ov, win, done, bP.length)).2.2.1
          ++ (Rs.loop (Ruint.Gen.addmul_step5 fuel a B B.length) f (ov, win, done, bP.length)).2.1
        = done ++ (rows W win a bs ov).1
      ∧ (Rs.loop (Ruint.Gen.addmul_step5 fuel a B B.length) f (ov, win, done, bP.length)).1 = (rows W win a bs ov).2 := by
  intro bs
  induction bs with
  | nil =>
    intro bP win done ov f hB _ _ _ _ hf
    obtain ⟨f, rfl⟩ : ∃ g, f = g + 1 := ⟨f - 1, by simp at hf; omega⟩
    have : ¬ bP.length < B.length := by rw [hB]; simp
    rw [loop_succ, rows_step_eq]
    simp [this, rows]
  | cons b bs ih =>
    intro bP win done ov f hB hwb hww hwf hw64 hf
    obtain ⟨f, rfl⟩ : ∃ g, f = g + 1 := ⟨f - 1, by simp at hf; omega⟩
    simp only [List.length_cons] at hf
    have hit : bP.length < B.length := by rw [hB]; simp
    have hg : B.getD bP.length 0 = b := by rw [hB]; simp
    have hbW : b < W := hwb.head
    have hw6 : Rs.wadd 64 bP.length 1 = (bP ++ [b]).length := by
      have : bP.length + 1 ≤ B.length := by omega
      unfold Rs.wadd; rw [Nat.mod_eq_of_lt (by omega)]; simp
    have hB' : B = (bP ++ [b]) ++ bs := by rw [hB]; simp
    rw [loop_succ, rows_step_eq]
    simp only [hit, if_true, hg]
    by_cases h2 : a.length ≤ win.length
    · -- a full row
      have ht : (win.take a.length).length = a.length := by rw [List.length_take]; omega
      have e1 := addmul_nx1_eqF (win.take a.length) a b ht ha64 (fun x hx => hww x (List.mem_of_mem_take hx)) hwa hbW fuel haf
      have hcar : (addmulNx1 W (win.take a.length) a b).2 < W := by
        unfold addmulNx1
        exact addmulNx1Go_carry W _ _ b 0 ht (show AllLtB W _ from fun x hx => hww x (List.mem_of_mem_take hx))
          (show AllLtB W _ from hwa) hbW W_pos
      have e2 := add_nx1_eqF (win.drop a.length) (addmulNx1 W (win.take a.length) a b).2
        (by rw [List.length_drop]; omega) (fun x hx => hww x (List.mem_of_mem_drop hx)) hcar fuel
        (by rw [List.length_drop]; omega)
      have hrow1 : (addmulNx1 W (win.take a.length) a b).1
          ++ (addNx1 W (win.drop a.length) (addmulNx1 W (win.take a.length) a b).2).1 = (row W win a b).1 := rfl
      have hrow2 : (addNx1 W (win.drop a.length) (addmulNx1 W (win.take a.length) a b).2).2 = (row W win a b).2 := rfl
      simp only [h2, if_true, e1, e2, hrow1, hrow2]
      have hlen := (row_spec W win a b h2).2
      have hrw : AllLt (row W win a b).1 := row_lt W W_pos win a b (show AllLtB W _ from hww)
      have hane : 0 < a.length := List.length_pos_iff.2 ha0
      obtain ⟨w, ws, hr⟩ : ∃ w ws, (row W win a b).1 = w :: ws := by
        cases hc : (row W win a b).1 with
        | nil => rw [hc] at hlen; simp at hlen; omega
        | cons w ws => exact ⟨w, ws, rfl⟩
      rw [hr] at hlen hrw
      simp only [hr, List.drop_succ_cons, List.drop_zero, List.take_succ_cons, List.take_zero, hw6]
      have hdec : ((row W win a b).2 != 0) = decide ((row W win a b).2 ≠ 0) := by
        by_cases hz : (row W win a b).2 = 0 <;> simp [hz]
      rw [hdec]
      obtain ⟨i1, i2⟩ := ih (bP ++ [b]) ws (done ++ [w]) (ov || decide ((row W win a b).2 ≠ 0)) f hB' hwb.tail hrw.tail
        (by simp at hlen; omega) (by simp at hlen; omega) (by omega)
      have hm : rows W win a (b :: bs) ov
          = (w :: (rows W ws a bs (ov || decide ((row W win a b).2 ≠ 0))).1,
             (rows W ws a bs (ov || decide ((row W win a b).2 ≠ 0))).2) := by
        simp only [rows, h2, if_true, hr]
      rw [hm]
      refine ⟨?_, i2⟩
      rw [i1]; simp
    · -- the window is shorter than `a`
      by_cases h3 : win.isEmpty = true
      · have hwn : win = [] := List.isEmpty_iff.1 h3
        subst hwn
        have hm : rows W [] a (b :: bs) ov = ([], true) := by simp only [rows, h2, if_false]
        rw [hm]
        simp only [h2, if_false, List.isEmpty_nil, if_true, Bool.false_eq_true, List.append_nil, and_self]
      · have hwne : win ≠ [] := by intro e; subst e; simp at h3
        have hlt : win.length < a.length := by omega
        have htl : (a.take win.length).length = win.length := by rw [List.length_take]; omega
        have e1 := addmul_nx1_eqF win (a.take win.length) b htl.symm (by rw [htl]; exact hw64) hww
          (fun x hx => hwa x (List.mem_of_mem_take hx)) hbW fuel (by rw [htl]; exact hwf)
        simp only [h2, if_false, h3, Bool.false_eq_true, e1]
        have hl1 : (addmulNx1 W win (a.take win.length) b).1.length = win.length := by
          unfold addmulNx1
          exact (addmulNx1Go_spec W win (a.take win.length) b 0 htl.symm).2
        have hrw : AllLt (addmulNx1 W win (a.take win.length) b).1 :=
          addmulNx1Go_lt W W_pos win (a.take win.length) b 0 (show AllLtB W _ from hww)
        have hwpos : 0 < win.length := List.length_pos_iff.2 hwne
        obtain ⟨w, ws, hr⟩ : ∃ w ws, (addmulNx1 W win (a.take win.length) b).1 = w :: ws := by
          cases hc : (addmulNx1 W win (a.take win.length) b).1 with
          | nil => rw [hc] at hl1; simp at hl1; omega
          | cons w ws => exact ⟨w, ws, rfl⟩
        rw [hr] at hl1 hrw
        simp only [hr, List.drop_succ_cons, List.drop_zero, List.take_succ_cons, List.take_zero, hw6, if_true]
        obtain ⟨i1, i2⟩ := ih (bP ++ [b]) ws (done ++ [w]) true f hB' hwb.tail hrw.tail
          (by simp at hl1; omega) (by simp at hl1; omega) (by omega)
        have hm : rows W win a (b :: bs) ov = (w :: (rows W ws a bs true).1, (rows W ws a bs true).2) := by
          cases hwc : win with
          | nil => exact absurd hwc hwne
          | cons x xs =>
            have h2' : ¬ a.length ≤ (x :: xs).length := by rw [← hwc]; exact h2
            have hr' : (addmulNx1 W (x :: xs) (a.take (x :: xs).length) b).1 = w :: ws := by rw [← hwc]; exact hr
            simp only [rows, h2', if_false, hr']
        rw [hm]
        refine ⟨?_, i2⟩
        rw [i1]; simp

/-! ### assembling -/

theorem step3_eq_step1 : Ruint.Gen.addmul_step3 = Ruint.Gen.addmul_step1 := by
  funext st; rfl

theorem step4_eq_step2 : Ruint.Gen.addmul_step4 = Ruint.Gen.addmul_step2 := by
  funext st; rfl

theorem stripFront_suffix : ∀ (a win : List ℕ), (∃ k, (stripFront win a).2.2 = a.drop k) ∧ (∃ j, (stripFront win a).2.1 = win.drop j)
    ∧ win = (stripFront win a).1 ++ (stripFront win a).2.1 := by
  intro a
  induction a with
  | nil => intro win; exact ⟨⟨0, by simp [stripFront]⟩, ⟨0, by simp [stripFront]⟩, by simp [stripFront]⟩
  | cons x xs ih =>
    intro win
    by_cases hx : x = 0
    · subst hx
      cases win with
      | nil =>
        obtain ⟨⟨k, hk⟩, ⟨j, hj⟩, h3⟩ := ih []
        simp only [stripFront]
        refine ⟨⟨k + 1, by simpa using hk⟩, ⟨0, ?_⟩, by simpa using h3⟩
        rw [hj]; simp
      | cons l ls =>
        obtain ⟨⟨k, hk⟩, ⟨j, hj⟩, h3⟩ := ih ls
        simp only [stripFront]
        exact ⟨⟨k + 1, by simpa using hk⟩, ⟨j + 1, by simpa using hj⟩, by simp [← h3]⟩
    · rw [stripFront_nz win x xs hx]
      exact ⟨⟨0, by simp⟩, ⟨0, by simp⟩, by simp⟩

theorem stripBack_prefix : ∀ (l : List ℕ), ∃ m, stripBack l = l.take m := by
  intro l
  induction l with
  | nil => exact ⟨0, by simp [stripBack]⟩
  | cons x xs ih =>
    obtain ⟨m, hm⟩ := ih
    simp only [stripBack]
    cases hs : stripBack xs with
    | nil =>
      by_cases hx : x = 0
      · exact ⟨0, by simp [hx]⟩
      · exact ⟨1, by simp [hx]⟩
    | cons y ys =>
      refine ⟨m + 1, ?_⟩
      rw [List.take_succ_cons, ← hm, hs]

theorem allLt_drop' {l : List ℕ} (h : AllLt l) (k : ℕ) : AllLt (l.drop k) := fun x hx => h x (List.mem_of_mem_drop hx)
theorem allLt_take' {l : List ℕ} (h : AllLt l) (k : ℕ) : AllLt (l.take k) := fun x hx => h x (List.mem_of_mem_take hx)

/-- **`algorithms::addmul` as generated from the source** equals the C15 model on word limbs (all slice lengths) -/
theorem addmul_eq (lhs a b : List ℕ) (hwl : AllLt lhs) (hwa : AllLt a) (hwb : AllLt b)
    (hl64 : lhs.length < 2 ^ 64) (ha64 : a.length < 2 ^ 64) (hb64 : b.length < 2 ^ 64)
    (fuel : ℕ) (hf : lhs.length + a.length + b.length < fuel) :
    Ruint.Gen.addmul fuel lhs a b = Limb.addmul W lhs a b := by
  unfold Ruint.Gen.addmul Limb.addmul
  rw [step3_eq_step1, step4_eq_step2]
  dsimp only
  obtain ⟨⟨k1, hk1⟩, ⟨j1, hj1⟩, hs1⟩ := stripFront_suffix a lhs
  rw [sf_loop_eq a lhs [] fuel (by omega)]
  generalize stripFront lhs a = s1 at *
  have hl1 : s1.2.2.length ≤ a.length := by rw [hk1, List.length_drop]; omega
  have hw1 : s1.2.1.length ≤ lhs.length := by rw [hj1, List.length_drop]; omega
  rw [sb_loop_eq _ s1.2.2 fuel rfl (by omega)]
  obtain ⟨⟨k2, hk2⟩, ⟨j2, hj2⟩, hs2⟩ := stripFront_suffix b s1.2.1
  rw [sf_loop_eq b s1.2.1 ([] ++ s1.1) fuel (by omega)]
  generalize stripFront s1.2.1 b = s2 at *
  have hl2 : s2.2.2.length ≤ b.length := by rw [hk2, List.length_drop]; omega
  have hw2 : s2.2.1.length ≤ lhs.length := by rw [hj2, List.length_drop]; omega
  rw [sb_loop_eq _ s2.2.2 fuel rfl (by omega)]
  obtain ⟨m1, hm1⟩ := stripBack_prefix s1.2.2
  obtain ⟨m2, hm2⟩ := stripBack_prefix s2.2.2
  have hA : AllLt (stripBack s1.2.2) := by rw [hm1, hk1]; exact allLt_take' (allLt_drop' hwa _) _
  have hBw : AllLt (stripBack s2.2.2) := by rw [hm2, hk2]; exact allLt_take' (allLt_drop' hwb _) _
  have hAl : (stripBack s1.2.2).length ≤ a.length := by rw [hm1, List.length_take]; omega
  have hBl : (stripBack s2.2.2).length ≤ b.length := by rw [hm2, List.length_take]; omega
  have hWw : AllLt s2.2.1 := by rw [hj2, hj1]; exact allLt_drop' (allLt_drop' hwl _) _
  have hlhs : lhs = ([] ++ s1.1 ++ s2.1) ++ s2.2.1 := by
    rw [List.nil_append, List.append_assoc, ← hs2, ← hs1]
  generalize stripBack s1.2.2 = a' at *
  generalize stripBack s2.2.2 = b' at *
  by_cases hc1 : a' = [] ∨ b' = []
  · have : (a'.isEmpty || b'.isEmpty) = true := by
      rcases hc1 with h | h <;> simp [h]
    simp only [this, if_true, hc1]
    rw [← hlhs]
  · have hne : (a'.isEmpty || b'.isEmpty) = false := by
      push Not at hc1
      simp [hc1.1, hc1.2]
    simp only [hne, Bool.false_eq_true, if_false, hc1]
    by_cases hc2 : s2.2.1 = []
    · simp only [hc2, List.isEmpty_nil, if_true]
      rw [hlhs, hc2]
    · have hne2 : s2.2.1.isEmpty = false := by simp [hc2]
      simp only [hne2, Bool.false_eq_true, if_false, hc2]
      push Not at hc1
      by_cases hsw : b'.length > a'.length
      · simp only [hsw, decide_true, if_true]
        obtain ⟨i1, i2⟩ := rows_loop_eq fuel b' hc1.2 hBw (by omega) (by omega) a' (by omega) a' [] s2.2.1
          ([] ++ s1.1 ++ s2.1) false fuel (by simp) hA hWw (by omega) (by omega) (by omega)
        simp only [List.length_nil] at i1 i2
        rw [i1, i2, List.nil_append]
      · simp only [hsw, decide_false, Bool.false_eq_true, if_false]
        obtain ⟨i1, i2⟩ := rows_loop_eq fuel a' hc1.1 hA (by omega) (by omega) b' (by omega) b' [] s2.2.1
          ([] ++ s1.1 ++ s2.1) false fuel (by simp) hBw hWw (by omega) (by omega) (by omega)
        simp only [List.length_nil] at i1 i2
        rw [i1, i2, List.nil_append]

end Ruint.GenAddmul
