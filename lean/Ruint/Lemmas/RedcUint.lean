import Ruint.Lemmas.RedcSq

/-! Lemmas for `Model/Redc.lean`, part 4: uniqueness of the Montgomery residue, oddness of the modulus from
    the `inv` hypothesis, and the `from_limbs` / `debug_assert!(result < modulus)` wrapper. -/
namespace Ruint.Redc
open Ruint

/-- `r < m`, `r·R ≡ x (mod m)`, `R·R' ≡ 1 (mod m)` pin `r = x·R' mod m`. -/
theorem redc_unique (r R ri m x : ℕ) (hr : r < m) (h : (R * r) % m = x % m) (hri : (R * ri) % m = 1) :
    r = (x * ri) % m := by
  have h1 : (R * r * ri) % m = (x * ri) % m := by
    rw [Nat.mul_mod, h, ← Nat.mul_mod]
  have h2 : (R * r * ri) % m = r % m := by
    have : R * r * ri = r * (R * ri) := by ring
    rw [this, Nat.mul_mod, hri, Nat.mul_one, Nat.mod_mod]
  rw [← h1, h2, Nat.mod_eq_of_lt hr]

/-- `inv·m₀ ≡ −1 (mod B)` makes `m₀` (hence the modulus) coprime to the base: `m` is odd. -/
theorem coprime_of_inv (B inv m0 : ℕ) (hB : 1 < B) (h : (inv * m0) % B = B - 1) : Nat.Coprime B m0 := by
  have e : B ∣ inv * m0 + 1 := Nat.dvd_of_mod_eq_zero (by
    rw [Nat.add_mod, h, Nat.mod_eq_of_lt hB, Nat.sub_add_cancel (le_of_lt hB), Nat.mod_self])
  have d1 : Nat.gcd B m0 ∣ inv * m0 := Dvd.dvd.mul_left (Nat.gcd_dvd_right B m0) inv
  have d2 : Nat.gcd B m0 ∣ inv * m0 + 1 := Nat.dvd_trans (Nat.gcd_dvd_left B m0) e
  exact Nat.dvd_one.mp ((Nat.dvd_add_right d1).mp d2)

/-- `Uint::from_limbs` + `debug_assert!(result < modulus)` pass on a result below a canonical modulus. -/
theorem fromLimbsChecked_ok (bits : ℕ) (hbits : 0 < bits) (r md : List ℕ)
    (hlen : r.length = nlimbs bits) (hr : AllLt r) (hmd : Canon bits md) (hlt : val r < val md) :
    fromLimbsChecked bits r md = some r ∧ Canon bits r := by
  have hr2 : val r < 2 ^ bits := lt_trans hlt hmd.val_lt
  obtain ⟨_, _, m3⟩ := maskTop_spec bits hbits r hlen hr
  have htop : ¬ r.getLastD 0 > mask bits := by
    rw [List.getLastD_eq_getLast?, gt_iff_lt, m3]; omega
  unfold fromLimbsChecked
  simp only [htop, decide_false, Bool.and_false, Bool.false_eq_true, if_false, hlt, decide_true, if_true]
  exact ⟨trivial, hlen, hr, hr2⟩

end Ruint.Redc
