import Ruint.Lemmas.FloatTo4

/-! `f64/f32::from(&Uint)`: zero, short values (exact), monotonicity. -/
namespace Ruint.Float

theorem decode_zero_gen (f : Fmt) (hf : f.Ok) : decode f 0 = .fin false 0 f.qmin := by
  have hE := f.emaxB_eq hf
  unfold decode
  simp only [Nat.zero_mod, Nat.zero_div]
  rw [if_neg (by omega)]
  simp

theorem toFloatV_zero (f : Fmt) (hf : f.Ok) : toFloatV f 0 = 0 := by
  have hb1 := (f.two_bias hf).2
  unfold toFloatV toFloatOf msbSpec
  simp only [bitLen_zero, Nat.zero_sub, pow_zero, Nat.div_one]
  have h1 : ofNat f 0 = 0 := by simp [ofNat, rne, sgn, rneMag]
  rw [h1]
  unfold mul
  rw [decode_zero_gen f hf, decode_exp2Int f hf 0 (by omega)]
  simp [rne, sgn, rneMag]

/-- short values (fewer bits than the mantissa) convert exactly. -/
theorem toFloatV_short (f : Fmt) (hw : f.Wide) (v : ℕ) (hv : 0 < v) (hL : bitLen v < f.mb + 1) :
    IsVal (decode f (toFloatV f v)) v := by
  have hcl := toFloatV_closed f hw v hv
  obtain ⟨hf, hp, hbias⟩ := hw
  have hb1 := (f.two_bias hf).2
  have hinf := f.infBits_eq hf
  have hp0 : 0 < 2 ^ f.mb := by positivity
  have hL1 := bitLen_pos hv
  obtain ⟨b1, b2⟩ := bitLen_bounds hv
  have hE : bitLen v - 64 = 0 := by omega
  rw [hE, pow_zero, Nat.div_one] at hcl
  obtain ⟨m1, m2⟩ := mant_bounds f v hv
  have hm : mant f v = v * 2 ^ (f.mb + 1 - bitLen v) := by unfold mant; rw [if_pos (by omega)]
  rw [hm] at hcl m1 m2
  have hlt : v * 2 ^ (f.mb + 1 - bitLen v) < 2 ^ (f.mb + 1) := by
    have : f.mb + 1 = bitLen v + (f.mb + 1 - bitLen v) := by omega
    calc v * 2 ^ (f.mb + 1 - bitLen v) < 2 ^ bitLen v * 2 ^ (f.mb + 1 - bitLen v) :=
          Nat.mul_lt_mul_of_pos_right b2 (by positivity)
      _ = 2 ^ (f.mb + 1) := by rw [← pow_add, ← this]
  have hfin : (bitLen v + f.bias - 2) * 2 ^ f.mb + v * 2 ^ (f.mb + 1 - bitLen v) < f.infBits := by
    rw [hinf]
    have hpp : 2 ^ (f.mb + 1) = 2 * 2 ^ f.mb := by ring
    calc (bitLen v + f.bias - 2) * 2 ^ f.mb + v * 2 ^ (f.mb + 1 - bitLen v)
        ≤ (bitLen v + f.bias - 2) * 2 ^ f.mb + 2 * 2 ^ f.mb := by omega
      _ = (bitLen v + f.bias) * 2 ^ f.mb := by
          have : bitLen v + f.bias = (bitLen v + f.bias - 2) + 2 := by omega
          conv_rhs => rw [this, Nat.add_mul]
      _ < (2 * f.bias + 1) * 2 ^ f.mb := Nat.mul_lt_mul_of_pos_right (by omega) hp0
  rw [hcl, Nat.min_def, if_neg (by omega)]
  exact decode_closed_short f hf (bitLen v) v hL1 hL m1 hlt hfin

/-- the rounded mantissa is monotone among values of the same bit length. -/
theorem mant_mono (f : Fmt) (a b : ℕ) (h : a ≤ b) (hbl : bitLen a = bitLen b) : mant f a ≤ mant f b := by
  unfold mant
  rw [hbl]
  split
  · exact Nat.mul_le_mul_right _ h
  · exact rneShift_mono a b _ h

/-- **monotonicity** of `fN::from(&Uint)` (on bit patterns; non-negative floats are ordered like their
    patterns). -/
theorem toFloatV_mono (f : Fmt) (hw : f.Wide) (v w : ℕ) (h : v ≤ w) : toFloatV f v ≤ toFloatV f w := by
  rcases Nat.eq_zero_or_pos v with hv0 | hv
  · subst hv0; rw [toFloatV_zero f hw.1]; exact Nat.zero_le _
  have hw0 : 0 < w := by omega
  rw [toFloatV_closed f hw v hv, toFloatV_closed f hw w hw0]
  apply min_le_min (le_refl _)
  have hLvw := bitLen_mono h
  have hbv := (msbSpec_facts v hv)
  have hbw := (msbSpec_facts w hw0)
  obtain ⟨mv1, mv2⟩ := mant_bounds f _ hbv.1
  obtain ⟨mw1, mw2⟩ := mant_bounds f _ hbw.1
  have hLv := bitLen_pos hv
  have hbias := hw.2.2
  have hpp : 2 ^ (f.mb + 1) = 2 * 2 ^ f.mb := by ring
  rcases Nat.lt_or_ge (bitLen v) (bitLen w) with hlt | hge
  · calc (bitLen v + f.bias - 2) * 2 ^ f.mb + mant f (v / 2 ^ (bitLen v - 64))
        ≤ (bitLen v + f.bias - 2) * 2 ^ f.mb + 2 * 2 ^ f.mb := by omega
      _ = (bitLen v + f.bias - 2 + 1) * 2 ^ f.mb + 2 ^ f.mb := by ring
      _ ≤ (bitLen w + f.bias - 2) * 2 ^ f.mb + 2 ^ f.mb :=
          Nat.add_le_add_right (Nat.mul_le_mul_right _ (by omega)) _
      _ ≤ (bitLen w + f.bias - 2) * 2 ^ f.mb + mant f (w / 2 ^ (bitLen w - 64)) := by omega
  · have heq : bitLen v = bitLen w := le_antisymm hLvw hge
    rw [heq]
    apply Nat.add_le_add_left
    apply mant_mono
    · exact Nat.div_le_div_right h
    · have h1 := hbv.2.1
      have h2 := hbw.2.1
      rw [heq] at h1
      omega

end Ruint.Float
