import Ruint.Lemmas.FloatCmp
import Ruint.Lemmas.FloatTryA
namespace Ruint.Float

theorem decode_half : decode b64 (half b64) = .fin false (2 ^ 52) (-53) := by
  rw [half_eq, decode_pow2 (-1) (by norm_num) (by norm_num)]; rfl

/-- the rounded-away bit of `f + 1/2` never changes the integer part (binade crossing analysed):
    `M = m + 2^(s-1) ≥ 2^53`, one bit is rounded off, then `s - 1` bits are truncated. -/
theorem round_then_floor (m s : ℕ) (hm' : m < 2 ^ 53) (hs : 1 ≤ s) (hs' : s ≤ 53)
    (hM : 2 ^ 53 ≤ m + 2 ^ (s - 1)) :
    rneShift (m + 2 ^ (s - 1)) 1 / 2 ^ (s - 1) = (m + 2 ^ (s - 1)) / 2 ^ s := by
  obtain ⟨G, hG⟩ : ∃ G, G = 2 ^ (s - 1) := ⟨_, rfl⟩
  obtain ⟨C, hC⟩ : ∃ C, C = 2 ^ (53 - s) := ⟨_, rfl⟩
  have hG0 : 0 < G := by rw [hG]; positivity
  have h2s : 2 ^ s = 2 * G := by
    rw [hG, ← pow_succ']; congr 1; omega
  have hGC : G * C = 2 ^ 52 := by
    rw [hG, hC, ← pow_add]; congr 1; omega
  rw [← hG] at hM
  rw [← hG, h2s]
  obtain ⟨t, ht⟩ : ∃ t, m + G = 2 ^ 53 + t := ⟨m + G - 2 ^ 53, by omega⟩
  have htG : t < G := by omega
  have hdiv : (m + G) / (2 * G) = C := by
    rw [← Nat.div_div_eq_div_mul, ht]
    have : (2 ^ 53 + t) / 2 = G * C + t / 2 := by rw [hGC]; omega
    rw [this, Nat.mul_add_div hG0, Nat.div_eq_of_lt (by omega), Nat.add_zero]
  rw [hdiv]
  rcases rneShift_cases (m + G) 1 with h | ⟨h, hodd⟩
  · rw [h, ht, pow_one]
    have : (2 ^ 53 + t) / 2 = G * C + t / 2 := by rw [hGC]; omega
    rw [this, Nat.mul_add_div hG0, Nat.div_eq_of_lt (by omega), Nat.add_zero]
  · rw [h, ht, pow_one]
    rw [ht, pow_one] at hodd
    have htodd : t % 2 = 1 := by omega
    have hGeven : G % 2 = 0 := by
      have hs2 : 2 ≤ s := by
        by_contra hc
        have : s = 1 := by omega
        rw [this] at hG; simp at hG; omega
      rw [hG]
      have : s - 1 = (s - 2) + 1 := by omega
      rw [this, pow_succ]; omega
    have : (2 ^ 53 + t) / 2 + 1 = G * C + (t / 2 + 1) := by rw [hGC]; omega
    rw [this, Nat.mul_add_div hG0, Nat.div_eq_of_lt (by omega), Nat.add_zero]

/-- `x + 0.5` for a normal `x = m·2^(-s)`, `1 ≤ s ≤ 53` (i.e. `1/2 ≤ x < 2^52`): the fields of the sum. -/
theorem add_half_frac (x m s : ℕ) (hx : decode b64 x = .fin false m (-(s : ℤ)))
    (hm : 2 ^ 52 ≤ m) (hm' : m < 2 ^ 53) (hs : 1 ≤ s) (hs' : s ≤ 53) :
    ∃ k Mr, k ≤ 1 ∧ k ≤ s ∧ s ≤ 52 + k ∧ 2 ^ 52 ≤ Mr ∧ Mr < 2 ^ 53
      ∧ add b64 x (half b64) = (1074 - s + k) * 2 ^ 52 + Mr
      ∧ Mr / 2 ^ (s - k) = (m + 2 ^ (s - 1)) / 2 ^ s := by
  obtain ⟨M, hMdef⟩ : ∃ M, M = m + 2 ^ (s - 1) := ⟨_, rfl⟩
  have hG52 : 2 ^ (s - 1) ≤ 2 ^ 52 := Nat.pow_le_pow_right (by norm_num) (by omega)
  have hGpos : 0 < 2 ^ (s - 1) := by positivity
  have hsplit : 2 ^ 52 = 2 ^ (s - 1) * 2 ^ (53 - s) := by rw [← pow_add]; congr 1; omega
  -- the exact sum, scaled by 2^53
  have hsum : m * 2 ^ (53 - s) + 2 ^ 52 = M * 2 ^ (53 - s) := by
    rw [hMdef, Nat.add_mul, ← hsplit]
  have hadd : add b64 x (half b64) = rneMag b64 (M * 2 ^ (53 - s)) (-(s : ℤ) - ((53 - s : ℕ) : ℤ)) := by
    unfold add
    rw [hx, decode_half]
    have c1 : min (-(s : ℤ)) (-53) = -53 := by omega
    have c2 : (-(s : ℤ) - -53).toNat = 53 - s := by omega
    have c3 : ((-53 : ℤ) - -53).toNat = 0 := by omega
    simp only [c1, c2, c3, sInt, Bool.false_eq_true, if_false, pow_zero, Nat.mul_one]
    have hpos : (0 : ℤ) < ((m * 2 ^ (53 - s) : ℕ) : ℤ) + ((2 ^ 52 : ℕ) : ℤ) := by positivity
    rw [if_neg (by omega)]
    have : (((m * 2 ^ (53 - s) : ℕ) : ℤ) + ((2 ^ 52 : ℕ) : ℤ)).natAbs = M * 2 ^ (53 - s) := by
      rw [← hsum]; omega
    rw [this]
    have hd : decide ((((m * 2 ^ (53 - s) : ℕ) : ℤ) + ((2 ^ 52 : ℕ) : ℤ)) < 0) = false := by
      simp only [decide_eq_false_iff_not, not_lt]; omega
    rw [hd]
    unfold rne sgn
    simp only [Bool.false_eq_true, if_false, Nat.zero_add]
    congr 1
    omega
  have hinf : b64.infBits = 2047 * 2 ^ 52 := by decide
  have hq : b64.qmin = -1074 := by decide
  have hmb : b64.mb = 52 := rfl
  rcases Nat.lt_or_ge M (2 ^ 53) with hlt | hge
  · -- no carry: exact
    have hbl : bitLen M = b64.mb + 1 + 0 := by
      rw [hmb]; exact bitLen_eq (by norm_num) (by omega) (by omega)
    have := rneMag_of_bits b64 M (53 - s) 0 (-(s : ℤ)) hbl (by rw [hq]; omega)
    rw [hq, hmb, hinf, rneShift_zero] at this
    have hQ : (-(s : ℤ) + ((0 : ℕ) : ℤ) - -1074).toNat = 1074 - s := by omega
    rw [hQ] at this
    have hs52 : s ≤ 52 := by
      by_contra hc
      have : 2 ^ 52 ≤ 2 ^ (s - 1) := Nat.pow_le_pow_right (by norm_num) (by omega)
      omega
    refine ⟨0, M, by omega, by omega, by omega, by omega, hlt, ?_, by rw [hMdef, Nat.sub_zero]⟩
    rw [hadd, this, if_neg (by omega), Nat.add_zero]
  · -- one bit rounded away
    have hM54 : M < 2 ^ 54 := by omega
    have hbl : bitLen M = b64.mb + 1 + 1 := by
      rw [hmb]; exact bitLen_eq (by norm_num) (by omega) (by omega)
    have := rneMag_of_bits b64 M (53 - s) 1 (-(s : ℤ)) hbl (by rw [hq]; omega)
    rw [hq, hmb, hinf] at this
    have hQ : (-(s : ℤ) + ((1 : ℕ) : ℤ) - -1074).toNat = 1074 - s + 1 := by omega
    rw [hQ] at this
    have hb := rneShift_bounds M 1
    have hlo := rneShift_ge_pow M 1 52 (by omega)
    have hhi : rneShift M 1 < 2 ^ 53 := by
      have : M / 2 ^ 1 < 2 ^ 52 + 2 ^ 51 := by omega
      omega
    refine ⟨1, rneShift M 1, le_refl _, hs, by omega, hlo, hhi, ?_, ?_⟩
    · rw [hadd, this, if_neg (by omega)]
    · rw [hMdef]; exact round_then_floor m s hm' hs hs' (by omega)

end Ruint.Float
