import Ruint.Lemmas.GenGcd
/-! The `Uint` methods `gcd`, `lcm`, `gcd_extended` (`src/gcd.rs`) and `inv_mod` (`src/modular.rs`) as GENERATED in value mode
    (`Gen/WordsGcd.lean`: forwards to the generated `algorithms::gcd` / `gcd_extended` / `inv_mod`; `lcm` over the value-level
    meanings of `checked_div`, `unwrap_or_default`, `checked_mul`) equal the L2 models. -/
namespace Ruint.GenGcd
open Ruint

theorem uint_gcd_eq (bits L a b : ℕ) (ha : a < 2 ^ bits) (hb : b < 2 ^ bits) (f : ℕ) (hf : min a b + 1 < f) :
    Ruint.Gen.val_uint_gcd f bits L a b = Ruint.Gcd.gcd bits a b := by
  unfold Ruint.Gen.val_uint_gcd
  rw [gcd_eq bits L a b ha hb f hf]
  cases Ruint.Gcd.gcd bits a b <;> rfl

theorem uint_gcd_extended_eq (bits L a b : ℕ) (ha : a < 2 ^ bits) (hb : b < 2 ^ bits) (f : ℕ) (hf : min a b + 1 < f) :
    Ruint.Gen.val_uint_gcd_extended f bits L a b = Ruint.Gcd.gcdExtended bits a b := by
  unfold Ruint.Gen.val_uint_gcd_extended
  rw [gcd_extended_eq bits L a b ha hb f hf]
  cases Ruint.Gcd.gcdExtended bits a b <;> rfl

theorem uint_inv_mod_eq (bits L num modulus : ℕ) (hn : num < 2 ^ bits) (hm : modulus < 2 ^ bits) (f : ℕ)
    (hf : modulus + 1 < f) :
    Ruint.Gen.val_uint_inv_mod f bits L num modulus = Ruint.Modular.invMod bits num modulus := by
  unfold Ruint.Gen.val_uint_inv_mod
  rw [inv_mod_eq bits L num modulus hn hm f hf]
  cases Ruint.Modular.invMod bits num modulus <;> rfl

theorem uint_lcm_eq (bits L a b : ℕ) (ha : a < 2 ^ bits) (hb : b < 2 ^ bits) (f : ℕ) (hf : min a b + 1 < f) :
    Ruint.Gen.val_uint_lcm f bits L a b = Ruint.Gcd.lcm bits a b := by
  unfold Ruint.Gen.val_uint_lcm Ruint.Gcd.lcm
  rw [uint_gcd_eq bits L a b ha hb f hf]
  cases Ruint.Gcd.gcd bits a b with
  | none => rfl
  | some g =>
    by_cases hg : g = 0
    · subst hg; simp
    · have : (g == 0) = false := by simpa using hg
      simp [this, hg]; split <;> rfl

end Ruint.GenGcd
