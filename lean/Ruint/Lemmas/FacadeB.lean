import Ruint.Lemmas.FacadeA
import Mathlib.Algebra.BigOperators.Group.List.Basic
import Mathlib.Data.Nat.Bitwise
/-! C20 lemmas, part B: scans = value comparison, select, bit_ct, is_multiple_of, MulAdd, pow by squaring,
    prev/next_multiple_of defaults, Product/Sum folds. -/
namespace Ruint.Facade
open Ruint

theorem lt_scan (a b : List ℕ) (h : a.length = b.length) (ha : AllLt a) (hb : AllLt b) :
    (a.zip b).foldr (fun p st => ltStep st p) (true, false)
      = (decide (val a = val b), decide (val a < val b)) := by
  induction a generalizing b with
  | nil =>
    cases b with
    | nil => simp
    | cons y ys => simp at h
  | cons x xs ih =>
    cases b with
    | nil => simp at h
    | cons y ys =>
      simp only [List.length_cons, Nat.add_right_cancel_iff] at h
      simp only [List.zip_cons_cons, List.foldr_cons]
      rw [ih ys h ha.tail hb.tail]
      simp only [ltStep, val_cons]
      have e1 := cons_eq_iff x y (val xs) (val ys) ha.head hb.head
      have e2 := cons_lt_iff x y (val xs) (val ys) ha.head hb.head
      congr 1
      · rw [Bool.and_eq_decide]; simp only [decide_eq_true_eq]; exact decide_eq_decide.mpr e1.symm
      · rw [← Bool.decide_and, ← Bool.decide_or]
        exact decide_eq_decide.mpr e2.symm

theorem ctGt_eq (a b : List ℕ) (h : a.length = b.length) (ha : AllLt a) (hb : AllLt b) :
    ctGt a b = decide (val b < val a) := by
  unfold ctGt
  rw [scan_reverse gtStep _ a b h, gt_scan a b h ha hb]

theorem ctLt_eq (a b : List ℕ) (h : a.length = b.length) (ha : AllLt a) (hb : AllLt b) :
    ctLt a b = decide (val a < val b) := by
  unfold ctLt
  rw [scan_reverse ltStep _ a b h, lt_scan a b h ha hb]

theorem conditionalSelect_eq (a b : List ℕ) (c : Bool) (h : a.length = b.length) :
    conditionalSelect a b c = if c then b else a := by
  unfold conditionalSelect
  induction a generalizing b with
  | nil => cases b <;> simp at h ⊢
  | cons x xs ih =>
    cases b with
    | nil => simp at h
    | cons y ys =>
      simp only [List.length_cons, Nat.add_right_cancel_iff] at h
      simp only [List.zipWith_cons_cons, ih ys h]
      cases c <;> simp

theorem and_two_pow_cases (x k : ℕ) : x &&& 2 ^ k = 0 ∨ x &&& 2 ^ k = 2 ^ k := by
  rw [Nat.and_two_pow]
  cases x.testBit k <;> simp

theorem bitCt_eq (bits : ℕ) (a : List ℕ) (i : ℕ) (h : i < bits) : bitCt bits a i = some (bit bits a i) := by
  unfold bitCt bit
  rw [if_pos h, if_neg (by omega)]
  congr 1
  have hp : 0 < 2 ^ (i % 64) := by positivity
  rcases and_two_pow_cases (a.getD (i / 64) 0) (i % 64) with h0 | h1
  · rw [h0]; simp; try omega
  · rw [h1]; simp; try omega

theorem isMultipleOf_iff (a b : ℕ) : isMultipleOf a b = true ↔ b ∣ a := by
  unfold isMultipleOf
  by_cases hb : b = 0
  · subst hb; simp
  · rw [if_neg hb]; simp [Nat.dvd_iff_mod_eq_zero]

theorem mulAdd_eq (bits x a b : ℕ) : mulAdd bits x a b = (x * a + b) % 2 ^ bits := by
  unfold mulAdd wadd wmul
  rw [Nat.mod_add_mod]

theorem powMod_eq (m fuel a e : ℕ) (h : e < fuel) : powMod m fuel a e = a ^ e % m := by
  induction fuel generalizing a e with
  | zero => omega
  | succ f ih =>
    unfold powMod
    by_cases he : e = 0
    · subst he; simp
    · rw [if_neg he]
      simp only
      rw [ih (a * a % m) (e / 2) (by omega)]
      have hsq : (a * a % m) ^ (e / 2) % m = (a * a) ^ (e / 2) % m := by
        rw [Nat.pow_mod, Nat.mod_mod, ← Nat.pow_mod]
      rw [hsq]
      have hd := Nat.div_add_mod e 2
      by_cases hodd : e % 2 = 1
      · rw [if_pos hodd]
        have : a ^ e = a * (a * a) ^ (e / 2) := by
          conv_lhs => rw [← hd, hodd, pow_succ, pow_mul]
          ring
        rw [this, Nat.mul_mod, Nat.mod_mod, ← Nat.mul_mod]
      · rw [if_neg hodd]
        have h0 : e % 2 = 0 := by omega
        have : a ^ e = (a * a) ^ (e / 2) := by
          conv_lhs => rw [← hd, h0, Nat.add_zero, pow_mul]
          ring
        rw [this]

theorem powU32_eq (bits a e : ℕ) (ha : a < 2 ^ bits) : powU32 bits a e = a ^ e % 2 ^ bits := by
  unfold powU32 wpow
  by_cases hb : bits = 0
  · subst hb
    have : a = 0 := by simpa using ha
    subst this
    simp [Nat.mod_one]
  · rw [if_neg hb, powMod_eq _ _ _ _ (Nat.lt_succ_self e)]

theorem prevMultipleOf_spec (bits a b : ℕ) (hb : 0 < b) (ha : a < 2 ^ bits) :
    ∃ r, prevMultipleOf bits a b = some r ∧ b ∣ r ∧ r ≤ a ∧ a < r + b := by
  unfold prevMultipleOf wrem
  rw [if_neg (by omega)]
  refine ⟨a - a % b, ?_, ?_, by omega, ?_⟩
  · simp only [wsub]
    have hle : a % b ≤ a := Nat.mod_le a b
    have : a + 2 ^ bits - a % b = (a - a % b) + 2 ^ bits := by omega
    rw [this, Nat.add_mod_right, Nat.mod_eq_of_lt (by omega)]
  · exact Nat.dvd_sub_mod a
  · have := Nat.mod_lt a hb
    have hle : a % b ≤ a := Nat.mod_le a b
    omega

/-- the default `next_multiple_of` (wrapping `+`): the least multiple of `b` at or above `a`, reduced mod
    `2^bits`; it is that multiple itself whenever it fits. -/
theorem nextMultipleOf_spec (bits a b : ℕ) (hb : 0 < b) (ha : a < 2 ^ bits) (hb' : b < 2 ^ bits) :
    ∃ n, b ∣ n ∧ a ≤ n ∧ n < a + b ∧ nextMultipleOf bits a b = some (n % 2 ^ bits) := by
  unfold nextMultipleOf wrem
  rw [if_neg (by omega)]
  have hm := Nat.mod_lt a hb
  have hle : a % b ≤ a := Nat.mod_le a b
  by_cases h0 : a % b = 0
  · refine ⟨a, Nat.dvd_of_mod_eq_zero h0, le_refl _, by omega, ?_⟩
    simp [h0, wadd]
  · refine ⟨a + (b - a % b), ?_, by omega, by omega, ?_⟩
    · have : a + (b - a % b) = (a - a % b) + b := by omega
      rw [this]
      exact Nat.dvd_add (Nat.dvd_sub_mod a) (dvd_refl b)
    · simp only [h0, if_false, wadd, wsub]
      have : b + 2 ^ bits - a % b = (b - a % b) + 2 ^ bits := by omega
      have hlt : b - a % b < 2 ^ bits := by omega
      rw [this, Nat.add_mod_right, Nat.mod_eq_of_lt hlt]

theorem foldl_wmul (bits : ℕ) (l : List ℕ) (acc : ℕ) :
    l.foldl (wmul bits) acc % 2 ^ bits = (acc * l.prod) % 2 ^ bits := by
  induction l generalizing acc with
  | nil => simp
  | cons x xs ih =>
    simp only [List.foldl_cons, List.prod_cons]
    rw [ih, wmul, Nat.mod_mul_mod, Nat.mul_assoc]

theorem product_eq (bits : ℕ) (l : List ℕ) : product bits l = l.prod % 2 ^ bits := by
  unfold product
  by_cases hb : bits = 0
  · subst hb; simp [Nat.mod_one]
  · rw [if_neg hb]
    have key : ∀ (l : List ℕ) (acc : ℕ), acc < 2 ^ bits → l.foldl (wmul bits) acc < 2 ^ bits := by
      intro l
      induction l with
      | nil => intro acc h; simpa using h
      | cons x xs ih =>
        intro acc _
        simp only [List.foldl_cons]
        exact ih _ (Nat.mod_lt _ (by positivity))
    have h1 : one bits < 2 ^ bits := Nat.mod_lt _ (by positivity)
    have := foldl_wmul bits l (one bits)
    rw [Nat.mod_eq_of_lt (key l _ h1)] at this
    rw [this]
    unfold one
    rw [Nat.mod_mul_mod, Nat.one_mul]

theorem foldl_wadd (bits : ℕ) (l : List ℕ) (acc : ℕ) :
    l.foldl (wadd bits) acc % 2 ^ bits = (acc + l.sum) % 2 ^ bits := by
  induction l generalizing acc with
  | nil => simp
  | cons x xs ih =>
    simp only [List.foldl_cons, List.sum_cons]
    rw [ih, wadd, Nat.mod_add_mod, Nat.add_assoc]

theorem val_zero_of_not_any (xs : List ℕ) (h : xs.any (· != 0) = false) : val xs = 0 := by
  induction xs with
  | nil => rfl
  | cons y ys ih =>
    simp only [List.any_cons, Bool.or_eq_false_iff, bne_eq_false_iff_eq] at h
    rw [val_cons, h.1, ih h.2]; simp

theorem val_pos_of_any (xs : List ℕ) (h : xs.any (· != 0) = true) : 0 < val xs := by
  induction xs with
  | nil => simp at h
  | cons y ys ih =>
    simp only [List.any_cons, Bool.or_eq_true, bne_iff_ne, ne_eq] at h
    rw [val_cons]
    rcases h with h | h
    · omega
    · have := ih h
      have : 0 < W * val ys := Nat.mul_pos W_pos this
      omega

/-- shifting by a `Uint` amount is shifting by its value (`bits < 2^64`, as on every real target). -/
theorem shiftUint_eq (bits a : ℕ) (rhs : List ℕ) (hb : bits < 2 ^ 64) (ha : a < 2 ^ bits) :
    shlUint bits a rhs = wshl bits a (val rhs) ∧ shrUint bits a rhs = wshr bits a (val rhs) := by
  unfold shlUint shrUint
  by_cases h0 : bits = 0
  · subst h0
    have : a = 0 := by simpa using ha
    subst this
    simp [wshl, wshr]
  · rw [if_neg h0, if_neg h0]
    cases rhs with
    | nil => simp
    | cons x xs =>
      rw [val_cons]
      change (if xs.any (· != 0) = true then 0 else wshl bits a x) = wshl bits a (x + W * val xs)
        ∧ (if xs.any (· != 0) = true then 0 else wshr bits a x) = wshr bits a (x + W * val xs)
      by_cases ht : xs.any (· != 0) = true
      · rw [if_pos ht, if_pos ht]
        have hp := val_pos_of_any xs ht
        have hW : W = 2 ^ 64 := rfl
        have : bits ≤ x + W * val xs := by
          have : W * 1 ≤ W * val xs := Nat.mul_le_mul_left _ hp
          omega
        simp [wshl, wshr, this]
      · rw [if_neg ht, if_neg ht]
        have : val xs = 0 := val_zero_of_not_any xs (by simpa using ht)
        rw [this, Nat.mul_zero, Nat.add_zero]
        exact ⟨rfl, rfl⟩

end Ruint.Facade
