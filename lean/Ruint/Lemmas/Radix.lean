import Ruint.Lemmas.Basic
import Ruint.Model.Radix
import Ruint.Spec.Radix
import Mathlib.Data.Nat.Digits.Lemmas
import Mathlib.Tactic.Ring
import Mathlib.Tactic.Linarith
import Mathlib.Tactic.Push

/-! Lemmas for C09 (digit iterators, `from_base_*`). -/
namespace Ruint.Radix
open Ruint

/-! ## own digit functions = Mathlib's -/

theorem digitsAux_eq (b : ℕ) (hb : 2 ≤ b) : ∀ (f v : ℕ), v ≤ f → digitsAux b f v = Nat.digits b v := by
  intro f
  induction f with
  | zero => intro v hv; have : v = 0 := by omega
            subst this; simp [digitsAux]
  | succ f ih =>
    intro v hv
    by_cases h0 : v = 0
    · subst h0; simp [digitsAux]
    · have hpos : 0 < v := Nat.pos_of_ne_zero h0
      simp only [digitsAux, h0, if_false]
      rw [Nat.digits_def' (by omega) hpos]
      have : v / b ≤ f := by
        have : v / b < v := Nat.div_lt_self hpos (by omega)
        omega
      rw [ih _ this]

theorem digitsLE_eq (b v : ℕ) (hb : 2 ≤ b) : digitsLE b v = Nat.digits b v :=
  digitsAux_eq b hb v v le_rfl

theorem ofDigitsLE_eq (b : ℕ) (ds : List ℕ) : ofDigitsLE b ds = Nat.ofDigits b ds := by
  induction ds with
  | nil => rfl
  | cons d ds ih => simp [ofDigitsLE, Nat.ofDigits_cons, ih]

theorem valueLE_eq (b : ℕ) (ds : List ℕ) : Spec.Radix.valueLE b ds = Nat.ofDigits b ds := by
  induction ds with
  | nil => rfl
  | cons d ds ih => simp [Spec.Radix.valueLE, Nat.ofDigits_cons, ih]

/-- Horner from an accumulator. -/
def hornerFrom (b acc : ℕ) (ds : List ℕ) : ℕ := ds.foldl (fun a d => a * b + d) acc

theorem horner_eq_hornerFrom (b : ℕ) (ds : List ℕ) : Spec.Radix.horner b ds = hornerFrom b 0 ds := rfl

theorem hornerFrom_eq (b acc : ℕ) (ds : List ℕ) :
    hornerFrom b acc ds = acc * b ^ ds.length + Nat.ofDigits b ds.reverse := by
  induction ds generalizing acc with
  | nil => simp [hornerFrom]
  | cons d ds ih =>
    have : hornerFrom b acc (d :: ds) = hornerFrom b (acc * b + d) ds := rfl
    rw [this, ih, Nat.ofDigits_reverse_cons, List.length_cons, pow_succ]
    ring

theorem horner_eq (b : ℕ) (ds : List ℕ) : Spec.Radix.horner b ds = Nat.ofDigits b ds.reverse := by
  rw [horner_eq_hornerFrom, hornerFrom_eq]; simp

theorem hornerFrom_ge (b acc : ℕ) (hb : 1 ≤ b) (ds : List ℕ) : acc ≤ hornerFrom b acc ds := by
  induction ds generalizing acc with
  | nil => simp [hornerFrom]
  | cons d ds ih =>
    have : hornerFrom b acc (d :: ds) = hornerFrom b (acc * b + d) ds := rfl
    rw [this]
    have h1 := ih (acc * b + d)
    nlinarith

theorem hornerFrom_append (b acc : ℕ) (l m : List ℕ) :
    hornerFrom b acc (l ++ m) = hornerFrom b (hornerFrom b acc l) m := by
  simp [hornerFrom, List.foldl_append]

/-! ## the digit spigot -/

theorem collect_eq (b : ℕ) (hb : 2 ≤ b) : ∀ (f v : ℕ), v < 2 ^ f → collect b (f + 1) v = Nat.digits b v := by
  intro f
  induction f with
  | zero =>
    intro v hv
    have : v = 0 := by simpa using hv
    subst this; simp [collect, spigotNext]
  | succ f ih =>
    intro v hv
    by_cases h0 : v = 0
    · subst h0; simp [collect, spigotNext]
    · have hpos : 0 < v := Nat.pos_of_ne_zero h0
      have hlt : v / b < 2 ^ f := by
        have h2 : v / b ≤ v / 2 := Nat.div_le_div_left hb (by norm_num)
        have : v / 2 < 2 ^ f := by
          rw [Nat.div_lt_iff_lt_mul (by norm_num)]; rw [pow_succ] at hv; exact hv
        omega
      have e : collect b (f + 1 + 1) v = v % b :: collect b (f + 1) (v / b) := by
        conv_lhs => unfold collect
        simp [spigotNext, h0]
      rw [e, ih _ hlt, Nat.digits_def' (by omega) hpos]

/-- value of a big-endian limb list -/
def valBE (l : List ℕ) : ℕ := val l.reverse

theorem valBE_cons (x : ℕ) (xs : List ℕ) : valBE (x :: xs) = x * W ^ xs.length + valBE xs := by
  simp [valBE, val_append_single]; ring

theorem shortDivBE_spec (base : ℕ) (hb : 0 < base) :
    ∀ (xs : List ℕ) (r : ℕ), r < base → AllLt xs →
      valBE (shortDivBE base xs r).1 = (r * W ^ xs.length + valBE xs) / base
      ∧ (shortDivBE base xs r).2 = (r * W ^ xs.length + valBE xs) % base
      ∧ (shortDivBE base xs r).1.length = xs.length
      ∧ AllLt (shortDivBE base xs r).1 := by
  intro xs
  induction xs with
  | nil =>
    intro r hr _
    simp [shortDivBE, valBE, Nat.div_eq_of_lt hr, Nat.mod_eq_of_lt hr, AllLt.nil]
  | cons x xs ih =>
    intro r hr hx
    have hxW : x < W := hx.head
    have hcur : r * W + x < base * W := by nlinarith
    have hq : (r * W + x) / base < W := by
      rw [Nat.div_lt_iff_lt_mul hb]; nlinarith
    have hr' : (r * W + x) % base < base := Nat.mod_lt _ hb
    obtain ⟨i1, i2, i3, i4⟩ := ih ((r * W + x) % base) hr' hx.tail
    have key : r * W ^ (xs.length + 1) + (x * W ^ xs.length + valBE xs)
        = base * ((r * W + x) / base * W ^ xs.length) + ((r * W + x) % base * W ^ xs.length + valBE xs) := by
      have e := Nat.div_add_mod (r * W + x) base
      have : r * W ^ (xs.length + 1) + x * W ^ xs.length = (r * W + x) * W ^ xs.length := by
        rw [pow_succ]; ring
      calc r * W ^ (xs.length + 1) + (x * W ^ xs.length + valBE xs)
          = (r * W + x) * W ^ xs.length + valBE xs := by rw [← this]; ring
        _ = (base * ((r * W + x) / base) + (r * W + x) % base) * W ^ xs.length + valBE xs := by rw [e]
        _ = _ := by ring
    simp only [shortDivBE, Nat.mod_eq_of_lt hq, List.length_cons, valBE_cons]
    refine ⟨?_, ?_, ?_, ?_⟩
    · rw [i1, i3, key, Nat.mul_add_div hb]
    · rw [i2, key, Nat.mul_add_mod]
    · rw [i3]
    · exact AllLt.cons hq i4

theorem val_eq_zero_iff (l : List ℕ) : val l = 0 ↔ ∀ x ∈ l, x = 0 := by
  induction l with
  | nil => simp
  | cons x xs ih =>
    have := W_pos
    simp only [val_cons, List.mem_cons, forall_eq_or_imp]
    constructor
    · intro h
      have h1 : x = 0 := by omega
      have h2 : W * val xs = 0 := by omega
      have h3 : val xs = 0 := by
        rcases Nat.mul_eq_zero.mp h2 with h | h
        · omega
        · exact h
      exact ⟨h1, ih.mp h3⟩
    · rintro ⟨h1, h2⟩
      rw [h1, ih.mpr h2]; simp

theorem all_zero_iff (l : List ℕ) : (l.all (· == 0)) = true ↔ val l = 0 := by
  rw [val_eq_zero_iff]; simp

/-- the limb-level `SpigotLittle::next` refines the value-level one. -/
theorem spigotNextLimbs_spec (base : ℕ) (hb : 2 ≤ base) (hbW : base < W) (l : List ℕ) (hl : AllLt l) :
    (spigotNextLimbs base l).1 = (spigotNext base (val l)).1
    ∧ val (spigotNextLimbs base l).2 = (spigotNext base (val l)).2
    ∧ (spigotNextLimbs base l).2.length = l.length
    ∧ AllLt (spigotNextLimbs base l).2 := by
  have hrev : AllLt l.reverse := fun x hx => hl x (by simpa using hx)
  obtain ⟨s1, s2, s3, s4⟩ := shortDivBE_spec base (by omega) l.reverse 0 (by omega) hrev
  simp only [Nat.zero_mul, Nat.zero_add, valBE, List.reverse_reverse, List.length_reverse] at s1 s2 s3
  simp only [spigotNextLimbs, spigotNext]
  refine ⟨?_, s1, by simpa using s3, fun x hx => s4 x (by simpa using hx)⟩
  by_cases hz : val l = 0
  · have := (all_zero_iff l).mpr hz
    simp [this, hz]
  · have : ¬ (l.all (· == 0)) = true := fun h => hz ((all_zero_iff l).mp h)
    simp only [this, hz, if_false, Bool.false_eq_true]
    rw [s2, Nat.mod_eq_of_lt (lt_trans (Nat.mod_lt _ (by omega)) hbW)]

theorem collectLimbs_eq (base : ℕ) (hb : 2 ≤ base) (hbW : base < W) :
    ∀ (f : ℕ) (l : List ℕ), AllLt l → collectLimbs base f l = collect base f (val l) := by
  intro f
  induction f with
  | zero => intro l _; rfl
  | succ f ih =>
    intro l hl
    obtain ⟨s1, s2, _, s4⟩ := spigotNextLimbs_spec base hb hbW l hl
    unfold collectLimbs collect
    generalize hsl : spigotNextLimbs base l = sl at *
    generalize hsv : spigotNext base (val l) = sv at *
    obtain ⟨d1, l'⟩ := sl
    obtain ⟨d2, v'⟩ := sv
    simp only at s1 s2 s4
    subst s1
    cases d1 with
    | none => rfl
    | some d => simp only; rw [ih l' s4, s2]

/-! ## the carry chain of `from_base_be` / `parse_digits` -/

theorem mulAddChain_spec (base : ℕ) : ∀ (l : List ℕ) (c : ℕ),
    val (mulAddChain base l c).1 + W ^ l.length * (mulAddChain base l c).2 = val l * base + c
    ∧ (mulAddChain base l c).1.length = l.length
    ∧ AllLt (mulAddChain base l c).1 := by
  intro l
  induction l with
  | nil => intro c; simp [mulAddChain, AllLt.nil]
  | cons x xs ih =>
    intro c
    obtain ⟨i1, i2, i3⟩ := ih ((c + x * base) / W)
    simp only [mulAddChain, val_cons, List.length_cons, pow_succ]
    refine ⟨?_, by rw [i2], AllLt.cons (Nat.mod_lt _ W_pos) i3⟩
    have e := Nat.div_add_mod (c + x * base) W
    have e2 : (c + x * base) % W = c + x * base - W * ((c + x * base) / W) := by omega
    have hle : W * ((c + x * base) / W) ≤ c + x * base := Nat.mul_div_le _ _
    calc (c + x * base) % W + W * val (mulAddChain base xs ((c + x * base) / W)).1
          + W ^ xs.length * W * (mulAddChain base xs ((c + x * base) / W)).2
        = (c + x * base) % W + W * (val (mulAddChain base xs ((c + x * base) / W)).1
          + W ^ xs.length * (mulAddChain base xs ((c + x * base) / W)).2) := by ring
      _ = (c + x * base) % W + W * (val xs * base + (c + x * base) / W) := by rw [i1]
      _ = (W * ((c + x * base) / W) + (c + x * base) % W) + W * (val xs * base) := by ring
      _ = (c + x * base) + W * (val xs * base) := by rw [e]
      _ = (x + W * val xs) * base + c := by ring

/-- the final carry is a word when the inputs are. -/
theorem mulAddChain_carry_lt (base : ℕ) (hb : base < W) : ∀ (l : List ℕ) (c : ℕ), AllLt l → c < W →
    (mulAddChain base l c).2 < W := by
  intro l
  induction l with
  | nil => intro c _ hc; simpa [mulAddChain] using hc
  | cons x xs ih =>
    intro c hl hc
    simp only [mulAddChain]
    apply ih _ hl.tail
    have hx := hl.head
    rw [Nat.div_lt_iff_lt_mul W_pos]
    have : x * base ≤ (W - 1) * (W - 1) := Nat.mul_le_mul (by omega) (by omega)
    have hW : 1 ≤ W := W_pos
    nlinarith [Nat.sub_add_cancel hW]

/-! ## reference scans (value level): first event in digit order -/

/-- big-endian reference: invalid digit, else overflow of the Horner value, digit by digit. -/
def refBE (bits base : ℕ) : List ℕ → ℕ → Except BaseErr ℕ
  | [], acc => .ok acc
  | d :: ds, acc =>
    if d ≥ base then .error (.invalidDigit d base)
    else if acc * base + d ≥ 2 ^ bits then .error .overflow
    else refBE bits base ds (acc * base + d)

/-- little-endian reference: invalid digit, else overflow of the partial sum, digit by digit. -/
def refLE (bits base : ℕ) : List ℕ → ℕ → ℕ → Except BaseErr ℕ
  | [], acc, _ => .ok acc
  | d :: ds, acc, power =>
    if d ≥ base then .error (.invalidDigit d base)
    else if acc + power * d ≥ 2 ^ bits then .error .overflow
    else refLE bits base ds (acc + power * d) (power * base)

theorem zero_list_canon (bits : ℕ) : Canon bits (List.replicate (nlimbs bits) 0) := by
  refine ⟨by simp, fun x hx => ?_, ?_⟩
  · rw [List.mem_replicate] at hx; rw [hx.2]; exact W_pos
  · have : val (List.replicate (nlimbs bits) 0) = 0 := by
      rw [val_eq_zero_iff]; intro x hx; exact (List.mem_replicate.mp hx).2
    rw [this]; positivity

theorem val_replicate_zero (n : ℕ) : val (List.replicate n 0) = 0 := by
  rw [val_eq_zero_iff]; intro x hx; exact (List.mem_replicate.mp hx).2

/-- the limb-level loop of `from_base_be` computes the reference scan. -/
theorem fromBaseBELoop_spec (bits base : ℕ) : ∀ (ds : List ℕ) (r : List ℕ), Canon bits r →
    match fromBaseBELoop bits base ds r with
    | .ok l => Canon bits l ∧ refBE bits base ds (val r) = .ok (val l)
    | .error e => refBE bits base ds (val r) = .error e := by
  intro ds
  induction ds with
  | nil => intro r hr; simp [fromBaseBELoop, refBE, hr]
  | cons d ds ih =>
    intro r hr
    unfold fromBaseBELoop refBE
    by_cases hd : d ≥ base
    · simp [hd]
    · simp only [hd, if_false]
      obtain ⟨c1, c2, c3⟩ := mulAddChain_spec base r d
      generalize hm : mulAddChain base r d = m at *
      obtain ⟨r', carry⟩ := m
      simp only at c1 c2 c3 ⊢
      rw [hr.1] at c1 c2
      -- the overflow test is the value test
      have hov : (carry > 0 ∨ (nlimbs bits ≠ 0 ∧ r'.getLast?.getD 0 > mask bits)) ↔ val r * base + d ≥ 2 ^ bits := by
        rcases Nat.eq_zero_or_pos bits with h0 | hpos
        · subst h0
          have hn : nlimbs 0 = 0 := rfl
          have hr0 : r' = [] := by rw [hn] at c2; exact List.eq_nil_of_length_eq_zero c2
          subst hr0
          rw [hn] at c1
          simp only [val_nil, pow_zero, Nat.one_mul, Nat.zero_add] at c1
          simp only [hn, ne_eq, not_true_eq_false, false_and, or_false, pow_zero]
          omega
        · obtain ⟨_, _, m3⟩ := maskTop_spec bits hpos r' c2 c3
          have hle := two_pow_le_W bits
          have hlt := val_lt_pow r' c3
          rw [c2] at hlt
          have hn : nlimbs bits ≠ 0 := by have := nlimbs_pos bits hpos; omega
          constructor
          · rintro (h | ⟨_, h⟩)
            · have : W ^ nlimbs bits * carry ≥ W ^ nlimbs bits := Nat.le_mul_of_pos_right _ h
              omega
            · have := m3.mp h
              have : 0 ≤ W ^ nlimbs bits * carry := Nat.zero_le _
              omega
          · intro h
            by_cases hc : carry > 0
            · exact Or.inl hc
            · right
              refine ⟨hn, m3.mpr ?_⟩
              have : carry = 0 := by omega
              subst this
              omega
      by_cases ho : val r * base + d ≥ 2 ^ bits
      · have := hov.mpr ho
        simp [this, ho]
      · have hno : ¬ (carry > 0 ∨ (nlimbs bits ≠ 0 ∧ r'.getLast?.getD 0 > mask bits)) := fun h => ho (hov.mp h)
        simp only [hno, ho, if_false]
        -- new state is canonical with the new value
        have hc0 : carry = 0 := by
          by_contra h; exact hno (Or.inl (Nat.pos_of_ne_zero h))
        subst hc0
        have hv : val r' = val r * base + d := by simpa using c1
        have hcan : Canon bits r' := ⟨c2, c3, by omega⟩
        have := ih r' hcan
        rw [hv] at this
        exact this

/-- `from_base_le`'s loop (with the `break` and the zero-tail loop) computes the reference scan. -/
theorem refLE_big_power (bits base : ℕ) : ∀ (ds : List ℕ) (acc power : ℕ), acc < 2 ^ bits → 2 ^ bits ≤ power →
    refLE bits base ds acc power = (match zeroTail base ds with | some e => .error e | none => .ok acc) := by
  intro ds
  induction ds with
  | nil => intro acc power _ _; simp [refLE, zeroTail]
  | cons d ds ih =>
    intro acc power ha hp
    unfold refLE zeroTail
    by_cases hd : d ≥ base
    · simp [hd]
    · simp only [hd, if_false]
      by_cases h0 : d = 0
      · subst h0
        have : ¬ (acc + power * 0 ≥ 2 ^ bits) := by simp; omega
        simp only [this, if_false, ne_eq, not_true_eq_false]
        have hb : 0 < base := by omega
        have : 2 ^ bits ≤ power * base := le_trans hp (Nat.le_mul_of_pos_right _ hb)
        simpa using ih acc (power * base) ha this
      · have : acc + power * d ≥ 2 ^ bits := by
          have : power ≤ power * d := Nat.le_mul_of_pos_right _ (Nat.pos_of_ne_zero h0)
          omega
        simp [this, h0]

theorem fromBaseLELoop_spec (bits base : ℕ) : ∀ (ds : List ℕ) (acc power : ℕ), acc < 2 ^ bits → power < 2 ^ bits →
    fromBaseLELoop bits base ds acc power = refLE bits base ds acc power := by
  have hle := two_pow_le_W bits
  have hWpos : 0 < W ^ nlimbs bits := by have := W_pos; positivity
  -- carry/stored tests are value tests
  have test : ∀ t : ℕ, (t / W ^ nlimbs bits ≠ 0 ∨ t % W ^ nlimbs bits ≥ 2 ^ bits) ↔ t ≥ 2 ^ bits := by
    intro t
    constructor
    · rintro (h | h)
      · have : W ^ nlimbs bits ≤ t := by
          by_contra hc; push Not at hc
          exact h (Nat.div_eq_of_lt hc)
        omega
      · exact le_trans h (Nat.mod_le _ _)
    · intro h
      by_cases hc : t < W ^ nlimbs bits
      · right; rw [Nat.mod_eq_of_lt hc]; exact h
      · left; push Not at hc
        have : 0 < t / W ^ nlimbs bits := Nat.div_pos hc hWpos
        omega
  have small : ∀ t : ℕ, ¬ t ≥ 2 ^ bits → t % W ^ nlimbs bits = t := by
    intro t h; apply Nat.mod_eq_of_lt; omega
  intro ds
  induction ds with
  | nil => intro acc power _ _; simp [fromBaseLELoop, refLE]
  | cons d ds ih =>
    intro acc power ha hp
    simp only [fromBaseLELoop, refLE, test]
    by_cases hd : d ≥ base
    · rw [if_pos hd, if_pos hd]
    · rw [if_neg hd, if_neg hd]
      by_cases ho : acc + power * d ≥ 2 ^ bits
      · rw [if_pos ho, if_pos ho]
      · rw [if_neg ho, if_neg ho, small _ ho]
        by_cases hpo : power * base ≥ 2 ^ bits
        · rw [if_pos hpo, refLE_big_power bits base ds _ _ (by omega) hpo]
          cases zeroTail base ds <;> rfl
        · rw [if_neg hpo, small _ hpo]
          exact ih _ _ (by omega) (by omega)

/-! ## what the reference scans compute -/

theorem refBE_ok_iff (bits base : ℕ) (hb : 1 ≤ base) : ∀ (ds : List ℕ) (acc v : ℕ),
    refBE bits base ds acc = .ok v ↔ (∀ d ∈ ds, d < base) ∧ hornerFrom base acc ds = v ∧ (ds ≠ [] → v < 2 ^ bits) := by
  intro ds
  induction ds with
  | nil => intro acc v; simp [refBE, hornerFrom]
  | cons d ds ih =>
    intro acc v
    have hstep : hornerFrom base acc (d :: ds) = hornerFrom base (acc * base + d) ds := rfl
    unfold refBE
    by_cases hd : d ≥ base
    · simp only [hd, if_true]
      constructor
      · intro h; cases h
      · rintro ⟨h, _⟩; have := h d (by simp); omega
    · simp only [hd, if_false]
      by_cases ho : acc * base + d ≥ 2 ^ bits
      · simp only [ho, if_true]
        constructor
        · intro h; cases h
        · rintro ⟨_, h2, h3⟩
          have := hornerFrom_ge base (acc * base + d) hb ds
          rw [hstep] at h2
          have := h3 (by simp)
          omega
      · simp only [ho, if_false]
        rw [ih, hstep]
        constructor
        · rintro ⟨h1, h2, h3⟩
          refine ⟨?_, h2, fun _ => ?_⟩
          · intro x hx
            simp only [List.mem_cons] at hx
            rcases hx with rfl | hx
            · omega
            · exact h1 x hx
          · by_cases hds : ds = []
            · subst hds; simp [hornerFrom] at h2; omega
            · exact h3 hds
        · rintro ⟨h1, h2, h3⟩
          exact ⟨fun x hx => h1 x (by simp [hx]), h2, fun _ => h3 (by simp)⟩

theorem refBE_overflow (bits base : ℕ) : ∀ (ds : List ℕ) (acc : ℕ), acc < 2 ^ bits →
    (∀ d ∈ ds, d < base) → 2 ^ bits ≤ hornerFrom base acc ds → refBE bits base ds acc = .error .overflow := by
  intro ds
  induction ds with
  | nil => intro acc ha _ h; simp [hornerFrom] at h; omega
  | cons d ds ih =>
    intro acc ha hv h
    have hstep : hornerFrom base acc (d :: ds) = hornerFrom base (acc * base + d) ds := rfl
    have hd : ¬ d ≥ base := by have := hv d (by simp); omega
    unfold refBE
    simp only [hd, if_false]
    by_cases ho : acc * base + d ≥ 2 ^ bits
    · simp [ho]
    · simp only [ho, if_false]
      exact ih _ (by omega) (fun x hx => hv x (by simp [hx])) (by rw [← hstep]; exact h)

/-- an invalid digit after a valid prefix: `InvalidDigit` unless the prefix already overflowed. -/
theorem refBE_invalid (bits base : ℕ) (hb : 1 ≤ base) : ∀ (pre : List ℕ) (d : ℕ) (post : List ℕ) (acc : ℕ), acc < 2 ^ bits →
    (∀ x ∈ pre, x < base) → base ≤ d →
    refBE bits base (pre ++ d :: post) acc =
      if hornerFrom base acc pre < 2 ^ bits then .error (.invalidDigit d base) else .error .overflow := by
  intro pre
  induction pre with
  | nil =>
    intro d post acc ha _ hd
    simp [refBE, hornerFrom, hd, ha]
  | cons p pre ih =>
    intro d post acc ha hv hd
    have hstep : hornerFrom base acc (p :: pre) = hornerFrom base (acc * base + p) pre := rfl
    have hp : ¬ p ≥ base := by have := hv p (by simp); omega
    simp only [List.cons_append]
    unfold refBE
    simp only [hp, if_false]
    by_cases ho : acc * base + p ≥ 2 ^ bits
    · have := hornerFrom_ge base (acc * base + p) hb pre
      have hn : ¬ hornerFrom base acc (p :: pre) < 2 ^ bits := by rw [hstep]; omega
      simp [ho, hn]
    · simp only [ho, if_false]
      rw [ih d post _ (by omega) (fun x hx => hv x (by simp [hx])) hd, hstep]

/-- partial sums, little-endian, from an accumulator and a power. -/
def sumFrom (base acc power : ℕ) (ds : List ℕ) : ℕ := acc + power * Nat.ofDigits base ds

theorem refLE_ok_iff (bits base : ℕ) : ∀ (ds : List ℕ) (acc power v : ℕ),
    refLE bits base ds acc power = .ok v ↔ (∀ d ∈ ds, d < base) ∧ sumFrom base acc power ds = v ∧ (ds ≠ [] → v < 2 ^ bits) := by
  intro ds
  induction ds with
  | nil => intro acc power v; simp [refLE, sumFrom]
  | cons d ds ih =>
    intro acc power v
    have hstep : sumFrom base acc power (d :: ds) = sumFrom base (acc + power * d) (power * base) ds := by
      simp [sumFrom, Nat.ofDigits_cons]; ring
    unfold refLE
    by_cases hd : d ≥ base
    · simp only [hd, if_true]
      constructor
      · intro h; cases h
      · rintro ⟨h, _⟩; have := h d (by simp); omega
    · simp only [hd, if_false]
      by_cases ho : acc + power * d ≥ 2 ^ bits
      · simp only [ho, if_true]
        constructor
        · intro h; cases h
        · rintro ⟨_, h2, h3⟩
          rw [hstep] at h2
          have : acc + power * d ≤ sumFrom base (acc + power * d) (power * base) ds := Nat.le_add_right _ _
          have := h3 (by simp)
          omega
      · simp only [ho, if_false]
        rw [ih, hstep]
        constructor
        · rintro ⟨h1, h2, h3⟩
          refine ⟨?_, h2, fun _ => ?_⟩
          · intro x hx
            simp only [List.mem_cons] at hx
            rcases hx with rfl | hx
            · omega
            · exact h1 x hx
          · by_cases hds : ds = []
            · subst hds; simp [sumFrom] at h2; omega
            · exact h3 hds
        · rintro ⟨h1, h2, h3⟩
          exact ⟨fun x hx => h1 x (by simp [hx]), h2, fun _ => h3 (by simp)⟩

theorem refLE_overflow (bits base : ℕ) : ∀ (ds : List ℕ) (acc power : ℕ), acc < 2 ^ bits →
    (∀ d ∈ ds, d < base) → 2 ^ bits ≤ sumFrom base acc power ds → refLE bits base ds acc power = .error .overflow := by
  intro ds
  induction ds with
  | nil => intro acc power ha _ h; simp [sumFrom] at h; omega
  | cons d ds ih =>
    intro acc power ha hv h
    have hstep : sumFrom base acc power (d :: ds) = sumFrom base (acc + power * d) (power * base) ds := by
      simp [sumFrom, Nat.ofDigits_cons]; ring
    have hd : ¬ d ≥ base := by have := hv d (by simp); omega
    unfold refLE
    simp only [hd, if_false]
    by_cases ho : acc + power * d ≥ 2 ^ bits
    · simp [ho]
    · simp only [ho, if_false]
      exact ih _ _ (by omega) (fun x hx => hv x (by simp [hx])) (by rw [← hstep]; exact h)

theorem refLE_invalid (bits base : ℕ) : ∀ (pre : List ℕ) (d : ℕ) (post : List ℕ) (acc power : ℕ), acc < 2 ^ bits →
    (∀ x ∈ pre, x < base) → base ≤ d →
    refLE bits base (pre ++ d :: post) acc power =
      if sumFrom base acc power pre < 2 ^ bits then .error (.invalidDigit d base) else .error .overflow := by
  intro pre
  induction pre with
  | nil =>
    intro d post acc power ha _ hd
    simp [refLE, sumFrom, hd, ha]
  | cons p pre ih =>
    intro d post acc power ha hv hd
    have hstep : sumFrom base acc power (p :: pre) = sumFrom base (acc + power * p) (power * base) pre := by
      simp [sumFrom, Nat.ofDigits_cons]; ring
    have hp : ¬ p ≥ base := by have := hv p (by simp); omega
    simp only [List.cons_append]
    unfold refLE
    simp only [hp, if_false]
    by_cases ho : acc + power * p ≥ 2 ^ bits
    · have : acc + power * p ≤ sumFrom base (acc + power * p) (power * base) pre := Nat.le_add_right _ _
      have hn : ¬ sumFrom base acc power (p :: pre) < 2 ^ bits := by rw [hstep]; omega
      simp [ho, hn]
    · simp only [ho, if_false]
      rw [ih d post _ _ (by omega) (fun x hx => hv x (by simp [hx])) hd, hstep]

/-- `from_base_le` as a whole is the reference scan from `(0, 1)`. -/
theorem fromBaseLE_eq_ref (bits base : ℕ) (hb : 2 ≤ base) (ds : List ℕ) :
    fromBaseLE bits base ds = refLE bits base ds 0 1 := by
  have hb' : ¬ base < 2 := by omega
  unfold fromBaseLE
  simp only [hb', if_false]
  by_cases h0 : bits = 0
  · subst h0
    simp only [if_true]
    rw [refLE_big_power 0 base ds 0 1 (by simp) (by simp)]
    cases zeroTail base ds <;> rfl
  · simp only [h0, if_false]
    have h1 : 1 < 2 ^ bits := Nat.one_lt_two_pow h0
    exact fromBaseLELoop_spec bits base ds 0 1 (by omega) h1

theorem fromBaseBE_cases (bits base : ℕ) (hb : 2 ≤ base) (ds : List ℕ) :
    match fromBaseBE bits base ds with
    | .ok l => Canon bits l ∧ refBE bits base ds 0 = .ok (val l)
    | .error e => refBE bits base ds 0 = .error e := by
  have hb' : ¬ base < 2 := by omega
  have := fromBaseBELoop_spec bits base ds _ (zero_list_canon bits)
  rw [val_replicate_zero] at this
  simpa [fromBaseBE, hb'] using this


theorem fromBaseBE_ok_iff (bits base : ℕ) (hb : 2 ≤ base) (ds : List ℕ) (l : List ℕ) :
    fromBaseBE bits base ds = .ok l ↔
      (∀ d ∈ ds, d < base) ∧ Canon bits l ∧ val l = Nat.ofDigits base ds.reverse := by
  have hc := fromBaseBE_cases bits base hb ds
  constructor
  · intro h
    rw [h] at hc
    obtain ⟨c, r⟩ := hc
    obtain ⟨r1, r2, _⟩ := (refBE_ok_iff bits base (by omega) ds 0 (val l)).mp r
    refine ⟨r1, c, ?_⟩
    rw [← r2, hornerFrom_eq]; simp
  · rintro ⟨h1, h2, h3⟩
    have hr : refBE bits base ds 0 = .ok (val l) :=
      (refBE_ok_iff bits base (by omega) ds 0 (val l)).mpr
        ⟨h1, by rw [hornerFrom_eq, h3]; simp, fun _ => h2.2.2⟩
    cases hf : fromBaseBE bits base ds with
    | error e => rw [hf] at hc; simp only at hc; rw [hr] at hc; cases hc
    | ok l' =>
      rw [hf] at hc
      obtain ⟨c, r⟩ := hc
      rw [hr] at r
      have : val l = val l' := by injection r
      rw [canon_ext bits l l' h2 c this]


end Ruint.Radix
