import Ruint.Lemmas.FloatTo2

/-! The rounded mantissa of `f64/f32::from(&Uint)` against the `p`-bit prefix of the value (truncation to 64
    bits first, then one nearest-even rounding). -/
namespace Ruint.Float

/-- nearest: rounding never moves further than half a unit up. -/
theorem rneShift_near (m k : ℕ) : 2 * (rneShift m k * 2 ^ k) ≤ 2 * m + 2 ^ k := by
  have hp : 0 < 2 ^ k := by positivity
  have hd := Nat.div_add_mod m (2 ^ k)
  have hr := Nat.mod_lt m hp
  unfold rneShift
  simp only
  split
  · next h =>
    have : (m / 2 ^ k + 1) * 2 ^ k = 2 ^ k * (m / 2 ^ k) + 2 ^ k := by ring
    rw [this]
    rcases h with h | ⟨h, _⟩ <;> omega
  · have : m / 2 ^ k * 2 ^ k = 2 ^ k * (m / 2 ^ k) := by ring
    rw [this]; omega

/-- the value-level closed form of the conversion: pattern `(L + bias - 2)·2^mb + Mr`, capped at infinity. -/
theorem toFloatV_closed (f : Fmt) (hw : f.Wide) (v : ℕ) (hv : 0 < v) :
    toFloatV f v = min f.infBits ((bitLen v + f.bias - 2) * 2 ^ f.mb + mant f (v / 2 ^ (bitLen v - 64))) := by
  obtain ⟨h1, h2, h3⟩ := msbSpec_facts v hv
  unfold toFloatV
  have : msbSpec v = (v / 2 ^ (bitLen v - 64), bitLen v - 64) := rfl
  rw [this, toFloatOf_closed f hw _ _ h1 h3, h2]

/-- the rounded mantissa in terms of the `p`-bit prefix `lo = v / 2^k`, `k = bitLen v - p`. -/
theorem mant_top (f : Fmt) (hw : f.Wide) (v : ℕ) (hv : 0 < v) (hL : f.mb + 1 ≤ bitLen v) :
    let k := bitLen v - (f.mb + 1)
    let lo := v / 2 ^ k
    let R := mant f (v / 2 ^ (bitLen v - 64))
    (R = lo ∨ R = lo + 1) ∧ (v % 2 ^ k = 0 → R = lo) ∧ 2 * (R * 2 ^ k) ≤ 2 * v + 2 ^ k := by
  obtain ⟨hf, hp, hbias⟩ := hw
  obtain ⟨h1, h2, h3⟩ := msbSpec_facts v hv
  intro k lo R
  obtain ⟨E, hE⟩ : ∃ E, E = bitLen v - 64 := ⟨_, rfl⟩
  obtain ⟨b, hb⟩ : ∃ b, b = v / 2 ^ E := ⟨_, rfl⟩
  have hR : R = mant f b := by rw [hb, hE]
  rw [← hE, ← hb] at h1 h2 h3
  have hEpos : 0 < 2 ^ E := by positivity
  have hbv : b * 2 ^ E ≤ v := by rw [hb]; exact Nat.div_mul_le_self v _
  have hkE : k = (bitLen b - (f.mb + 1)) + E := by omega
  have hlo : lo = b / 2 ^ (bitLen b - (f.mb + 1)) := by
    show v / 2 ^ k = _
    rw [hkE, Nat.add_comm, pow_add, ← Nat.div_div_eq_div_mul, ← hb]
  unfold mant at hR
  by_cases hle : bitLen b ≤ f.mb + 1
  · -- the top 64 bits are exactly the prefix (p = 64 or short values)
    have hbl : bitLen b = f.mb + 1 := by omega
    rw [if_pos hle, hbl, Nat.sub_self, pow_zero, Nat.mul_one] at hR
    rw [hbl, Nat.sub_self, pow_zero, Nat.div_one] at hlo
    have hkE' : k = E := by omega
    refine ⟨Or.inl (by rw [hR, hlo]), fun _ => by rw [hR, hlo], ?_⟩
    rw [hR, hkE']; omega
  · rw [if_neg hle] at hR
    obtain ⟨k', hk'⟩ : ∃ k', k' = bitLen b - (f.mb + 1) := ⟨_, rfl⟩
    rw [← hk'] at hR hlo hkE
    refine ⟨?_, ?_, ?_⟩
    · rcases rneShift_cases b k' with h | ⟨h, _⟩
      · left; rw [hR, h, hlo]
      · right; rw [hR, h, hlo]
    · intro hmod
      have hbmod : b % 2 ^ k' = 0 := by
        have hdv : 2 ^ k ∣ v := Nat.dvd_of_mod_eq_zero hmod
        obtain ⟨c, hc⟩ := hdv
        have : b = 2 ^ k' * c := by
          rw [hb, hc, hkE, pow_add, Nat.mul_comm (2 ^ k') (2 ^ E), Nat.mul_assoc,
            Nat.mul_div_cancel_left _ hEpos]
        rw [this]; exact Nat.mul_mod_right _ _
      rw [hR, rneShift_exact b k' hbmod, hlo]
    · have hn := rneShift_near b k'
      rw [hR, hkE, pow_add]
      calc 2 * (rneShift b k' * (2 ^ k' * 2 ^ E)) = 2 * (rneShift b k' * 2 ^ k') * 2 ^ E := by ring
        _ ≤ (2 * b + 2 ^ k') * 2 ^ E := Nat.mul_le_mul_right _ hn
        _ = 2 * (b * 2 ^ E) + 2 ^ k' * 2 ^ E := by ring
        _ ≤ 2 * v + 2 ^ k' * 2 ^ E := by omega

end Ruint.Float
