import Ruint.Lemmas.GenUintWrap
import Ruint.Lemmas.GenMulWrap
import Ruint.Gen.WordsFolds
/-! Iterator `Sum` / `Product` (`src/add.rs`, `src/mul.rs`; by value and by reference) as GENERATED into `Gen/WordsFolds.lean`
    — a left fold with the generated `wrapping_add` / `wrapping_mul` — equal the models `Add.sum` / `Mul.product` on lists of
    canonical values. -/
namespace Ruint.GenFolds
open Ruint

theorem foldl_congr_canon {α : Type} (P : α → Prop) (g h : α → α → α) (hP : ∀ a x, P a → P x → P (h a x))
    (hgh : ∀ a x, P a → P x → g a x = h a x) :
    ∀ (l : List α) (init : α), P init → (∀ x ∈ l, P x) → List.foldl g init l = List.foldl h init l
  | [], _, _, _ => rfl
  | x :: xs, init, hi, hl => by
    have hx : P x := hl x (by simp)
    simp only [List.foldl_cons]
    rw [hgh init x hi hx]
    exact foldl_congr_canon P g h hP hgh xs (h init x) (hP init x hi hx) (fun y hy => hl y (by simp [hy]))

end Ruint.GenFolds
