import Ruint.Lemmas.Shift
import Ruint.Lemmas.GenUint
import Ruint.Lemmas.GenLehmer
import Ruint.Gen.WordsUint

/-! `Uint::overflowing_shl` / `overflowing_shr` / `apply_mask` as GENERATED from `src/bits.rs` / `src/lib.rs`
    equal the C05 model (`Ruint.Shift.overflowingShl/Shr`). -/
namespace Ruint.GenShift
open Ruint Ruint.Shift Ruint.Bits Ruint.GenLehmer Ruint.GenUint

theorem bne_zero (a : List ℕ) : (a != List.replicate a.length 0) = isNonzero a := by
  unfold isNonzero
  induction a with
  | nil => simp
  | cons x xs ih =>
    simp only [List.length_cons, List.replicate_succ, List.any_cons, ← ih]
    by_cases hx : x = 0 <;> simp [hx, bne, List.cons_beq_cons]

theorem apply_mask_eq (bits : ℕ) (hb : 0 < bits) (hN : nlimbs bits < 2 ^ 64) (l : List ℕ)
    (hl : l.length = nlimbs bits) (hw : AllLt l) :
    Ruint.Gen.uint_apply_mask bits (nlimbs bits) l = maskTop bits l := by
  rw [← masked_eq bits hb hN l hl hw]
  rfl

theorem shl_step1_eq (BITS LIMBS : ℕ) (a : List ℕ) (limbs b wb bound : ℕ) (r : List ℕ) (c i : ℕ) :
    Ruint.Gen.uint_overflowing_shl_step1 BITS LIMBS a limbs b wb bound (r, c, i) =
      if i < bound then
        ((r.set (Rs.wadd 64 i limbs) (Rs.wshl 64 (a.getD i 0) b ||| c),
          a.getD i 0 / 2 ^ (Rs.wsub 64 (Rs.wsub 64 wb b) 1) / 2 ^ 1, Rs.wadd 64 i 1), true)
      else ((r, c, i), false) := by
  unfold Ruint.Gen.uint_overflowing_shl_step1
  simp only [decide_eq_true_eq]

theorem shlLoop_cons (b x c : ℕ) (xs : List ℕ) :
    shlLoop b (x :: xs) c =
      (((x * 2 ^ b) % W ||| c) :: (shlLoop b xs (x / 2 ^ (64 - b - 1) / 2)).1,
       (shlLoop b xs (x / 2 ^ (64 - b - 1) / 2)).2) := by
  rw [shlLoop]

/-- the `for i in 0..LIMBS - limbs` loop of `overflowing_shl` -/
theorem shl_loop1_eq (BITS LIMBS : ℕ) (hL : LIMBS < 2 ^ 64) (A : List ℕ) (b : ℕ) (hb : b < 64) (Z : List ℕ) :
    ∀ (xs aP aT p zs : List ℕ) (c f : ℕ),
      A = aP ++ xs ++ aT → aP.length = p.length → xs.length = zs.length →
      Z.length + aP.length + xs.length ≤ LIMBS → xs.length < f →
      Rs.loop (Ruint.Gen.uint_overflowing_shl_step1 BITS LIMBS A Z.length b 64 (aP.length + xs.length)) f
          (Z ++ p ++ zs, c, aP.length)
        = (Z ++ p ++ (shlLoop b xs c).1, (shlLoop b xs c).2, aP.length + xs.length) := by
  intro xs
  induction xs with
  | nil =>
    intro aP aT p zs c f _ _ h3 _ h6
    cases zs with
    | cons _ _ => simp at h3
    | nil =>
      obtain ⟨f, rfl⟩ : ∃ g, f = g + 1 := ⟨f - 1, by simp at h6; omega⟩
      rw [loop_succ, shl_step1_eq]
      simp [shlLoop]
  | cons x xs ih =>
    intro aP aT p zs c f hA h2 h3 h5 h6
    cases zs with
    | nil => simp at h3
    | cons z zs =>
      obtain ⟨f, rfl⟩ : ∃ g, f = g + 1 := ⟨f - 1, by simp at h6; omega⟩
      simp only [List.length_cons] at h3 h5 h6
      have hi : aP.length < aP.length + (xs.length + 1) := by omega
      have g1 : A.getD aP.length 0 = x := by rw [hA]; simp
      have g4 : Rs.wadd 64 aP.length Z.length = (Z ++ p).length := by
        unfold Rs.wadd; rw [Nat.mod_eq_of_lt (by omega)]; simp [h2]; omega
      have g5 : ∀ y, (Z ++ p ++ z :: zs).set (Z ++ p).length y = (Z ++ (p ++ [y])) ++ zs := by intro y; simp
      have g6 : Rs.wadd 64 aP.length 1 = (aP ++ [x]).length := by
        unfold Rs.wadd; rw [Nat.mod_eq_of_lt (by omega)]; simp
      have g7 : Rs.wsub 64 (Rs.wsub 64 64 b) 1 = 64 - b - 1 := by unfold Rs.wsub; omega
      have g8 : Rs.wshl 64 x b = (x * 2 ^ b) % W := rfl
      rw [loop_succ, shl_step1_eq]
      simp only [List.length_cons, hi, if_true, g1, g4, g5, g7, g8, pow_one, shlLoop_cons]
      rw [g6]
      have e : aP.length + (xs.length + 1) = (aP ++ [x]).length + xs.length := by simp; omega
      rw [e]
      have := ih (aP ++ [x]) aT (p ++ [(x * 2 ^ b) % W ||| c]) zs (x / 2 ^ (64 - b - 1) / 2) f
        (by simp [hA]) (by simp [h2]) (by omega) (by simp; omega) (by omega)
      rw [this]
      simp

theorem shl_step2_eq (BITS LIMBS : ℕ) (a : List ℕ) (bound : ℕ) (ov : Bool) (i : ℕ) :
    Ruint.Gen.uint_overflowing_shl_step2 BITS LIMBS a bound (ov, i) =
      if i < bound then ((ov || (a.getD i 0 != 0), Rs.wadd 64 i 1), true) else ((ov, i), false) := by
  unfold Ruint.Gen.uint_overflowing_shl_step2
  simp only [decide_eq_true_eq]

/-- the `overflow |= self.limbs[i] != 0` loop over the limbs moved out whole -/
theorem shl_loop2_eq (BITS LIMBS : ℕ) (A : List ℕ) (hA64 : A.length < 2 ^ 64) :
    ∀ (xs aP : List ℕ) (ov : Bool) (f : ℕ), A = aP ++ xs → xs.length < f →
      Rs.loop (Ruint.Gen.uint_overflowing_shl_step2 BITS LIMBS A A.length) f (ov, aP.length)
        = (ov || isNonzero xs, A.length) := by
  intro xs
  induction xs with
  | nil =>
    intro aP ov f hA h6
    obtain ⟨f, rfl⟩ : ∃ g, f = g + 1 := ⟨f - 1, by simp at h6; omega⟩
    have : aP.length = A.length := by rw [hA]; simp
    rw [loop_succ, shl_step2_eq]
    simp [this, isNonzero]
  | cons x xs ih =>
    intro aP ov f hA h6
    obtain ⟨f, rfl⟩ : ∃ g, f = g + 1 := ⟨f - 1, by simp at h6; omega⟩
    simp only [List.length_cons] at h6
    have hl : A.length = aP.length + (xs.length + 1) := by rw [hA]; simp
    have hi : aP.length < A.length := by omega
    have g1 : A.getD aP.length 0 = x := by rw [hA]; simp
    have g6 : Rs.wadd 64 aP.length 1 = (aP ++ [x]).length := by
      unfold Rs.wadd; rw [Nat.mod_eq_of_lt (by omega)]; simp
    rw [loop_succ, shl_step2_eq]
    simp only [hi, if_true, g1]
    rw [g6, ih (aP ++ [x]) _ f (by simp [hA]) (by omega)]
    simp [isNonzero, Bool.or_assoc]

theorem getD_getLast (r : List ℕ) (h : 0 < r.length) : r.getD (r.length - 1) 0 = r.getLast?.getD 0 := by
  obtain ⟨init, t, rfl⟩ := exists_init_last r (by intro e; subst e; simp at h)
  simp

/-- **`Uint::overflowing_shl` as generated from `src/bits.rs`** equals the C05 model on well-formed operands
    (every width, every shift amount that fits `usize`). -/
theorem overflowing_shl_eq (bits : ℕ) (hN : nlimbs bits < 2 ^ 64) (a : List ℕ)
    (ha : a.length = nlimbs bits) (hwa : AllLt a) (rhs : ℕ) (f : ℕ) (hf : nlimbs bits < f) :
    Ruint.Gen.uint_overflowing_shl f bits (nlimbs bits) a rhs = overflowingShl bits a rhs := by
  unfold Ruint.Gen.uint_overflowing_shl overflowingShl
  by_cases hge : nlimbs bits ≤ rhs / 64
  · simp only [ge_iff_le, hge, decide_true, if_true, zero]
    rw [← ha, bne_zero]
  · simp only [ge_iff_le, hge, decide_false, if_false, Bool.false_eq_true]
    have hlt : rhs / 64 < nlimbs bits := by omega
    have hb : rhs % 64 < 64 := Nat.mod_lt _ (by norm_num)
    have hbits : 0 < bits := by
      rcases Nat.eq_zero_or_pos bits with h | h
      · subst h; simp [nlimbs] at hlt
      · exact h
    have hsub : Rs.wsub 64 (nlimbs bits) (rhs / 64) = nlimbs bits - rhs / 64 := by unfold Rs.wsub; omega
    have hsub1 : Rs.wsub 64 (nlimbs bits) 1 = nlimbs bits - 1 := by unfold Rs.wsub; omega
    -- first loop
    have hsplit : a = [] ++ a.take (nlimbs bits - rhs / 64) ++ a.drop (nlimbs bits - rhs / 64) := by simp
    have hk : (a.take (nlimbs bits - rhs / 64)).length = nlimbs bits - rhs / 64 := by simp; omega
    have h1 := shl_loop1_eq bits (nlimbs bits) hN a (rhs % 64) hb (List.replicate (rhs / 64) 0)
      (a.take (nlimbs bits - rhs / 64)) [] (a.drop (nlimbs bits - rhs / 64)) []
      (List.replicate (nlimbs bits - rhs / 64) 0) 0 f hsplit rfl (by simp; omega)
      (by simp only [List.length_replicate, List.length_nil, hk]; omega) (by rw [hk]; omega)
    simp only [List.length_replicate, List.length_nil, Nat.zero_add, hk, List.append_nil] at h1
    have hz : List.replicate (nlimbs bits) 0
        = List.replicate (rhs / 64) 0 ++ List.replicate (nlimbs bits - rhs / 64) 0 := by
      have e : rhs / 64 + (nlimbs bits - rhs / 64) = nlimbs bits := by omega
      rw [List.replicate_append_replicate, e]
    rw [hsub, hsub1, hz, h1]
    -- second loop
    have hsplit2 : a = a.take (nlimbs bits - rhs / 64) ++ a.drop (nlimbs bits - rhs / 64) := by simp
    have h2 := shl_loop2_eq bits (nlimbs bits) a (by omega) (a.drop (nlimbs bits - rhs / 64))
      (a.take (nlimbs bits - rhs / 64)) ((shlLoop (rhs % 64) (a.take (nlimbs bits - rhs / 64)) 0).2 != 0) f hsplit2
      (by simp; omega)
    rw [hk, ha] at h2
    dsimp only
    rw [h2]
    obtain ⟨-, hw, hlen, -⟩ := shlLoop_spec (rhs % 64) hb (a.take (nlimbs bits - rhs / 64)) 0
      (fun x hx => hwa x (List.mem_of_mem_take hx)) (by positivity)
    have hrl : (List.replicate (rhs / 64) 0 ++ (shlLoop (rhs % 64) (a.take (nlimbs bits - rhs / 64)) 0).1).length
        = nlimbs bits := by simp [hlen, hk]; omega
    have hrw : AllLt (List.replicate (rhs / 64) 0 ++ (shlLoop (rhs % 64) (a.take (nlimbs bits - rhs / 64)) 0).1) := by
      intro x hx
      rcases List.mem_append.1 hx with h | h
      · rw [List.eq_of_mem_replicate h]; exact W_pos
      · exact hw x h
    rw [apply_mask_eq bits hbits hN _ hrl hrw]
    have := getD_getLast _ (by rw [hrl]; omega : 0 < (List.replicate (rhs / 64) 0 ++ (shlLoop (rhs % 64) (a.take (nlimbs bits - rhs / 64)) 0).1).length)
    rw [hrl] at this
    rw [this, GenCore.mask_eq]

/-! ### `overflowing_shr` -/

theorem shr_step1_eq (BITS LIMBS : ℕ) (a : List ℕ) (limbs b wb bound : ℕ) (r : List ℕ) (c i : ℕ) :
    Ruint.Gen.uint_overflowing_shr_step1 BITS LIMBS a limbs b wb bound (r, c, i) =
      if i < bound then
        ((r.set (Rs.wsub 64 (Rs.wsub 64 (Rs.wsub 64 LIMBS 1) i) limbs)
            (a.getD (Rs.wsub 64 (Rs.wsub 64 LIMBS 1) i) 0 / 2 ^ b ||| c),
          Rs.wshl 64 (Rs.wshl 64 (a.getD (Rs.wsub 64 (Rs.wsub 64 LIMBS 1) i) 0) (Rs.wsub 64 (Rs.wsub 64 wb b) 1)) 1,
          Rs.wadd 64 i 1), true)
      else ((r, c, i), false) := by
  unfold Ruint.Gen.uint_overflowing_shr_step1
  simp only [decide_eq_true_eq]

theorem shrLoop_cons (b x c : ℕ) (xs : List ℕ) :
    Shift.shrLoop b (x :: xs) c =
      ((x / 2 ^ b ||| c) :: (Shift.shrLoop b xs (((x * 2 ^ (64 - b - 1)) % W * 2) % W)).1,
       (Shift.shrLoop b xs (((x * 2 ^ (64 - b - 1)) % W * 2) % W)).2) := by
  rw [Shift.shrLoop]

/-- the `for i in 0..LIMBS - limbs` loop of `overflowing_shr` (walks the kept limbs from the top) -/
theorem shr_loop1_eq (BITS LIMBS : ℕ) (hL : LIMBS < 2 ^ 64) (A : List ℕ) (b : ℕ) (hb : b < 64) (aL Zt : List ℕ) (K : ℕ) :
    ∀ (xs dn p : List ℕ) (c f : ℕ),
      A = aL ++ xs.reverse ++ dn → dn.length = p.length → aL.length + xs.length + dn.length = LIMBS →
      dn.length + xs.length = K → xs.length < f →
      Rs.loop (Ruint.Gen.uint_overflowing_shr_step1 BITS LIMBS A aL.length b 64 K) f
          (List.replicate xs.length 0 ++ p ++ Zt, c, dn.length)
        = ((Shift.shrLoop b xs c).1.reverse ++ p ++ Zt, (Shift.shrLoop b xs c).2, K) := by
  intro xs
  induction xs with
  | nil =>
    intro dn p c f _ _ _ h5 h6
    obtain ⟨f, rfl⟩ : ∃ g, f = g + 1 := ⟨f - 1, by simp at h6; omega⟩
    simp only [List.length_nil, Nat.add_zero] at h5
    rw [loop_succ, shr_step1_eq]
    simp [Shift.shrLoop, h5]
  | cons x xs ih =>
    intro dn p c f hA h2 h4 h5 h6
    obtain ⟨f, rfl⟩ : ∃ g, f = g + 1 := ⟨f - 1, by simp at h6; omega⟩
    simp only [List.length_cons] at h4 h5 h6
    have hi : dn.length < K := by omega
    have gi : Rs.wsub 64 (Rs.wsub 64 LIMBS 1) dn.length = aL.length + xs.length := by unfold Rs.wsub; omega
    have gj : Rs.wsub 64 (aL.length + xs.length) aL.length = xs.length := by unfold Rs.wsub; omega
    have g1 : A.getD (aL.length + xs.length) 0 = x := by
      rw [hA, List.reverse_cons]
      have : aL ++ (xs.reverse ++ [x]) ++ dn = (aL ++ xs.reverse) ++ x :: dn := by simp
      rw [this]
      have hl : aL.length + xs.length = (aL ++ xs.reverse).length := by simp
      rw [hl]; simp
    have g5 : ∀ y, (List.replicate (xs.length + 1) 0 ++ p ++ Zt).set xs.length y
        = List.replicate xs.length 0 ++ (y :: p) ++ Zt := by
      intro y
      rw [List.replicate_succ']
      have : List.replicate xs.length 0 ++ [0] ++ p ++ Zt = List.replicate xs.length 0 ++ (0 :: (p ++ Zt)) := by simp
      rw [this]
      have hl : xs.length = (List.replicate xs.length 0).length := by simp
      conv_lhs => rw [hl]
      simp
    have g6 : Rs.wadd 64 dn.length 1 = (x :: dn).length := by
      unfold Rs.wadd; rw [Nat.mod_eq_of_lt (by omega)]; simp
    have g7 : Rs.wsub 64 (Rs.wsub 64 64 b) 1 = 64 - b - 1 := by unfold Rs.wsub; omega
    have g8 : ∀ y k, Rs.wshl 64 y k = (y * 2 ^ k) % W := fun _ _ => rfl
    rw [loop_succ, shr_step1_eq]
    simp only [List.length_cons, hi, if_true, gi, gj, g1, g5, g7, g8, pow_one, shrLoop_cons]
    rw [g6]
    have := ih (x :: dn) ((x / 2 ^ b ||| c) :: p) (((x * 2 ^ (64 - b - 1)) % W * 2) % W) f
      (by rw [hA]; simp) (by simp [h2]) (by simp; omega) (by simp; omega) (by omega)
    rw [this]
    simp

theorem shr_step2_eq (BITS LIMBS : ℕ) (a : List ℕ) (bound : ℕ) (ov : Bool) (i : ℕ) :
    Ruint.Gen.uint_overflowing_shr_step2 BITS LIMBS a bound (ov, i) =
      if i < bound then ((ov || (a.getD i 0 != 0), Rs.wadd 64 i 1), true) else ((ov, i), false) := by
  unfold Ruint.Gen.uint_overflowing_shr_step2
  simp only [decide_eq_true_eq]

/-- the `overflow |= self.limbs[i] != 0` loop over the low limbs moved out whole -/
theorem shr_loop2_eq (BITS LIMBS : ℕ) (A : List ℕ) (hA64 : A.length < 2 ^ 64) (bound : ℕ) :
    ∀ (xs aP aT : List ℕ) (ov : Bool) (f : ℕ), A = aP ++ xs ++ aT → aP.length + xs.length = bound → xs.length < f →
      Rs.loop (Ruint.Gen.uint_overflowing_shr_step2 BITS LIMBS A bound) f (ov, aP.length)
        = (ov || isNonzero xs, bound) := by
  intro xs
  induction xs with
  | nil =>
    intro aP aT ov f _ hb h6
    obtain ⟨f, rfl⟩ : ∃ g, f = g + 1 := ⟨f - 1, by simp at h6; omega⟩
    simp only [List.length_nil, Nat.add_zero] at hb
    rw [loop_succ, shr_step2_eq]
    simp [hb, isNonzero]
  | cons x xs ih =>
    intro aP aT ov f hA hb h6
    obtain ⟨f, rfl⟩ : ∃ g, f = g + 1 := ⟨f - 1, by simp at h6; omega⟩
    simp only [List.length_cons] at h6 hb
    have hl : A.length = aP.length + (xs.length + 1) + aT.length := by rw [hA]; simp; omega
    have hi : aP.length < bound := by omega
    have g1 : A.getD aP.length 0 = x := by rw [hA]; simp
    have g6 : Rs.wadd 64 aP.length 1 = (aP ++ [x]).length := by
      unfold Rs.wadd; rw [Nat.mod_eq_of_lt (by omega)]; simp
    rw [loop_succ, shr_step2_eq]
    simp only [hi, if_true, g1]
    rw [g6, ih (aP ++ [x]) aT _ f (by simp [hA]) (by simp; omega) (by omega)]
    simp [isNonzero, Bool.or_assoc]

/-- **`Uint::overflowing_shr` as generated from `src/bits.rs`** equals the C05 model on operands of
    `LIMBS = nlimbs BITS` limbs (every width, every shift amount). -/
theorem overflowing_shr_eq (bits : ℕ) (hN : nlimbs bits < 2 ^ 64) (a : List ℕ)
    (ha : a.length = nlimbs bits) (rhs : ℕ) (f : ℕ) (hf : nlimbs bits < f) :
    Ruint.Gen.uint_overflowing_shr f bits (nlimbs bits) a rhs = overflowingShr bits a rhs := by
  unfold Ruint.Gen.uint_overflowing_shr overflowingShr
  by_cases hge : nlimbs bits ≤ rhs / 64
  · simp only [ge_iff_le, hge, decide_true, if_true, zero]
    rw [← ha, bne_zero]
  · simp only [ge_iff_le, hge, decide_false, if_false, Bool.false_eq_true]
    have hlt : rhs / 64 < nlimbs bits := by omega
    have hb : rhs % 64 < 64 := Nat.mod_lt _ (by norm_num)
    have hsub : Rs.wsub 64 (nlimbs bits) (rhs / 64) = nlimbs bits - rhs / 64 := by unfold Rs.wsub; omega
    have htl : (a.take (rhs / 64)).length = rhs / 64 := by simp; omega
    have hdl : (a.drop (rhs / 64)).length = nlimbs bits - rhs / 64 := by simp; omega
    have hsplit : a = a.take (rhs / 64) ++ (a.drop (rhs / 64)).reverse.reverse ++ [] := by simp
    have h1 := shr_loop1_eq bits (nlimbs bits) hN a (rhs % 64) hb (a.take (rhs / 64)) (List.replicate (rhs / 64) 0)
      (nlimbs bits - rhs / 64) (a.drop (rhs / 64)).reverse [] [] 0 f hsplit rfl
      (by simp only [List.length_reverse, List.length_nil, htl, hdl]; omega)
      (by simp only [List.length_reverse, List.length_nil, hdl]; omega)
      (by simp only [List.length_reverse, hdl]; omega)
    simp only [List.length_reverse, List.length_nil, htl, hdl, List.append_nil] at h1
    have hz : List.replicate (nlimbs bits) 0
        = List.replicate (nlimbs bits - rhs / 64) 0 ++ List.replicate (rhs / 64) 0 := by
      have e : nlimbs bits - rhs / 64 + rhs / 64 = nlimbs bits := by omega
      rw [List.replicate_append_replicate, e]
    rw [hsub, hz, h1]
    have hsplit2 : a = [] ++ a.take (rhs / 64) ++ a.drop (rhs / 64) := by simp
    have h2 := shr_loop2_eq bits (nlimbs bits) a (by omega) (rhs / 64) (a.take (rhs / 64)) [] (a.drop (rhs / 64))
      ((Shift.shrLoop (rhs % 64) (a.drop (rhs / 64)).reverse 0).2 != 0) f hsplit2 (by simp; omega) (by rw [htl]; omega)
    simp only [List.length_nil] at h2
    dsimp only
    rw [h2]

end Ruint.GenShift
