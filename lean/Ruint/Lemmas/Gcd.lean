import Ruint.Model.Gcd
import Ruint.Lemmas.LehmerApply
/-!
# `gcd` / `lcm` return the mathematical gcd / lcm, given the matrix-oracle contract

`OracleOK` is the closed proposition "on every `b ≤ a`, `0 < b`, `Matrix::from` returns (no panic) a matrix that
is either the identity or meets the Lehmer contract `good`". Under it the `while b != 0` loop of
`algorithms::gcd` computes `Nat.gcd` (induction on fuel, measure `b`; identity = Euclid step, otherwise
`Ruint.Lehmer.apply_exact`), never panics, and `Uint::lcm` is `a·b / gcd a b` when that fits, `None` otherwise.

Re-homed from the design probe `notes/probes/lehmer_prefix_matrix_full_proof.lean` (`gcdLoop_spec`).
-/
namespace Ruint.Gcd
open Ruint Ruint.Lehmer

/-- the matrix-oracle contract (a closed proposition; discharged elsewhere for the real `matFrom`) -/
def OracleOK : Prop := ∀ a b : ℕ, b ≤ a → 0 < b → ∃ m, matFrom a b = some m ∧ contract a b m = true

/-- a contract-meeting matrix is the identity or `good` -/
theorem contract_cases (a b : ℕ) (m : Mat) (h : contract a b m = true) : m = ident ∨ good a b m = true := by
  unfold contract at h
  rcases (Bool.or_eq_true _ _).mp h with h | h
  · exact Or.inl (beq_iff_eq.mp h)
  · exact Or.inr h

theorem gcdLoop_spec (horacle : OracleOK) (bits f a b : ℕ) (ha : a < 2 ^ bits) (hba : b ≤ a) (hf : b < f) :
    gcdLoop bits f a b = some (Nat.gcd a b) := by
  induction f generalizing a b with
  | zero => omega
  | succ f ih =>
    simp only [gcdLoop]
    split
    · next hb => rw [hb, Nat.gcd_zero_right]
    · next hb =>
      have hb0 : 0 < b := Nat.pos_of_ne_zero hb
      obtain ⟨m, hm, hc⟩ := horacle a b hba hb0
      rw [hm]
      dsimp only
      split
      · -- identity: full-precision Euclid step
        have hlt : a % b < b := Nat.mod_lt a hb0
        rw [ih b (a % b) (by omega) (le_of_lt hlt) (by omega)]
        rw [Nat.gcd_comm a b, Nat.gcd_rec b a, Nat.gcd_comm]
      · next hne =>
        rcases contract_cases a b m hc with h | h
        · exact absurd h hne
        · obtain ⟨c, d, happ, -, hdc, hdb, hca, hg⟩ := apply_exact bits a b m ha hba h
          rw [happ]
          dsimp only
          rw [ih c d (by omega) (le_of_lt hdc) (by omega), hg]

theorem gcd_spec_of_oracle (horacle : OracleOK) (bits a b : ℕ) (ha : a < 2 ^ bits) (hb : b < 2 ^ bits) :
    gcd bits a b = some (Nat.gcd a b) := by
  unfold gcd
  by_cases h : b > a
  · rw [if_pos h]
    dsimp only
    rw [gcdLoop_spec horacle bits (a + 1) b a hb (le_of_lt h) (by omega), Nat.gcd_comm]
  · rw [if_neg h]
    dsimp only
    rw [gcdLoop_spec horacle bits (b + 1) a b ha (by omega) (by omega)]

theorem lcm_spec_of_oracle (horacle : OracleOK) (bits a b : ℕ) (ha : a < 2 ^ bits) (hb : b < 2 ^ bits) :
    lcm bits a b = some (if a = 0 ∨ b = 0 then some 0
                         else if a * b / Nat.gcd a b < 2 ^ bits then some (a * b / Nat.gcd a b) else none) := by
  unfold lcm
  rw [gcd_spec_of_oracle horacle bits a b ha hb]
  dsimp only
  have hpos : 0 < 2 ^ bits := Nat.pos_of_ne_zero (by positivity)
  by_cases ha0 : a = 0
  · subst ha0
    simp only [Nat.zero_mul, hpos, if_true, true_or]
  · by_cases hb0 : b = 0
    · subst hb0
      have hg : Nat.gcd a 0 ≠ 0 := by rw [Nat.gcd_zero_right]; exact ha0
      simp only [if_neg hg, Nat.zero_div, Nat.mul_zero, hpos, if_true, or_true]
    · have hg : Nat.gcd a b ≠ 0 := fun h => ha0 (Nat.eq_zero_of_gcd_eq_zero_left h)
      have hor : ¬ (a = 0 ∨ b = 0) := by
        intro h
        rcases h with h | h
        · exact ha0 h
        · exact hb0 h
      have e : a * (b / Nat.gcd a b) = a * b / Nat.gcd a b :=
        (Nat.mul_div_assoc a (Nat.gcd_dvd_right a b)).symm
      rw [if_neg hg, if_neg hor, e]
      split <;> rfl

end Ruint.Gcd
