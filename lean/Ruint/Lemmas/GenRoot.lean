import Ruint.Lemmas.GenLog
import Ruint.Gen.WordsRoot
import Ruint.Model.Root

/-! `Uint::root` GENERATED from `src/root.rs` in the translator's *value mode* (`Gen/WordsRoot.lean`: a `Uint` is its numeric
    value, the libm-derived first guess is the parameter `guess`, `none` = panic) equals the C13 model of `Model/Root.lean`
    whenever the model does not run out of its own fuel. -/
namespace Ruint.GenRoot
open Ruint Ruint.GenLehmer Ruint.GenValue Ruint.Pow Ruint.GenLog

/-- the generated loop step, as one expression over the model's `iter` -/
def stepM (bits x j r : ℕ) (dec : Bool) : ((ℕ × Bool) × Option (Option ℕ)) × Bool :=
  match Root.iter bits x j r with
  | none => (((r, dec), some none), false)
  | some it =>
    if it = r then (((r, dec), some (some r)), false)
    else if r < it then
      (if dec then (((r, dec), some (some r)), false)
       else (((min it (Root.sshl1 bits r), dec), none), true))
    else (((it, true), none), true)

/-- the common continuation of the two branches of the generated step -/
theorem tail_eq (bits r it : ℕ) (dec : Bool) :
    (if (((compare it r == Ordering.eq)) || (dec && (compare it r == Ordering.gt))) = true then
        ((((r, dec), some (some r)), false) : ((ℕ × Bool) × Option (Option ℕ)) × Bool)
      else
        ((((if ((!dec) && (compare it r == Ordering.gt)) = true then
              (min it (if decide (r * 2 ^ 1 < 2 ^ bits) = true then r * 2 ^ 1 else 2 ^ bits - 1), dec)
            else (it, true)).1,
           (if ((!dec) && (compare it r == Ordering.gt)) = true then
              (min it (if decide (r * 2 ^ 1 < 2 ^ bits) = true then r * 2 ^ 1 else 2 ^ bits - 1), dec)
            else (it, true)).2), none), true)) =
      (if it = r then (((r, dec), some (some r)), false)
       else if r < it then
        (if dec then (((r, dec), some (some r)), false)
         else (((min it (Root.sshl1 bits r), dec), none), true))
       else (((it, true), none), true)) := by
  have hs : (if decide (r * 2 ^ 1 < 2 ^ bits) = true then r * 2 ^ 1 else 2 ^ bits - 1) = Root.sshl1 bits r := by
    unfold Root.sshl1
    rw [pow_one, Nat.mul_comm r 2]
    simp only [decide_eq_true_eq]
  rw [hs]
  rcases Nat.lt_trichotomy it r with h | h | h
  · have hc : compare it r = Ordering.lt := Nat.compare_eq_lt.2 h
    have h1 : ¬ it = r := by omega
    have h2 : ¬ r < it := by omega
    rw [hc, if_neg h1, if_neg h2]
    cases dec <;> rfl
  · have hc : compare it r = Ordering.eq := Nat.compare_eq_eq.2 h
    rw [hc, if_pos h]
    cases dec <;> rfl
  · have hc : compare it r = Ordering.gt := Nat.compare_eq_gt.2 h
    have h1 : ¬ it = r := by omega
    rw [hc, if_neg h1, if_pos h]
    cases dec <;> rfl

theorem step1_eq (f bits L x j r : ℕ) (dec : Bool) (s : Option (Option ℕ)) (hj : j < 2 ^ f)
    (hk : j + 1 < 2 ^ bits) :
    Ruint.Gen.val_root_step1 f bits L x (j + 1) j ((r, dec), s) = stepM bits x j r dec := by
  unfold Ruint.Gen.val_root_step1 stepM Root.iter
  have hne : (j + 1 == 0) = false := by simp
  simp only [checked_pow_any bits L r j f hj, hk, decide_true, if_true, hne, Bool.false_eq_true, if_false]
  cases Pow.checkedPow bits r j with
  | none =>
    simp only [Option.isSome_none, Bool.false_eq_true, if_false]
    exact tail_eq bits r _ dec
  | some p =>
    simp only [Option.isSome_some, if_true, Option.getD_some]
    by_cases hp : p = 0
    · subst hp
      simp
    · have : (p == 0) = false := by simp [hp]
      simp only [this, Bool.false_eq_true, if_false, hp]
      exact tail_eq bits r _ dec

theorem root_sim (f bits L x j : ℕ) (hj : j < 2 ^ f) (hk : j + 1 < 2 ^ bits) :
    ∀ (n r : ℕ) (dec : Bool) (F : ℕ), n < F →
      (∀ r', Root.rootLoop bits x j n dec r = .ok r' →
          (Rs.loop (Ruint.Gen.val_root_step1 f bits L x (j + 1) j) F ((r, dec), none)).2 = some (some r')) ∧
      (Root.rootLoop bits x j n dec r = .panic →
          (Rs.loop (Ruint.Gen.val_root_step1 f bits L x (j + 1) j) F ((r, dec), none)).2 = some none) := by
  intro n
  induction n with
  | zero => intro r dec F _; simp [Root.rootLoop]
  | succ n ih =>
    intro r dec F hF
    obtain ⟨F', rfl⟩ : ∃ F', F = F' + 1 := ⟨F - 1, by omega⟩
    rw [loop_succ, step1_eq f bits L x j r dec none hj hk]
    unfold Root.rootLoop stepM
    cases Root.iter bits x j r with
    | none => simp
    | some it =>
      by_cases h1 : it = r
      · simp [h1]
      · by_cases h2 : r < it
        · cases dec with
          | true => simp [h1, h2]
          | false =>
            simp only [h1, h2, if_true, if_false, Bool.false_eq_true]
            exact ih _ false F' (by omega)
        · simp only [h1, h2, if_false, if_true]
          exact ih _ true F' (by omega)

theorem wsub_one (k : ℕ) (h1 : 1 ≤ k) (hk : k < 2 ^ 64) : Rs.wsub 64 k 1 = k - 1 := by
  unfold Rs.wsub
  omega

/-- **`root` as generated (value mode)** = the C13 model, whenever the model does not run out of its own fuel. -/
theorem root_eq (bits L x k g : ℕ) (hx : x < 2 ^ bits) (hg : g < 2 ^ bits) (hk : k < 2 ^ 64)
    (hm : Ruint.Root.root bits x k g ≠ .fuel) (f : ℕ) (hf : Ruint.Root.rootFuel x g + bits + 2 < f) :
    Ruint.GenLog.toRes (Ruint.Gen.val_root f bits L x k g) = Ruint.Root.root bits x k g := by
  unfold Root.root at hm ⊢
  unfold Ruint.Gen.val_root
  by_cases hk0 : k = 0
  · simp [hk0, toRes]
  have hkpos : k > 0 := Nat.pos_of_ne_zero hk0
  by_cases h0 : x = 0
  · simp [hk0, hkpos, h0, toRes]
  have hne : (x == 0) = false := by simp [h0]
  have hpos : 0 < bits := by
    rcases Nat.eq_zero_or_pos bits with h | h
    · subst h; simp at hx; exact absurd hx h0
    · exact h
  by_cases hkb : k ≥ bits
  · simp [hk0, hkpos, h0, hkb, toRes, one_mod bits hpos]
  by_cases hk1 : k = 1
  · subst hk1
    have hb1 : ¬ bits ≤ 1 := by omega
    simp [h0, hb1, toRes]
  have hkne : (k == 1) = false := by simp [hk1]
  have hw := wsub_one k (by omega) hk
  have hkbits : k < 2 ^ bits := lt_trans (by omega) (Nat.lt_two_pow_self (n := bits))
  have hlt : k - 1 < 2 ^ bits := by omega
  simp only [hk0, h0, hkb, hk1, if_false] at hm
  simp only [hkpos, hne, hkb, hkne, hw, hlt, hk0, h0, hk1, decide_true, decide_false, if_true, if_false,
    Bool.false_eq_true]
  have hjf : k - 1 < 2 ^ f := lt_trans (by omega) (Nat.lt_two_pow_self (n := f))
  have hs := root_sim f bits L x (k - 1) hjf (by rw [Nat.sub_add_cancel (by omega)]; exact hkbits)
    (Root.rootFuel x g) g false f (by omega)
  rw [Nat.sub_add_cancel (by omega)] at hs
  obtain ⟨hs1, hs2⟩ := hs
  cases hr : Root.rootLoop bits x (k - 1) (Root.rootFuel x g) false g with
  | fuel => exact absurd hr hm
  | panic =>
    have := hs2 hr
    simp only [this, Option.getD_some, toRes]
  | ok r' =>
    have := hs1 r' hr
    simp only [this, Option.getD_some, toRes]

end Ruint.GenRoot

#print axioms Ruint.GenRoot.root_eq
