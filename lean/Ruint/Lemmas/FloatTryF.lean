import Ruint.Lemmas.FloatTryE

/-! `try_from(f64)` end to end on finite non-negative inputs. -/
namespace Ruint.Float

/-- field bound: every finite binary64 is below `2^1024`. -/
theorem fin_lt_max (x m : ℕ) (neg : Bool) (e : ℤ) (hx : decode b64 x = .fin neg m e) :
    m < 2 ^ 53 ∧ e ≤ 971 := by
  obtain ⟨hB, _, hcase⟩ := decode_fin_fields x m neg e hx
  have hF : x % 2 ^ 52 < 2 ^ 52 := Nat.mod_lt _ (by norm_num)
  rcases hcase with ⟨_, hm', he'⟩ | ⟨_, hm', he'⟩ <;> omega

/-- `Uint::<bits>::try_from(f64)` (repaired code) on a finite non-negative input `x = m·2^e` (or `-0.0`):
    `Ok(⌊x + 1/2⌋)` when that fits, otherwise `ValueTooLarge`. -/
theorem tryFromF64_fin (bits x m : ℕ) (neg : Bool) (e : ℤ) (hx64 : x < 2 ^ 64)
    (hx : decode b64 x = .fin neg m e) (hnn : neg = false ∨ m = 0) :
    (floorHalf m e < 2 ^ bits → tryFromF64 bits x = .ok (floorHalf m e))
    ∧ (2 ^ bits ≤ floorHalf m e → ∃ w, tryFromF64 bits x = .tooLarge w) := by
  have hnan := isNaN_of_fin x m neg e hx
  have hneg : lt b64 x zero = false := by
    rw [← Bool.not_eq_true, lt_zero_iff x m neg e hx]
    rintro ⟨h1, h2⟩
    rcases hnn with h | h
    · rw [h] at h1; exact absurd h1 (by simp)
    · exact h2 h
  unfold tryFromF64
  have hunf : tryFromF64F true 3 bits x =
      (if ge b64 x (exp2Int b64 bits) = true then
        Res.tooLarge (match tryFromF64F true 2 bits (fmod b64 x (exp2Int b64 bits)) with
          | .ok n => n | .tooLarge n => n | _ => 0)
      else if lt b64 x (half b64) = true then Res.ok 0 else tfMain true bits x) := by
    show tryFromF64F true (2 + 1) bits x = _
    rw [tryFromF64F]
    simp only [hnan, hneg, Bool.false_eq_true, if_false]
    rfl
  rw [hunf]
  by_cases hge : ge b64 x (exp2Int b64 bits) = true
  · rw [if_pos hge]
    -- then the modulus is finite and the value is at least `2^bits`
    have hb : bits ≤ 1023 := by
      by_contra hc
      rw [exp2Int_inf bits (by omega)] at hge
      unfold ge at hge
      rw [hx, decode_inf64] at hge
      simp [Dec.le] at hge
    rw [exp2Int_eq bits hb] at hge
    have hge' : 2 ^ bits ≤ floorHalf m e := by
      rcases hnn with hn | hm0
      · subst hn
        rw [ge_pow2_iff x m e bits hx (by omega) (by omega)] at hge
        exact floorHalf_ge m bits e hge
      · exfalso
        subst hm0
        unfold ge at hge
        rw [hx, decode_pow2 bits (by omega) (by omega)] at hge
        have hz : ∀ k : ℕ, sInt neg (0 * k) = 0 := by intro k; cases neg <;> simp [sInt]
        simp only [Dec.le, hz, decide_eq_true_eq] at hge
        have : (0 : ℤ) < sInt false (2 ^ 52 * 2 ^ ((bits : ℤ) - 52 - min ((bits : ℤ) - 52) e).toNat) := by
          simp only [sInt, Bool.false_eq_true, if_false]; positivity
        omega
    exact ⟨fun h => absurd hge' (by omega), fun _ => ⟨_, rfl⟩⟩
  · rw [if_neg hge]
    have hval : m * 2 ^ (e - (bits : ℤ)).toNat < 2 ^ ((bits : ℤ) - e).toNat := by
      rcases Nat.eq_zero_or_pos m with hm0 | hmpos
      · subst hm0; simp
      have hn : neg = false := by
        rcases hnn with h | h
        · exact h
        · omega
      subst hn
      rcases Nat.lt_or_ge 1023 bits with hb | hb
      · obtain ⟨h53, he⟩ := fin_lt_max x m false e hx
        have h1 : (e - (bits : ℤ)).toNat = 0 := by omega
        rw [h1, pow_zero, Nat.mul_one]
        calc m < 2 ^ 53 := h53
          _ ≤ 2 ^ ((bits : ℤ) - e).toNat := Nat.pow_le_pow_right (by norm_num) (by omega)
      · rw [exp2Int_eq bits hb, ge_pow2_iff x m e bits hx (by omega) (by omega), not_le] at hge
        exact hge
    rw [tf_tail bits x m neg e hx64 hx hnn hval]
    unfold tryFromU64
    constructor
    · intro h; rw [if_pos h]
    · intro h; rw [if_neg (by omega)]; exact ⟨_, rfl⟩

end Ruint.Float
