import Ruint.Gen.WordsBinOps
/-! The six operator shapes of `impl_bin_op!` (src/macros.rs) — by value, by reference on either side, the two compound
    assignments — instantiated for every invocation (`+ - * / %`) as GENERATED into `Gen/WordsBinOps.lean`: each one is the
    inherent wrapping method on the same operands in the same order (panic outcome included for `/` and `%`). -/
namespace Ruint.GenBinOps

theorem add_shapes (f : Nat) (bits L : Nat) (a b : List Nat) :
    Ruint.Gen.op_add_assign_val f bits L a b = Ruint.Gen.uint_wrapping_add f bits L a b
    ∧ Ruint.Gen.op_add_assign_ref f bits L a b = Ruint.Gen.uint_wrapping_add f bits L a b
    ∧ Ruint.Gen.op_add_val_val f bits L a b = Ruint.Gen.uint_wrapping_add f bits L a b
    ∧ Ruint.Gen.op_add_val_ref f bits L a b = Ruint.Gen.uint_wrapping_add f bits L a b
    ∧ Ruint.Gen.op_add_ref_val f bits L a b = Ruint.Gen.uint_wrapping_add f bits L a b
    ∧ Ruint.Gen.op_add_ref_ref f bits L a b = Ruint.Gen.uint_wrapping_add f bits L a b := by
  exact ⟨rfl, rfl, rfl, rfl, rfl, rfl⟩

theorem sub_shapes (f : Nat) (bits L : Nat) (a b : List Nat) :
    Ruint.Gen.op_sub_assign_val f bits L a b = Ruint.Gen.uint_wrapping_sub f bits L a b
    ∧ Ruint.Gen.op_sub_assign_ref f bits L a b = Ruint.Gen.uint_wrapping_sub f bits L a b
    ∧ Ruint.Gen.op_sub_val_val f bits L a b = Ruint.Gen.uint_wrapping_sub f bits L a b
    ∧ Ruint.Gen.op_sub_val_ref f bits L a b = Ruint.Gen.uint_wrapping_sub f bits L a b
    ∧ Ruint.Gen.op_sub_ref_val f bits L a b = Ruint.Gen.uint_wrapping_sub f bits L a b
    ∧ Ruint.Gen.op_sub_ref_ref f bits L a b = Ruint.Gen.uint_wrapping_sub f bits L a b := by
  exact ⟨rfl, rfl, rfl, rfl, rfl, rfl⟩

theorem mul_shapes (bits L : Nat) (a b : List Nat) :
    Ruint.Gen.op_mul_assign_val bits L a b = Ruint.Gen.uint_wrapping_mul bits L a b
    ∧ Ruint.Gen.op_mul_assign_ref bits L a b = Ruint.Gen.uint_wrapping_mul bits L a b
    ∧ Ruint.Gen.op_mul_val_val bits L a b = Ruint.Gen.uint_wrapping_mul bits L a b
    ∧ Ruint.Gen.op_mul_val_ref bits L a b = Ruint.Gen.uint_wrapping_mul bits L a b
    ∧ Ruint.Gen.op_mul_ref_val bits L a b = Ruint.Gen.uint_wrapping_mul bits L a b
    ∧ Ruint.Gen.op_mul_ref_ref bits L a b = Ruint.Gen.uint_wrapping_mul bits L a b := by
  exact ⟨rfl, rfl, rfl, rfl, rfl, rfl⟩

theorem div_shapes (f : Nat) (bits L : Nat) (a b : List Nat) :
    Ruint.Gen.op_div_assign_val f bits L a b = Ruint.Gen.uint_wrapping_div f bits L a b
    ∧ Ruint.Gen.op_div_assign_ref f bits L a b = Ruint.Gen.uint_wrapping_div f bits L a b
    ∧ Ruint.Gen.op_div_val_val f bits L a b = Ruint.Gen.uint_wrapping_div f bits L a b
    ∧ Ruint.Gen.op_div_val_ref f bits L a b = Ruint.Gen.uint_wrapping_div f bits L a b
    ∧ Ruint.Gen.op_div_ref_val f bits L a b = Ruint.Gen.uint_wrapping_div f bits L a b
    ∧ Ruint.Gen.op_div_ref_ref f bits L a b = Ruint.Gen.uint_wrapping_div f bits L a b := by
  refine ⟨?_, ?_, ?_, ?_, ?_, ?_⟩
  · unfold Ruint.Gen.op_div_assign_val; cases Ruint.Gen.uint_wrapping_div f bits L a b <;> rfl
  · unfold Ruint.Gen.op_div_assign_ref; cases Ruint.Gen.uint_wrapping_div f bits L a b <;> rfl
  · unfold Ruint.Gen.op_div_val_val; cases Ruint.Gen.uint_wrapping_div f bits L a b <;> rfl
  · unfold Ruint.Gen.op_div_val_ref; cases Ruint.Gen.uint_wrapping_div f bits L a b <;> rfl
  · unfold Ruint.Gen.op_div_ref_val; cases Ruint.Gen.uint_wrapping_div f bits L a b <;> rfl
  · unfold Ruint.Gen.op_div_ref_ref; cases Ruint.Gen.uint_wrapping_div f bits L a b <;> rfl

theorem rem_shapes (f : Nat) (bits L : Nat) (a b : List Nat) :
    Ruint.Gen.op_rem_assign_val f bits L a b = Ruint.Gen.uint_wrapping_rem f bits L a b
    ∧ Ruint.Gen.op_rem_assign_ref f bits L a b = Ruint.Gen.uint_wrapping_rem f bits L a b
    ∧ Ruint.Gen.op_rem_val_val f bits L a b = Ruint.Gen.uint_wrapping_rem f bits L a b
    ∧ Ruint.Gen.op_rem_val_ref f bits L a b = Ruint.Gen.uint_wrapping_rem f bits L a b
    ∧ Ruint.Gen.op_rem_ref_val f bits L a b = Ruint.Gen.uint_wrapping_rem f bits L a b
    ∧ Ruint.Gen.op_rem_ref_ref f bits L a b = Ruint.Gen.uint_wrapping_rem f bits L a b := by
  refine ⟨?_, ?_, ?_, ?_, ?_, ?_⟩
  · unfold Ruint.Gen.op_rem_assign_val; cases Ruint.Gen.uint_wrapping_rem f bits L a b <;> rfl
  · unfold Ruint.Gen.op_rem_assign_ref; cases Ruint.Gen.uint_wrapping_rem f bits L a b <;> rfl
  · unfold Ruint.Gen.op_rem_val_val; cases Ruint.Gen.uint_wrapping_rem f bits L a b <;> rfl
  · unfold Ruint.Gen.op_rem_val_ref; cases Ruint.Gen.uint_wrapping_rem f bits L a b <;> rfl
  · unfold Ruint.Gen.op_rem_ref_val; cases Ruint.Gen.uint_wrapping_rem f bits L a b <;> rfl
  · unfold Ruint.Gen.op_rem_ref_ref; cases Ruint.Gen.uint_wrapping_rem f bits L a b <;> rfl

end Ruint.GenBinOps
