import Ruint.Lemmas.Bits
import Ruint.Lemmas.GenUint
import Ruint.Lemmas.GenLehmer
import Ruint.Gen.WordsUint

/-! Bit-level `Uint` methods as GENERATED from `src/bits.rs` equal the C06 model (`Ruint.Bits.*`). -/
namespace Ruint.GenBits
open Ruint Ruint.Bits Ruint.GenLehmer Ruint.GenUint

theorem wshl_one (b : ℕ) (hb : b < 64) : Rs.wshl 64 1 b = 2 ^ b := by
  unfold Rs.wshl
  rw [Nat.one_mul, Nat.mod_eq_of_lt (Nat.pow_lt_pow_right (by norm_num) hb)]

/-- `bit` -/
theorem bit_eq (bits L : ℕ) (a : List ℕ) (i : ℕ) : Ruint.Gen.uint_bit bits L a i = bit bits a i := by
  unfold Ruint.Gen.uint_bit bit
  by_cases h : bits ≤ i
  · simp [h]
  · simp only [ge_iff_le, h, decide_false, if_false, Bool.false_eq_true, wshl_one _ (Nat.mod_lt i (by norm_num : 0 < 64))]

theorem set_getD_eq_modify (l : List ℕ) (i : ℕ) (f : ℕ → ℕ) : l.set i (f (l.getD i 0)) = l.modify i f := by
  induction l generalizing i with
  | nil => simp
  | cons x xs ih =>
    cases i with
    | zero => simp
    | succ i => simpa using ih i

/-- `set_bit` -/
theorem set_bit_eq (bits L : ℕ) (a : List ℕ) (i : ℕ) (v : Bool) :
    Ruint.Gen.uint_set_bit bits L a i v = setBit bits a i v := by
  unfold Ruint.Gen.uint_set_bit setBit
  by_cases h : bits ≤ i
  · simp [h]
  · have hb := wshl_one _ (Nat.mod_lt i (by norm_num : 0 < 64))
    simp only [ge_iff_le, h, decide_false, if_false, Bool.false_eq_true, hb]
    cases v
    · simp only [Bool.false_eq_true, if_false]
      rw [← set_getD_eq_modify]
      rfl
    · simp only [if_true]
      rw [← set_getD_eq_modify]

/-! ### `not` -/

theorem not_step_eq (BITS LIMBS : ℕ) (l : List ℕ) (i : ℕ) :
    Ruint.Gen.uint_not_step1 BITS LIMBS (l, i) =
      if i < LIMBS then ((l.set i (2 ^ 64 - 1 - l.getD i 0), Rs.wadd 64 i 1), true) else ((l, i), false) := by
  unfold Ruint.Gen.uint_not_step1
  simp only [decide_eq_true_eq]

theorem not_loop_eq (BITS LIMBS : ℕ) (hL : LIMBS < 2 ^ 64) :
    ∀ (xs p : List ℕ) (f : ℕ), p.length + xs.length = LIMBS → xs.length < f →
      Rs.loop (Ruint.Gen.uint_not_step1 BITS LIMBS) f (p ++ xs, p.length) = (p ++ xs.map wnot, LIMBS) := by
  intro xs
  induction xs with
  | nil =>
    intro p f h5 h6
    obtain ⟨f, rfl⟩ : ∃ g, f = g + 1 := ⟨f - 1, by simp at h6; omega⟩
    simp only [List.length_nil, Nat.add_zero] at h5
    rw [loop_succ, not_step_eq]
    simp [h5]
  | cons x xs ih =>
    intro p f h5 h6
    obtain ⟨f, rfl⟩ : ∃ g, f = g + 1 := ⟨f - 1, by simp at h6; omega⟩
    simp only [List.length_cons] at h5 h6
    have hi : p.length < LIMBS := by omega
    have g1 : (p ++ x :: xs).getD p.length 0 = x := by simp
    have g5 : ∀ y, (p ++ x :: xs).set p.length y = (p ++ [y]) ++ xs := by intro y; simp
    have g6 : ∀ y : ℕ, Rs.wadd 64 p.length 1 = (p ++ [y]).length := by
      intro y; unfold Rs.wadd; rw [Nat.mod_eq_of_lt (by omega)]; simp
    rw [loop_succ, not_step_eq]
    simp only [hi, if_true, g1, g5]
    rw [g6 (2 ^ 64 - 1 - x), ih (p ++ [2 ^ 64 - 1 - x]) f (by simp; omega) (by omega)]
    simp [wnot, W]

/-- `Uint::not` -/
theorem not_eq (bits : ℕ) (hN : nlimbs bits < 2 ^ 64) (a : List ℕ) (ha : a.length = nlimbs bits)
    (f : ℕ) (hf : nlimbs bits < f) :
    Ruint.Gen.uint_not f bits (nlimbs bits) a = Bits.not bits a := by
  unfold Ruint.Gen.uint_not Bits.not
  by_cases h0 : bits = 0
  · subst h0; simp [Bits.zero]
  · have hb : 0 < bits := Nat.pos_of_ne_zero h0
    have hne : (bits == 0) = false := by simp [h0]
    have hl := not_loop_eq bits (nlimbs bits) hN a [] f (by simp [ha]) (by omega)
    simp only [List.nil_append, List.length_nil] at hl
    simp only [hne, Bool.false_eq_true, if_false, h0, hl]
    exact masked_eq bits hb hN _ (by simp [ha]) (fun x hx => by
      obtain ⟨y, _, rfl⟩ := List.mem_map.1 hx
      exact wnot_lt y)

/-! ### `count_ones` -/

theorem rs_popAux_eq (f x : ℕ) : Rs.popAux f x = Bits.popAux f x := by
  induction f generalizing x with
  | zero => rfl
  | succ f ih => simp only [Rs.popAux, Bits.popAux, ih]

theorem popcnt_eq (x : ℕ) (hx : x < W) : Rs.popcnt x = popcnt64 x := by
  unfold Rs.popcnt popcnt64
  rw [rs_popAux_eq]
  have := popAux_add 64 64 x 0 (by unfold W at hx; exact hx)
  simp only [Nat.mul_zero, Nat.add_zero, popAux_zero] at this
  exact this

theorem popcnt64_le (x : ℕ) : popcnt64 x ≤ 64 := by
  unfold popcnt64
  rw [popAux_eq_bitCount]
  unfold bitCount
  exact le_trans List.countP_le_length (by simp)

theorem ones_step_eq (BITS LIMBS : ℕ) (a : List ℕ) (t i : ℕ) :
    Ruint.Gen.uint_count_ones_step1 BITS LIMBS a (t, i) =
      if i < LIMBS then ((Rs.wadd 64 t (Rs.popcnt (a.getD i 0)), Rs.wadd 64 i 1), true) else ((t, i), false) := by
  unfold Ruint.Gen.uint_count_ones_step1
  simp only [decide_eq_true_eq]

theorem ones_loop_eq (BITS LIMBS : ℕ) (hL : LIMBS < 2 ^ 57) (A : List ℕ) :
    ∀ (xs p : List ℕ) (t f : ℕ), A = p ++ xs → AllLt xs → p.length + xs.length = LIMBS → t ≤ 64 * p.length → xs.length < f →
      Rs.loop (Ruint.Gen.uint_count_ones_step1 BITS LIMBS A) f (t, p.length)
        = (xs.foldl (fun t l => t + popcnt64 l) t, LIMBS) := by
  intro xs
  induction xs with
  | nil =>
    intro p t f _ _ h5 _ h6
    obtain ⟨f, rfl⟩ : ∃ g, f = g + 1 := ⟨f - 1, by simp at h6; omega⟩
    simp only [List.length_nil, Nat.add_zero] at h5
    rw [loop_succ, ones_step_eq]
    simp [h5]
  | cons x xs ih =>
    intro p t f hA hw h5 ht h6
    obtain ⟨f, rfl⟩ : ∃ g, f = g + 1 := ⟨f - 1, by simp at h6; omega⟩
    simp only [List.length_cons] at h5 h6
    have hi : p.length < LIMBS := by omega
    have g1 : A.getD p.length 0 = x := by rw [hA]; simp
    have hp := popcnt64_le x
    have g2 : Rs.wadd 64 t (Rs.popcnt x) = t + popcnt64 x := by
      rw [popcnt_eq x hw.head]; unfold Rs.wadd; rw [Nat.mod_eq_of_lt (by omega)]
    have g6 : Rs.wadd 64 p.length 1 = (p ++ [x]).length := by
      unfold Rs.wadd; rw [Nat.mod_eq_of_lt (by omega)]; simp
    rw [loop_succ, ones_step_eq]
    simp only [hi, if_true, g1, g2]
    rw [g6, ih (p ++ [x]) _ f (by simp [hA]) hw.tail (by simp; omega) (by simp; omega) (by omega)]
    simp

/-- `Uint::count_ones` -/
theorem count_ones_eq (bits : ℕ) (hN : nlimbs bits < 2 ^ 57) (a : List ℕ) (ha : a.length = nlimbs bits) (hw : AllLt a)
    (f : ℕ) (hf : nlimbs bits < f) :
    Ruint.Gen.uint_count_ones f bits (nlimbs bits) a = countOnes a := by
  have hl := ones_loop_eq bits (nlimbs bits) hN a a [] 0 f (by simp) hw (by simp [ha]) (by simp) (by omega)
  simp only [List.length_nil] at hl
  unfold Ruint.Gen.uint_count_ones countOnes
  simp only [hl]

/-! ### `leading_zeros` -/

theorem rposNonzero_append (xs : List ℕ) (y : ℕ) :
    rposNonzero (xs ++ [y]) = if y ≠ 0 then some xs.length else rposNonzero xs := by
  induction xs with
  | nil => simp [rposNonzero]
  | cons x xs ih =>
    simp only [List.cons_append, rposNonzero, ih, List.length_cons]
    by_cases hy : y = 0
    · simp [hy]
    · simp [hy]

/-- the value returned from inside the loop at limb `i` -/
def lzAt (BITS LIMBS : ℕ) (A : List ℕ) (i : ℕ) : ℕ :=
  Rs.wsub 64 (Rs.wadd 64 (Rs.wmul 64 (Rs.wsub 64 (Rs.wsub 64 LIMBS 1) i) 64) (Rs.clz 64 (A.getD i 0)))
    (Rs.clz 64 (Ruint.Gen.mask BITS))

theorem lz_step_eq (BITS LIMBS : ℕ) (a : List ℕ) (i : ℕ) (r : Option ℕ) :
    Ruint.Gen.uint_leading_zeros_step1 BITS LIMBS a (i, r) =
      if 0 < i then
        (if a.getD (Rs.wsub 64 i 1) 0 != 0 then ((Rs.wsub 64 i 1, some (lzAt BITS LIMBS a (Rs.wsub 64 i 1))), false)
         else ((Rs.wsub 64 i 1, none), true))
      else ((i, r), false) := by
  unfold Ruint.Gen.uint_leading_zeros_step1 lzAt
  simp only [decide_eq_true_eq, gt_iff_lt]

theorem lz_loop_eq (BITS LIMBS : ℕ) (A : List ℕ) :
    ∀ (xs sfx : List ℕ) (f : ℕ), A = xs ++ sfx → xs.length < 2 ^ 64 → xs.length < f →
      Rs.loop (Ruint.Gen.uint_leading_zeros_step1 BITS LIMBS A) f (xs.length, none)
        = (match rposNonzero xs with
           | some i => (i, some (lzAt BITS LIMBS A i))
           | none => (0, none)) := by
  intro xs
  induction xs using List.reverseRecOn with
  | nil =>
    intro sfx f _ _ h6
    obtain ⟨f, rfl⟩ : ∃ g, f = g + 1 := ⟨f - 1, by simp at h6; omega⟩
    rw [loop_succ, lz_step_eq]
    simp [rposNonzero]
  | append_singleton ys y ih =>
    intro sfx f hA h64 h6
    obtain ⟨f, rfl⟩ : ∃ g, f = g + 1 := ⟨f - 1, by simp at h6; omega⟩
    simp only [List.length_append, List.length_singleton] at h64 h6
    have hi : 0 < (ys ++ [y]).length := by simp
    have g1 : Rs.wsub 64 (ys ++ [y]).length 1 = ys.length := by
      simp only [List.length_append, List.length_singleton]; unfold Rs.wsub; omega
    have g2 : A.getD ys.length 0 = y := by rw [hA]; simp
    rw [loop_succ, lz_step_eq]
    simp only [hi, if_true, g1, g2, rposNonzero_append]
    by_cases hy : y = 0
    · have hb : (y != 0) = false := by simp [hy]
      simp only [hb, Bool.false_eq_true, if_false, if_true, hy, ne_eq, not_true_eq_false]
      exact ih ([y] ++ sfx) f (by rw [hA]; simp) (by omega) (by omega)
    · have hb : (y != 0) = true := by simp [hy]
      simp only [hb, if_true, Bool.false_eq_true, if_false, ne_eq, hy, not_false_eq_true]

theorem clz_eq (x : ℕ) (hx : x < W) : Rs.clz 64 x = clz64 x := by
  have h := clz64_spec x hx
  unfold Rs.clz
  unfold size at h
  by_cases h0 : x = 0
  · subst h0; simp at h ⊢; omega
  · simp only [h0, if_false] at h ⊢; omega

theorem mask_lt_W (bits : ℕ) : mask bits < W := by
  by_cases h0 : bits = 0
  · subst h0; exact W_pos
  · have hb : 0 < bits := Nat.pos_of_ne_zero h0
    have := mask_succ bits hb
    have ht := (topBits_range bits hb).2.1
    have h2 : 2 ^ topBits bits ≤ 2 ^ 64 := Nat.pow_le_pow_right (by norm_num) ht
    have h3 : W = 2 ^ 64 := rfl
    omega

theorem clz64_le (x : ℕ) : clz64 x ≤ 64 := by unfold clz64; omega

/-- top limb of a canonical value has at least as many leading zeros as the mask -/
theorem clz_top_ge (bits : ℕ) (hb : 0 < bits) (a : List ℕ) (ha : Canon bits a) :
    clz64 (mask bits) ≤ clz64 (a.getD (nlimbs bits - 1) 0) := by
  have hn := nlimbs_pos bits hb
  obtain ⟨hlen, hw, hv⟩ := ha
  have hne : a ≠ [] := by intro e; subst e; simp at hlen; omega
  obtain ⟨init, t, rfl⟩ := exists_init_last a hne
  have hil : init.length = nlimbs bits - 1 := by simp at hlen; omega
  have g1 : (init ++ [t]).getD (nlimbs bits - 1) 0 = t := by rw [← hil]; simp
  rw [g1]
  have htm := ((top_mask bits hb init t hil hw.left).1).2 hv
  have htW : t < W := hw.right.head
  have h1 := clz64_spec t htW
  have h2 := clz64_spec (mask bits) (mask_lt_W bits)
  have h3 : size t ≤ topBits bits := size_le t _ (by have := mask_succ bits hb; omega)
  rw [size_mask bits hb] at h2
  omega

/-- `Uint::leading_zeros` (canonical operands: the source's `skipped + top - fixed` does not wrap) -/
theorem leading_zeros_eq (bits : ℕ) (hN : nlimbs bits < 2 ^ 57) (a : List ℕ) (ha : Canon bits a)
    (f : ℕ) (hf : nlimbs bits < f) :
    Ruint.Gen.uint_leading_zeros f bits (nlimbs bits) a = leadingZeros bits a := by
  have hl := lz_loop_eq bits (nlimbs bits) a a [] f (by simp) (by rw [ha.1]; omega) (by rw [ha.1]; omega)
  have hlen : a.length = nlimbs bits := ha.1
  rw [hlen] at hl
  unfold Ruint.Gen.uint_leading_zeros leadingZeros
  simp only [hl]
  have hr := rposNonzero_spec a
  cases h : rposNonzero a with
  | none => simp
  | some i =>
    rw [h] at hr
    simp only at hr ⊢
    obtain ⟨hi, _, _⟩ := hr
    rw [hlen] at hi
    have hb : 0 < bits := by
      rcases Nat.eq_zero_or_pos bits with h0 | h0
      · subst h0; simp [nlimbs] at hi
      · exact h0
    have hxW : a.getD i 0 < W := getD_lt a ha.2.1 i
    rw [Option.getD_some]
    unfold lzAt
    rw [GenCore.mask_eq, clz_eq _ hxW, clz_eq _ (mask_lt_W bits)]
    have e1 : Rs.wsub 64 (Rs.wsub 64 (nlimbs bits) 1) i = nlimbs bits - 1 - i := by unfold Rs.wsub; omega
    have e2 : Rs.wmul 64 (nlimbs bits - 1 - i) 64 = (nlimbs bits - 1 - i) * 64 := by
      unfold Rs.wmul; rw [Nat.mod_eq_of_lt (by omega)]
    have c1 := clz64_le (a.getD i 0)
    have c2 := clz64_le (mask bits)
    have e3 : Rs.wadd 64 ((nlimbs bits - 1 - i) * 64) (clz64 (a.getD i 0))
        = (nlimbs bits - 1 - i) * 64 + clz64 (a.getD i 0) := by
      unfold Rs.wadd; rw [Nat.mod_eq_of_lt (by omega)]
    rw [e1, e2, e3]
    have hge : clz64 (mask bits) ≤ (nlimbs bits - 1 - i) * 64 + clz64 (a.getD i 0) := by
      by_cases hi' : i = nlimbs bits - 1
      · have := clz_top_ge bits hb a ha
        rw [hi']; omega
      · omega
    unfold Rs.wsub
    omega


/-- `Uint::count_zeros` -/
theorem count_zeros_eq (bits : ℕ) (hN : nlimbs bits < 2 ^ 57) (a : List ℕ) (ha : Canon bits a)
    (f : ℕ) (hf : nlimbs bits < f) :
    Ruint.Gen.uint_count_zeros f bits (nlimbs bits) a = countZeros bits a := by
  unfold Ruint.Gen.uint_count_zeros countZeros
  rw [count_ones_eq bits hN a ha.1 ha.2.1 f hf]
  have h1 : countOnes a ≤ bits := by
    rw [countOnes_spec bits a ha]; unfold bitCount
    exact le_trans List.countP_le_length (by simp)
  have h2 : bits < 2 ^ 64 := by unfold nlimbs at hN; omega
  unfold Rs.wsub; omega

/-- `Uint::bit_len` -/
theorem bit_len_eq (bits : ℕ) (hN : nlimbs bits < 2 ^ 57) (a : List ℕ) (ha : Canon bits a)
    (f : ℕ) (hf : nlimbs bits < f) :
    Ruint.Gen.uint_bit_len f bits (nlimbs bits) a = bitLen bits a := by
  unfold Ruint.Gen.uint_bit_len bitLen
  rw [leading_zeros_eq bits hN a ha f hf]
  have h1 : leadingZeros bits a ≤ bits := by rw [leadingZeros_spec bits a ha]; omega
  have h2 : bits < 2 ^ 64 := by unfold nlimbs at hN; omega
  unfold Rs.wsub; omega

/-- `Uint::byte_len` -/
theorem byte_len_eq (bits : ℕ) (hN : nlimbs bits < 2 ^ 57) (a : List ℕ) (ha : Canon bits a)
    (f : ℕ) (hf : nlimbs bits < f) :
    Ruint.Gen.uint_byte_len f bits (nlimbs bits) a = byteLen bits a := by
  unfold Ruint.Gen.uint_byte_len byteLen
  rw [bit_len_eq bits hN a ha f hf]
  have h1 : bitLen bits a ≤ bits := by unfold bitLen; omega
  have h2 : bits < 2 ^ 63 := by unfold nlimbs at hN; omega
  unfold Rs.wadd
  rw [Nat.mod_eq_of_lt (by omega)]

/-- `Uint::leading_ones` -/
theorem leading_ones_eq (bits : ℕ) (hN : nlimbs bits < 2 ^ 57) (a : List ℕ) (ha : Canon bits a)
    (f : ℕ) (hf : nlimbs bits < f) :
    Ruint.Gen.uint_leading_ones f bits (nlimbs bits) a = leadingOnes bits a := by
  unfold Ruint.Gen.uint_leading_ones leadingOnes
  rw [not_eq bits (by omega) a ha.1 f hf, leading_zeros_eq bits hN _ (not_val bits a ha).1 f hf]

end Ruint.GenBits
