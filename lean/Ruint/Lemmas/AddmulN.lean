import Ruint.Lemmas.Addmul

/-! `addmul_n`: the four unrolled `mac` bodies are instances of one recursion (`mulLow`: row `i`
    multiplies `b[..n-i]` by `a[i]` into `lhs[i..]`, every carry out of the window dropped), which is
    proved once for all lengths; the generic fall-through is `addmul`. -/
namespace Ruint.Limb
open Ruint
variable (B : ℕ)

/-- wrapping schoolbook product into a window: one truncated `addmul_nx1` row per limb of `as`,
    the window advancing by one limb per row. (Proof device: not executed by the driver; the
    unrolled model bodies are shown equal to it below.) -/
def mulLow : List ℕ → List ℕ → List ℕ → List ℕ
  | [], _, _ => []
  | l :: ls, [], _ => l :: ls
  | l :: ls, a :: as, bs =>
      match (addmulNx1Go B (l :: ls) bs a 0).1 with
      | [] => []
      | r0 :: rs => r0 :: mulLow rs as bs

theorem mulLow_spec (hB : 0 < B) (as bs : List ℕ) :
    ∀ w : List ℕ, w.length ≤ bs.length → AllLtB B w →
      ∃ k, valB B (mulLow B w as bs) + B ^ w.length * k = valB B w + valB B as * valB B bs
        ∧ (mulLow B w as bs).length = w.length ∧ AllLtB B (mulLow B w as bs) := by
  induction as with
  | nil =>
    intro w _ hw
    cases w with
    | nil => exact ⟨0, by simp [mulLow], rfl, AllLtB.nil⟩
    | cons l ls => exact ⟨0, by simp [mulLow], rfl, by simpa [mulLow] using hw⟩
  | cons a as ih =>
    intro w hlen hw
    cases w with
    | nil => exact ⟨valB B (a :: as) * valB B bs, by simp [mulLow], rfl, AllLtB.nil⟩
    | cons l ls =>
      obtain ⟨t1, t2⟩ := addmulNx1Go_trunc B (l :: ls) bs a 0 hlen
      have tlt := addmulNx1Go_lt B hB (l :: ls) bs a 0 hw
      simp only [mulLow]
      generalize addmulNx1Go B (l :: ls) bs a 0 = r at *
      match hm : r.1 with
      | [] => rw [hm] at t2; simp at t2
      | r0 :: rs =>
        simp only []
        rw [hm] at t1 t2 tlt
        simp only [List.length_cons, Nat.add_right_cancel_iff] at t2
        obtain ⟨k, k1, k2, k3⟩ := ih rs (by simp only [List.length_cons] at hlen; omega) tlt.tail
        generalize valB B (bs.drop (l :: ls).length) = dr at *
        refine ⟨k + r.2 + dr * a, ?_, by simp [k2, t2], AllLtB.cons tlt.head k3⟩
        simp only [valB_cons, List.length_cons] at t1 ⊢
        rw [← t2, pow_succ] at t1 ⊢
        generalize mulLow B rs as bs = res at *
        generalize B ^ rs.length = P at *
        have : B * (valB B res + P * k) = B * (valB B rs + valB B as * valB B bs) := by rw [k1]
        nlinarith [t1, this]

/-! the unrolled bodies are `mulLow` -/

theorem addmul1_eq (l0 a0 b0 : ℕ) : addmul1 B l0 a0 b0 = mulLow B [l0] [a0] [b0] := by
  simp [addmul1, mulLow, addmulNx1Go, mac, Nat.mul_comm]

theorem addmul2_eq (l0 l1 a0 a1 b0 b1 : ℕ) :
    addmul2 B l0 l1 a0 a1 b0 b1 = mulLow B [l0, l1] [a0, a1] [b0, b1] := by
  simp [addmul2, mulLow, addmulNx1Go, mac, Nat.mul_comm]

theorem addmul3_eq (l0 l1 l2 a0 a1 a2 b0 b1 b2 : ℕ) :
    addmul3 B l0 l1 l2 a0 a1 a2 b0 b1 b2 = mulLow B [l0, l1, l2] [a0, a1, a2] [b0, b1, b2] := by
  simp [addmul3, mulLow, addmulNx1Go, mac, Nat.mul_comm]

theorem addmul4_eq (l0 l1 l2 l3 a0 a1 a2 a3 b0 b1 b2 b3 : ℕ) :
    addmul4 B l0 l1 l2 l3 a0 a1 a2 a3 b0 b1 b2 b3
      = mulLow B [l0, l1, l2, l3] [a0, a1, a2, a3] [b0, b1, b2, b3] := by
  simp [addmul4, mulLow, addmulNx1Go, mac, Nat.mul_comm]

/-- from the exact accounting to the wrapped value -/
theorem mulLow_mod (hB : 0 < B) (w as bs : List ℕ) (h : w.length ≤ bs.length) (hw : AllLtB B w) :
    valB B (mulLow B w as bs) = (valB B w + valB B as * valB B bs) % B ^ w.length
    ∧ (mulLow B w as bs).length = w.length ∧ AllLtB B (mulLow B w as bs) := by
  obtain ⟨k, k1, k2, k3⟩ := mulLow_spec B hB as bs w h hw
  refine ⟨?_, k2, k3⟩
  have hlt := valB_lt_pow B _ k3
  rw [k2] at hlt
  rw [← k1, Nat.add_mul_mod_self_left, Nat.mod_eq_of_lt hlt]

/-- `addmul_n`: for equal lengths (otherwise the `assert_eq!` panics) the wrapping product-sum. -/
theorem addmulN_spec (hB : 2 ≤ B) (lhs a b : List ℕ) (hl : AllLtB B lhs) :
    (lhs.length = a.length ∧ lhs.length = b.length →
      ∃ r, addmulN B lhs a b = some r ∧ r.length = lhs.length
        ∧ valB B r = (valB B lhs + valB B a * valB B b) % B ^ lhs.length ∧ AllLtB B r)
    ∧ (¬ (lhs.length = a.length ∧ lhs.length = b.length) → addmulN B lhs a b = none) := by
  have hB0 : 0 < B := by omega
  constructor
  · rintro ⟨h1, h2⟩
    have hc : ¬ (lhs.length ≠ a.length ∨ lhs.length ≠ b.length) := by
      push Not; exact ⟨h1, h2⟩
    have gen : ∃ r, some (addmul B lhs a b).1 = some r ∧ r.length = lhs.length
        ∧ valB B r = (valB B lhs + valB B a * valB B b) % B ^ lhs.length ∧ AllLtB B r := by
      obtain ⟨g1, g2, _, g4⟩ := addmul_spec B hB lhs a b hl
      exact ⟨_, rfl, g2, g1, g4⟩
    unfold addmulN
    simp only [hc, if_false]
    match lhs, a, b, h1, h2, hl, gen with
    | [], _, _, _, _, _, _ => exact ⟨[], rfl, rfl, by simp [Nat.mod_one], AllLtB.nil⟩
    | [l0], [a0], [b0], _, _, hl, _ =>
      obtain ⟨m1, m2, m3⟩ := mulLow_mod B hB0 [l0] [a0] [b0] (by simp) hl
      exact ⟨_, rfl, by rw [addmul1_eq]; exact m2, by rw [addmul1_eq]; exact m1,
        by rw [addmul1_eq]; exact m3⟩
    | [l0, l1], [a0, a1], [b0, b1], _, _, hl, _ =>
      obtain ⟨m1, m2, m3⟩ := mulLow_mod B hB0 [l0, l1] [a0, a1] [b0, b1] (by simp) hl
      exact ⟨_, rfl, by rw [addmul2_eq]; exact m2, by rw [addmul2_eq]; exact m1,
        by rw [addmul2_eq]; exact m3⟩
    | [l0, l1, l2], [a0, a1, a2], [b0, b1, b2], _, _, hl, _ =>
      obtain ⟨m1, m2, m3⟩ := mulLow_mod B hB0 [l0, l1, l2] [a0, a1, a2] [b0, b1, b2] (by simp) hl
      exact ⟨_, rfl, by rw [addmul3_eq]; exact m2, by rw [addmul3_eq]; exact m1,
        by rw [addmul3_eq]; exact m3⟩
    | [l0, l1, l2, l3], [a0, a1, a2, a3], [b0, b1, b2, b3], _, _, hl, _ =>
      obtain ⟨m1, m2, m3⟩ :=
        mulLow_mod B hB0 [l0, l1, l2, l3] [a0, a1, a2, a3] [b0, b1, b2, b3] (by simp) hl
      exact ⟨_, rfl, by rw [addmul4_eq]; exact m2, by rw [addmul4_eq]; exact m1,
        by rw [addmul4_eq]; exact m3⟩
    | _ :: _ :: _ :: _ :: _ :: _, _ :: _ :: _ :: _ :: _ :: _, _ :: _ :: _ :: _ :: _ :: _, _, _, _, gen =>
      exact gen
  · intro h
    have hc : lhs.length ≠ a.length ∨ lhs.length ≠ b.length := by
      by_contra hcon; push Not at hcon; exact h hcon
    unfold addmulN
    simp only [hc, if_true]

end Ruint.Limb
