import Ruint.Lemmas.LehmerFrom

/-! # Further facts about the Lehmer matrix model

* the `while a3 >= LIMIT` loop of `from_u64_prefix` leaves by its own exit test (the model's fuel never runs out), and
  the `debug_assert!`s of the Rust function hold along the run;
* `compose` is the product of the implicit-sign matrices whenever the `u64` entries do not overflow;
* `from_u128_prefix` on values shorter than one word (direct calls; `Matrix::from` never does this). -/
namespace Ruint.Lh
open Ruint Ruint.Lehmer

/-- the packed loop of the executable model exits with `a3 < LIMIT` (its `while` condition is false). -/
theorem pLoop_exit (A0 A1 : ℕ) (hA : A0 < W) (hAle : A1 ≤ A0) (f : ℕ) (p : PSt) (s : St) (ag : ℤ)
    (hr : Rel p s) (he : p.even = true) (hse : s.even = true) (h : Inv A0 A1 LIMIT s ag) (hf : s.a3 < 2 * f) :
    (pLoop f p).a3 < LIMIT := by
  rw [(pLoop_rel A0 A1 hA hAle f p s ag hr he hse h).1.a3]
  exact loop_exit LIMIT LIMIT_pos (2 * f) s h.o2 hf

/-- the `debug_assert!`s of `from_u64_prefix` (`a2 < a3` after the rotation, `a2 >= LIMIT`, `a2 >= v2`, `a2 >= u2`)
    are consequences of the invariant. -/
theorem inv_asserts (A0 A1 L : ℕ) (s : St) (ag : ℤ) (h : Inv A0 A1 L s ag) (hA : A0 < L * L) (hAle : A1 ≤ A0) :
    s.a3 < s.a2 ∧ L ≤ s.a2 ∧ s.v2 ≤ s.a2 ∧ s.u2 ≤ s.a2 := by
  obtain ⟨b1, b2, b3, b4, -, -, -, -, -⟩ := inv_bounds A0 A1 L s ag h hA hAle
  have := h.lim
  exact ⟨h.o2, h.lim, by omega, by omega⟩

end Ruint.Lh

namespace Ruint.Lehmer
open Ruint Ruint.Lh

/-- **`compose`** is the matrix product (in the implicit-sign representation) as long as the four `u64` entries of the
    product do not overflow: applying the composed matrix is applying `n`, then `m`. -/
theorem compose_applyZ (m n : Mat)
    (h0 : m.1 * n.1 + m.2.1 * n.2.2.1 < W) (h1 : m.1 * n.2.1 + m.2.1 * n.2.2.2.1 < W)
    (h2 : m.2.2.1 * n.1 + m.2.2.2.1 * n.2.2.1 < W) (h3 : m.2.2.1 * n.2.1 + m.2.2.2.1 * n.2.2.2.1 < W) (x y : ℤ) :
    applyZ (compose m n) x y = applyZ m (applyZ n x y).1 (applyZ n x y).2 := by
  obtain ⟨m0, m1, m2, m3, e⟩ := m
  obtain ⟨n0, n1, n2, n3, f⟩ := n
  simp only at h0 h1 h2 h3
  have a0 : wadd (wmul m0 n0) (wmul m1 n2) = m0 * n0 + m1 * n2 := by
    rw [wmul_eq (by omega), wmul_eq (by omega), wadd_eq h0]
  have a1 : wadd (wmul m0 n1) (wmul m1 n3) = m0 * n1 + m1 * n3 := by
    rw [wmul_eq (by omega), wmul_eq (by omega), wadd_eq h1]
  have a2 : wadd (wmul m2 n0) (wmul m3 n2) = m2 * n0 + m3 * n2 := by
    rw [wmul_eq (by omega), wmul_eq (by omega), wadd_eq h2]
  have a3 : wadd (wmul m2 n1) (wmul m3 n3) = m2 * n1 + m3 * n3 := by
    rw [wmul_eq (by omega), wmul_eq (by omega), wadd_eq h3]
  simp only [compose, a0, a1, a2, a3]
  cases e <;> cases f <;>
    simp only [applyZ, Bool.xor_false, Bool.xor_true, Bool.not_false, Bool.not_true, Bool.false_eq_true, if_false,
      if_true, Bool.false_xor, Bool.true_xor] <;>
    (ext <;> (push_cast; ring))

/-- the contract is invariant under scaling both operands by `T > 0`. -/
theorem good_of_scaled (T a b : ℕ) (hT : 0 < T) (m : Mat) (h : good (a * T) (b * T) m = true) : good a b m = true := by
  rw [good_iff] at h ⊢
  obtain ⟨h1, h2, h3, h4, h5, h6, h7⟩ := h
  have hTz : (0 : ℤ) < T := by exact_mod_cast hT
  have e : applyZ m ((a * T : ℕ) : ℤ) ((b * T : ℕ) : ℤ) = ((T : ℤ) * (applyZ m a b).1, (T : ℤ) * (applyZ m a b).2) := by
    unfold applyZ
    split <;> (ext <;> (push_cast; ring))
  rw [e] at h5 h6 h7
  simp only at h5 h6 h7
  refine ⟨h1, h2, h3, h4, ?_, ?_, ?_⟩
  · exact nonneg_of_mul_nonneg_right h5 hTz
  · exact lt_of_mul_lt_mul_left h6 (le_of_lt hTz)
  · push_cast at h7
    have : (T : ℤ) * (applyZ m a b).2 < (T : ℤ) * b := by linarith
    exact lt_of_mul_lt_mul_left this (le_of_lt hTz)

/-- `from_u128_prefix` on a value shorter than one word: the normalised word is `r0·T`, `T = 2^(64 - bitLen r0)`. -/
theorem fromU128Prefix_small (r0 r1 n : ℕ) (hn : bitLen r0 = n) (h0 : r0 ≠ 0) (h64 : n < 64) (hle : r1 ≤ r0) :
    fromU128Prefix r0 r1 = fromU64Prefix (r0 * 2 ^ (64 - n)) (r1 * 2 ^ (64 - n))
    ∧ 2 ^ 63 ≤ r0 * 2 ^ (64 - n) ∧ r0 * 2 ^ (64 - n) < W := by
  obtain ⟨l1, l2, l3⟩ := bitLen_pos_range r0 h0
  rw [hn] at l1 l2 l3
  have hp : 0 < 2 ^ (64 - n) := Nat.pow_pos (by norm_num)
  have es : 2 ^ (128 - n) = 2 ^ (64 - n) * 2 ^ 64 := by rw [← Nat.pow_add]; congr 1; omega
  have e128 : 2 ^ 128 = 2 ^ n * 2 ^ (128 - n) := by rw [← Nat.pow_add]; congr 1; omega
  have e64 : (2 : ℕ) ^ 64 = 2 ^ n * 2 ^ (64 - n) := by rw [← Nat.pow_add]; congr 1; omega
  have e63 : (2 : ℕ) ^ 63 = 2 ^ (n - 1) * 2 ^ (64 - n) := by rw [← Nat.pow_add]; congr 1; omega
  have p128 : 0 < 2 ^ (128 - n) := Nat.pow_pos (by norm_num)
  have m0 : r0 * 2 ^ (128 - n) < 2 ^ 128 := by rw [e128]; exact Nat.mul_lt_mul_of_pos_right l2 p128
  have m1 : r1 * 2 ^ (128 - n) < 2 ^ 128 := lt_of_le_of_lt (Nat.mul_le_mul_right _ hle) m0
  have d0 : r0 * 2 ^ (128 - n) / 2 ^ 64 = r0 * 2 ^ (64 - n) := by
    rw [es, ← Nat.mul_assoc, Nat.mul_div_cancel _ (Nat.pow_pos (by norm_num))]
  have d1 : r1 * 2 ^ (128 - n) / 2 ^ 64 = r1 * 2 ^ (64 - n) := by
    rw [es, ← Nat.mul_assoc, Nat.mul_div_cancel _ (Nat.pow_pos (by norm_num))]
  have q1 : 2 ^ 63 ≤ r0 * 2 ^ (64 - n) := by rw [e63]; exact Nat.mul_le_mul_right _ l1
  have q2 : r0 * 2 ^ (64 - n) < W := by
    show r0 * 2 ^ (64 - n) < 2 ^ 64
    rw [e64]; exact Nat.mul_lt_mul_of_pos_right l2 hp
  have q3 : r1 * 2 ^ (64 - n) < W := lt_of_le_of_lt (Nat.mul_le_mul_right _ hle) q2
  refine ⟨?_, q1, q2⟩
  unfold fromU128Prefix
  rw [if_neg (by omega), if_neg h0, hn]
  simp only [Nat.mod_eq_of_lt m0, Nat.mod_eq_of_lt m1, d0, d1]
  rw [Nat.mod_eq_of_lt q2, Nat.mod_eq_of_lt q3]

/-- **`from_u128_prefix`, whole domain**: for every `0 < r1 ≤ r0 < 2^128` it does not panic and the result meets the
    contract on `(r0, r1)`. -/
theorem fromU128Prefix_contract (r0 r1 : ℕ) (h128 : r0 < 2 ^ 128) (hle : r1 ≤ r0) (hr1 : 0 < r1) :
    ∃ m, fromU128Prefix r0 r1 = some m ∧ contract r0 r1 m = true := by
  have hr0 : r0 ≠ 0 := by omega
  by_cases h64 : 64 ≤ bitLen r0
  · have hn : bitLen r0 ≤ 128 := by
      by_contra hc
      push Not at hc
      obtain ⟨l1, _, _⟩ := bitLen_pos_range r0 hr0
      have : 2 ^ 128 ≤ 2 ^ (bitLen r0 - 1) := Nat.pow_le_pow_right (by norm_num) (by omega)
      omega
    obtain ⟨e, h63, hW⟩ := fromU128Prefix_eq r0 r1 (bitLen r0) rfl h64 hn hle
    obtain ⟨K, hK⟩ : ∃ K, K = 2 ^ (bitLen r0 - 64) := ⟨_, rfl⟩
    rw [← hK] at e h63 hW
    have hKpos : 0 < K := by rw [hK]; exact Nat.pow_pos (by norm_num)
    obtain ⟨m, hm, hc⟩ := fromU64Prefix_contract (r0 / K) (r1 / K) K (r0 % K) (r1 % K) h63 hW
      (Nat.div_le_div_right hle) hKpos (Nat.mod_lt _ hKpos) (Nat.mod_lt _ hKpos)
    rw [Nat.div_add_mod' r0 K, Nat.div_add_mod' r1 K] at hc
    exact ⟨m, by rw [e]; exact hm, hc⟩
  · push Not at h64
    obtain ⟨e, h63, hW⟩ := fromU128Prefix_small r0 r1 (bitLen r0) rfl hr0 h64 hle
    obtain ⟨T, hT⟩ : ∃ T, T = 2 ^ (64 - bitLen r0) := ⟨_, rfl⟩
    rw [← hT] at e h63 hW
    have hTpos : 0 < T := by rw [hT]; exact Nat.pow_pos (by norm_num)
    obtain ⟨m, hm, hc⟩ := fromU64Prefix_contract (r0 * T) (r1 * T) 1 0 0 h63 hW
      (Nat.mul_le_mul_right _ hle) (le_refl _) (by norm_num) (by norm_num)
    simp only [Nat.mul_one, Nat.add_zero] at hc
    refine ⟨m, by rw [e]; exact hm, ?_⟩
    simp only [contract, Bool.or_eq_true] at hc ⊢
    rcases hc with hc | hc
    · exact Or.inl hc
    · exact Or.inr (good_of_scaled T r0 r1 hTpos m hc)

end Ruint.Lehmer
