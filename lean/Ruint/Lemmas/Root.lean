import Ruint.Model.Root
import Ruint.Lemmas.Pow
import Mathlib.Tactic.Ring
import Mathlib.Tactic.Linarith
import Mathlib.Tactic.NormNum
import Mathlib.Tactic.Positivity
import Mathlib.Tactic.Push

/-!
# Lemmas for `Model/Root.lean` (C13): Newton's iteration of `root`

Re-homed from `notes/probes/root_newton_loop_full_proof.lean` (AM–GM / Bernoulli step lemmas, loop with
the `decreasing` flag and the 2× cap, explicit fuel `mu`), and extended by what the probe left open:
the **no-wrap side condition** of the code's wrapping `division + deg_m1 * result` and of
`saturating_shl(1)`. All iterates stay in `[lo, hi] = [min g s, max g (2s)]` (`g` = first guess,
`s` = true root); if `j·hi + x / lo^j < 2^bits` then nothing wraps on that interval, so the
model's `iter` is the exact integer Newton step `step`.
-/
namespace Ruint.Root
open Ruint.Pow

/-- AM–GM in the form needed: `k·s·x^(k-1) ≤ s^k + (k-1)·x^k`. Stated with `k = j+1`. -/
theorem amgm (s x : ℕ) (j : ℕ) : (j + 1) * s * x ^ j ≤ s ^ (j + 1) + j * x ^ (j + 1) := by
  induction j with
  | zero => simp
  | succ j ih =>
    -- rearrangement: s^(j+1)·x + s·x^(j+1) ≤ s^(j+2) + x^(j+2)
    have hre : s ^ (j + 1) * x + s * x ^ (j + 1) ≤ s ^ (j + 2) + x ^ (j + 2) := by
      rcases Nat.le_total s x with h | h
      · have hp : s ^ (j + 1) ≤ x ^ (j + 1) := Nat.pow_le_pow_left h _
        obtain ⟨a, ha⟩ := Nat.exists_eq_add_of_le h
        obtain ⟨b, hb⟩ := Nat.exists_eq_add_of_le hp
        rw [pow_succ s (j + 1), pow_succ x (j + 1), hb, ha]
        nlinarith [Nat.zero_le (a * b)]
      · have hp : x ^ (j + 1) ≤ s ^ (j + 1) := Nat.pow_le_pow_left h _
        obtain ⟨a, ha⟩ := Nat.exists_eq_add_of_le h
        obtain ⟨b, hb⟩ := Nat.exists_eq_add_of_le hp
        rw [pow_succ s (j + 1), pow_succ x (j + 1), hb, ha]
        nlinarith [Nat.zero_le (a * b)]
    have h1 : (j + 1) * s * x ^ j * x ≤ (s ^ (j + 1) + j * x ^ (j + 1)) * x := Nat.mul_le_mul_right _ ih
    have e1 : (j + 1) * s * x ^ j * x = (j + 1) * s * x ^ (j + 1) := by rw [pow_succ]; ring
    have e2 : (s ^ (j + 1) + j * x ^ (j + 1)) * x = s ^ (j + 1) * x + j * x ^ (j + 2) := by
      rw [pow_succ x (j + 1)]; ring
    rw [e1, e2] at h1
    have e3 : (j + 1 + 1) * s * x ^ (j + 1) = (j + 1) * s * x ^ (j + 1) + s * x ^ (j + 1) := by ring
    have e4 : (j + 1) * x ^ (j + 1 + 1) = j * x ^ (j + 2) + x ^ (j + 2) := by ring
    rw [e3, e4]
    have : s ^ (j + 1 + 1) = s ^ (j + 2) := rfl
    rw [this]
    omega

/-- Bernoulli in the form needed: `x^(j+1) + (j+1)·x^j ≤ (x+1)^(j+1)`. -/
theorem bern (x j : ℕ) : x ^ (j + 1) + (j + 1) * x ^ j ≤ (x + 1) ^ (j + 1) := by
  induction j with
  | zero => simp
  | succ j ih =>
    have h1 : (x ^ (j + 1) + (j + 1) * x ^ j) * (x + 1) ≤ (x + 1) ^ (j + 1) * (x + 1) := Nat.mul_le_mul_right _ ih
    have e1 : (x ^ (j + 1) + (j + 1) * x ^ j) * (x + 1)
        = x ^ (j + 2) + (j + 2) * x ^ (j + 1) + (j + 1) * x ^ j := by
      rw [pow_succ x (j + 1), pow_succ x j]; ring
    rw [e1, ← pow_succ] at h1
    have : x ^ (j + 1 + 1) + (j + 1 + 1) * x ^ (j + 1) = x ^ (j + 2) + (j + 2) * x ^ (j + 1) := rfl
    rw [this]
    omega

/-- the exact integer Newton step, degree `k = j+1`. -/
def step (n j x : ℕ) : ℕ := (j * x + n / x ^ j) / (j + 1)

/-- (1) never below the root. -/
theorem step_ge (n j x s : ℕ) (hx : 1 ≤ x) (hs : s ^ (j + 1) ≤ n) : s ≤ step n j x := by
  unfold step
  have hxj : 0 < x ^ j := by positivity
  rw [Nat.le_div_iff_mul_le (by omega)]
  by_cases hc : s * (j + 1) ≤ j * x
  · exact le_trans hc (Nat.le_add_right _ _)
  · push Not at hc
    obtain ⟨g, hg⟩ : ∃ g, g = n / x ^ j := ⟨_, rfl⟩
    rw [← hg]
    have : s * (j + 1) - j * x ≤ g := by
      rw [hg]
      rw [Nat.le_div_iff_mul_le hxj]
      have h1 := amgm s x j
      have e : (s * (j + 1) - j * x) * x ^ j = (j + 1) * s * x ^ j - j * x ^ (j + 1) := by
        rw [Nat.sub_mul, pow_succ]; congr 1 <;> ring
      rw [e]; omega
    omega

/-- (2) strictly decreasing above the root. -/
theorem step_lt (n j x : ℕ) (hj : 1 ≤ j) (hn : n < x ^ (j + 1)) : step n j x < x := by
  unfold step
  have hx : 0 < x := by
    rcases Nat.eq_zero_or_pos x with h | h
    · rw [h] at hn; simp at hn
    · exact h
  have hxj : 0 < x ^ j := by positivity
  rw [Nat.div_lt_iff_lt_mul (by omega)]
  have : n / x ^ j < x := by
    rw [Nat.div_lt_iff_lt_mul hxj]; rw [pow_succ] at hn; linarith [Nat.mul_comm x (x ^ j)]
  have e : x * (j + 1) = j * x + x := by ring
  omega

/-- (3) strictly increasing while at least one below the root. -/
theorem step_gt (n j x : ℕ) (hx : 1 ≤ x) (hn : (x + 1) ^ (j + 1) ≤ n) : x < step n j x := by
  unfold step
  have hxj : 0 < x ^ j := by positivity
  rw [Nat.lt_iff_add_one_le, Nat.le_div_iff_mul_le (by omega)]
  have : x + (j + 1) ≤ n / x ^ j := by
    rw [Nat.le_div_iff_mul_le hxj]
    have := bern x j
    have e : (x + (j + 1)) * x ^ j = x ^ (j + 1) + (j + 1) * x ^ j := by rw [pow_succ]; ring
    rw [e]; omega
  have e : (x + 1) * (j + 1) = j * x + (x + (j + 1)) := by ring
  omega

/-- **No wrap**: where `j·r + x / r^j < 2^bits`, the model's `iter` (with `checked_pow`, the
    `map_or(ZERO, …)`, wrapping `*` and `+`) is the exact Newton step; in particular no division by
    zero. -/
theorem iter_eq (bits x j r : ℕ) (hbits : 0 < bits) (hxM : x < 2 ^ bits) (hr : 1 ≤ r)
    (hj : 1 ≤ j) (hnw : j * r + x / r ^ j < 2 ^ bits) : iter bits x j r = some (step x j r) := by
  have hrj : 0 < r ^ j := by positivity
  unfold iter step
  obtain ⟨q, hq⟩ : ∃ q, q = x / r ^ j := ⟨_, rfl⟩
  rw [← hq] at hnw ⊢
  have hrM : r < 2 ^ bits := by
    have : r ≤ j * r := Nat.le_mul_of_pos_left r hj
    omega
  have hjr : j * r % 2 ^ bits = j * r := Nat.mod_eq_of_lt (by omega)
  simp only [checkedPow_eq bits r j hbits hrM]
  by_cases hlt : r ^ j < 2 ^ bits
  · simp only [hlt, if_true, if_neg (by omega : ¬ r ^ j = 0)]
    rw [← hq, hjr, Nat.mod_eq_of_lt (by omega), Nat.add_comm]
  · simp only [hlt, if_false]
    have hz : q = 0 := by rw [hq]; exact Nat.div_eq_of_lt (by omega)
    rw [hjr, Nat.zero_add, Nat.mod_eq_of_lt (by omega), hz]; rfl

/-- fuel that always suffices (number of loop iterations from state `(dec, r)` to the answer `s`). -/
def mu (s : ℕ) (dec : Bool) (r : ℕ) : ℕ :=
  if dec then (r - s) + 1 else if r ≤ s then (s - r) + s + 3 else (r - s) + 2

/-- **The loop of `root`** returns the floor root `s` from every state in `[lo, hi]`, within `mu`
    iterations, provided nothing can wrap on `[lo, hi]` (`j·hi + x / lo^j < 2^bits`), `lo ≤ s` and
    `2s ≤ hi`. -/
theorem rootLoop_spec (bits x j s lo hi : ℕ) (hbits : 0 < bits) (hj : 1 ≤ j) (_hn : 1 ≤ x)
    (hxM : x < 2 ^ bits) (hlo : s ^ (j + 1) ≤ x) (hhi : x < (s + 1) ^ (j + 1))
    (hlo1 : 1 ≤ lo) (hlos : lo ≤ s) (h2s : 2 * s ≤ hi) (hNW : j * hi + x / lo ^ j < 2 ^ bits)
    (f : ℕ) (dec : Bool) (r : ℕ) (hrlo : lo ≤ r) (hrhi : r ≤ hi) (hdec : dec = true → s ≤ r)
    (hf : mu s dec r ≤ f) :
    rootLoop bits x j f dec r = .ok s := by
  have hs1 : 1 ≤ s := by omega
  -- classification of the step relative to the root
  have hbelow : ∀ y, 1 ≤ y → y < s → y < step x j y := fun y hy hys =>
    step_gt x j y hy (le_trans (Nat.pow_le_pow_left (by omega) _) hlo)
  have habove : ∀ y, s < y → step x j y < y := fun y hys =>
    step_lt x j y hj (lt_of_lt_of_le hhi (Nat.pow_le_pow_left (by omega) _))
  have hge : ∀ y, 1 ≤ y → s ≤ step x j y := fun y hy => step_ge x j y s hy hlo
  -- nothing wraps on [lo, hi]
  obtain ⟨Q, hQ⟩ : ∃ Q, Q = x / lo ^ j := ⟨_, rfl⟩
  rw [← hQ] at hNW
  have hiter : ∀ y, lo ≤ y → y ≤ hi → iter bits x j y = some (step x j y) := by
    intro y hy1 hy2
    apply iter_eq bits x j y hbits hxM (by omega) hj
    have h1 : j * y ≤ j * hi := Nat.mul_le_mul_left j hy2
    have h2 : x / y ^ j ≤ Q := by
      rw [hQ]; exact Nat.div_le_div_left (Nat.pow_le_pow_left hy1 j) (by positivity)
    obtain ⟨q, hq⟩ : ∃ q, q = x / y ^ j := ⟨_, rfl⟩
    rw [← hq] at h2 ⊢
    omega
  have hhiM : 2 * s < 2 ^ bits := by
    have : hi ≤ j * hi := Nat.le_mul_of_pos_left hi hj
    omega
  induction f generalizing dec r with
  | zero => unfold mu at hf; split at hf <;> (try split at hf) <;> omega
  | succ f ih =>
    have hr : 1 ≤ r := by omega
    simp only [rootLoop, hiter r hrlo hrhi]
    have h1 := hbelow r hr
    have h2 := habove r
    have h3 := hge r hr
    obtain ⟨it, hit⟩ : ∃ it, it = step x j r := ⟨_, rfl⟩
    rw [← hit] at h1 h2 h3 ⊢
    split
    · next heq => -- fixed point
      have : r = s := by
        rcases Nat.lt_trichotomy r s with h | h | h
        · have := h1 h; omega
        · exact h
        · have := h2 h; omega
      rw [this]
    · next hne =>
      split
      · next hgt =>
        have hrs : r ≤ s := by
          by_contra hc; push Not at hc
          have := h2 hc; omega
        cases dec
        · simp only [Bool.false_eq_true, if_false]
          have hsh : sshl1 bits r = 2 * r := by
            unfold sshl1; rw [if_pos (by omega)]
          rw [hsh]
          apply ih false (min it (2 * r)) (by omega) (by omega) (by simp)
          unfold mu at hf ⊢
          simp only [Bool.false_eq_true, if_false] at hf ⊢
          rw [if_pos hrs] at hf
          split <;> omega
        · simp only [if_true]
          have := hdec rfl
          have : r = s := by omega
          rw [this]
      · next hle =>
        have hlt : it < r := by omega
        apply ih true it (by omega) (by omega) (fun _ => h3)
        unfold mu at hf ⊢
        simp only [if_true]
        cases dec
        · simp only [Bool.false_eq_true, if_false] at hf
          split at hf
          · next hrs => omega
          · omega
        · simp only [if_true] at hf
          omega

/-- the floor root is at least one for a non-zero value, and at most the value. -/
theorem root_pos (x k s : ℕ) (hx : 1 ≤ x) (hhi : x < (s + 1) ^ k) : 1 ≤ s := by
  rcases Nat.eq_zero_or_pos s with h | h
  · rw [h] at hhi; simp at hhi; omega
  · exact h

theorem root_le (x k s : ℕ) (hk : 1 ≤ k) (hlo : s ^ k ≤ x) : s ≤ x := by
  rcases Nat.eq_zero_or_pos s with h | h
  · omega
  · calc s = s ^ 1 := (pow_one s).symm
      _ ≤ s ^ k := Nat.pow_le_pow_right h hk
      _ ≤ x := hlo

/-- `root` returns the floor root; the hypothesis `guessOk` on the first guess is needed only when
    the Newton loop is reached. -/
theorem root_eq (bits x k g s : ℕ) (hk : 1 ≤ k) (hxM : x < 2 ^ bits)
    (hlo : s ^ k ≤ x) (hhi : x < (s + 1) ^ k)
    (hg : x ≠ 0 → k < bits → k ≠ 1 → guessOk bits x k g s = true) :
    root bits x k g = .ok s := by
  unfold root
  rw [if_neg (by omega)]
  by_cases hx0 : x = 0
  · rw [if_pos hx0]
    rcases Nat.eq_zero_or_pos s with h | h
    · rw [h]
    · have : 1 ≤ s ^ k := Nat.one_le_pow _ _ h
      omega
  · rw [if_neg hx0]
    have hx1 : 1 ≤ x := by omega
    have hs1 := root_pos x k s hx1 hhi
    by_cases hkb : k ≥ bits
    · rw [if_pos hkb]
      -- x < 2^bits ≤ 2^k, so s < 2
      have h2 : x < 2 ^ k := lt_of_lt_of_le hxM (Nat.pow_le_pow_right (by omega) hkb)
      have : s < 2 := by
        by_contra hc; push Not at hc
        have := Nat.pow_le_pow_left hc k
        omega
      have : s = 1 := by omega
      rw [this]
    · rw [if_neg hkb]
      by_cases hk1 : k = 1
      · rw [if_pos hk1]
        rw [hk1] at hlo hhi; simp at hlo hhi
        have : s = x := by omega
        rw [this]
      · rw [if_neg hk1]
        have hbits : 0 < bits := by omega
        replace hg := hg hx0 (by omega) hk1
        unfold guessOk at hg
        simp only [Bool.and_eq_true, decide_eq_true_eq] at hg
        obtain ⟨hg1, hg2⟩ := hg
        obtain ⟨j, hjk⟩ : ∃ j, k = j + 1 := ⟨k - 1, by omega⟩
        subst hjk
        simp only [Nat.add_sub_cancel] at hg2 ⊢
        have hsx := root_le x (j + 1) s (by omega) hlo
        apply rootLoop_spec bits x j s (min g s) (max g (2 * s)) hbits (by omega) hx1 hxM hlo hhi
          (by omega) (by omega) (by omega) hg2 _ false g (by omega) (by omega) (by simp)
        unfold mu rootFuel
        simp only [Bool.false_eq_true, if_false]
        split <;> omega

end Ruint.Root
