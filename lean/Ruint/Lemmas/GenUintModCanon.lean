import Ruint.Gen.WordsUintMod
import Ruint.Model.Canon
import Ruint.Model.Cmp
import Ruint.Lemmas.Canon
import Ruint.Lemmas.GenUint
import Ruint.Lemmas.GenShift
import Ruint.Lemmas.GenCmp
/-! Part of the ties of `Gen/WordsUintMod.lean` (split per property so that a change to one source function breaks only the
    obligations of the properties resting on it). -/
namespace Ruint.GenUintMod
open Ruint

/-! ### `from_limbs`, `from_limbs_unmasked` -/

/-- **`Uint::from_limbs` as generated from `src/lib.rs`** (with its `assert!`) equals the C04 model. -/
theorem from_limbs_eq (bits : ℕ) (hN : nlimbs bits < 2 ^ 64) (l : List ℕ) (hl : l.length = nlimbs bits) :
    Ruint.Gen.uint_from_limbs bits (nlimbs bits) l = Ruint.Canon.fromLimbs bits l := by
  unfold Ruint.Gen.uint_from_limbs Ruint.Canon.fromLimbs Ruint.Canon.shouldMask Ruint.Canon.top
  rw [GenCore.mask_eq]
  by_cases h0 : bits = 0
  · subst h0; simp
  · have hb : 0 < bits := Nat.pos_of_ne_zero h0
    have hn := nlimbs_pos bits hb
    have hg := Ruint.GenShift.getD_getLast l (by omega)
    rw [hl] at hg
    rw [Ruint.GenUint.wsub_one _ hn hN, hg]
    have hW : W - 1 = 2 ^ 64 - 1 := rfl
    obtain ⟨M, hM⟩ : ∃ M, M = 2 ^ 64 - 1 := ⟨_, rfl⟩
    rw [hW, ← hM]
    by_cases hm : mask bits = M
    · simp [hm]
    · by_cases ht : l.getLast?.getD 0 ≤ mask bits
      · simp [hb, hm, ht, Nat.not_lt.mpr ht]
      · simp [hb, hm, ht, Nat.not_le.mp ht]

/-- **`Uint::from_limbs_unmasked` as generated from `src/lib.rs`** equals the C04 model. -/
theorem from_limbs_unmasked_eq (bits : ℕ) (hN : nlimbs bits < 2 ^ 64) (l : List ℕ) (hl : l.length = nlimbs bits)
    (hw : Ruint.AllLt l) :
    Ruint.Gen.uint_from_limbs_unmasked bits (nlimbs bits) l = Ruint.Canon.fromLimbsUnmasked bits l := by
  unfold Ruint.Gen.uint_from_limbs_unmasked Ruint.Canon.fromLimbsUnmasked
  rw [Ruint.Canon.masked_eq_maskTop bits l hl hw]
  by_cases h0 : bits = 0
  · subst h0
    have : l = [] := by simpa [nlimbs] using hl
    subst this
    simp [Ruint.Gen.uint_masked, maskTop]
  · exact Ruint.GenUint.masked_eq bits (Nat.pos_of_ne_zero h0) hN l hl hw

/-! ### `Ord::cmp` -/

/-- **`Ord::cmp for Uint` as generated from `src/cmp.rs`** is the model `Cmp.cmp`. -/
theorem cmp_eq (bits LIMBS : ℕ) (a b : List ℕ) (h64 : min a.length b.length < 2 ^ 64) (f : ℕ)
    (hf : min a.length b.length < f) :
    Ruint.Gen.uint_cmp f bits LIMBS a b = Ruint.Cmp.cmp a b := by
  unfold Ruint.Gen.uint_cmp
  exact Ruint.GenCmp.limb_cmp_eq a b h64 f hf


end Ruint.GenUintMod
