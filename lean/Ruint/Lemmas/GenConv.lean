import Ruint.Gen.WordsConv
import Ruint.Model.Conv
import Ruint.Lemmas.Canon
import Ruint.Lemmas.Bits
import Ruint.Lemmas.GenCore
import Ruint.Lemmas.GenUint
import Ruint.Lemmas.GenBits
import Ruint.Lemmas.GenUintModCanon

/-! The integer conversions of `src/from.rs` as GENERATED (`Gen/WordsConv.lean`) equal the C07 models
    (`Model/Conv.lean`) under the documented encodings of the error enums and of the primitive bit patterns. -/
namespace Ruint.GenConv
open Ruint Ruint.Canon Ruint.Conv

/-! ## encodings -/

def toToRes : Option (Except (ℕ × ℕ × List ℕ) (List ℕ)) → Ruint.Conv.ToRes
  | none => .panic
  | some (.ok l) => .ok l
  | some (.error (0, b, l)) => .tooLarge b l
  | some (.error (1, b, l)) => .negative b l
  | some (.error _) => .panic

def toPat (t : Ruint.Conv.Prim) : Ruint.Conv.FromRes → Except (ℕ × ℕ × ℕ × ℕ) ℕ
  | .ok v => .ok (Ruint.Conv.asUnsigned t.width v)
  | .overflow b w m => .error (0, b, Ruint.Conv.asUnsigned t.width w, Ruint.Conv.asUnsigned t.width m)

def toPatB : Ruint.Conv.FromRes → Except (ℕ × ℕ × Bool × Bool) Bool
  | .ok v => .ok (v != 0)
  | .overflow b w m => .error (0, b, w != 0, m != 0)

/-! ## list helpers -/

theorem replicate_set0 (n v : ℕ) : (List.replicate n 0).set 0 v = low1 n v := by
  cases n with
  | zero => rfl
  | succ n => rfl

theorem replicate_set01 (n lo hi : ℕ) (hn : 2 ≤ n) :
    ((List.replicate n 0).set 0 lo).set 1 hi = low2 n lo hi := by
  obtain ⟨k, rfl⟩ : ∃ k, n = k + 2 := ⟨n - 2, by omega⟩
  rfl

theorem low2_length (n lo hi : ℕ) : (low2 n lo hi).length = n := by
  unfold low2
  rcases n with _ | _ | n <;> simp

theorem low2_getD1 (n lo hi : ℕ) (hn : 2 ≤ n) : (low2 n lo hi).getD 1 0 = hi := by
  obtain ⟨k, rfl⟩ : ∃ k, n = k + 2 := ⟨n - 2, by omega⟩
  rfl

theorem low2_set1 (n lo hi x : ℕ) (hn : 2 ≤ n) : (low2 n lo hi).set 1 x = low2 n lo x := by
  obtain ⟨k, rfl⟩ : ∃ k, n = k + 2 := ⟨n - 2, by omega⟩
  rfl

/-! ## `from_limbs` inside a conversion -/

theorem withLimbs_ok (bits : ℕ) (l : List ℕ) :
    toToRes (match fromLimbs bits l with
      | none => none
      | some pv => some (Except.ok pv)) = withLimbs bits l .ok := by
  unfold withLimbs
  cases fromLimbs bits l <;> rfl

theorem withLimbs_tooLarge (bits : ℕ) (l : List ℕ) :
    toToRes (match fromLimbs bits l with
      | none => none
      | some pv => some (Except.error (0, bits, pv))) = withLimbs bits l (.tooLarge bits) := by
  unfold withLimbs
  cases fromLimbs bits l <;> rfl

/-! ## `TryFrom<u64>` -/

theorem try_from_u64_eq (bits : ℕ) (hN : nlimbs bits < 2 ^ 64) (value : ℕ) (hv : value < 2 ^ 64) :
    toToRes (Ruint.Gen.uint_try_from_u64 bits (nlimbs bits) value) = Ruint.Conv.tryFromU64 bits value := by
  have _ := hv
  unfold Ruint.Gen.uint_try_from_u64 Ruint.Conv.tryFromU64
  simp only [GenCore.mask_eq, replicate_set0, decide_eq_true_eq, gt_iff_lt, beq_iff_eq]
  by_cases h1 : nlimbs bits ≤ 1
  · rw [if_pos h1, if_pos h1]
    by_cases hm : mask bits < value
    · rw [if_pos hm, if_pos hm]
      by_cases hn1 : nlimbs bits = 1
      · have hb : 0 < bits := by
          rcases Nat.eq_zero_or_pos bits with h | h
          · subst h; simp [nlimbs] at hn1
          · exact h
        rw [if_pos hn1, if_pos hn1, GenUint.and_mask bits value hb,
          GenUintMod.from_limbs_eq bits hN _ (by rw [low1_length])]
        rw [hn1]
        exact withLimbs_tooLarge bits _
      · have hn0 : nlimbs bits = 0 := by omega
        rw [if_neg hn1, if_neg hn1, GenUintMod.from_limbs_eq bits hN _ (by simp), hn0]
        exact withLimbs_tooLarge bits _
    · rw [if_neg hm, if_neg hm]
      by_cases hn0 : nlimbs bits = 0
      · rw [if_pos hn0, if_pos hn0]; rfl
      · rw [if_neg hn0, if_neg hn0, GenUintMod.from_limbs_eq bits hN _ (by rw [low1_length])]
        exact withLimbs_ok bits _
  · rw [if_neg h1, if_neg h1, GenUintMod.from_limbs_eq bits hN _ (by rw [low1_length])]
    exact withLimbs_ok bits _

/-! ## `TryFrom<u128>` -/

theorem rewrap (bits : ℕ) (r : Option (Except (ℕ × ℕ × List ℕ) (List ℕ))) :
    toToRes (match r with
      | none => none
      | some pv => some (match pv with
        | Except.ok n => Except.error (0, bits, n)
        | Except.error e_ => Except.error e_)) =
    (match toToRes r with
      | .ok r => .tooLarge bits r
      | e => e) := by
  rcases r with _ | (e | l)
  · rfl
  · obtain ⟨k, b, l⟩ := e
    rcases k with _ | _ | k <;> rfl
  · rfl

theorem try_from_u128_eq (bits : ℕ) (hN : nlimbs bits < 2 ^ 64) (value : ℕ) (hv : value < 2 ^ 128) :
    toToRes (Ruint.Gen.uint_try_from_u128 bits (nlimbs bits) value) = Ruint.Conv.tryFromU128 bits value := by
  have _ := hv
  have hlo : value % 2 ^ 64 < 2 ^ 64 := Nat.mod_lt _ (by norm_num)
  unfold Ruint.Gen.uint_try_from_u128 Ruint.Conv.tryFromU128 Ruint.Conv.tryFromU128With
  have hW' : W = 2 ^ 64 := rfl
  simp only [GenCore.mask_eq, decide_eq_true_eq, gt_iff_lt, hW']
  by_cases h1 : value ≤ 2 ^ 64 - 1
  · rw [if_pos h1, if_pos h1]
    have hv64 : value < 2 ^ 64 := by omega
    rw [Nat.mod_eq_of_lt hv64, ← try_from_u64_eq bits hN _ hv64]
    generalize Ruint.Gen.uint_try_from_u64 bits (nlimbs bits) value = r
    cases r <;> rfl
  · rw [if_neg h1, if_neg h1]
    by_cases h2 : nlimbs bits < 2
    · rw [if_pos h2, if_pos h2, ← try_from_u64_eq bits hN _ hlo]
      exact rewrap bits _
    · rw [if_neg h2, if_neg h2]
      have hn : 2 ≤ nlimbs bits := by omega
      rw [replicate_set01 _ _ _ hn, low2_getD1 _ _ _ hn, low2_set1 _ _ _ _ hn]
      have hb : 0 < bits := by
        rcases Nat.eq_zero_or_pos bits with h | h
        · subst h; simp [nlimbs] at hn
        · exact h
      rw [GenUint.and_mask bits _ hb]
      by_cases h3 : nlimbs bits = 2 ∧ mask bits < value / 2 ^ 64 % 2 ^ 64
      · have h3' : ((nlimbs bits == 2) && decide (mask bits < value / 2 ^ 64 % 2 ^ 64)) = true := by
          rw [Bool.and_eq_true, beq_iff_eq, decide_eq_true_eq]; exact h3
        rw [if_pos h3', if_pos h3, GenUintMod.from_limbs_eq bits hN _ (by rw [low2_length])]
        exact withLimbs_tooLarge bits _
      · have h3' : ¬ ((nlimbs bits == 2) && decide (mask bits < value / 2 ^ 64 % 2 ^ 64)) = true := by
          rw [Bool.and_eq_true, beq_iff_eq, decide_eq_true_eq]; exact h3
        rw [if_neg h3', if_neg h3, GenUintMod.from_limbs_eq bits hN _ (by rw [low2_length])]
        exact withLimbs_ok bits _

/-! ## `const_from_u64` -/

theorem gen_max_eq (bits : ℕ) (hN : nlimbs bits < 2 ^ 64) :
    Ruint.Gen.uint_masked bits (nlimbs bits) (List.replicate (nlimbs bits) (2 ^ 64 - 1)) = Ruint.Canon.max bits := by
  have h := GenUintMod.from_limbs_unmasked_eq bits hN (List.replicate (nlimbs bits) (W - 1)) (by simp)
    (allLt_replicate _ _ (by have := W_pos; omega))
  unfold Ruint.Gen.uint_from_limbs_unmasked at h
  exact h

theorem const_from_u64_eq (bits : ℕ) (hN : nlimbs bits < 2 ^ 64) (x : ℕ) (hx : x < 2 ^ 64) :
    Ruint.Gen.uint_const_from_u64 bits (nlimbs bits) x = Ruint.Canon.constFromU64 bits x := by
  have _ := hx
  unfold Ruint.Gen.uint_const_from_u64 Ruint.Canon.constFromU64
  simp only [replicate_set0, gen_max_eq bits hN]
  by_cases hc : bits = 0 ∨ (bits < 64 ∧ x ≥ 2 ^ bits)
  · have hc' : ((bits == 0) || (decide (bits < 64) && decide (x ≥ Rs.wshl 64 1 bits))) = true := by
      rcases hc with h | ⟨h, h'⟩
      · simp [h]
      · rw [GenBits.wshl_one bits h]; simp [h, h']
    rw [if_pos hc', if_pos hc]
  · have hc' : ¬ ((bits == 0) || (decide (bits < 64) && decide (x ≥ Rs.wshl 64 1 bits))) = true := by
      intro h
      apply hc
      simp only [Bool.or_eq_true, beq_iff_eq, Bool.and_eq_true, decide_eq_true_eq] at h
      rcases h with h | ⟨h, h'⟩
      · exact Or.inl h
      · rw [GenBits.wshl_one bits h] at h'; exact Or.inr ⟨h, h'⟩
    rw [if_neg hc', if_neg hc, GenUintMod.from_limbs_eq bits hN _ (by rw [low1_length])]
    generalize fromLimbs bits (low1 (nlimbs bits) x) = r
    cases r <;> rfl

/-! ## `Uint` → primitive -/

/-- the bit pattern of `x as T` is `x mod 2^width`, for both signednesses -/
theorem asUnsigned_castTo (t : Prim) (x : ℕ) : asUnsigned t.width (castTo t x) = x % 2 ^ t.width := by
  simp only [asUnsigned, castTo]
  have hr : x % 2 ^ t.width < 2 ^ t.width := Nat.mod_lt _ (by positivity)
  obtain ⟨r, hr'⟩ : ∃ r, r = x % 2 ^ t.width := ⟨_, rfl⟩
  rw [← hr'] at hr ⊢
  have hcast : ((2 : ℤ) ^ t.width) = ((2 ^ t.width : ℕ) : ℤ) := by push_cast; rfl
  have h1 : ((r : ℤ)) % (2 ^ t.width : ℤ) = r := by
    rw [hcast, ← Int.natCast_mod, Nat.mod_eq_of_lt hr]
  split_ifs
  · rw [Int.sub_emod_right, h1, Int.toNat_natCast]
  · rw [h1, Int.toNat_natCast]

theorem getD_lt_W (l : List ℕ) (hl : AllLt l) (i : ℕ) : l.getD i 0 < W := by
  rw [List.getD_eq_getElem?_getD]
  cases h : l[i]? with
  | none => exact W_pos
  | some v => exact hl v (List.mem_of_getElem? h)

/-- the common shape of the ten `to_int!` instances -/
theorem toPat_toInt (t : Prim) (bits : ℕ) (l : List ℕ) :
    toPat t (toInt t bits l) =
      if bits = 0 then .ok 0
      else if Bits.bitLen bits l > (if t.signed then t.width - 1 else t.width) then
        .error (0, bits, l.getD 0 0 % 2 ^ t.width, asUnsigned t.width t.max)
      else .ok (l.getD 0 0 % 2 ^ t.width) := by
  simp only [toInt, limb]
  by_cases h0 : bits = 0
  · simp [h0, toPat, asUnsigned]
  · rw [if_neg h0, if_neg h0]
    by_cases h : Bits.bitLen bits l > (if t.signed then t.width - 1 else t.width)
    · rw [if_pos h, if_pos h]; simp only [toPat, asUnsigned_castTo]
    · rw [if_neg h, if_neg h]; simp only [toPat, asUnsigned_castTo]

theorem shape_eq (t : Prim) (bits : ℕ) (hN : nlimbs bits < 2 ^ 57) (l : List ℕ) (hl : Canon bits l) (f : ℕ)
    (hf : nlimbs bits < f) (cap mx : ℕ) (hcap : cap = if t.signed then t.width - 1 else t.width)
    (hmx : mx = asUnsigned t.width t.max) :
    (if (bits == 0) = true then (Except.ok 0 : Except (ℕ × ℕ × ℕ × ℕ) ℕ)
      else if decide (Ruint.Gen.uint_bit_len f bits (nlimbs bits) l > cap) = true then
        Except.error (0, bits, l.getD 0 0 % 2 ^ t.width, mx)
      else Except.ok (l.getD 0 0 % 2 ^ t.width)) = toPat t (toInt t bits l) := by
  rw [toPat_toInt, GenBits.bit_len_eq bits hN l hl f hf, hcap, hmx]
  simp only [beq_iff_eq, decide_eq_true_eq]

theorem shape64_eq (t : Prim) (ht : t.width = 64) (bits : ℕ) (hN : nlimbs bits < 2 ^ 57) (l : List ℕ)
    (hl : Canon bits l) (f : ℕ)
    (hf : nlimbs bits < f) (cap mx : ℕ) (hcap : cap = if t.signed then t.width - 1 else t.width)
    (hmx : mx = asUnsigned t.width t.max) :
    (if (bits == 0) = true then (Except.ok 0 : Except (ℕ × ℕ × ℕ × ℕ) ℕ)
      else if decide (Ruint.Gen.uint_bit_len f bits (nlimbs bits) l > cap) = true then
        Except.error (0, bits, l.getD 0 0, mx)
      else Except.ok (l.getD 0 0)) = toPat t (toInt t bits l) := by
  have hw : l.getD 0 0 < 2 ^ 64 := getD_lt_W l hl.2.1 0
  rw [← shape_eq t bits hN l hl f hf cap mx hcap hmx, ht, Nat.mod_eq_of_lt hw]

theorem i8_try_from_uint_eq (bits : ℕ) (hN : nlimbs bits < 2 ^ 57) (l : List ℕ) (hl : Canon bits l) (f : ℕ)
    (hf : nlimbs bits < f) :
    Ruint.Gen.i8_try_from_uint f bits (nlimbs bits) l = toPat ⟨8, true⟩ (Ruint.Conv.toInt ⟨8, true⟩ bits l) := by
  unfold Ruint.Gen.i8_try_from_uint
  exact shape_eq ⟨8, true⟩ bits hN l hl f hf _ _ (by decide) (by decide)

theorem u8_try_from_uint_eq (bits : ℕ) (hN : nlimbs bits < 2 ^ 57) (l : List ℕ) (hl : Canon bits l) (f : ℕ)
    (hf : nlimbs bits < f) :
    Ruint.Gen.u8_try_from_uint f bits (nlimbs bits) l = toPat ⟨8, false⟩ (Ruint.Conv.toInt ⟨8, false⟩ bits l) := by
  unfold Ruint.Gen.u8_try_from_uint
  exact shape_eq ⟨8, false⟩ bits hN l hl f hf _ _ (by decide) (by decide)

theorem i16_try_from_uint_eq (bits : ℕ) (hN : nlimbs bits < 2 ^ 57) (l : List ℕ) (hl : Canon bits l) (f : ℕ)
    (hf : nlimbs bits < f) :
    Ruint.Gen.i16_try_from_uint f bits (nlimbs bits) l = toPat ⟨16, true⟩ (Ruint.Conv.toInt ⟨16, true⟩ bits l) := by
  unfold Ruint.Gen.i16_try_from_uint
  exact shape_eq ⟨16, true⟩ bits hN l hl f hf _ _ (by decide) (by decide)

theorem u16_try_from_uint_eq (bits : ℕ) (hN : nlimbs bits < 2 ^ 57) (l : List ℕ) (hl : Canon bits l) (f : ℕ)
    (hf : nlimbs bits < f) :
    Ruint.Gen.u16_try_from_uint f bits (nlimbs bits) l = toPat ⟨16, false⟩ (Ruint.Conv.toInt ⟨16, false⟩ bits l) := by
  unfold Ruint.Gen.u16_try_from_uint
  exact shape_eq ⟨16, false⟩ bits hN l hl f hf _ _ (by decide) (by decide)

theorem i32_try_from_uint_eq (bits : ℕ) (hN : nlimbs bits < 2 ^ 57) (l : List ℕ) (hl : Canon bits l) (f : ℕ)
    (hf : nlimbs bits < f) :
    Ruint.Gen.i32_try_from_uint f bits (nlimbs bits) l = toPat ⟨32, true⟩ (Ruint.Conv.toInt ⟨32, true⟩ bits l) := by
  unfold Ruint.Gen.i32_try_from_uint
  exact shape_eq ⟨32, true⟩ bits hN l hl f hf _ _ (by decide) (by decide)

theorem u32_try_from_uint_eq (bits : ℕ) (hN : nlimbs bits < 2 ^ 57) (l : List ℕ) (hl : Canon bits l) (f : ℕ)
    (hf : nlimbs bits < f) :
    Ruint.Gen.u32_try_from_uint f bits (nlimbs bits) l = toPat ⟨32, false⟩ (Ruint.Conv.toInt ⟨32, false⟩ bits l) := by
  unfold Ruint.Gen.u32_try_from_uint
  exact shape_eq ⟨32, false⟩ bits hN l hl f hf _ _ (by decide) (by decide)

theorem i64_try_from_uint_eq (bits : ℕ) (hN : nlimbs bits < 2 ^ 57) (l : List ℕ) (hl : Canon bits l) (f : ℕ)
    (hf : nlimbs bits < f) :
    Ruint.Gen.i64_try_from_uint f bits (nlimbs bits) l = toPat ⟨64, true⟩ (Ruint.Conv.toInt ⟨64, true⟩ bits l) := by
  unfold Ruint.Gen.i64_try_from_uint
  exact shape64_eq ⟨64, true⟩ rfl bits hN l hl f hf _ _ (by decide) (by decide)

theorem u64_try_from_uint_eq (bits : ℕ) (hN : nlimbs bits < 2 ^ 57) (l : List ℕ) (hl : Canon bits l) (f : ℕ)
    (hf : nlimbs bits < f) :
    Ruint.Gen.u64_try_from_uint f bits (nlimbs bits) l = toPat ⟨64, false⟩ (Ruint.Conv.toInt ⟨64, false⟩ bits l) := by
  unfold Ruint.Gen.u64_try_from_uint
  exact shape64_eq ⟨64, false⟩ rfl bits hN l hl f hf _ _ (by decide) (by decide)

theorem isize_try_from_uint_eq (bits : ℕ) (hN : nlimbs bits < 2 ^ 57) (l : List ℕ) (hl : Canon bits l) (f : ℕ)
    (hf : nlimbs bits < f) :
    Ruint.Gen.isize_try_from_uint f bits (nlimbs bits) l = toPat ⟨64, true⟩ (Ruint.Conv.toInt ⟨64, true⟩ bits l) := by
  unfold Ruint.Gen.isize_try_from_uint
  exact shape64_eq ⟨64, true⟩ rfl bits hN l hl f hf _ _ (by decide) (by decide)

theorem usize_try_from_uint_eq (bits : ℕ) (hN : nlimbs bits < 2 ^ 57) (l : List ℕ) (hl : Canon bits l) (f : ℕ)
    (hf : nlimbs bits < f) :
    Ruint.Gen.usize_try_from_uint f bits (nlimbs bits) l = toPat ⟨64, false⟩ (Ruint.Conv.toInt ⟨64, false⟩ bits l) := by
  unfold Ruint.Gen.usize_try_from_uint
  exact shape64_eq ⟨64, false⟩ rfl bits hN l hl f hf _ _ (by decide) (by decide)

/-! ### `u128` / `i128` -/

theorem lor_wshl (a b : ℕ) (ha : a < 2 ^ 64) (hb : b < 2 ^ 64) :
    a ||| Rs.wshl 128 b 64 = a + W * b := by
  unfold Rs.wshl
  have h : b * 2 ^ 64 < 2 ^ 128 := by omega
  rw [Nat.mod_eq_of_lt h, Nat.lor_comm, Nat.mul_comm b, Bits.lor_eq_add 64 b a ha, Nat.add_comm]
  rfl

theorem shape128_eq (t : Prim) (ht : t.width = 128) (bits : ℕ) (hN : nlimbs bits < 2 ^ 57) (l : List ℕ)
    (hl : Canon bits l) (f : ℕ) (hf : nlimbs bits < f) (cap mx : ℕ)
    (hcap : cap = if t.signed then 127 else 128) (hmx : mx = asUnsigned t.width t.max) :
    (if (bits == 0) = true then (Except.ok 0 : Except (ℕ × ℕ × ℕ × ℕ) ℕ)
      else if decide (bits ≤ 64) = true then Except.ok (l.getD 0 0)
      else if decide (Ruint.Gen.uint_bit_len f bits (nlimbs bits) l > cap) = true then
        Except.error (0, bits, l.getD 0 0 ||| Rs.wshl 128 (l.getD 1 0) 64, mx)
      else Except.ok (l.getD 0 0 ||| Rs.wshl 128 (l.getD 1 0) 64)) = toPat t (toInt128 t bits l) := by
  have h0 : l.getD 0 0 < 2 ^ 64 := getD_lt_W l hl.2.1 0
  have h1 : l.getD 1 0 < 2 ^ 64 := getD_lt_W l hl.2.1 1
  have e0 : l.getD 0 0 % 2 ^ t.width = l.getD 0 0 := by
    rw [ht]; exact Nat.mod_eq_of_lt (by omega)
  have e1 : (l.getD 0 0 + W * l.getD 1 0) % 2 ^ t.width = l.getD 0 0 + W * l.getD 1 0 := by
    rw [ht]; apply Nat.mod_eq_of_lt; unfold W; omega
  rw [GenBits.bit_len_eq bits hN l hl f hf, lor_wshl _ _ h0 h1, hcap, hmx]
  simp only [toInt128, limb, beq_iff_eq, decide_eq_true_eq]
  by_cases hb0 : bits = 0
  · simp [hb0, toPat, asUnsigned]
  · rw [if_neg hb0, if_neg hb0]
    by_cases hb1 : bits ≤ 64
    · rw [if_pos hb1, if_pos hb1]; simp only [toPat, asUnsigned_castTo, e0]
    · rw [if_neg hb1, if_neg hb1]
      by_cases h : Bits.bitLen bits l > (if t.signed then 127 else 128)
      · rw [if_pos h, if_pos h]; simp only [toPat, asUnsigned_castTo, e1]
      · rw [if_neg h, if_neg h]; simp only [toPat, asUnsigned_castTo, e1]

theorem u128_try_from_uint_eq (bits : ℕ) (hN : nlimbs bits < 2 ^ 57) (l : List ℕ) (hl : Canon bits l) (f : ℕ)
    (hf : nlimbs bits < f) :
    Ruint.Gen.u128_try_from_uint f bits (nlimbs bits) l =
      toPat ⟨128, false⟩ (Ruint.Conv.toInt128 ⟨128, false⟩ bits l) := by
  unfold Ruint.Gen.u128_try_from_uint
  exact shape128_eq ⟨128, false⟩ rfl bits hN l hl f hf _ _ (by decide) (by decide)

theorem i128_try_from_uint_eq (bits : ℕ) (hN : nlimbs bits < 2 ^ 57) (l : List ℕ) (hl : Canon bits l) (f : ℕ)
    (hf : nlimbs bits < f) :
    Ruint.Gen.i128_try_from_uint f bits (nlimbs bits) l =
      toPat ⟨128, true⟩ (Ruint.Conv.toInt128 ⟨128, true⟩ bits l) := by
  unfold Ruint.Gen.i128_try_from_uint
  exact shape128_eq ⟨128, true⟩ rfl bits hN l hl f hf _ _ (by decide) (by decide)

/-! ### `bool` -/

theorem toPatB_ok (x : ℕ) :
    (Except.ok (x != 0) : Except (ℕ × ℕ × Bool × Bool) Bool) = toPatB (.ok (if x ≠ 0 then 1 else 0)) := by
  by_cases hz : x = 0
  · simp [toPatB, hz]
  · simp [toPatB, hz]

theorem bool_try_from_uint_eq (bits : ℕ) (hN : nlimbs bits < 2 ^ 57) (l : List ℕ) (hl : Canon bits l) (f : ℕ)
    (hf : nlimbs bits < f) :
    Ruint.Gen.bool_try_from_uint f bits (nlimbs bits) l = toPatB (Ruint.Conv.toBool bits l) := by
  unfold Ruint.Gen.bool_try_from_uint
  rw [GenBits.bit_len_eq bits hN l hl f hf, GenBits.bit_eq]
  simp only [Ruint.Conv.toBool, limb, beq_iff_eq, decide_eq_true_eq]
  by_cases hb0 : bits = 0
  · simp [hb0, toPatB]
  · rw [if_neg hb0, if_neg hb0]
    by_cases h : Bits.bitLen bits l > 1
    · rw [if_pos h, if_pos h]
      have hbit : Bits.bit bits l 0 = (((l.getD 0 0 % 2 : ℕ) : ℤ) != 0) := by
        unfold Bits.bit
        have : ¬ 0 ≥ bits := by omega
        rw [if_neg this]
        simp only [Nat.zero_div, Nat.zero_mod, pow_zero, Nat.and_one_is_mod]
        rcases Nat.mod_two_eq_zero_or_one (l.getD 0 0) with e | e <;> rw [e] <;> rfl
      simp only [toPatB, hbit]
      rfl
    · rw [if_neg h, if_neg h]
      exact toPatB_ok _

end Ruint.GenConv
