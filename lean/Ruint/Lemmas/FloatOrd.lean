import Ruint.Lemmas.FloatTo5
import Ruint.Lemmas.FloatCmp

/-! Non-negative finite bit patterns are ordered like the floats they denote; monotonicity of
    `fN::from(&Uint)` in the IEEE order. -/
namespace Ruint.Float

/-- value of a non-negative finite pattern scaled by `2^(-qmin)`. -/
def scaledVal (f : Fmt) (x : ℕ) : ℕ :=
  if x / 2 ^ f.mb = 0 then x % 2 ^ f.mb else (2 ^ f.mb + x % 2 ^ f.mb) * 2 ^ (x / 2 ^ f.mb - 1)

theorem scaledVal_strictMono (f : Fmt) (x y : ℕ) (h : x < y) : scaledVal f x < scaledVal f y := by
  have hp : 0 < 2 ^ f.mb := by positivity
  obtain ⟨B, hB⟩ : ∃ B, B = x / 2 ^ f.mb := ⟨_, rfl⟩
  obtain ⟨F, hF⟩ : ∃ F, F = x % 2 ^ f.mb := ⟨_, rfl⟩
  obtain ⟨B', hB'⟩ : ∃ B', B' = y / 2 ^ f.mb := ⟨_, rfl⟩
  obtain ⟨F', hF'⟩ : ∃ F', F' = y % 2 ^ f.mb := ⟨_, rfl⟩
  have hFl : F < 2 ^ f.mb := by rw [hF]; exact Nat.mod_lt _ hp
  have hFl' : F' < 2 ^ f.mb := by rw [hF']; exact Nat.mod_lt _ hp
  have hx : x = 2 ^ f.mb * B + F := by rw [hB, hF]; exact (Nat.div_add_mod x _).symm
  have hy : y = 2 ^ f.mb * B' + F' := by rw [hB', hF']; exact (Nat.div_add_mod y _).symm
  have hBB : B ≤ B' := by rw [hB, hB']; exact Nat.div_le_div_right (le_of_lt h)
  unfold scaledVal
  rw [← hB, ← hF, ← hB', ← hF']
  rcases Nat.lt_or_ge B B' with hlt | hge
  · -- lower binade
    have hB'0 : ¬ B' = 0 := by omega
    rw [if_neg hB'0]
    have hlow : 2 ^ f.mb * 2 ^ (B' - 1) ≤ (2 ^ f.mb + F') * 2 ^ (B' - 1) :=
      Nat.mul_le_mul_right _ (Nat.le_add_right _ _)
    by_cases hB0 : B = 0
    · rw [if_pos hB0]
      have : 2 ^ f.mb * 1 ≤ 2 ^ f.mb * 2 ^ (B' - 1) := Nat.mul_le_mul_left _ (Nat.one_le_two_pow)
      omega
    · rw [if_neg hB0]
      have h1 : (2 ^ f.mb + F) * 2 ^ (B - 1) < (2 * 2 ^ f.mb) * 2 ^ (B - 1) :=
        Nat.mul_lt_mul_of_pos_right (by omega) (by positivity)
      have h2 : (2 * 2 ^ f.mb) * 2 ^ (B - 1) = 2 ^ f.mb * 2 ^ B := by
        have : B = (B - 1) + 1 := by omega
        conv_rhs => rw [this, pow_succ]
        ring
      have h3 : 2 ^ f.mb * 2 ^ B ≤ 2 ^ f.mb * 2 ^ (B' - 1) :=
        Nat.mul_le_mul_left _ (Nat.pow_le_pow_right (by norm_num) (by omega))
      omega
  · have hBe : B = B' := le_antisymm hBB hge
    subst hBe
    have hFF : F < F' := by omega
    by_cases hB0 : B = 0
    · rw [if_pos hB0, if_pos hB0]; exact hFF
    · rw [if_neg hB0, if_neg hB0]
      exact Nat.mul_lt_mul_of_pos_right (by omega) (by positivity)

/-- decoding a non-negative finite pattern: mantissa/exponent with `m · 2^(e - qmin) = scaledVal`. -/
theorem decode_scaled (f : Fmt) (hf : f.Ok) (x : ℕ) (hx : x < f.infBits) :
    ∃ m e, decode f x = .fin false m e ∧ f.qmin ≤ e ∧ m * 2 ^ (e - f.qmin).toNat = scaledVal f x := by
  have hp : 0 < 2 ^ f.mb := by positivity
  have hE := f.emaxB_eq hf
  have hT := (f.two_bias hf).1
  obtain ⟨B, hB⟩ : ∃ B, B = x / 2 ^ f.mb := ⟨_, rfl⟩
  obtain ⟨F, hF⟩ : ∃ F, F = x % 2 ^ f.mb := ⟨_, rfl⟩
  have hFl : F < 2 ^ f.mb := by rw [hF]; exact Nat.mod_lt _ hp
  have hxe : x = B * 2 ^ f.mb + F := by rw [hB, hF, Nat.mul_comm]; exact (Nat.div_add_mod x _).symm
  have hBlt : B < f.emaxB := by
    rw [hB, Nat.div_lt_iff_lt_mul hp]; exact hx
  unfold scaledVal
  rw [← hB, ← hF]
  by_cases hB0 : B = 0
  · rw [if_pos hB0]
    refine ⟨F, f.qmin, ?_, le_refl _, by simp⟩
    -- subnormal / zero
    have h2 : B % 2 ^ f.eb = B := Nat.mod_eq_of_lt (by omega)
    have h4 : x / 2 ^ (f.mb + f.eb) = 0 := by
      rw [pow_add, ← Nat.div_div_eq_div_mul, ← hB]; exact Nat.div_eq_of_lt (by omega)
    unfold decode
    simp only [← hB, ← hF, h2, h4]
    rw [if_neg (by omega), if_pos hB0]
    simp
  · rw [if_neg hB0]
    have := decode_normal f hf B F (by omega) hBlt hFl
    rw [← hxe] at this
    refine ⟨_, _, this, by omega, ?_⟩
    congr 2
    omega

/-- non-negative finite patterns are ordered like the floats they denote (IEEE `<=` of the model). -/
theorem pattern_le (f : Fmt) (hf : f.Ok) (x y : ℕ) (hx : x < f.infBits) (hy : y < f.infBits) (h : x ≤ y) :
    (decode f x).le (decode f y) = true := by
  obtain ⟨m1, e1, d1, q1, s1⟩ := decode_scaled f hf x hx
  obtain ⟨m2, e2, d2, q2, s2⟩ := decode_scaled f hf y hy
  have hs : scaledVal f x ≤ scaledVal f y := by
    rcases Nat.lt_or_ge x y with hlt | hge
    · exact le_of_lt (scaledVal_strictMono f x y hlt)
    · have : x = y := le_antisymm h hge
      rw [this]
  rw [d1, d2]
  simp only [Dec.le, sInt, Bool.false_eq_true, if_false, decide_eq_true_eq, Nat.cast_le]
  rw [← s1, ← s2] at hs
  have hc : f.qmin ≤ min e1 e2 := le_min q1 q2
  have a1 : (e1 - f.qmin).toNat = (e1 - min e1 e2).toNat + (min e1 e2 - f.qmin).toNat := by omega
  have a2 : (e2 - f.qmin).toNat = (e2 - min e1 e2).toNat + (min e1 e2 - f.qmin).toNat := by omega
  rw [a1, a2] at hs
  exact (scaled_le_iff _ _ _ _ _).mp hs


theorem decode_infBits (f : Fmt) (hf : f.Ok) : decode f f.infBits = .inf false := by
  have hp0 : 0 < 2 ^ f.mb := by positivity
  have hE2 := f.emaxB_eq hf
  have hT := (f.two_bias hf).1
  unfold decode Fmt.infBits
  have h1 : f.emaxB * 2 ^ f.mb % 2 ^ f.mb = 0 := Nat.mul_mod_left _ _
  have h2 : f.emaxB * 2 ^ f.mb / 2 ^ f.mb = f.emaxB := Nat.mul_div_cancel _ hp0
  have h3 : f.emaxB % 2 ^ f.eb = f.emaxB := Nat.mod_eq_of_lt (by omega)
  have h4 : f.emaxB * 2 ^ f.mb / 2 ^ (f.mb + f.eb) = 0 := by
    rw [pow_add, ← Nat.div_div_eq_div_mul, h2]; exact Nat.div_eq_of_lt (by omega)
  simp [h1, h2, h3, h4]

theorem toFloatV_le_inf (f : Fmt) (hw : f.Wide) (v : ℕ) : toFloatV f v ≤ f.infBits := by
  rcases Nat.eq_zero_or_pos v with h | h
  · subst h; rw [toFloatV_zero f hw.1]; exact Nat.zero_le _
  · rw [toFloatV_closed f hw v h]; exact min_le_left _ _

/-- **monotonicity in the order of the floats**: `v ≤ w → f(v) <= f(w)` as IEEE values (`+∞` on top). -/
theorem toFloatV_mono_le (f : Fmt) (hw : f.Wide) (v w : ℕ) (h : v ≤ w) :
    (decode f (toFloatV f v)).le (decode f (toFloatV f w)) = true := by
  have hm := toFloatV_mono f hw v w h
  have hv := toFloatV_le_inf f hw v
  have hwi := toFloatV_le_inf f hw w
  rcases Nat.lt_or_ge (toFloatV f w) f.infBits with hlt | hge
  · exact pattern_le f hw.1 _ _ (by omega) hlt hm
  · have hwe : toFloatV f w = f.infBits := le_antisymm hwi hge
    rw [hwe, decode_infBits f hw.1]
    rcases Nat.lt_or_ge (toFloatV f v) f.infBits with hlt' | hge'
    · obtain ⟨m, e, d, _, _⟩ := decode_scaled f hw.1 _ hlt'
      rw [d]; rfl
    · have hve : toFloatV f v = f.infBits := le_antisymm hv hge'
      rw [hve, decode_infBits f hw.1]; rfl

end Ruint.Float
