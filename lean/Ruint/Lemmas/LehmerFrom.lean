import Ruint.Lemmas.LehmerPacked
import Ruint.Lemmas.LehmerApply
import Mathlib.Data.Nat.Log

/-! # `Matrix::from`: prefix extraction glue, and the matrix contract for the real (packed) model

* `bitLen` facts; `fromU128Prefix r0 r1 = fromU64Prefix (r0 / K) (r1 / K)` with `K = 2^(bitLen r0 - 64)`;
  `matFrom a b = fromU64Prefix (a / K) (b / K)`, `K = 2^(bitLen a - 64)`, whenever `bitLen a > 64`
  (so `a = a0·K + α`, `b = a1·K + β` with `0 ≤ α, β < K` and `2^63 ≤ a0 < 2^64`);
* `prefix_good`: a matrix valid for every completion (`Lh.Valid`) with monotone rows meets `good a b`;
* `matFrom_contract`: **for every `a ≥ b > 0` the real `Matrix::from` model is total and its result is the identity or
  meets the contract** — the hypothesis `OracleOK` of the `gcd`/`gcd_extended`/`lcm` theorems, discharged. -/
namespace Ruint.Lehmer
open Ruint Ruint.Lh

theorem bitLen_pos_range (x : ℕ) (hx : x ≠ 0) : 2 ^ (bitLen x - 1) ≤ x ∧ x < 2 ^ bitLen x ∧ 1 ≤ bitLen x := by
  unfold bitLen
  rw [if_neg hx, Nat.add_sub_cancel]
  exact ⟨Nat.log2_self_le hx, Nat.lt_log2_self, by omega⟩

theorem bitLen_eq_of_range (x n : ℕ) (h1 : 2 ^ n ≤ x) (h2 : x < 2 ^ (n + 1)) : bitLen x = n + 1 := by
  have hx : x ≠ 0 := by have := Nat.pow_pos (n := n) (by norm_num : 0 < 2); omega
  unfold bitLen
  rw [if_neg hx, (Nat.log2_eq_iff hx).2 ⟨h1, h2⟩]

/-- dividing by `2^k` drops `k` bits. -/
theorem div_pow_range (a s k : ℕ) (hk : k < s) (h1 : 2 ^ (s - 1) ≤ a) (h2 : a < 2 ^ s) :
    2 ^ (s - k - 1) ≤ a / 2 ^ k ∧ a / 2 ^ k < 2 ^ (s - k) := by
  have hp : 0 < 2 ^ k := Nat.pow_pos (by norm_num)
  constructor
  · rw [Nat.le_div_iff_mul_le hp, ← Nat.pow_add]
    have : s - k - 1 + k = s - 1 := by omega
    rw [this]; exact h1
  · rw [Nat.div_lt_iff_lt_mul hp, ← Nat.pow_add]
    have : s - k + k = s := by omega
    rw [this]; exact h2

/-- `from_u128_prefix` normalises and takes the two top words: these are `r0 / K`, `r1 / K`. -/
theorem fromU128Prefix_eq (r0 r1 n : ℕ) (hn : bitLen r0 = n) (h64 : 64 ≤ n) (h128 : n ≤ 128) (hle : r1 ≤ r0) :
    fromU128Prefix r0 r1 = fromU64Prefix (r0 / 2 ^ (n - 64)) (r1 / 2 ^ (n - 64))
    ∧ 2 ^ 63 ≤ r0 / 2 ^ (n - 64) ∧ r0 / 2 ^ (n - 64) < W := by
  have hr0 : r0 ≠ 0 := by
    intro h0; rw [h0] at hn; simp [bitLen] at hn; omega
  obtain ⟨l1, l2, _⟩ := bitLen_pos_range r0 hr0
  rw [hn] at l1 l2
  have hs : (128 - n) + (n - 64) = 64 := by omega
  have hp : 0 < 2 ^ (128 - n) := Nat.pow_pos (by norm_num)
  have e64 : 2 ^ 64 = 2 ^ (n - 64) * 2 ^ (128 - n) := by rw [← Nat.pow_add]; congr 1; omega
  have e128 : 2 ^ 128 = 2 ^ n * 2 ^ (128 - n) := by rw [← Nat.pow_add]; congr 1; omega
  have m0 : r0 * 2 ^ (128 - n) < 2 ^ 128 := by rw [e128]; exact Nat.mul_lt_mul_of_pos_right l2 hp
  have m1 : r1 * 2 ^ (128 - n) < 2 ^ 128 := lt_of_le_of_lt (Nat.mul_le_mul_right _ hle) m0
  have d0 : r0 * 2 ^ (128 - n) / 2 ^ 64 = r0 / 2 ^ (n - 64) := by rw [e64, Nat.mul_div_mul_right _ _ hp]
  have d1 : r1 * 2 ^ (128 - n) / 2 ^ 64 = r1 / 2 ^ (n - 64) := by rw [e64, Nat.mul_div_mul_right _ _ hp]
  rcases Nat.lt_or_ge 64 n with h | h
  · obtain ⟨q1, q2⟩ := div_pow_range r0 n (n - 64) (by omega) l1 l2
    have e63 : n - (n - 64) - 1 = 63 := by omega
    have e64' : n - (n - 64) = 64 := by omega
    rw [e63] at q1
    rw [e64'] at q2
    have q2 : r0 / 2 ^ (n - 64) < W := q2
    have q3 : r1 / 2 ^ (n - 64) < W := lt_of_le_of_lt (Nat.div_le_div_right hle) q2
    refine ⟨?_, q1, q2⟩
    unfold fromU128Prefix
    rw [if_neg (by omega), if_neg hr0, hn]
    simp only [Nat.mod_eq_of_lt m0, Nat.mod_eq_of_lt m1, d0, d1]
    rw [Nat.mod_eq_of_lt q2, Nat.mod_eq_of_lt q3]
  · have hn64 : n = 64 := by omega
    subst hn64
    simp only [Nat.sub_self, Nat.pow_zero, Nat.div_one] at d0 d1 ⊢
    have q2 : r0 < W := l2
    have q3 : r1 < W := lt_of_le_of_lt hle q2
    refine ⟨?_, l1, q2⟩
    unfold fromU128Prefix
    rw [if_neg (by omega), if_neg hr0, hn]
    simp only [Nat.mod_eq_of_lt m0, Nat.mod_eq_of_lt m1, d0, d1]
    rw [Nat.mod_eq_of_lt q2, Nat.mod_eq_of_lt q3]

/-- `Matrix::from` on a value longer than one word: the top 64 bits of `a` and the aligned bits of `b`. -/
theorem matFrom_prefix (a b : ℕ) (hle : b ≤ a) (hs : 64 < bitLen a) :
    matFrom a b = fromU64Prefix (a / 2 ^ (bitLen a - 64)) (b / 2 ^ (bitLen a - 64))
    ∧ 2 ^ 63 ≤ a / 2 ^ (bitLen a - 64) ∧ a / 2 ^ (bitLen a - 64) < W := by
  have ha : a ≠ 0 := by
    intro h0; rw [h0] at hs; simp [bitLen] at hs
  obtain ⟨l1, l2, _⟩ := bitLen_pos_range a ha
  obtain ⟨s, hsd⟩ : ∃ s, s = bitLen a := ⟨_, rfl⟩
  rw [← hsd] at l1 l2 hs ⊢
  unfold matFrom
  rw [if_neg (by omega), ← hsd]
  simp only
  rw [if_neg (Nat.not_le.mpr hs)]
  by_cases h128 : s ≤ 128
  · rw [if_pos h128]
    exact fromU128Prefix_eq a b s hsd.symm (by omega) h128 hle
  · rw [if_neg h128]
    have ek : 2 ^ (s - 128) * 2 ^ (128 - 64) = 2 ^ (s - 64) := by rw [← Nat.pow_add]; congr 1; omega
    have e127 : s - (s - 128) - 1 = 127 := by omega
    have e128 : s - (s - 128) = 128 := by omega
    obtain ⟨q1, q2⟩ := div_pow_range a s (s - 128) (by omega) l1 l2
    rw [e127] at q1
    rw [e128] at q2
    have hbl : bitLen (a / 2 ^ (s - 128)) = 128 := bitLen_eq_of_range _ 127 q1 q2
    obtain ⟨r1, r2, r3⟩ := fromU128Prefix_eq (a / 2 ^ (s - 128)) (b / 2 ^ (s - 128)) 128 hbl (by norm_num)
      (by norm_num) (Nat.div_le_div_right hle)
    rw [Nat.div_div_eq_div_mul, Nat.div_div_eq_div_mul, ek] at r1
    rw [Nat.div_div_eq_div_mul, ek] at r2 r3
    exact ⟨r1, r2, r3⟩

/-- a matrix that is valid for every completion of the prefixes, with monotone rows, meets the contract on the
    completed pair. -/
theorem prefix_good (a0 a1 K α β : ℕ) (m : Mat) (hv : Valid a0 a1 m) (hm2 : 1 ≤ m.2.2.1)
    (hr0 : m.1 ≤ m.2.2.1) (hr1 : m.2.1 ≤ m.2.2.2.1) (hK : 1 ≤ K) (hα : α < K) (hβ : β < K) :
    good (a0 * K + α) (a1 * K + β) m = true := by
  obtain ⟨m0, m1, m2, m3, ev⟩ := m
  obtain ⟨hdet, hall⟩ := hv
  have h := hall K α β (by exact_mod_cast hK) (by positivity) (by exact_mod_cast hα) (by positivity)
    (by exact_mod_cast hβ)
  simp only at hdet h hm2 hr0 hr1
  rw [good_iff]
  obtain ⟨A, hA⟩ : ∃ A : ℤ, A = (a0 : ℤ) * K + α := ⟨_, rfl⟩
  obtain ⟨B, hB⟩ : ∃ B : ℤ, B = (a1 : ℤ) * K + β := ⟨_, rfl⟩
  have cA : (((a0 * K + α : ℕ)) : ℤ) = A := by rw [hA]; push_cast; ring
  have cB : (((a1 * K + β : ℕ)) : ℤ) = B := by rw [hB]; push_cast; ring
  rw [← hA, ← hB] at h
  have p0 : (0 : ℤ) ≤ m0 := by positivity
  have p2 : (1 : ℤ) ≤ m2 := by exact_mod_cast hm2
  cases ev
  · simp only [Bool.false_eq_true, if_false, sgn] at h hdet ⊢
    simp only [applyZ, Bool.false_eq_true, if_false, cA, cB]
    obtain ⟨hd0, hdc⟩ := h
    refine ⟨hdet, hr0, hr1, hm2, hd0, hdc, ?_⟩
    -- B = m2*c + m0*d with c > d ≥ 0, m2 ≥ 1
    obtain ⟨c, hc⟩ : ∃ c : ℤ, c = (m1 : ℤ) * B - m0 * A := ⟨_, rfl⟩
    obtain ⟨d, hd⟩ : ∃ d : ℤ, d = (m2 : ℤ) * A - m3 * B := ⟨_, rfl⟩
    rw [← hc, ← hd] at hdc
    rw [← hd] at hd0 ⊢
    have eB : B = m2 * c + m0 * d := by rw [hc, hd]; linear_combination B * hdet
    have : c ≤ m2 * c := by nlinarith
    have : 0 ≤ (m0 : ℤ) * d := mul_nonneg p0 hd0
    linarith
  · simp only [if_true, sgn] at h hdet ⊢
    simp only [applyZ, if_true, cA, cB]
    obtain ⟨hd0, hdc⟩ := h
    refine ⟨hdet, hr0, hr1, hm2, hd0, hdc, ?_⟩
    obtain ⟨c, hc⟩ : ∃ c : ℤ, c = (m0 : ℤ) * A - m1 * B := ⟨_, rfl⟩
    obtain ⟨d, hd⟩ : ∃ d : ℤ, d = (m3 : ℤ) * B - m2 * A := ⟨_, rfl⟩
    rw [← hc, ← hd] at hdc
    rw [← hd] at hd0 ⊢
    have eB : B = m2 * c + m0 * d := by rw [hc, hd]; linear_combination (-B) * hdet
    have : c ≤ m2 * c := by nlinarith
    have : 0 ≤ (m0 : ℤ) * d := mul_nonneg p0 hd0
    linarith

/-- the real (packed, twice-unrolled) `from_u64_prefix` model meets the contract for **every** completion. -/
theorem fromU64Prefix_contract (a0 a1 K α β : ℕ) (h63 : 2 ^ 63 ≤ a0) (hW : a0 < W) (hle : a1 ≤ a0)
    (hK : 1 ≤ K) (hα : α < K) (hβ : β < K) :
    ∃ m, fromU64Prefix a0 a1 = some m ∧ contract (a0 * K + α) (a1 * K + β) m = true := by
  obtain ⟨fuel, hf⟩ := fromU64Prefix_eq a0 a1 h63 hW hle
  refine ⟨_, hf, ?_⟩
  have hA : a0 < LIMIT * LIMIT := by rw [← W_eq_LL]; exact hW
  rcases prefix_valid LIMIT fuel a0 a1 LIMIT_pos hle hA with hid | ⟨hv, hm2, hr0, hr1⟩
  · rw [hid]; simp [contract]
  · have := prefix_good a0 a1 K α β _ hv hm2 hr0 hr1 hK hα hβ
    simp only [contract, this, Bool.or_true]

/-- **Theorem (matrix contract, real model).** For every `a ≥ b > 0`, `Matrix::from` does not panic and returns the
    identity or a matrix meeting the contract `good a b` (determinant `±1` matching the sign flag, non-decreasing rows,
    over ℤ `0 ≤ d < c`, `d < b` for `(c, d) = m·(a, b)`). -/
theorem matFrom_contract (a b : ℕ) (hle : b ≤ a) (hb : 0 < b) :
    ∃ m, matFrom a b = some m ∧ contract a b m = true := by
  by_cases hs : bitLen a ≤ 64
  · have ha : a ≠ 0 := by omega
    obtain ⟨_, l2, _⟩ := bitLen_pos_range a ha
    have hW : a < W := lt_of_lt_of_le l2 (Nat.pow_le_pow_right (by norm_num) hs)
    obtain ⟨m, hm, _, hg⟩ := fromU64_spec a b hle hW
    refine ⟨m, ?_, ?_⟩
    · unfold matFrom; rw [if_neg (by omega)]; simp only [hs, if_true]; exact hm
    · simp only [contract, (hg hb).1, Bool.or_true]
  · push Not at hs
    obtain ⟨e, h63, hW⟩ := matFrom_prefix a b hle hs
    obtain ⟨K, hK⟩ : ∃ K, K = 2 ^ (bitLen a - 64) := ⟨_, rfl⟩
    rw [← hK] at e h63 hW
    have hKpos : 0 < K := by rw [hK]; exact Nat.pow_pos (by norm_num)
    obtain ⟨m, hm, hc⟩ := fromU64Prefix_contract (a / K) (b / K) K (a % K) (b % K) h63 hW
      (Nat.div_le_div_right hle) hKpos (Nat.mod_lt _ hKpos) (Nat.mod_lt _ hKpos)
    rw [Nat.div_add_mod' a K, Nat.div_add_mod' b K] at hc
    exact ⟨m, by rw [e]; exact hm, hc⟩

end Ruint.Lehmer
