import Ruint.Lemmas.GenBits
import Ruint.Lemmas.GenShiftWrap
import Ruint.Lemmas.BitsRev

/-! `trailing_zeros`, `trailing_ones`, `most_significant_bits` of `src/bits.rs` as GENERATED from the source (iterator
    `position` / `rposition` with closures, `map_or`, `unwrap_or`) equal the C06 models. -/
namespace Ruint.GenBitsIter
open Ruint Ruint.Bits Ruint.GenLehmer

theorem position_eq (p : ℕ → Bool) (l : List ℕ) : Rs.position p l = Bits.position p l := by
  induction l with
  | nil => rfl
  | cons x xs ih => simp only [Rs.position, Bits.position, ih]

theorem rposition_eq (l : List ℕ) : Rs.rposition (fun x => x != 0) l = rposNonzero l := by
  induction l with
  | nil => rfl
  | cons x xs ih =>
    simp only [Rs.rposition, rposNonzero, ih]
    cases rposNonzero xs with
    | some i => rfl
    | none => by_cases hx : x = 0 <;> simp [hx]

theorem ctzAux_eq (f x : ℕ) : Rs.ctzAux f x = Bits.ctzAux f x := by
  induction f generalizing x with
  | zero => rfl
  | succ f ih => simp only [Rs.ctzAux, Bits.ctzAux, ih]

theorem ctz_eq (x : ℕ) : Rs.ctz 64 x = ctz64 x := by
  unfold Rs.ctz ctz64
  rw [ctzAux_eq]

theorem ctzAux_le (f x : ℕ) : Bits.ctzAux f x ≤ f := by
  induction f generalizing x with
  | zero => simp [Bits.ctzAux]
  | succ f ih =>
    unfold Bits.ctzAux
    split_ifs
    · omega
    · have := ih (x / 2); omega

theorem ctz64_le (x : ℕ) : ctz64 x ≤ 64 := by
  unfold ctz64; split_ifs
  · omega
  · exact ctzAux_le 64 x

theorem position_lt (p : ℕ → Bool) : ∀ (l : List ℕ) (n : ℕ), Bits.position p l = some n → n < l.length := by
  intro l
  induction l with
  | nil => intro n h; simp [Bits.position] at h
  | cons x xs ih =>
    intro n h
    unfold Bits.position at h
    by_cases hp : p x = true
    · simp [hp] at h; subst h; simp
    · simp only [hp, Bool.false_eq_true, if_false] at h
      cases hq : Bits.position p xs with
      | none => rw [hq] at h; simp at h
      | some m =>
        rw [hq] at h; simp at h; subst h
        have := ih m hq
        simp; omega

theorem trailing_zeros_eq (bits : ℕ) (hN : nlimbs bits < 2 ^ 57) (a : List ℕ) (ha : a.length = nlimbs bits) :
    Ruint.Gen.uint_trailing_zeros bits (nlimbs bits) a = trailingZeros bits a := by
  unfold Ruint.Gen.uint_trailing_zeros trailingZeros
  rw [position_eq]
  cases h : Bits.position (fun l => l != 0) a with
  | none => rfl
  | some n =>
    have hn := position_lt _ a n h
    have hc := ctz64_le (a.getD n 0)
    simp only [ctz_eq]
    have e1 : Rs.wmul 64 n 64 = n * 64 := by unfold Rs.wmul; rw [Nat.mod_eq_of_lt (by omega)]
    rw [e1]
    unfold Rs.wadd
    rw [Nat.mod_eq_of_lt (by omega)]

theorem trailing_ones_eq (bits : ℕ) (hN : nlimbs bits < 2 ^ 57) (a : List ℕ) (ha : a.length = nlimbs bits) :
    Ruint.Gen.uint_trailing_ones bits (nlimbs bits) a = trailingOnes bits a := by
  unfold Ruint.Gen.uint_trailing_ones trailingOnes
  rw [position_eq]
  have hW : (2 : ℕ) ^ 64 - 1 = W - 1 := rfl
  rw [hW]
  cases h : Bits.position (fun l => l != W - 1) a with
  | none => rfl
  | some n =>
    have hn := position_lt _ a n h
    have hc := ctz64_le (wnot (a.getD n 0))
    simp only [ctz_eq]
    have e0 : W - 1 - a.getD n 0 = wnot (a.getD n 0) := rfl
    rw [e0]
    have e1 : Rs.wmul 64 n 64 = n * 64 := by unfold Rs.wmul; rw [Nat.mod_eq_of_lt (by omega)]
    rw [e1]
    unfold Rs.wadd cto64
    rw [Nat.mod_eq_of_lt (by omega)]

theorem most_significant_bits_eq (bits : ℕ) (hN : nlimbs bits < 2 ^ 57) (a : List ℕ) (ha : a.length = nlimbs bits)
    (hw : AllLt a) :
    Ruint.Gen.uint_most_significant_bits bits (nlimbs bits) a = mostSignificantBits a := by
  unfold Ruint.Gen.uint_most_significant_bits mostSignificantBits
  rw [rposition_eq]
  have hr := rposNonzero_spec a
  generalize hf : (rposNonzero a).getD 0 = fsl at *
  have hfl : fsl = 0 ∨ fsl < a.length := by
    cases h : rposNonzero a with
    | none => rw [h] at hf; simp at hf; left; omega
    | some i => rw [h] at hr hf; simp at hf; right; rw [← hf]; exact hr.1
  by_cases h0 : fsl = 0
  · subst h0
    simp [List.headD_eq_head?_getD]
  · have hne : (fsl == 0) = false := by simp [h0]
    have hlt : fsl < a.length := by omega
    have hhi : a.getD fsl 0 < W := getD_lt a hw fsl
    have hc := Ruint.GenBits.clz64_le (a.getD fsl 0)
    have e1 : Rs.wsub 64 fsl 1 = fsl - 1 := by unfold Rs.wsub; omega
    have e2 : Rs.wmul 64 fsl 64 = fsl * 64 := by unfold Rs.wmul; rw [Nat.mod_eq_of_lt (by omega)]
    simp only [hne, Bool.false_eq_true, if_false, h0, Ruint.GenBits.clz_eq _ hhi, e1, e2]
    generalize clz64 (a.getD fsl 0) = lz at *
    have e3 : Rs.wsub 32 64 lz = 64 - lz := by unfold Rs.wsub; omega
    have e4 : Rs.wsub 64 (fsl * 64) lz = fsl * 64 - lz := by unfold Rs.wsub; omega
    have e5 : Rs.wshl 64 (a.getD fsl 0) lz = (a.getD fsl 0 * 2 ^ lz) % W := rfl
    simp only [e3, e4, e5, gt_iff_lt, decide_eq_true_eq]

/-! ### `reverse_bits` -/

theorem revAux_eq (f x acc : ℕ) : Rs.revAux f x acc = Bits.revAux f x acc := by
  induction f generalizing x acc with
  | zero => rfl
  | succ f ih => simp only [Rs.revAux, Bits.revAux, ih]

theorem rev_eq (x : ℕ) : Rs.rev 64 x = rev64 x := by
  unfold Rs.rev rev64; rw [revAux_eq]

theorem rev_step_eq (BITS LIMBS bound : ℕ) (l : List ℕ) (i : ℕ) :
    Ruint.Gen.uint_reverse_bits_step1 BITS LIMBS bound (l, i) =
      if i < bound then ((l.set i (Rs.rev 64 (l.getD i 0)), Rs.wadd 64 i 1), true) else ((l, i), false) := by
  unfold Ruint.Gen.uint_reverse_bits_step1
  simp only [decide_eq_true_eq]

theorem rev_loop_eq (BITS LIMBS n : ℕ) (hn : n < 2 ^ 64) :
    ∀ (xs p : List ℕ) (f : ℕ), p.length + xs.length = n → xs.length < f →
      Rs.loop (Ruint.Gen.uint_reverse_bits_step1 BITS LIMBS n) f (p ++ xs, p.length) = (p ++ xs.map rev64, n) := by
  intro xs
  induction xs with
  | nil =>
    intro p f h5 h6
    obtain ⟨f, rfl⟩ : ∃ g, f = g + 1 := ⟨f - 1, by simp at h6; omega⟩
    simp only [List.length_nil, Nat.add_zero] at h5
    rw [loop_succ, rev_step_eq]
    simp [h5]
  | cons x xs ih =>
    intro p f h5 h6
    obtain ⟨f, rfl⟩ : ∃ g, f = g + 1 := ⟨f - 1, by simp at h6; omega⟩
    simp only [List.length_cons] at h5 h6
    have hi : p.length < n := by omega
    have g1 : (p ++ x :: xs).getD p.length 0 = x := by simp
    have g5 : ∀ y, (p ++ x :: xs).set p.length y = (p ++ [y]) ++ xs := by intro y; simp
    have g6 : ∀ y : ℕ, Rs.wadd 64 p.length 1 = (p ++ [y]).length := by
      intro y; unfold Rs.wadd; rw [Nat.mod_eq_of_lt (by omega)]; simp
    rw [loop_succ, rev_step_eq]
    simp only [hi, if_true, g1, g5, rev_eq]
    rw [g6 (rev64 x), ih (p ++ [rev64 x]) f (by simp; omega) (by omega)]
    simp

/-- **`reverse_bits` as generated from the source** = the C06 model -/
theorem reverse_bits_eq (bits : ℕ) (hN : nlimbs bits < 2 ^ 64) (a : List ℕ) (ha : a.length = nlimbs bits) :
    Ruint.Gen.uint_reverse_bits (nlimbs bits + 1) bits (nlimbs bits) a = reverseBits bits a := by
  unfold Ruint.Gen.uint_reverse_bits reverseBits
  have hl := rev_loop_eq bits (nlimbs bits) a.reverse.length (by simp [ha]; exact hN) a.reverse [] (nlimbs bits + 1)
    (by simp) (by simp [ha])
  simp only [List.nil_append, List.length_nil] at hl
  simp only [hl]
  by_cases hm : bits % 64 = 0
  · simp [hm]
  · have hne : (bits % 64 != 0) = true := by simp [hm]
    have hsub : Rs.wsub 64 64 (bits % 64) = 64 - bits % 64 := by
      have := Nat.mod_lt bits (by norm_num : 0 < 64); unfold Rs.wsub; omega
    simp only [hne, if_true, ne_eq, hm, not_false_eq_true, hsub, Shift.shrInt, Shift.wrappingShr]
    unfold Ruint.Gen.uint_wrapping_shr
    rw [Ruint.GenShift.overflowing_shr_eq bits hN _ (by simp [ha]) _ _ (by omega)]

end Ruint.GenBitsIter
