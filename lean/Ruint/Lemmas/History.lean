import Ruint.Props.C01
import Ruint.Props.C07
import Ruint.Props.C08
import Ruint.Lemmas.Cmp
import Ruint.Lemmas.Mul
import Ruint.Props.C05
import Ruint.Props.C06
import Ruint.Model.History
import Ruint.Props.C03
import Ruint.Props.C10
import Ruint.Props.C12
import Ruint.Props.C13

/-! Closure of the canonical set under every modelled producer (`Model/History.lean`). Each case of
`eval_canon` is one reference to the producer's own specification theorem (its `Canon` conjunct). -/
namespace Ruint.History
open Ruint

/-- every register holds a canonical value -/
def AllCanon (bits : ℕ) (regs : Regs) : Prop := ∀ r ∈ regs, Canon bits r

/-- the immediates of an operation are valid Rust values (limbs are words, bytes are bytes, a primitive
    value lies in the range of its type). -/
def Op.Valid : Op → Prop
  | .wfrom _ t v | .sfrom _ t v => C07.PrimOk t ∧ t.inRange v = true
  | .wfls _ sl | .sfls _ sl => AllLt sl
  | .tryLe _ bs | .tryBe _ bs => Bytes.AllByte bs
  | .fill _ raw => AllLt raw
  | _ => True

theorem rd_canon (bits : ℕ) (regs : Regs) (h : AllCanon bits regs) (i : ℕ) : Canon bits (rd bits regs i) := by
  unfold rd
  simp only [List.getD]
  cases hi : regs[i]? with
  | none => exact (Canon.zero_spec bits).1
  | some r => exact h r (List.mem_of_getElem? hi)

theorem resOk_some {r : Canon.Res} {l : List ℕ} (h : resOk r = some l) : r = .ok l := by
  cases r <;> simp_all [resOk]

theorem wfls_canon (bits : ℕ) (sl : List ℕ) (hsl : AllLt sl) :
    ∃ l, Canon.wrappingFromLimbsSlice bits sl = .ok l ∧ Canon bits l := by
  obtain ⟨h1, h2⟩ := C07.from_limbs_slice_family_spec bits sl hsl
  by_cases h : val sl < 2 ^ bits
  · obtain ⟨l, c, _, _, _, e, _⟩ := h1 h; exact ⟨l, e, c⟩
  · obtain ⟨_, _, ⟨l, e, c, _⟩, _⟩ := h2 (by omega); exact ⟨l, e, c⟩

theorem sfls_canon (bits : ℕ) (sl : List ℕ) (hsl : AllLt sl) :
    ∃ l, Canon.saturatingFromLimbsSlice bits sl = .ok l ∧ Canon bits l := by
  obtain ⟨h1, h2⟩ := C07.from_limbs_slice_family_spec bits sl hsl
  by_cases h : val sl < 2 ^ bits
  · obtain ⟨l, c, _, _, _, _, e⟩ := h1 h; exact ⟨l, e, c⟩
  · obtain ⟨_, _, _, e⟩ := h2 (by omega); exact ⟨_, e, (Canon.max_spec bits).1⟩

theorem tryLe_canon (bits : ℕ) (bs : List ℕ) (h : Bytes.AllByte bs) (l : List ℕ)
    (e : Bytes.tryFromLeSlice bits bs = .ok l) : Canon bits l := by
  obtain ⟨h1, h2⟩ := C08.try_from_le_slice_spec bits bs h
  by_cases hc : bs.length ≤ Bytes.nbytes bits ∧ C08.ofLE bs < 2 ^ bits
  · obtain ⟨l', e', c, _⟩ := h1 hc
    rw [e] at e'; cases e'; exact c
  · rw [h2 hc] at e; cases e

theorem tryBe_canon (bits : ℕ) (bs : List ℕ) (h : Bytes.AllByte bs) (l : List ℕ)
    (e : Bytes.tryFromBeSlice bits bs = .ok l) : Canon bits l := by
  obtain ⟨h1, h2⟩ := C08.try_from_be_slice_spec bits bs h
  by_cases hc : bs.length ≤ Bytes.nbytes bits ∧ C08.ofBE bs < 2 ^ bits
  · obtain ⟨l', e', c, _⟩ := h1 hc
    rw [e] at e'; cases e'; exact c
  · rw [h2 hc] at e; cases e

theorem smul_canon (bits : ℕ) (a b : List ℕ) (ha : Canon bits a) (hb : Canon bits b) :
    Canon bits (Mul.saturatingMul bits a b) := by
  obtain ⟨h1, _, _⟩ := Mul.overflowingMul_spec bits a b ha hb
  unfold Mul.saturatingMul
  generalize Mul.overflowingMul bits a b = r at *
  obtain ⟨v, f⟩ := r
  cases f
  · exact h1
  · exact (Add.max_canon bits).1

/-- **every modelled producer maps canonical registers to a canonical value.** -/
theorem eval_canon (bits : ℕ) (regs : Regs) (h : AllCanon bits regs) (op : Op) (hv : op.Valid)
    (d : ℕ) (v : List ℕ) (e : eval bits regs op = some (d, v)) : Canon bits v := by
  have R := rd_canon bits regs h
  cases op with
  | zero d' => simp only [eval, Option.some.injEq, Prod.mk.injEq] at e; rw [← e.2]; exact (Canon.zero_spec bits).1
  | one d' =>
    obtain ⟨l, e1, c, _⟩ := Canon.one_spec bits
    simp only [eval, e1, Option.map_some, Option.some.injEq, Prod.mk.injEq] at e; rw [← e.2]; exact c
  | max d' => simp only [eval, Option.some.injEq, Prod.mk.injEq] at e; rw [← e.2]; exact (Canon.max_spec bits).1
  | wadd d' a b =>
    simp only [eval, Option.some.injEq, Prod.mk.injEq] at e; rw [← e.2]
    exact (C01.wrapping_add_spec bits _ _ (R a) (R b)).1
  | wsub d' a b =>
    simp only [eval, Option.some.injEq, Prod.mk.injEq] at e; rw [← e.2]
    exact (C01.wrapping_sub_spec bits _ _ (R a) (R b)).1
  | wneg d' a =>
    simp only [eval, Option.some.injEq, Prod.mk.injEq] at e; rw [← e.2]
    exact (C01.wrapping_neg_spec bits _ (R a)).1
  | sadd d' a b =>
    simp only [eval, Option.some.injEq, Prod.mk.injEq] at e; rw [← e.2]
    exact (C01.saturating_add_spec bits _ _ (R a) (R b)).1
  | ssub d' a b =>
    simp only [eval, Option.some.injEq, Prod.mk.injEq] at e; rw [← e.2]
    exact (C01.saturating_sub_spec bits _ _ (R a) (R b)).1
  | absdiff d' a b =>
    simp only [eval, Option.some.injEq, Prod.mk.injEq] at e; rw [← e.2]
    exact (C01.abs_diff_spec bits _ _ (R a) (R b)).1
  | min d' a b =>
    simp only [eval, Option.some.injEq, Prod.mk.injEq] at e; rw [← e.2]
    rcases (Cmp.min_spec _ _ (by rw [(R a).1, (R b).1]) (R a).2.1 (R b).2.1).1 with h' | h' <;> rw [h']
    · exact R a
    · exact R b
  | maxOf d' a b =>
    simp only [eval, Option.some.injEq, Prod.mk.injEq] at e; rw [← e.2]
    rcases (Cmp.max_spec _ _ (by rw [(R a).1, (R b).1]) (R a).2.1 (R b).2.1).1 with h' | h' <;> rw [h']
    · exact R a
    · exact R b
  | wfrom d' t x =>
    obtain ⟨l, e1, c, _⟩ := C07.wrapping_from_spec bits t hv.1 x hv.2
    simp only [eval, e1, resOk, Option.map_some, Option.some.injEq, Prod.mk.injEq] at e; rw [← e.2]; exact c
  | sfrom d' t x =>
    obtain ⟨l, e1, c, _⟩ := C07.saturating_from_spec bits t hv.1 x hv.2
    simp only [eval, e1, resOk, Option.map_some, Option.some.injEq, Prod.mk.injEq] at e; rw [← e.2]; exact c
  | wfls d' sl =>
    obtain ⟨l, e1, c⟩ := wfls_canon bits sl hv
    simp only [eval, e1, resOk, Option.map_some, Option.some.injEq, Prod.mk.injEq] at e; rw [← e.2]; exact c
  | sfls d' sl =>
    obtain ⟨l, e1, c⟩ := sfls_canon bits sl hv
    simp only [eval, e1, resOk, Option.map_some, Option.some.injEq, Prod.mk.injEq] at e; rw [← e.2]; exact c
  | via d' a w =>
    obtain ⟨m, e1, cm⟩ := wfls_canon w (rd bits regs a) (R a).2.1
    obtain ⟨l, e2, c⟩ := wfls_canon bits m cm.2.1
    simp only [eval, e1, e2, resOk, Option.map_some, Option.some.injEq, Prod.mk.injEq] at e; rw [← e.2]; exact c
  | tryLe d' bs =>
    simp only [eval, Option.map_eq_some_iff, Prod.mk.injEq] at e
    obtain ⟨l, e1, _, rfl⟩ := e
    exact tryLe_canon bits bs hv l (resOk_some e1)
  | tryBe d' bs =>
    simp only [eval, Option.map_eq_some_iff, Prod.mk.injEq] at e
    obtain ⟨l, e1, _, rfl⟩ := e
    exact tryBe_canon bits bs hv l (resOk_some e1)
  | rtLe d' a =>
    have := (C08.le_round_trip bits _ (R a)).1
    simp only [eval, Bytes.toLeBytesVec, Bytes.asLeBytes, this, resOk, Option.map_some, Option.some.injEq,
      Prod.mk.injEq] at e
    rw [← e.2]; exact R a
  | rtBe d' a =>
    have := (C08.be_round_trip bits _ (R a)).1
    simp only [eval, this, resOk, Option.map_some, Option.some.injEq, Prod.mk.injEq] at e
    rw [← e.2]; exact R a
  | rtLeTrim d' a =>
    have := (C08.le_round_trip bits _ (R a)).2.1
    simp only [eval, this, resOk, Option.map_some, Option.some.injEq, Prod.mk.injEq] at e
    rw [← e.2]; exact R a
  | rtBeTrim d' a =>
    have := (C08.be_round_trip bits _ (R a)).2.1
    simp only [eval, this, resOk, Option.map_some, Option.some.injEq, Prod.mk.injEq] at e
    rw [← e.2]; exact R a
  | fill d' raw =>
    simp only [eval, Option.some.injEq, Prod.mk.injEq] at e; rw [← e.2]
    refine (Canon.masked_spec bits _ ?_ ?_).1
    · simp
    · intro y hy
      have := List.mem_of_mem_take hy
      simp only [List.mem_append, List.mem_replicate] at this
      rcases this with h' | ⟨_, rfl⟩
      · exact hv y h'
      · exact W_pos
  | rtLimbs d' a =>
    simp only [eval, Canon.fromLimbs_canon bits _ (R a), Option.map_some, Option.some.injEq,
      Prod.mk.injEq] at e
    rw [← e.2]; exact R a
  | wmul d' a b =>
    simp only [eval, Option.some.injEq, Prod.mk.injEq] at e; rw [← e.2]
    exact (Mul.wrappingMul_spec bits _ _ (R a) (R b)).1
  | smul d' a b =>
    simp only [eval, Option.some.injEq, Prod.mk.injEq] at e; rw [← e.2]
    exact smul_canon bits _ _ (R a) (R b)
  | wshl d' a s =>
    simp only [eval, Option.some.injEq, Prod.mk.injEq] at e; rw [← e.2]
    exact (C05.wrapping_shl_spec bits _ s (R a)).1
  | wshr d' a s =>
    simp only [eval, Option.some.injEq, Prod.mk.injEq] at e; rw [← e.2]
    exact (C05.wrapping_shr_spec bits _ s (R a)).1
  | rotl d' a s =>
    simp only [eval, Option.some.injEq, Prod.mk.injEq] at e; rw [← e.2]
    exact (C05.rotate_left_spec bits _ s (R a)).1
  | rotr d' a s =>
    simp only [eval, Option.some.injEq, Prod.mk.injEq] at e; rw [← e.2]
    exact (C05.rotate_right_spec bits _ s (R a)).1
  | ashr d' a s =>
    simp only [eval, Option.some.injEq, Prod.mk.injEq] at e; rw [← e.2]
    exact (C05.arithmetic_shr_spec bits _ s (R a)).1
  | not d' a =>
    simp only [eval, Option.some.injEq, Prod.mk.injEq] at e; rw [← e.2]
    exact (C06.not_spec bits _ (R a)).1
  | and d' a b =>
    simp only [eval, Option.some.injEq, Prod.mk.injEq] at e; rw [← e.2]
    exact (C06.bitand_spec bits _ _ (R a) (R b)).1
  | or d' a b =>
    simp only [eval, Option.some.injEq, Prod.mk.injEq] at e; rw [← e.2]
    exact (C06.bitor_spec bits _ _ (R a) (R b)).1
  | xor d' a b =>
    simp only [eval, Option.some.injEq, Prod.mk.injEq] at e; rw [← e.2]
    exact (C06.bitxor_spec bits _ _ (R a) (R b)).1
  | setbit d' a i v' =>
    simp only [eval, Option.some.injEq, Prod.mk.injEq] at e; rw [← e.2]
    exact (C06.set_bit_spec bits _ i v' (R a)).1
  | revbits d' a =>
    simp only [eval, Option.some.injEq, Prod.mk.injEq] at e; rw [← e.2]
    exact (C06.reverse_bits_spec bits _ (R a)).1

  | div d' a b =>
    simp only [eval] at e
    split at e
    · simp only [Option.some.injEq, Prod.mk.injEq] at e; rw [← e.2]; exact R a
    · rename_i hz
      have hb : val (rd bits regs b) ≠ 0 := (DivU.isZero_false_iff _).1 (by simpa using hz)
      obtain ⟨q, e1, _, c⟩ := C03.wrapping_div_spec bits _ _ (R a) (R b) hb
      simp only [e1, Option.map_some, Option.some.injEq, Prod.mk.injEq] at e; rw [← e.2]; exact c
  | rem d' a b =>
    simp only [eval] at e
    split at e
    · simp only [Option.some.injEq, Prod.mk.injEq] at e; rw [← e.2]; exact R a
    · rename_i hz
      have hb : val (rd bits regs b) ≠ 0 := (DivU.isZero_false_iff _).1 (by simpa using hz)
      obtain ⟨q, e1, _, c⟩ := C03.wrapping_rem_spec bits _ _ (R a) (R b) hb
      simp only [e1, Option.map_some, Option.some.injEq, Prod.mk.injEq] at e; rw [← e.2]; exact c
  | gcd d' a b =>
    have g := C12.gcd_spec bits _ _ (R a).val_lt (R b).val_lt
    simp only [eval, g, Option.map_some, Option.some.injEq, Prod.mk.injEq] at e; rw [← e.2]
    apply canon_toLimbs
    -- gcd ≤ max a b < 2^bits (gcd 0 0 = 0)
    rcases Nat.eq_zero_or_pos (val (rd bits regs a)) with h0 | hpos
    · rw [h0, Nat.gcd_zero_left]; exact (R b).val_lt
    · exact lt_of_le_of_lt (Nat.gcd_le_left _ hpos) (R a).val_lt
  | addmod d' a b m =>
    obtain ⟨r, e1, c, _⟩ := C10.add_mod_limbs_spec bits _ _ _ (R a) (R b) (R m)
    simp only [eval, e1, Option.map_some, Option.some.injEq, Prod.mk.injEq] at e; rw [← e.2]; exact c
  | mulmod d' a b m =>
    obtain ⟨r, e1, c, _⟩ := C10.mul_mod_limbs_spec bits _ _ _ (R a) (R b) (R m)
    simp only [eval, e1, Option.map_some, Option.some.injEq, Prod.mk.injEq] at e; rw [← e.2]; exact c
  | wpow d' a x =>
    simp only [eval, Option.some.injEq, Prod.mk.injEq] at e; rw [← e.2]
    apply canon_toLimbs
    rw [C13.wrapping_pow_spec bits _ _ (R a).val_lt]
    exact Nat.mod_lt _ (by positivity)
  | npow2 d' a =>
    obtain ⟨k, hk1, hk2⟩ := C06.next_power_of_two_exists (val (rd bits regs a))
    obtain ⟨h1, h2⟩ := C06.checked_next_power_of_two_spec bits _ (R a) k hk1 hk2
    rcases Nat.lt_or_ge k bits with hk | hk
    · obtain ⟨r, e1, c, _⟩ := h1 hk
      simp only [eval, e1, Option.map_some, Option.some.injEq, Prod.mk.injEq] at e; rw [← e.2]; exact c
    · simp [eval, h2 hk] at e

theorem step_canon (bits : ℕ) (regs : Regs) (h : AllCanon bits regs) (op : Op) (hv : op.Valid) :
    AllCanon bits (step bits regs op) := by
  unfold step
  cases e : eval bits regs op with
  | none => exact h
  | some p =>
    obtain ⟨d, v⟩ := p
    have hc := eval_canon bits regs h op hv d v e
    intro r hr
    rcases List.mem_or_eq_of_mem_set hr with h' | h'
    · exact h r h'
    · rw [h']; exact hc

end Ruint.History
