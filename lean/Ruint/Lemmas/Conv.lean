import Ruint.Lemmas.Canon
import Ruint.Model.Conv
import Mathlib.Tactic.Zify
import Ruint.Lemmas.BitsRev

/-! Lemmas for `Model/Conv.lean` (C07). -/
namespace Ruint.Conv
open Ruint Ruint.Canon

theorem withLimbs_canon (bits : ℕ) (l : List ℕ) (k : List ℕ → ToRes) (h : Canon bits l) :
    withLimbs bits l k = k l := by
  unfold withLimbs; rw [fromLimbs_canon bits l h]

theorem nlimbs_le_one_iff (bits : ℕ) : nlimbs bits ≤ 1 ↔ bits ≤ 64 := by unfold nlimbs; omega
theorem nlimbs_eq_zero_iff (bits : ℕ) : nlimbs bits = 0 ↔ bits = 0 := by unfold nlimbs; omega
theorem nlimbs_eq_one_iff (bits : ℕ) : nlimbs bits = 1 ↔ 1 ≤ bits ∧ bits ≤ 64 := by
  unfold nlimbs; omega
theorem nlimbs_eq_two_iff (bits : ℕ) : nlimbs bits = 2 ↔ 65 ≤ bits ∧ bits ≤ 128 := by
  unfold nlimbs; omega

/-- for one-limb widths the mask is `2^bits − 1` -/
theorem mask_one_limb (bits : ℕ) (h1 : 1 ≤ bits) (h2 : bits ≤ 64) : mask bits + 1 = 2 ^ bits := by
  rw [mask_succ bits (by omega)]
  congr 1
  unfold topBits nlimbs; omega

theorem W_le_two_pow (bits : ℕ) (h : 64 ≤ bits) : W ≤ 2 ^ bits := by
  unfold W; exact Nat.pow_le_pow_right (by norm_num) h

theorem two_pow_dvd_W_of_le (bits : ℕ) (h : bits ≤ 64) : 2 ^ bits ∣ W := by
  unfold W; exact pow_dvd_pow 2 h

/-- `TryFrom<u64>`: accepts exactly `v < 2^bits`; otherwise `ValueTooLarge(bits, v mod 2^bits)`. -/
theorem tryFromU64_spec (bits v : ℕ) (hv : v < W) :
    (v < 2 ^ bits → ∃ l, tryFromU64 bits v = .ok l ∧ Canon bits l ∧ val l = v)
    ∧ (2 ^ bits ≤ v → ∃ l, tryFromU64 bits v = .tooLarge bits l ∧ Canon bits l ∧ val l = v % 2 ^ bits) := by
  unfold tryFromU64
  simp only
  by_cases hn : nlimbs bits ≤ 1
  · have hb64 := (nlimbs_le_one_iff bits).mp hn
    simp only [hn, if_true]
    by_cases h0 : bits = 0
    · subst h0
      have hn0 : nlimbs 0 = 0 := rfl
      have hm : mask 0 = 0 := rfl
      have hc : Canon 0 [] := ⟨rfl, AllLt.nil, by simp⟩
      simp only [hn0, hm, pow_zero, Nat.mod_one]
      constructor
      · intro h
        have : ¬ v > 0 := by omega
        simp only [this, if_false, if_true]
        exact ⟨_, rfl, (zero_spec 0).1, by rw [(zero_spec 0).2]; omega⟩
      · intro h
        have : v > 0 := by omega
        simp only [this, if_true]
        rw [if_neg (by norm_num)]
        rw [withLimbs_canon 0 [] _ hc]
        exact ⟨_, rfl, hc, rfl⟩
    · have h1 : 1 ≤ bits := by omega
      have hn1 : nlimbs bits = 1 := (nlimbs_eq_one_iff bits).mpr ⟨h1, hb64⟩
      have hm := mask_one_limb bits h1 hb64
      have hp : 0 < 2 ^ bits := by positivity
      have h2W : 2 ^ bits ≤ W := Nat.le_of_dvd W_pos (two_pow_dvd_W_of_le bits hb64)
      constructor
      · intro h
        have : ¬ v > mask bits := by omega
        simp only [this, if_false, hn1]
        rw [if_neg (by norm_num)]
        have hc : Canon bits (low1 1 v) := ⟨by rw [hn1]; rfl, low1_allLt 1 v hv, by simpa [low1] using h⟩
        rw [withLimbs_canon bits _ _ hc]
        exact ⟨_, rfl, hc, by simp [low1]⟩
      · intro h
        have : v > mask bits := by omega
        simp only [this, if_true, hn1, hm]
        have hlt : v % 2 ^ bits < 2 ^ bits := Nat.mod_lt _ hp
        have hc : Canon bits [v % 2 ^ bits] :=
          ⟨by rw [hn1]; rfl, AllLt.cons (by omega) AllLt.nil, by simpa using hlt⟩
        rw [withLimbs_canon bits _ _ hc]
        exact ⟨_, rfl, hc, by simp⟩
  · simp only [hn, if_false]
    have hb : 64 < bits := by
      by_contra hc; exact hn ((nlimbs_le_one_iff bits).mpr (by omega))
    have hfit : v < 2 ^ bits := lt_of_lt_of_le hv (W_le_two_pow bits (by omega))
    have hnpos : 0 < nlimbs bits := by omega
    have hc : Canon bits (low1 (nlimbs bits) v) :=
      ⟨low1_length _ _, low1_allLt _ _ hv, by rw [val_low1 _ _ hnpos]; exact hfit⟩
    rw [withLimbs_canon bits _ _ hc]
    exact ⟨fun _ => ⟨_, rfl, hc, val_low1 _ _ hnpos⟩, fun h => by omega⟩

theorem low2_length (n lo hi : ℕ) (hn : 2 ≤ n) : (low2 n lo hi).length = n := by
  match n, hn with
  | n + 2, _ => simp [low2]

theorem low2_allLt (n lo hi : ℕ) (h1 : lo < W) (h2 : hi < W) : AllLt (low2 n lo hi) := by
  match n with
  | 0 => exact AllLt.nil
  | 1 => exact AllLt.cons h1 AllLt.nil
  | n + 2 => exact AllLt.cons h1 (AllLt.cons h2 (allLt_replicate _ _ W_pos))

theorem val_low2 (n lo hi : ℕ) (hn : 2 ≤ n) : val (low2 n lo hi) = lo + W * hi := by
  match n, hn with
  | n + 2, _ => simp [low2, val_replicate_zero]

/-- `TryFrom<u128>` (repaired payload): accepts exactly `v < 2^bits`; otherwise
    `ValueTooLarge(bits, v mod 2^bits)`. All three arms. -/
theorem tryFromU128_spec (bits v : ℕ) (hv : v < W * W) :
    (v < 2 ^ bits → ∃ l, tryFromU128 bits v = .ok l ∧ Canon bits l ∧ val l = v)
    ∧ (2 ^ bits ≤ v → ∃ l, tryFromU128 bits v = .tooLarge bits l ∧ Canon bits l ∧ val l = v % 2 ^ bits) := by
  unfold tryFromU128 tryFromU128With
  simp only
  have hW := W_pos
  by_cases hsmall : v ≤ W - 1
  · simp only [hsmall, if_true]
    exact tryFromU64_spec bits v (by omega)
  · simp only [hsmall, if_false]
    have hvW : W ≤ v := by omega
    have hlo : v % W < W := Nat.mod_lt _ hW
    have hhi : v / W % W < W := Nat.mod_lt _ hW
    have hhi' : v / W % W = v / W := Nat.mod_eq_of_lt (by rw [Nat.div_lt_iff_lt_mul hW]; exact hv)
    have hsplit : v % W + W * (v / W) = v := Nat.mod_add_div v W
    by_cases hn : nlimbs bits < 2
    · simp only [hn, if_true]
      have hb64 : bits ≤ 64 := (nlimbs_le_one_iff bits).mp (by omega)
      have hdvd := two_pow_dvd_W_of_le bits hb64
      have h2W : 2 ^ bits ≤ W := Nat.le_of_dvd hW hdvd
      have hmm : v % W % 2 ^ bits = v % 2 ^ bits := Nat.mod_mod_of_dvd v hdvd
      obtain ⟨s1, s2⟩ := tryFromU64_spec bits (v % W) hlo
      refine ⟨fun h => by omega, fun _ => ?_⟩
      by_cases hf : v % W < 2 ^ bits
      · obtain ⟨l, e, c, hval⟩ := s1 hf
        rw [e]
        exact ⟨l, rfl, c, by rw [hval, ← hmm, Nat.mod_eq_of_lt hf]⟩
      · obtain ⟨l, e, c, hval⟩ := s2 (by omega)
        rw [e]
        exact ⟨l, rfl, c, by rw [hval, hmm]⟩
    · simp only [hn, if_false]
      have hn2 : 2 ≤ nlimbs bits := by omega
      have hbpos : 0 < bits := by
        by_contra h; have : bits = 0 := by omega
        subst this; simp [nlimbs] at hn2
      rw [hhi']
      by_cases h2 : nlimbs bits = 2
      · -- exactly two limbs: the top-limb test is the range test
        obtain ⟨m1, m2, m3⟩ := maskTop_spec bits hbpos [v % W, v / W] (by rw [h2]; rfl)
          (AllLt.cons hlo (AllLt.cons (by omega) AllLt.nil))
        have hv2 : val [v % W, v / W] = v := by simp; omega
        rw [hv2] at m2 m3
        simp only [List.getLast?_cons_cons, List.getLast?_singleton, Option.getD_some] at m3
        have hmt : maskTop bits [v % W, v / W] = [v % W, v / W % (mask bits + 1)] := rfl
        rw [hmt] at m1 m2
        simp only [h2, true_and]
        have hl2 : ∀ x, low2 2 (v % W) x = [v % W, x] := fun x => rfl
        by_cases htop : v / W > mask bits
        · simp only [htop, if_true, hl2]
          rw [withLimbs_canon bits _ _ m1]
          exact ⟨fun h => by have := m3.mp htop; omega, fun _ => ⟨_, rfl, m1, m2⟩⟩
        · simp only [htop, if_false, hl2]
          have hfit : v < 2 ^ bits := by
            by_contra hc; exact htop (m3.mpr (by omega))
          have hc : Canon bits [v % W, v / W] :=
            ⟨by rw [h2]; rfl, AllLt.cons hlo (AllLt.cons (by omega) AllLt.nil), by rw [hv2]; exact hfit⟩
          rw [withLimbs_canon bits _ _ hc]
          exact ⟨fun _ => ⟨_, rfl, hc, hv2⟩, fun h => by omega⟩
      · -- three or more limbs: a u128 always fits
        have hb : 128 < bits := by
          by_contra hc
          have : nlimbs bits ≤ 2 := by unfold nlimbs; omega
          omega
        have hfit : v < 2 ^ bits := by
          have : W * W ≤ 2 ^ bits := by
            have : W * W = 2 ^ 128 := by unfold W; norm_num
            rw [this]; exact Nat.pow_le_pow_right (by norm_num) (by omega)
          omega
        have hne : ¬ (nlimbs bits = 2 ∧ v / W > mask bits) := fun h => h2 h.1
        simp only [hne, if_false]
        have hc : Canon bits (low2 (nlimbs bits) (v % W) (v / W)) :=
          ⟨low2_length _ _ _ hn2, low2_allLt _ _ _ hlo (by omega), by
            rw [val_low2 _ _ _ hn2, hsplit]; exact hfit⟩
        rw [withLimbs_canon bits _ _ hc]
        exact ⟨fun _ => ⟨_, rfl, hc, by rw [val_low2 _ _ _ hn2, hsplit]⟩, fun h => by omega⟩

/-- unsigned sources (`as u64`, `u64`, `u128`): accept exactly `x < 2^bits`, else the wrapped payload. -/
theorem tryFromUnsigned_spec (bits w x : ℕ) (hw : w ≤ 64 ∨ w = 128) (hx : x < 2 ^ w) :
    (x < 2 ^ bits → ∃ l, tryFromUnsigned bits w x = .ok l ∧ Canon bits l ∧ val l = x)
    ∧ (2 ^ bits ≤ x →
        ∃ l, tryFromUnsigned bits w x = .tooLarge bits l ∧ Canon bits l ∧ val l = x % 2 ^ bits) := by
  unfold tryFromUnsigned
  by_cases h128 : w = 128
  · subst h128
    simp only [if_true]
    exact tryFromU128_spec bits x (by unfold W; norm_num at hx ⊢; omega)
  · simp only [h128, if_false]
    have : w ≤ 64 := by omega
    have : 2 ^ w ≤ W := by unfold W; exact Nat.pow_le_pow_right (by norm_num) this
    exact tryFromU64_spec bits x (by omega)

theorem asUnsigned_nonneg (w : ℕ) (v : ℤ) (h0 : 0 ≤ v) (h1 : v < 2 ^ w) : asUnsigned w v = v.toNat := by
  unfold asUnsigned
  rw [Int.emod_eq_of_lt h0 (by exact_mod_cast h1)]

theorem asUnsigned_lt (w : ℕ) (v : ℤ) : asUnsigned w v < 2 ^ w := by
  unfold asUnsigned
  have hp : (0 : ℤ) < 2 ^ w := by positivity
  have h1 := Int.emod_lt_of_pos v hp
  have h0 := Int.emod_nonneg v (ne_of_gt hp)
  zify
  rw [Int.toNat_of_nonneg h0]
  exact_mod_cast h1

theorem asUnsigned_cast (w : ℕ) (v : ℤ) : (asUnsigned w v : ℤ) = v % 2 ^ w := by
  unfold asUnsigned
  have hp : (0 : ℤ) < 2 ^ w := by positivity
  rw [Int.toNat_of_nonneg (Int.emod_nonneg v (ne_of_gt hp))]

/-- signed sources, negative value: always `ValueNegative(bits, payload)` with
    `payload = (value as uN) mod 2^bits`. -/
theorem tryFromSigned_neg (bits w : ℕ) (v : ℤ) (hw : w ≤ 64 ∨ w = 128) (hv : v < 0) :
    ∃ l, tryFromSigned bits w v = .negative bits l ∧ Canon bits l
      ∧ val l = asUnsigned w v % 2 ^ bits := by
  unfold tryFromSigned
  simp only [hv, if_true]
  obtain ⟨s1, s2⟩ := tryFromUnsigned_spec bits w (asUnsigned w v) hw (asUnsigned_lt w v)
  by_cases hf : asUnsigned w v < 2 ^ bits
  · obtain ⟨l, e, c, hval⟩ := s1 hf
    rw [e]
    exact ⟨l, rfl, c, by rw [hval, Nat.mod_eq_of_lt hf]⟩
  · obtain ⟨l, e, c, hval⟩ := s2 (by omega)
    rw [e]
    exact ⟨l, rfl, c, hval⟩

theorem tryFromSigned_nonneg (bits w : ℕ) (v : ℤ) (h0 : 0 ≤ v) (h1 : v < 2 ^ w) :
    tryFromSigned bits w v = tryFromUnsigned bits w v.toNat := by
  unfold tryFromSigned
  rw [if_neg (by omega), asUnsigned_nonneg w v h0 h1]

/-! ## `Uint` → primitive -/

/-- C06's limb-level `bit_len` (`BITS - leading_zeros`, with the `MASK.leading_zeros()` correction) is the number
    of significant bits of the value. -/
theorem bitLen_model (bits : ℕ) (a : List ℕ) (ha : Canon bits a) : Bits.bitLen bits a = bitLen (val a) := by
  rw [Bits.bitLen_spec bits a ha]; rfl

theorem bitLen_le_iff (v k : ℕ) : bitLen v ≤ k ↔ v < 2 ^ k := by
  unfold bitLen
  by_cases h : v = 0
  · subst h; simp
  · simp only [h, if_false]
    rw [Nat.succ_le_iff]
    exact Nat.log2_lt h

theorem bitLen_gt_iff (v k : ℕ) : bitLen v > k ↔ 2 ^ k ≤ v := by
  have := bitLen_le_iff v k
  omega

theorem limb_zero (l : List ℕ) (h : AllLt l) : limb l 0 = val l % W := by
  unfold limb
  cases l with
  | nil => simp
  | cons x xs =>
    simp only [List.getD_cons_zero, val_cons, Nat.add_mul_mod_self_left]
    rw [Nat.mod_eq_of_lt h.head]

theorem limb_zero_one (l : List ℕ) (h : AllLt l) : limb l 0 + W * limb l 1 = val l % (W * W) := by
  have hW := W_pos
  unfold limb
  match l, h with
  | [], _ => simp
  | [x], h =>
    have := h.head
    simp only [List.getD_cons_zero, List.getD_cons_succ, List.getD_nil, val_cons, val_nil]
    rw [Nat.mod_eq_of_lt (by nlinarith)]
  | x :: y :: r, h =>
    have hx := h.head
    have hy := h.tail.head
    simp only [List.getD_cons_zero, List.getD_cons_succ, val_cons]
    have : x + W * (y + W * val r) = (x + W * y) + W * W * val r := by ring
    rw [this, Nat.add_mul_mod_self_left, Nat.mod_eq_of_lt (by nlinarith)]

/-- `x as T` depends only on `x mod 2^width`. -/
theorem castTo_mod (t : Prim) (x m : ℕ) (h : 2 ^ t.width ∣ m) : castTo t (x % m) = castTo t x := by
  unfold castTo
  simp only [Nat.mod_mod_of_dvd x h]

/-- `x as T = x` when `x` is in the non-negative range of `T`. -/
theorem castTo_fits (t : Prim) (x : ℕ) (hw : 1 ≤ t.width) (h : (x : ℤ) ≤ t.max) : castTo t x = x := by
  unfold castTo Prim.max at *
  have hp : (2 : ℤ) ^ t.width = 2 * 2 ^ (t.width - 1) := by
    rw [← pow_succ']; congr 1; omega
  have hpn : (2 : ℕ) ^ t.width = 2 * 2 ^ (t.width - 1) := by
    rw [← pow_succ']; congr 1; omega
  have hpos : (0 : ℕ) < 2 ^ (t.width - 1) := by positivity
  cases hs : t.signed
  · simp only [hs, Bool.false_eq_true, if_false, Bool.false_and] at h ⊢
    have : x < 2 ^ t.width := by zify; omega
    rw [Nat.mod_eq_of_lt this]
  · simp only [hs, if_true, Bool.true_and, decide_eq_true_eq] at h ⊢
    have hlt : x < 2 ^ (t.width - 1) := by zify; omega
    have : x < 2 ^ t.width := by omega
    rw [Nat.mod_eq_of_lt this, if_neg (by omega)]

end Ruint.Conv
