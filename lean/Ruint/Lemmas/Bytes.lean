import Ruint.Lemmas.Canon
import Ruint.Model.Bytes
import Mathlib.Data.Nat.Digits.Defs

/-! Lemmas for `Model/Bytes.lean` (C08): the byte view of a limb array is the base-256 expansion of the
number; trimming gives the minimal digit string; both decode paths compute the positional value. -/
namespace Ruint.Bytes
open Ruint Ruint.Canon

def AllByte (l : List ℕ) : Prop := ∀ b ∈ l, b < 256

theorem AllByte.nil : AllByte [] := fun _ h => by simp at h
theorem AllByte.cons {b : ℕ} {l : List ℕ} (hb : b < 256) (hl : AllByte l) : AllByte (b :: l) := by
  intro y hy
  simp only [List.mem_cons] at hy
  rcases hy with rfl | hy
  · exact hb
  · exact hl y hy
theorem AllByte.head {b : ℕ} {l : List ℕ} (h : AllByte (b :: l)) : b < 256 := h b (by simp)
theorem AllByte.tail {b : ℕ} {l : List ℕ} (h : AllByte (b :: l)) : AllByte l :=
  fun y hy => h y (by simp [hy])
theorem AllByte.take {l : List ℕ} (h : AllByte l) (n : ℕ) : AllByte (l.take n) :=
  fun y hy => h y (List.mem_of_mem_take hy)
theorem AllByte.drop {l : List ℕ} (h : AllByte l) (n : ℕ) : AllByte (l.drop n) :=
  fun y hy => h y (List.mem_of_mem_drop hy)
theorem AllByte.reverse {l : List ℕ} (h : AllByte l) : AllByte l.reverse :=
  fun y hy => h y (by simpa using hy)
theorem AllByte.append {l m : List ℕ} (hl : AllByte l) (hm : AllByte m) : AllByte (l ++ m) := by
  intro y hy
  simp only [List.mem_append] at hy
  rcases hy with h | h
  · exact hl y h
  · exact hm y h

theorem W_eq_256 : W = 256 ^ 8 := by unfold W; norm_num

/-! ## `bytesLE` -/

@[simp] theorem bytesLE_length (n v : ℕ) : (bytesLE n v).length = n := by
  induction n generalizing v with
  | zero => rfl
  | succ n ih => simp [bytesLE, ih]

theorem bytesLE_allByte (n v : ℕ) : AllByte (bytesLE n v) := by
  induction n generalizing v with
  | zero => exact AllByte.nil
  | succ n ih => exact AllByte.cons (Nat.mod_lt _ (by norm_num)) (ih _)

/-- byte `i` of the encoding is `v / 256^i % 256`. -/
theorem bytesLE_getD (n v i : ℕ) (h : i < n) : (bytesLE n v).getD i 0 = v / 256 ^ i % 256 := by
  induction n generalizing v i with
  | zero => omega
  | succ n ih =>
    cases i with
    | zero => simp [bytesLE]
    | succ i =>
      simp only [bytesLE, List.getD_cons_succ]
      rw [ih (v / 256) i (by omega), Nat.div_div_eq_div_mul, pow_succ, Nat.mul_comm]

theorem wordOfLE_bytesLE (n v : ℕ) : wordOfLE (bytesLE n v) = v % 256 ^ n := by
  induction n generalizing v with
  | zero => simp [bytesLE, wordOfLE, Nat.mod_one]
  | succ n ih =>
    simp only [bytesLE, wordOfLE, ih, pow_succ]
    rw [Nat.mul_comm (256 ^ n) 256, Nat.mod_mul, Nat.add_comm]

theorem bytesLE_mod (n v : ℕ) : bytesLE n (v % 256 ^ n) = bytesLE n v := by
  induction n generalizing v with
  | zero => rfl
  | succ n ih =>
    simp only [bytesLE]
    congr 1
    · rw [pow_succ, Nat.mul_comm]; exact Nat.mod_mul_right_mod _ _ _
    · rw [pow_succ, Nat.mul_comm (256 ^ n) 256, Nat.mod_mul_right_div_self, ih]

theorem bytesLE_add (m n v : ℕ) : bytesLE (m + n) v = bytesLE m v ++ bytesLE n (v / 256 ^ m) := by
  induction m generalizing v with
  | zero => simp [bytesLE]
  | succ m ih =>
    rw [Nat.succ_add]
    simp only [bytesLE, List.cons_append, ih]
    rw [Nat.div_div_eq_div_mul, pow_succ, Nat.mul_comm]

theorem bytesLE_take (m k v : ℕ) (h : k ≤ m) : (bytesLE m v).take k = bytesLE k v := by
  obtain ⟨d, rfl⟩ := Nat.exists_eq_add_of_le h
  rw [bytesLE_add, List.take_left' (by simp)]

theorem wordOfLE_lt (bs : List ℕ) (h : AllByte bs) : wordOfLE bs < 256 ^ bs.length := by
  induction bs with
  | nil => simp [wordOfLE]
  | cons b bs ih =>
    have hb := h.head
    have := ih h.tail
    simp only [wordOfLE, List.length_cons, pow_succ]
    omega

theorem wordOfLE_append (l m : List ℕ) :
    wordOfLE (l ++ m) = wordOfLE l + 256 ^ l.length * wordOfLE m := by
  induction l with
  | nil => simp [wordOfLE]
  | cons b bs ih => simp only [List.cons_append, wordOfLE, ih, List.length_cons, pow_succ]; ring

/-- decoding inverts encoding on byte strings -/
theorem bytesLE_wordOfLE (bs : List ℕ) (h : AllByte bs) : bytesLE bs.length (wordOfLE bs) = bs := by
  induction bs with
  | nil => rfl
  | cons b bs ih =>
    have hb := h.head
    simp only [List.length_cons, bytesLE, wordOfLE]
    congr 1
    · omega
    · have : (b + 256 * wordOfLE bs) / 256 = wordOfLE bs := by omega
      rw [this, ih h.tail]

theorem wordOfBE_eq (bs : List ℕ) : wordOfBE bs = wordOfLE bs.reverse := by
  unfold wordOfBE
  induction bs using List.reverseRecOn with
  | nil => rfl
  | append_singleton init t ih =>
    rw [List.foldl_append, List.reverse_append]
    simp only [List.foldl_cons, List.foldl_nil, List.reverse_cons, List.reverse_nil, List.nil_append,
      List.cons_append, wordOfLE, ih]
    ring

/-! ## the limb array as bytes -/

theorem memBytes_eq (limbs : List ℕ) (h : AllLt limbs) :
    memBytes limbs = bytesLE (8 * limbs.length) (val limbs) := by
  induction limbs with
  | nil => rfl
  | cons x xs ih =>
    have hx := h.head
    unfold memBytes at ih ⊢
    simp only [List.flatMap_cons, List.length_cons, val_cons]
    rw [ih h.tail]
    have : 8 * (xs.length + 1) = 8 + 8 * xs.length := by ring
    rw [this, bytesLE_add]
    congr 1
    · rw [← bytesLE_mod 8 (x + W * val xs), ← W_eq_256, Nat.add_mul_mod_self_left,
        Nat.mod_eq_of_lt hx]
    · rw [← W_eq_256]
      have : (x + W * val xs) / W = val xs := by
        rw [Nat.add_mul_div_left _ _ W_pos, Nat.div_eq_of_lt hx, Nat.zero_add]
      rw [this]

theorem nbytes_le (bits : ℕ) : nbytes bits ≤ 8 * nlimbs bits := by unfold nbytes nlimbs; omega

theorem two_pow_le_256 (bits : ℕ) : 2 ^ bits ≤ 256 ^ nbytes bits := by
  have : (256 : ℕ) = 2 ^ 8 := by norm_num
  rw [this, ← pow_mul]
  exact Nat.pow_le_pow_right (by norm_num) (by unfold nbytes; omega)

/-- `as_le_slice` of a canonical value is the `BYTES`-digit little-endian base-256 expansion. -/
theorem asLeSlice_eq (bits : ℕ) (a : List ℕ) (ha : Canon bits a) :
    asLeSlice bits a = bytesLE (nbytes bits) (val a) := by
  unfold asLeSlice
  rw [memBytes_eq a ha.2.1, ha.1, bytesLE_take _ _ _ (nbytes_le bits)]

/-! ## trimming -/

theorem wordOfLE_trimEnd (l : List ℕ) : wordOfLE (trimEnd l) = wordOfLE l := by
  induction l with
  | nil => rfl
  | cons x xs ih =>
    simp only [trimEnd]
    cases h : trimEnd xs with
    | nil =>
      rw [h] at ih
      simp only [wordOfLE] at ih ⊢
      by_cases hx : x = 0
      · simp [hx, wordOfLE, ← ih]
      · simp [hx, wordOfLE, ← ih]
    | cons y ys =>
      rw [h] at ih
      simp only [wordOfLE] at ih ⊢
      rw [ih]

theorem trimEnd_getLast? (l : List ℕ) : (trimEnd l).getLast? ≠ some 0 := by
  induction l with
  | nil => simp [trimEnd]
  | cons x xs ih =>
    simp only [trimEnd]
    cases hx : trimEnd xs with
    | nil =>
      simp only
      by_cases h0 : x = 0
      · simp [h0]
      · simp [h0]
    | cons y ys =>
      simp only
      rw [hx] at ih
      rw [List.getLast?_cons_cons]
      exact ih

theorem trimEnd_getLast (l : List ℕ) (h : trimEnd l ≠ []) : (trimEnd l).getLast h ≠ 0 := by
  intro h0
  have := List.getLast?_eq_some_getLast h
  rw [h0] at this
  exact trimEnd_getLast? l this

theorem trimEnd_allByte (l : List ℕ) (h : AllByte l) : AllByte (trimEnd l) := by
  induction l with
  | nil => exact AllByte.nil
  | cons x xs ih =>
    simp only [trimEnd]
    cases hx : trimEnd xs with
    | nil =>
      simp only
      by_cases h0 : x = 0
      · simp [h0]; exact AllByte.nil
      · simp [h0]; exact AllByte.cons h.head AllByte.nil
    | cons y ys =>
      simp only
      have := ih h.tail
      rw [hx] at this
      exact AllByte.cons h.head this

theorem trimEnd_length_le (l : List ℕ) : (trimEnd l).length ≤ l.length := by
  induction l with
  | nil => simp [trimEnd]
  | cons x xs ih =>
    simp only [trimEnd]
    cases hx : trimEnd xs with
    | nil => simp only; split <;> simp
    | cons y ys => rw [hx] at ih; simp at ih ⊢; omega

theorem wordOfLE_eq_ofDigits (l : List ℕ) : wordOfLE l = Nat.ofDigits 256 l := by
  induction l with
  | nil => rfl
  | cons x xs ih => simp [wordOfLE, Nat.ofDigits_cons, ih]

/-- trimming a byte string gives the minimal base-256 digit string of the number it denotes. -/
theorem trimEnd_eq_digits (l : List ℕ) (h : AllByte l) : trimEnd l = Nat.digits 256 (wordOfLE l) := by
  rw [← wordOfLE_trimEnd l, wordOfLE_eq_ofDigits,
    Nat.digits_ofDigits 256 (by norm_num) _ (trimEnd_allByte l h) (trimEnd_getLast l)]

/-! ## decoders -/

theorem toLimbs_zero (n : ℕ) : toLimbs n 0 = List.replicate n 0 := by
  induction n with
  | zero => rfl
  | succ n ih => simp [toLimbs, List.replicate_succ, ih]

/-- fast path of `try_from_le_slice`: whole limbs read with `u64::from_le_bytes`. -/
theorem chunksLE_eq (n : ℕ) (bs : List ℕ) (h : AllByte bs) (hlen : bs.length = 8 * n) :
    chunksLE n bs = toLimbs n (wordOfLE bs) := by
  induction n generalizing bs with
  | zero => rfl
  | succ n ih =>
    have h8 : (bs.take 8).length = 8 := by simp; omega
    have hsplit : wordOfLE bs = wordOfLE (bs.take 8) + W * wordOfLE (bs.drop 8) := by
      conv_lhs => rw [← List.take_append_drop 8 bs]
      rw [wordOfLE_append, h8, W_eq_256]
    have hlt : wordOfLE (bs.take 8) < W := by
      have := wordOfLE_lt _ (h.take 8)
      rw [h8, ← W_eq_256] at this; exact this
    simp only [chunksLE, toLimbs]
    rw [ih (bs.drop 8) (h.drop 8) (by simp; omega), hsplit, Nat.add_mul_mod_self_left,
      Nat.mod_eq_of_lt hlt, Nat.add_mul_div_left _ _ W_pos, Nat.div_eq_of_lt hlt, Nat.zero_add]

/-- the big-endian fast path reads the same limbs as the little-endian one on the reversed string. -/
theorem chunksBE_eq (n : ℕ) (bs : List ℕ) : chunksBE n bs = chunksLE n bs.reverse := by
  induction n generalizing bs with
  | zero => rfl
  | succ n ih =>
    simp only [chunksBE, chunksLE]
    rw [ih, wordOfBE_eq]
    congr 2
    · rw [List.take_reverse]
    · rw [List.drop_reverse]

theorem addAt_toLimbs (n x b i : ℕ) (hx : x < 256 ^ i) (hb : b < 256) (hi : i < 8 * n) :
    addAt (toLimbs n x) (i / 8) (b * 256 ^ (i % 8)) = toLimbs n (x + b * 256 ^ i) := by
  induction n generalizing x i with
  | zero => omega
  | succ n ih =>
    simp only [toLimbs]
    by_cases h8 : i < 8
    · have e1 : i / 8 = 0 := Nat.div_eq_of_lt h8
      have e2 : i % 8 = i := Nat.mod_eq_of_lt h8
      rw [e1, e2]
      simp only [addAt]
      have hp : 256 ^ (i + 1) ≤ W := by
        rw [W_eq_256]; exact Nat.pow_le_pow_right (by norm_num) (by omega)
      have hs : x + b * 256 ^ i < W := by
        have : x + b * 256 ^ i < 256 ^ (i + 1) := by rw [pow_succ]; nlinarith
        omega
      have hxW : x < W := by omega
      rw [Nat.mod_eq_of_lt hs, Nat.mod_eq_of_lt hxW, Nat.div_eq_of_lt hs, Nat.div_eq_of_lt hxW]
    · have e1 : i / 8 = (i - 8) / 8 + 1 := by omega
      have e2 : i % 8 = (i - 8) % 8 := by omega
      rw [e1, e2]
      simp only [addAt]
      have hpow : 256 ^ i = W * 256 ^ (i - 8) := by
        rw [W_eq_256, ← pow_add]; congr 1; omega
      have hx' : x / W < 256 ^ (i - 8) := by
        rw [Nat.div_lt_iff_lt_mul W_pos, Nat.mul_comm, ← hpow]; exact hx
      rw [ih (x / W) (i - 8) hx' (by omega), hpow]
      have e3 : x + b * (W * 256 ^ (i - 8)) = x + W * (b * 256 ^ (i - 8)) := by ring
      rw [e3, Nat.add_mul_mod_self_left, Nat.add_mul_div_left _ _ W_pos]

theorem wordOfLE_take_succ (bs : List ℕ) (i : ℕ) (hi : i < bs.length) :
    wordOfLE (bs.take (i + 1)) = wordOfLE (bs.take i) + bs.getD i 0 * 256 ^ i := by
  rw [List.take_add_one, wordOfLE_append]
  have : (bs.take i).length = i := by simp; omega
  rw [this]
  have : bs[i]?.toList = [bs.getD i 0] := by
    simp [List.getD, List.getElem?_eq_getElem hi]
  rw [this]
  simp [wordOfLE]; ring

/-- the accumulation loop of the byte-wise path builds the limbs of the positional value. -/
theorem accLoop_toLimbs (n : ℕ) (bs : List ℕ) (h : AllByte bs) (hlen : bs.length ≤ 8 * n)
    (fuel i : ℕ) (hi : i + fuel ≤ bs.length) :
    accLoop (fun i => bs.getD i 0) fuel i (toLimbs n (wordOfLE (bs.take i)))
      = toLimbs n (wordOfLE (bs.take (i + fuel))) := by
  induction fuel generalizing i with
  | zero => rfl
  | succ fuel ih =>
    simp only [accLoop]
    have hilt : i < bs.length := by omega
    have hb : bs.getD i 0 < 256 := by
      simp only [List.getD, List.getElem?_eq_getElem hilt, Option.getD_some]
      exact h _ (List.getElem_mem hilt)
    have hx : wordOfLE (bs.take i) < 256 ^ i := by
      have := wordOfLE_lt _ (h.take i)
      have e : (bs.take i).length = i := by simp; omega
      rwa [e] at this
    have e : i + 1 + fuel = i + (fuel + 1) := by omega
    rw [addAt_toLimbs n _ _ i hx hb (by omega), ← wordOfLE_take_succ bs i hilt,
      ih (i + 1) (by omega), e]

theorem accLoop_congr (f g : ℕ → ℕ) (fuel i : ℕ) (l : List ℕ)
    (h : ∀ j, i ≤ j → j < i + fuel → f j = g j) : accLoop f fuel i l = accLoop g fuel i l := by
  induction fuel generalizing i l with
  | zero => rfl
  | succ fuel ih =>
    simp only [accLoop]
    rw [h i (le_refl _) (by omega)]
    exact ih (i + 1) _ (fun j h1 h2 => h j (by omega) (by omega))

theorem accLoop_le (n : ℕ) (bs : List ℕ) (h : AllByte bs) (hlen : bs.length ≤ 8 * n) :
    accLoop (fun i => bs.getD i 0) bs.length 0 (List.replicate n 0) = toLimbs n (wordOfLE bs) := by
  have := accLoop_toLimbs n bs h hlen bs.length 0 (by omega)
  simp only [List.take_zero, wordOfLE, Nat.zero_add, List.take_length] at this
  rw [← toLimbs_zero]; exact this

theorem accLoop_be (n : ℕ) (bs : List ℕ) (h : AllByte bs) (hlen : bs.length ≤ 8 * n) :
    accLoop (fun i => bs.getD (bs.length - 1 - i) 0) bs.length 0 (List.replicate n 0)
      = toLimbs n (wordOfBE bs) := by
  rw [wordOfBE_eq, ← accLoop_le n bs.reverse h.reverse (by simpa using hlen)]
  simp only [List.length_reverse]
  apply accLoop_congr
  intro j _ hj
  simp only [List.getD]
  rw [List.getElem?_reverse (by omega)]

/-- the common tail of both decoders on the limbs of a number `V < W^LIMBS`. -/
theorem checkTop_toLimbs (bits V : ℕ) (hV : V < W ^ nlimbs bits) :
    (V < 2 ^ bits → checkTop bits (toLimbs (nlimbs bits) V) = .ok (toLimbs (nlimbs bits) V))
    ∧ (2 ^ bits ≤ V → checkTop bits (toLimbs (nlimbs bits) V) = .none) := by
  have hval : val (toLimbs (nlimbs bits) V) = V := by rw [val_toLimbs, Nat.mod_eq_of_lt hV]
  unfold checkTop
  rcases Nat.eq_zero_or_pos bits with h0 | hpos
  · subst h0
    have : V = 0 := by simpa [nlimbs] using hV
    subst this
    have hc : Canon 0 (toLimbs (nlimbs 0) 0) := canon_toLimbs 0 0 (by simp)
    constructor
    · intro _; simp [nlimbs, toLimbs, fromLimbs, shouldMask]
    · intro h; simp at h
  · obtain ⟨_, _, m3⟩ := maskTop_spec bits hpos (toLimbs (nlimbs bits) V) (by simp) (toLimbs_allLt _ _)
    rw [hval] at m3
    have hn := nlimbs_pos bits hpos
    constructor
    · intro hlt
      have hnot : ¬ (mask bits < top (toLimbs (nlimbs bits) V)) := by
        unfold top; rw [m3]; omega
      have hc := canon_toLimbs bits V hlt
      simp only [hn, decide_true, Bool.true_and, decide_eq_true_eq, gt_iff_lt, hnot, if_false,
        fromLimbs_canon bits _ hc]
    · intro hge
      have hyes : mask bits < top (toLimbs (nlimbs bits) V) := by
        unfold top; rw [m3]; exact hge
      simp only [hn, decide_true, Bool.true_and, gt_iff_lt, hyes, if_true]

theorem wordOfLE_lt_W (bits : ℕ) (bs : List ℕ) (h : AllByte bs) (hlen : bs.length ≤ nbytes bits) :
    wordOfLE bs < W ^ nlimbs bits := by
  have h1 := wordOfLE_lt bs h
  have h2 : 256 ^ bs.length ≤ 256 ^ (8 * nlimbs bits) :=
    Nat.pow_le_pow_right (by norm_num) (le_trans hlen (nbytes_le bits))
  rw [pow_mul, ← W_eq_256] at h2
  omega

/-- both paths of `try_from_le_slice` compute the limbs of the positional value, then range-check. -/
theorem tryFromLeSlice_eq (bits : ℕ) (bs : List ℕ) (h : AllByte bs) (hlen : bs.length ≤ nbytes bits) :
    tryFromLeSlice bits bs = checkTop bits (toLimbs (nlimbs bits) (wordOfLE bs)) := by
  unfold tryFromLeSlice
  rw [if_neg (by omega)]
  have hle := nbytes_le bits
  split
  · rename_i hc
    have : bs.length = 8 * nlimbs bits := by
      have h8 := hc.1
      rw [hc.2]; unfold nbytes nlimbs at *; omega
    rw [chunksLE_eq _ bs h this]
  · rw [accLoop_le _ bs h (by omega)]

theorem tryFromBeSlice_eq_le (bits : ℕ) (bs : List ℕ) (h : AllByte bs) :
    tryFromBeSlice bits bs = tryFromLeSlice bits bs.reverse := by
  unfold tryFromBeSlice tryFromLeSlice
  simp only [List.length_reverse]
  split
  · rfl
  · rename_i hlen
    have hle := nbytes_le bits
    split
    · rw [chunksBE_eq]
    · have e := accLoop_le (nlimbs bits) bs.reverse h.reverse (by simp; omega)
      simp only [List.length_reverse] at e
      rw [accLoop_be _ bs h (by omega), e, wordOfBE_eq]

/-! ## `copy_be_bytes_to` -/

theorem bytesLE8_low (l v : ℕ) (hl : l < W) : bytesLE 8 (l + W * v) = bytesLE 8 l := by
  rw [← bytesLE_mod 8 (l + W * v), ← W_eq_256, Nat.add_mul_mod_self_left, Nat.mod_eq_of_lt hl]

/-- the `rchunks_mut(8)` loop writes the big-endian expansion into the region. -/
theorem copyBeRegion_eq (limbs region : List ℕ) (hl : AllLt limbs)
    (hlen : region.length ≤ 8 * limbs.length) :
    copyBeRegion limbs region = (bytesLE region.length (val limbs)).reverse := by
  induction limbs generalizing region with
  | nil =>
    have : region = [] := by simpa using hlen
    subst this; rfl
  | cons l ls ih =>
    have hlW := hl.head
    simp only [copyBeRegion]
    by_cases he : region.isEmpty = true
    · have : region = [] := by simpa using he
      subst this; simp [bytesLE]
    · have hne : region ≠ [] := by simpa using he
      have hpos : 0 < region.length := List.length_pos_of_ne_nil hne
      simp only [he, Bool.false_eq_true, if_false]
      obtain ⟨c, hc⟩ : ∃ c, c = Nat.min 8 region.length := ⟨_, rfl⟩
      have hc8 : c ≤ 8 := by rw [hc]; exact Nat.min_le_left _ _
      have hcl : c ≤ region.length := by rw [hc]; exact Nat.min_le_right _ _
      have hmin : Min.min 8 region.length = c := hc.symm
      rw [hmin]
      have htl : (region.take (region.length - c)).length = region.length - c := by simp
      rw [ih (region.take (region.length - c)) hl.tail (by
        rw [htl]; simp only [List.length_cons] at hlen
        have : c = 8 ∨ c = region.length := by
          rw [hc]; rcases Nat.le_total 8 region.length with h | h
          · left; exact Nat.min_eq_left h
          · right; exact Nat.min_eq_right h
        omega), htl]
      have hdrop : (wordBytesBE l).drop (8 - c) = (bytesLE c l).reverse := by
        unfold wordBytesBE
        rw [List.drop_reverse, bytesLE_length, ← bytesLE_take 8 c l hc8]
        congr 2; omega
      rw [hdrop, ← List.reverse_append]
      congr 1
      have hsplit : region.length = c + (region.length - c) := by omega
      conv_rhs => rw [hsplit, bytesLE_add]
      simp only [val_cons]
      congr 1
      · rw [← bytesLE_take 8 c (l + W * val ls) hc8, bytesLE8_low l _ hlW, bytesLE_take 8 c l hc8]
      · by_cases h8 : c = 8
        · subst h8
          rw [← W_eq_256, Nat.add_mul_div_left _ _ W_pos, Nat.div_eq_of_lt hlW, Nat.zero_add]
        · have : region.length - c = 0 := by
            have : c = region.length := by
              rw [hc]; apply Nat.min_eq_right
              by_contra hcon
              have : Nat.min 8 region.length = 8 := Nat.min_eq_left (by omega)
              omega
            omega
          rw [this]; rfl

end Ruint.Bytes
