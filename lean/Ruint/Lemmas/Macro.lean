import Ruint.Lemmas.Radix
import Ruint.Lemmas.Str
import Ruint.Model.Macro

/-! Lemmas for C19 (the `uint!` macro). -/
namespace Ruint.Macro
open Ruint Ruint.Radix

/-! ## suffix recognition -/

def noUB (cs : List Char) : Prop := ∀ c ∈ cs, c ≠ 'U' ∧ c ≠ 'B'

theorem splitLast_none_of_noUB : ∀ (cs : List Char), noUB cs → splitLast cs = none := by
  intro cs
  induction cs with
  | nil => intro _; rfl
  | cons c cs ih =>
    intro h
    have hc := h c (by simp)
    have := ih (fun x hx => h x (by simp [hx]))
    simp [splitLast, this, hc.1, hc.2]

/-- the right-most `U`/`B` is found: nothing after it is a `U`/`B`. -/
theorem splitLast_spec : ∀ (value : List Char) (t : Char) (rest : List Char), (t = 'U' ∨ t = 'B') → noUB rest →
    splitLast (value ++ t :: rest) = some (value, t, rest) := by
  intro value
  induction value with
  | nil =>
    intro t rest ht hr
    simp only [List.nil_append, splitLast, splitLast_none_of_noUB rest hr]
    simp [ht]
  | cons c cs ih =>
    intro t rest ht hr
    simp [splitLast, ih t rest ht hr]

theorem splitLast_none_iff (cs : List Char) : splitLast cs = none ↔ noUB cs := by
  constructor
  · induction cs with
    | nil => intro _ c hc; simp at hc
    | cons c cs ih =>
      intro h
      unfold splitLast at h
      cases hs : splitLast cs with
      | some x => rw [hs] at h; simp at h
      | none =>
        rw [hs] at h
        simp only at h
        have hc : ¬ (c = 'U' ∨ c = 'B') := by
          intro hc; simp [hc] at h
        intro x hx
        simp only [List.mem_cons] at hx
        rcases hx with rfl | hx
        · exact ⟨fun e => hc (Or.inl e), fun e => hc (Or.inr e)⟩
        · exact ih hs x hx
  · exact splitLast_none_of_noUB cs

theorem isDec_noUB (cs : List Char) (h : ∀ c ∈ cs, isDec c = true) : noUB cs := by
  intro c hc
  have := h c hc
  constructor <;> (intro e; subst e; revert this; decide)

/-- `parse::<usize>()` of a non-empty run of decimal digits below `2^64`. -/
theorem parseUsize_dec (cs : List Char) (hne : cs ≠ []) (h : ∀ c ∈ cs, isDec c = true) (hlt : decVal cs < 2 ^ 64) :
    parseUsize cs = some (decVal cs) := by
  have hplus : stripPlus cs = cs := by
    cases cs with
    | nil => rfl
    | cons c r =>
      have hc := h c (by simp)
      have : c ≠ '+' := by intro e; subst e; revert hc; decide
      unfold stripPlus
      split
      · rename_i heq; injection heq with h1 _; exact absurd h1 this
      · rfl
  unfold parseUsize
  rw [hplus]
  have h1 : cs.isEmpty = false := by cases cs <;> simp_all
  have h2 : cs.all isDec = true := by simpa using h
  simp [h1, h2]
  simpa using hlt

/-! ## ASCII strings: byte indices are character indices -/

def Ascii (cs : List Char) : Prop := ∀ c ∈ cs, c.utf8Size = 1

theorem utf8Len_ascii_aux : ∀ (cs : List Char) (a : ℕ), Ascii cs →
    cs.foldl (fun a c => a + c.utf8Size) a = a + cs.length := by
  intro cs
  induction cs with
  | nil => intro a _; simp
  | cons c cs ih =>
    intro a h
    simp only [List.foldl_cons, List.length_cons]
    rw [ih _ (fun x hx => h x (by simp [hx])), h c (by simp)]; omega

theorem utf8Len_ascii (cs : List Char) (h : Ascii cs) : utf8Len cs = cs.length := by
  simpa [utf8Len] using utf8Len_ascii_aux cs 0 h

theorem isCharBoundary_two (c0 c1 : Char) (r : List Char) (h0 : c0.utf8Size = 1) (h1 : c1.utf8Size = 1) :
    isCharBoundary (c0 :: c1 :: r) 2 = true ∧ splitAtByte (c0 :: c1 :: r) 2 = ([c0, c1], r) := by
  simp [isCharBoundary, splitAtByte, h0, h1]

/-! ## digits -/

theorem hexDigit_lt (c : Char) (d : ℕ) (h : hexDigit c = some d) : d < 16 ∧ c.toNat < 128 ∧ c ≠ '_' := by
  unfold hexDigit inRange at h
  have n0 : '0'.toNat = 48 := by decide
  have n9 : '9'.toNat = 57 := by decide
  have na : 'a'.toNat = 97 := by decide
  have nf : 'f'.toNat = 102 := by decide
  have nA : 'A'.toNat = 65 := by decide
  have nF : 'F'.toNat = 70 := by decide
  have nu : '_'.toNat = 95 := by decide
  have hne : ∀ k : ℕ, c.toNat = k → k ≠ 95 → c ≠ '_' := fun k hk hk' e => by subst e; omega
  split at h
  · rename_i hc; simp only [Bool.and_eq_true, decide_eq_true_eq] at hc
    injection h with h
    exact ⟨by omega, by omega, hne _ rfl (by omega)⟩
  · split at h
    · rename_i hc; simp only [Bool.and_eq_true, decide_eq_true_eq] at hc
      injection h with h
      exact ⟨by omega, by omega, hne _ rfl (by omega)⟩
    · split at h
      · rename_i hc; simp only [Bool.and_eq_true, decide_eq_true_eq] at hc
        injection h with h
        exact ⟨by omega, by omega, hne _ rfl (by omega)⟩
      · cases h

theorem utf8Size_ascii (c : Char) (h : c.toNat < 128) : c.utf8Size = 1 := by
  unfold Char.utf8Size
  have : c.val ≤ 127 := by
    rw [UInt32.le_iff_toNat_le]
    have e : c.toNat = c.val.toNat := rfl
    have : (127 : UInt32).toNat = 127 := by decide
    omega
  simp [this]

/-- characters of a literal body: hexadecimal digit characters and `_` -/
def IsBody (cs : List Char) : Prop := ∀ c ∈ cs, c = '_' ∨ (hexDigit c).isSome = true

/-- digit values of a body (underscores dropped) -/
def digitVals (cs : List Char) : List ℕ := cs.filterMap hexDigit

theorem hexDigit_underscore : hexDigit '_' = none := by decide

theorem digitVals_cons_none (c : Char) (cs : List Char) (h : hexDigit c = none) : digitVals (c :: cs) = digitVals cs := by
  simp [digitVals, h]

theorem digitVals_cons_some (c : Char) (cs : List Char) (d : ℕ) (h : hexDigit c = some d) :
    digitVals (c :: cs) = d :: digitVals cs := by
  simp [digitVals, h]

theorem isBody_ascii (cs : List Char) (h : IsBody cs) : Ascii cs := by
  intro c hc
  rcases h c hc with rfl | hd
  · decide
  · obtain ⟨d, hd⟩ := Option.isSome_iff_exists.mp hd
    exact utf8Size_ascii c (hexDigit_lt c d hd).2.1

theorem accumulate_spec (base : ℕ) (hb : base < W) (limbs : List ℕ) (d : ℕ) (hl : AllLt limbs) (hd : d < W) :
    val (accumulate base limbs d) = val limbs * base + d ∧ AllLt (accumulate base limbs d)
    ∧ limbs.length ≤ (accumulate base limbs d).length := by
  obtain ⟨c1, c2, c3⟩ := mulAddChain_spec base limbs d
  have c4 := mulAddChain_carry_lt base hb limbs d hl hd
  unfold accumulate
  generalize mulAddChain base limbs d = m at *
  obtain ⟨r, carry⟩ := m
  simp only at c1 c2 c3 c4 ⊢
  by_cases hc : carry > 0
  · simp only [hc, if_true]
    refine ⟨?_, AllLt.append c3 (AllLt.cons c4 AllLt.nil), by simp; omega⟩
    rw [val_append_single, c2]; exact c1
  · simp only [hc, if_false]
    have : carry = 0 := by omega
    subst this
    exact ⟨by simpa using c1, c3, by omega⟩

/-- the digit loop on a well-formed body whose digits are all below the base: Horner accumulation. -/
theorem digitLoop_ok (base : ℕ) (hb : base < W) : ∀ (cs : List Char) (limbs : List ℕ), IsBody cs → AllLt limbs →
    (∀ d ∈ digitVals cs, d < base) →
    ∃ l, digitLoop base cs limbs = .ok l ∧ AllLt l ∧ val l = hornerFrom base (val limbs) (digitVals cs) := by
  intro cs
  induction cs with
  | nil => intro limbs _ hl _; exact ⟨limbs, rfl, hl, rfl⟩
  | cons c cs ih =>
    intro limbs hbody hl hv
    have hbody' : IsBody cs := fun x hx => hbody x (by simp [hx])
    unfold digitLoop
    cases hd : hexDigit c with
    | none =>
      have hc : c = '_' := by
        rcases hbody c (by simp) with h | h
        · exact h
        · rw [hd] at h; simp at h
      have hv' : ∀ d ∈ digitVals cs, d < base := by
        intro d hdm; apply hv; rw [digitVals_cons_none c cs hd]; exact hdm
      obtain ⟨l, h1, h2, h3⟩ := ih limbs hbody' hl hv'
      refine ⟨l, by simp [hc, h1], h2, ?_⟩
      rw [h3, digitVals_cons_none c cs hd]
    | some d =>
      have hdl : d < base := by apply hv; rw [digitVals_cons_some c cs d hd]; simp
      have hv' : ∀ x ∈ digitVals cs, x < base := by
        intro x hx; apply hv; rw [digitVals_cons_some c cs d hd]; exact List.mem_cons_of_mem _ hx
      have hnr : digitRejected d base = false := by simp [digitRejected]; omega
      obtain ⟨a1, a2, _⟩ := accumulate_spec base hb limbs d hl (by omega)
      obtain ⟨l, h1, h2, h3⟩ := ih (accumulate base limbs d) hbody' a2 hv'
      refine ⟨l, by simp [hnr, h1], h2, ?_⟩
      rw [h3, a1, digitVals_cons_some c cs d hd]
      rfl

/-- a digit `≥ base` (the first one, after digits that are fine): `Invalid digit`. -/
theorem digitLoop_bad_digit (base : ℕ) (hb : base < W) : ∀ (pre : List Char) (c : Char) (post : List Char) (limbs : List ℕ) (d : ℕ),
    IsBody pre → AllLt limbs → (∀ x ∈ digitVals pre, x < base) → hexDigit c = some d → base ≤ d →
    digitLoop base (pre ++ c :: post) limbs = .error (.invalidDigit c base) := by
  intro pre
  induction pre with
  | nil =>
    intro c post limbs d _ _ _ hd hge
    have : digitRejected d base = true := by simp [digitRejected]; omega
    simp [digitLoop, hd, this]
  | cons p pre ih =>
    intro c post limbs d hbody hl hv hd hge
    have hbody' : IsBody pre := fun x hx => hbody x (by simp [hx])
    simp only [List.cons_append]
    unfold digitLoop
    cases hp : hexDigit p with
    | none =>
      have hc : p = '_' := by
        rcases hbody p (by simp) with h | h
        · exact h
        · rw [hp] at h; simp at h
      have hv' : ∀ x ∈ digitVals pre, x < base := by
        intro x hx; apply hv; rw [digitVals_cons_none p pre hp]; exact hx
      simp [hc, ih c post limbs d hbody' hl hv' hd hge]
    | some e =>
      have hel : e < base := by apply hv; rw [digitVals_cons_some p pre e hp]; simp
      have hv' : ∀ x ∈ digitVals pre, x < base := by
        intro x hx; apply hv; rw [digitVals_cons_some p pre e hp]; exact List.mem_cons_of_mem _ hx
      have hnr : digitRejected e base = false := by simp [digitRejected]; omega
      obtain ⟨_, a2, _⟩ := accumulate_spec base hb limbs e hl (by omega)
      simp [hnr, ih c post _ d hbody' a2 hv' hd hge]

/-! ## `pad_limbs` -/

theorem popZerosRev_spec (n : ℕ) : ∀ (r : List ℕ), AllLt r →
    valBE (popZerosRev n r) = valBE r ∧ AllLt (popZerosRev n r) ∧ (popZerosRev n r).length ≤ r.length
    ∧ (n < (popZerosRev n r).length → ∃ x xs, popZerosRev n r = x :: xs ∧ x ≠ 0)
    ∧ (r.length ≤ n → popZerosRev n r = r) := by
  intro r
  induction r with
  | nil => intro _; simp [popZerosRev]; exact AllLt.nil
  | cons x xs ih =>
    intro h
    by_cases hx : x = 0
    · subst hx
      by_cases hl : xs.length + 1 > n
      · have e : popZerosRev n (0 :: xs) = popZerosRev n xs := by simp [popZerosRev, hl]
        rw [e]
        obtain ⟨i1, i2, i3, i4, i5⟩ := ih h.tail
        refine ⟨?_, i2, by simp; omega, i4, by intro h'; simp at h'; omega⟩
        rw [i1, valBE_cons]; simp
      · have e : popZerosRev n (0 :: xs) = 0 :: xs := by simp [popZerosRev, hl]
        rw [e]
        exact ⟨rfl, h, le_rfl, fun h' => by simp at h'; omega, fun _ => rfl⟩
    · have e : popZerosRev n (x :: xs) = x :: xs := by
        unfold popZerosRev
        split
        · rename_i heq; injection heq with h1 _; exact absurd h1 hx
        · rfl
      rw [e]
      exact ⟨rfl, h, le_rfl, fun _ => ⟨x, xs, rfl, hx⟩, fun _ => rfl⟩

theorem valBE_ge (x : ℕ) (xs : List ℕ) (hx : x ≠ 0) : W ^ xs.length ≤ valBE (x :: xs) := by
  rw [valBE_cons]
  have : 1 ≤ x := Nat.pos_of_ne_zero hx
  nlinarith [Nat.zero_le (valBE xs), Nat.zero_le (W ^ xs.length)]

/-- `pad_limbs`: the canonical limb array of the value if it fits `bits`, else `None`. -/
theorem padLimbs_spec (bits : ℕ) (l : List ℕ) (hl : AllLt l) :
    (val l < 2 ^ bits → ∃ l2, padLimbs bits l = some l2 ∧ Canon bits l2 ∧ val l2 = val l)
    ∧ (2 ^ bits ≤ val l → padLimbs bits l = none) := by
  have hrev : AllLt l.reverse := fun x hx => hl x (by simpa using hx)
  obtain ⟨p1, p2, p3, p4, _⟩ := popZerosRev_spec (nlimbs bits) l.reverse hrev
  simp only [valBE, List.reverse_reverse] at p1
  simp only [padLimbs]
  generalize hl1 : (popZerosRev (nlimbs bits) l.reverse).reverse = l1 at *
  have hl1' : popZerosRev (nlimbs bits) l.reverse = l1.reverse := by rw [← hl1]; simp
  have a1 : AllLt l1 := by
    intro x hx; apply p2; rw [hl1']; simpa using hx
  have hlen1 : (popZerosRev (nlimbs bits) l.reverse).length = l1.length := by rw [hl1']; simp
  generalize hl2 : l1 ++ List.replicate (nlimbs bits - l1.length) 0 = l2
  have v2 : val l2 = val l := by
    rw [← hl2, val_append, val_replicate_zero, ← p1]; simp
  have a2 : AllLt l2 := by
    rw [← hl2]; apply AllLt.append a1
    intro x hx; rw [(List.mem_replicate.mp hx).2]; exact W_pos
  have len2 : l2.length = max l1.length (nlimbs bits) := by
    rw [← hl2]; simp; omega
  by_cases hlong : l1.length > nlimbs bits
  · -- more limbs than fit and the top one is non-zero: too large
    have hge : W ^ nlimbs bits ≤ val l := by
      obtain ⟨x, xs, e, hx⟩ := p4 (by omega)
      have := valBE_ge x xs hx
      rw [← e] at this
      simp only [valBE] at this
      rw [hl1'] at this
      simp only [List.reverse_reverse] at this
      rw [p1] at this
      have hxs : nlimbs bits ≤ xs.length := by
        have : (popZerosRev (nlimbs bits) l.reverse).length = xs.length + 1 := by rw [e]; simp
        omega
      exact le_trans (Nat.pow_le_pow_right W_pos hxs) this
    have hle := two_pow_le_W bits
    have : l2.length > nlimbs bits := by omega
    constructor
    · intro h; omega
    · intro _; simp [this]
  · have len2' : l2.length = nlimbs bits := by omega
    have hnl : ¬ l2.length > nlimbs bits := by omega
    rcases Nat.eq_zero_or_pos bits with h0 | hpos
    · subst h0
      have hn : nlimbs 0 = 0 := rfl
      have : l2 = [] := List.eq_nil_of_length_eq_zero (by rw [len2', hn])
      subst this
      constructor
      · intro _
        refine ⟨[], ?_, ⟨rfl, AllLt.nil, by simp⟩, v2⟩
        simp [hn, mask]
      · intro h; rw [← v2] at h; simp at h
    · obtain ⟨_, _, m3⟩ := maskTop_spec bits hpos l2 len2' a2
      rw [v2] at m3
      constructor
      · intro h
        have : ¬ l2.getLast?.getD 0 > mask bits := fun hh => by have := m3.mp hh; omega
        exact ⟨l2, by simp [hnl, this], ⟨len2', a2, by rw [v2]; exact h⟩, v2⟩
      · intro h
        have := m3.mpr h
        simp [this]

/-! ## prefix / base -/

/-- `value` is `⟨prefix⟩ ++ body` for `base` -/
inductive HasBase : List Char → ℕ → List Char → Prop
  | hex (body : List Char) : HasBase ('0' :: 'x' :: body) 16 body
  | oct (body : List Char) : HasBase ('0' :: 'o' :: body) 8 body
  | bin (body : List Char) : HasBase ('0' :: 'b' :: body) 2 body
  | dec (body : List Char) (h : body.take 2 ≠ ['0', 'b']) : HasBase body 10 body

theorem HasBase.base_le {value body : List Char} {base : ℕ} (h : HasBase value base body) : 2 ≤ base ∧ base ≤ 16 := by
  cases h <;> omega

theorem body_not (c : Char) (cs : List Char) (hb : IsBody cs) (hc : c ∈ cs) (hx : hexDigit c = none) (hu : c ≠ '_') : False := by
  rcases hb c hc with h | h
  · exact hu h
  · rw [hx] at h; simp at h

theorem parseDigits_dec (body : List Char) (hb : IsBody body) (hnb : body.take 2 ≠ ['0', 'b']) :
    parseDigits body = digitLoop 10 body [0] := by
  have ha := isBody_ascii body hb
  have hlen := utf8Len_ascii body ha
  match body, hb, ha, hnb, hlen with
  | [], _, _, _, hlen => simp [parseDigits, hlen]
  | [c], _, _, _, hlen => simp [parseDigits, hlen]
  | c0 :: c1 :: r, hb, ha, hnb, hlen =>
    obtain ⟨b1, b2⟩ := isCharBoundary_two c0 c1 r (ha c0 (by simp)) (ha c1 (by simp))
    have hl : utf8Len (c0 :: c1 :: r) ≥ 2 := by rw [hlen]; simp
    have nx : c1 ≠ 'x' := fun e => body_not c1 _ hb (by simp) (by rw [e]; decide) (by rw [e]; decide)
    have no : c1 ≠ 'o' := fun e => body_not c1 _ hb (by simp) (by rw [e]; decide) (by rw [e]; decide)
    have nb : ¬ (c0 = '0' ∧ c1 = 'b') := by
      rintro ⟨rfl, rfl⟩; exact hnb rfl
    simp [parseDigits, hl, b1, b2, nx, no, nb]

theorem take_two_dec (body : List Char) (hb : IsBody body) : body.take 2 ≠ ['0', 'x'] := by
  intro e
  match body, hb, e with
  | c0 :: c1 :: r, hb, e =>
    simp at e
    exact body_not c1 _ hb (by simp) (by rw [e.2]; decide) (by rw [e.2]; decide)

theorem parseDigits_eq (value body : List Char) (base : ℕ) (h : HasBase value base body) (hb : IsBody body) :
    parseDigits value = digitLoop base body [0] := by
  have a0 : '0'.utf8Size = 1 := by decide
  have ha := isBody_ascii body hb
  cases h with
  | hex =>
    have ax : 'x'.utf8Size = 1 := by decide
    have hasc : Ascii ('0' :: 'x' :: body) := by
      intro c hc; simp only [List.mem_cons] at hc; rcases hc with rfl | rfl | hc
      · exact a0
      · exact ax
      · exact ha c hc
    obtain ⟨b1, b2⟩ := isCharBoundary_two '0' 'x' body a0 ax
    have hl : utf8Len ('0' :: 'x' :: body) ≥ 2 := by rw [utf8Len_ascii _ hasc]; simp
    simp [parseDigits, hl, b1, b2]
  | oct =>
    have ax : 'o'.utf8Size = 1 := by decide
    have hasc : Ascii ('0' :: 'o' :: body) := by
      intro c hc; simp only [List.mem_cons] at hc; rcases hc with rfl | rfl | hc
      · exact a0
      · exact ax
      · exact ha c hc
    obtain ⟨b1, b2⟩ := isCharBoundary_two '0' 'o' body a0 ax
    have hl : utf8Len ('0' :: 'o' :: body) ≥ 2 := by rw [utf8Len_ascii _ hasc]; simp
    simp [parseDigits, hl, b1, b2]
  | bin =>
    have ax : 'b'.utf8Size = 1 := by decide
    have hasc : Ascii ('0' :: 'b' :: body) := by
      intro c hc; simp only [List.mem_cons] at hc; rcases hc with rfl | rfl | hc
      · exact a0
      · exact ax
      · exact ha c hc
    obtain ⟨b1, b2⟩ := isCharBoundary_two '0' 'b' body a0 ax
    have hl : utf8Len ('0' :: 'b' :: body) ≥ 2 := by rw [utf8Len_ascii _ hasc]; simp
    simp [parseDigits, hl, b1, b2]
  | dec _ hnb' => exact parseDigits_dec _ hb hnb'

/-- `value.starts_with("0x")` is "the base is 16". -/
theorem take_two_hex (value body : List Char) (base : ℕ) (h : HasBase value base body) (hb : IsBody body) :
    value.take 2 = ['0', 'x'] ↔ base = 16 := by
  cases h with
  | hex => simp
  | oct => simp
  | bin => simp
  | dec _ _ =>
    have := take_two_dec _ hb
    simp [this]

/-! ## agreement with the run-time parser's character table -/

theorem classify_hexDigit (radix : ℕ) (hr : radix ≤ 36) (c : Char) (d : ℕ) (h : hexDigit c = some d) :
    classify radix c = .digit d := by
  unfold hexDigit inRange at h
  have na : 'a'.toNat = 97 := by decide
  have nf : 'f'.toNat = 102 := by decide
  have nz : 'z'.toNat = 122 := by decide
  have nA : 'A'.toNat = 65 := by decide
  have nF : 'F'.toNat = 70 := by decide
  have nZ : 'Z'.toNat = 90 := by decide
  have n9 : '9'.toNat = 57 := by decide
  unfold classify inRange
  simp only [hr, if_true]
  split at h
  · rename_i hc; simp only [hc, if_true]; injection h with h; rw [h]
  · rename_i hc0
    simp only [hc0, if_false, Bool.false_eq_true]
    split at h
    · rename_i hc; simp only [Bool.and_eq_true, decide_eq_true_eq] at hc
      have : (decide ('a'.toNat ≤ c.toNat) && decide (c.toNat ≤ 'z'.toNat)) = true := by
        simp only [Bool.and_eq_true, decide_eq_true_eq]; omega
      simp only [this, if_true]; injection h with h; rw [h]
    · rename_i hc1
      split at h
      · rename_i hc; simp only [Bool.and_eq_true, decide_eq_true_eq] at hc
        have h1 : ¬ (decide ('a'.toNat ≤ c.toNat) && decide (c.toNat ≤ 'z'.toNat)) = true := by
          simp only [Bool.and_eq_true, decide_eq_true_eq]; omega
        have h2 : (decide ('A'.toNat ≤ c.toNat) && decide (c.toNat ≤ 'Z'.toNat)) = true := by
          simp only [Bool.and_eq_true, decide_eq_true_eq]; omega
        injection h with h
        have q1 : ¬ (97 ≤ c.toNat ∧ c.toNat ≤ 122) := by omega
        have q2 : (65 ≤ c.toNat ∧ c.toNat ≤ 90) := by omega
        simp only [na, nz, nA, nZ, decide_eq_true_eq, Bool.and_eq_true] at *
        simp [q1, q2]; omega
      · cases h

theorem classify_underscore (radix : ℕ) (hr : radix ≤ 36) : classify radix '_' = .ignored := by
  rw [classify_le36 radix hr]; decide

/-- on a literal body the run-time `from_str_radix` closure yields the same digit values, and no error. -/
theorem scan_body (radix : ℕ) (hr : radix ≤ 36) : ∀ (cs : List Char), IsBody cs → scan radix cs = (digitVals cs, none) := by
  intro cs
  induction cs with
  | nil => intro _; rfl
  | cons c cs ih =>
    intro hb
    have ih' := ih (fun x hx => hb x (by simp [hx]))
    unfold scan
    cases hd : hexDigit c with
    | none =>
      have hc : c = '_' := by
        rcases hb c (by simp) with h | h
        · exact h
        · rw [hd] at h; simp at h
      rw [hc, classify_underscore radix hr]
      simp only
      rw [ih', digitVals_cons_none _ _ (by rw [← hc]; exact hd)]
    | some d =>
      rw [classify_hexDigit radix hr c d hd]
      simp only
      rw [ih', digitVals_cons_some c cs d hd]

end Ruint.Macro
