import Ruint.Lemmas.FloatTryD
import Mathlib.Data.Rat.Floor
import Mathlib.Tactic.FieldSimp
/-! The executable specification `floorHalf` is the rational floor `⌊m·2^e + 1/2⌋`. -/
namespace Ruint.Float

/-- `floorHalf m e` is `⌊m·2^e + 1/2⌋` over the rationals. -/
theorem floorHalf_eq_floor (m : ℕ) (e : ℤ) :
    (floorHalf m e : ℤ) = ⌊(m : ℚ) * (2 : ℚ) ^ e + 1 / 2⌋ := by
  rcases le_or_gt 0 e with he | he
  · obtain ⟨k, hk⟩ : ∃ k : ℕ, e = (k : ℤ) := ⟨e.toNat, by omega⟩
    subst hk
    rw [floorHalf_nonneg_exp m _ he]
    have : ((m : ℚ) * (2 : ℚ) ^ ((k : ℕ) : ℤ) + 1 / 2) = (((m * 2 ^ k : ℕ) : ℤ) : ℚ) + 1 / 2 := by
      push_cast; rw [zpow_natCast]
    rw [this, Int.floor_intCast_add]
    have h12 : ⌊(1 / 2 : ℚ)⌋ = 0 := by
      rw [Int.floor_eq_iff]; constructor <;> norm_num
    rw [h12]; simp
  · obtain ⟨s, hs⟩ : ∃ s : ℕ, e = -(s : ℤ) := ⟨(-e).toNat, by omega⟩
    subst hs
    have hs1 : 1 ≤ s := by omega
    unfold floorHalf
    rw [if_neg (by omega)]
    have h1 : (- -(s : ℤ)).toNat = s := by omega
    rw [h1]
    have hq : (m : ℚ) * (2 : ℚ) ^ (-(s : ℤ)) + 1 / 2 = ((2 * m + 2 ^ s : ℕ) : ℚ) / ((2 ^ (s + 1) : ℕ) : ℚ) := by
      rw [zpow_neg, zpow_natCast]
      push_cast
      field_simp
      ring
    rw [hq, Rat.floor_natCast_div_natCast]
    rfl

end Ruint.Float
