import Ruint.Gen.WordsUintMod
import Ruint.Model.BitsRev
import Ruint.Lemmas.GenBitsWrap
/-! Part of the ties of `Gen/WordsUintMod.lean` (split per property so that a change to one source function breaks only the
    obligations of the properties resting on it). -/
namespace Ruint.GenUintMod
open Ruint

/-! ### `next_power_of_two` -/

/-- **`Uint::next_power_of_two` as generated from `src/special.rs`** (`checked_next_power_of_two().unwrap()`). -/
theorem next_power_of_two_eq (bits : ℕ) (hN : nlimbs bits < 2 ^ 57) (a : List ℕ) (ha : Canon bits a) :
    Ruint.Gen.uint_next_power_of_two (nlimbs bits + 1) bits (nlimbs bits) a = Ruint.Bits.nextPowerOfTwo bits a := by
  unfold Ruint.Gen.uint_next_power_of_two Ruint.Bits.nextPowerOfTwo
  rw [Ruint.GenBitsWrap.checked_next_power_of_two_eq bits hN a ha]
  cases Ruint.Bits.checkedNextPowerOfTwo bits a <;> rfl


end Ruint.GenUintMod
