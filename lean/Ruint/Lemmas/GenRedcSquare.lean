import Ruint.Lemmas.GenRedcLoops
import Mathlib.Tactic.NormNum

/-! `square_redc` as GENERATED from `src/algorithms/mul_redc.rs` (outer loop, the doubled-product row loop
    `for j in (i + 1)..N`, the reduction row loop `for j in 1..N`, both threshold arms) equals the C11 model
    `Ruint.Redc.squareRedcCore` at base `2^64` with the generated threshold `keepSq`. -/
namespace Ruint.GenRedcSquare
open Ruint Ruint.Redc Ruint.GenLehmer Ruint.GenRedcLoops

theorem cdma_eq (l r a clo : ℕ) (chi : Bool) :
    Ruint.Gen.carrying_double_mul_add l r a clo chi = carryingDoubleMulAdd (2 ^ 64) l r a clo chi := by
  unfold Ruint.Gen.carrying_double_mul_add carryingDoubleMulAdd
  rs_norm
  have e : (2 : ℕ) ^ 64 * 2 ^ 64 = 2 ^ 128 := by norm_num
  rw [e]
  generalize chi.toNat = k
  have hc : ((a + clo) % 2 ^ 128 + k * 2 ^ 64 % 2 ^ 128) % 2 ^ 128 = (a + clo + k * 2 ^ 64) % 2 ^ 128 := by omega
  rw [hc]
  generalize (a + clo + k * 2 ^ 64) % 2 ^ 128 = cc
  generalize (l * r % 2 ^ 128 + l * r % 2 ^ 128) % 2 ^ 128 + cc = t
  refine Prod.ext rfl (Prod.ext ?_ rfl)
  simp only
  omega

theorem step2_eq (N : ℕ) (a : List ℕ) (i value bound : ℕ) (res : List ℕ) (clo : ℕ) (chi : Bool) (j : ℕ) :
    Ruint.Gen.square_redc_step2 N a i value bound (res, clo, chi, j) =
      if j < bound then
        ((res.set j (Ruint.Gen.carrying_double_mul_add (a.getD i 0) (a.getD j 0) (res.getD j 0) clo chi).1,
          (Ruint.Gen.carrying_double_mul_add (a.getD i 0) (a.getD j 0) (res.getD j 0) clo chi).2.1,
          (Ruint.Gen.carrying_double_mul_add (a.getD i 0) (a.getD j 0) (res.getD j 0) clo chi).2.2,
          Rs.wadd 64 j 1), true)
      else ((res, clo, chi, j), false) := by
  unfold Ruint.Gen.square_redc_step2
  simp only [decide_eq_true_eq]

theorem sqRow_cons (B ai aj r clo : ℕ) (chi : Bool) (as rs : List ℕ) :
    sqRow B ai (aj :: as) (r :: rs) clo chi =
      ((carryingDoubleMulAdd B ai aj r clo chi).1 ::
        (sqRow B ai as rs (carryingDoubleMulAdd B ai aj r clo chi).2.1 (carryingDoubleMulAdd B ai aj r clo chi).2.2).1,
       (sqRow B ai as rs (carryingDoubleMulAdd B ai aj r clo chi).2.1 (carryingDoubleMulAdd B ai aj r clo chi).2.2).2.1,
       (sqRow B ai as rs (carryingDoubleMulAdd B ai aj r clo chi).2.1 (carryingDoubleMulAdd B ai aj r clo chi).2.2).2.2) := by
  rw [sqRow]

theorem sqRow_length (B ai : ℕ) : ∀ (as rs : List ℕ) (clo : ℕ) (chi : Bool),
    as.length = rs.length → (sqRow B ai as rs clo chi).1.length = as.length := by
  intro as
  induction as with
  | nil => intro rs clo chi _; simp [sqRow]
  | cons a as ih =>
    intro rs clo chi h
    cases rs with
    | nil => simp at h
    | cons r rs =>
      simp only [List.length_cons] at h
      rw [sqRow_cons]
      simp only [List.length_cons]
      rw [ih rs _ _ (by omega)]

/-- the doubled-product row loop -/
theorem row_loop_eq (N : ℕ) (hN : N < 2 ^ 64) (A : List ℕ) (i value : ℕ) :
    ∀ (as rs aP rP : List ℕ) (clo : ℕ) (chi : Bool) (f : ℕ),
      A = aP ++ as → as.length = rs.length → aP.length = rP.length → aP.length + as.length = N → as.length < f →
      Rs.loop (Ruint.Gen.square_redc_step2 N A i value N) f (rP ++ rs, clo, chi, rP.length)
        = (rP ++ (sqRow (2 ^ 64) (A.getD i 0) as rs clo chi).1, (sqRow (2 ^ 64) (A.getD i 0) as rs clo chi).2.1,
           (sqRow (2 ^ 64) (A.getD i 0) as rs clo chi).2.2, N) := by
  intro as
  induction as with
  | nil =>
    intro rs aP rP clo chi f _ h2 h3 h5 h6
    cases rs with
    | cons _ _ => simp at h2
    | nil =>
      obtain ⟨f, rfl⟩ : ∃ g, f = g + 1 := ⟨f - 1, by simp at h6; omega⟩
      simp only [List.length_nil, Nat.add_zero] at h5
      rw [loop_succ, step2_eq]
      simp [← h3, h5, sqRow]
  | cons a as ih =>
    intro rs aP rP clo chi f hA h2 h3 h5 h6
    cases rs with
    | nil => simp at h2
    | cons r rs =>
      obtain ⟨f, rfl⟩ : ∃ g, f = g + 1 := ⟨f - 1, by simp at h6; omega⟩
      simp only [List.length_cons] at h2 h5 h6
      have hi : rP.length < N := by omega
      have g1 : A.getD rP.length 0 = a := by rw [hA, ← h3]; simp
      have g3 : (rP ++ r :: rs).getD rP.length 0 = r := by simp
      have g5 : ∀ y, (rP ++ r :: rs).set rP.length y = (rP ++ [y]) ++ rs := by intro y; simp
      have g6 : ∀ y : ℕ, Rs.wadd 64 rP.length 1 = (rP ++ [y]).length := by
        intro y; unfold Rs.wadd; rw [Nat.mod_eq_of_lt (by omega)]; simp
      rw [loop_succ, step2_eq]
      simp only [hi, if_true, g1, g3, g5, cdma_eq, sqRow_cons]
      rw [g6 (carryingDoubleMulAdd (2 ^ 64) (A.getD i 0) a r clo chi).1]
      have := ih rs (aP ++ [a]) (rP ++ [(carryingDoubleMulAdd (2 ^ 64) (A.getD i 0) a r clo chi).1])
        (carryingDoubleMulAdd (2 ^ 64) (A.getD i 0) a r clo chi).2.1
        (carryingDoubleMulAdd (2 ^ 64) (A.getD i 0) a r clo chi).2.2 f
        (by simp [hA]) (by omega) (by simp [h3]) (by simp; omega) (by omega)
      simp only [List.append_assoc, List.singleton_append] at this ⊢
      rw [this]

theorem step3_eq (N : ℕ) (md : List ℕ) (value m bound : ℕ) (res : List ℕ) (c j : ℕ) :
    Ruint.Gen.square_redc_step3 N md value m bound (res, c, j) =
      if j < bound then
        ((res.set (Rs.wsub 64 j 1) (Ruint.Gen.carrying_mul_add (md.getD j 0) m (res.getD j 0) c).1,
          (Ruint.Gen.carrying_mul_add (md.getD j 0) m (res.getD j 0) c).2, Rs.wadd 64 j 1), true)
      else ((res, c, j), false) := by
  unfold Ruint.Gen.square_redc_step3
  simp only [decide_eq_true_eq]

theorem redRow_cons (B m mo r c : ℕ) (ms rs : List ℕ) :
    redRow B m (mo :: ms) (r :: rs) c =
      ((carryingMulAdd B mo m r c).1 :: (redRow B m ms rs (carryingMulAdd B mo m r c).2).1,
       (redRow B m ms rs (carryingMulAdd B mo m r c).2).2) := by
  rw [redRow]

theorem redRow_length (B m : ℕ) : ∀ (ms rs : List ℕ) (c : ℕ),
    ms.length = rs.length → (redRow B m ms rs c).1.length = ms.length := by
  intro ms
  induction ms with
  | nil => intro rs c _; simp [redRow]
  | cons a as ih =>
    intro rs c h
    cases rs with
    | nil => simp at h
    | cons r rs =>
      simp only [List.length_cons] at h
      rw [redRow_cons]
      simp only [List.length_cons]
      rw [ih rs _ (by omega)]

/-- the reduction row loop (`result[j - 1] = value`) -/
theorem red_loop_eq (N : ℕ) (hN : N < 2 ^ 64) (M : List ℕ) (value m : ℕ) :
    ∀ (ms rs mP p : List ℕ) (x c f : ℕ),
      M = mP ++ ms → ms.length = rs.length → mP.length = p.length + 1 → mP.length + ms.length = N → ms.length < f →
      ∃ y, Rs.loop (Ruint.Gen.square_redc_step3 N M value m N) f (p ++ x :: rs, c, mP.length)
          = (p ++ (redRow (2 ^ 64) m ms rs c).1 ++ [y], (redRow (2 ^ 64) m ms rs c).2, N) := by
  intro ms
  induction ms with
  | nil =>
    intro rs mP p x c f _ h2 h4 h5 h6
    cases rs with
    | cons _ _ => simp at h2
    | nil =>
      obtain ⟨f, rfl⟩ : ∃ g, f = g + 1 := ⟨f - 1, by simp at h6; omega⟩
      simp only [List.length_nil, Nat.add_zero] at h5
      refine ⟨x, ?_⟩
      rw [loop_succ, step3_eq]
      simp [h5, redRow]
  | cons mo ms ih =>
    intro rs mP p x c f hM h2 h4 h5 h6
    cases rs with
    | nil => simp at h2
    | cons r rs =>
      obtain ⟨f, rfl⟩ : ∃ g, f = g + 1 := ⟨f - 1, by simp at h6; omega⟩
      simp only [List.length_cons] at h2 h5 h6
      have hi : mP.length < N := by omega
      have g2 : M.getD mP.length 0 = mo := by rw [hM]; simp
      have g3 : (p ++ x :: r :: rs).getD mP.length 0 = r := by
        rw [h4, List.getD_eq_getElem?_getD, List.getElem?_append_right (by omega)]; simp
      have g4 : Rs.wsub 64 mP.length 1 = p.length := by unfold Rs.wsub; omega
      have g5 : ∀ y, (p ++ x :: r :: rs).set p.length y = (p ++ [y]) ++ r :: rs := by intro y; simp
      have g6 : Rs.wadd 64 mP.length 1 = (mP ++ [mo]).length := by
        unfold Rs.wadd; rw [Nat.mod_eq_of_lt (by omega)]; simp
      rw [loop_succ, step3_eq]
      simp only [hi, if_true, g2, g3, g4, g5, cma_eq, redRow_cons]
      rw [g6]
      obtain ⟨y, hy⟩ := ih rs (mP ++ [mo]) (p ++ [(carryingMulAdd (2 ^ 64) mo m r c).1]) r
        (carryingMulAdd (2 ^ 64) mo m r c).2 f (by simp [hM]) (by omega) (by simp [h4]) (by simp; omega) (by omega)
      refine ⟨y, ?_⟩
      simp only [List.append_assoc, List.singleton_append] at hy ⊢
      rw [hy]

open Ruint.Gen.RedcConsts in
theorem sq_outer_iter (fuel N inv : ℕ) (hN : N < 2 ^ 64) (hf : N < fuel) (aP as rP rs ms : List ℕ) (ai ri m0 co : ℕ)
    (h1 : aP.length = rP.length) (h2 : as.length = rs.length) (h3 : rP.length + 1 + rs.length = N)
    (h4 : ms.length + 1 = N) :
    ∃ res' co', Ruint.Gen.square_redc_step1 fuel N (aP ++ ai :: as) (m0 :: ms) inv N (rP ++ ri :: rs, co, rP.length)
        = ((res', co', rP.length + 1), true)
      ∧ res'.length = N
      ∧ ∀ ok, (sqOuter (2 ^ 64) inv (keepSq ((m0 :: ms).getLastD 0)) rP.length ai as (m0 :: ms)
                ⟨rP ++ ri :: rs, co, ok⟩).res = res'
            ∧ (sqOuter (2 ^ 64) inv (keepSq ((m0 :: ms).getLastD 0)) rP.length ai as (m0 :: ms)
                ⟨rP ++ ri :: rs, co, ok⟩).carryOuter = co' := by
  have hlt : rP.length < N := by omega
  have gA : (aP ++ ai :: as).getD rP.length 0 = ai := by rw [← h1]; simp
  have gR : (rP ++ ri :: rs).getD rP.length 0 = ri := by simp
  have gS : ∀ y, (rP ++ ri :: rs).set rP.length y = (rP ++ [y]) ++ rs := by intro y; simp
  have gW : ∀ y : ℕ, Rs.wadd 64 rP.length 1 = (rP ++ [y]).length := by
    intro y; unfold Rs.wadd; rw [Nat.mod_eq_of_lt (by omega)]; simp
  have gN1 : Rs.wsub 64 N 1 = ms.length := by unfold Rs.wsub; omega
  unfold Ruint.Gen.square_redc_step1
  simp only [decide_eq_true_eq, hlt, if_true, gA, gR, gS, cma_eq, gN1, getD_last]
  generalize hcm : carryingMulAdd (2 ^ 64) ai ai ri 0 = cm
  rw [gW cm.1]
  have hrow := row_loop_eq N hN (aP ++ ai :: as) rP.length cm.1 as rs (aP ++ [ai]) (rP ++ [cm.1]) cm.2 false fuel
    (by simp) h2 (by simp [h1]) (by simp; omega) (by omega)
  rw [gA] at hrow
  rw [hrow]
  dsimp only
  have hrl := sqRow_length (2 ^ 64) ai as rs cm.2 false h2
  generalize hrow' : sqRow (2 ^ 64) ai as rs cm.2 false = row at *
  obtain ⟨x0, tl, hres1⟩ : ∃ x0 tl, rP ++ [cm.1] ++ row.1 = x0 :: tl := by
    cases hc : rP ++ [cm.1] ++ row.1 with
    | nil => simp at hc
    | cons x0 tl => exact ⟨x0, tl, rfl⟩
  have htl : ms.length = tl.length := by
    have := congrArg List.length hres1
    simp at this; omega
  rw [hres1]
  simp only [List.getD_cons_zero, Rs.wmul]
  generalize hcm2 : carryingMulAdd (2 ^ 64) (x0 * inv % 2 ^ 64) m0 x0 0 = cm2
  obtain ⟨y, hy⟩ := red_loop_eq N hN (m0 :: ms) cm2.1 (x0 * inv % 2 ^ 64) ms tl [m0] [] x0 cm2.2 fuel
    (by simp) htl (by simp) (by simp; omega) (by omega)
  simp only [List.nil_append, List.length_singleton] at hy
  rw [hy]
  dsimp only
  have hredl := redRow_length (2 ^ 64) (x0 * inv % 2 ^ 64) ms tl cm2.2 htl
  generalize hred' : redRow (2 ^ 64) (x0 * inv % 2 ^ 64) ms tl cm2.2 = red at *
  simp only [← hredl, set_last]
  have hW : Rs.wadd 64 rP.length 1 = rP.length + 1 := by rw [gW 0]; simp
  have hlen1 : (rP ++ [cm.1]).length = rP.length + 1 := by simp
  rw [hlen1]
  have hdrop : (rP ++ ri :: rs).drop rP.length = ri :: rs := by simp
  have htake : (rP ++ ri :: rs).take rP.length = rP := by simp
  simp only [List.append_assoc, List.singleton_append] at hres1
  generalize (m0 :: ms).getLastD 0 = top
  by_cases hk : 4611686018427387903 ≤ top
  · simp only [ge_iff_le, hk, if_true]
    refine ⟨_, _, rfl, ?_, ?_⟩
    · simp; omega
    · intro ok
      unfold sqOuter keepSq T_sq
      simp only [hdrop, htake, hcm, hrow', hres1, List.headD_cons, List.tail_cons, hcm2, hred', ge_iff_le, hk, decide_true, if_true]
      have e : (2 : ℕ) ^ 64 * 2 ^ 64 = 2 ^ 128 := by norm_num
      have hw : Rs.wadd 128 (Rs.wadd 128 (Rs.wadd 128 co row.2.1) (Rs.wshl 128 row.2.2.toNat 64)) red.2
          = (co + row.2.1 + row.2.2.toNat * 2 ^ 64 + red.2) % 2 ^ 128 := by
        unfold Rs.wadd Rs.wshl
        generalize row.2.2.toNat = k
        omega
      rw [hw, e]
      refine ⟨rfl, ?_⟩
      omega
  · simp only [ge_iff_le, hk, if_false]
    refine ⟨_, _, rfl, ?_, ?_⟩
    · simp; omega
    · intro ok
      unfold sqOuter keepSq T_sq
      simp only [hdrop, htake, hcm, hrow', hres1, List.headD_cons, List.tail_cons, hcm2, hred', ge_iff_le, hk,
        decide_false, if_false, Bool.false_eq_true, Rs.oadd, and_self]

theorem split_at (l : List ℕ) (i : ℕ) (h : i < l.length) : ∃ p x s, l = p ++ x :: s ∧ p.length = i := by
  refine ⟨l.take i, l[i], l.drop (i + 1), ?_, ?_⟩
  · rw [List.getElem_cons_drop, List.take_append_drop]
  · simp; omega

open Ruint.Gen.RedcConsts in
theorem sq_outer_loop_eq (fuel N inv : ℕ) (hN : N < 2 ^ 64) (hf : N < fuel) (A : List ℕ) (m0 : ℕ) (ms : List ℕ)
    (hA : A.length = N) (h4 : ms.length + 1 = N) :
    ∀ (as aP res : List ℕ) (co : ℕ) (ok : Bool) (f : ℕ),
      A = aP ++ as → res.length = N → as.length < f →
      Rs.loop (Ruint.Gen.square_redc_step1 fuel N A (m0 :: ms) inv N) f (res, co, aP.length)
        = ((sqLoop (2 ^ 64) inv (keepSq ((m0 :: ms).getLastD 0)) (m0 :: ms) as aP.length ⟨res, co, ok⟩).res,
           (sqLoop (2 ^ 64) inv (keepSq ((m0 :: ms).getLastD 0)) (m0 :: ms) as aP.length ⟨res, co, ok⟩).carryOuter, N)
        ∧ (sqLoop (2 ^ 64) inv (keepSq ((m0 :: ms).getLastD 0)) (m0 :: ms) as aP.length ⟨res, co, ok⟩).res.length = N := by
  intro as
  induction as with
  | nil =>
    intro aP res co ok f hAe hres hfl
    obtain ⟨f, rfl⟩ : ∃ g, f = g + 1 := ⟨f - 1, by simp at hfl; omega⟩
    have : aP.length = N := by rw [← hA, hAe]; simp
    rw [loop_succ]
    unfold Ruint.Gen.square_redc_step1
    simp [sqLoop, hres, this]
  | cons ai as ih =>
    intro aP res co ok f hAe hres hfl
    obtain ⟨f, rfl⟩ : ∃ g, f = g + 1 := ⟨f - 1, by simp at hfl; omega⟩
    simp only [List.length_cons] at hfl
    have hlenA : aP.length + (as.length + 1) = N := by rw [← hA, hAe]; simp
    obtain ⟨rP, ri, rs, hr, hrP⟩ := split_at res aP.length (by omega)
    have hrs : rP.length + 1 + rs.length = N := by
      have := congrArg List.length hr
      simp at this; omega
    obtain ⟨res', co', hstep, hlen, hmod⟩ := sq_outer_iter fuel N inv hN hf aP as rP rs ms ai ri m0 co
      hrP.symm (by omega) hrs h4
    rw [loop_succ, hAe, hr, ← hrP, hstep]
    simp only [if_true]
    have e : aP ++ ai :: as = (aP ++ [ai]) ++ as := by simp
    have hl1 : rP.length + 1 = (aP ++ [ai]).length := by simp [hrP]
    have := ih (aP ++ [ai]) res' co'
      (sqOuter (2 ^ 64) inv (keepSq ((m0 :: ms).getLastD 0)) rP.length ai as (m0 :: ms) ⟨rP ++ ri :: rs, co, ok⟩).ok f
      (by rw [hAe]; simp) hlen (by omega)
    rw [← hAe, hl1, this.1]
    have hs : sqOuter (2 ^ 64) inv (keepSq ((m0 :: ms).getLastD 0)) rP.length ai as (m0 :: ms) ⟨rP ++ ri :: rs, co, ok⟩
        = ⟨res', co', (sqOuter (2 ^ 64) inv (keepSq ((m0 :: ms).getLastD 0)) rP.length ai as (m0 :: ms)
            ⟨rP ++ ri :: rs, co, ok⟩).ok⟩ := by
      rw [← (hmod ok).1, ← (hmod ok).2]
    rw [sqLoop, hs, ← hl1]
    rw [← hl1] at this
    exact ⟨rfl, this.2⟩

open Ruint.Gen.RedcConsts in
/-- **`square_redc` as generated from the source** equals the C11 model (result component) for every `N ≥ 1`. -/
theorem square_redc_eq (a md : List ℕ) (inv : ℕ) (hN : 0 < md.length) (hN64 : md.length < 2 ^ 64)
    (ha : a.length = md.length) (fuel : ℕ) (hf : md.length < fuel) :
    Ruint.Gen.square_redc fuel md.length a md inv = (squareRedcCore (2 ^ 64) keepSq inv a md).1 := by
  cases hmd : md with
  | nil => simp [hmd] at hN
  | cons m0 ms =>
    rw [hmd] at ha hN64 hf
    simp only [List.length_cons] at ha hN64 hf
    have := sq_outer_loop_eq fuel (ms.length + 1) inv hN64 hf a m0 ms ha rfl a []
      (List.replicate (ms.length + 1) 0) 0 (preOk (2 ^ 64) inv a (m0 :: ms)) fuel (by simp) (by simp) (by omega)
    simp only [List.length_nil] at this
    obtain ⟨hl, hlen⟩ := this
    unfold Ruint.Gen.square_redc squareRedcCore
    simp only [List.length_cons, hl]
    have := reduce1_carry_eq _ (m0 :: ms)
      (decide ((sqLoop (2 ^ 64) inv (keepSq ((m0 :: ms).getLastD 0)) (m0 :: ms) a 0
        ⟨List.replicate (ms.length + 1) 0, 0, preOk (2 ^ 64) inv a (m0 :: ms)⟩).carryOuter > 0))
      (by rw [hlen]; simp) (by rw [hlen]; exact hN64) fuel (by rw [hlen]; exact hf)
    rw [hlen] at this
    exact this

end Ruint.GenRedcSquare
