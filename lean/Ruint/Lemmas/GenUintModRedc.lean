import Ruint.Lemmas.GenUintModCanon
import Ruint.Model.Redc
import Ruint.Lemmas.GenRedcLoops
import Ruint.Lemmas.GenRedcSquare
import Ruint.Lemmas.RedcSq
/-! Part of the ties of `Gen/WordsUintMod.lean` (split per property so that a change to one source function breaks only the
    obligations of the properties resting on it). -/
namespace Ruint.GenUintMod
open Ruint

/-! ### `mul_redc`, `square_redc`

The models `Redc.uintMulRedc` / `uintSquareRedc` also mirror the `debug_assert!`s of the kernels and of the wrappers
(`result < modulus`), which the generated code does not contain: the ties are conditional on the model's success. The
only facts needed besides the kernel ties are structural: the kernels return `N` limbs. -/

open Ruint.Redc Ruint.Gen.RedcConsts

theorem sub_length (B : ℕ) : ∀ (ls rs : List ℕ) (bw : Bool), ls.length = rs.length →
    (sub B ls rs bw).1.length = ls.length := by
  intro ls
  induction ls with
  | nil => intro rs bw _; simp [sub]
  | cons l ls ih =>
    intro rs bw h
    cases rs with
    | nil => simp at h
    | cons r rs =>
      simp only [List.length_cons] at h
      rw [Ruint.GenRedcLoops.sub_cons]
      simp only [List.length_cons]
      rw [ih rs _ (by omega)]

theorem reduce1Carry_length (B : ℕ) (v md : List ℕ) (c : Bool) (h : v.length = md.length) :
    (reduce1Carry B v md c).length = md.length := by
  have hs := sub_length B v md false h
  unfold reduce1Carry
  obtain ⟨p, hp⟩ : ∃ p, p = sub B v md false := ⟨_, rfl⟩
  rw [← hp] at hs ⊢
  obtain ⟨rd, bw⟩ := p
  simp only at hs ⊢
  split <;> omega

theorem mulOuterRaw_length (B inv b : ℕ) (a md res : List ℕ) (carry : Bool) (hN : 0 < res.length)
    (hla : a.length = res.length) (hlm : md.length = res.length) :
    (mulOuterRaw B inv b a md res carry).1.length = res.length := by
  cases res with
  | nil => simp at hN
  | cons r0 rs =>
  cases a with
  | nil => simp at hla
  | cons a0 as =>
  cases md with
  | nil => simp at hlm
  | cons m0 ms =>
    simp only [List.length_cons, Nat.add_right_cancel_iff] at hla hlm
    simp only [mulOuterRaw, List.length_append, List.length_cons, List.length_nil]
    rw [Ruint.GenRedcLoops.mulInner_length B b _ as ms rs _ _ (by omega) (by omega)]
    omega

theorem mulOuter_length (B inv : ℕ) (keep : Bool) (b : ℕ) (a md : List ℕ) (s : MulSt)
    (hN : 0 < s.res.length) (hla : a.length = s.res.length) (hlm : md.length = s.res.length) :
    (mulOuter B inv keep b a md s).res.length = s.res.length := by
  rw [mulOuter_eq B inv keep b a md s hN hla hlm]
  cases keep <;> simp [mulOuterRaw_length B inv b a md s.res s.carry hN hla hlm]

theorem mulLoop_length (B inv : ℕ) (keep : Bool) (a md : List ℕ) : ∀ (bs : List ℕ) (s : MulSt),
    0 < s.res.length → a.length = s.res.length → md.length = s.res.length →
    (mulLoop B inv keep a md bs s).res.length = s.res.length := by
  intro bs
  induction bs with
  | nil => intro s _ _ _; simp [mulLoop]
  | cons b bs ih =>
    intro s hN hla hlm
    have h := mulOuter_length B inv keep b a md s hN hla hlm
    simp only [mulLoop]
    rw [ih _ (by rw [h]; exact hN) (by rw [h]; exact hla) (by rw [h]; exact hlm), h]

/-- the model of `mul_redc::<N>` returns `N` limbs (structurally: no range hypotheses) -/
theorem mulRedcCore_length (B : ℕ) (kM : ℕ → Bool) (inv : ℕ) (a b md : List ℕ) (hN : 0 < md.length)
    (hla : a.length = md.length) : (mulRedcCore B kM inv a b md).1.length = md.length := by
  unfold mulRedcCore
  simp only
  apply reduce1Carry_length
  rw [mulLoop_length] <;> simp [hN, hla]

theorem sqOuterRaw_length (B inv ai : ℕ) (as md rl rs : List ℕ) (ri : ℕ) (hlas : as.length = rs.length)
    (hlmd : md.length = rl.length + rs.length + 1) :
    (sqOuterRaw B inv rl.length ai as md (rl ++ ri :: rs)).1.length + 1 = md.length := by
  cases md with
  | nil => simp at hlmd
  | cons m0 ms =>
    have hd : (rl ++ ri :: rs).drop rl.length = ri :: rs := by simp
    have ht : (rl ++ ri :: rs).take rl.length = rl := by simp
    simp only [List.length_cons] at hlmd
    simp only [sqOuterRaw, hd, ht]
    rw [Ruint.GenRedcSquare.redRow_length]
    · simp
    · cases rl with
      | nil =>
        simp only [List.nil_append, List.tail_cons, List.length_nil] at hlmd ⊢
        rw [Ruint.GenRedcSquare.sqRow_length B ai as rs _ _ hlas]; omega
      | cons x xs =>
        simp only [List.cons_append, List.tail_cons, List.length_append, List.length_cons] at hlmd ⊢
        rw [Ruint.GenRedcSquare.sqRow_length B ai as rs _ _ hlas]; omega

theorem sqLoop_length (B inv : ℕ) (keep : Bool) (md : List ℕ) : ∀ (as : List ℕ) (i : ℕ) (s : SqSt),
    s.res.length = md.length → i + as.length = md.length →
    (sqLoop B inv keep md as i s).res.length = md.length := by
  intro as
  induction as with
  | nil => intro i s h _; simpa [sqLoop] using h
  | cons ai as ih =>
    intro i s hres hi
    simp only [List.length_cons] at hi
    obtain ⟨rl, ri, rs, hsp, hrl⟩ := Ruint.GenRedcSquare.split_at s.res i (by omega)
    have hmdne : md ≠ [] := by intro e; subst e; simp at hi
    have hlen : rl.length + rs.length + 1 = md.length := by
      rw [← hres, hsp]; simp; omega
    have hraw := sqOuterRaw_length B inv ai as md rl rs ri (by omega) (by omega)
    rw [hrl, ← hsp] at hraw
    simp only [sqLoop]
    apply ih
    · rw [sqOuter_eq B inv keep i ai as md s rl rs ri hsp hrl hmdne]
      cases keep <;> simp [hraw]
    · omega

/-- the model of `square_redc::<N>` returns `N` limbs (structurally) -/
theorem squareRedcCore_length (B : ℕ) (kS : ℕ → Bool) (inv : ℕ) (a md : List ℕ)
    (hla : a.length = md.length) : (squareRedcCore B kS inv a md).1.length = md.length := by
  unfold squareRedcCore
  simp only
  apply reduce1Carry_length
  rw [sqLoop_length] <;> simp [hla]

/-- `Uint::from_limbs` as generated accepts what the model's `from_limbs` + `debug_assert!(result < modulus)` accept -/
theorem from_limbs_of_checked (bits : ℕ) (hN : nlimbs bits < 2 ^ 64) (r0 md r : List ℕ)
    (hl : r0.length = nlimbs bits) (h : fromLimbsChecked bits r0 md = some r) :
    Ruint.Gen.uint_from_limbs bits (nlimbs bits) r0 = some r := by
  rw [from_limbs_eq bits hN r0 hl]
  unfold fromLimbsChecked at h
  unfold Ruint.Canon.fromLimbs Ruint.Canon.top
  rw [List.getLastD_eq_getLast?] at h
  by_cases ht : r0.getLast?.getD 0 > mask bits
  · by_cases h64 : bits % 64 = 0
    · have hs : Ruint.Canon.shouldMask bits = false := by
        rcases hc : Ruint.Canon.shouldMask bits with _ | _
        · rfl
        · exact absurd h64 ((Ruint.Canon.shouldMask_eq bits).mp hc).2
      simp only [h64, ne_eq, not_true_eq_false, decide_false, Bool.false_and, Bool.false_eq_true, if_false] at h
      simp only [hs, Bool.false_and, Bool.false_eq_true, if_false]
      by_cases hv : val r0 < val md
      · simpa [hv] using h
      · simp [hv] at h
    · simp only [ht, h64, ne_eq, not_false_eq_true, decide_true, Bool.and_self, if_true] at h
      simp at h
  · simp only [ht, decide_false, Bool.and_false, Bool.false_eq_true, if_false] at h ⊢
    by_cases hv : val r0 < val md
    · simpa [hv] using h
    · simp [hv] at h

/-- **`Uint::mul_redc` as generated from `src/modular.rs`** (`BITS == 0` arm, generated `mul_redc::<N>`, `from_limbs`)
    returns what the model returns whenever the model does not report a fired (debug) assertion. -/
theorem mul_redc_eq (bits : ℕ) (hN : nlimbs bits < 2 ^ 64) (a b md : List ℕ) (inv : ℕ)
    (ha : a.length = nlimbs bits) (hb : b.length = nlimbs bits) (hmd : md.length = nlimbs bits)
    (f : ℕ) (hf : nlimbs bits < f) (r : List ℕ)
    (hm : Ruint.Redc.uintMulRedc keepMul bits inv a b md = some r) :
    Ruint.Gen.uint_mul_redc f bits (nlimbs bits) a b md inv = some r := by
  unfold Ruint.Gen.uint_mul_redc
  unfold Ruint.Redc.uintMulRedc at hm
  by_cases h0 : bits = 0
  · subst h0
    simp only [if_true] at hm
    simp only [Option.some.injEq] at hm
    subst hm
    simp [nlimbs]
  · have hbeq : (bits == 0) = false := by simp [h0]
    have hn := nlimbs_pos bits (Nat.pos_of_ne_zero h0)
    simp only [h0, if_false] at hm
    simp only [hbeq, Bool.false_eq_true, if_false]
    have hk := Ruint.GenRedcLoops.mul_redc_eq a b md inv (by omega) (by omega) (by omega) (by omega) f (by omega)
    rw [hmd] at hk
    rw [hk]
    have hW : (2 : ℕ) ^ 64 = W := rfl
    rw [hW]
    have hlen := mulRedcCore_length W keepMul inv a b md (by omega) (by omega)
    unfold mulRedc at hm
    simp only at hm
    obtain ⟨c, hc⟩ : ∃ c, c = mulRedcCore W keepMul inv a b md := ⟨_, rfl⟩
    rw [← hc] at hm hlen ⊢
    obtain ⟨r0, ok⟩ := c
    simp only at hm hlen ⊢
    cases ok with
    | false => simp at hm
    | true =>
      simp only [if_true] at hm
      rw [from_limbs_of_checked bits hN r0 md r (by omega) hm]

/-- **`Uint::square_redc` as generated from `src/modular.rs`**: the same for `square_redc::<N>`. -/
theorem square_redc_eq (bits : ℕ) (hN : nlimbs bits < 2 ^ 64) (a md : List ℕ) (inv : ℕ)
    (ha : a.length = nlimbs bits) (hmd : md.length = nlimbs bits)
    (f : ℕ) (hf : nlimbs bits < f) (r : List ℕ)
    (hm : Ruint.Redc.uintSquareRedc keepSq bits inv a md = some r) :
    Ruint.Gen.uint_square_redc f bits (nlimbs bits) a md inv = some r := by
  unfold Ruint.Gen.uint_square_redc
  unfold Ruint.Redc.uintSquareRedc at hm
  by_cases h0 : bits = 0
  · subst h0
    simp only [if_true] at hm
    simp only [Option.some.injEq] at hm
    subst hm
    simp [nlimbs]
  · have hbeq : (bits == 0) = false := by simp [h0]
    have hn := nlimbs_pos bits (Nat.pos_of_ne_zero h0)
    simp only [h0, if_false] at hm
    simp only [hbeq, Bool.false_eq_true, if_false]
    have hk := Ruint.GenRedcSquare.square_redc_eq a md inv (by omega) (by omega) (by omega) f (by omega)
    rw [hmd] at hk
    rw [hk]
    have hW : (2 : ℕ) ^ 64 = W := rfl
    rw [hW]
    have hlen := squareRedcCore_length W keepSq inv a md (by omega)
    unfold squareRedc at hm
    simp only at hm
    obtain ⟨c, hc⟩ : ∃ c, c = squareRedcCore W keepSq inv a md := ⟨_, rfl⟩
    rw [← hc] at hm hlen ⊢
    obtain ⟨r0, ok⟩ := c
    simp only at hm hlen ⊢
    cases ok with
    | false => simp at hm
    | true =>
      simp only [if_true] at hm
      rw [from_limbs_of_checked bits hN r0 md r (by omega) hm]


end Ruint.GenUintMod
