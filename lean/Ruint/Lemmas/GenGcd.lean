import Ruint.Lemmas.GenLehmer
import Ruint.Lemmas.LehmerFrom
import Ruint.Lemmas.LehmerApply
import Ruint.Lemmas.Gcd
import Ruint.Lemmas.GcdExt
import Ruint.Gen.WordsGcd
import Ruint.Model.Gcd
import Ruint.Model.Modular

/-! `gcd`, `gcd_extended`, `inv_mod` GENERATED from `src/algorithms/gcd/mod.rs` in the translator's *value mode*
    (`Ruint.Gen.val_gcd`, `val_gcd_extended`, `val_inv_mod`: fuelled `Rs.loop`s that stop when `b = 0`, result slot for
    panics) equal the hand-written L2 models `Ruint.Gcd.gcd`, `Ruint.Gcd.gcdExtended`, `Ruint.Modular.invMod` (loops with
    fuel `b + 1`).

    Shape: the generated loop and the model loop agree for EQUAL fuel without any invariant (`*_sim`); under the loop
    invariant (`b ≤ a < 2^bits`) the model loop does not depend on its fuel once it exceeds `b` (`*_fuel`: `b` strictly
    decreases — `a % b < b` in the identity arm, the contract of `Matrix::from` in the matrix arm). -/
namespace Ruint.GenGcd
open Ruint Ruint.Lehmer Ruint.GenLehmer

theorem beq_ident (m : Mat) : (m == ident) = decide (m = ident) := by
  by_cases h : m = ident
  · simp [h]
  · simp [h]

/-! ### `gcd` -/

/-- what the generated `gcd` returns from the final loop state -/
def gcdOut (st : (ℕ × ℕ) × Option (Option ℕ)) : Option ℕ := st.2.getD (some st.1.1)

theorem gcd_step_eq (bits L a b : ℕ) (sl : Option (Option ℕ)) :
    Ruint.Gen.val_gcd_step1 bits L ((a, b), sl) =
      if b = 0 then (((a, b), sl), false)
      else match matFrom a b with
        | none => (((a, b), some none), false)
        | some m =>
          if m = ident then (((b, a % b), none), true)
          else match Lehmer.apply bits m a b with
            | none => (((a, b), some none), false)
            | some p => (((p.1, p.2), none), true) := by
  unfold Ruint.Gen.val_gcd_step1
  by_cases hb : b = 0
  · simp [hb]
  · have h1 : (b != 0) = true := by simp [hb]
    simp only [h1, if_true, hb, if_false, beq_ident, decide_eq_true_eq]
    rfl

/-- equal fuel: the generated loop is the model loop -/
theorem gcd_sim (bits L : ℕ) : ∀ (g a b : ℕ),
    gcdOut (Rs.loop (Ruint.Gen.val_gcd_step1 bits L) g ((a, b), none)) = Gcd.gcdLoop bits g a b := by
  intro g
  induction g with
  | zero => intro a b; simp [loop_zero, Gcd.gcdLoop, gcdOut]
  | succ g ih =>
    intro a b
    rw [loop_succ, gcd_step_eq]
    unfold Gcd.gcdLoop
    by_cases hb : b = 0
    · simp [hb, gcdOut]
    · simp only [hb, if_false]
      cases hm : matFrom a b with
      | none => simp [gcdOut]
      | some m =>
        simp only
        by_cases hid : m = ident
        · simp only [hid, if_true]
          exact ih _ _
        · simp only [hid, if_false]
          cases hap : Lehmer.apply bits m a b with
          | none => simp [gcdOut]
          | some p =>
            obtain ⟨c, d⟩ := p
            simp only [if_true]
            exact ih _ _

/-- **`algorithms::gcd` as generated (value mode)** = the C12 model -/
theorem gcd_eq (bits L a b : ℕ) (ha : a < 2 ^ bits) (hb : b < 2 ^ bits) (f : ℕ) (hf : min a b + 1 < f) :
    Ruint.Gen.val_gcd f bits L a b = Ruint.Gcd.gcd bits a b := by
  unfold Ruint.Gen.val_gcd Ruint.Gcd.gcd
  by_cases h : b > a
  · have hmin : min a b = a := by omega
    simp only [h, decide_true, if_true]
    have := gcd_sim bits L f b a
    unfold gcdOut at this
    rw [this, Gcd.gcdLoop_spec matFrom_contract bits f b a hb (by omega) (by omega),
      Gcd.gcdLoop_spec matFrom_contract bits (a + 1) b a hb (by omega) (by omega)]
  · have hmin : min a b = b := by omega
    simp only [h, decide_false, Bool.false_eq_true, if_false]
    have := gcd_sim bits L f a b
    unfold gcdOut at this
    rw [this, Gcd.gcdLoop_spec matFrom_contract bits f a b ha (by omega) (by omega),
      Gcd.gcdLoop_spec matFrom_contract bits (b + 1) a b ha (by omega) (by omega)]

theorem one_mod (bits : ℕ) (hb : bits ≠ 0) : 1 % 2 ^ bits = 1 :=
  Nat.mod_eq_of_lt (Nat.one_lt_two_pow hb)

/-! ### `gcd_extended` -/

/-- the generated loop state of a model state -/
def xTup (s : Gcd.XSt) : ℕ × ℕ × ℕ × ℕ × ℕ × ℕ × Bool := (s.a, s.b, s.s0, s.s1, s.t0, s.t1, s.even)

abbrev XSlot := Option (Option (ℕ × ℕ × ℕ × Bool))

/-- model outcome `r` versus generated loop state `st`: `some s'` = the state `s'` with an empty result slot,
    `none` (panic) = result slot `some none`. -/
def xRel (r : Option Gcd.XSt) (st : (ℕ × ℕ × ℕ × ℕ × ℕ × ℕ × Bool) × XSlot) : Prop :=
  match r with
  | some s' => st = (xTup s', none)
  | none => st.2 = some none

theorem x_step_zero (bits L : ℕ) (s : Gcd.XSt) (sl : XSlot) (hb : s.b = 0) :
    Ruint.Gen.val_gcd_extended_step1 bits L (xTup s, sl) = ((xTup s, sl), false) := by
  unfold Ruint.Gen.val_gcd_extended_step1
  simp [xTup, hb]

theorem x_step_panic1 (bits L : ℕ) (s : Gcd.XSt) (sl : XSlot) (hb : s.b ≠ 0) (hm : matFrom s.a s.b = none) :
    (Ruint.Gen.val_gcd_extended_step1 bits L (xTup s, sl)).1.2 = some none
      ∧ (Ruint.Gen.val_gcd_extended_step1 bits L (xTup s, sl)).2 = false := by
  unfold Ruint.Gen.val_gcd_extended_step1
  have h1 : (s.b != 0) = true := by simp [hb]
  simp only [xTup, h1, if_true, hm, and_self]

theorem x_step_panic2 (bits L : ℕ) (s : Gcd.XSt) (sl : XSlot) (m : Mat) (hb : s.b ≠ 0)
    (hm : matFrom s.a s.b = some m) (hx : Gcd.xStep bits m s = none) :
    (Ruint.Gen.val_gcd_extended_step1 bits L (xTup s, sl)).1.2 = some none
      ∧ (Ruint.Gen.val_gcd_extended_step1 bits L (xTup s, sl)).2 = false := by
  unfold Ruint.Gen.val_gcd_extended_step1
  have h1 : (s.b != 0) = true := by simp [hb]
  simp only [xTup, h1, if_true, hm, beq_ident]
  unfold Gcd.xStep at hx
  by_cases hid : m = ident
  · simp [hid] at hx
  · simp only [hid, if_false, decide_false, Bool.false_eq_true] at hx ⊢
    cases h2 : Lehmer.apply bits m s.a s.b with
    | none => simp
    | some p2 =>
      cases h3 : Lehmer.apply bits m s.s0 s.s1 with
      | none => simp
      | some p3 =>
        cases h4 : Lehmer.apply bits m s.t0 s.t1 with
        | none => simp
        | some p4 => simp [h2, h3, h4] at hx

theorem x_step_ok (bits L : ℕ) (s s' : Gcd.XSt) (sl : XSlot) (m : Mat) (hb : s.b ≠ 0)
    (hm : matFrom s.a s.b = some m) (hx : Gcd.xStep bits m s = some s') :
    Ruint.Gen.val_gcd_extended_step1 bits L (xTup s, sl) = ((xTup s', none), true) := by
  unfold Ruint.Gen.val_gcd_extended_step1
  have h1 : (s.b != 0) = true := by simp [hb]
  simp only [xTup, h1, if_true, hm, beq_ident]
  unfold Gcd.xStep at hx
  by_cases hid : m = ident
  · simp only [hid, if_true, Option.some.injEq] at hx
    subst hx
    simp only [hid, decide_true, if_true, usub, umul]
  · simp only [hid, if_false, decide_false, Bool.false_eq_true] at hx ⊢
    cases h2 : Lehmer.apply bits m s.a s.b with
    | none => simp [h2] at hx
    | some p2 =>
      cases h3 : Lehmer.apply bits m s.s0 s.s1 with
      | none => simp [h2, h3] at hx
      | some p3 =>
        cases h4 : Lehmer.apply bits m s.t0 s.t1 with
        | none => simp [h2, h3, h4] at hx
        | some p4 =>
          obtain ⟨a', b'⟩ := p2
          obtain ⟨s0', s1'⟩ := p3
          obtain ⟨t0', t1'⟩ := p4
          simp only [h2, h3, h4, Option.some.injEq] at hx
          subst hx
          rfl

/-- equal fuel: the generated loop is the model loop -/
theorem x_sim (bits L : ℕ) : ∀ (g : ℕ) (s : Gcd.XSt),
    xRel (Gcd.xLoop bits g s) (Rs.loop (Ruint.Gen.val_gcd_extended_step1 bits L) g (xTup s, none)) := by
  intro g
  induction g with
  | zero => intro s; simp [loop_zero, Gcd.xLoop, xRel]
  | succ g ih =>
    intro s
    rw [loop_succ, Gcd.xLoop]
    by_cases hb : s.b = 0
    · rw [x_step_zero bits L s none hb]
      simp [hb, xRel]
    · rw [if_neg hb]
      cases hm : matFrom s.a s.b with
      | none =>
        obtain ⟨e1, e2⟩ := x_step_panic1 bits L s none hb hm
        simp [e1, e2, xRel]
      | some m =>
        dsimp only
        cases hx : Gcd.xStep bits m s with
        | none =>
          obtain ⟨e1, e2⟩ := x_step_panic2 bits L s none m hb hm hx
          simp [e1, e2, xRel]
        | some s' =>
          rw [x_step_ok bits L s s' none m hb hm hx]
          simp only [if_true]
          exact ih s'

/-- one iteration keeps `b ≤ a < 2^bits` and decreases `b` -/
theorem xStep_dec (bits : ℕ) (m : Mat) (s s' : Gcd.XSt) (ha : s.a < 2 ^ bits) (hba : s.b ≤ s.a) (hb : s.b ≠ 0)
    (hm : matFrom s.a s.b = some m) (hx : Gcd.xStep bits m s = some s') :
    s'.b < s.b ∧ s'.b ≤ s'.a ∧ s'.a < 2 ^ bits := by
  have hb0 : 0 < s.b := Nat.pos_of_ne_zero hb
  unfold Gcd.xStep at hx
  by_cases hid : m = ident
  · simp only [hid, if_true, Option.some.injEq] at hx
    subst hx
    simp only [GcdExt.usub_umul_div (2 ^ bits) s.a s.b ha]
    have := Nat.mod_lt s.a hb0
    omega
  · obtain ⟨m', hm', hc⟩ := matFrom_contract s.a s.b hba hb0
    rw [hm] at hm'
    cases hm'
    rcases Gcd.contract_cases s.a s.b m hc with h | h
    · exact absurd h hid
    · obtain ⟨c, d, happ, -, hdc, hdb, hca, -⟩ := apply_exact bits s.a s.b m ha hba h
      simp only [hid, if_false, happ] at hx
      cases h3 : Lehmer.apply bits m s.s0 s.s1 with
      | none => simp [h3] at hx
      | some p3 =>
        cases h4 : Lehmer.apply bits m s.t0 s.t1 with
        | none => simp [h3, h4] at hx
        | some p4 =>
          simp only [h3, h4, Option.some.injEq] at hx
          subst hx
          dsimp only
          omega

/-- under the invariant the model loop does not depend on its fuel (it leaves through `b = 0`) -/
theorem xLoop_fuel (bits : ℕ) : ∀ (g g' : ℕ) (s : Gcd.XSt), s.a < 2 ^ bits → s.b ≤ s.a → s.b < g → s.b < g' →
    Gcd.xLoop bits g s = Gcd.xLoop bits g' s := by
  intro g
  induction g with
  | zero => intro g' s _ _ h; omega
  | succ g ih =>
    intro g' s ha hba hg hg'
    cases g' with
    | zero => omega
    | succ g' =>
      rw [Gcd.xLoop, Gcd.xLoop]
      by_cases hb : s.b = 0
      · rw [if_pos hb, if_pos hb]
      · rw [if_neg hb, if_neg hb]
        cases hm : matFrom s.a s.b with
        | none => rfl
        | some m =>
          dsimp only
          cases hx : Gcd.xStep bits m s with
          | none => rfl
          | some s' =>
            obtain ⟨h1, h2, h3⟩ := xStep_dec bits m s s' ha hba hb hm hx
            exact ih g' s' h3 h2 (by omega) (by omega)

/-- **`algorithms::gcd_extended` as generated (value mode)** = the C12 model -/
theorem gcd_extended_eq (bits L a b : ℕ) (ha : a < 2 ^ bits) (hb : b < 2 ^ bits) (f : ℕ) (hf : min a b + 1 < f) :
    Ruint.Gen.val_gcd_extended f bits L a b = Ruint.Gcd.gcdExtended bits a b := by
  unfold Ruint.Gen.val_gcd_extended Ruint.Gcd.gcdExtended
  by_cases h0 : bits = 0
  · simp [h0]
  · have hne : (bits == 0) = false := by simp [h0]
    simp only [hne, Bool.false_eq_true, if_false, h0, one_mod bits h0]
    by_cases h : a < b
    · have hmin : min a b = a := by omega
      simp only [h, decide_true, if_true]
      have hs := x_sim bits L f ⟨b, a, 1, 0, 0, 1, true⟩
      rw [xLoop_fuel bits f (a + 1) ⟨b, a, 1, 0, 0, 1, true⟩ hb (by dsimp only; omega) (by dsimp only; omega)
        (by dsimp only; omega)] at hs
      cases hl : Gcd.xLoop bits (a + 1) ⟨b, a, 1, 0, 0, 1, true⟩ with
      | none =>
        rw [hl] at hs
        simp only [xRel, xTup] at hs
        simp only [hs, Option.getD_some]
      | some s' =>
        rw [hl] at hs
        simp only [xRel, xTup] at hs
        simp only [hs, Option.getD_none, usub]
        cases s'.even <;> simp
    · have hmin : min a b = b := by omega
      simp only [h, decide_false, Bool.false_eq_true, if_false]
      have hs := x_sim bits L f ⟨a, b, 1, 0, 0, 1, true⟩
      rw [xLoop_fuel bits f (b + 1) ⟨a, b, 1, 0, 0, 1, true⟩ ha (by dsimp only; omega) (by dsimp only; omega)
        (by dsimp only; omega)] at hs
      cases hl : Gcd.xLoop bits (b + 1) ⟨a, b, 1, 0, 0, 1, true⟩ with
      | none =>
        rw [hl] at hs
        simp only [xRel, xTup] at hs
        simp only [hs, Option.getD_some]
      | some s' =>
        rw [hl] at hs
        simp only [xRel, xTup] at hs
        simp only [hs, Option.getD_none, usub]
        cases s'.even <;> simp

/-! ### `inv_mod` -/

/-- the generated loop state of a model state -/
def iTup (s : Modular.InvSt) : ℕ × ℕ × ℕ × ℕ × Bool := (s.a, s.b, s.t0, s.t1, s.even)

abbrev ISlot := Option (Option (Option ℕ))

def iRel (r : Option Modular.InvSt) (st : (ℕ × ℕ × ℕ × ℕ × Bool) × ISlot) : Prop :=
  match r with
  | some s' => st = (iTup s', none)
  | none => st.2 = some none

theorem i_step_zero (bits L : ℕ) (s : Modular.InvSt) (sl : ISlot) (hb : s.b = 0) :
    Ruint.Gen.val_inv_mod_step1 bits L (iTup s, sl) = ((iTup s, sl), false) := by
  unfold Ruint.Gen.val_inv_mod_step1
  simp [iTup, hb]

theorem i_step_panic1 (bits L : ℕ) (s : Modular.InvSt) (sl : ISlot) (hb : s.b ≠ 0) (hm : matFrom s.a s.b = none) :
    (Ruint.Gen.val_inv_mod_step1 bits L (iTup s, sl)).1.2 = some none
      ∧ (Ruint.Gen.val_inv_mod_step1 bits L (iTup s, sl)).2 = false := by
  unfold Ruint.Gen.val_inv_mod_step1
  have h1 : (s.b != 0) = true := by simp [hb]
  simp only [iTup, h1, if_true, hm, and_self]

theorem i_step_panic2 (bits L : ℕ) (s : Modular.InvSt) (sl : ISlot) (m : Mat) (hb : s.b ≠ 0)
    (hm : matFrom s.a s.b = some m) (hx : Modular.invStep bits m s = none) :
    (Ruint.Gen.val_inv_mod_step1 bits L (iTup s, sl)).1.2 = some none
      ∧ (Ruint.Gen.val_inv_mod_step1 bits L (iTup s, sl)).2 = false := by
  unfold Ruint.Gen.val_inv_mod_step1
  have h1 : (s.b != 0) = true := by simp [hb]
  simp only [iTup, h1, if_true, hm, beq_ident]
  unfold Modular.invStep at hx
  by_cases hid : m = ident
  · simp [hid] at hx
  · simp only [hid, if_false, decide_false, Bool.false_eq_true] at hx ⊢
    cases h2 : Lehmer.apply bits m s.a s.b with
    | none => simp
    | some p2 =>
      cases h4 : Lehmer.apply bits m s.t0 s.t1 with
      | none => simp
      | some p4 => simp [h2, h4] at hx

theorem i_step_ok (bits L : ℕ) (s s' : Modular.InvSt) (sl : ISlot) (m : Mat) (hb : s.b ≠ 0)
    (hm : matFrom s.a s.b = some m) (hx : Modular.invStep bits m s = some s') :
    Ruint.Gen.val_inv_mod_step1 bits L (iTup s, sl) = ((iTup s', none), true) := by
  unfold Ruint.Gen.val_inv_mod_step1
  have h1 : (s.b != 0) = true := by simp [hb]
  simp only [iTup, h1, if_true, hm, beq_ident]
  unfold Modular.invStep at hx
  by_cases hid : m = ident
  · simp only [hid, if_true, Option.some.injEq] at hx
    subst hx
    simp only [hid, decide_true, if_true, usub, umul]
  · simp only [hid, if_false, decide_false, Bool.false_eq_true] at hx ⊢
    cases h2 : Lehmer.apply bits m s.a s.b with
    | none => simp [h2] at hx
    | some p2 =>
      cases h4 : Lehmer.apply bits m s.t0 s.t1 with
      | none => simp [h2, h4] at hx
      | some p4 =>
        obtain ⟨a', b'⟩ := p2
        obtain ⟨t0', t1'⟩ := p4
        simp only [h2, h4, Option.some.injEq] at hx
        subst hx
        rfl

/-- equal fuel: the generated loop is the model loop -/
theorem i_sim (bits L : ℕ) : ∀ (g : ℕ) (s : Modular.InvSt),
    iRel (Modular.invLoop bits g s) (Rs.loop (Ruint.Gen.val_inv_mod_step1 bits L) g (iTup s, none)) := by
  intro g
  induction g with
  | zero => intro s; simp [loop_zero, Modular.invLoop, iRel]
  | succ g ih =>
    intro s
    rw [loop_succ, Modular.invLoop]
    by_cases hb : s.b = 0
    · rw [i_step_zero bits L s none hb]
      simp [hb, iRel]
    · rw [if_neg hb]
      cases hm : matFrom s.a s.b with
      | none =>
        obtain ⟨e1, e2⟩ := i_step_panic1 bits L s none hb hm
        simp [e1, e2, iRel]
      | some m =>
        dsimp only
        cases hx : Modular.invStep bits m s with
        | none =>
          obtain ⟨e1, e2⟩ := i_step_panic2 bits L s none m hb hm hx
          simp [e1, e2, iRel]
        | some s' =>
          rw [i_step_ok bits L s s' none m hb hm hx]
          simp only [if_true]
          exact ih s'

/-- one iteration keeps `b ≤ a < 2^bits` and decreases `b` -/
theorem invStep_dec (bits : ℕ) (m : Mat) (s s' : Modular.InvSt) (ha : s.a < 2 ^ bits) (hba : s.b ≤ s.a)
    (hb : s.b ≠ 0) (hm : matFrom s.a s.b = some m) (hx : Modular.invStep bits m s = some s') :
    s'.b < s.b ∧ s'.b ≤ s'.a ∧ s'.a < 2 ^ bits := by
  have hb0 : 0 < s.b := Nat.pos_of_ne_zero hb
  unfold Modular.invStep at hx
  by_cases hid : m = ident
  · simp only [hid, if_true, Option.some.injEq] at hx
    subst hx
    simp only [GcdExt.usub_umul_div (2 ^ bits) s.a s.b ha]
    have := Nat.mod_lt s.a hb0
    omega
  · obtain ⟨m', hm', hc⟩ := matFrom_contract s.a s.b hba hb0
    rw [hm] at hm'
    cases hm'
    rcases Gcd.contract_cases s.a s.b m hc with h | h
    · exact absurd h hid
    · obtain ⟨c, d, happ, -, hdc, hdb, hca, -⟩ := apply_exact bits s.a s.b m ha hba h
      simp only [hid, if_false, happ] at hx
      cases h4 : Lehmer.apply bits m s.t0 s.t1 with
      | none => simp [h4] at hx
      | some p4 =>
        simp only [h4, Option.some.injEq] at hx
        subst hx
        dsimp only
        omega

/-- under the invariant the model loop does not depend on its fuel (it leaves through `b = 0`) -/
theorem invLoop_fuel (bits : ℕ) : ∀ (g g' : ℕ) (s : Modular.InvSt), s.a < 2 ^ bits → s.b ≤ s.a → s.b < g →
    s.b < g' → Modular.invLoop bits g s = Modular.invLoop bits g' s := by
  intro g
  induction g with
  | zero => intro g' s _ _ h; omega
  | succ g ih =>
    intro g' s ha hba hg hg'
    cases g' with
    | zero => omega
    | succ g' =>
      rw [Modular.invLoop, Modular.invLoop]
      by_cases hb : s.b = 0
      · rw [if_pos hb, if_pos hb]
      · rw [if_neg hb, if_neg hb]
        cases hm : matFrom s.a s.b with
        | none => rfl
        | some m =>
          dsimp only
          cases hx : Modular.invStep bits m s with
          | none => rfl
          | some s' =>
            obtain ⟨h1, h2, h3⟩ := invStep_dec bits m s s' ha hba hb hm hx
            exact ih g' s' h3 h2 (by omega) (by omega)

/-- **`algorithms::inv_mod` as generated (value mode)** = the C10 model -/
theorem inv_mod_eq (bits L num modulus : ℕ) (hn : num < 2 ^ bits) (hm : modulus < 2 ^ bits) (f : ℕ)
    (hf : modulus + 1 < f) :
    Ruint.Gen.val_inv_mod f bits L num modulus = Ruint.Modular.invMod bits num modulus := by
  have _ := hn
  unfold Ruint.Gen.val_inv_mod Ruint.Modular.invMod
  by_cases h0 : bits = 0 ∨ modulus = 0
  · have : ((bits == 0) || (modulus == 0)) = true := by
      rcases h0 with h | h <;> simp [h]
    simp only [this, if_true, h0]
  · have hne : ((bits == 0) || (modulus == 0)) = false := by
      push Not at h0
      simp [h0.1, h0.2]
    push Not at h0
    obtain ⟨hbits, hm0⟩ := h0
    have h0' : ¬ (bits = 0 ∨ modulus = 0) := by omega
    simp only [hne, Bool.false_eq_true, if_false, h0', one_mod bits hbits, decide_eq_true_eq]
    obtain ⟨b, hbdef⟩ : ∃ b, b = (if num ≥ modulus then num % modulus else num) := ⟨_, rfl⟩
    rw [← hbdef]
    have hbm : b < modulus := by
      rw [hbdef]
      by_cases h : num ≥ modulus
      · rw [if_pos h]; exact Nat.mod_lt _ (by omega)
      · rw [if_neg h]; omega
    by_cases hb0 : b = 0
    · simp [hb0]
    · have hbne : (b == 0) = false := by simp [hb0]
      simp only [hbne, Bool.false_eq_true, if_false, hb0]
      have hs := i_sim bits L f ⟨modulus, b, 0, 1, true⟩
      rw [invLoop_fuel bits f (b + 1) ⟨modulus, b, 0, 1, true⟩ hm (by dsimp only; omega) (by dsimp only; omega)
        (by dsimp only; omega)] at hs
      cases hl : Modular.invLoop bits (b + 1) ⟨modulus, b, 0, 1, true⟩ with
      | none =>
        rw [hl] at hs
        simp only [iRel, iTup] at hs
        simp only [hs, Option.getD_some]
      | some s' =>
        rw [hl] at hs
        simp only [iRel, iTup] at hs
        simp only [hs, Option.getD_none, Modular.wadd, beq_iff_eq]

end Ruint.GenGcd
