import Ruint.Lemmas.InvRing
import Ruint.Lemmas.GenMulWrap
import Ruint.Props.C01

/-! `inv_ring` of `src/mul.rs` as GENERATED from the source (the odd/zero-width guard, the `Wrapping<u64>` seed block with
    its four Newton steps, the doubling loop `result *= Self::from(2) - self * result`, `apply_mask`) equals the C02 model. -/
namespace Ruint.GenInvRing
open Ruint Ruint.Mul Ruint.Add Ruint.GenLehmer

/-- `wrapping_mul` of two `n`-limb lists is canonical (whatever the operands' top bits) -/
theorem wrappingMul_canon (bits : ℕ) (hb : 0 < bits) (a b : List ℕ) (ha : a.length = nlimbs bits) (hb' : b.length = nlimbs bits) :
    Canon bits (wrappingMul bits a b) := by
  obtain ⟨z1, _⟩ := zero_canon bits
  obtain ⟨r, hr, hlen, _, hw⟩ := (Limb.addmulN_spec W two_le_W (Add.zero bits) a b
    (by simpa only [allLtB_W] using z1.2.1)).1 ⟨by rw [z1.1, ha], by rw [z1.1, hb']⟩
  rw [z1.1] at hlen
  simp only [allLtB_W] at hw
  unfold wrappingMul
  simp only [hr, Option.getD_some, gt_iff_lt, hb, if_true]
  exact (maskTop_spec bits hb r hlen hw).1

theorem step_eq (fuel bits L : ℕ) (a r : List ℕ) (c : ℕ) :
    Ruint.Gen.uint_inv_ring_step1 fuel bits L a (r, c) =
      if c < L then
        ((Ruint.Gen.uint_wrapping_mul bits L r
            (Ruint.Gen.uint_wrapping_sub fuel bits L (Ruint.toLimbs L 2) (Ruint.Gen.uint_wrapping_mul bits L a r)),
          Rs.wmul 64 c 2), true)
      else ((r, c), false) := by
  unfold Ruint.Gen.uint_inv_ring_step1
  simp only [decide_eq_true_eq]

theorem loop_eq (bits : ℕ) (hN : nlimbs bits < 2 ^ 63) (a : List ℕ) (ha : a.length = nlimbs bits) :
    ∀ (f c : ℕ) (r : List ℕ), r.length = nlimbs bits → 1 ≤ c →
      (Rs.loop (Ruint.Gen.uint_inv_ring_step1 (nlimbs bits + 1) bits (nlimbs bits) a) f (r, c)).1
        = invLoop bits a f c r := by
  intro f
  induction f with
  | zero => intro c r _ _; simp [loop_zero, invLoop]
  | succ f ih =>
    intro c r hr hc
    rw [loop_succ, step_eq]
    unfold invLoop
    by_cases hlt : c < nlimbs bits
    · have hb : 65 ≤ bits := by unfold nlimbs at hlt; omega
      have hpos : 0 < bits := by omega
      have h2 := val_two bits (by omega)
      have hm1 := Ruint.GenMulWrap.wrapping_mul_eq bits (by omega) a r ha hr
      have hc1 := wrappingMul_canon bits hpos a r ha hr
      have hs := Ruint.GenUintWrap.wrapping_sub_eq bits (by omega) (two bits) (wrappingMul bits a r)
        h2.1.1 hc1.1 h2.1.2.1 hc1.2.1
      have htwo : Ruint.toLimbs (nlimbs bits) 2 = two bits := rfl
      have hsub_len : (wrappingSub bits (two bits) (wrappingMul bits a r)).length = nlimbs bits := by
        have := (Ruint.C01.wrapping_sub_spec bits (two bits) (wrappingMul bits a r) h2.1 hc1)
        exact this.1.1
      have hm2 := Ruint.GenMulWrap.wrapping_mul_eq bits (by omega) r
        (wrappingSub bits (two bits) (wrappingMul bits a r)) hr hsub_len
      have hw : Rs.wmul 64 c 2 = c * 2 := by unfold Rs.wmul; rw [Nat.mod_eq_of_lt (by omega)]
      simp only [hlt, if_true, htwo, hm1, hs, hm2, hw]
      exact ih (c * 2) _ (wrappingMul_canon bits hpos r _ hr hsub_len).1 (by omega : 1 ≤ c * 2)
    · simp [hlt]

theorem invLoop_succ (bits : ℕ) (a : List ℕ) (f c : ℕ) (r : List ℕ) :
    invLoop bits a (f + 1) c r =
      if c < nlimbs bits then
        invLoop bits a f (c * 2) (wrappingMul bits r (wrappingSub bits (two bits) (wrappingMul bits a r)))
      else r := rfl

theorem invLoop_fuel (bits : ℕ) (a : List ℕ) : ∀ (f c : ℕ) (r : List ℕ), nlimbs bits ≤ c * 2 ^ f →
    invLoop bits a (f + 1) c r = invLoop bits a f c r := by
  intro f
  induction f with
  | zero =>
    intro c r h
    simp only [pow_zero, Nat.mul_one] at h
    have : ¬ c < nlimbs bits := by omega
    simp [invLoop, this]
  | succ f ih =>
    intro c r h
    rw [invLoop_succ bits a (f + 1) c r, invLoop_succ bits a f c r]
    by_cases hlt : c < nlimbs bits
    · simp only [hlt, if_true]
      have h' : nlimbs bits ≤ c * 2 * 2 ^ f := by
        have e : c * 2 ^ (f + 1) = c * 2 * 2 ^ f := by rw [pow_succ]; ring
        omega
      exact ih (c * 2) _ h'
    · simp only [hlt, if_false]

theorem set_zero_eq_setLow (bits v : ℕ) : (List.replicate (nlimbs bits) 0).set 0 v = setLow bits v := by
  unfold setLow Add.zero
  cases nlimbs bits with
  | zero => simp
  | succ n => simp [List.replicate_succ]

theorem getD0_headD (a : List ℕ) : a.getD 0 0 = a.headD 0 := by cases a <;> simp

theorem invLoop_shape (bits : ℕ) (a : List ℕ) (ha : a.length = nlimbs bits) :
    ∀ (f c : ℕ) (r : List ℕ), r.length = nlimbs bits → AllLt r → 1 ≤ c →
      (invLoop bits a f c r).length = nlimbs bits ∧ AllLt (invLoop bits a f c r) := by
  intro f
  induction f with
  | zero => intro c r h1 h2 _; exact ⟨h1, h2⟩
  | succ f ih =>
    intro c r h1 h2 hc
    rw [invLoop_succ]
    by_cases hlt : c < nlimbs bits
    · have hb : 65 ≤ bits := by unfold nlimbs at hlt; omega
      have hpos : 0 < bits := by omega
      have h2' := val_two bits (by omega)
      have hc1 := wrappingMul_canon bits hpos a r ha h1
      have hsub_len : (wrappingSub bits (two bits) (wrappingMul bits a r)).length = nlimbs bits :=
        (Ruint.C01.wrapping_sub_spec bits (two bits) (wrappingMul bits a r) h2'.1 hc1).1.1
      have hc2 := wrappingMul_canon bits hpos r _ h1 hsub_len
      simp only [hlt, if_true]
      exact ih (c * 2) _ hc2.1 hc2.2.1 (by omega)
    · simp only [hlt, if_false]; exact ⟨h1, h2⟩

theorem newton_eq (n inv : ℕ) : Rs.wmul 64 inv (Rs.wsub 64 2 (Rs.wmul 64 n inv)) = newton64 n inv := rfl
theorem seed_eq (n : ℕ) : Rs.wmul 64 n 3 ^^^ 2 = ((n * 3) % W) ^^^ 2 := rfl

/-- **`Uint::inv_ring` as generated from the source** = the C02 model -/
theorem inv_ring_eq (bits : ℕ) (hN : nlimbs bits < 2 ^ 63) (a : List ℕ) (ha : a.length = nlimbs bits) :
    Ruint.Gen.uint_inv_ring (nlimbs bits + 1) bits (nlimbs bits) a = invRing bits a := by
  unfold Ruint.Gen.uint_inv_ring invRing
  have hand : (a.getD 0 0 &&& 1) = a.headD 0 % 2 := by rw [Nat.and_one_is_mod, getD0_headD]
  simp only [newton_eq, seed_eq, hand, set_zero_eq_setLow]
  rw [getD0_headD]
  have hi64 : ∀ n, newton64 n (newton64 n (newton64 n (newton64 n ((n * 3 % W) ^^^ 2)))) = inv64 n := fun _ => rfl
  rw [hi64]
  have hlt64 := inv64_lt (a.headD 0)
  generalize inv64 (a.headD 0) = iv at *
  generalize a.headD 0 = hd at *
  by_cases h0 : bits = 0
  · simp [h0]
  · have hpos : 0 < bits := Nat.pos_of_ne_zero h0
    have hne : (bits == 0) = false := by simp [h0]
    by_cases hodd : hd % 2 = 0
    · simp [hodd]
    · have hb2 : ((hd % 2) == 0) = false := by simp [hodd]
      simp only [hne, hb2, Bool.or_self, Bool.false_eq_true, if_false, h0, hodd, or_self]
      have hsl := setLow_spec bits iv hpos hlt64
      have hl := loop_eq bits hN a ha (nlimbs bits + 1) 1 (setLow bits iv) hsl.1 (by omega)
      rw [invLoop_fuel bits a (nlimbs bits) 1 _ (by have := Nat.lt_two_pow_self (n := nlimbs bits); omega)] at hl
      rw [hl]
      obtain ⟨s1, s2⟩ := invLoop_shape bits a ha (nlimbs bits) 1 (setLow bits iv) hsl.1 hsl.2.1 (by omega)
      rw [Ruint.GenShift.apply_mask_eq bits hpos (by omega) _ s1 s2]

end Ruint.GenInvRing
