import Ruint.Lemmas.Radix
import Ruint.Spec.Radix

/-! Lemmas for C09: `from_str_radix` / `FromStr` against the documented alphabets. -/
namespace Ruint.Radix
open Ruint Ruint.Spec.Radix

/-- the model's character classes as the specification's. -/
def toCls : CharClass → Cls
  | .digit d => .digit d
  | .ignored => .ignored
  | .bad => .bad

set_option maxRecDepth 100000 in
theorem ascii36 : ∀ n : Fin 128, toCls (classify 10 (Char.ofNat n)) = docClass 10 (Char.ofNat n) := by
  decide +kernel

set_option maxRecDepth 100000 in
theorem ascii64 : ∀ n : Fin 128, toCls (classify 64 (Char.ofNat n)) = docClass 64 (Char.ofNat n) := by
  decide +kernel

theorem classify_le36 (radix : ℕ) (h : radix ≤ 36) (c : Char) : classify radix c = classify 10 c := by
  simp [classify, h]

theorem classify_gt36 (radix : ℕ) (h : ¬ radix ≤ 36) (c : Char) : classify radix c = classify 64 c := by
  simp [classify, h]

theorem docClass_le36 (radix : ℕ) (h : radix ≤ 36) (c : Char) : docClass radix c = docClass 10 c := by
  simp [docClass, h]

theorem docClass_gt36 (radix : ℕ) (h : ¬ radix ≤ 36) (c : Char) : docClass radix c = docClass 64 c := by
  simp [docClass, h]

theorem toLower_big (c : Char) (h : 128 ≤ c.toNat) : c.toLower = c := by
  unfold Char.toLower
  split
  · rename_i h2
    exfalso
    obtain ⟨_, h2⟩ := h2
    have h3 : c.val.toNat ≤ 'Z'.val.toNat := UInt32.le_iff_toNat_le.mp h2
    have e : c.toNat = c.val.toNat := rfl
    have : 'Z'.val.toNat = 90 := by decide
    omega
  · rfl

theorem ne_of_toNat_lt (c x : Char) (h : x.toNat < c.toNat) : c ≠ x := by
  intro e; subst e; omega

theorem inRange_false (lo hi c : Char) (h : hi.toNat < c.toNat) : inRange lo hi c = false := by
  simp [inRange]; omega

theorem alnum36_ascii : ∀ x ∈ alnum36, x.toNat < 128 := by decide
theorem b64_ascii : ∀ x ∈ b64, x.toNat < 128 := by decide

theorem classify_big (radix : ℕ) (c : Char) (h : 128 ≤ c.toNat) :
    classify radix c = .bad ∧ docClass radix c = .bad := by
  have r1 := inRange_false '0' '9' c (by have : '9'.toNat = 57 := by decide
                                         omega)
  have r2 := inRange_false 'a' 'z' c (by have : 'z'.toNat = 122 := by decide
                                         omega)
  have r3 := inRange_false 'A' 'Z' c (by have : 'Z'.toNat = 90 := by decide
                                         omega)
  have r4 := inRange_false 'a' 'f' c (by have : 'f'.toNat = 102 := by decide
                                         omega)
  have ne : ∀ x : Char, x.toNat < 128 → c ≠ x := fun x hx => ne_of_toNat_lt c x (by omega)
  have e1 := ne '_' (by decide)
  have e2 := ne '+' (by decide)
  have e3 := ne '-' (by decide)
  have e4 := ne '/' (by decide)
  have e5 := ne ',' (by decide)
  have e6 := ne '=' (by decide)
  have e7 := ne '\r' (by decide)
  have e8 := ne '\n' (by decide)
  have m1 : c ∉ alnum36 := fun hm => by have := alnum36_ascii c hm; omega
  have m2 : c ∉ b64 := fun hm => by have := b64_ascii c hm; omega
  have i1 : alnum36.idxOf c = 36 := by rw [List.idxOf_eq_length m1]; decide
  have i2 : b64.idxOf c = 62 := by rw [List.idxOf_eq_length m2]; decide
  constructor
  · unfold classify
    simp [r1, r2, r3, e1, e2, e3, e4, e5, e6, e7, e8]
  · unfold docClass
    simp [toLower_big c h, i1, i2, e1, e2, e3, e4, e5, e6, e7, e8]

/-- **the code's two `match c` tables are exactly the documented alphabets**, for every radix and every character. -/
theorem classify_eq_doc (radix : ℕ) (c : Char) : toCls (classify radix c) = docClass radix c := by
  by_cases hc : c.toNat < 128
  · by_cases hr : radix ≤ 36
    · rw [classify_le36 _ hr, docClass_le36 _ hr]
      have := ascii36 ⟨c.toNat, hc⟩
      simpa [Char.ofNat_toNat] using this
    · rw [classify_gt36 _ hr, docClass_gt36 _ hr]
      have := ascii64 ⟨c.toNat, hc⟩
      simpa [Char.ofNat_toNat] using this
  · obtain ⟨h1, h2⟩ := classify_big radix c (by omega)
    rw [h1, h2]; rfl

theorem classify_digit_iff (radix : ℕ) (c : Char) (d : ℕ) : classify radix c = .digit d ↔ docClass radix c = .digit d := by
  rw [← classify_eq_doc]; cases classify radix c <;> simp [toCls]

theorem classify_ignored_iff (radix : ℕ) (c : Char) : classify radix c = .ignored ↔ docClass radix c = .ignored := by
  rw [← classify_eq_doc]; cases classify radix c <;> simp [toCls]

theorem classify_bad_iff (radix : ℕ) (c : Char) : classify radix c = .bad ↔ docClass radix c = .bad := by
  rw [← classify_eq_doc]; cases classify radix c <;> simp [toCls]

/-- a string inside the alphabet: the digit stream is the documented digit values, the latch stays empty. -/
theorem scan_docDigits (radix : ℕ) : ∀ (src : List Char) (ds : List ℕ),
    docDigits radix src = some ds → scan radix src = (ds, none) := by
  intro src
  induction src with
  | nil => intro ds h; simp [docDigits] at h; subst h; rfl
  | cons c cs ih =>
    intro ds h
    unfold docDigits at h
    unfold scan
    cases hcl : classify radix c with
    | digit d =>
      have hd := (classify_digit_iff radix c d).mp hcl
      rw [hd] at h
      cases hr : docDigits radix cs with
      | none => rw [hr] at h; simp at h
      | some ds' =>
        rw [hr] at h
        simp only [Option.some.injEq] at h
        subst h
        simp [ih ds' hr]
    | ignored =>
      have hd := (classify_ignored_iff radix c).mp hcl
      rw [hd] at h
      cases hr : docDigits radix cs with
      | none => rw [hr] at h; simp at h
      | some ds' =>
        rw [hr] at h
        simp only [Option.some.injEq] at h
        subst h
        simpa using ih ds' hr
    | bad =>
      have hd := (classify_bad_iff radix c).mp hcl
      rw [hd] at h
      simp at h

/-- the first character outside the alphabet stops the digit stream and is latched. -/
theorem scan_bad (radix : ℕ) : ∀ (pre : List Char) (ds : List ℕ) (c : Char) (post : List Char),
    docDigits radix pre = some ds → docClass radix c = .bad → scan radix (pre ++ c :: post) = (ds, some c) := by
  intro pre
  induction pre with
  | nil =>
    intro ds c post h hc
    simp [docDigits] at h; subst h
    have := (classify_bad_iff radix c).mpr hc
    simp [scan, this]
  | cons p pre ih =>
    intro ds c post h hc
    unfold docDigits at h
    simp only [List.cons_append]
    unfold scan
    cases hcl : classify radix p with
    | digit d =>
      have hd := (classify_digit_iff radix p d).mp hcl
      rw [hd] at h
      cases hr : docDigits radix pre with
      | none => rw [hr] at h; simp at h
      | some ds' =>
        rw [hr] at h
        simp only [Option.some.injEq] at h
        subst h
        simp [ih ds' c post hr hc]
    | ignored =>
      have hd := (classify_ignored_iff radix p).mp hcl
      rw [hd] at h
      cases hr : docDigits radix pre with
      | none => rw [hr] at h; simp at h
      | some ds' =>
        rw [hr] at h
        simp only [Option.some.injEq] at h
        subst h
        simpa using ih ds' c post hr hc
    | bad =>
      have hd := (classify_bad_iff radix p).mp hcl
      rw [hd] at h
      simp at h

/-- every string is either inside the alphabet or has a first character outside it. -/
theorem docDigits_none (radix : ℕ) : ∀ (src : List Char), docDigits radix src = none →
    ∃ pre ds c post, src = pre ++ c :: post ∧ docDigits radix pre = some ds ∧ docClass radix c = .bad := by
  intro src
  induction src with
  | nil => intro h; simp [docDigits] at h
  | cons c cs ih =>
    intro h
    cases hc : docClass radix c with
    | bad => exact ⟨[], [], c, cs, rfl, rfl, hc⟩
    | ignored =>
      cases hr : docDigits radix cs with
      | some ds' => unfold docDigits at h; rw [hc, hr] at h; simp at h
      | none =>
        obtain ⟨pre, ds, b, post, e1, e2, e3⟩ := ih hr
        refine ⟨c :: pre, ds, b, post, by rw [e1]; rfl, ?_, e3⟩
        unfold docDigits; rw [hc, e2]
    | digit d =>
      cases hr : docDigits radix cs with
      | some ds' => unfold docDigits at h; rw [hc, hr] at h; simp at h
      | none =>
        obtain ⟨pre, ds, b, post, e1, e2, e3⟩ := ih hr
        refine ⟨c :: pre, d :: ds, b, post, by rw [e1]; rfl, ?_, e3⟩
        unfold docDigits; rw [hc, e2]

/-! ## `FromStr` prefix sniffing -/

theorem fromStr_sniff (bits : ℕ) (src : List Char) :
    fromStr bits src = fromStrRadix bits (sniff src).2 (sniff src).1 := by
  have s0 : '0'.utf8Size = 1 := by decide
  match src with
  | [] => simp [fromStr, isCharBoundary, sniff]
  | [c] =>
    have hp := c.utf8Size_pos
    have e : sniff [c] = ([c], 10) := rfl
    rw [e]
    unfold fromStr
    by_cases h2 : c.utf8Size = 2
    · have : isCharBoundary [c] 2 = true := by simp [isCharBoundary, h2]
      simp [this, splitAtByte, h2]
    · have : isCharBoundary [c] 2 = false := by
        unfold isCharBoundary
        by_cases h3 : 1 + 1 < c.utf8Size
        · simp [h3]
        · have h1 : c.utf8Size = 1 := by omega
          simp [h1, isCharBoundary]
      simp [this]
  | c0 :: c1 :: r =>
    have hp0 := c0.utf8Size_pos
    have hp1 := c1.utf8Size_pos
    unfold fromStr
    by_cases h01 : c0.utf8Size = 1
    · by_cases h11 : c1.utf8Size = 1
      · have hb : isCharBoundary (c0 :: c1 :: r) 2 = true := by
          simp [isCharBoundary, h01, h11]
        have hs : splitAtByte (c0 :: c1 :: r) 2 = ([c0, c1], r) := by
          simp [splitAtByte, h01, h11]
        simp only [hb, if_true, hs, sniff, List.cons.injEq, and_true]
        by_cases a : c0 = '0' ∧ (c1 = 'x' ∨ c1 = 'X')
        · simp [a]
        · have a' : ¬ ((c0 = '0' ∧ c1 = 'x') ∨ (c0 = '0' ∧ c1 = 'X')) := by tauto
          simp only [a, a', if_false]
          by_cases b : c0 = '0' ∧ (c1 = 'o' ∨ c1 = 'O')
          · simp [b]
          · have b' : ¬ ((c0 = '0' ∧ c1 = 'o') ∨ (c0 = '0' ∧ c1 = 'O')) := by tauto
            simp only [b, b', if_false]
            by_cases d : c0 = '0' ∧ (c1 = 'b' ∨ c1 = 'B')
            · simp [d]
            · have d' : ¬ ((c0 = '0' ∧ c1 = 'b') ∨ (c0 = '0' ∧ c1 = 'B')) := by tauto
              simp [d, d']
      · -- byte 2 is inside the second character: no prefix; the documented prefixes are ASCII
        have hb : isCharBoundary (c0 :: c1 :: r) 2 = false := by
          have : 1 < c1.utf8Size := by omega
          simp [isCharBoundary, h01, this]
        have n1 : ∀ x : Char, x.utf8Size = 1 → c1 ≠ x := fun x hx e => h11 (e ▸ hx)
        have := n1 'x' (by decide); have := n1 'X' (by decide); have := n1 'o' (by decide)
        have := n1 'O' (by decide); have := n1 'b' (by decide); have := n1 'B' (by decide)
        simp [sniff, *]
    · have n0 : c0 ≠ '0' := fun e => h01 (e ▸ s0)
      have hs : sniff (c0 :: c1 :: r) = (c0 :: c1 :: r, 10) := by simp [sniff, n0]
      rw [hs]
      by_cases h02 : c0.utf8Size = 2
      · have hb : isCharBoundary (c0 :: c1 :: r) 2 = true := by simp [isCharBoundary, h02]
        have hsp : splitAtByte (c0 :: c1 :: r) 2 = ([c0], c1 :: r) := by simp [splitAtByte, h02]
        simp [hb, hsp]
      · have hb : isCharBoundary (c0 :: c1 :: r) 2 = false := by
          have : 1 + 1 < c0.utf8Size := by omega
          simp [isCharBoundary, this]
        simp [hb]

end Ruint.Radix
