/-! Fixed-width word semantics used by the generated definitions (hand-written, fixed). -/
namespace Rs
/-- `a + b` at width `w`, wrapping. -/
def wadd (w a b : Nat) : Nat := (a + b) % 2 ^ w
/-- `a - b` at width `w`, wrapping (operands are `w`-bit words). -/
def wsub (w a b : Nat) : Nat := (a + 2 ^ w - b) % 2 ^ w
def wmul (w a b : Nat) : Nat := (a * b) % 2 ^ w
/-- `a << k` at width `w` (bits shifted out are lost). -/
def wshl (w a k : Nat) : Nat := (a * 2 ^ k) % 2 ^ w
def wneg (w a : Nat) : Nat := (2 ^ w - a) % 2 ^ w
def oadd (w a b : Nat) : Nat × Bool := ((a + b) % 2 ^ w, decide (2 ^ w ≤ a + b))
def osub (w a b : Nat) : Nat × Bool := ((a + 2 ^ w - b) % 2 ^ w, decide (a < b))
def omul (w a b : Nat) : Nat × Bool := ((a * b) % 2 ^ w, decide (2 ^ w ≤ a * b))
/-- number of leading zero bits of a `w`-bit word -/
def clz (w a : Nat) : Nat := w - Nat.log2 a - (if a = 0 then 0 else 1)
/-- number of one bits (words of at most 128 bits) -/
def popAux : Nat → Nat → Nat
  | 0, _ => 0
  | f + 1, x => x % 2 + popAux f (x / 2)
def popcnt (a : Nat) : Nat := popAux 128 a
/-- number of trailing zero bits of a `w`-bit word (`w` for zero) -/
def ctzAux : Nat → Nat → Nat
  | 0, _ => 0
  | f + 1, x => if x % 2 = 1 then 0 else ctzAux f (x / 2) + 1
def ctz (w a : Nat) : Nat := if a = 0 then w else ctzAux w a
/-- `reverse_bits` of a `w`-bit word -/
def revAux : Nat → Nat → Nat → Nat
  | 0, _, acc => acc
  | f + 1, x, acc => revAux f (x / 2) (2 * acc + x % 2)
def rev (w a : Nat) : Nat := revAux w a 0
/-- `iter().position(p)` -/
def position (p : Nat → Bool) : List Nat → Option Nat
  | [] => none
  | x :: xs => if p x then some 0 else (position p xs).map (· + 1)
/-- `iter().rposition(p)`: index of the last element satisfying `p` -/
def rposition (p : Nat → Bool) : List Nat → Option Nat
  | [] => none
  | x :: xs =>
    match rposition p xs with
    | some i => some (i + 1)
    | none => if p x then some 0 else none
/-- iterate `step` (new state, continue?) at most `fuel` times, stopping when it says so -/
def loop {σ : Type} (step : σ → σ × Bool) : Nat → σ → σ
  | 0, s => s
  | fuel + 1, s => if (step s).2 then loop step fuel (step s).1 else (step s).1
end Rs
