import Ruint.Gen.LehmerConsts
import Ruint.Model.Lehmer
/-! Facts about the generated Lehmer literals (`Ruint/Gen/LehmerConsts.lean`, regenerated from
    `src/algorithms/gcd/matrix.rs` on every run): they are the literals the hand-written model uses.
    This file is not generated; it is re-checked whenever the generated constants change, so a changed `LIMIT`, packing
    shift, top-bit assertion, identity constant or prefix threshold in the source breaks a proof obligation here. Core Lean only. -/
namespace Ruint.Gen.LehmerFacts
open Ruint.Gen.LehmerConsts

/-- the source literals are the model's: `LIMIT = 2^32` with `LIMIT² = 2^64` (both SWAR halves of a `u64`), the
    initial packed words, every unpacking shift is `log2 LIMIT`, the top-bit precondition, the identity matrix, and the
    prefix thresholds / shifts of `Matrix::from` and `from_u128_prefix`. -/
theorem consts_match :
    LIMIT = Ruint.Lehmer.LIMIT ∧ LIMIT * LIMIT = Ruint.W
    ∧ K0 = 1 * Ruint.Lehmer.LIMIT + 0 ∧ K1 = 0 * Ruint.Lehmer.LIMIT + 1
    ∧ unpackShifts.all (fun s => 2 ^ s == Ruint.Lehmer.LIMIT) = true
    ∧ TOP = 2 ^ 63 ∧ IDENTITY = Ruint.Lehmer.ident
    ∧ fromT1 = 64 ∧ fromT2 = 128 ∧ fromShiftA = 128 ∧ fromShiftB = 128 ∧ wordShift0 = 64 ∧ wordShift1 = 64 := by
  decide

end Ruint.Gen.LehmerFacts
