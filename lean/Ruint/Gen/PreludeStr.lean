/-! `str` operations on the list of a string's code points (hand-written, fixed). -/
namespace Rs
/-- number of bytes of the UTF-8 encoding of a code point -/
def utf8Size (c : Nat) : Nat := if c < 0x80 then 1 else if c < 0x800 then 2 else if c < 0x10000 then 3 else 4
/-- `str::len()`: the number of bytes of the UTF-8 encoding -/
def utf8Len : List Nat → Nat
  | [] => 0
  | c :: cs => utf8Size c + utf8Len cs
/-- `str::is_char_boundary(k)`: byte offset `k` is the start of a character or the end of the string -/
def isCharBoundary : List Nat → Nat → Bool
  | _, 0 => true
  | [], _ + 1 => false
  | c :: cs, k + 1 => if k + 1 < utf8Size c then false else isCharBoundary cs (k + 1 - utf8Size c)
/-- `str::split_at(k)` at a character boundary: the characters before byte `k`, and the rest -/
def splitAtByte : List Nat → Nat → List Nat × List Nat
  | cs, 0 => ([], cs)
  | [], _ + 1 => ([], [])
  | c :: cs, k + 1 =>
    if k + 1 < utf8Size c then ([], c :: cs)
    else let p := splitAtByte cs (k + 1 - utf8Size c); (c :: p.1, p.2)
end Rs
