/-! `Result` helpers used by generated `match`es on `Ok` / `Err` patterns (hand-written, fixed). -/
namespace Rs
def isOk {ε α : Type} : Except ε α → Bool
  | .ok _ => true
  | .error _ => false
def okD {ε α : Type} (d : α) : Except ε α → α
  | .ok a => a
  | .error _ => d
def errD {ε α : Type} (d : ε) : Except ε α → ε
  | .ok _ => d
  | .error e => e
end Rs
