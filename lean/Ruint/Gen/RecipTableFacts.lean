import Ruint.Model.DivRecip
/-!
Proof obligation tied to the GENERATED table `Ruint/Gen/RecipTable.lean` (extracted from
`src/algorithms/div/reciprocal.rs` on every run): everything the error analysis of `reciprocal_mg10`
(`Ruint/Lemmas/Div/Recip.lean`) needs from the table, for all 256 rows, by kernel evaluation.
The reciprocal theorem uses the table only through these facts, so a changed entry breaks an obligation
exactly when the per-row inequalities fail. Core Lean only (no Mathlib): `Int`, `Nat`.
-/
namespace Ruint.Div.Recip

/-- everything the analysis needs from the table, for all 256 rows, by kernel evaluation -/
theorem table_facts : ∀ i : Fin 256,
    let v0 : Int := (TABLE[i.val]! : Nat)
    let a : Int := (aRow i.val : Nat)
    let lo : Int := (rowLo i.val : Nat)
    let hi : Int := (rowHi i.val : Nat)
    1024 ≤ v0 ∧ v0 ≤ 2045 ∧ a < 16 * 256 ∧
    0 ≤ (256 * (2 ^ 11 * v0 - 1) + a) * lo * 2 ^ 40 - 256 * (v0 * v0) * lo * lo - 256 * 2 ^ 100 ∧
    0 ≤ (256 * (2 ^ 11 * v0 - 1) + a) * hi * 2 ^ 40 - 256 * (v0 * v0) * hi * hi - 256 * 2 ^ 100 ∧
    a * a * hi ≤ 3 * 2 ^ 45 * (256 * 256) := by
  decide +kernel

end Ruint.Div.Recip
