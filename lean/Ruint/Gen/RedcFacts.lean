import Ruint.Gen.RedcConsts
/-! Facts about the generated Montgomery thresholds (`Ruint/Gen/RedcConsts.lean`, regenerated from
    `src/algorithms/mul_redc.rs` on every run) that the C11 theorems take as hypotheses.
    This file is not generated; it is re-checked whenever the generated constants change, so a changed
    threshold or comparison operator in the source breaks a proof obligation here. Core Lean only. -/
namespace Ruint.Gen.RedcFacts
open Ruint.Gen.RedcConsts

/-- `mul_redc` drops the extra carry only when `2·(top+1) ≤ 2^64`, i.e. `2·Mod ≤ 2^(64N)`. -/
theorem keepMul_sound (top : Nat) (h : keepMul top = false) : 2 * (top + 1) ≤ 2 ^ 64 := by
  unfold keepMul at h
  have h' := of_decide_eq_false h
  unfold T_mul at h'
  omega

/-- `square_redc` takes the narrow arm only when `3·(top+1) ≤ 2^64`, i.e. `3·Mod ≤ 2^(64N)` (the accumulator is
    always below `3·Mod`, so it then fits `N` limbs). -/
theorem keepSq_sound (top : Nat) (h : keepSq top = false) : 3 * (top + 1) ≤ 2 ^ 64 := by
  unfold keepSq at h
  have h' := of_decide_eq_false h
  unfold T_sq at h'
  omega

end Ruint.Gen.RedcFacts
