/-!
# Ruint.Base — shared foundations (core Lean only, no Mathlib: links into the driver executables)

* `W = 2^64`, little-endian limb lists `List Nat`, `val`, `toLimbs`, `nlimbs`, `mask`
* hex I/O for the line protocol, and the driver loop used by every `Ruint/Drv/Cxx.lean`.
-/
namespace Ruint

/-- The limb base. -/
def W : Nat := 2 ^ 64

/-- Value of a little-endian limb list in base `2^64`. -/
def val : List Nat → Nat
  | [] => 0
  | x :: xs => x + W * val xs

@[simp] theorem val_nil : val [] = 0 := rfl
@[simp] theorem val_cons (x : Nat) (xs : List Nat) : val (x :: xs) = x + W * val xs := rfl

/-- Value of a little-endian digit list in an arbitrary base (used by the generic-base kernels). -/
def valB (B : Nat) : List Nat → Nat
  | [] => 0
  | x :: xs => x + B * valB B xs

/-- `nlimbs` of `src/lib.rs`. -/
def nlimbs (bits : Nat) : Nat := (bits + 63) / 64

/-- `mask` of `src/lib.rs`: mask of the top limb. -/
def mask (bits : Nat) : Nat :=
  if bits = 0 then 0
  else if bits % 64 = 0 then W - 1
  else 2 ^ (bits % 64) - 1

/-- the `n` low limbs of `v`, little-endian. -/
def toLimbs : Nat → Nat → List Nat
  | 0, _ => []
  | n + 1, v => v % W :: toLimbs n (v / W)

@[simp] theorem toLimbs_length (n v : Nat) : (toLimbs n v).length = n := by
  induction n generalizing v with
  | zero => rfl
  | succ n ih => simp [toLimbs, ih]

/-- All limbs are words. -/
def AllLt (l : List Nat) : Prop := ∀ x ∈ l, x < W

/-- A canonical `Uint<bits>`: right number of limbs, limbs are words, value below `2^bits`. -/
def Canon (bits : Nat) (l : List Nat) : Prop :=
  l.length = nlimbs bits ∧ AllLt l ∧ val l < 2 ^ bits

/-- apply the top-limb mask (`masked()` / `apply_mask`): last limb `&= mask`. For a word `t`,
    `t &&& (2^k - 1) = t % 2^k`; the model uses `%` with the mask's modulus. -/
def maskTop (bits : Nat) : List Nat → List Nat
  | [] => []
  | [t] => [t % (mask bits + 1)]
  | x :: xs => x :: maskTop bits xs

/-! ## hex I/O -/

def hexVal (c : Char) : Nat :=
  if '0' ≤ c ∧ c ≤ '9' then c.toNat - '0'.toNat
  else if 'a' ≤ c ∧ c ≤ 'f' then c.toNat - 'a'.toNat + 10
  else if 'A' ≤ c ∧ c ≤ 'F' then c.toNat - 'A'.toNat + 10
  else 0

/-- parse a chunk of at most 15 hex digits with small-number arithmetic. -/
def parseHexSmall (cs : List Char) : Nat := cs.foldl (fun a c => a * 16 + hexVal c) 0

/-- parse big-endian hex (no prefix). Chunked so big numbers cost one shift per 60 bits. -/
partial def parseHexList (cs : List Char) (acc : Nat) : Nat :=
  match cs with
  | [] => acc
  | _ =>
    let chunk := cs.take 15
    let rest := cs.drop 15
    parseHexList rest (acc * 16 ^ chunk.length + parseHexSmall chunk)

def parseHex (s : String) : Nat := parseHexList s.toList 0

def hexChar (d : Nat) : Char :=
  if d < 10 then Char.ofNat (d + 48) else Char.ofNat (d - 10 + 97)

/-- 16 hex digits of a word, most significant first. -/
def hexWord (w : Nat) : List Char :=
  (List.range 16).map fun i => hexChar ((w / 16 ^ (15 - i)) % 16)

def dropZeros : List Char → List Char
  | '0' :: (c :: cs) => dropZeros (c :: cs)
  | l => l

partial def toHexLimbs (v : Nat) (acc : List Char) : List Char :=
  if v = 0 then acc else toHexLimbs (v / W) (hexWord (v % W) ++ acc)

/-- lower-case big-endian hex without prefix; `"0"` for zero. -/
def toHex (v : Nat) : String :=
  if v = 0 then "0" else String.ofList (dropZeros (toHexLimbs v []))

/-- decimal parse of a small natural (bit widths, lengths, amounts). -/
def parseDec (s : String) : Nat := s.toList.foldl (fun a c => a * 10 + (c.toNat - 48)) 0

def boolStr (b : Bool) : String := if b then "t" else "f"

/-- limb list written as comma-separated hex words (`-` for the empty list). -/
def limbsStr (l : List Nat) : String :=
  if l.isEmpty then "-" else ",".intercalate (l.map toHex)

def parseLimbs (s : String) : List Nat :=
  if s = "-" then [] else (s.splitOn ",").map parseHex

/-! ## driver loop

Input: one case per line, `case<TAB>impl` where `case` is the space-separated protocol line and
`impl` the implementation's canonical output for it (so that predicate-style specs can judge the
implementation's actual output). Output per line: `model<TAB>spec`. -/

partial def driverLoop (hin : IO.FS.Stream) (hout : IO.FS.Stream)
    (f : List String → String → String × String) : IO Unit := do
  let line ← hin.getLine
  if line.isEmpty then return ()
  let line := (line.dropEndWhile (fun c => c = '\n' || c = '\r')).toString
  let (c, impl) := match line.splitOn "\t" with
    | [c] => (c, "")
    | c :: i :: _ => (c, i)
    | [] => ("", "")
  let args := (c.splitOn " ").filter (· ≠ "")
  let (m, s) := f args impl
  hout.putStrLn (m ++ "\t" ++ s)
  driverLoop hin hout f

def driverMain (f : List String → String → String × String) : IO Unit := do
  let hin ← IO.getStdin
  let hout ← IO.getStdout
  driverLoop hin hout f
  hout.flush

end Ruint
