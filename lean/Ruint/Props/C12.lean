import Ruint.Model.Gcd

/-! # C12 — gcd, lcm, gcd_extended, Lehmer update matrices (theorems being re-homed; placeholder) -/
namespace Ruint.C12
open Ruint Ruint.Lehmer Ruint.Gcd

theorem gcd_zero_right (bits a : Nat) : gcd bits a 0 = some a := by
  simp [gcd, gcdLoop]

end Ruint.C12
